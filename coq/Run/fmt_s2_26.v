From FP Require Import Lexer Parser ShowPT Digest Formatter.
From Coq Require Import String List NArith.
Import ListNotations.
Open Scope string_scope.
Set Printing Width 100000000.
Set Printing Depth 100000000.
Definition show_fres (r : fres) : string :=
  match r with
  | FOk s => "OK:" ++ sh_escaped s ""
  | FErr s => "ERR:" ++ sh_escaped s ""
  | FPanic p => "PANIC:" ++ p
  end.
Definition check (rs : list rune) : string := digest (show_fres (format_res rs)).
Definition full (rs : list rune) : string := show_fres (format_res rs).
Eval vm_compute in ("<<<M3564>>>" ++ check (runes_of_ascii "// " ++ [128512]%N ++ runes_of_ascii " emoji
packet f32a {
    falsey,
}

packet metadata {
    @lengthOf(tag)
    u8 A @calculatedFrom(""" ++ [28040; 24687]%N ++ runes_of_ascii """) `// not a comment`,
    @calculatedFrom(""" ++ [28040; 24687]%N ++ runes_of_ascii """)
    i64 i64_ @calculatedFrom(""abc"") `a\`,
    u8 u128,
    string_ `line1
        line2`,
    @calculatedFrom(""\" ++ [233]%N ++ runes_of_ascii """)
    @calculatedFrom(""it's"")
    @calculatedFrom(""\n"")
    repeat pack {
        zchar[0] Foo @lengthOf(uint8x),
        float32 x,
    },
    repeat roots `a\`,
    f64 Header @calculatedFrom(""// no comment""),
    zchar[42] zchar,
    options1 o `" ++ [28040; 24687; 31867; 22411]%N ++ runes_of_ascii "`,
    repeat zchar[7] len,// " ++ [27880; 37322]%N ++ runes_of_ascii "
}

packet MetaDataX {
    @calculatedFrom(""a	b"")
    repeat u128 {
        match rootA as crc {
            007 : pack,
            10 : u8x,
            ""a\\"" : falsey,
            [
                0, 42, 255, 10, ""{,}"",
                """ ++ [233]%N ++ runes_of_ascii "t" ++ [233]%N ++ runes_of_ascii """, ""\n"", ""// no comment""
            ] : leftPad,
            ""1"" : x_y_z,
            7 : Z9_,
        },
    },
    msg_type {
        repeat char[] Pad,/// triple
        uint16 body,
    },
    // `tick` ""quote"" 'q'
    uint16 u @lengthOf(leftPad),
    @tag(255)
    repeat u128 {
        repeat string_,
        repeatCount pack,
        repeat stringy {
            zchar[10] crc `doc`,
            i16 leftPad @calculatedFrom(""it's"") `
                        `,
            tag {
                repeat char[] repeatCount `u8 x,`,
                match stringy as Foo {
                    1 : asx,
                },
                match i64_ as Packet {
                    ""a\""b"" : Pad,
                    ""a\\"" : o,
                    [
                        0, 0123456789, 7, 1, 1,
                        7
                    ] : matchKey,
                },
            },
        },
        i64 body @lengthOf(metadata) `u8 x,`,
    },
    string crc `two words`,
    @lengthOf(charz)
    @calculatedFrom(""" ++ [233]%N ++ runes_of_ascii "t" ++ [233]%N ++ runes_of_ascii """)
    match string_ as stringy {
        // @lengthOf(
        [0] : pack,
        ""CRC32"" : crc,
        1 : int,
    },
    repeat u8 matchKey ``,
    repeat int8 matchKey,
    Header crc,
}// `tick` ""quote"" 'q'")).
Eval vm_compute in ("<<<M4496>>>" ++ check (runes_of_ascii "// trailing space 
root packet options1 {
    match u8x as tag {
        1 : As,
    },
}// " ++ [128512]%N ++ runes_of_ascii " emoji

root packet roots {
    MetaDataX @calculatedFrom(""abc""),//
    repeat zchar uint8x,
    u8x roots,// packet A { u8 x, }
    a1 `u8 x,`,
    float32 int @lengthOf(metadata) `a\`,
    match charz as i8i8 {
        42 : Pad,
        [10, ""1""] : pack,
    },
    repeat Header,
}

packet repeatCount {
    @lengthOf(metadata)
    @calculatedFrom(""CRC32"")
    @lengthOf(x_y_z)
    As @lengthOf(u128),
    @calculatedFrom(""a	b"")
    // " ++ [27880; 37322]%N ++ runes_of_ascii "
    o {
        A @calculatedFrom(""CRC32"") `it's`,
        body `{ , }`,
    },
    @calculatedFrom(""packet"")
    @lengthOf(A)
    @tag(255)
    repeat BodyLength trueish,
    u {
        Pad {
            string repeatCount ``,
        },
    },
    @tag(4294967296)
    @tag(10)
    repeat zchar tag,
    repeat crc {
        repeat tag T `" ++ [28040; 24687; 31867; 22411]%N ++ runes_of_ascii "`,//
        match matchKey as crc {
            4294967296 : tag,
            """ ++ [128512]%N ++ runes_of_ascii """ : Packet,
            65535 : uint8x,
        },
        pack {
            f32 zchar @calculatedFrom(""abc""),
        },
        match zchar as options1 {
            //
            // @lengthOf(
            0123456789 : x,
            007 : repeatCount,
            [0123456789, ""packet"", ""// no comment"", ""x y""] : Header,
            3 : MetaDataX,
            ""// no comment"" : len,
            [0] : Header,
        },
    },
    repeat f32a {
        repeat Header,// " ++ [27880; 37322]%N ++ runes_of_ascii "
        calculatedFrom {
            a1 {
                leftPad `say ""hi""`,
                zchar[255] f32a @calculatedFrom(""\n"") `// not a comment`,
                Foo @lengthOf(o) `" ++ [233]%N ++ runes_of_ascii "`,
            },
        },
    },
}")).
Eval vm_compute in ("<<<M3695>>>" ++ check (runes_of_ascii "packet a1 {
    repeat uint8x {
        zchar[3] metadata @lengthOf(chars) `it's`,
        u8 packetx @calculatedFrom(""CRC32"") `two words`,
        repeat leftPad {
            match MetaDataX as f32a {
                [4294967296] : packetx,
                255 : As,
                [007, 7, ""\n"", ""\" ++ [233]%N ++ runes_of_ascii """, """ ++ [128512]%N ++ runes_of_ascii """] : float,
                0123456789 : u128,
                ""a\""b"" : calculatedFrom,
            },
            match len as u {
                [42, 4294967296] : a1,
                ""it's"" : rootA,
                7 : lengthOf,
                ""`tick`"" : rootA,
                4294967296 : calculatedFrom,
            },
            repeat string MetaDataX `it's`,
        },
        uint16 uint8x,
    },
    string_ @lengthOf(u),
    zchar[0123456789] pack @calculatedFrom("""") `u8 x,`,
    @lengthOf(x_y_z)
    @lengthOf(u128)
    @tag(007)
    zchar[10] _x `doc`,
    string BodyLength,
    // `tick` ""quote"" 'q'
    // `tick` ""quote"" 'q'
    i64 msg_type `u8 x,`,
    f64 Pad `say ""hi""`,
    string float,
    f64 lengthOf @calculatedFrom(""" ++ [28040; 24687]%N ++ runes_of_ascii """),// " ++ [128512]%N ++ runes_of_ascii " emoji
}

options {
    // packet A { u8 x, }
    matchKey = f32;
}

packet Foo {
    repeat T,
    repeat string_ {
        i16 uint8x,
    },
    repeat falsey A `doc`,
    repeat lengthOf i8i8 `tab	here`,
    repeat char[10] x_y_z ``,//	t
    @leftPad()
    @rightPad()
    options1 `doc`,
    u32 packetx,
    u8 float `crlf
    line`,
}

packet tag {
}")).
Eval vm_compute in ("<<<M681>>>" ++ check (runes_of_ascii "options {	charz ='\x00'
string_ = true
    ; Z9_ = false ; repeatCount	= 7
; stringy =true }
MetaData
lengthOf{ zchar[10
    ] //x
uint8x , string u`line1
line2` , int8
matchKey
`two words`
    ,falsey //
Z9_
, packetx pack , u8x x_y_z`line1
line2` , } packet len //	t
{ char[] Z9_
    @calculatedFrom(""""
    ), zchar[
    4294967296 ]len `{ , }`,
// @lengthOf(
// c
i32 msg_type `two words`
    ,@lengthOf( A
    )	roots `two words` , match Foo as T
{0 : //x
rootA
,255 : packetx 0123456789 :  body /// triple
, ""abc""
:
_x 007:
As ,""abc""
    :
    A, // `tick` ""quote"" 'q'
} ,body { Pad
,
char[]
    body
@lengthOf( rootA
    ),	}
,	match packetx as i64_{ ""x y"" : options1 // " ++ [27880; 37322]%N ++ runes_of_ascii "
,
    ""x y"" : _x , } ,
@calculatedFrom( ""CRC32"") match options1 // @lengthOf(
as
a1{	1 : Z9_ , [
7 ] :
// " ++ [27880; 37322]%N ++ runes_of_ascii "
// trailing space 
crc,	0 : u
    //x
    ,
    [ ""\n""
    , ""abc""] :
    repeatCount [
    ""\n"" , 0 , 42, ""{,}""
]:
x_y_z ,
    } ,@rightPad ( '\x00'
    ) repeat i32 MetaDataX `" ++ [233]%N ++ runes_of_ascii "`  , @rightPad
    (
    '0' ) matchKey MetaDataX `` , } // " ++ [128512]%N ++ runes_of_ascii " emoji
packet
    string_
{	rootA
{ repeat
    lengthOf MetaDataX
    , string_ @calculatedFrom( ""it's"" ),repeat	float32 msg_type `say ""hi""`
    // @lengthOf(
    , f32 metadata ,
    } , repeat uint32 u `a\` ,	}
")).
Eval vm_compute in ("<<<M204>>>" ++ check (runes_of_ascii "packet i64_ {
    @leftPad( ) @tag(	4294967296
) repeat	string Logon `{ , }`
    ,@lengthOf(
    float )u16
    //x
    matchKey @lengthOf(
body
) , repeat
    /// triple
    char[  4294967296 ]
tag , @lengthOf(asx )
repeat
    trueish , repeat
    lengthOf
len
,// packet A { u8 x, }
match asx
    as
    crc {
    [ // a // b
""" ++ [28040; 24687]%N ++ runes_of_ascii """
// trailing space 
// c
, ""abc"" ] :
roots
, },	match
    uint8x as
repeatCount
    { [
0123456789
    ]:
    /// triple
    Foo ,""a\""b""
    : Packet
    42  :
    stringy , [ // `tick` ""quote"" 'q'
0123456789 , 007
] : f32a , //x
42: x }
    // @lengthOf(
    ,
@lengthOf( msg_type )
uint8x , repeat metadata// " ++ [27880; 37322]%N ++ runes_of_ascii "
,} MetaData float { char[ 42
] Logon
`a\` , stringy packetx , int32 pack,rootA
x
    , Logon Foo , u16 A
//	t
//x
, } //x
packet
    //	t
    Header{  @calculatedFrom(
    ""1"" ) u
,@tag( 65535
// a // b
// trailing space 
)
pack { string trueish `" ++ [28040; 24687; 31867; 22411]%N ++ runes_of_ascii "`
    , match
stringy
    as tag
{  ""a\\"" : float
    // `tick` ""quote"" 'q'
    ,
    ""abc"" :Z9_ ,007 :	metadata, // c
[ 10 ] :matchKey // " ++ [27880; 37322]%N ++ runes_of_ascii "
, ""a	b"" : _x 7// " ++ [128512]%N ++ runes_of_ascii " emoji
:Pad } ,  repeat body
, f32 int , } ,  MetaDataX u128 `doc` , }
options {}
")).
Eval vm_compute in ("<<<M1406>>>" ++ check (runes_of_ascii "options {
	StringPrefixLenType = u16;
	ArrayPrefixLenType = u16;
}

packet SampleBinary {
	uint16 MsgType `" ++ [28040; 24687; 31867; 22411]%N ++ runes_of_ascii "`,
	u16 BodyLenght @lengthOf(Body) `" ++ [28040; 24687; 20307; 38271; 24230]%N ++ runes_of_ascii "`,
	match MsgType as Body {
		1 : Logon,
		2 : Logout,
		3 : Heartbeat,
		4 : RiskControlRequest,
		5 : RiskControlResponse,
	},
	@calculatedFrom(""CRC32"")
	u32 Ckecksum `" ++ [26657; 39564; 21644]%N ++ runes_of_ascii "`,
}

packet Logon {
	@leftPad('0')
	char[10] UserName `" ++ [29992; 25143; 21517]%N ++ runes_of_ascii "`,
	string Password `" ++ [23494; 30721]%N ++ runes_of_ascii "`,
	uint64 ClientId `" ++ [23458; 25143; 31471]%N ++ runes_of_ascii "ID`,
	u16 HeartbeatInterval `" ++ [24515; 36339; 38388; 38548]%N ++ runes_of_ascii "`,
}

packet Logout {
	@rightPad('0')
	char[10] UserName `" ++ [29992; 25143; 21517]%N ++ runes_of_ascii "`,
	uint64 ClientId `" ++ [23458; 25143; 31471]%N ++ runes_of_ascii "ID`,
}

packet Heartbeat {
}

packet RiskControlRequest {
	string UniqueOrderId `" ++ [21807; 19968; 35746; 21333; 21495]%N ++ runes_of_ascii "`,
	char[16] ClOrdID `" ++ [23458; 25143; 35746; 21333; 21495]%N ++ runes_of_ascii "`,
	char[3] MarketID `" ++ [24066; 22330]%N ++ runes_of_ascii "id`,
	char[12] SecurityID `" ++ [35777; 21048; 20195; 30721]%N ++ runes_of_ascii "`,
	char Side `" ++ [20080; 21334; 26041; 21521]%N ++ runes_of_ascii "`,
	char OrderType `" ++ [35746; 21333; 31867; 22411]%N ++ runes_of_ascii "`,
	u64 Price `" ++ [20215; 26684]%N ++ runes_of_ascii "`,
	u32 Qty `" ++ [25968; 37327]%N ++ runes_of_ascii "`,
	repeat string ExtraInfo `" ++ [38468; 21152; 20449; 24687]%N ++ runes_of_ascii "`,
	repeat SubOrder {
		char[16] ClOrdID `" ++ [23376; 35746; 21333; 21495]%N ++ runes_of_ascii "`,
		u64 Price `" ++ [23376; 35746; 21333; 20215; 26684]%N ++ runes_of_ascii "`,
		u32 Qty `" ++ [23376; 35746; 21333; 25968; 37327]%N ++ runes_of_ascii "`,
	},
}

packet RiskControlResponse {
	string UniqueOrderId `" ++ [21807; 19968; 35746; 21333; 21495]%N ++ runes_of_ascii "`,
	i32 Status `" ++ [29366; 24577]%N ++ runes_of_ascii "`,
	string Msg `" ++ [32467; 26524; 20449; 24687]%N ++ runes_of_ascii "`,
	repeat Detail,
}

packet Detail {
	string RuleName `" ++ [35268; 21017; 21517; 31216]%N ++ runes_of_ascii "`,
	u16 Code `" ++ [21407; 22240; 20195; 30721]%N ++ runes_of_ascii "`,
}")).
Eval vm_compute in ("<<<M957>>>" ++ check (runes_of_ascii "packet options1 {body int
`" ++ [28040; 24687; 31867; 22411]%N ++ runes_of_ascii "` ,
    }MetaData T // " ++ [27880; 37322]%N ++ runes_of_ascii "
{ leftPad
charz , o roots	, } packet float
{ @lengthOf( x_y_z )repeat i8
    // `tick` ""quote"" 'q'
    calculatedFrom
`" ++ [233]%N ++ runes_of_ascii "`
,repeat stringy `
` , @tag( 007)
    /// triple
    @rightPad
    ( ' ' ) f32a
    @lengthOf(
len ) , @lengthOf(  u8x )	match
chars
as metadata { ""x y""
    :
matchKey, // trailing space 
""a\""b"" :
zchar
, [
    ""a\\"", 4294967296 ] :
calculatedFrom , 1  : T,
    7
: i8i8 ,
}
, u128 tag
    `" ++ [233]%N ++ runes_of_ascii "`,T
@calculatedFrom( ""{,}"" )
    `doc`,
/// triple
// c
}
    packet  uint8x
{
    }root // `tick` ""quote"" 'q'
packet zchar { @tag(
    // packet A { u8 x, }
    1 )
match packetx as
calculatedFrom { 007 : chars , """ ++ [128512]%N ++ runes_of_ascii """ :  crc,  ""a	b""
: Foo // @lengthOf(
,
    42:u8x ,
    [ ""\" ++ [233]%N ++ runes_of_ascii """] :
u8x , [  ""it's"" , ""1"" ,
1, ""\n""	,
00
]:
MetaDataX ,
} , @tag( 00 )
char x ,
@leftPad( '\x00')
    @calculatedFrom( """ ++ [28040; 24687]%N ++ runes_of_ascii """) @lengthOf(repeatCount //
)  u128 falsey`doc`,// c
falsey @calculatedFrom( """" ),float64 Logon	@calculatedFrom( """ ++ [28040; 24687]%N ++ runes_of_ascii """ )
//x
// a // b
`it's`,
    }
")).
Eval vm_compute in ("<<<M3714>>>" ++ check (runes_of_ascii "root packet chars {
    @tag(1)
    zchar[0123456789] MetaDataX,
    f32 Packet,
    @rightPad(' ')
    repeat chars {
        o stringy `crlf
        line`,
        matchKey int,
    },
}

packet uint8x {
    match stringy as len {
        ""CRC32"" : trueish,
        [3, 42] : x_y_z,
        ""CRC32"" : leftPad,
        // " ++ [128512]%N ++ runes_of_ascii " emoji
        [
            3, 42, 255, 0123456789, ""a\\"",
            ""1"", ""it's"", ""CRC32""
        ] : uint8x,
        //	t
        [
            42, 7, 65535, 42, ""a	b"",
            """", """"
        ] : x_y_z,
    },
    repeat trueish {
        repeat As `u8 x,`,
    },
    repeat chars `two words`,
    @rightPad('\x00')
    repeat f64 _x `" ++ [233]%N ++ runes_of_ascii "`,
    repeat i16 u `say ""hi""`,// c
    @lengthOf(x)
    i8i8 {
        match options1 as a1 {
            1 : u128,
        },
    },
    string chars,
    repeat char[] Logon `it's`,
    u8 float @lengthOf(o) `{ , }`,
    @lengthOf(int)
    @tag(1)
    asx @calculatedFrom(""\" ++ [233]%N ++ runes_of_ascii """),// `tick` ""quote"" 'q'
}")).
Eval vm_compute in ("<<<M3549>>>" ++ check (runes_of_ascii "// top
options
    // c0
{ // c1a
  // c1b
LittleEndian // c2a
  // c2b
= // c3
true // c4
;
    // c5
} packet // c7a
  // c7b
Logon // c8
{ // c9a
  // c9b
u8
    // c10
x // c11
, } // c13a
  // c13b
packet Logout // c15a
  // c15b
{ u16 // c17a
  // c17b
reason , } // c20a
  // c20b
root packet Frame // c23a
  // c23b
{ i64
    // c25
Kind , // c27
i64
    // c28
Kind2 // c29a
  // c29b
, // c30a
  // c30b
match // c31a
  // c31b
Kind
    // c32
as // c33
Body // c34
{
    // c35
1 // c36
:
    // c37
Logon // c38
, // c39a
  // c39b
[
    // c40
2 // c41a
  // c41b
, // c42
3 // c43a
  // c43b
,
    // c44
4
    // c45
] // c46a
  // c46b
: // c47a
  // c47b
Logout
    // c48
, // c49a
  // c49b
100 // c50
: // c51
Logon , // c53
} // c54
,
    // c55
match // c56a
  // c56b
Kind2
    // c57
as Trailer
    // c59
{ // c60
0 : Logout // c63a
  // c63b
, } // c65a
  // c65b
, // c66a
  // c66b
} // c67a
  // c67b
")).
Eval vm_compute in ("<<<M4364>>>" ++ check (runes_of_ascii "packet int {
    @tag(7)
    BodyLength {
        // @lengthOf(
        float32 f32a,
        char[255] u8x @lengthOf(Z9_) `line1
                line2`,
        repeat char[65535] tag `" ++ [233]%N ++ runes_of_ascii "`,
        match Header as int {
            """ ++ [128512]%N ++ runes_of_ascii """ : body,
            [
                00, 4294967296, 255, """ ++ [233]%N ++ runes_of_ascii "t" ++ [233]%N ++ runes_of_ascii """, """ ++ [128512]%N ++ runes_of_ascii """,
                ""packet""
            ] : int,
            [0, ""a	b""] : Z9_,
            [65535] : tag,
            /// triple
            """ ++ [233]%N ++ runes_of_ascii "t" ++ [233]%N ++ runes_of_ascii """ : options1,
        },
    },
    zchar[255] MetaDataX @lengthOf(Z9_) `crlf
        line`,
    stringy {
        repeat string A,// packet A { u8 x, }
        crc {
            zchar[1] uint8x,
        },
        uint16 Packet @calculatedFrom(""a	b""),
        len @calculatedFrom(""a	b"") `two words`,
    },
    zchar[255] As ``,
    i16 calculatedFrom,
    @tag(42)
    repeat x_y_z `two words`,
    uint8 lengthOf,
    @tag(0)
    u128,
}")).
Eval vm_compute in ("<<<M4293>>>" ++ check (runes_of_ascii "MetaData falsey {
    string tag `// not a comment`,
}

packet x {
    char[] int @lengthOf(u) `u8 x,`,
    @calculatedFrom(""abc"")
    @leftPad('0')
    @tag(255)
    repeat T {
        f32a `" ++ [233]%N ++ runes_of_ascii "`,
        u128 @calculatedFrom(""" ++ [128512]%N ++ runes_of_ascii """),
        // c
        repeat float {
            char[] x,
        },
    },
    @lengthOf(Header)
    string_ @lengthOf(Logon),
    body Pad `" ++ [28040; 24687; 31867; 22411]%N ++ runes_of_ascii "`,
}

packet matchKey {
}

//	t
packet options1 {
    string a1 @calculatedFrom(""{,}""),
}

packet x {
    match a1 as i64_ {
        1 : Packet,
        ""abc"" : crc,
    },
    int8 calculatedFrom @lengthOf(i8i8),
    @calculatedFrom("""")
    @calculatedFrom(""" ++ [128512]%N ++ runes_of_ascii """)
    lengthOf `a\`,
    char[1] u8x,
    zchar[007] metadata @calculatedFrom(""\n""),
    @lengthOf(len)
    @rightPad()
    char[10] Pad,
    repeat options1 `{ , }`,
    char[] tag @lengthOf(Packet),
}")).
Eval vm_compute in ("<<<M3625>>>" ++ check (runes_of_ascii "options {
    LittleEndian = true;
    StringPrefixLenType = u64;
    ArrayPrefixLenType = u8;
    FixedStringPadChar = '0';
}

packet Reject {
    i32 Ref,
    repeat f64 OrderId,
    repeat InNote12 {
        u8 pad0,
    },
    @leftPad(' ')
    char[6] count,
}

packet Logout {
    zchar[6] Tail,
    repeat string venue,
}

packet Cancel {
    u64 count,
    repeat char[5] lastPx,
    i64 Tail,
    repeat InF140 {
        repeat Logout,
        repeat Reject,
    },
}

root packet Trade {
    repeat InMsgkind39 {
        repeat Reject,
        char[4] Px,
    },
    string Acct,
    uint16 price,
    f32 OrderId,
    u16 x,
    u16 clOrdID @lengthOf(Body),
    match x as Body {
        178 : Logout,
        13 : Cancel,
        174 : Reject,
    },
    u16 Flags @calculatedFrom(""CRC32""),
}")).
Eval vm_compute in ("<<<M1239>>>" ++ check (runes_of_ascii "
MetaData
    //	t
    zchar { BodyLength rootA , //x
u8x Z9_
, zchar[
    10 ] string_ , char[4294967296]i8i8 ,
    } root packet
    u{chars
    , packetx @calculatedFrom(""" ++ [128512]%N ++ runes_of_ascii """ ) /// triple
, f32	trueish // packet A { u8 x, }
`` ,  uint8	Z9_
    @calculatedFrom(
    ""abc"" ) `line1
line2`
    , repeat MetaDataX { float64 crc`// not a comment` ,zchar[
    0 ]Z9_ ,
zchar[
10 ] string_ ``
, match
    pack as
    a1
{ //	t
""a	b""
: falsey
// " ++ [128512]%N ++ runes_of_ascii " emoji
// " ++ [27880; 37322]%N ++ runes_of_ascii "
, } ,
// @lengthOf(
// `tick` ""quote"" 'q'
} , // " ++ [128512]%N ++ runes_of_ascii " emoji
repeat
char
    As// `tick` ""quote"" 'q'
, /// triple
repeat// c
Z9_// packet A { u8 x, }
{ string Packet	@calculatedFrom(
""packet"")
    , } ,@calculatedFrom( //	t
""`tick`""
    ) repeat	i64 f32a `u8 x,` ,  matchKey@lengthOf(BodyLength)`line1
line2`//x
,}")).
Eval vm_compute in ("<<<M423>>>" ++ check (runes_of_ascii "MetaData
i8i8 {
A u128  , } /// triple
packet  tag	{ repeat string_ falsey
`doc`,repeat Z9_
{ Header Logon `doc` // packet A { u8 x, }
,
int16 uint8x// `tick` ""quote"" 'q'
@lengthOf( body  ) ,
char[]  lengthOf , },
@lengthOf( asx )repeat
matchKey ,  @leftPad ( ' ' ) @rightPad (
// " ++ [128512]%N ++ runes_of_ascii " emoji
// " ++ [27880; 37322]%N ++ runes_of_ascii "
' ' ) Z9_ `{ , }`
    , char[
1]
    len	`{ , }` ,
} // trailing space 
options {
chars  = ""1""	trueish// c
= // " ++ [27880; 37322]%N ++ runes_of_ascii "
""a	b""u =
true ;crc ='0' ;
} packet
leftPad { @leftPad( ' ') // packet A { u8 x, }
zchar	i64_ ,
match options1
    as // c
string_ {
[ ""a\""b"" , ""packet"" , ""a\\"" , """ ++ [128512]%N ++ runes_of_ascii """ ] : i64_ ,  42/// triple
:
Z9_ ,
    },
zchar[
    00 ]trueish , @rightPad // trailing space 
( ' '  ) packetx options1
`line1
line2` , } //")).
Eval vm_compute in ("<<<M4232>>>" ++ check (runes_of_ascii "MetaData i8i8 {
    A u128,
}

/// triple
packet tag {
    repeat string_ falsey `doc`,
    repeat Z9_ {
        Header Logon `doc`,
        int16 uint8x @lengthOf(body),
        char[] lengthOf,
    },
    @lengthOf(asx)
    repeat matchKey,
    @leftPad(' ')
    @rightPad(' ')
    Z9_ `{ , }`,
    char[1] len `{ , }`,
}// trailing space 

options {
    chars = ""1""
    trueish = ""a	b""
    u = true;
    crc = '0';
}

packet leftPad {
    @leftPad(' ')
    // packet A { u8 x, }
    zchar i64_,
    match options1 as string_ {
        [""a\""b"", ""packet"", ""a\\"", """ ++ [128512]%N ++ runes_of_ascii """] : i64_,
        42 : Z9_,
    },
    zchar[00] trueish,
    @rightPad(' ')
    packetx options1 `line1
        line2`,
}//")).
Eval vm_compute in ("<<<M710>>>" ++ check (runes_of_ascii "packet
leftPad { char[
42  ]falsey , }
    options{ x_y_z
= ""a	b"" ; zchar= zchar[ 255]
    options1 = false ;
    BodyLength =
'0'
    ; i8i8 =char[] ; }packet crc
{
char[ 007 // `tick` ""quote"" 'q'
] stringy @calculatedFrom(""a\""b""
    )`say ""hi""`
, match  tag as matchKey{ [ """ ++ [128512]%N ++ runes_of_ascii """ ,
    3	,// " ++ [27880; 37322]%N ++ runes_of_ascii "
""" ++ [28040; 24687]%N ++ runes_of_ascii """] :
    trueish,} , uint32 i64_
    ,@rightPad (' '
) @calculatedFrom( ""{,}"" )	@calculatedFrom(
""a	b"" ) Foo tag `" ++ [233]%N ++ runes_of_ascii "`
    , repeat zchar[
    // " ++ [27880; 37322]%N ++ runes_of_ascii "
    0 ] Logon
`say ""hi""`
,i8i8
u8x ,zchar @calculatedFrom(
    ""\" ++ [233]%N ++ runes_of_ascii """ ),	} options {_x =
    false ;
    Foo =  ""abc"" o
    = uint32  ; f32a
= """ ++ [28040; 24687]%N ++ runes_of_ascii """
charz // " ++ [27880; 37322]%N ++ runes_of_ascii "
='\x00' ;
    } MetaData x_y_z
    {// c
}")).
Eval vm_compute in ("<<<M470>>>" ++ check (runes_of_ascii "packet
Packet {
asx , // a // b
falsey
`" ++ [233]%N ++ runes_of_ascii "`,
    @lengthOf( a1 ) @lengthOf( uint8x ) @calculatedFrom( ""it's"" )
    match u128 as msg_type {0123456789 : charz , 1 :int // packet A { u8 x, }
""" ++ [233]%N ++ runes_of_ascii "t" ++ [233]%N ++ runes_of_ascii """:
    metadata , [// packet A { u8 x, }
""a	b"",
// c
// packet A { u8 x, }
""1"" , ""\" ++ [233]%N ++ runes_of_ascii """ , 007,
42
    // trailing space 
    , 3, 65535 ,007 // c
]  :
chars ,// trailing space 
""\" ++ [233]%N ++ runes_of_ascii """	:crc	,}
// packet A { u8 x, }
/// triple
,
    //x
    repeat u64 float ,
zchar[ 10
] Header
,crc ,
@calculatedFrom(""" ++ [233]%N ++ runes_of_ascii "t" ++ [233]%N ++ runes_of_ascii """
    ) @calculatedFrom(
""\n"") float32  A @lengthOf( Foo ) , string As
@lengthOf( body), u64 asx
, uint32
tag // c
, }
")).
Eval vm_compute in ("<<<M3975>>>" ++ check (runes_of_ascii "
// top
	packet 
        // c0
    trueish 
    // c1

  {
// c2
  repeat

// c3
u32
    // c4
  	MetaDataX
// c5
      `doc`

// c6
	,
        // c7
  Header 
    // c8
    { 
  // c9
  	packetx  
  // c10

o 
        // c11
    `u8 x,`
	    // c12
  , 
    // c13
  } 

    // c14
,

    // c15
    @leftPad
// c16

(
	    // c17
    '\x00'
        // c18
    )
    // c19

repeat 
    // c20
  char[

// c21
  0123456789
    // c22
    ]
        // c23
	repeatCount 
    // c24
	  ,
    // c25
  }
	// c26
  packet 
        // c27
  Packet 

// c28
  	{
// c29

	}
// c30
 
")).
Eval vm_compute in ("<<<M533>>>" ++ check (runes_of_ascii "packet asx {@calculatedFrom( ""`tick`""	)match crc as x {
    3:x_y_z ,	""it's""
    // trailing space 
    : msg_type , [ 1 , /// triple
10 , // " ++ [128512]%N ++ runes_of_ascii " emoji
""abc""
,
0// a // b
] :
u } , @tag(65535	)
packetx `two words`, }root packet rootA{chars @lengthOf(leftPad// " ++ [27880; 37322]%N ++ runes_of_ascii "
)
    /// triple
    , @calculatedFrom(""a\\"") match crc as leftPad// `tick` ""quote"" 'q'
{
    [
255
,""a	b""
]	:falsey,
    00 : a1	,
7
/// triple
/// triple
: Z9_ , 00 : a1
, } , match packetx as Pad	{	[
""// no comment""]:
len,
} ,
    }packet zchar { @calculatedFrom(""\n""
)string Logon,
}")).
Eval vm_compute in ("<<<M194>>>" ++ check (runes_of_ascii "// " ++ [128512]%N ++ runes_of_ascii " emoji
packet// @lengthOf(
int { match zchar
as _x {	[ 4294967296 ]
    :
x_y_z ,[
""a\""b"" // @lengthOf(
]  :chars ,
    [
    ""it's"" , ""\" ++ [233]%N ++ runes_of_ascii """ , ""packet""
    ,""{,}"" ] :
f32a
}, x { repeat asx{ zchar[  0123456789
]crc `crlf
line`, msg_type	i8i8`crlf
line` ,
    uint16
rootA @calculatedFrom( ""a\\"" )
    // @lengthOf(
    , Logon x_y_z
`" ++ [233]%N ++ runes_of_ascii "` , },
} , } packet
u{ match
    pack as trueish //x
{ ""1"" : len """ ++ [128512]%N ++ runes_of_ascii """ : leftPad ,4294967296 // @lengthOf(
:	metadata
, }
    ,int T  `line1
line2` ,f32 Logon
    , } options {
    }
")).
Eval vm_compute in ("<<<M3284>>>" ++ check (runes_of_ascii "// top
packet
    // c0
trueish
    // c1
{
    // c2
repeat
    // c3
u32
    // c4
MetaDataX
    // c5
`doc`
    // c6
,
    // c7
Header
    // c8
{
    // c9
packetx
    // c10
o
    // c11
`u8 x,`
    // c12
,
    // c13
}
    // c14
,
    // c15
@leftPad
    // c16
(
    // c17
'\x00'
    // c18
)
    // c19
repeat
    // c20
char[
    // c21
0123456789
    // c22
]
    // c23
repeatCount
    // c24
,
    // c25
}
    // c26
packet
    // c27
Packet
    // c28
{
    // c29
}
    // c30
")).
Eval vm_compute in ("<<<M899>>>" ++ check (runes_of_ascii "packet u8x
    { @lengthOf( trueish )
// trailing space 
/// triple
@lengthOf( matchKey ) repeat
Packet{ packetx @calculatedFrom(
    ""a\""b"" )  `` ,
}  ,@calculatedFrom(
""1"" ) f32
o
    ,char[ // a // b
0123456789 // `tick` ""quote"" 'q'
] crc
,char[]charz
    ,rootA
A
    ,repeat char[]  _x,
@calculatedFrom(""{,}""
)
leftPad , char[ 65535 ] rootA// c
,//	t
@lengthOf( charz // c
)@lengthOf(u8x
) @lengthOf(float
    )
repeat zchar[// trailing space 
0123456789 ] u8x ,	}
")).
Eval vm_compute in ("<<<M1050>>>" ++ check (runes_of_ascii "root packet roots
    { }
    packet
    As {
    @calculatedFrom(
""" ++ [28040; 24687]%N ++ runes_of_ascii """ ) i16 msg_type`" ++ [28040; 24687; 31867; 22411]%N ++ runes_of_ascii "`
, repeat // trailing space 
repeatCount
{ repeat pack msg_type `crlf
line` , //
match repeatCount as
_x{ ""`tick`"": // a // b
trueish ,// c
[
    ""\n""
, 65535
, 255 ,
    ""abc""  , 0123456789 ] :	options1, } //
, //x
} , }
// trailing space 
//
MetaData x_y_z{
options1
chars ,int32
leftPad `{ , }` , string
    i64_ `say ""hi""` , int32 BodyLength `a\`
,	}
")).
Eval vm_compute in ("<<<M382>>>" ++ check (runes_of_ascii "packet x { i64_ , } options // c
{
Logon =true
//	t
//	t
} MetaData //x
f32a { zchar[
0123456789] string_ , i8i8 // @lengthOf(
falsey ,
u8x	string_ , zchar repeatCount `doc`, float64 zchar ,	} root
    // c
    packet
Z9_ {	a1
options1
`u8 x,`	, char// `tick` ""quote"" 'q'
BodyLength `// not a comment`
    , @lengthOf( metadata )	repeat u`line1
line2`  ,	@lengthOf(options1
    ) @lengthOf( zchar )  @calculatedFrom( """ ++ [233]%N ++ runes_of_ascii "t" ++ [233]%N ++ runes_of_ascii """	)x
u128
,}
")).
Eval vm_compute in ("<<<M4354>>>" ++ check (runes_of_ascii "packet x {
    repeat float32 Foo `{ , }`,
    float64 i8i8,
    @lengthOf(chars)
    @tag(65535)
    // @lengthOf(
    string_,
    @leftPad('0')
    repeat A charz,
}

root packet Header {
    @calculatedFrom(""// no comment"")
    repeat metadata {
        repeat u64 o,
        T ``,
    },
}

MetaData A {
    zchar[4294967296] asx,
    int8 pack,
    char[65535] Packet,
    uint8 lengthOf `" ++ [28040; 24687; 31867; 22411]%N ++ runes_of_ascii "`,
    char[10] i64_ `" ++ [233]%N ++ runes_of_ascii "`,
}")).
Eval vm_compute in ("<<<M1193>>>" ++ check (runes_of_ascii "options
// packet A { u8 x, }
// @lengthOf(
{ asx
    // " ++ [128512]%N ++ runes_of_ascii " emoji
    = // trailing space 
true u128 //x
= ""// no comment""	len	= ' ' ; crc =
    ""1"" ; f32a
= zchar[
    //
    255 ] ;} packet falsey
{ @calculatedFrom(  ""{,}""
)	@lengthOf(
f32a) repeat int64
i8i8
    `two words` ,
    //
    float64
Z9_
    @lengthOf(
    A ) `" ++ [28040; 24687; 31867; 22411]%N ++ runes_of_ascii "` ,match int as calculatedFrom { // trailing space 
10
:
T//	t
, }, } //	t")).
Eval vm_compute in ("<<<M3440>>>" ++ check (runes_of_ascii "// top
packet // c0a
  // c0b
B // c1
{ // c2a
  // c2b
u8 // c3
a // c4a
  // c4b
,
    // c5
} // c6
root packet P // c9
{ u8 // c11
K // c12a
  // c12b
, // c13
match
    // c14
K
    // c15
as Body // c17a
  // c17b
{
    // c18
1
    // c19
: B // c21
, }
    // c23
, u16 // c25
L @lengthOf( // c27a
  // c27b
Body // c28a
  // c28b
) // c29
, // c30a
  // c30b
} // c31a
  // c31b
")).
Eval vm_compute in ("<<<M4451>>>" ++ check (runes_of_ascii "  // @lengthOf(
options
	{ u128

= uint32}packet
T 
{ // packet A { u8 x, }
} 
options {  }  MetaData // " ++ [27880; 37322]%N ++ runes_of_ascii "
  pack  // " ++ [128512]%N ++ runes_of_ascii " emoji
{
} packet
_x { 
@tag(
1 )
char[ 
00

] x_y_z 
@calculatedFrom(
""\" ++ [233]%N ++ runes_of_ascii """
)	, 
f32
    a1  ,

@rightPad (
	'0' ) 
zchar[ 00 ]  u `u8 x,`
	, @lengthOf(
msg_type

) x{ metadata

    ,

    }
	, 

    // packet A { u8 x, }
	  char[]
float  , }
")).
Eval vm_compute in ("<<<M343>>>" ++ check (runes_of_ascii "
root packet Packet { @calculatedFrom(""packet""
)
    char[]  Packet
, match	crc
as T {255 :A ,
} ,
/// triple
// `tick` ""quote"" 'q'
repeat x_y_z , x_y_z@calculatedFrom( ""`tick`"" )`a\` ,
// c
//x
@calculatedFrom( // a // b
""" ++ [28040; 24687]%N ++ runes_of_ascii """ ) @lengthOf(Foo
    )match MetaDataX as T
    { 0 : repeatCount , } , } MetaData string_
{ u64 x_y_z,	}packet u // " ++ [27880; 37322]%N ++ runes_of_ascii "
{
    }
")).
Eval vm_compute in ("<<<M517>>>" ++ check (runes_of_ascii "options { }root packet matchKey { @calculatedFrom(""a\\"" ) repeat
i32 int`" ++ [233]%N ++ runes_of_ascii "` , } MetaData
    repeatCount
    { zchar[ // `tick` ""quote"" 'q'
1
    ]stringy  ,o lengthOf `u8 x,` ,
zchar[42
    ]	Header , char[ 65535
] len `say ""hi""`
    , int16
crc `" ++ [233]%N ++ runes_of_ascii "` ,
    char[]u8x ,	}
root packet	repeatCount{@lengthOf(
    charz )
u128
    ,/// triple
}")).
Eval vm_compute in ("<<<M589>>>" ++ check (runes_of_ascii "options {
    MetaDataX = ""it's""
    ; Header
// " ++ [128512]%N ++ runes_of_ascii " emoji
// " ++ [128512]%N ++ runes_of_ascii " emoji
= // packet A { u8 x, }
true ; u8x
    =
false; stringy= """ ++ [233]%N ++ runes_of_ascii "t" ++ [233]%N ++ runes_of_ascii """  }
MetaData i64_{ a1 // trailing space 
_x // a // b
, u16 charz , char[ 1 ]	u `doc` , uint64 i8i8 ,/// triple
o /// triple
uint8x	,
char[]
Pad ,}
packet _x{  }
options { // " ++ [128512]%N ++ runes_of_ascii " emoji
u= false }
")).
Eval vm_compute in ("<<<M3876>>>" ++ check (runes_of_ascii "root packet x {
    string packetx `{ , }`,
    char stringy `// not a comment`,
    match charz as u128 {
        """ ++ [128512]%N ++ runes_of_ascii """ : _x,
        0 : options1,
        // packet A { u8 x, }
        42 : trueish,
        [
            00, 255, 00, ""it's"", """ ++ [28040; 24687]%N ++ runes_of_ascii """,
            ""\n""
        ] : lengthOf,
        1 : len,
    },
}")).
Eval vm_compute in ("<<<M630>>>" ++ check (runes_of_ascii "root packet As { match pack as body{ [3 , ""\" ++ [233]%N ++ runes_of_ascii """ ,255, 007	, 00
// trailing space 
//	t
,
007
    ]
    :Pad ,}
    //x
    ,
@lengthOf(
    charz )
@rightPad ( '0') @calculatedFrom( ""1"" ) repeatCount BodyLength  ,	@rightPad ('\x00' ) zchar[ 00 ] string_
`" ++ [28040; 24687; 31867; 22411]%N ++ runes_of_ascii "` , crc @lengthOf(
    msg_type )
, //x
}")).
Eval vm_compute in ("<<<M1565>>>" ++ check (runes_of_ascii "root packet Foo // " ++ [128512]%N ++ runes_of_ascii " emoji
{ } options {
    // a // b
    tag // `tick` ""quote"" 'q'
= //	t
""""
    ; u8x = zchar[0  ] }
MetaData
    int {zchar[ 10]
lengthOf	`` , i64 u8x`// not a comment` ,MetaDataX pack pack// `tick` ""quote"" 'q'
`crlf
line`
, Logon charz `crlf
line`
    ,
    // a // b
    }
")).
Eval vm_compute in ("<<<M1427>>>" ++ check (runes_of_ascii "root packet Foo // " ++ [128512]%N ++ runes_of_ascii " emoji
f32 } options {
    // a // b
    tag // `tick` ""quote"" 'q'
= //	t
""""
    ; u8x = zchar[0  ] }
MetaData
    int {zchar[ 10]
lengthOf	`` , i64 u8x`// not a comment` ,MetaDataX pack// `tick` ""quote"" 'q'
`crlf
line`
, Logon charz `crlf
line`
    ,
    // a // b
    }
")).
Eval vm_compute in ("<<<M1618>>>" ++ check (runes_of_ascii "root packet Foo // " ++ [128512]%N ++ runes_of_ascii " emoji
{ } options {
    // a // b
    tag // `tick` ""quote"" 'q'
= //	t
""""
    ; u8x = zchar[0  ] }
MetaData
    int {zchar[ 10]
lengthOf	`` , i64 u8x`// not a comment` ,MetaDataX pack// `tick` ""quote"" 'q'
`crlf
line`
, " ++ [233]%N ++ runes_of_ascii "Logon charz `crlf
line`
    ,
    // a // b
    }
")).
Eval vm_compute in ("<<<M1541>>>" ++ check (runes_of_ascii "root packet Foo // " ++ [128512]%N ++ runes_of_ascii " emoji
{ } options {
    // a // b
    tag // `tick` ""quote"" 'q'
= //	t
""""
    ; u8x = zchar[0  ] }
MetaData
    int {zchar[ 10]
lengthOf	`` , u8x i64`// not a comment` ,MetaDataX pack// `tick` ""quote"" 'q'
`crlf
line`
, Logon charz `crlf
line`
    ,
    // a // b
    }
")).
Eval vm_compute in ("<<<M1594>>>" ++ check (runes_of_ascii "root packet Foo // " ++ [128512]%N ++ runes_of_ascii " emoji
{ } options {
    // a // b
    tag // `tick` ""quote"" 'q'
= //	t
""""
    ; u8x = zchar[0  ] }
MetaData
    int {zchar[ 10]
lengthOf	`` , i64 u8x`// not a comment` ,MetaDataX pack// `tick` ""quote"" 'q'
`crlf
line`
, Logon charz `crlf
line`
    
    // a // b
    }
")).
Eval vm_compute in ("<<<M1579>>>" ++ check (runes_of_ascii "root packet Foo // " ++ [128512]%N ++ runes_of_ascii " emoji
{ } options {
    // a // b
    tag // `tick` ""quote"" 'q'
= //	t
""""
    ; u8x = zchar[0  ] }
MetaData
    int {zchar[ 10]
lengthOf	`` , i64 u8x`// not a comment` ,MetaDataX pack// `tick` ""quote"" 'q'
`crlf
line`
,  charz `crlf
line`
    ,
    // a // b
    }
")).
Eval vm_compute in ("<<<M324>>>" ++ check (runes_of_ascii "packet charz
    {repeat
Z9_
    x , @calculatedFrom( ""`tick`""
) string A`crlf
line` ,
repeat
    crc// trailing space 
{
repeat u8x , char[42 //
] //x
x @lengthOf(
o )	,} ,} MetaData //
tag { uint16 falsey
    `say ""hi""` ,
i32 asx ,char[ 007 ] As
// a // b
/// triple
, }
")).
Eval vm_compute in ("<<<M797>>>" ++ check (runes_of_ascii "
root packet Pad { @rightPad (
'\x00') trueish
`it's`
, } MetaData metadata
{ char[] falsey`
` ,} root
packet
    calculatedFrom { @lengthOf( packetx )@lengthOf( float)/// triple
@tag(
    00//
)int `doc`, @calculatedFrom( ""\" ++ [233]%N ++ runes_of_ascii """
) @tag( 4294967296	) char[]_x `doc`, }")).
Eval vm_compute in ("<<<M951>>>" ++ check (runes_of_ascii "root packet
    pack {
body ,
char[
10
]	options1 ,	@tag( 007 )
    //	t
    @rightPad ( )@calculatedFrom( ""\n""
)
    // " ++ [128512]%N ++ runes_of_ascii " emoji
    char[] tag
    , repeat char[] Header  `` , asx {
    repeat u8x
    { repeat	u8 x_y_z , }// c
, }
,
}MetaData pack { }
")).
Eval vm_compute in ("<<<M667>>>" ++ check (runes_of_ascii "  options { o=// `tick` ""quote"" 'q'
""CRC32""; } options {Header=u32 ; // packet A { u8 x, }
packetx=char[] T =char[	65535
];
// packet A { u8 x, }
// a // b
u8x =
    ""// no comment"" ;
string_
    /// triple
    = true ; }	root
packet
tag {} 	 ")).
Eval vm_compute in ("<<<M312>>>" ++ check (runes_of_ascii "options {
f32a= 3	;Logon
    =
    ""x y"";
len
=
10	}packet string_ {@lengthOf( MetaDataX ) // c
int32 f32a , _x @lengthOf( rootA) ,@rightPad ( ) stringy ,
@tag( 0123456789 )
    // a // b
    repeatCount @calculatedFrom( """ ++ [128512]%N ++ runes_of_ascii """
    ), }
")).
Eval vm_compute in ("<<<M2246>>>" ++ check (runes_of_ascii "MetaData Packet { }packet	asx  { @lengthOf( @lengthOf( asx) falsey`crlf
line`
,
    }
    packet x	{uint32// @lengthOf(
rootA	,u32 options1 `say ""hi""` , @tag( 7
    )// packet A { u8 x, }
msg_type @lengthOf(
stringy	)	, }

")).
Eval vm_compute in ("<<<M2281>>>" ++ check (runes_of_ascii "MetaData Packet { }packet	asx  { @lengthOf( asx) falsey`crlf
line`
,
    }
    packet packet x	{uint32// @lengthOf(
rootA	,u32 options1 `say ""hi""` , @tag( 7
    )// packet A { u8 x, }
msg_type @lengthOf(
stringy	)	, }

")).
Eval vm_compute in ("<<<M1059>>>" ++ check (runes_of_ascii "// " ++ [128512]%N ++ runes_of_ascii " emoji
MetaData //x
Foo
    { }  MetaData
x {
}MetaData zchar
{ options1	f32a , int32 stringy ,
    string
    msg_type
`
` ,string T , a1 trueish `{ , }`
// packet A { u8 x, }
/// triple
, f32 BodyLength
    , }")).
Eval vm_compute in ("<<<M2383>>>" ++ check (runes_of_ascii "MetaData Packet { }packet	asx  { @lengthOf( asx) falsey`crlf
line`
,
    " ++ [233]%N ++ runes_of_ascii "}
    packet x	{uint32// @lengthOf(
rootA	,u32 options1 `say ""hi""` , @tag( 7
    )// packet A { u8 x, }
msg_type @lengthOf(
stringy	)	, }

")).
Eval vm_compute in ("<<<M2332>>>" ++ check (runes_of_ascii "MetaData Packet { }packet	asx  { @lengthOf( asx) falsey`crlf
line`
,
    }
    packet x	{uint32// @lengthOf(
rootA	,u32 options1 `say ""hi""` , 7 @tag(
    )// packet A { u8 x, }
msg_type @lengthOf(
stringy	)	, }

")).
Eval vm_compute in ("<<<M251>>>" ++ check (runes_of_ascii "MetaData rootA	{
roots Header ,} root packet chars{ @tag(  1  )
repeat char[] stringy `doc` ,}
    root packet int{ uint8x MetaDataX	, }MetaData Logon {
x_y_z
i64_// @lengthOf(
,Z9_
_x , body crc `say ""hi""`,
}
")).
Eval vm_compute in ("<<<M2369>>>" ++ check (runes_of_ascii "MetaData Packet { }packet	asx  { @lengthOf( asx) falsey`crlf
line`
,
    }
    packet x	{uint32// @lengthOf(
rootA	,u32 options1 `say ""hi""` , @tag( 7
    )// packet A { u8 x, }
msg_type @lengthOf(
stringy	)")).
Eval vm_compute in ("<<<M4411>>>" ++ check (runes_of_ascii "packet A {
    match k as n {
        ""\
                "" : B,
        [1, ""\
                ""] : C,
        [
            1, 2, 3, 4, 5,
            ""\
                        ""
        ] : D,
    },
}")).
Eval vm_compute in ("<<<M895>>>" ++ check (runes_of_ascii "
packet zchar {	@rightPad (
) repeat char[]leftPad	, @calculatedFrom(""{,}"" )
    u ,
i64_ @calculatedFrom( ""// no comment"" ),
    // c
    }
// packet A { u8 x, }
// " ++ [128512]%N ++ runes_of_ascii " emoji
packet lengthOf{ }
")).
Eval vm_compute in ("<<<M955>>>" ++ check (runes_of_ascii "options {  charz =
    """ ++ [128512]%N ++ runes_of_ascii """crc
// " ++ [27880; 37322]%N ++ runes_of_ascii "
//x
= false;
    u128
= false
    ; crc
=
' '}
    /// triple
    packet msg_type { string u8x , zchar[ 10] zchar@calculatedFrom(
    ""abc"") `{ , }`, }
")).
Eval vm_compute in ("<<<M1012>>>" ++ check (runes_of_ascii "packet  int
    { match	roots
//	t
// @lengthOf(
as//	t
u8x {7 : packetx,
0
: As  ""packet"" :
    // a // b
    a1
// " ++ [27880; 37322]%N ++ runes_of_ascii "
//x
, ""packet""
    :
    float }	,Z9_ @lengthOf( u128
)
, }")).
Eval vm_compute in ("<<<M4432>>>" ++ check (runes_of_ascii "MetaData
    // packet A { u8 x, }
  // @lengthOf(
string_
{

char[]
Pad `// not a comment`
,  i32// a // b
  lengthOf`{ , }` , u16
	As

,

len

x_y_z,
char[]
rootA
	,	}")).
Eval vm_compute in ("<<<M1131>>>" ++ check (runes_of_ascii "packet matchKey
    {@calculatedFrom(	""" ++ [28040; 24687]%N ++ runes_of_ascii """
    ) // " ++ [128512]%N ++ runes_of_ascii " emoji
match  tag/// triple
as// c
Foo {
[ ""a\""b""	, 255 //x
]:trueish
// c
// " ++ [27880; 37322]%N ++ runes_of_ascii "
,  } , // a // b
}options{
}
")).
Eval vm_compute in ("<<<M3447>>>" ++ check (runes_of_ascii "options
    { LittleEndian =	true
	;
} 
packet  B{ u8

a
    ,  string s

,

    } root

packet	P	{

u16	L  @lengthOf( B
)
,

    B
	, u8
    t  ,
	}
")).
Eval vm_compute in ("<<<M4128>>>" ++ check (runes_of_ascii "options {
    zchar = 7;
    // c
    // packet A { u8 x, }
    msg_type = uint8
    falsey = 1;
}

MetaData Pad {
    f64 u `tab	here`,
}

options {
}")).
Eval vm_compute in ("<<<M1653>>>" ++ check (runes_of_ascii "root packet /// triple
rootA {	i32
MetaDataX@calculatedFrom( @calculatedFrom( ""CRC32"" ) `line1
line2` , } MetaData BodyLength {
u8
rootA, } // c")).
Eval vm_compute in ("<<<M3610>>>" ++ check (runes_of_ascii "// c
options {
    lengthOf = false
    Logon = false;
}

MetaData lengthOf {
    float32 i8i8,
}

root packet roots {
    zchar[7] f32a,
}")).
Eval vm_compute in ("<<<M309>>>" ++ check (runes_of_ascii "options {
Pad = // " ++ [27880; 37322]%N ++ runes_of_ascii "
3 ; float =
false
    // packet A { u8 x, }
    ;
Z9_ =""packet""	chars=
""a\""b"" float=
""a\\""} MetaData zchar { } 	 ")).
Eval vm_compute in ("<<<M3445>>>" ++ check (runes_of_ascii "options {
    LittleEndian = true;
}
packet B {
    u8 a,
    string s,
}
root packet P {
    u16 L @lengthOf(B),
    B,
    u8 t,
}
")).
Eval vm_compute in ("<<<M1693>>>" ++ check (runes_of_ascii "root packet /// triple
rootA {	i32
MetaDataX@calculatedFrom( ""CRC32"" ) `line1
line2` , } MetaData BodyLength { {
u8
rootA, } // c")).
Eval vm_compute in ("<<<M1679>>>" ++ check (runes_of_ascii "root packet /// triple
rootA {	i32
MetaDataX@calculatedFrom( ""CRC32"" ) `line1
line2` , MetaData } BodyLength {
u8
rootA, } // c")).
Eval vm_compute in ("<<<M1645>>>" ++ check (runes_of_ascii "root packet /// triple
rootA {	(
MetaDataX@calculatedFrom( ""CRC32"" ) `line1
line2` , } MetaData BodyLength {
u8
rootA, } // c")).
Eval vm_compute in ("<<<M1690>>>" ++ check (runes_of_ascii "root packet /// triple
rootA {	i32
MetaDataX@calculatedFrom( ""CRC32"" ) `line1
line2` , } MetaData uint16 {
u8
rootA, } // c")).
Eval vm_compute in ("<<<M1657>>>" ++ check (runes_of_ascii "root packet /// triple
rootA {	i32
MetaDataX@calculatedFrom(  ) `line1
line2` , } MetaData BodyLength {
u8
rootA, } // c")).
Eval vm_compute in ("<<<M1821>>>" ++ check (runes_of_ascii "packet
    Pad // a // b
{ i8i8 @calculatedFrom( ""a	b"") `u8 x,` , ,
} options{ float// " ++ [128512]%N ++ runes_of_ascii " emoji
= f64 i64_
=//	t
00 }
")).
Eval vm_compute in ("<<<M3691>>>" ++ check (runes_of_ascii "packet
    o
{
@tag(

    42
    )
    repeat x	{ char[ 0123456789 ]  // c
    	i64_, }	,

    }
options{
    }
")).
Eval vm_compute in ("<<<M241>>>" ++ check (runes_of_ascii "packet Pad {}packet
    options1{// trailing space 
}
    // @lengthOf(
    root
packet
crc
{
    repeat crc len , }")).
Eval vm_compute in ("<<<M75>>>" ++ check (runes_of_ascii "options { pack =0 } MetaData int{ char[	00
    ]
    T
    `crlf
line` ,  i8 string_
,//	t
int16
matchKey , }
")).
Eval vm_compute in ("<<<M2978>>>" ++ check (runes_of_ascii "packet A {
  match k as n {
    [""a"", ""bb"", ""c c"", ""d"", ""e"", ""f"", ""g"", ""h"", ""i"", ""j"", ""k""] : B,
    2 : C
  },
}")).
Eval vm_compute in ("<<<M1696>>>" ++ check (runes_of_ascii "root packet /// triple
rootA {	i32
MetaDataX@calculatedFrom( ""CRC32"" ) `line1
line2` , } MetaData BodyLength")).
Eval vm_compute in ("<<<M2966>>>" ++ check (runes_of_ascii "packet A {
  match k as n {
    [""a"", ""bb"", ""c c"", ""d"", ""e"", ""f"", ""g"", ""h"", ""i"", ""j""] : B
    2 : C
  },
}")).
Eval vm_compute in ("<<<M3011>>>" ++ check (runes_of_ascii "packet A {
    Inner {
        u8 x `a
b`,
        Deep {
            u8 y `a
b`,
        },
    },
}")).
Eval vm_compute in ("<<<M3368>>>" ++ check (runes_of_ascii "packet calculatedFrom { @tag( 4294967296 ) u msg_type , char[ 3 ] crc @lengthOf( len
// c
) `u8 x,` , }")).
Eval vm_compute in ("<<<M3709>>>" ++ check (runes_of_ascii "  packet	A

{Inner  {
match k

    as n{ [
	1

    , 22
	, 007
	, 4
	]:
B

    ,
}
,
    },} ")).
Eval vm_compute in ("<<<M2989>>>" ++ check (runes_of_ascii "packet A {
  match k as n {
    [1, 22, 007, 4, 5, 66, 7, 8, 9, 10, 11, 12] : B,
    2 : C
  },
}")).
Eval vm_compute in ("<<<M3218>>>" ++ check (runes_of_ascii "packet Logon // c
{ @tag( 42 ) @rightPad ( ' ' ) @leftPad ( ) repeat trueish { string T , } , }")).
Eval vm_compute in ("<<<M3250>>>" ++ check (runes_of_ascii "packet Logon { @tag( 42 ) @rightPad ( ' ' ) @leftPad ( ) repeat trueish { string T // c
, } , }")).
Eval vm_compute in ("<<<M3780>>>" ++ check (runes_of_ascii "  options{

stringy
	= 
""x y"" ;
chars = true
	Logon	=
	string crc= true

    Logon= char}
")).
Eval vm_compute in ("<<<M2958>>>" ++ check (runes_of_ascii "packet A {
  match k as n {
    [1, 22, ""c c"", 4, 5, ""f"", 7, 8, ""i""] : B,
    2 : C
  },
}")).
Eval vm_compute in ("<<<M1681>>>" ++ check (runes_of_ascii "root packet /// triple
rootA {	i32
MetaDataX@calculatedFrom( ""CRC32"" ) `line1
line2` ,")).
Eval vm_compute in ("<<<M2931>>>" ++ check (runes_of_ascii "packet A {
  match k as n {
    [""a"", 22, ""c c"", 4, ""e"", 66, ""g""] : B
    2 : C
  },
}")).
Eval vm_compute in ("<<<M1991>>>" ++ check (runes_of_ascii "root
packet crc
    { f32a @calculatedFrom( """ ++ [233]%N ++ runes_of_ascii "t" ++ [233]%N ++ runes_of_ascii """ 
    `say ""hi""`, lengthOf `` ,  }")).
Eval vm_compute in ("<<<M3332>>>" ++ check (runes_of_ascii "packet o { @tag( 42 ) repeat x { char[ 0123456789 ] i64_ , } , } options { } // c
")).
Eval vm_compute in ("<<<M3309>>>" ++ check (runes_of_ascii "packet o { @tag( 42 ) repeat x
// c
{ char[ 0123456789 ] i64_ , } , } options { }")).
Eval vm_compute in ("<<<M1986>>>" ++ check (runes_of_ascii "root
packet crc
    { f32a @calculatedFrom(  )
    `say ""hi""`, lengthOf `` ,  }")).
Eval vm_compute in ("<<<M2693>>>" ++ check (runes_of_ascii "true i16 i8 007 ( `{ , }` matchKey u32 65535 packet packet '\x00' ""`tick`"" u64")).
Eval vm_compute in ("<<<M909>>>" ++ check (runes_of_ascii "options {
T =' '	asx ='\x00' ; falsey /// triple
=  ' '
// " ++ [128512]%N ++ runes_of_ascii " emoji
// c
}
")).
Eval vm_compute in ("<<<M2889>>>" ++ check (runes_of_ascii "packet A {
  match k as n {
    [1, ""bb"", 007, ""d""] : B,
    2 : C
  },
}")).
Eval vm_compute in ("<<<M321>>>" ++ check (runes_of_ascii "MetaData As { } MetaData asx
{
    char[ 007 ] Logon
`two words` , }
")).
Eval vm_compute in ("<<<M4161>>>" ++ check (runes_of_ascii "options {
    roots = ""packet"";
    len = 0;
    crc = zchar[65535];
}")).
Eval vm_compute in ("<<<M2201>>>" ++ check (runes_of_ascii "root
    // `tick` ""quote"" 'q'
    packet ` As { trueish Packet , }
")).
Eval vm_compute in ("<<<M1018>>>" ++ check (runes_of_ascii "// @lengthOf(
MetaData chars { Header BodyLength , char[] int ,
}
")).
Eval vm_compute in ("<<<M2181>>>" ++ check (runes_of_ascii "root
    // `tick` ""quote"" 'q'
    packet As { trueish Packet  }
")).
Eval vm_compute in ("<<<M3705>>>" ++ check (runes_of_ascii "MetaData options1 {
    zchar[007] u,
    x_y_z f32a `u8 x,`,
}")).
Eval vm_compute in ("<<<M4123>>>" ++ check (runes_of_ascii "
root packet
    A{

    u8

    x

    `
x`
    , }
")).
Eval vm_compute in ("<<<M3859>>>" ++ check (runes_of_ascii "MetaData M {
    u8 x `
        x`,
    T t `
        x`,
}")).
Eval vm_compute in ("<<<M2884>>>" ++ check (runes_of_ascii "packet A { Inner { match k as n { [1,22,007] : B, }, }, }")).
Eval vm_compute in ("<<<M1912>>>" ++ check (runes_of_ascii "
packet	As { ""{,}""//x
@calculatedFrom(	)lengthOf , } 	 ")).
Eval vm_compute in ("<<<M4159>>>" ++ check (runes_of_ascii "
packet 
A
{
u8 x
	, 
    // c
    u8

    y , }

")).
Eval vm_compute in ("<<<M1915>>>" ++ check (runes_of_ascii "
packet	As { @calculatedFrom(//x
	)lengthOf , } 	 ")).
Eval vm_compute in ("<<<M3673>>>" ++ check (runes_of_ascii "packet len {
    Logon @calculatedFrom(""a\""b""),
}")).
Eval vm_compute in ("<<<M1768>>>" ++ check (runes_of_ascii "options { }optio''ns {  } // `tick` ""quote"" 'q'")).
Eval vm_compute in ("<<<M3568>>>" ++ check (runes_of_ascii "options {
    a = ""\
    "";
    b = ""\
    ""
}")).
Eval vm_compute in ("<<<M2143>>>" ++ check (runes_of_ascii "MetaData x
{// " ++ [128512]%N ++ runes_of_ascii " emoji
i16 '\x01'stringy , }")).
Eval vm_compute in ("<<<M780>>>" ++ check (runes_of_ascii "packet
    trueish { matchKey  leftPad,
}")).
Eval vm_compute in ("<<<M3206>>>" ++ check (runes_of_ascii "MetaData zchar { zchar[ 3 ] Pad , } // c
")).
Eval vm_compute in ("<<<M2767>>>" ++ check (runes_of_ascii "?.FnyCC|]4Q^]Wpe|<8w(&q'w{$Q$6>[FB=&=G]#")).
Eval vm_compute in ("<<<M2142>>>" ++ check (runes_of_ascii "MetaData x
{// " ++ [128512]%N ++ runes_of_ascii " emoji
i16 @stringy , }")).
Eval vm_compute in ("<<<M2692>>>" ++ check (runes_of_ascii "JGdi0j'|Ze/o)f{H14^iRT3}Qq\} ;}&XD2>X=")).
Eval vm_compute in ("<<<M3736>>>" ++ check (runes_of_ascii "
root
packet

Foo// " ++ [128512]%N ++ runes_of_ascii " emoji
	  { } ")).
Eval vm_compute in ("<<<M2749>>>" ++ check (runes_of_ascii "uint16 """ ++ [128512]%N ++ runes_of_ascii """ uint16 float32 true root")).
Eval vm_compute in ("<<<M2598>>>" ++ check (runes_of_ascii "packet A { B { @tag(1) u8 x, }, }")).
Eval vm_compute in ("<<<M3871>>>" ++ check (runes_of_ascii "
packet Foo

{/// triple

  }

")).
Eval vm_compute in ("<<<M2842>>>" ++ check (runes_of_ascii "f(ukmpH3;(""_fVi)^D86>RRY !%8T?")).
Eval vm_compute in ("<<<M2444>>>" ++ check (runes_of_ascii "f32 f64 float32 float64 float")).
Eval vm_compute in ("<<<M849>>>" ++ check (runes_of_ascii "
options	{ falsey = """" ; }
")).
Eval vm_compute in ("<<<M2084>>>" ++ check (runes_of_ascii "MetaData A { u64 pack\ , }")).
Eval vm_compute in ("<<<M2239>>>" ++ check (runes_of_ascii "MetaData Packet { }packet")).
Eval vm_compute in ("<<<M2098>>>" ++ check (runes_of_ascii "MetaData A { u64 " ++ [252]%N ++ runes_of_ascii "ber, }")).
Eval vm_compute in ("<<<M2076>>>" ++ check (runes_of_ascii "MetaData A { u64 pack, ")).
Eval vm_compute in ("<<<M2636>>>" ++ check (runes_of_ascii "root root packet A { }")).
Eval vm_compute in ("<<<M4009>>>" ++ check (runes_of_ascii "
packet f32a

{
	}

")).
Eval vm_compute in ("<<<M2234>>>" ++ check (runes_of_ascii "MetaData Packet { }")).
Eval vm_compute in ("<<<M2659>>>" ++ check (runes_of_ascii "options { a = 1, }")).
Eval vm_compute in ("<<<M3117>>>" ++ check (runes_of_ascii "// c" ++ [11]%N ++ runes_of_ascii "
packet A {
}")).
Eval vm_compute in ("<<<M2815>>>" ++ check (runes_of_ascii "^oT&]t,1C?E|)]Q{2")).
Eval vm_compute in ("<<<M2658>>>" ++ check (runes_of_ascii "options { = 1; }")).
Eval vm_compute in ("<<<M2567>>>" ++ check (runes_of_ascii "packet A { x }")).
Eval vm_compute in ("<<<M2650>>>" ++ check (runes_of_ascii "MetaData { }")).
Eval vm_compute in ("<<<M2082>>>" ++ check (runes_of_ascii "MetaData ")).
Eval vm_compute in ("<<<M2459>>>" ++ check (runes_of_ascii "packets")).
Eval vm_compute in ("<<<M3145>>>" ++ check (runes_of_ascii "// c x")).
Eval vm_compute in ("<<<M3070>>>" ++ check (runes_of_ascii "// c" ++ [160]%N)).
Eval vm_compute in ("<<<M2523>>>" ++ check (runes_of_ascii "12ab")).
Eval vm_compute in ("<<<M2530>>>" ++ check (runes_of_ascii "a.b")).
Eval vm_compute in ("<<<M2552>>>" ++ check (runes_of_ascii "a" ++ [233]%N)).
