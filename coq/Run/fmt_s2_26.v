From FP Require Import Lexer Parser ShowPT Digest Formatter.
From Coq Require Import String List NArith.
Import ListNotations.
Open Scope string_scope.
Set Printing Width 100000000.
Set Printing Depth 100000000.
Definition show_fres (r : fres) : string :=
  match r with
  | FOk s => "OK:" ++ sh_escaped s ""
  | FErr s => "ERR:" ++ sh_escaped s ""
  | FPanic p => "PANIC:" ++ p
  end.
Definition check (rs : list rune) : string := digest (show_fres (format_res rs)).
Definition full (rs : list rune) : string := show_fres (format_res rs).
Eval vm_compute in ("<<<M3533>>>" ++ check (runes_of_ascii "options {
    // c1
LittleEndian // c2a
  // c2b
= // c3a
  // c3b
false // c4a
  // c4b
; // c5
StringPrefixLenType = u16
    // c8
;
    // c9
ArrayPrefixLenType = // c11
u8 // c12a
  // c12b
; // c13a
  // c13b
FixedStringPadFromLeft // c14a
  // c14b
=
    // c15
true ;
    // c17
FixedStringPadChar // c18
= // c19a
  // c19b
' '
    // c20
; } // c22
packet // c23
Logon
    // c24
{
    // c25
}
    // c26
packet Reject { // c29
InPx48
    // c30
{
    // c31
repeat string price // c34a
  // c34b
, // c35a
  // c35b
u32 // c36
msgKind ,
    // c38
repeat
    // c39
InSide223 // c40a
  // c40b
{ // c41a
  // c41b
Logon , // c43a
  // c43b
repeat
    // c44
f64 Ref // c46
, // c47a
  // c47b
string // c48a
  // c48b
tag7 ,
    // c50
} // c51
, InClordid8 // c53a
  // c53b
{ // c54
zchar[
    // c55
5 // c56
]
    // c57
Qty // c58a
  // c58b
,
    // c59
u64 // c60
x // c61
, repeat // c63
string // c64
lastPx // c65a
  // c65b
, // c66a
  // c66b
}
    // c67
, }
    // c69
, // c70
Logon // c71
,
    // c72
i16 // c73a
  // c73b
lastPx , repeat // c76a
  // c76b
char[ 5 ] // c79a
  // c79b
clOrdID
    // c80
, // c81a
  // c81b
zchar[ // c82a
  // c82b
2 ] // c84
Flags
    // c85
, // c86
repeat
    // c87
string // c88
Side2
    // c89
,
    // c90
}
    // c91
root // c92
packet // c93
Order
    // c94
{
    // c95
uint16
    // c96
sym // c97a
  // c97b
, // c98a
  // c98b
zchar[ 8 ] Side2 // c102a
  // c102b
, repeat // c104
string
    // c105
clOrdID // c106
, string // c108a
  // c108b
tag7 // c109a
  // c109b
,
    // c110
zchar[
    // c111
3 ]
    // c113
OrderId // c114
, // c115a
  // c115b
zchar[
    // c116
4 ] seqNo // c119
, u32 f1 // c122a
  // c122b
, // c123a
  // c123b
u32 // c124
Acct @lengthOf( // c126a
  // c126b
Body
    // c127
) // c128a
  // c128b
, // c129a
  // c129b
match
    // c130
f1 // c131
as // c132
Body
    // c133
{ // c134a
  // c134b
58 // c135a
  // c135b
: // c136
Reject , 180 // c139
:
    // c140
Logon // c141a
  // c141b
, // c142a
  // c142b
}
    // c143
, // c144
u32 // c145
Px // c146
@calculatedFrom( ""CRC32"" // c148
)
    // c149
, } // c151a
  // c151b
")).
Eval vm_compute in ("<<<M807>>>" ++ check (runes_of_ascii "packet  options1
{ @rightPad ( ) @lengthOf( As // c
)
// `tick` ""quote"" 'q'
// c
repeat rootA { msg_type @calculatedFrom( ""\n""
    ) /// triple
`line1
line2`
,}
, //	t
@calculatedFrom(
""\n"" ) @leftPad ( '0' )	match tag
as f32a {
    [ ""\n""]
    :
    Z9_	, 42 :trueish , ""abc"": a1  ,
[  10//
, """ ++ [233]%N ++ runes_of_ascii "t" ++ [233]%N ++ runes_of_ascii """] : A ,
    } ,  T u8x`" ++ [28040; 24687; 31867; 22411]%N ++ runes_of_ascii "` , } packet Header
{ chars
    /// triple
    { zchar[ 255// c
] Pad@lengthOf(
i8i8 )	`u8 x,`
,} , } packet u{
@lengthOf( options1
    // " ++ [128512]%N ++ runes_of_ascii " emoji
    ) int32 repeatCount , match Z9_ as a1// trailing space 
{ ""a	b""
    : As , [
""{,}""	,""it's"" , ""x y"", 0
// @lengthOf(
// @lengthOf(
,	""" ++ [233]%N ++ runes_of_ascii "t" ++ [233]%N ++ runes_of_ascii """  , ""{,}"" ,
0 ,
    //x
    007
]:
    falsey , """"	: MetaDataX ,
    [ """ ++ [28040; 24687]%N ++ runes_of_ascii """ ,65535
,
0123456789 , ""a\\"" ]
    :float, // " ++ [128512]%N ++ runes_of_ascii " emoji
""CRC32""
:	Pad ,
// " ++ [128512]%N ++ runes_of_ascii " emoji
// `tick` ""quote"" 'q'
[
    //
    """ ++ [128512]%N ++ runes_of_ascii """ ,""a\""b"" //x
, ""x y"" ,00
,""a\\"" , 10 // c
,//x
""packet""]:	leftPad // 50% %s
,
}
,
    // c
    Header
{ match
    uint8x
as Packet {1
    : pack , }// @lengthOf(
,} ,	repeat char[]  packetx , Z9_@lengthOf(f32a
)
    // " ++ [128512]%N ++ runes_of_ascii " emoji
    ,
    // c
    @calculatedFrom(
    """"	)
    char
    repeatCount @calculatedFrom( ""// no comment"" )	,	} root packet // @lengthOf(
len { repeat
Logon rootA  `{ , }` //	t
, @rightPad ( '0')zchar[ 0123456789]
    calculatedFrom ,repeat BodyLength{ string  a1 `
`, Packet
// a // b
// `tick` ""quote"" 'q'
Z9_ , charz len, char[
    007 ] metadata
@calculatedFrom( """"
) , } ,// c
match As as MetaDataX{
00 : u// @lengthOf(
, 00
    :  Foo ,7	:charz 007:	charz	[
    42 , ""a\""b"" ]:len
    } ,
@leftPad( '\x00'
    ) zchar[ 0 ] body
@lengthOf( asx
    )
, u32 Pad, @rightPad //
( '\x00')
    rootA Foo
, }
options{} //")).
Eval vm_compute in ("<<<M896>>>" ++ check (runes_of_ascii "// " ++ [27880; 37322]%N ++ runes_of_ascii "
packet len // @lengthOf(
{
repeat // " ++ [27880; 37322]%N ++ runes_of_ascii "
repeatCount
    int `" ++ [233]%N ++ runes_of_ascii "`  ,
    falsey	@lengthOf(
roots) , @calculatedFrom( ""a\""b"" ) char[
    4294967296 ] len//
@calculatedFrom(
    ""`tick`"" ) ,@tag( 3
    )
    match body as
    //x
    options1
{
""it's"" :calculatedFrom """": Foo , 0123456789
// 50% %s
// " ++ [27880; 37322]%N ++ runes_of_ascii "
:
// c
// trailing space 
zchar , [255// " ++ [27880; 37322]%N ++ runes_of_ascii "
, ""abc"" , 42 ,007 ,
    //x
    255
, 00, ""a\""b"" ] :
    Header 7
    :
    asx , },  @rightPad ( ) repeat asx
{
// " ++ [27880; 37322]%N ++ runes_of_ascii "
// trailing space 
match	Pad as As { // " ++ [27880; 37322]%N ++ runes_of_ascii "
10
    : trueish
    , 7 :  Packet
    //	t
    , 007 :// `tick` ""quote"" 'q'
float ,  """" : string_ , [ 10 , 1,
    // packet A { u8 x, }
    ""`tick`"" ]// c
: lengthOf// c
} // a // b
,
repeat
u64 tag `u8 x,`
    ,match
    asx as lengthOf { """ ++ [28040; 24687]%N ++ runes_of_ascii """ : chars, [ ""a\\"" , ""a\\""
    //
    ]: repeatCount ,
[ 42, ""it's""
    ] :float [ 42, ""a	b""//
,007 , 0123456789 , 007
    ,10 ] :
Packet ,
[ ""\n""
    //x
    , """ ++ [233]%N ++ runes_of_ascii "t" ++ [233]%N ++ runes_of_ascii """ ] : body } ,
zchar[	4294967296]  MetaDataX
    ,
}
    // " ++ [27880; 37322]%N ++ runes_of_ascii "
    ,@lengthOf(T // 50% %s
)u64 Header  `crlf
line` ,
match x_y_z as
// " ++ [128512]%N ++ runes_of_ascii " emoji
//	t
repeatCount { ""a\\"" :	tag ,"""":Foo
,""a	b"":MetaDataX ""\" ++ [233]%N ++ runes_of_ascii """ :// a // b
charz , [ 65535,	65535]: roots
,  4294967296 : A  , }  ,
    // " ++ [27880; 37322]%N ++ runes_of_ascii "
    @tag(  3 ) // `tick` ""quote"" 'q'
match u8x as
    i8i8{
// `tick` ""quote"" 'q'
//
[ 65535,1 ]
    :crc ,[
    ""x y"" , ""`tick`"" ,3
    , 00
    , ""CRC32""
    , 00 , ""1""
    ] : calculatedFrom// a // b
0	:options1 ,0
    :a1 ,
}, }")).
Eval vm_compute in ("<<<M653>>>" ++ check (runes_of_ascii "
root packet
    rootA { int8 len `// not a comment` ,
MetaDataX {match options1 as // @lengthOf(
a1
{1	: Z9_ , [ 7
] : crc
// " ++ [27880; 37322]%N ++ runes_of_ascii "
// trailing space 
,0	: u ,
    //x
    [
    ""\n"" ,
    ""abc"" ]: repeatCount
    [ ""\n""
    , 0 , 42 ,""{,}"" ]
:x_y_z
, }
    , repeat Foo asx ,
    } , f64 roots `tab	here`  , }
    MetaData
    i8i8 { matchKey Foo , } packet // " ++ [128512]%N ++ runes_of_ascii " emoji
asx
    {
u128	{
rootA {
    repeat lengthOf
    MetaDataX , string_ @calculatedFrom( ""it's""),	repeat float32 msg_type
    // 50% %s
    `" ++ [233]%N ++ runes_of_ascii "`, f32 // " ++ [128512]%N ++ runes_of_ascii " emoji
metadata
    , }, rootA, //x
float64 float // " ++ [27880; 37322]%N ++ runes_of_ascii "
`u8 x,` ,zchar {
char
body	,	} ,
}, } root packet Header
{
repeat string i8i8, } packet
u { matchKey	{ rootA
    ,	string_ stringy ,} , BodyLength`// not a comment` , @calculatedFrom( ""1"")	match //
uint8x as int { [ ""1"" // trailing space 
]: trueish ,
    }
    , repeat crc  x `
`
    ,
    repeat// packet A { u8 x, }
T,
    tag @lengthOf( chars	) ,
repeat options1
uint8x `crlf
line`
, @calculatedFrom( ""CRC32""	)
// a // b
// 50% %s
@tag( 3 )// " ++ [128512]%N ++ runes_of_ascii " emoji
@rightPad ( // packet A { u8 x, }
' ' ) float @lengthOf(len
) ,@calculatedFrom( // " ++ [27880; 37322]%N ++ runes_of_ascii "
""// no comment"" )
    /// triple
    @calculatedFrom( ""a\""b""
    ) @calculatedFrom( ""\n"") a1 calculatedFrom
    //	t
    ,@rightPad
( '0'	) A , }
// 50% %s
")).
Eval vm_compute in ("<<<M1102>>>" ++ check (runes_of_ascii "
options// trailing space 
{uint8x = //	t
""a\""b"" ; rootA
= 255 packetx//
= uint64 ; options1 =
'0'; } MetaData roots{zchar[ 0123456789 // " ++ [128512]%N ++ runes_of_ascii " emoji
]string_ ,}
    packet A { /// triple
@calculatedFrom(""abc"") options1	options1 ,
} root packet BodyLength { @lengthOf(stringy) @tag( //	t
007) @leftPad( '0'
    )repeat u {char[0123456789
    ]	float//x
@lengthOf(
BodyLength
),char[
1
    ] MetaDataX
    // @lengthOf(
    `crlf
line`	, lengthOf // `tick` ""quote"" 'q'
`crlf
line` , }	,
    @tag( 0 ) @rightPad ( '0' )  @tag(
    1 ) msg_type{chars @lengthOf(
trueish ) , repeat int64
i8i8 `// not a comment`
, i8i8	@lengthOf(
repeatCount )	,
string	charz
`tab	here`,}, repeat
u128
`crlf
line` , @lengthOf( _x  ) match int as f32a	{ [""a\""b"" ,
10
]  : Logon ,
    [	""" ++ [128512]%N ++ runes_of_ascii """
,
65535 ]
:A, } ,matchKey @lengthOf(
    falsey
) ,
    @lengthOf( metadata
)
repeat  Z9_ `two words`
, //	t
@tag( 4294967296 ) body @lengthOf(  float
) , repeat  x_y_z{ match zchar as string_ { /// triple
""" ++ [233]%N ++ runes_of_ascii "t" ++ [233]%N ++ runes_of_ascii """ // " ++ [27880; 37322]%N ++ runes_of_ascii "
:u8x , 4294967296 : matchKey,},
T
    // c
    { u128 , } , match // packet A { u8 x, }
T
as x_y_z {42:
    zchar } ,
} ,
    } packet // a // b
len
// " ++ [27880; 37322]%N ++ runes_of_ascii "
// c
{	repeat crc stringy
, } // " ++ [128512]%N ++ runes_of_ascii " emoji")).
Eval vm_compute in ("<<<M4249>>>" ++ check (runes_of_ascii "// packet A { u8 x, }
MetaData f32a {
    /// triple
    char[0] i8i8 `
    `,
    f64 a1,
    i32 rootA `it's`,
    f64 stringy `it's`,
    charz packetx `
    `,
}

packet asx {
    repeat u64 metadata `u8 x,`,
    // 50% %s
    @lengthOf(calculatedFrom)
    repeat options1 {
        BodyLength {
            // `tick` ""quote"" 'q'
            // 50% %s
            zchar[3] stringy `doc`,//	t
            charz {
                repeat uint16 metadata `crlf
                line`,
                _x len `100% of %d`,
                int @lengthOf(metadata),
            },
            zchar[42] i8i8 `crlf
            line`,
        },
        Foo,
        repeat msg_type,
        repeat u8 msg_type,
        // c
    },
    @leftPad(' ')
    repeat x_y_z {
        // 50% %s
        string A @calculatedFrom(""packet"") `u8 x,`,
    },
    uint8 A @calculatedFrom(""CRC32""),
    u8x x_y_z,
    @rightPad('0')
    match o as asx {
        [65535, ""a	b""] : tag,
        //	t
        0 : matchKey,
        4294967296 : o,
        ""it's"" : _x,
    },
    repeat uint64 Header,
}

MetaData uint8x {
    zchar[0] x_y_z,
}")).
Eval vm_compute in ("<<<M1301>>>" ++ check (runes_of_ascii "root packet
leftPad { uint16 i64_ , //
@tag(007
)
@rightPad (' ' ) @calculatedFrom( ""\n"" ) repeat zchar {
repeat calculatedFrom ,} , }
MetaData repeatCount{ /// triple
trueish
//
// " ++ [128512]%N ++ runes_of_ascii " emoji
trueish`it's` ,i64_ MetaDataX`
` ,i64 Foo	, uint64 uint8x ,  }
root packet Foo {	repeat zchar[4294967296 ]
    Z9_
`tab	here` ,}packet float
    { match u128
as Foo { 7
    : A ,[  007 , // trailing space 
0 /// triple
]
: charz,	} , @tag(
    // trailing space 
    65535 ) zchar[1 ]
float `crlf
line`,
/// triple
// trailing space 
@lengthOf(body	) u8 Foo// @lengthOf(
`" ++ [28040; 24687; 31867; 22411]%N ++ runes_of_ascii "` , @leftPad ('\x00'
    ) BodyLength
    {
repeat
zchar[ 255]
    lengthOf,
    uint16 zchar@calculatedFrom( """ ++ [233]%N ++ runes_of_ascii "t" ++ [233]%N ++ runes_of_ascii """ ) , repeat u8
// a // b
// " ++ [128512]%N ++ runes_of_ascii " emoji
rootA
    ,
    asx @calculatedFrom(""" ++ [233]%N ++ runes_of_ascii "t" ++ [233]%N ++ runes_of_ascii """ ) `" ++ [28040; 24687; 31867; 22411]%N ++ runes_of_ascii "` , // c
}
, @lengthOf( asx )
repeat uint8x { repeat Header	{  zchar[ 0123456789]
    x_y_z	@calculatedFrom( """ ++ [28040; 24687]%N ++ runes_of_ascii """ )
,
}
    ,	} , /// triple
char[ // c
255 ] Pad`" ++ [233]%N ++ runes_of_ascii "` , } MetaData body { zchar[ 1
    //x
    ]
    metadata `" ++ [233]%N ++ runes_of_ascii "`
    ,	u Z9_ ,
int16 x
    , falsey int
`a\`, }")).
Eval vm_compute in ("<<<M453>>>" ++ check (runes_of_ascii "root
    packet tag {float float ,char[] calculatedFrom @calculatedFrom(""packet""
)`say ""hi""` , int8
pack @lengthOf(	A),@tag( 255// 50% %s
) @calculatedFrom( ""abc""	)@lengthOf( repeatCount)
string Logon  `" ++ [233]%N ++ runes_of_ascii "`	, uint16 u @lengthOf(
tag) // trailing space 
`two words`,
    @tag( 4294967296 )  @calculatedFrom(
""x y""
    )@tag( 7) zchar[ 00] trueish ,	repeat i8i8	{ i64 a1`{ , }`,
}  , }// c
packet tag{ //	t
repeat repeatCount {
    // 50% %s
    i8i8 @calculatedFrom(
    ""// no comment"" ) `" ++ [28040; 24687; 31867; 22411]%N ++ runes_of_ascii "` //x
,
char[] matchKey@calculatedFrom( """ ++ [233]%N ++ runes_of_ascii "t" ++ [233]%N ++ runes_of_ascii """
// c
//
) // @lengthOf(
`line1
line2`,
}
, repeat zchar[ 42 ] body , @calculatedFrom( """ ++ [233]%N ++ runes_of_ascii "t" ++ [233]%N ++ runes_of_ascii """ )
@calculatedFrom( //x
""\n"")
@leftPad ( '0'
) match tag
    as len  {""CRC32""
:_x
[ """" // c
]
: matchKey, }
,
@lengthOf( i8i8  )zchar[ 00 ] pack@calculatedFrom(
""1"" ) , pack
    {
stringy `doc`
, // `tick` ""quote"" 'q'
match f32a//x
as calculatedFrom { [ // " ++ [27880; 37322]%N ++ runes_of_ascii "
""a	b""
, 00  ,007	, ""a	b""
    ]: u8x } /// triple
,	}
, } // a // b")).
Eval vm_compute in ("<<<M1339>>>" ++ check (runes_of_ascii "root
    // trailing space 
    packet o{char[]_x `
` ,repeat f32 tag
, string
leftPad `" ++ [233]%N ++ runes_of_ascii "` ,
@calculatedFrom(
""" ++ [233]%N ++ runes_of_ascii "t" ++ [233]%N ++ runes_of_ascii """ //	t
) match
    int as x_y_z	{1 : A, 7:
// `tick` ""quote"" 'q'
// `tick` ""quote"" 'q'
body
, [
/// triple
// c
""a\\"" ,
65535]
: zchar  ""`tick`""// 50% %s
: pack,} , stringy
    @lengthOf( msg_type ) , falsey BodyLength
, char[] x_y_z
@lengthOf( options1 ) // packet A { u8 x, }
`tab	here` , repeat i8i8{repeat Header
{ repeatCount @calculatedFrom( ""1"" )
    `" ++ [233]%N ++ runes_of_ascii "` ,}	, }  , char[ 007] f32a `tab	here`,
    } MetaData
calculatedFrom
    { tag falsey`line1
line2`
    ,}
    // " ++ [27880; 37322]%N ++ runes_of_ascii "
    root packet	matchKey {@tag(
    42
//x
// trailing space 
)metadata ,@lengthOf(int ) @lengthOf( string_ )char[ 10 ] options1``, packetx { zchar[ 10// `tick` ""quote"" 'q'
] i64_,// 50% %s
}
,@tag(	007 ) @leftPad ( '0') float64 BodyLength ,  } options { f32a = ""abc"" ;
    }root
packet
    roots	{int32 x_y_z`crlf
line` , }
")).
Eval vm_compute in ("<<<M1351>>>" ++ check (runes_of_ascii "packet Logon {
@rightPad (  )
    int64 roots@calculatedFrom(  ""\" ++ [233]%N ++ runes_of_ascii """ // @lengthOf(
) , string
rootA `" ++ [28040; 24687; 31867; 22411]%N ++ runes_of_ascii "` , A@lengthOf( float ) ,
@lengthOf( u128 ) Packet
    @lengthOf( x_y_z )	`` , @lengthOf(
    i8i8//	t
) chars { falsey /// triple
@lengthOf( repeatCount ) `it's` ,  } , MetaDataX {
match
    pack as
Z9_ {
[ 1 , 4294967296
    ,  42 , //x
255
    ,
""" ++ [233]%N ++ runes_of_ascii "t" ++ [233]%N ++ runes_of_ascii """ ,""packet"" ] : options1
    // `tick` ""quote"" 'q'
    [ 1 ,""" ++ [28040; 24687]%N ++ runes_of_ascii """
    , ""\" ++ [233]%N ++ runes_of_ascii """ ] : T ,}  ,
falsey
@calculatedFrom( ""// no comment""
    ) ,/// triple
repeat body {
repeat metadata `say ""hi""` ,
    match // packet A { u8 x, }
f32a as f32a  {[1 , 3	] :uint8x ,
    } ,u  {
repeat string zchar
,
// @lengthOf(
// 50% %s
} //	t
,
match i8i8 as
/// triple
// a // b
packetx // a // b
{0 : BodyLength ""a	b""  :Packet,// `tick` ""quote"" 'q'
} , }
, zchar[ 0
    ] body @calculatedFrom( ""\n""	),
    }  , }
root  packet
Z9_{
}

")).
Eval vm_compute in ("<<<M584>>>" ++ check (runes_of_ascii "  root packet	len {
    match body as// @lengthOf(
a1 { 10 :
uint8x , } , char[ 10 ] zchar ,roots @lengthOf(u )
    `" ++ [28040; 24687; 31867; 22411]%N ++ runes_of_ascii "`
,
float@calculatedFrom(  ""a	b"") ,	@lengthOf(/// triple
Packet)
    zchar @lengthOf(body )
    `
`,// `tick` ""quote"" 'q'
@tag( // c
255 )
repeat Packet { repeat char
falsey `" ++ [28040; 24687; 31867; 22411]%N ++ runes_of_ascii "` ,repeat//	t
T	{ char[] chars
, // @lengthOf(
repeat f32a{ repeat char[]	falsey`{ , }` , } , }
    ,
// a // b
// " ++ [27880; 37322]%N ++ runes_of_ascii "
string
    // packet A { u8 x, }
    int
,
    match float as i64_ { // 50% %s
[ 4294967296 ,
""\n""
]
:A ,
    ""packet"" :roots	3 :
float
,
    // `tick` ""quote"" 'q'
    [ 0123456789
    // packet A { u8 x, }
    ,255 , 0 , ""abc"" ,
    """ ++ [128512]%N ++ runes_of_ascii """ ] :charz ,} , } ,
}
root
    packet
// trailing space 
// c
tag {
    }
MetaData repeatCount{ // " ++ [128512]%N ++ runes_of_ascii " emoji
roots
Logon
    `` ,
    char[
4294967296
] packetx ,
uint32 Foo
    , //x
} 	 ")).
Eval vm_compute in ("<<<M3836>>>" ++ check (runes_of_ascii "options {
    roots = zchar[7];
}

root packet chars {
    u8x uint8x,
    // @lengthOf(
}

root packet Header {
    @tag(00)
    match chars as _x {
        4294967296 : i64_,
    },
    zchar[00] Header,
    Header `{ , }`,
    i64_ Packet,
    @lengthOf(a1)
    @rightPad()
    @lengthOf(Header)
    repeat int8 trueish `doc`,
    @calculatedFrom(""a\""b"")
    repeat Foo,
    @leftPad()
    zchar[3] u8x,
    @rightPad()
    repeat matchKey {
        // a // b
        i32 roots,
        options1 {
            Foo @calculatedFrom(""1"") `u8 x,`,
            i64_,
            i64_ `doc`,
        },
    },
    match matchKey as f32a {
        """ ++ [128512]%N ++ runes_of_ascii """ : body,
    },
    repeat u lengthOf,
}

packet Header {
    // packet A { u8 x, }
    @lengthOf(a1)
    Header @calculatedFrom(""\n"") `line1
        line2`,
}")).
Eval vm_compute in ("<<<M1193>>>" ++ check (runes_of_ascii "root
packet	msg_type {
    @calculatedFrom(
// " ++ [27880; 37322]%N ++ runes_of_ascii "
// a // b
""// no comment""
    ) uint32 i8i8 // 50% %s
, //
a1 { BodyLength
,
    } , //	t
}	root packet uint8x	{ a1@lengthOf( Logon ) ,@lengthOf(  metadata	)@tag(
    1
)
@calculatedFrom(""abc"" ) char[ 7 ]string_@lengthOf( x_y_z ) ,
    // trailing space 
    Packet // a // b
`" ++ [233]%N ++ runes_of_ascii "`
,
    @tag(
1)char[]asx /// triple
@calculatedFrom(
""`tick`""  )	,
// trailing space 
// trailing space 
} root
packet BodyLength{ //x
@leftPad /// triple
(  )/// triple
repeat i8i8
    `" ++ [233]%N ++ runes_of_ascii "` ,
@rightPad () repeat
tag { repeat float32
    // 50% %s
    chars// " ++ [27880; 37322]%N ++ runes_of_ascii "
`{ , }` ,} , @calculatedFrom( ""1"" ) f32a metadata ``
    , @tag( 00 ) @calculatedFrom( """ ++ [28040; 24687]%N ++ runes_of_ascii """
    ) i64  u
    // c
    @calculatedFrom(  ""CRC32"" )
// trailing space 
//x
,}")).
Eval vm_compute in ("<<<M4104>>>" ++ check (runes_of_ascii "
options

    {
	leftPad  = ""\n""
    ;

    u  = uint8 ;}
	MetaData
msg_type 
{	} MetaData  Header { zchar[
    65535 ]// trailing space 

	chars `100% of %d` 	 //x
    ,

options1 T ,
}
	packet	charz

{
match 
falsey as 
matchKey  {""""
:  Logon 
,	""`tick`""
:
a1	,  ""1""
    :stringy 
,

    ""// no comment""
:
Z9_
	,  00 
: crc  ,7 :

packetx ,

} , 
repeat u32  metadata
	, 
char[
    007
	]	u	`a\`
    ,

@calculatedFrom( ""it's"" 
)
	@lengthOf(
	charz

    )match leftPad as 
	    // " ++ [27880; 37322]%N ++ runes_of_ascii "

/// triple
int{00
	: x  ,
	}  , // c
	@tag( //x

10  )
	match
u128

as	Logon	{
    00
    :
	tag  ,

    }

    , match x
	as
MetaDataX
{  [ 
1

    ] :
body } ,	} 
packet

    BodyLength
	// " ++ [128512]%N ++ runes_of_ascii " emoji

	// c
		{
	}

")).
Eval vm_compute in ("<<<M3957>>>" ++ check (runes_of_ascii "  root

packet 
repeatCount
{ // trailing space 
  @lengthOf( 
/// triple
  i8i8)

    char[ 00
]
    u
    `say ""hi""`,

u32 metadata ,

char[ 10 
]
    i64_ @lengthOf(
	Packet ) , repeat
	char[0123456789
    ]  /// triple
	float	, @calculatedFrom(  ""it's""	)
    u8
    x @calculatedFrom(
    ""CRC32""
) , 
}
    packet

    matchKey	{

}packet As {}

packet chars
{// " ++ [128512]%N ++ runes_of_ascii " emoji

  @lengthOf(Packet)
char[]
    Header
	@calculatedFrom("""" ) ,
Packet  Pad
    `say ""hi""` ,  MetaDataX	@lengthOf( options1 
) 
,char[	10
    ]T //	t
@calculatedFrom(

""1"" 

//x
	)	, // a // b
      @tag( 0) char[255
    ] 
  // packet A { u8 x, }

lengthOf

    @calculatedFrom( ""a\""b""

    ) ,  }

")).
Eval vm_compute in ("<<<M3738>>>" ++ check (runes_of_ascii "packet Packet {
    matchKey `tab	here`,
    @calculatedFrom(""// no comment"")
    options1 `a\`,
    @tag(65535)
    zchar[10] u128 `it's`,
    @lengthOf(repeatCount)
    repeat char[] Logon,
    len @lengthOf(leftPad) `100% of %d`,
    @lengthOf(charz)
    @lengthOf(x_y_z)
    @leftPad('\x00')
    // c
    trueish @lengthOf(string_),
    repeat zchar {
        repeat char[0] o `100% of %d`,
        match Packet as f32a {
            0 : a1,
            65535 : leftPad,
            // `tick` ""quote"" 'q'
        },
        match rootA as stringy {
            42 : _x,
        },
        repeat string float,
    },
    char[42] charz @calculatedFrom(""" ++ [28040; 24687]%N ++ runes_of_ascii """),
}")).
Eval vm_compute in ("<<<M4046>>>" ++ check (runes_of_ascii "  MetaData
	options1
{ }	options{ 
} options { options1

=
	'\x00' 	 // packet A { u8 x, }

}	//x
	  root packet

packetx{ @rightPad

( '\x00'  )
	asx
leftPad

,
	repeat
	Foo
MetaDataX`// not a comment`
    ,
	@lengthOf(u128
    )
zchar[3]  //x

	BodyLength 
@lengthOf(
metadata 
)

    ,
    uint16 

    // " ++ [128512]%N ++ runes_of_ascii " emoji
    matchKey

`
`	,  rootA  u8x  `// not a comment`  // a // b
  ,  }  root  packet

    Logon{ 
f32a
repeatCount
    `line1
line2`
, @calculatedFrom(  ""// no comment""

)
u16
	len	@calculatedFrom( 	 // @lengthOf(

  ""it's""/// triple
  ) 
,
@rightPad
    (  ' '
)MetaDataX
,  zchar[ 00 ]	metadata
`doc` , }
")).
Eval vm_compute in ("<<<M4315>>>" ++ check (runes_of_ascii "packet calculatedFrom {
    zchar[255] BodyLength,
    @tag(42)
    match Logon as trueish {
        [""\n"", ""it's""] : x_y_z,
        ""\" ++ [233]%N ++ runes_of_ascii """ : matchKey,
        007 : As,
        [
            007, ""\n"", 42, 0, ""packet"",
            ""a	b""
        ] : x_y_z,
        [""CRC32""] : repeatCount,
        ""\" ++ [233]%N ++ runes_of_ascii """ : float,
    },
    @leftPad()
    repeat trueish {
        zchar[255] x_y_z `a\`,
        _x {
            // @lengthOf(
            char[4294967296] i64_,// 50% %s
            zchar[4294967296] leftPad,
        },
        Foo,
        options1 @lengthOf(Packet) `two words`,
    },
}

root packet body {
}")).
Eval vm_compute in ("<<<M1115>>>" ++ check (runes_of_ascii "packet Header
{}packet
f32a
    // c
    { @calculatedFrom(
    ""`tick`""
// packet A { u8 x, }
// " ++ [27880; 37322]%N ++ runes_of_ascii "
)match // " ++ [27880; 37322]%N ++ runes_of_ascii "
rootA as Pad
{
"""" : a1	255 // c
: options1 3: f32a
    ,
    ""\n""
    // " ++ [27880; 37322]%N ++ runes_of_ascii "
    : matchKey ,	255
    //
    : tag ,
    [
    // `tick` ""quote"" 'q'
    4294967296 , 007 ]
:Header	}
,
repeat int32 // " ++ [27880; 37322]%N ++ runes_of_ascii "
repeatCount, @lengthOf(Header
)
zchar[
    255]Header	``,
repeat char[] uint8x `100% of %d`, }root
// trailing space 
//	t
packet Z9_	{ crc`{ , }` // c
,
// " ++ [27880; 37322]%N ++ runes_of_ascii "
// packet A { u8 x, }
zchar[ 4294967296 ] _x @lengthOf( A
) ,	repeat char[] pack , Foo , }
")).
Eval vm_compute in ("<<<M1095>>>" ++ check (runes_of_ascii "root
    packet tag { char[]
repeatCount @calculatedFrom(""abc"")
    ,
}
    //	t
    packet
packetx //
{
match // @lengthOf(
int as charz {""" ++ [233]%N ++ runes_of_ascii "t" ++ [233]%N ++ runes_of_ascii """ : asx ,
""packet""
:msg_type ""packet"" // `tick` ""quote"" 'q'
: charz
,//	t
0123456789:
u8x	, [007
    ]	:
    len ,[ 255 ]
    :// packet A { u8 x, }
crc ,} ,
repeat i64_	`say ""hi""`,
    }// " ++ [27880; 37322]%N ++ runes_of_ascii "
packet
_x { i16 rootA	, repeat body Header `say ""hi""` , @calculatedFrom(""x y""
    ) match int
    // trailing space 
    as chars{  [ 42 ]
:
    //	t
    Pad	} , msg_type
    // trailing space 
    `say ""hi""`,}
")).
Eval vm_compute in ("<<<M3562>>>" ++ check (runes_of_ascii "options {
    LittleEndian = true;
    ArrayPrefixLenType = u32;
    FixedStringPadFromLeft = true;
    FixedStringPadChar = '0';
}
packet Party {
}
root packet Heartbeat {
    repeat string Tail,
    InRef14 {
        InMsgkind17 {
            int8 Flags,
            char[10] Acct,
            zchar[4] sym,
            i8 Px,
        },
        string Px,
    },
    uint16 seqNo,
    int64 tag7,
    u16 Note,
    u32 Px @lengthOf(Body),
    match Note as Body {
        96 : Party,
    },
    u16 Acct @calculatedFrom(""CRC32""),
}
")).
Eval vm_compute in ("<<<M4080>>>" ++ check (runes_of_ascii "MetaData packetx {
    char[] Header,
}

packet Foo {
    u32 charz,
    string trueish,
    @leftPad(' ')
    i8i8 {
        float64 T @lengthOf(leftPad),// c
        u128 `two words`,
        zchar[007] metadata `two words`,
        repeat BodyLength MetaDataX `line1
        line2`,
    },
    chars @calculatedFrom(""{,}"") `100% of %d`,
}

packet T {
    f32a,
    @tag(0)
    @calculatedFrom(""\n"")
    rootA _x `{ , }`,
    @leftPad()
    u8 int,
    crc @lengthOf(Logon) `tab	here`,
    // c
    // " ++ [128512]%N ++ runes_of_ascii " emoji
}")).
Eval vm_compute in ("<<<M3396>>>" ++ check (runes_of_ascii "MetaData Pad // c1a
  // c1b
{ x_y_z // c3a
  // c3b
a1 , int8
    // c6
trueish // c7a
  // c7b
`two words` // c8
, // c9
char[] x_y_z `{ , }` , zchar[
    // c14
1
    // c15
]
    // c16
pack `
` , len i64_ ,
    // c22
} // c23
MetaData crc // c25
{ // c26a
  // c26b
zchar[
    // c27
7
    // c28
]
    // c29
Z9_ // c30a
  // c30b
, char[] options1 // c33a
  // c33b
, uint32 // c35
options1
    // c36
, // c37a
  // c37b
u // c38
MetaDataX // c39a
  // c39b
, // c40
}
    // c41
")).
Eval vm_compute in ("<<<M60>>>" ++ check (runes_of_ascii "
MetaData
Packet
    { i64_ a1
,
    } root packet	Header { // a // b
Z9_ // a // b
crc , o@lengthOf(  float)`line1
line2`
, //x
zchar[ 0123456789
] metadata
    `two words`,// a // b
@leftPad( '\x00' )
tag Header ,
    } MetaData _x {char[
007 ] msg_type ,
charz T `say ""hi""` ,
// @lengthOf(
// a // b
int16  leftPad `" ++ [233]%N ++ runes_of_ascii "` , }options { uint8x=
char falsey =  ""{,}"" ;
    T =""a\""b""
;
MetaDataX// trailing space 
=0 ;matchKey // " ++ [128512]%N ++ runes_of_ascii " emoji
=i8 ;	} // " ++ [27880; 37322]%N ++ runes_of_ascii "
options	{
}")).
Eval vm_compute in ("<<<M3716>>>" ++ check (runes_of_ascii "options {
    BodyLength = int8;
}

root packet options1 {
    @tag(007)
    /// triple
    // packet A { u8 x, }
    @rightPad()
    // `tick` ""quote"" 'q'
    char[] MetaDataX @calculatedFrom(""a	b"") `100% of %d`,
    float32 u8x,
    string As @lengthOf(tag),
    @tag(4294967296)
    @tag(00)
    @rightPad(' ')
    body _x,
    i8 u8x `a\`,
    repeat int8 tag `
    `,
    char[] Pad `u8 x,`,
    int64 rootA `
    `,
}

options {
    // c
}")).
Eval vm_compute in ("<<<M169>>>" ++ check (runes_of_ascii "packet repeatCount
{
repeat
repeatCount {  match float as
charz
    {007 :	Packet
    ,
""" ++ [28040; 24687]%N ++ runes_of_ascii """:
u128
, ""abc"" :
    A , }
    ,	uint8x, // c
}
,
    @calculatedFrom(
    ""`tick`""
) char[]float ,  Foo	T	`100% of %d` ,
    roots
rootA
    ,
    char rootA
    //	t
    ,@tag(7 )
//	t
//x
charz o`` ,  char[
    007
    ]
msg_type @lengthOf( x_y_z
    ) , //x
}
packet // 50% %s
MetaDataX{ i16 _x	@calculatedFrom( ""\" ++ [233]%N ++ runes_of_ascii """ )
    , }
")).
Eval vm_compute in ("<<<M3710>>>" ++ check (runes_of_ascii "
MetaData
lengthOf
    { //
	char[00]

    falsey ,
string
packetx`crlf
line`
, 
charz	_x ,
crc

metadata
	,

    uint32 
metadata	//x
		`tab	here`,
    u16 

    // @lengthOf(
	// " ++ [27880; 37322]%N ++ runes_of_ascii "
    i64_, }

MetaData
As
	{
char[]
crc ,
i8 T,  u8
	u
	, // `tick` ""quote"" 'q'
  string crc
    `line1
line2`
	,
    i16 leftPad
	,}	root
packet	// c
crc	{ 
    // packet A { u8 x, }
	i32	uint8x `line1
line2`
	,}")).
Eval vm_compute in ("<<<M3715>>>" ++ check (runes_of_ascii "root// c
    	packet
	Z9_  {matchKey{ char[ // 50% %s
007] 
A	// 50% %s

@calculatedFrom( ""{,}""
    ) ,}	,	// 50% %s

@lengthOf( tag )

    roots As
, char[]	falsey
`say ""hi""`,
@lengthOf( uint8x
	)
    _x
    @calculatedFrom(
""" ++ [233]%N ++ runes_of_ascii "t" ++ [233]%N ++ runes_of_ascii """
	) ,  //x
	}
root packet

A

    {	@lengthOf(  u128
	) 
char[ 
007 ] int @calculatedFrom(
""" ++ [28040; 24687]%N ++ runes_of_ascii """

)

    ,
    // c

//x
    }
packet	Foo { repeat  string_ , } ")).
Eval vm_compute in ("<<<M811>>>" ++ check (runes_of_ascii "
packet
o	{match matchKey
as
chars	{
    10
// c
//x
: MetaDataX""" ++ [233]%N ++ runes_of_ascii "t" ++ [233]%N ++ runes_of_ascii """ : x
""it's"": trueish  , 4294967296
:i64_ } ,
i16 u8x @lengthOf( zchar ) , @lengthOf(	len	)//	t
@tag( 4294967296 ) // a // b
_x @calculatedFrom(
""abc""  ) , } root	packet matchKey // packet A { u8 x, }
{
// packet A { u8 x, }
/// triple
repeat
stringy u8x	,
} packet BodyLength{metadata @lengthOf( rootA ),}
")).
Eval vm_compute in ("<<<M503>>>" ++ check (runes_of_ascii "  MetaData uint8x//
{i64
crc ,
    u16 Pad	`" ++ [233]%N ++ runes_of_ascii "` ,
float64 falsey	,
    i64
    Packet ,
//	t
// " ++ [128512]%N ++ runes_of_ascii " emoji
} MetaData x_y_z { } packet
    x_y_z
{ } options {  crc= int8 ;i8i8 =
""\n"" body =	char[]BodyLength	= ' '  ;
    i64_ =
'\x00'
// a // b
// " ++ [27880; 37322]%N ++ runes_of_ascii "
}options { len // `tick` ""quote"" 'q'
= true roots
=' ' ; trueish
    = '0'a1 =
// @lengthOf(
//
10 ; Z9_ =	f32
;
    }
")).
Eval vm_compute in ("<<<M3925>>>" ++ check (runes_of_ascii "root packet uint8x {
    @leftPad(' ')
    // packet A { u8 x, }
    char[0] matchKey @calculatedFrom(""`tick`""),
    @tag(0)
    int32 f32a @lengthOf(msg_type),
    u8x @calculatedFrom(""a	b""),
    repeat falsey `" ++ [28040; 24687; 31867; 22411]%N ++ runes_of_ascii "`,
}

options {
    roots = ""\" ++ [233]%N ++ runes_of_ascii """
    o = '\x00';
    u = char[7]
    metadata = true
    float = ""\n"";
}

MetaData crc {
    body A `" ++ [233]%N ++ runes_of_ascii "`,
}")).
Eval vm_compute in ("<<<M30>>>" ++ check (runes_of_ascii "  packet lengthOf
{ match charz as leftPad { ""// no comment"":
    Z9_ , [
    65535
,
""" ++ [28040; 24687]%N ++ runes_of_ascii """ ] : x , }
    // 50% %s
    ,//	t
zchar[ 0123456789 // c
]
tag
    @calculatedFrom( ""CRC32""	) `// not a comment` , repeat
char[
// 50% %s
// " ++ [128512]%N ++ runes_of_ascii " emoji
0123456789
// @lengthOf(
// @lengthOf(
]Logon
,	} packet options1
{
    }packet options1{
}
")).
Eval vm_compute in ("<<<M1042>>>" ++ check (runes_of_ascii "packet T { // packet A { u8 x, }
uint64
i64_	@calculatedFrom( ""x y"" )`tab	here`
    ,} packet MetaDataX {  @rightPad ( '\x00'  )	string_ // " ++ [27880; 37322]%N ++ runes_of_ascii "
string_
, int64 len
`doc`
, @lengthOf(
    body ) repeat leftPad
lengthOf `two words` ,}
MetaData zchar
    { x_y_z i64_,}
    MetaData len
    { // " ++ [128512]%N ++ runes_of_ascii " emoji
} root packet body
{}")).
Eval vm_compute in ("<<<M3918>>>" ++ check (runes_of_ascii "packet Pad {
    // @lengthOf(
    /// triple
    @tag(1)
    @leftPad('0')
    repeat zchar[10] Packet,
    uint32 BodyLength `100% of %d`,
    repeat char[10] Z9_,
    @leftPad('0')
    repeat Foo a1,
    char[42] repeatCount `line1
    line2`,
    @rightPad()
    char[] crc,
    pack @calculatedFrom(""\" ++ [233]%N ++ runes_of_ascii """),
}")).
Eval vm_compute in ("<<<M144>>>" ++ check (runes_of_ascii "root
    packet crc { match tag as
    Z9_ { 00  :	a1,
    } ,
    char[  10
    ]	f32a	,
    A rootA
`100% of %d`
,  match A as // @lengthOf(
x_y_z {[
""it's"" ,
    255 ] :
    MetaDataX //
, [7 ] :Packet , },
    // `tick` ""quote"" 'q'
    repeat char[] //x
uint8x
    `" ++ [233]%N ++ runes_of_ascii "`
    // @lengthOf(
    , }")).
Eval vm_compute in ("<<<M3653>>>" ++ check (runes_of_ascii "MetaData x {
    i64 Z9_ `a\`,//
    char[7] f32a `{ , }`,
    len a1,
    u64 repeatCount,
    string BodyLength,
    crc Pad `tab	here`,
}

packet T {
    char[42] repeatCount `line1
    line2`,
}

root packet i64_ {
    @lengthOf(u128)
    @lengthOf(As)
    @leftPad()
    uint32 f32a,
}")).
Eval vm_compute in ("<<<M3257>>>" ++ check (runes_of_ascii "// top
MetaData // c0
metadata // c1
{ // c2
} // c3
MetaData // c4
rootA // c5
{ // c6
i8 // c7
i64_ // c8
, // c9
roots // c10
options1 // c11
`a\` // c12
, // c13
lengthOf // c14
Header // c15
, // c16
Z9_ // c17
Foo // c18
, // c19
int16 // c20
BodyLength // c21
, // c22
} // c23
")).
Eval vm_compute in ("<<<M1857>>>" ++ check (runes_of_ascii "packet	packetx { { // trailing space 
x_y_z
{
string
charz ,
string x// @lengthOf(
`two words`
    ,  u8x { // `tick` ""quote"" 'q'
charz `100% of %d` // packet A { u8 x, }
,}// " ++ [27880; 37322]%N ++ runes_of_ascii "
,} , }
    // a // b
    packet metadata {  @leftPad ( '0') repeat i32 options1 ,u64 uint8x , }
")).
Eval vm_compute in ("<<<M2043>>>" ++ check (runes_of_ascii "packet	packetx { // trailing space 
x_y_z
{
string
charz ,
string x// @lengthOf(
`two words`
    ,  u8x { // `tick` ""quote"" 'q'
charz `100% of %d` // packet A { u8 x, }
,}// " ++ [27880; 37322]%N ++ runes_of_ascii "
,} , }
    // a // b
    packet metadata {  @leftPad ( '0') repeat i32 options1 ,u64 uint8x$ , }
")).
Eval vm_compute in ("<<<M1979>>>" ++ check (runes_of_ascii "packet	packetx { // trailing space 
x_y_z
{
string
charz ,
string x// @lengthOf(
`two words`
    ,  u8x { // `tick` ""quote"" 'q'
charz `100% of %d` // packet A { u8 x, }
,}// " ++ [27880; 37322]%N ++ runes_of_ascii "
,} , }
    // a // b
    packet metadata {  @leftPad = '0') repeat i32 options1 ,u64 uint8x , }
")).
Eval vm_compute in ("<<<M2026>>>" ++ check (runes_of_ascii "packet	packetx { // trailing space 
x_y_z
{
string
charz ,
string x// @lengthOf(
`two words`
    ,  u8x { // `tick` ""quote"" 'q'
charz `100% of %d` // packet A { u8 x, }
,}// " ++ [27880; 37322]%N ++ runes_of_ascii "
,} , }
    // a // b
    packet metadata {  @leftPad ( '0') repeat i32 options1 ,u64 uint8x , 
")).
Eval vm_compute in ("<<<M1855>>>" ++ check (runes_of_ascii "packet	`` { // trailing space 
x_y_z
{
string
charz ,
string x// @lengthOf(
`two words`
    ,  u8x { // `tick` ""quote"" 'q'
charz `100% of %d` // packet A { u8 x, }
,}// " ++ [27880; 37322]%N ++ runes_of_ascii "
,} , }
    // a // b
    packet metadata {  @leftPad ( '0') repeat i32 options1 ,u64 uint8x , }
")).
Eval vm_compute in ("<<<M1125>>>" ++ check (runes_of_ascii "root// a // b
packet Pad
{	roots {
char[//	t
00/// triple
]/// triple
repeatCount,	match MetaDataX as _x{""" ++ [28040; 24687]%N ++ runes_of_ascii """ : leftPad , """ ++ [28040; 24687]%N ++ runes_of_ascii """ :	i64_
, }, //	t
repeat Logon pack , char[] A `two words`,	} , } packet	crc { repeat zchar body
/// triple
// a // b
, char[
65535
]
Foo, }
")).
Eval vm_compute in ("<<<M2082>>>" ++ check (runes_of_ascii "packet// packet A { u8 x, }
repeatCount	{// packet A { u8 x, }
@leftPad ( '\x00'
char[] repeat u8x MetaDataX `crlf
line`,
    repeat
    char[] MetaDataX
    ,
u64	uint8x@calculatedFrom(""a\""b""
// c
// packet A { u8 x, }
) `tab	here`
,//
}MetaData pack
    {
    }
")).
Eval vm_compute in ("<<<M2105>>>" ++ check (runes_of_ascii "packet// packet A { u8 x, }
repeatCount	{// packet A { u8 x, }
@leftPad ( '\x00'
) repeat u8x MetaDataX `crlf
line`, ,
    repeat
    char[] MetaDataX
    ,
u64	uint8x@calculatedFrom(""a\""b""
// c
// packet A { u8 x, }
) `tab	here`
,//
}MetaData pack
    {
    }
")).
Eval vm_compute in ("<<<M2053>>>" ++ check (runes_of_ascii "repeatCount// packet A { u8 x, }
packet	{// packet A { u8 x, }
@leftPad ( '\x00'
) repeat u8x MetaDataX `crlf
line`,
    repeat
    char[] MetaDataX
    ,
u64	uint8x@calculatedFrom(""a\""b""
// c
// packet A { u8 x, }
) `tab	here`
,//
}MetaData pack
    {
    }
")).
Eval vm_compute in ("<<<M2181>>>" ++ check (runes_of_ascii "packet// packet A { u8 x, }
repeatCount	{// packet A { u8 x, }
@leftPad ( '\x00'
) repeat u8x MetaDataX `crlf
line`,
    repeat
    char[] MetaDataX
    ,
u64	uint8x@calculatedFrom(""a\""b""
// c
// packet A { u8 x, }
) `tab	here`
,//
}MetaData pack
    }
    {
")).
Eval vm_compute in ("<<<M2117>>>" ++ check (runes_of_ascii "packet// packet A { u8 x, }
repeatCount	{// packet A { u8 x, }
@leftPad ( '\x00'
) repeat u8x MetaDataX `crlf
line`,
    repeat
    10 MetaDataX
    ,
u64	uint8x@calculatedFrom(""a\""b""
// c
// packet A { u8 x, }
) `tab	here`
,//
}MetaData pack
    {
    }
")).
Eval vm_compute in ("<<<M2209>>>" ++ check (runes_of_ascii "packet// packet A { u8 x, }
" ++ [252]%N ++ runes_of_ascii "ber	{// packet A { u8 x, }
@leftPad ( '\x00'
) repeat u8x MetaDataX `crlf
line`,
    repeat
    char[] MetaDataX
    ,
u64	uint8x@calculatedFrom(""a\""b""
// c
// packet A { u8 x, }
) `tab	here`
,//
}MetaData pack
    {
    }
")).
Eval vm_compute in ("<<<M1610>>>" ++ check (runes_of_ascii "packet calculatedFrom
{ @calculatedFrom( ""a\\"" ) zchar[ 4294967296 ]
calculatedFrom@lengthOf( pack )	`100% of %d` ,char[]body@calculatedFrom( ""// no comment"" )  ,
@tag( 007) //x
int8
leftPad`it's` , repeat pack
    { repeat char[ 3] body
,},
int8")).
Eval vm_compute in ("<<<M1436>>>" ++ check (runes_of_ascii "packet calculatedFrom
{ @calculatedFrom( repeat ) zchar[ 4294967296 ]
calculatedFrom@lengthOf( pack )	`100% of %d` ,char[]body@calculatedFrom( ""// no comment"" )  ,
@tag( 007) //x
int8
leftPad`it's` , repeat pack
    { repeat char[ 3] body
,},
}")).
Eval vm_compute in ("<<<M1455>>>" ++ check (runes_of_ascii "packet calculatedFrom
{ @calculatedFrom( ""a\\"" ) zchar[ 4294967296 calculatedFrom
]@lengthOf( pack )	`100% of %d` ,char[]body@calculatedFrom( ""// no comment"" )  ,
@tag( 007) //x
int8
leftPad`it's` , repeat pack
    { repeat char[ 3] body
,},
}")).
Eval vm_compute in ("<<<M3441>>>" ++ check (runes_of_ascii "// top
options // c0a
  // c0b
{ // c1
LittleEndian
    // c2
= true // c4
;
    // c5
} // c6a
  // c6b
root // c7a
  // c7b
packet P // c9a
  // c9b
{ repeat // c11
char cs // c13
,
    // c14
u8 // c15
x // c16a
  // c16b
, } // c18a
  // c18b
")).
Eval vm_compute in ("<<<M145>>>" ++ check (runes_of_ascii "MetaData
charz{ // a // b
u
    // `tick` ""quote"" 'q'
    charz, } root packet lengthOf // " ++ [128512]%N ++ runes_of_ascii " emoji
{ @leftPad
(
)
    int16 float  , } packet
u
{ f32 MetaDataX ,
    float { // `tick` ""quote"" 'q'
repeat i16
uint8x	, }
,@tag( 42) int8
u,
}
")).
Eval vm_compute in ("<<<M1568>>>" ++ check (runes_of_ascii "packet calculatedFrom
{ @calculatedFrom( ""a\\"" ) zchar[ 4294967296 ]
calculatedFrom@lengthOf( pack )	`100% of %d` ,char[]body@calculatedFrom( ""// no comment"" )  ,
@tag( 007) //x
int8
leftPad`it's` , repeat pack
    {  char[ 3] body
,},
}")).
Eval vm_compute in ("<<<M1503>>>" ++ check (runes_of_ascii "packet calculatedFrom
{ @calculatedFrom( ""a\\"" ) zchar[ 4294967296 ]
calculatedFrom@lengthOf( pack )	`100% of %d` ,char[]body@calculatedFrom(  )  ,
@tag( 007) //x
int8
leftPad`it's` , repeat pack
    { repeat char[ 3] body
,},
}")).
Eval vm_compute in ("<<<M1053>>>" ++ check (runes_of_ascii "
MetaData
    Packet
{ a1 //	t
options1 `it's`
,  o	u8x
    `{ , }` , float pack `{ , }` ,zchar[	255 ]
    f32a , }
packet calculatedFrom { @lengthOf( a1
) @tag(
42 ) repeat	Packet ,@leftPad( ) repeat T ,
    //
    }
")).
Eval vm_compute in ("<<<M311>>>" ++ check (runes_of_ascii "MetaData  x { } root//x
packet Logon { string _x ,
    uint64 zchar @lengthOf(
// a // b
//x
lengthOf	), repeat	charz,
    @leftPad ( '\x00'
    ) @calculatedFrom( """ ++ [28040; 24687]%N ++ runes_of_ascii """ ) repeat // trailing space 
int32 body, }
")).
Eval vm_compute in ("<<<M189>>>" ++ check (runes_of_ascii "  packet falsey{ u8x Logon // trailing space 
,zchar[007]
    stringy
    @lengthOf( u )`u8 x,` ,
    @tag(
1 ) int16 T @calculatedFrom( ""{,}"" )
`tab	here` , Pad
    msg_type
// " ++ [128512]%N ++ runes_of_ascii " emoji
// " ++ [128512]%N ++ runes_of_ascii " emoji
, }
")).
Eval vm_compute in ("<<<M2188>>>" ++ check (runes_of_ascii "packet// packet A { u8 x, }
repeatCount	{// packet A { u8 x, }
@leftPad ( '\x00'
) repeat u8x MetaDataX `crlf
line`,
    repeat
    char[] MetaDataX
    ,
u64	uint8x@calculatedFrom(""a\""b""
// c")).
Eval vm_compute in ("<<<M1261>>>" ++ check (runes_of_ascii "  MetaData MetaDataX
{
char[]
repeatCount ,
repeatCount uint8x ,}options { calculatedFrom
    =7 ;
msg_type
= true float =
zchar[ 0123456789 ]
    u128 = '0' // a // b
MetaDataX= u8	}
")).
Eval vm_compute in ("<<<M3489>>>" ++ check (runes_of_ascii "packet

    A
{
	u8
    a
,} packet	B  { u16 b , 
} 
root

    packet
P{ u8	K1	, u8 K2	,match
	K1 as
    M1 { 1:A
    ,  }

    , match  K2

as  M2
{

1
    :
B
	,}

,  } ")).
Eval vm_compute in ("<<<M1402>>>" ++ check (runes_of_ascii "MetaData u
    { i8 tag `two words`  , }root packet  Logon { @lengthOf( A ) @tag(007) A matchKey, }options{
A = false
    ;string_
    /// triple
    = ' '
; a1 =
""a	b"" }
")).
Eval vm_compute in ("<<<M4314>>>" ++ check (runes_of_ascii "packet A {
    match k as n {
        [
            ""a"", ""bb"", 007, ""d"", ""e"",
            66, ""g"", ""h"", 9, ""j"",
            ""k""
        ] : B,
        2 : C,
    },
}")).
Eval vm_compute in ("<<<M4209>>>" ++ check (runes_of_ascii "

  MetaData

rootA
{ 
uint8x

    MetaDataX
    ,
	char[] roots
    ,roots
	i8i8,uint16 
// packet A { u8 x, }
	// 50% %s
      o
    ,  int16 lengthOf
    ,}")).
Eval vm_compute in ("<<<M1668>>>" ++ check (runes_of_ascii "options { } packet Packet{char[] i64_ i64_ ,
@tag(
    255) match
crc as i8i8{""{,}"" : trueish """" : Pad , ""a\\"" :
Foo ,
    1 :packetx
, """ ++ [128512]%N ++ runes_of_ascii """ : trueish , } , }")).
Eval vm_compute in ("<<<M1705>>>" ++ check (runes_of_ascii "options { } packet Packet{char[] i64_ ,
@tag(
    255) match
crc uint32 i8i8{""{,}"" : trueish """" : Pad , ""a\\"" :
Foo ,
    1 :packetx
, """ ++ [128512]%N ++ runes_of_ascii """ : trueish , } , }")).
Eval vm_compute in ("<<<M2402>>>" ++ check (runes_of_ascii "
packet MetaDataX
{
    @leftPad
( // a // b
'0'
) i8 u @lengthOf(
MetaDataX
    ) `say ""hi""` ,	} MetaData BodyLength {
    x_y_z
asx `" ++ [233]%N ++ runes_of_ascii "`
, uint64 u128 , }
")).
Eval vm_compute in ("<<<M1831>>>" ++ check (runes_of_ascii "options { } packet Packet{char[] i64_ ,
@tag(
    255) match
crc as i8i8{""{,}"" ' : trueish """" : Pad , ""a\\"" :
Foo ,
    1 :packetx
, """ ++ [128512]%N ++ runes_of_ascii """ : trueish , } , }")).
Eval vm_compute in ("<<<M1836>>>" ++ check ([65279]%N ++ runes_of_ascii "options { } packet Packet{char[] i64_ ,
@tag(
    255) match
crc as i8i8{""{,}"" : trueish """" : Pad , ""a\\"" :
Foo ,
    1 :packetx
, """ ++ [128512]%N ++ runes_of_ascii """ : trueish , } , }")).
Eval vm_compute in ("<<<M1745>>>" ++ check (runes_of_ascii "options { } packet Packet{char[] i64_ ,
@tag(
    255) match
crc as i8i8{""{,}"" : trueish """" : i32 , ""a\\"" :
Foo ,
    1 :packetx
, """ ++ [128512]%N ++ runes_of_ascii """ : trueish , } , }")).
Eval vm_compute in ("<<<M1672>>>" ++ check (runes_of_ascii "options { } packet Packet{char[] i64_ 
@tag(
    255) match
crc as i8i8{""{,}"" : trueish """" : Pad , ""a\\"" :
Foo ,
    1 :packetx
, """ ++ [128512]%N ++ runes_of_ascii """ : trueish , } , }")).
Eval vm_compute in ("<<<M1825>>>" ++ check (runes_of_ascii "options { } packet Packet{char[] i64_ ,
@tag(
    255) match
crc as i8i8{""{,}"" : trueish """" : Pad , ""a\\"" :
Foo ,
    1 :packetx
, """ ++ [128512]%N ++ runes_of_ascii """ : trueish , } ,")).
Eval vm_compute in ("<<<M1720>>>" ++ check (runes_of_ascii "options { } packet Packet{char[] i64_ ,
@tag(
    255) match
crc as i8i8{{ : trueish """" : Pad , ""a\\"" :
Foo ,
    1 :packetx
, """ ++ [128512]%N ++ runes_of_ascii """ : trueish , } , }")).
Eval vm_compute in ("<<<M1727>>>" ++ check (runes_of_ascii "options { } packet Packet{char[] i64_ ,
@tag(
    255) match
crc as i8i8{""{,}"" :  """" : Pad , ""a\\"" :
Foo ,
    1 :packetx
, """ ++ [128512]%N ++ runes_of_ascii """ : trueish , } , }")).
Eval vm_compute in ("<<<M4327>>>" ++ check (runes_of_ascii "packet A {
    Inner {
        u8 x `a
        
        b`,
        Deep {
            u8 y `a
            
            b`,
        },
    },
}")).
Eval vm_compute in ("<<<M3962>>>" ++ check (runes_of_ascii "options {
    string_ = '0';
    Foo = true
    lengthOf = """";
    string_ = u16
}

options {
    body = ' '
}

options {
    chars = 42
}")).
Eval vm_compute in ("<<<M3634>>>" ++ check (runes_of_ascii "MetaData repeatCount {
    i16 i8i8 `it's`,
}

packet _x {
    stringy MetaDataX,
}

options {
    T = char[0];
    Header = ""it's"";
}")).
Eval vm_compute in ("<<<M4199>>>" ++ check (runes_of_ascii "packet A {
    u16 len @lengthOf(body) `tab
        	x`,
    u32 crc @calculatedFrom(""CRC32"") `tab
        	x`,
    string body,
}")).
Eval vm_compute in ("<<<M81>>>" ++ check (runes_of_ascii "root packet
    chars	{ f32 calculatedFrom @calculatedFrom( ""a\""b"" )
    //
    `line1
line2`,repeatCount //
roots  ,} //	t")).
Eval vm_compute in ("<<<M3290>>>" ++ check (runes_of_ascii "MetaData metadata { } MetaData rootA { i8 i64_ , roots options1 `a\` , lengthOf // c
Header , Z9_ Foo , int16 BodyLength , }")).
Eval vm_compute in ("<<<M1393>>>" ++ check (runes_of_ascii "packet BodyLength{ // `tick` ""quote"" 'q'
@leftPad
    ( ) match stringy as string_	{
    65535 //	t
:
Foo ,
}  , }
// c
")).
Eval vm_compute in ("<<<M212>>>" ++ check (runes_of_ascii "root packet T // " ++ [128512]%N ++ runes_of_ascii " emoji
{ } options { x_y_z // a // b
= ""`tick`"" ; matchKey =
255
f32a = """ ++ [128512]%N ++ runes_of_ascii """ ; Packet
= '0' ; }
")).
Eval vm_compute in ("<<<M3230>>>" ++ check (runes_of_ascii "MetaData zchar // c1
{ // c2a
  // c2b
zchar[ // c3a
  // c3b
3 ]
    // c5
Pad // c6
, // c7a
  // c7b
} // c8
")).
Eval vm_compute in ("<<<M3329>>>" ++ check (runes_of_ascii "MetaData float { uint8 BodyLength ,
// c
} MetaData charz { float32 trueish `a\` , i16 metadata `say ""hi""` , }")).
Eval vm_compute in ("<<<M594>>>" ++ check (runes_of_ascii "  root packet _x{	@calculatedFrom( ""a\""b"" // packet A { u8 x, }
) u128 @lengthOf(
    Z9_ )  , }options { }
")).
Eval vm_compute in ("<<<M3015>>>" ++ check (runes_of_ascii "packet A {
  match k as n {
    [1, ""bb"", 007, ""d"", 5, ""f"", 7, ""h"", 9, ""j"", 11, ""l""] : B,
    2 : C
  },
}")).
Eval vm_compute in ("<<<M2974>>>" ++ check (runes_of_ascii "packet A {
  match k as n {
    [""a"", ""bb"", ""c c"", ""d"", ""e"", ""f"", ""g"", ""h"", ""i""] : B,
    2 : C
  },
}")).
Eval vm_compute in ("<<<M342>>>" ++ check (runes_of_ascii "MetaData float {
u8x matchKey,
    }
    MetaData string_ {
i64_
Pad , i64_ i64_
, char[] u8x ,}
")).
Eval vm_compute in ("<<<M4317>>>" ++ check (runes_of_ascii "
MetaData
    _x { 
// c

f64
	charz
	`tab	here`
, 
}
    options{ BodyLength

=
	""" ++ [233]%N ++ runes_of_ascii "t" ++ [233]%N ++ runes_of_ascii """ 
;
    }")).
Eval vm_compute in ("<<<M751>>>" ++ check (runes_of_ascii "root packet trueish {
@tag(255
    )
    // 50% %s
    repeat f32a
    leftPad  `doc` ,
    }
")).
Eval vm_compute in ("<<<M2999>>>" ++ check (runes_of_ascii "packet A {
  match k as n {
    [1, 22, 007, 4, 5, 66, 7, 8, 9, 10, 11] : B
    2 : C
  },
}")).
Eval vm_compute in ("<<<M2980>>>" ++ check (runes_of_ascii "packet A {
  match k as n {
    [1, 22, ""c c"", 4, 5, ""f"", 7, 8, ""i""] : B,
    2 : C
  },
}")).
Eval vm_compute in ("<<<M451>>>" ++ check (runes_of_ascii "//	t
options{ asx =
    // trailing space 
    ""x y""} options {}packet//x
repeatCount{}
")).
Eval vm_compute in ("<<<M4004>>>" ++ check (runes_of_ascii "MetaData roots {
}

options {
    options1 = '\x00'
    crc = string;
    Logon = '0'
}")).
Eval vm_compute in ("<<<M631>>>" ++ check (runes_of_ascii "packet  uint8x { //	t
@calculatedFrom( ""a	b"" ) options1 { repeatCount `" ++ [233]%N ++ runes_of_ascii "` , }	,
}
")).
Eval vm_compute in ("<<<M2922>>>" ++ check (runes_of_ascii "packet A {
  match k as n {
    [""a"", ""bb"", ""c c"", ""d"", ""e""] : B,
    2 : C
  },
}")).
Eval vm_compute in ("<<<M2083>>>" ++ check (runes_of_ascii "packet// packet A { u8 x, }
repeatCount	{// packet A { u8 x, }
@leftPad ( '\x00'")).
Eval vm_compute in ("<<<M2942>>>" ++ check (runes_of_ascii "packet A {
  match k as n {
    [1, 22, ""c c"", 4, 5, ""f""] : B
    2 : C
  },
}")).
Eval vm_compute in ("<<<M3010>>>" ++ check (runes_of_ascii "packet A { Inner { match k as n { [1,22,007,4,5,66,7,8,9,10,11] : B, }, }, }")).
Eval vm_compute in ("<<<M4158>>>" ++ check (runes_of_ascii "root packet P {
    u16 a,
    u32 Sum @calculatedFrom(""CR\
        C32""),
}")).
Eval vm_compute in ("<<<M2862>>>" ++ check (runes_of_ascii "i16 i8 @rightPad `u8 x,` u16 0 [ MetaData repeat ] ) string @rightPad i8")).
Eval vm_compute in ("<<<M41>>>" ++ check (runes_of_ascii "options { rootA=// trailing space 
""// no comment"" string_ =""" ++ [28040; 24687]%N ++ runes_of_ascii """ ;	}
")).
Eval vm_compute in ("<<<M3408>>>" ++ check (runes_of_ascii "packet o { @tag( // c
4294967296 ) options1 @lengthOf( u8x ) `" ++ [233]%N ++ runes_of_ascii "` , }")).
Eval vm_compute in ("<<<M3474>>>" ++ check (runes_of_ascii "root packet P {
    u16 a,
    u32 Sum @calculatedFrom(""CRC32""),
}
")).
Eval vm_compute in ("<<<M3619>>>" ++ check (runes_of_ascii "packet
metadata
{ repeat
    f64 repeatCount
	`tab	here` ,

}

")).
Eval vm_compute in ("<<<M2314>>>" ++ check (runes_of_ascii "
MetaData Pad{
u32 rootA `line1
line2` `line1
line2` ,
    }
")).
Eval vm_compute in ("<<<M1147>>>" ++ check (runes_of_ascii "// " ++ [128512]%N ++ runes_of_ascii " emoji
options {// @lengthOf(
int
    =
    3 ;
    }

")).
Eval vm_compute in ("<<<M3037>>>" ++ check (runes_of_ascii "packet A {
    B b `
`,
    B `
`,
    repeat B bs `
`,
}")).
Eval vm_compute in ("<<<M885>>>" ++ check (runes_of_ascii "root
    packet
    len { }
root packet i8i8 //
{ }
")).
Eval vm_compute in ("<<<M2321>>>" ++ check (runes_of_ascii "
MetaData Pad{
u32 rootA `line1
line2` false
    }
")).
Eval vm_compute in ("<<<M2346>>>" ++ check (runes_of_ascii "
MetaData na" ++ [239]%N ++ runes_of_ascii "ve{
u32 rootA `line1
line2` ,
    }
")).
Eval vm_compute in ("<<<M4531>>>" ++ check (runes_of_ascii "MetaData
zchar 
    // c
  {  zchar[ 3 
]	Pad, }")).
Eval vm_compute in ("<<<M978>>>" ++ check (runes_of_ascii "
packet zchar{ zchar[
65535
] body `
` , }

")).
Eval vm_compute in ("<<<M2292>>>" ++ check (runes_of_ascii "
int8 Pad{
u32 rootA `line1
line2` ,
    }
")).
Eval vm_compute in ("<<<M2248>>>" ++ check (runes_of_ascii "MetaData _x {string x `// not a comment` ,")).
Eval vm_compute in ("<<<M2631>>>" ++ check (runes_of_ascii "packet A { match k as n { [[1]] : B }, }")).
Eval vm_compute in ("<<<M2626>>>" ++ check (runes_of_ascii "packet A { match k as n { 1 : B,, }, }")).
Eval vm_compute in ("<<<M4341>>>" ++ check (runes_of_ascii "MetaData asx {
    zchar[42] chars,
}")).
Eval vm_compute in ("<<<M2661>>>" ++ check (runes_of_ascii "root packet A { } root packet B { }")).
Eval vm_compute in ("<<<M4553>>>" ++ check (runes_of_ascii "packet u128 {
    zchar[10] Z9_,
}")).
Eval vm_compute in ("<<<M2845>>>" ++ check (runes_of_ascii "sfMewQO/%J#-G,#$S5<5Z>/@\{4lA?)r")).
Eval vm_compute in ("<<<M3146>>>" ++ check (runes_of_ascii "packet A {
 u8 x `d" ++ [8233]%N ++ runes_of_ascii "`, // c" ++ [8233]%N ++ runes_of_ascii "
}")).
Eval vm_compute in ("<<<M2792>>>" ++ check (runes_of_ascii "," ++ [65533]%N ++ runes_of_ascii "Y" ++ [31; 14]%N ++ runes_of_ascii "F" ++ [65533; 28]%N ++ runes_of_ascii "O" ++ [65533; 65533; 1317; 65533; 65533; 65533]%N ++ runes_of_ascii "Dl5" ++ [606; 65533; 3; 0; 65533; 65533]%N ++ runes_of_ascii "R" ++ [65533]%N ++ runes_of_ascii "Yg")).
Eval vm_compute in ("<<<M1267>>>" ++ check (runes_of_ascii "options
    {matchKey = 3}")).
Eval vm_compute in ("<<<M2788>>>" ++ check (runes_of_ascii "&" ++ [1984]%N ++ runes_of_ascii "	r7" ++ [65533; 65533; 65533]%N ++ runes_of_ascii "c" ++ [28]%N ++ runes_of_ascii "%" ++ [65533; 65533; 65533]%N ++ runes_of_ascii "r" ++ [65533; 23; 65533]%N ++ runes_of_ascii "(" ++ [65533]%N ++ runes_of_ascii "N\" ++ [12; 65533; 65533]%N)).
Eval vm_compute in ("<<<M2327>>>" ++ check (runes_of_ascii "
MetaData Pad{
u32 roo")).
Eval vm_compute in ("<<<M3192>>>" ++ check (runes_of_ascii "packet A {
}// a// b")).
Eval vm_compute in ("<<<M2559>>>" ++ check (runes_of_ascii ": , ; = ( ) [ ] { }")).
Eval vm_compute in ("<<<M3119>>>" ++ check (runes_of_ascii "packet A {
}
// c" ++ [133]%N)).
Eval vm_compute in ("<<<M4033>>>" ++ check (runes_of_ascii "

  options

{ }
")).
Eval vm_compute in ("<<<M3162>>>" ++ check (runes_of_ascii "packet A {
}// c" ++ [12]%N)).
Eval vm_compute in ("<<<M2821>>>" ++ check (runes_of_ascii "gLl39g\\""c5_2#z")).
Eval vm_compute in ("<<<M2805>>>" ++ check (runes_of_ascii ":RkLR]4<tn|0`")).
Eval vm_compute in ("<<<M763>>>" ++ check (runes_of_ascii " // a // b")).
Eval vm_compute in ("<<<M2524>>>" ++ check (runes_of_ascii "// ab
c")).
Eval vm_compute in ("<<<M523>>>" ++ check (runes_of_ascii "
 // c")).
Eval vm_compute in ("<<<M2480>>>" ++ check (runes_of_ascii "roots")).
Eval vm_compute in ("<<<M1114>>>" ++ check (runes_of_ascii " //x")).
Eval vm_compute in ("<<<M2457>>>" ++ check (runes_of_ascii "u8x")).
Eval vm_compute in ("<<<M767>>>" ++ check (runes_of_ascii "  ")).
Eval vm_compute in ("<<<M2554>>>" ++ check (runes_of_ascii "_")).
