From FP Require Import Lexer Parser ShowPT Digest Formatter.
From Coq Require Import String List NArith.
Import ListNotations.
Open Scope string_scope.
Set Printing Width 100000000.
Set Printing Depth 100000000.
Definition show_fres (r : fres) : string :=
  match r with
  | FOk s => "OK:" ++ sh_escaped s ""
  | FErr s => "ERR:" ++ sh_escaped s ""
  | FPanic p => "PANIC:" ++ p
  end.
Definition check (rs : list rune) : string := digest (show_fres (format_res rs)).
Definition full (rs : list rune) : string := show_fres (format_res rs).
Eval vm_compute in ("<<<M156>>>" ++ check (runes_of_ascii "packet  zchar
    { char[]  string_ ,
    // @lengthOf(
    msg_type , match
    roots // " ++ [27880; 37322]%N ++ runes_of_ascii "
as metadata { 3: Logon
, [""a\\"",""1"" , 3 ,
00
    , ""a\\"" ,7, 65535 , 3 ]
    :x_y_z
    , 0123456789 : o , ""\" ++ [233]%N ++ runes_of_ascii """ : x ""CRC32"" :
Foo,
    }, char Header`u8 x,` ,
    } //	t
options	{
    } packet
    //	t
    As{zchar[
    // @lengthOf(
    10	] roots ,
    char[7 ]
calculatedFrom //
@lengthOf( body ), char stringy	@lengthOf(metadata /// triple
) ,
Pad // trailing space 
u128 , @calculatedFrom( ""it's"") Z9_ ,  match
falsey	as /// triple
MetaDataX
    { 4294967296 : float,//x
3 :
    Pad 1
:T,} /// triple
,
    @tag(
3 ) char[]
A @calculatedFrom( ""it's""
) ,  o tag ,
@lengthOf( x // packet A { u8 x, }
) zchar[ 4294967296
    ]
    rootA // @lengthOf(
`
` , } root packet Logon {	repeat _x {leftPad  `crlf
line` ,
}
    , repeat i8 Packet  , MetaDataX`// not a comment`// " ++ [27880; 37322]%N ++ runes_of_ascii "
, asx`two words` ,
repeat lengthOf tag , @calculatedFrom( // `tick` ""quote"" 'q'
""CRC32"" ) // @lengthOf(
match repeatCount// packet A { u8 x, }
as
BodyLength { """ ++ [128512]%N ++ runes_of_ascii """ : len
[
    255
, ""a\\"", 0123456789 , ""CRC32"", // " ++ [128512]%N ++ runes_of_ascii " emoji
7, 42
    // a // b
    ]
: repeatCount
,
},
i64_ msg_type `crlf
line` , }
packet repeatCount{
    @calculatedFrom(
""a\""b"" )
    match
a1 as
    matchKey// packet A { u8 x, }
{00 : options1,
    4294967296
    : x_y_z , [3 ,
""a	b"" ,0123456789
] : i64_ ,
0 : leftPad ,""`tick`"" :int [""" ++ [28040; 24687]%N ++ runes_of_ascii """ // @lengthOf(
]
// trailing space 
/// triple
: Z9_, }
    , }
")).
Eval vm_compute in ("<<<M204>>>" ++ check (runes_of_ascii "packet i64_ {
    @leftPad( ) @tag(	4294967296
) repeat	string Logon `{ , }`
    ,@lengthOf(
    float )u16
    //x
    matchKey @lengthOf(
body
) , repeat
    /// triple
    char[  4294967296 ]
tag , @lengthOf(asx )
repeat
    trueish , repeat
    lengthOf
len
,// packet A { u8 x, }
match asx
    as
    crc {
    [ // a // b
""" ++ [28040; 24687]%N ++ runes_of_ascii """
// trailing space 
// c
, ""abc"" ] :
roots
, },	match
    uint8x as
repeatCount
    { [
0123456789
    ]:
    /// triple
    Foo ,""a\""b""
    : Packet
    42  :
    stringy , [ // `tick` ""quote"" 'q'
0123456789 , 007
] : f32a , //x
42: x }
    // @lengthOf(
    ,
@lengthOf( msg_type )
uint8x , repeat metadata// " ++ [27880; 37322]%N ++ runes_of_ascii "
,} MetaData float { char[ 42
] Logon
`a\` , stringy packetx , int32 pack,rootA
x
    , Logon Foo , u16 A
//	t
//x
, } //x
packet
    //	t
    Header{  @calculatedFrom(
    ""1"" ) u
,@tag( 65535
// a // b
// trailing space 
)
pack { string trueish `" ++ [28040; 24687; 31867; 22411]%N ++ runes_of_ascii "`
    , match
stringy
    as tag
{  ""a\\"" : float
    // `tick` ""quote"" 'q'
    ,
    ""abc"" :Z9_ ,007 :	metadata, // c
[ 10 ] :matchKey // " ++ [27880; 37322]%N ++ runes_of_ascii "
, ""a	b"" : _x 7// " ++ [128512]%N ++ runes_of_ascii " emoji
:Pad } ,  repeat body
, f32 int , } ,  MetaDataX u128 `doc` , }
options {}
")).
Eval vm_compute in ("<<<M1718>>>" ++ check (runes_of_ascii "options {
    StringPrefixLenType = u32;
    ArrayPrefixLenType = u8;
    FixedStringPadFromLeft = false;
}

packet Logon {
    i8 venue,
    int16 f1,
    zchar[8] Acct,
    repeat InNote16 {
        InQty73 {
            float32 tag7,
        },
        f32 Acct,
        zchar[5] sym,
    },
    uint16 Side2,
    i32 lastPx,
}

packet Fill {
    repeat InOrderid15 {
        zchar[8] sym,
        repeat char[2] OrderId,
        repeat Logon,
        InQty82 {
            char[] Tail,
            repeat Logon,
            float64 price,
            f64 Side2,
        },
        char[12] venue,
        char[4] Px,
    },
    @rightPad('0')
    char[2] venue,
    InPrice99 {
        InAcct72 {
            u8 pad0,
        },
        u32 OrderId,
        Logon,
    },
}

root packet Reject {
    zchar[9] msgKind,
    u32 venue,
    u16 seqNo @lengthOf(Body),
    match venue as Body {
        57 : Fill,
        8 : Logon,
    },
    u16 Tail @calculatedFrom(""CR\
        C32""),
}")).
Eval vm_compute in ("<<<M1430>>>" ++ check (runes_of_ascii "options {
    LittleEndian = true;
    StringPrefixLenType = u32;
    FixedStringPadChar = '0';
}
packet Logout {
    repeat InMsgkind49 {
        u8 pad0,
    },
    repeat char[5] seqNo,
    repeat u8 price,
}
packet Party {
    zchar[7] Qty,
}
packet Logon {
    repeat InRef10 {
        string price,
        char[] sym,
        repeat Logout,
    },
    repeat char[3] count,
    repeat Party,
    char[] tag7,
    @rightPad('0') char[2] clOrdID,
}
packet Order {
    InTail13 {
        Party,
    },
    repeat char[4] count,
}
root packet Cancel {
    Logout,
    @leftPad('0') char[9] msgKind,
    string lastPx,
    string tag7,
    zchar[1] OrderId,
    repeat Party,
    u16 sym,
    u16 Acct @lengthOf(Body),
    match sym as Body {
        [24, 44] : Logout,
        160 : Order,
        91 : Logon,
        43 : Party,
    },
    u16 Tail @calculatedFrom(""CR\
C32""),
}
")).
Eval vm_compute in ("<<<M130>>>" ++ check (runes_of_ascii "
packet
    o {// trailing space 
body {
string options1@lengthOf(int ) ,
    // " ++ [27880; 37322]%N ++ runes_of_ascii "
    repeat u
{ match  tag
    as
BodyLength { [	""" ++ [128512]%N ++ runes_of_ascii """
, /// triple
""`tick`"" ,
    // @lengthOf(
    ""packet"" ,
""a\\"" ,65535
, 0123456789 // trailing space 
]: u
// `tick` ""quote"" 'q'
// c
""a\\"" : rootA ,
    """ ++ [128512]%N ++ runes_of_ascii """: Foo 3
:  uint8x ,	} , match leftPad as // `tick` ""quote"" 'q'
a1
    {1 : //	t
Header
,
}
, },
    }
,
    chars , repeatCount body
//	t
// " ++ [128512]%N ++ runes_of_ascii " emoji
`a\` ,}	packet metadata {
@rightPad ('0' // " ++ [27880; 37322]%N ++ runes_of_ascii "
)
@leftPad
( //x
'0' ) @calculatedFrom( ""packet"") match o as	Logon{ """"
: A, [
    007// c
, 7  , 1
, """"// trailing space 
,  42, ""a	b""]  :	A	""it's"" :
    _x,  },@lengthOf(//x
Header
)char[  3 ] i8i8@lengthOf( int )	,char[]Packet @calculatedFrom( ""a	b"")
, leftPad ,
    }packet charz { }")).
Eval vm_compute in ("<<<M157>>>" ++ check (runes_of_ascii "packet Packet { zchar[ /// triple
00] u
@lengthOf(tag
    ),	repeat // " ++ [128512]%N ++ runes_of_ascii " emoji
string u8x `u8 x,`
    , packetx { repeat uint8 leftPad `doc` ,
}	,// " ++ [27880; 37322]%N ++ runes_of_ascii "
@tag(	0123456789
)char[] chars@lengthOf(rootA
// trailing space 
// c
) `{ , }` , uint8 Packet ,
repeat a1 `two words`
//
//
,@calculatedFrom(
    //	t
    ""it's"") string_ {u16 A
// packet A { u8 x, }
// a // b
`crlf
line` , repeat
string // " ++ [27880; 37322]%N ++ runes_of_ascii "
uint8x
    , string u128 ,
    } , }	packet MetaDataX{
    //x
    @tag( 0123456789 ) char[ // packet A { u8 x, }
3
    ] Packet , } MetaData
    repeatCount {  } root packet  u8x
    // `tick` ""quote"" 'q'
    { x_y_z// " ++ [27880; 37322]%N ++ runes_of_ascii "
@lengthOf(
    // a // b
    o ) `two words` , // " ++ [27880; 37322]%N ++ runes_of_ascii "
repeat zchar[ 0123456789
] len `" ++ [233]%N ++ runes_of_ascii "` , }
//
")).
Eval vm_compute in ("<<<M349>>>" ++ check (runes_of_ascii "root
packet packetx{ match x
as repeatCount // " ++ [128512]%N ++ runes_of_ascii " emoji
{ 65535 //x
: i8i8 10 :
x_y_z 42// @lengthOf(
: packetx 0123456789
:metadata[ ""\" ++ [233]%N ++ runes_of_ascii """]
    :
    x_y_z
,
""a\\""
:i8i8
, } , stringy { // c
stringy
    i64_ , repeat Header As
    `two words` ,
    } , repeat char[ 007// `tick` ""quote"" 'q'
] u8x
    `line1
line2` , @lengthOf( charz )
    // packet A { u8 x, }
    @leftPad (
'0' ) int16 BodyLength ,  repeat
float32 repeatCount	, match trueish as MetaDataX
    { ""a	b""
    // a // b
    :
    x	,	}
,char[ 0 ] matchKey @lengthOf( float ) , @lengthOf( i64_)@lengthOf( repeatCount
) // " ++ [27880; 37322]%N ++ runes_of_ascii "
@lengthOf(
float )f32 Z9_ , }")).
Eval vm_compute in ("<<<M19>>>" ++ check (runes_of_ascii "//
packet
/// triple
// a // b
chars {int16 int ,	match calculatedFrom as
    zchar { 4294967296:
i8i8 , [
""// no comment"" ] :stringy, ""a\""b"" :	u128 007
// @lengthOf(
//x
: msg_type , 65535
    : a1 ,""""	: u128} ,
Packet @lengthOf( f32a )
`it's` , int16 stringy`u8 x,` , roots @lengthOf( trueish
) , match charz as A
    {	10
    :A ,
} ,  string
    Header@calculatedFrom( ""`tick`"" )`doc` , }MetaData	roots { asx metadata,	int64 MetaDataX , char[  42 ] o `// not a comment` ,
    f32 packetx ,rootA As `it's` , msg_type tag
, }

")).
Eval vm_compute in ("<<<M1884>>>" ++ check (runes_of_ascii "  root packet  o
	{ 
}	packet
    T{zchar[ 4294967296 ]  asx
`say ""hi""`

, } 
MetaData 
f32a 
{ f64 MetaDataX `say ""hi""`
	    // packet A { u8 x, }
      ,  x_y_z

rootA `doc` , //	t
	  u32 repeatCount 
    /// triple
  ,
	string	T 
,u8x

u`doc` ,	} options
{ x_y_z

= 0 }// packet A { u8 x, }
  root packet // c
  	MetaDataX
	{@calculatedFrom( ""abc"")
    @calculatedFrom(
	""" ++ [128512]%N ++ runes_of_ascii """  ) @tag(	3)

    charz 
@lengthOf( Packet
)
    `line1
line2`

,} /// triple
")).
Eval vm_compute in ("<<<M1360>>>" ++ check (runes_of_ascii "// top
options // c0a
  // c0b
{
    // c1
LittleEndian =
    // c3
true // c4
; }
    // c6
packet
    // c7
B // c8
{ // c9a
  // c9b
u8 // c10
a // c11a
  // c11b
, // c12
string s // c14
, // c15a
  // c15b
} // c16a
  // c16b
root
    // c17
packet // c18a
  // c18b
P { u16 // c21
L // c22a
  // c22b
@lengthOf( B ) // c25a
  // c25b
,
    // c26
B // c27a
  // c27b
, // c28
u8 // c29
t , // c31
} ")).
Eval vm_compute in ("<<<M116>>>" ++ check (runes_of_ascii "options//	t
{
BodyLength
    = ""{,}"" tag	=
    ""// no comment"" ; } options {
    charz
= '\x00' ; // a // b
repeatCount
= 255// c
; _x
=
    """ ++ [128512]%N ++ runes_of_ascii """
    ; Foo= '0'	a1 ='0'
//x
//
}root packet falsey { i64 packetx@lengthOf( Header//	t
)`" ++ [28040; 24687; 31867; 22411]%N ++ runes_of_ascii "` ,
len @lengthOf( roots )
`a\` , zchar	@lengthOf( MetaDataX
    //x
    )
    `line1
line2`
    , } // packet A { u8 x, }")).
Eval vm_compute in ("<<<M2018>>>" ++ check (runes_of_ascii "// a // b
packet int {
    //	t
    pack @lengthOf(leftPad),
    u128 MetaDataX,
    char[] charz @calculatedFrom(""\" ++ [233]%N ++ runes_of_ascii """),
    calculatedFrom {
        float BodyLength,
    },
    @calculatedFrom(""" ++ [233]%N ++ runes_of_ascii "t" ++ [233]%N ++ runes_of_ascii """)
    @lengthOf(MetaDataX)
    match Logon as i64_ {
        [0, 255, 10, 7, 0123456789] : asx,
        // " ++ [128512]%N ++ runes_of_ascii " emoji
    },
}")).
Eval vm_compute in ("<<<M1397>>>" ++ check (runes_of_ascii "packet A {
    u8 a,
}
packet B {
    u16 b,
}
packet C {
    u32 c,
}
root packet M {
    u16 Kc, u16 Kb, u16 Ka,
    match Kc as X {
        9 : A,
        10 : B,
    },
    match Kb as Y {
        2 : C,
        1 : A,
    },
    match Ka as Z {
        1 : B,
    },
    A, B, C,
}
")).
Eval vm_compute in ("<<<M2035>>>" ++ check (runes_of_ascii "MetaData asx {
    // packet A { u8 x, }
    char Z9_,
}

options {
    Pad = '0'/// triple
}

options {
    trueish = ""it's""
    matchKey = false;
    T = float32;
    /// triple
    len = ' ';
    string_ = i16;
}

root packet f32a {
    char[] u8x,
}")).
Eval vm_compute in ("<<<M181>>>" ++ check (runes_of_ascii "root
packet BodyLength {
//x
//	t
@rightPad( ' ') f32
_x @lengthOf( Header )
`" ++ [28040; 24687; 31867; 22411]%N ++ runes_of_ascii "`
, @lengthOf( crc )
    // a // b
    @tag(
    007
) char[]// c
a1
    ,  } packet metadata { Foo@calculatedFrom( ""\n""), char _x
// " ++ [27880; 37322]%N ++ runes_of_ascii "
//	t
, }
")).
Eval vm_compute in ("<<<M552>>>" ++ check (runes_of_ascii "options
{
matchKey = 42/// triple
x='0' ;
// packet A { u8 x, }
//
charz
=
// packet A { u8 x, }
// trailing space 
true  ; } MetaData BodyLength
{
uint8
pack,zchar[ 1]float ,  float32 x_y_z `` ,u32
_x,i16 body body  , }
")).
Eval vm_compute in ("<<<M497>>>" ++ check (runes_of_ascii "options
{
matchKey = 42/// triple
x='0' ;
// packet A { u8 x, }
//
charz
=
// packet A { u8 x, }
// trailing space 
true  ; } MetaData BodyLength
{
uint8
pack,zchar[ 1] ]float ,  float32 x_y_z `` ,u32
_x,i16 body  , }
")).
Eval vm_compute in ("<<<M393>>>" ++ check (runes_of_ascii "options
matchKey
{ = 42/// triple
x='0' ;
// packet A { u8 x, }
//
charz
=
// packet A { u8 x, }
// trailing space 
true  ; } MetaData BodyLength
{
uint8
pack,zchar[ 1]float ,  float32 x_y_z `` ,u32
_x,i16 body  , }
")).
Eval vm_compute in ("<<<M541>>>" ++ check (runes_of_ascii "options
{
matchKey = 42/// triple
x='0' ;
// packet A { u8 x, }
//
charz
=
// packet A { u8 x, }
// trailing space 
true  ; } MetaData BodyLength
{
uint8
pack,zchar[ 1]float ,  float32 x_y_z `` ,u32
_x i16 body  , }
")).
Eval vm_compute in ("<<<M585>>>" ++ check (runes_of_ascii "options
{
na" ++ [239]%N ++ runes_of_ascii "ve = 42/// triple
x='0' ;
// packet A { u8 x, }
//
charz
=
// packet A { u8 x, }
// trailing space 
true  ; } MetaData BodyLength
{
uint8
pack,zchar[ 1]float ,  float32 x_y_z `` ,u32
_x,i16 body  , }
")).
Eval vm_compute in ("<<<M1415>>>" ++ check (runes_of_ascii "packet Logon {
    string user,
}
root packet Frame {
    u8 K,
    match K as Body {
        1 : Logon,
        2 : Logout,
    },
    Tail,
}
packet Logout {
    u16 reason,
}
packet Tail {
    u32 crc,
}
")).
Eval vm_compute in ("<<<M699>>>" ++ check (runes_of_ascii "// c
packet i64_ {	char[] calculatedFrom , } packet
trueish trueish  {@calculatedFrom(
""a\\"" ) o { i32 falsey@lengthOf( uint8x ),
} , } // `tick` ""quote"" 'q'
options {// c
Z9_ = ' '//
}
")).
Eval vm_compute in ("<<<M698>>>" ++ check (runes_of_ascii "// c
packet i64_ {	char[] calculatedFrom , } packet
trueish  {@calculatedFrom(
""a\\"" ) ) o { i32 falsey@lengthOf( uint8x ),
} , } // `tick` ""quote"" 'q'
options {// c
Z9_ = ' '//
}
")).
Eval vm_compute in ("<<<M694>>>" ++ check (runes_of_ascii "// c
packet i64_ {	char[] calculatedFrom , } packet
trueish  {@calculatedFrom(
""a\\"" ) o { i32 falsey@lengthOf( " ++ [252]%N ++ runes_of_ascii "ber ),
} , } // `tick` ""quote"" 'q'
options {// c
Z9_ = ' '//
}
")).
Eval vm_compute in ("<<<M1645>>>" ++ check (runes_of_ascii "// top
packet o {
    // c2
    @tag(42)
    // c5
    repeat x {
        // c8
        char[0123456789] i64_,// c13
    },// c15
}// c16

options {
    // c18
}// c19")).
Eval vm_compute in ("<<<M185>>>" ++ check (runes_of_ascii "options {  Logon =
    ""{,}"" } //	t
MetaData leftPad { i8 zchar `// not a comment`, } MetaData len
    {char[] u128	,} // " ++ [27880; 37322]%N ++ runes_of_ascii "
root
    packet Pad
{
    }")).
Eval vm_compute in ("<<<M1574>>>" ++ check (runes_of_ascii "
packet A
{
    match k as
	n
    {
	[	1	, ""bb"",
007
    , ""d""	,	5

, ""f"",  7  ,
    ""h"",	9	,

    ""j""
	, 11]	:
    B ,
	2
    :C
    } ,}
")).
Eval vm_compute in ("<<<M1100>>>" ++ check (runes_of_ascii "// top
MetaData
    // c0
zchar
    // c1
{
    // c2
zchar[
    // c3
3
    // c4
]
    // c5
Pad
    // c6
,
    // c7
}
    // c8
")).
Eval vm_compute in ("<<<M592>>>" ++ check (runes_of_ascii "MetaData
    // trailing space 
    matchKey matchKey
{ u64 chars // a // b
,char[] lengthOf `// not a comment`
    , //	t
}")).
Eval vm_compute in ("<<<M1631>>>" ++ check (runes_of_ascii "  options { LittleEndian

=
	true

    ;  }
    root

    packet	P { u16 a
,
u32 
Sum
@calculatedFrom(""CRC32"")
, }
")).
Eval vm_compute in ("<<<M653>>>" ++ check (runes_of_ascii "MetaData
 /   // trailing space 
    matchKey
{ u64 chars // a // b
,char[] lengthOf `// not a comment`
    , //	t
}")).
Eval vm_compute in ("<<<M596>>>" ++ check (runes_of_ascii "MetaData
    // trailing space 
    matchKey
 u64 chars // a // b
,char[] lengthOf `// not a comment`
    , //	t
}")).
Eval vm_compute in ("<<<M660>>>" ++ check (runes_of_ascii "MetaData
    // trailing space 
    " ++ [252]%N ++ runes_of_ascii "ber
{ u64 chars // a // b
,char[] lengthOf `// not a comment`
    , //	t
}")).
Eval vm_compute in ("<<<M1842>>>" ++ check (runes_of_ascii "

  packet

    Pad
    { @calculatedFrom( ""CRC32""  )  @tag( 
7 
) float32 u128

@calculatedFrom(""\n""),

}
")).
Eval vm_compute in ("<<<M1289>>>" ++ check (runes_of_ascii "packet calculatedFrom { @tag( 4294967296 ) u msg_type , char[ 3 ] crc @lengthOf( len ) `u8 x,` , } // c
")).
Eval vm_compute in ("<<<M1274>>>" ++ check (runes_of_ascii "packet calculatedFrom { @tag( 4294967296 ) u msg_type , char[ 3
// c
] crc @lengthOf( len ) `u8 x,` , }")).
Eval vm_compute in ("<<<M1873>>>" ++ check (runes_of_ascii "
packet

    A

    {
Inner {

    u8

    x
    `
x` ,  Deep
	{
	u8 
y `
x`, },

}
    , } ")).
Eval vm_compute in ("<<<M1129>>>" ++ check (runes_of_ascii "
// c
packet Logon { @tag( 42 ) @rightPad ( ' ' ) @leftPad ( ) repeat trueish { string T , } , }")).
Eval vm_compute in ("<<<M1152>>>" ++ check (runes_of_ascii "packet Logon { @tag( 42 ) @rightPad ( ' ' ) @leftPad ( // c
) repeat trueish { string T , } , }")).
Eval vm_compute in ("<<<M862>>>" ++ check (runes_of_ascii "packet A {
  match k as n {
    [""a"", ""bb"", 007, ""d"", ""e"", 66, ""g"", ""h""] : B
    2 : C
  },
}")).
Eval vm_compute in ("<<<M1343>>>" ++ check (runes_of_ascii "packet

    Inner {  u8 a
    , }root
packet  P

{repeat 
Inner

items
    ,
u8 x , } ")).
Eval vm_compute in ("<<<M864>>>" ++ check (runes_of_ascii "packet A {
  match k as n {
    [1, 22, 007, 4, 5, 66, 7, 8, 9] : B,
    2 : C
  },
}")).
Eval vm_compute in ("<<<M829>>>" ++ check (runes_of_ascii "packet A {
  match k as n {
    [1, ""bb"", 007, ""d"", 5, ""f""] : B,
    2 : C
  },
}")).
Eval vm_compute in ("<<<M1235>>>" ++ check (runes_of_ascii "packet o { @tag( 42 ) repeat x { char[ 0123456789 ] i64_ ,
// c
} , } options { }")).
Eval vm_compute in ("<<<M838>>>" ++ check (runes_of_ascii "packet A {
  match k as n {
    [1, 22, 007, 4, 5, 66, 7] : B,
    2 : C
  },
}")).
Eval vm_compute in ("<<<M902>>>" ++ check (runes_of_ascii "packet A { Inner { match k as n { [1,22,007,4,5,66,7,8,9,10,11] : B, }, }, }")).
Eval vm_compute in ("<<<M1593>>>" ++ check (runes_of_ascii "packet A {
    match k as n {
        [""a""] : B,
        2 : C,
    },
}")).
Eval vm_compute in ("<<<M1317>>>" ++ check (runes_of_ascii "MetaData _x { zchar[ 4294967296 // c
] lengthOf `// not a comment` , }")).
Eval vm_compute in ("<<<M786>>>" ++ check (runes_of_ascii "packet A {
  match k as n {
    [1, 22, 007] : B,
    2 : C
  },
}")).
Eval vm_compute in ("<<<M214>>>" ++ check (runes_of_ascii "
MetaData string_ {Header
    roots ,} MetaData
MetaDataX	{ }")).
Eval vm_compute in ("<<<M798>>>" ++ check (runes_of_ascii "packet A { Inner { match k as n { [1,22,007] : B, }, }, }")).
Eval vm_compute in ("<<<M150>>>" ++ check (runes_of_ascii "options {float
    = 4294967296 ;} options
{ }
")).
Eval vm_compute in ("<<<M1065>>>" ++ check (runes_of_ascii "packet A {
    u8 x,    // c    u8 y,
}")).
Eval vm_compute in ("<<<M1883>>>" ++ check (runes_of_ascii "MetaData x_y_z {
    string options1,
}")).
Eval vm_compute in ("<<<M945>>>" ++ check (runes_of_ascii "root packet A {
    u8 x `a

b`,
}")).
Eval vm_compute in ("<<<M1721>>>" ++ check (runes_of_ascii "options {
    Packet = char[]
}")).
Eval vm_compute in ("<<<M161>>>" ++ check (runes_of_ascii "packet u {A
    trueish , }
")).
Eval vm_compute in ("<<<M1083>>>" ++ check (runes_of_ascii "packet A { // a
 u8 x, }")).
Eval vm_compute in ("<<<M410>>>" ++ check (runes_of_ascii "options
{
matchKey =")).
Eval vm_compute in ("<<<M986>>>" ++ check (runes_of_ascii "// c" ++ [160]%N ++ runes_of_ascii "
packet A {
}")).
Eval vm_compute in ("<<<M37>>>" ++ check (runes_of_ascii "MetaData charz{ }")).
Eval vm_compute in ("<<<M1071>>>" ++ check (runes_of_ascii "

  packet A {}")).
Eval vm_compute in ("<<<M979>>>" ++ check (runes_of_ascii "// c" ++ [12288]%N)).
