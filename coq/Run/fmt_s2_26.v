From FP Require Import Lexer Parser ShowPT Digest Formatter.
From Coq Require Import String List NArith.
Import ListNotations.
Open Scope string_scope.
Set Printing Width 100000000.
Set Printing Depth 100000000.
Definition show_fres (r : fres) : string :=
  match r with
  | FOk s => "OK:" ++ sh_escaped s ""
  | FErr s => "ERR:" ++ sh_escaped s ""
  | FPanic p => "PANIC:" ++ p
  end.
Definition check (rs : list rune) : string := digest (show_fres (format_res rs)).
Definition full (rs : list rune) : string := show_fres (format_res rs).
Eval vm_compute in ("<<<M3610>>>" ++ check (runes_of_ascii "  MetaData
BodyLength {	zchar[	42// trailing space 
    ]  falsey ,
    x_y_z

trueish 
`{ , }`,	options1  Header`
`
    ,
uint8
Header `tab	here`
	,

uint8 
// packet A { u8 x, }

zchar, float64
len  ,
}	packet  //x
    chars

{
zchar[00 ] options1  ,zchar[  // c
7

]

    Header , @tag(

    0 )

char[]

    MetaDataX  `line1
line2`
, repeat
metadata
	{ i64 
        // packet A { u8 x, }
    // @lengthOf(

  MetaDataX
, 
int8 
o ,  leftPad  Pad, string	Z9_	`u8 x,`

, }
,
@leftPad  (  '0'
)u64
calculatedFrom 
// trailing space 
      // c
  	@calculatedFrom( ""a\""b""
    ), 
@lengthOf( 
leftPad	) repeat

Foo 
`line1
line2`
,
}
packet
	options1 
        //x
		//	t

	{ @tag(	00)
body asx
	, 
    // a // b

  // " ++ [128512]%N ++ runes_of_ascii " emoji
  repeat  MetaDataX{
	repeat  i64

    u8x	`" ++ [233]%N ++ runes_of_ascii "`,
},pack@calculatedFrom(""CRC32""
)
`
` , repeat	Pad{ Foo{
repeat
i8i8 ,
MetaDataX
, 

// @lengthOf(
	lengthOf

    @calculatedFrom(""abc""
)
	`// not a comment`
, 	 /// triple
  }

    ,

    }
,float64  string_
@calculatedFrom(//
    ""it's""

)

    `u8 x,`
	, 
i8
	Z9_@lengthOf( _x )
,	BodyLength	matchKey
`tab	here`, uint64
    // " ++ [128512]%N ++ runes_of_ascii " emoji
	  As @calculatedFrom(
	""// no comment""	)

,}

packet

    leftPad {
match

packetx
	as // trailing space 
    Foo
{ 
[
""x y"",	3	] 
        // " ++ [128512]%N ++ runes_of_ascii " emoji
: 
As

,
    00:
leftPad 

// a // b
//	t
    	,
[ 
""\n""	,""""
	] 
: 
MetaDataX
	,
00
:
x
	""""
: int,
    } 
,
i32 
        // " ++ [27880; 37322]%N ++ runes_of_ascii "
    Foo
,
repeat string
roots 
,

    repeat

    body 
chars `" ++ [28040; 24687; 31867; 22411]%N ++ runes_of_ascii "`	,

int
	`" ++ [233]%N ++ runes_of_ascii "` ,
@rightPad
( ' ') string
	BodyLength  ,
	@lengthOf( lengthOf 	 // " ++ [128512]%N ++ runes_of_ascii " emoji
  	)
	char

    uint8x `line1
line2`

    , zchar[00]repeatCount @calculatedFrom(
	""" ++ [28040; 24687]%N ++ runes_of_ascii """ 
)
,

    @calculatedFrom( ""a	b""
) falsey
//x
	@calculatedFrom(	""1""  )  `crlf
line`
, }//x
packet
    Header { 	 // trailing space 
    @calculatedFrom(

""" ++ [28040; 24687]%N ++ runes_of_ascii """)int64 
u`crlf
line` , 
@calculatedFrom( ""CRC32""
    ) 	 // packet A { u8 x, }
  int64	uint8x

    ,	char[
	255  ] Foo `
` ,
}
")).
Eval vm_compute in ("<<<M871>>>" ++ check (runes_of_ascii "// `tick` ""quote"" 'q'
MetaData
tag{ u8 lengthOf `it's`
,
zchar[  3] msg_type , Pad a1`doc`
    , } packet int { @tag( 42
    )char[] trueish`line1
line2`
    // a // b
    , int64 A @calculatedFrom( ""// no comment"" )
`
`,	@lengthOf( u8x )
    @leftPad (' '
    ) @rightPad
(
)
    repeat int64 float ,
    // a // b
    char[ 00
    ] Pad `// not a comment` ,@rightPad (// packet A { u8 x, }
)
    float {zchar[
0	] i8i8,	pack
    {_x falsey
, repeat
    string Packet `two words`
    ,match
rootA as matchKey
    { [ ""it's""	,// `tick` ""quote"" 'q'
255 ]:Packet  , // packet A { u8 x, }
""a\\"" : i8i8 , [ ""a	b""//
,
    ""CRC32""
] :
    crc,
42 // trailing space 
:Packet
007
: MetaDataX 0: float , } ,	} , i16 Z9_
@calculatedFrom(
    ""{,}"")// c
, string float @lengthOf( roots // c
) `doc` , }
    //x
    , @rightPad //
( '0' ) u16 f32a
//	t
// packet A { u8 x, }
, } root
    packet  Header {
}options	{
trueish// packet A { u8 x, }
=char[
    007 //x
]
; asx = '\x00'
stringy=
'\x00';  roots	= ' '
    }packet BodyLength { @leftPad ( // @lengthOf(
'0' ) f32a @calculatedFrom(
    // " ++ [27880; 37322]%N ++ runes_of_ascii "
    ""a\\"" ) `doc` ,repeat a1	{
msg_type , }
    , @leftPad
( '0' ) @calculatedFrom( // `tick` ""quote"" 'q'
""" ++ [128512]%N ++ runes_of_ascii """ )	@rightPad
    ()// " ++ [128512]%N ++ runes_of_ascii " emoji
int32
    tag@lengthOf( string_ ) `doc`
    ,	match
matchKey as
f32a{ """ ++ [128512]%N ++ runes_of_ascii """:	body,	}	, repeat // " ++ [128512]%N ++ runes_of_ascii " emoji
u lengthOf ,char[] Foo `` , @lengthOf(	zchar ) Z9_	{ i32 calculatedFrom ,} , @leftPad ( '0' ) @calculatedFrom( ""\n"" )  @lengthOf( body
) i32 As
@calculatedFrom(	""CRC32"" ) `u8 x,` , repeat
float // a // b
A , a1@lengthOf(
trueish )
    //
    `{ , }` ,
} 	 ")).
Eval vm_compute in ("<<<M4394>>>" ++ check (runes_of_ascii "root packet Foo {
    chars {
        falsey body,
        zchar[3] repeatCount `{ , }`,
    },
    @lengthOf(BodyLength)
    i8 Z9_ @lengthOf(trueish),// " ++ [128512]%N ++ runes_of_ascii " emoji
    @rightPad()
    repeat Pad {
        _x @calculatedFrom(""\" ++ [233]%N ++ runes_of_ascii """),
        match msg_type as uint8x {
            [1, ""\n"", 0, ""\n""] : Packet,
            ""CRC32"" : pack,
        },
    },
    @calculatedFrom(""a\""b"")
    repeat body {
        char[007] i64_ `
                `,
        match charz as pack {
            65535 : u8x,
            65535 : zchar,
            [255] : chars,
            1 : stringy,
            [""" ++ [28040; 24687]%N ++ runes_of_ascii """] : int,
            0 : asx,
        },
    },
    match o as A {
        007 : calculatedFrom,
        ""abc"" : roots,
        ""`tick`"" : Foo,
        ""it's"" : Foo,
        007 : float,
    },
    @leftPad(' ')
    // `tick` ""quote"" 'q'
    // trailing space 
    repeat repeatCount,
    char[007] u128 `crlf
        line`,
}//

packet asx {
    charz {
        rootA @calculatedFrom(""" ++ [233]%N ++ runes_of_ascii "t" ++ [233]%N ++ runes_of_ascii """),
    },
}

packet msg_type {
}

MetaData o {
    f32 msg_type,
    int64 body,
}

root packet body {
    @tag(1)
    @calculatedFrom(""`tick`"")
    @tag(0123456789)
    metadata {
        pack i64_,
    },
    repeat zchar[7] asx,
    chars @calculatedFrom(""\n""),
    repeat zchar[4294967296] x,
    @rightPad('\x00')
    u8 msg_type `" ++ [233]%N ++ runes_of_ascii "`,
    float64 pack @lengthOf(MetaDataX),
}")).
Eval vm_compute in ("<<<M938>>>" ++ check (runes_of_ascii "root packet
    options1{ repeat u { f64 roots// @lengthOf(
, },
    zchar falsey `crlf
line`// `tick` ""quote"" 'q'
,
    match
u
    as Foo
{ 42
: lengthOf
    , ""\n"" : crc,
[
4294967296 // c
,// trailing space 
4294967296
    , 3 ,
""\" ++ [233]%N ++ runes_of_ascii """	,
// " ++ [128512]%N ++ runes_of_ascii " emoji
//x
""x y"" ]:	o ,}  ,
    a1`crlf
line`, @rightPad(
// " ++ [128512]%N ++ runes_of_ascii " emoji
//
) char[ 0123456789 // " ++ [128512]%N ++ runes_of_ascii " emoji
] //
x_y_z  `line1
line2`
, @lengthOf(trueish ) i32 A// packet A { u8 x, }
`u8 x,` ,}
packet packetx	{ // " ++ [128512]%N ++ runes_of_ascii " emoji
match	u as
u8x
    {// " ++ [27880; 37322]%N ++ runes_of_ascii "
255 :
lengthOf	,	[ """ ++ [233]%N ++ runes_of_ascii "t" ++ [233]%N ++ runes_of_ascii """, 7
    ,00	, // packet A { u8 x, }
""a\\"", 10 ,0 ,
    007 ,  3
    // c
    ]
: string_ 0123456789: f32a // " ++ [128512]%N ++ runes_of_ascii " emoji
,
}	, // trailing space 
stringy@calculatedFrom( ""\" ++ [233]%N ++ runes_of_ascii """
)`line1
line2`
    //x
    , @leftPad
    (
) zchar[
10 ] trueish , // packet A { u8 x, }
}root packet Logon {
i64_
@lengthOf( int )`// not a comment` , @tag(3) match lengthOf as pack
{
42 // `tick` ""quote"" 'q'
:
    T, 255
    : int
    , 007 : tag // " ++ [128512]%N ++ runes_of_ascii " emoji
,4294967296 : _x, }
, @calculatedFrom( ""packet"" ) @tag( 10
// @lengthOf(
// a // b
) @tag(65535 )
zchar[ 65535
] roots ,
    @rightPad ( // `tick` ""quote"" 'q'
' '
) @tag(
7)
    // @lengthOf(
    string
Packet @lengthOf(
    u	)  `tab	here` // trailing space 
,
    }
packet metadata {} root packet x {}
")).
Eval vm_compute in ("<<<M4384>>>" ++ check (runes_of_ascii "
MetaData
    falsey	{ i8
Logon
,// packet A { u8 x, }

len metadata`doc` ,

}MetaData  // " ++ [27880; 37322]%N ++ runes_of_ascii "

  Foo 
{char[
    65535]
    calculatedFrom 
`
`  
      // a // b
//x
    , matchKey// c
      zchar , u

    stringy	`
`

,

    MetaDataX
    u

    `say ""hi""`
    , 	 // c
		}packet msg_type	{
@lengthOf(	Z9_
    ) 
	    //x
  	//x

@lengthOf( 
x
)

    @tag(	0 
)  calculatedFrom { 
msg_type

@calculatedFrom(
""CRC32""
)`say ""hi""` ,  repeat
	matchKey
	{repeat T

{
char[ // " ++ [27880; 37322]%N ++ runes_of_ascii "
  1
] 
T  ,repeatCount  `line1
line2`  ,
    match 
int
as	x

    {
	""packet""	//x
	:options1
,
    00	:

    calculatedFrom
00

:
    falsey,	}	,}

    ,
char[] uint8x,match

Packet as	falsey
{
	7 :	// packet A { u8 x, }
  f32a , 	 // a // b
	10

:	u
    ,  1
    : Header ,
[ ""packet""	// " ++ [27880; 37322]%N ++ runes_of_ascii "
  ,
    0
	// " ++ [27880; 37322]%N ++ runes_of_ascii "

// @lengthOf(
  ,

""a	b"" ]

:
    o 
0123456789
	: chars
}	,  zchar[
65535 ]
    Foo
,
	} 
,
	}
, } // packet A { u8 x, }
		root	packet u	//x
{ @tag(
    007) i32 	 // trailing space 

stringy
@lengthOf(

//
  a1)

`{ , }`
,
    } MetaData
    string_
	{uint64
	chars
    `crlf
line`
    ,char[ // @lengthOf(
    3]	u8x `a\` ,
    }")).
Eval vm_compute in ("<<<M245>>>" ++ check (runes_of_ascii "packet As { @lengthOf( // c
u8x )
    repeat u32 T ,
string Foo@calculatedFrom(
""it's"" ) `doc`  , @tag(
// a // b
// " ++ [27880; 37322]%N ++ runes_of_ascii "
00) //
@tag( 42 )	repeatCount { packetx { repeat// @lengthOf(
f64 x_y_z
    `doc` //x
,
repeat
    char[65535
] crc ,} ,
    u16 A , o @lengthOf( MetaDataX)  `// not a comment`
    , repeat string  BodyLength `
`
    /// triple
    , }, repeatCount
@lengthOf( chars)
,  match //	t
uint8x
    as As  {007 :
Packet """"  : Header 3
:zchar 7
// packet A { u8 x, }
// " ++ [27880; 37322]%N ++ runes_of_ascii "
:
u128 , [ 4294967296 ,	""x y"" // " ++ [128512]%N ++ runes_of_ascii " emoji
]
:
crc
[ ""1"" ,
    00]:
//x
// @lengthOf(
int ,	}
,
@lengthOf( Foo ) repeat // " ++ [128512]%N ++ runes_of_ascii " emoji
u
{string float
// packet A { u8 x, }
/// triple
,  string matchKey
    @calculatedFrom( ""it's"" // " ++ [128512]%N ++ runes_of_ascii " emoji
)  `it's` ,
    repeat Packet repeatCount
    ,
    }, @lengthOf( T)
A
    //x
    @lengthOf( rootA // c
) `` ,
    repeatCount // " ++ [128512]%N ++ runes_of_ascii " emoji
@calculatedFrom( ""packet"" ) , char[] x
// `tick` ""quote"" 'q'
// packet A { u8 x, }
@calculatedFrom( ""abc"" ) `crlf
line` , }packet
i8i8
// c
// trailing space 
{} options{ MetaDataX=true ;//x
charz	=
    true ; }
")).
Eval vm_compute in ("<<<M582>>>" ++ check (runes_of_ascii "root packet u128
    {@lengthOf( chars ) repeat u128
{ repeat	char[
//	t
// trailing space 
007
// packet A { u8 x, }
/// triple
] falsey ,
zchar[ 00 ]
crc , uint8x @lengthOf(
    Logon ) `" ++ [28040; 24687; 31867; 22411]%N ++ runes_of_ascii "`
,	zchar[ 0123456789]lengthOf @lengthOf( f32a ),} , repeat/// triple
char[42
    ] float , int16 u
/// triple
// `tick` ""quote"" 'q'
``
    , @leftPad (
)
    zchar {
    int8 f32a `u8 x,`,
    } , @lengthOf(
msg_type  )
options1 { string roots@calculatedFrom(""" ++ [233]%N ++ runes_of_ascii "t" ++ [233]%N ++ runes_of_ascii """
    ) `// not a comment` , }
, Header Packet , @calculatedFrom( """ ++ [233]%N ++ runes_of_ascii "t" ++ [233]%N ++ runes_of_ascii """)  Z9_ { float {
    char[]pack @calculatedFrom( ""a\""b"" )
    `two words` , match Pad as body {
0123456789 : body ,
// " ++ [27880; 37322]%N ++ runes_of_ascii "
// a // b
[// packet A { u8 x, }
""it's""	,""x y"" , """ ++ [128512]%N ++ runes_of_ascii """
// @lengthOf(
// @lengthOf(
, 65535 ,""""
]
//	t
// " ++ [128512]%N ++ runes_of_ascii " emoji
: crc , ""abc""
    //x
    : msg_type, // @lengthOf(
""" ++ [233]%N ++ runes_of_ascii "t" ++ [233]%N ++ runes_of_ascii """ :lengthOf , 3 : Logon ,
    [  ""a\\"" ] : u128 ,
// a // b
/// triple
} ,
    } , MetaDataX{ rootA {repeat char[1
] Pad , }, }
    ,
x  ,	}
//	t
// a // b
, repeat// " ++ [128512]%N ++ runes_of_ascii " emoji
chars , //	t
u16 As ,}
")).
Eval vm_compute in ("<<<M3784>>>" ++ check (runes_of_ascii "options {
    StringPrefixLenType = u8;
    ArrayPrefixLenType = u32;
    FixedStringPadFromLeft = false;
    FixedStringPadChar = ' ';
}

packet Party {
    repeat i16 Qty,
    repeat string Tail,
    i8 OrderId,
    i8 msgKind,
}

packet Ack {
    Party,
    repeat InRef20 {
        Party,
        int8 tag7,
        char[5] OrderId,
        zchar[7] Tail,
        char[] count,
        InPrice45 {
            Party,
            char[1] Px,
        },
    },
    char[12] price,
    int8 sym,
}

packet Reject {
    repeat InPrice47 {
        Party,
    },
    zchar[4] x,
    repeat Ack,
    zchar[2] Ref,
    repeat Party,
}

packet Cancel {
    Reject,
    repeat string f1,
    uint16 OrderId,
    u8 Acct,
    int8 msgKind,
}

root packet Fill {
    u8 count,
    char[] tag7,
    zchar[7] Acct,
    u32 OrderId,
    u32 Note @lengthOf(Body),
    match OrderId as Body {
        106 : Cancel,
        196 : Reject,
        74 : Party,
        75 : Ack,
    },
}")).
Eval vm_compute in ("<<<M1190>>>" ++ check (runes_of_ascii "packet
    // a // b
    leftPad{ matchKey crc ,
@lengthOf( u128
) repeat char[ 007
    ]a1 `
`
,
repeat// " ++ [128512]%N ++ runes_of_ascii " emoji
Z9_ _x ,@tag(
42	)@lengthOf( body)@lengthOf( uint8x
    )
repeat
As{matchKey , lengthOf@calculatedFrom(
    // packet A { u8 x, }
    ""it's""
    ) , repeat zchar[
255
]
body
, char[] u
    @lengthOf( A )
    , }, @leftPad(
    '0'
    ) string body // @lengthOf(
`// not a comment` , }packet x_y_z  { } root packet
T{repeat char[ 3] Logon
    // trailing space 
    , //x
float	@lengthOf(
    roots)
`{ , }` ,_x T // " ++ [128512]%N ++ runes_of_ascii " emoji
`` , }packet Pad {
@calculatedFrom(""packet"") u16 repeatCount @calculatedFrom( """ ++ [233]%N ++ runes_of_ascii "t" ++ [233]%N ++ runes_of_ascii """ )`// not a comment`
,
@tag( 3 )
    zchar[ 4294967296
]	repeatCount
    ,
    } MetaData body {// packet A { u8 x, }
u32
matchKey , T
repeatCount // " ++ [128512]%N ++ runes_of_ascii " emoji
`
` , char[ // c
007
    // trailing space 
    ]
tag, i8i8 // " ++ [128512]%N ++ runes_of_ascii " emoji
asx, int u8x
, int32
Logon	`say ""hi""` // " ++ [128512]%N ++ runes_of_ascii " emoji
, }")).
Eval vm_compute in ("<<<M1245>>>" ++ check (runes_of_ascii "MetaData As {
    roots repeatCount	, char // `tick` ""quote"" 'q'
trueish , zchar[
255	]  u128  `crlf
line` , char[]  int,asx u128
    `say ""hi""`,	i32
    packetx
,}
options {A
    = false;packetx =char[0 ]	A
    =
true
crc = // " ++ [128512]%N ++ runes_of_ascii " emoji
1 ;
calculatedFrom  = // @lengthOf(
""" ++ [233]%N ++ runes_of_ascii "t" ++ [233]%N ++ runes_of_ascii """} MetaData i8i8 { }
    packet len {
    @tag(00 )// packet A { u8 x, }
uint64 stringy	@lengthOf( x_y_z) , } packet rootA
{ // trailing space 
@lengthOf( zchar ) char
_x@lengthOf( x_y_z) ,//	t
string_ @calculatedFrom(""" ++ [233]%N ++ runes_of_ascii "t" ++ [233]%N ++ runes_of_ascii """ ) /// triple
, // " ++ [128512]%N ++ runes_of_ascii " emoji
@lengthOf( A
    // " ++ [128512]%N ++ runes_of_ascii " emoji
    ) x_y_z //x
{ Pad
    , match
trueish as u8x {
    4294967296 : u
// trailing space 
/// triple
, 3
:
int 00 : //	t
u8x
    // trailing space 
    , [
// packet A { u8 x, }
// `tick` ""quote"" 'q'
""{,}""
, ""a	b"" //	t
,
0 ,3
,0123456789
, ""a\""b"" ]
:body ,
    65535 :
T
    , } , }
    , i32 chars , }")).
Eval vm_compute in ("<<<M451>>>" ++ check (runes_of_ascii "// packet A { u8 x, }
MetaData f32a{ int64 i8i8
, u64
Packet
    `` ,  falsey// @lengthOf(
_x
    ,// trailing space 
tag roots``,uint32 // packet A { u8 x, }
Foo `two words`
,
char[]asx ,
}packet options1 {
    char[  00
]
    u128,
//x
// a // b
@calculatedFrom( ""`tick`"" )
Header @calculatedFrom(  ""1""	) ,
@leftPad ( ) match// " ++ [128512]%N ++ runes_of_ascii " emoji
u// `tick` ""quote"" 'q'
as
    o {
[ ""a\\""
    // trailing space 
    ] :
// packet A { u8 x, }
// " ++ [128512]%N ++ runes_of_ascii " emoji
stringy	""abc""// packet A { u8 x, }
:	f32a
,
} ,	f64 x_y_z
@lengthOf( o )  ,	repeat
    char[  00	] //x
int
`
` , char[]options1 `{ , }`
,// `tick` ""quote"" 'q'
zchar[ // c
00 ]	charz// a // b
,
    char[]
    MetaDataX `a\`
    ,
match packetx	as zchar { [10 , 1 ] :
    i8i8 , ""CRC32""
:
// `tick` ""quote"" 'q'
//	t
Logon
// `tick` ""quote"" 'q'
// @lengthOf(
, } , }
//	t
")).
Eval vm_compute in ("<<<M514>>>" ++ check (runes_of_ascii "root packet As { @tag(
    4294967296 )
packetx // packet A { u8 x, }
, @calculatedFrom(
""" ++ [128512]%N ++ runes_of_ascii """ )i32 crc // " ++ [128512]%N ++ runes_of_ascii " emoji
, @lengthOf( x_y_z )@lengthOf(
    // a // b
    body
// a // b
// c
) BodyLength {
match repeatCount
    as int
    { ""\" ++ [233]%N ++ runes_of_ascii """:body , // packet A { u8 x, }
""// no comment""  : falsey
,""abc"" :
tag ""a	b"":zchar,
    // trailing space 
    007 : Packet ,}	, // " ++ [128512]%N ++ runes_of_ascii " emoji
} , repeat falsey trueish
    ,
@leftPad(
    ' '
)
@lengthOf(// packet A { u8 x, }
Logon )
@leftPad ( )int@lengthOf( u8x ), zchar[
// " ++ [27880; 37322]%N ++ runes_of_ascii "
// packet A { u8 x, }
007 ]falsey ,
    @rightPad
() float @lengthOf( Logon ) , @rightPad( '\x00' ) @calculatedFrom( /// triple
""a	b"" )Z9_ u8x, @tag( 3 ) string_ u128, }options  {
u128 = ""it's"" ;
metadata =  ""abc""string_
    =
    true	;f32a= // c
true }
packet i8i8{
}
")).
Eval vm_compute in ("<<<M1343>>>" ++ check (runes_of_ascii "MetaData
    int	{ zchar[  3 ] matchKey ,  zchar[ //	t
3]
    Pad, zchar tag
    ,
    f64  Z9_`u8 x,`
, char[ 255 ] f32a ,	} packet
string_{ @tag(
    // @lengthOf(
    42) match metadata as uint8x {
    ""1"" : x_y_z [ ""\n""
// c
//
]
:chars ,} //
,	lengthOf// " ++ [27880; 37322]%N ++ runes_of_ascii "
{
    repeat
i64 pack , repeat
zchar[ 42
] body ,//	t
match metadata
// `tick` ""quote"" 'q'
// trailing space 
as Pad
{
1:u8x , [
    ""packet"" ] : Logon  , ""{,}"" : Header ""1"":// " ++ [128512]%N ++ runes_of_ascii " emoji
o ,""" ++ [233]%N ++ runes_of_ascii "t" ++ [233]%N ++ runes_of_ascii """ : leftPad ,
    """ ++ [233]%N ++ runes_of_ascii "t" ++ [233]%N ++ runes_of_ascii """ :
    As, }
    , }
    , @tag( 65535
)
repeat// trailing space 
uint8 chars
,@tag(	3 ) @rightPad /// triple
( ' ' ) @leftPad
    ( ' ') u64 stringy
//	t
// @lengthOf(
, @rightPad
    ( ' ' ) repeat Header `line1
line2` ,
@rightPad( ' '
)repeat string charz , } 	 ")).
Eval vm_compute in ("<<<M1011>>>" ++ check (runes_of_ascii "root	packet
_x { falsey, } packet BodyLength
{
    /// triple
    float32 u ,@calculatedFrom( ""a\\""  ) roots @lengthOf(
x_y_z) , options1 Pad
`u8 x,`,
@tag(
0 )
    char[ 1
]T
    , }  packet u128 { repeat
u8
// " ++ [128512]%N ++ runes_of_ascii " emoji
//
x, match
    u8x as //	t
u8x
{
    """" : float[
0123456789 ] : pack , }
,
// `tick` ""quote"" 'q'
// " ++ [27880; 37322]%N ++ runes_of_ascii "
repeat
float32 lengthOf, // packet A { u8 x, }
}packet
    //
    Header { match	len // " ++ [27880; 37322]%N ++ runes_of_ascii "
as	Foo
    { [
    42 , 4294967296	,
    ""a	b"" ] :int 0  : u128 , [ ""\n"" ,
    42 ]: Foo , 3 :  float
,[ ""a\\"" ,	""`tick`""// " ++ [27880; 37322]%N ++ runes_of_ascii "
, // packet A { u8 x, }
""// no comment"", 7, 3	] : x
, [ 65535 , ""a\\""
    // packet A { u8 x, }
    ,	""a\\"" , ""it's""
    , """ ++ [28040; 24687]%N ++ runes_of_ascii """ , ""a\""b"" , ""{,}""]
    : msg_type , } ,
}
")).
Eval vm_compute in ("<<<M3597>>>" ++ check (runes_of_ascii "// top
  packet

// c0
    	Sub	{u8
// c3
      a 	 // c4a
  // c4b
		, 
    // c5
@calculatedFrom( 	 // c6
		""CRC16""	// c7
  	) 	 // c8a
// c8b
	i16 	 // c9a
  // c9b
  SubSum 
      // c10

  ,	} 	 // c12
root  packet
    // c14
	Frame	{ 	 // c16a
    // c16b
	u16	// c17a
      // c17b
    	MsgType, u16 

    // c20
BodyLen	@lengthOf(
    // c22
  Body // c23a
	// c23b
    	)	// c24a
    // c24b
	,
Sub// c26a
  // c26b
	Body  // c27
  ,
	    // c28
	  string 
note 	 // c30
  	,@calculatedFrom(// c32
  ""CRC16""  // c33
		)  // c34a
  // c34b
	  i16  // c35a
    // c35b

Checksum  // c36a
	  // c36b
, u8

    tail // c39
    	, // c40
	} // c41a
// c41b
 
")).
Eval vm_compute in ("<<<M28>>>" ++ check (runes_of_ascii "root
// c
// packet A { u8 x, }
packet
    // packet A { u8 x, }
    f32a {@rightPad ()// packet A { u8 x, }
options1 ,uint64
    MetaDataX ,
x_y_z `two words` ,
// packet A { u8 x, }
// trailing space 
i8i8
    `" ++ [28040; 24687; 31867; 22411]%N ++ runes_of_ascii "` ,int16 f32a@lengthOf( zchar	) ,}
//x
//x
root
    packet u8x { @rightPad	(
' ' ) repeat a1
    { repeat string_ stringy  ,
    } , stringy// `tick` ""quote"" 'q'
a1
`// not a comment` ,
@tag(	4294967296 ) float64 o, @lengthOf(a1 )
repeat string_ {
    // `tick` ""quote"" 'q'
    match BodyLength// trailing space 
as int {65535:u
, } , pack
    options1`a\` ,
repeat lengthOf	matchKey , }
    , repeat
char[65535 ] BodyLength
    , }
")).
Eval vm_compute in ("<<<M4189>>>" ++ check (runes_of_ascii "options  // c
    	{ msg_type
	=	//	t

1  ;
// a // b
      _x
= 
// packet A { u8 x, }
  char[]
    ;  // a // b
pack= ' ';}
	MetaData
    i8i8

    {  i8i8	// " ++ [27880; 37322]%N ++ runes_of_ascii "

roots
    ,
    options1 
    // " ++ [27880; 37322]%N ++ runes_of_ascii "
lengthOf
, 
_x
Z9_`// not a comment`
,	x
    i8i8`{ , }`	,
leftPad
BodyLength 
/// triple
  ,	}
root packet 
tag

    {

zchar[ 4294967296 ] 
// packet A { u8 x, }
  /// triple

  Z9_

@calculatedFrom( ""abc""  ) 
`" ++ [28040; 24687; 31867; 22411]%N ++ runes_of_ascii "` , 
char

    BodyLength @calculatedFrom( 
""\n"" )
	`// not a comment`
,
@leftPad 	 // c
    (
' ' 	 // c
	)
	@rightPad(  )repeat MetaDataX
	u `" ++ [233]%N ++ runes_of_ascii "`  , }	MetaData tag

    { u64

x_y_z
	`
`  ,

} ")).
Eval vm_compute in ("<<<M4516>>>" ++ check (runes_of_ascii "
// top
		MetaData  // c0

x_y_z 	 // c1
{// c2
  char 	 // c3

  body	// c4
,	// c5
  f64	// c6
    	i8i8 // c7
		`two words`// c8
,// c9
    body // c10
  body  // c11
  `" ++ [28040; 24687; 31867; 22411]%N ++ runes_of_ascii "` 	 // c12
    , // c13
  }  // c14

root	// c15
    	packet// c16
		chars  // c17

{ 	 // c18

@lengthOf(// c19
    	i64_ 	 // c20
  ) // c21

	chars // c22
,  // c23
  i8i8 // c24

	{ // c25
	falsey // c26
  @lengthOf(// c27
  stringy	// c28
)  // c29
    `doc`  // c30
  , // c31
}	// c32
    ,// c33
  	x	// c34
      @lengthOf(// c35
    A 	 // c36
	)  // c37

`crlf
line` // c38
  ,  // c39
    } // c40
")).
Eval vm_compute in ("<<<M4069>>>" ++ check (runes_of_ascii "packet T {
    @calculatedFrom(""\" ++ [233]%N ++ runes_of_ascii """)
    string f32a,
    repeat f32 falsey,/// triple
    @leftPad('0')
    match repeatCount as repeatCount {
        ""a	b"" : body,
    },
    x_y_z @lengthOf(trueish),
    f64 crc,
    @calculatedFrom(""x y"")
    @tag(0)
    @tag(65535)
    int16 u128 @lengthOf(string_) `" ++ [233]%N ++ runes_of_ascii "`,
    @calculatedFrom(""\n"")
    char[0123456789] Foo @calculatedFrom(""CRC32""),
    @calculatedFrom(""a\\"")
    match T as msg_type {
        [65535, ""x y"", 3, 255, 0] : T,
        [""CRC32"", ""1"", 3, 10, 65535] : u,
        4294967296 : a1,
    },
}")).
Eval vm_compute in ("<<<M1216>>>" ++ check (runes_of_ascii "// c
options {} packet // `tick` ""quote"" 'q'
msg_type
    {
    T @calculatedFrom( ""it's"" ) , @tag( 00
    //
    )  match rootA
    as
// a // b
// `tick` ""quote"" 'q'
charz{ 255 : roots [ ""1"", 7
    , 00 ] : x }
    , zchar[  007
    // c
    ]  u @calculatedFrom(
// trailing space 
//x
""" ++ [28040; 24687]%N ++ runes_of_ascii """)  ,	match repeatCount as Pad
    {[ /// triple
""packet""
, 1 ,4294967296,""1"" , ""x y""
    , 42 ] :
metadata ,
    [	3 ,65535 ,
    """",
007, """ ++ [233]%N ++ runes_of_ascii "t" ++ [233]%N ++ runes_of_ascii """ ,
    """ ++ [28040; 24687]%N ++ runes_of_ascii """, // c
""CRC32""
    // " ++ [128512]%N ++ runes_of_ascii " emoji
    ]
    :
    pack
""\" ++ [233]%N ++ runes_of_ascii """
: Packet }, }

")).
Eval vm_compute in ("<<<M3790>>>" ++ check (runes_of_ascii "packet Logon {
    @calculatedFrom(""a	b"")
    repeat options1,
    @calculatedFrom(""a\\"")
    // c
    char[] options1 `it's`,
    @tag(4294967296)
    repeat Logon {
        match trueish as u128 {
            ""x y"" : i64_,
            [4294967296, 007, 10] : i8i8,
        },
        //
        // @lengthOf(
        T `u8 x,`,
        repeat uint64 T `u8 x,`,
    },
}

options {
    u128 = '0'
    tag = true;
    Packet = char[0123456789];
    Foo = 007
    body = 3;
}

packet i64_ {
}
//x")).
Eval vm_compute in ("<<<M816>>>" ++ check (runes_of_ascii "options {
Packet=
false ; BodyLength=
007
    //	t
    rootA =
char[	255 ] ; uint8x= true;
// trailing space 
//	t
}
    packet msg_type { @calculatedFrom(""a\""b"" ) @leftPad ( ) repeat
    char[]
rootA, char[	7 ]
    // a // b
    Packet
, @leftPad ( ' ' )
    u64
metadata @calculatedFrom( ""x y"") ,
@tag( 42 )match lengthOf as f32a{
[ ""// no comment"" ,""\" ++ [233]%N ++ runes_of_ascii """ ,42 , ""\n""]:	metadata,
// packet A { u8 x, }
//
4294967296
:
trueish ,
007:
rootA ,
007 :	float  """"  : body, }, }")).
Eval vm_compute in ("<<<M1050>>>" ++ check (runes_of_ascii "root packet roots
    { }
    packet
    As {
    @calculatedFrom(
""" ++ [28040; 24687]%N ++ runes_of_ascii """ ) i16 msg_type`" ++ [28040; 24687; 31867; 22411]%N ++ runes_of_ascii "`
, repeat // trailing space 
repeatCount
{ repeat pack msg_type `crlf
line` , //
match repeatCount as
_x{ ""`tick`"": // a // b
trueish ,// c
[
    ""\n""
, 65535
, 255 ,
    ""abc""  , 0123456789 ] :	options1, } //
, //x
} , }
// trailing space 
//
MetaData x_y_z{
options1
chars ,int32
leftPad `{ , }` , string
    i64_ `say ""hi""` , int32 BodyLength `a\`
,	}
")).
Eval vm_compute in ("<<<M30>>>" ++ check (runes_of_ascii "packet  chars { zchar[ 10
    ]x
@lengthOf( repeatCount )
    ,
repeat
    metadata{
string int ,repeat
matchKey //x
, match leftPad as o { 0 : matchKey
    // " ++ [27880; 37322]%N ++ runes_of_ascii "
    ,
[ 0 ]
: float 0 : packetx// " ++ [128512]%N ++ runes_of_ascii " emoji
255 :i64_
    ,//	t
[0 , 007 , ""a\\"" ,
    //	t
    """ ++ [128512]%N ++ runes_of_ascii """
    ,
65535  , 255 ]
:
charz ,	255 : u,	} , },  @rightPad( ' ' )
// packet A { u8 x, }
// " ++ [128512]%N ++ runes_of_ascii " emoji
@tag( 255
) // c
@rightPad
(	' ' ) u16 falsey,}options
    { f32a
= """ ++ [128512]%N ++ runes_of_ascii """ ;	}
")).
Eval vm_compute in ("<<<M4380>>>" ++ check (runes_of_ascii "packet Pad {
    i16 A @calculatedFrom(""a\""b""),
}

packet roots {
    @tag(65535)
    repeat f32a {
        char[00] a1 @calculatedFrom(""a\\""),
        float32 x_y_z,
        len {
            // `tick` ""quote"" 'q'
            // c
            stringy u8x `
            `,
        },
        f32 Foo @calculatedFrom(""a\""b""),
    },
    @calculatedFrom(""1"")
    u64 calculatedFrom,
    u32 u8x,
    u32 calculatedFrom ``,
}")).
Eval vm_compute in ("<<<M720>>>" ++ check (runes_of_ascii "packet crc{ @tag(
255 )	u64	int//x
,	As len , stringy @lengthOf( A// `tick` ""quote"" 'q'
) `line1
line2` ,
    match
// a // b
// " ++ [27880; 37322]%N ++ runes_of_ascii "
a1
as  o{ """" :	Header , ""packet""// a // b
: i8i8  ,	""" ++ [128512]%N ++ runes_of_ascii """ : body ,
[ ""`tick`"" ]: // trailing space 
i64_
, ""CRC32"" :BodyLength
    // c
    ""{,}"": _x ,}
    ,	o, @tag(
42 // " ++ [27880; 37322]%N ++ runes_of_ascii "
) packetx
{ zchar[ 00 ]
// c
// packet A { u8 x, }
stringy
    ,
    } ,
    // " ++ [128512]%N ++ runes_of_ascii " emoji
    } 	 ")).
Eval vm_compute in ("<<<M367>>>" ++ check (runes_of_ascii "packet	T  {
/// triple
// @lengthOf(
@tag( 007 )
T
    @calculatedFrom( ""CRC32"")
//	t
//
, @tag( // " ++ [27880; 37322]%N ++ runes_of_ascii "
65535	) repeat
    tag { a1 @calculatedFrom( ""a\""b"" )	, }
,
As
    {
    char[ //	t
007 ] lengthOf , char[]x @lengthOf(crc )`` ,  repeat
i8
    matchKey , tag Z9_ , } ,repeat
// c
/// triple
uint64
zchar
    // packet A { u8 x, }
    `doc` ,	@tag(255
)repeat zchar[ 7 ]lengthOf
, }")).
Eval vm_compute in ("<<<M991>>>" ++ check (runes_of_ascii "packet // packet A { u8 x, }
Pad { repeat u8 f32a ,
string_ { char[ 42 ] // a // b
As
    , repeat uint16 asx , repeat
    zchar[ 65535 ]
    a1
    , }
, }
// trailing space 
// @lengthOf(
MetaData
    rootA { }MetaData _x {
    char[]
body ,
f64 // c
len ,rootA
uint8x
    `
` ,
    float f32a , }options{  metadata = char ;
    //x
    msg_type = zchar[ 0 ] ;}
// " ++ [27880; 37322]%N ++ runes_of_ascii "
")).
Eval vm_compute in ("<<<M1014>>>" ++ check (runes_of_ascii "// c
MetaData
    asx {i64_ f32a /// triple
,
stringy	pack
`` , }MetaData  repeatCount
//x
// " ++ [27880; 37322]%N ++ runes_of_ascii "
{ } options { // `tick` ""quote"" 'q'
x=7// @lengthOf(
; Foo
    //
    = 42 x = u64 ;/// triple
x_y_z
= u16 u8x =// c
' ' }
    //x
    packet len	{
    @lengthOf(
    metadata ) @tag( 00 )
@calculatedFrom( """ ++ [233]%N ++ runes_of_ascii "t" ++ [233]%N ++ runes_of_ascii """ ) len , } MetaData repeatCount { A Z9_,
} // c")).
Eval vm_compute in ("<<<M836>>>" ++ check (runes_of_ascii "packet trueish {
    // trailing space 
    zchar[
0
] o
@lengthOf( float	), @tag(
    10
    )stringy {
zchar[ 65535  ]
matchKey
    ,	}
    ,
    @lengthOf(
//
//	t
asx )zchar[
    10 ] string_
@calculatedFrom("""" ) `it's`	,
}options {	rootA //x
=
// a // b
// trailing space 
""1""
; }
    options
    { body = u32 repeatCount= '\x00' }
")).
Eval vm_compute in ("<<<M1172>>>" ++ check (runes_of_ascii "packet
stringy { @lengthOf(
Packet ) lengthOf @calculatedFrom(""it's"" ) ,  } MetaData x_y_z{ asx rootA `it's` ,
float32 // " ++ [128512]%N ++ runes_of_ascii " emoji
trueish
//x
// packet A { u8 x, }
, o Packet , } options {leftPad =true ; len	= 7 //x
; Pad
//	t
// c
= 42
    //x
    ; chars
    = 65535 ;A =
    4294967296} MetaData int
    /// triple
    { }")).
Eval vm_compute in ("<<<M733>>>" ++ check (runes_of_ascii "packet // a // b
zchar {
    char[] trueish @calculatedFrom(
""CRC32""// `tick` ""quote"" 'q'
), char[]
    /// triple
    MetaDataX
, u8x @lengthOf(leftPad ) `
`
/// triple
// c
, @leftPad (  '\x00' )u32 u8x
,} root packet metadata
{ repeat As , // c
uint64 trueish , x `two words`,}
options {metadata =  '0' ; }
")).
Eval vm_compute in ("<<<M3286>>>" ++ check (runes_of_ascii "// top
packet // c0
u128 // c1
{ // c2
@lengthOf( // c3
body // c4
) // c5
match // c6
x_y_z // c7
as // c8
u // c9
{ // c10
""x y"" // c11
: // c12
i8i8 // c13
, // c14
} // c15
, // c16
@tag( // c17
255 // c18
) // c19
char[] // c20
roots // c21
@lengthOf( // c22
int // c23
) // c24
, // c25
} // c26
")).
Eval vm_compute in ("<<<M1611>>>" ++ check (runes_of_ascii "root packet Foo // " ++ [128512]%N ++ runes_of_ascii " emoji
{ } options {
    // a // b
    tag // `tick` ""quote"" 'q'
= //	t
""""
    ; u8x = zchar[0  ] }
MetaData
    int {zchar[ 10]
lengthO@tagf	`` , i64 u8x`// not a comment` ,MetaDataX pack// `tick` ""quote"" 'q'
`crlf
line`
, Logon charz `crlf
line`
    ,
    // a // b
    }
")).
Eval vm_compute in ("<<<M1547>>>" ++ check (runes_of_ascii "root packet Foo // " ++ [128512]%N ++ runes_of_ascii " emoji
{ } options {
    // a // b
    tag // `tick` ""quote"" 'q'
= //	t
""""
    ; u8x = zchar[0  ] }
MetaData
    int {zchar[ 10]
lengthOf	`` , i64 65535`// not a comment` ,MetaDataX pack// `tick` ""quote"" 'q'
`crlf
line`
, Logon charz `crlf
line`
    ,
    // a // b
    }
")).
Eval vm_compute in ("<<<M1431>>>" ++ check (runes_of_ascii "root packet Foo // " ++ [128512]%N ++ runes_of_ascii " emoji
{ options } {
    // a // b
    tag // `tick` ""quote"" 'q'
= //	t
""""
    ; u8x = zchar[0  ] }
MetaData
    int {zchar[ 10]
lengthOf	`` , i64 u8x`// not a comment` ,MetaDataX pack// `tick` ""quote"" 'q'
`crlf
line`
, Logon charz `crlf
line`
    ,
    // a // b
    }
")).
Eval vm_compute in ("<<<M1591>>>" ++ check (runes_of_ascii "root packet Foo // " ++ [128512]%N ++ runes_of_ascii " emoji
{ } options {
    // a // b
    tag // `tick` ""quote"" 'q'
= //	t
""""
    ; u8x = zchar[0  ] }
MetaData
    int {zchar[ 10]
lengthOf	`` , i64 u8x`// not a comment` ,MetaDataX pack// `tick` ""quote"" 'q'
`crlf
line`
, Logon charz ,
    `crlf
line`
    // a // b
    }
")).
Eval vm_compute in ("<<<M1512>>>" ++ check (runes_of_ascii "root packet Foo // " ++ [128512]%N ++ runes_of_ascii " emoji
{ } options {
    // a // b
    tag // `tick` ""quote"" 'q'
= //	t
""""
    ; u8x = zchar[0  ] }
MetaData
    int {true 10]
lengthOf	`` , i64 u8x`// not a comment` ,MetaDataX pack// `tick` ""quote"" 'q'
`crlf
line`
, Logon charz `crlf
line`
    ,
    // a // b
    }
")).
Eval vm_compute in ("<<<M4236>>>" ++ check (runes_of_ascii "
packet
msg_type  // trailing space 
  { match	leftPad	as

float {
    3// packet A { u8 x, }
	:	repeatCount // trailing space 
  ,
[0123456789, 
	    // a // b
      3
, 10
,
    65535

    , // c
1 ] :Header

    , 
""{,}"" :packetx ,
	0	// @lengthOf(
:

    _x//	t
  , } , 
}")).
Eval vm_compute in ("<<<M3858>>>" ++ check (runes_of_ascii "options 
{	LittleEndian

    = true
    ;  }

    packet Logon {
u8
    x
,

string

    user	, }
	packet Logout{
u16 reason ,
}packet
	Empty { } 
root packet
    Frame
    {u16
	MsgType 
, 
@lengthOf(	Body )u8 BodyLen

, 
u8

flags
, Logon  Body
	,  u32
	trailer 
, } ")).
Eval vm_compute in ("<<<M4324>>>" ++ check (runes_of_ascii "MetaData i64_ {
    char[255] tag,
    uint32 Z9_,
    T options1 `a\`,
    options1 Pad,
    f32 leftPad `line1
    line2`,
}

options {
}

root packet uint8x {
    // `tick` ""quote"" 'q'
    @lengthOf(float)
    falsey int `
    `,
}

MetaData A {
    u8 Packet,
}")).
Eval vm_compute in ("<<<M1593>>>" ++ check (runes_of_ascii "root packet Foo // " ++ [128512]%N ++ runes_of_ascii " emoji
{ } options {
    // a // b
    tag // `tick` ""quote"" 'q'
= //	t
""""
    ; u8x = zchar[0  ] }
MetaData
    int {zchar[ 10]
lengthOf	`` , i64 u8x`// not a comment` ,MetaDataX pack// `tick` ""quote"" 'q'
`crlf
line`
, Logon charz")).
Eval vm_compute in ("<<<M47>>>" ++ check (runes_of_ascii "  root packet rootA { @leftPad
(
'\x00' // `tick` ""quote"" 'q'
) @lengthOf(
    crc ) @lengthOf( string_ ) uint16 Z9_ `
`	, @lengthOf( Z9_ )char[4294967296
    ]  zchar `say ""hi""` ,
    u, match
int as
    stringy {
3 :
    body, }
    ,	} 	 ")).
Eval vm_compute in ("<<<M3443>>>" ++ check (runes_of_ascii "// top
packet // c0a
  // c0b
B // c1a
  // c1b
{ u8 // c3a
  // c3b
a // c4
, string
    // c6
s , // c8
} // c9
root
    // c10
packet // c11
P // c12
{ u16 L @lengthOf( B ) , // c19
B // c20a
  // c20b
, u8
    // c22
t , } // c25
")).
Eval vm_compute in ("<<<M4050>>>" ++ check (runes_of_ascii "packet calculatedFrom {
    @lengthOf(zchar)
    char[] chars `line1
        line2`,
    string Logon @calculatedFrom(""it's""),
    matchKey `say ""hi""`,
    @lengthOf(T)
    x_y_z @calculatedFrom(""it's"") `// not a comment`,
}")).
Eval vm_compute in ("<<<M2343>>>" ++ check (runes_of_ascii "MetaData Packet { }packet	asx  { @lengthOf( asx) falsey`crlf
line`
,
    }
    packet x	{uint32// @lengthOf(
rootA	,u32 options1 `say ""hi""` , @tag( 7
    options// packet A { u8 x, }
msg_type @lengthOf(
stringy	)	, }

")).
Eval vm_compute in ("<<<M2313>>>" ++ check (runes_of_ascii "MetaData Packet { }packet	asx  { @lengthOf( asx) falsey`crlf
line`
,
    }
    packet x	{uint32// @lengthOf(
rootA	,@tag( options1 `say ""hi""` , @tag( 7
    )// packet A { u8 x, }
msg_type @lengthOf(
stringy	)	, }

")).
Eval vm_compute in ("<<<M2227>>>" ++ check (runes_of_ascii "MetaData Packet { packet}	asx  { @lengthOf( asx) falsey`crlf
line`
,
    }
    packet x	{uint32// @lengthOf(
rootA	,u32 options1 `say ""hi""` , @tag( 7
    )// packet A { u8 x, }
msg_type @lengthOf(
stringy	)	, }

")).
Eval vm_compute in ("<<<M2220>>>" ++ check (runes_of_ascii "MetaData Packet  }packet	asx  { @lengthOf( asx) falsey`crlf
line`
,
    }
    packet x	{uint32// @lengthOf(
rootA	,u32 options1 `say ""hi""` , @tag( 7
    )// packet A { u8 x, }
msg_type @lengthOf(
stringy	)	, }

")).
Eval vm_compute in ("<<<M1333>>>" ++ check (runes_of_ascii "options { BodyLength
=' ' zchar = true; calculatedFrom = float64
    T =  ' ' ; // c
}
packet i64_ {
    repeat zchar[
    3
] roots `say ""hi""`
    ,zchar[ 65535 ] Z9_ @lengthOf( msg_type
    ) `two words`, }
")).
Eval vm_compute in ("<<<M2315>>>" ++ check (runes_of_ascii "MetaData Packet { }packet	asx  { @lengthOf( asx) falsey`crlf
line`
,
    }
    packet x	{uint32// @lengthOf(
rootA	,u32  `say ""hi""` , @tag( 7
    )// packet A { u8 x, }
msg_type @lengthOf(
stringy	)	, }

")).
Eval vm_compute in ("<<<M4149>>>" ++ check (runes_of_ascii "
// top
	MetaData 

// c0
_x 
// c1

  {
	    // c2
    zchar[
	    // c3
    	4294967296  
  // c4
] 
    // c5
	lengthOf 
// c6
  `// not a comment`

    // c7
  , 
	// c8
    } 
    // c9")).
Eval vm_compute in ("<<<M1376>>>" ++ check (runes_of_ascii "packet _x
{ repeat packetx {match Pad
    as
// c
// a // b
roots {""// no comment"" :
    tag
,[ """ ++ [233]%N ++ runes_of_ascii "t" ++ [233]%N ++ runes_of_ascii """, ""\" ++ [233]%N ++ runes_of_ascii """
    ]:	As	,3	:  options1 ,3 : charz ,
    } , //
} , repeat
    Foo`line1
line2`, }")).
Eval vm_compute in ("<<<M1231>>>" ++ check (runes_of_ascii "packet
    T { @leftPad
( ' ' )
    // " ++ [27880; 37322]%N ++ runes_of_ascii "
    int32
// " ++ [27880; 37322]%N ++ runes_of_ascii "
// @lengthOf(
packetx
`" ++ [233]%N ++ runes_of_ascii "`
    ,uint16 MetaDataX
@lengthOf( asx
// packet A { u8 x, }
// a // b
)// `tick` ""quote"" 'q'
,
    }")).
Eval vm_compute in ("<<<M3470>>>" ++ check (runes_of_ascii "
packet
A { u8	a
	,
	} packet 
B 
{
u16 b	, } root packet
P  {
	u8
	K1

    ,

u8	K2 , match K1  as
M1
{1
    :A
, 
} ,	match K2 
as

    M2	{
1	:

    B,
	}
    , 
} ")).
Eval vm_compute in ("<<<M1382>>>" ++ check (runes_of_ascii "packet  crc {
@lengthOf(
    /// triple
    calculatedFrom
    /// triple
    ) i64_ {
uint64
    _x,
} ,
@rightPad( '0' )
uint8x ,
    // packet A { u8 x, }
    } 	 ")).
Eval vm_compute in ("<<<M3473>>>" ++ check (runes_of_ascii "
packet
    A

{u8
a

    ,}

packet
B

{u16 
b
,
    }

    root
    packet
P	{
u8 K
,match
	K  as 
M

    {
	1 :  A  ,	1

    :
    B ,
	}

    ,

}")).
Eval vm_compute in ("<<<M3793>>>" ++ check (runes_of_ascii "
root packet
    lengthOf  {
	char[
00 
]

    x
@lengthOf(
matchKey
)  , 

    //	t

	float64
	repeatCount	// c
  	,@lengthOf( 
zchar

)	char[] roots	,}")).
Eval vm_compute in ("<<<M833>>>" ++ check (runes_of_ascii "options{ options1	=""\" ++ [233]%N ++ runes_of_ascii """ x =u64 Z9_= '0' calculatedFrom=	char[] ; } root	packet trueish
    { } packet BodyLength
    { @leftPad ( )
u64 _x ,
    }
")).
Eval vm_compute in ("<<<M4023>>>" ++ check (runes_of_ascii "packet A {
    match k as n {
        [
            1, ""bb"", 007, ""d"", 5,
            ""f"", 7, ""h"", 9, ""j""
        ] : B,
        2 : C,
    },
}")).
Eval vm_compute in ("<<<M3907>>>" ++ check (runes_of_ascii "  options
	{
i8i8

=
char[]	;
}packet

    MetaDataX

{ 
@calculatedFrom( ""x y""

) 
int32
    T

    `" ++ [28040; 24687; 31867; 22411]%N ++ runes_of_ascii "`,  f64
matchKey ,
    }

")).
Eval vm_compute in ("<<<M143>>>" ++ check (runes_of_ascii "options { msg_type = 00 string_ =
// `tick` ""quote"" 'q'
// c
0 x
=
zchar[
255 ] ;leftPad =false ;f32a // @lengthOf(
=
007 ; // " ++ [27880; 37322]%N ++ runes_of_ascii "
}
")).
Eval vm_compute in ("<<<M3471>>>" ++ check (runes_of_ascii "packet A {
    u8 a,
}
packet B {
    u16 b,
}
root packet P {
    u8 K,
    match K as M {
        1 : A,
        1 : B,
    },
}
")).
Eval vm_compute in ("<<<M4476>>>" ++ check (runes_of_ascii "packet A {
    match k as n {
        [
            1, 22, 007, 4, 5,
            66, 7, 8
        ] : B,
        2 : C,
    },
}")).
Eval vm_compute in ("<<<M1736>>>" ++ check (runes_of_ascii "root packet /// triple
" ++ [252]%N ++ runes_of_ascii "ber {	i32
MetaDataX@calculatedFrom( ""CRC32"" ) `line1
line2` , } MetaData BodyLength {
u8
rootA, } // c")).
Eval vm_compute in ("<<<M4443>>>" ++ check (runes_of_ascii "packet
calculatedFrom 
{  @tag(

4294967296)	u

    msg_type
, char[3
	] crc
@lengthOf(
len )`u8 x,` 

    // c
    ,}
")).
Eval vm_compute in ("<<<M4510>>>" ++ check (runes_of_ascii "packet

A

    { Inner
	{ match
	k	as n{

    [	1

, 22
    ,

007 ,
    4

    ,  5 ,

66
,	7
] :
    B 
,}
,},} ")).
Eval vm_compute in ("<<<M1682>>>" ++ check (runes_of_ascii "root packet /// triple
rootA {	i32
MetaDataX@calculatedFrom( ""CRC32"" ) `line1
line2` , }  BodyLength {
u8
rootA, } // c")).
Eval vm_compute in ("<<<M4302>>>" ++ check (runes_of_ascii "options {
    // " ++ [27880; 37322]%N ++ runes_of_ascii "
    // trailing space 
    crc = '\x00'
}

packet len {
}

packet repeatCount {
}// trailing space ")).
Eval vm_compute in ("<<<M1792>>>" ++ check (runes_of_ascii "packet
    Pad // a // b
i8i8 { @calculatedFrom( ""a	b"") `u8 x,` ,
} options{ float// " ++ [128512]%N ++ runes_of_ascii " emoji
= f64 i64_
=//	t
00 }
")).
Eval vm_compute in ("<<<M1845>>>" ++ check (runes_of_ascii "packet
    Pad // a // b
{ i8i8 @calculatedFrom( ""a	b"") `u8 x,` ,
} options{ float// " ++ [128512]%N ++ runes_of_ascii " emoji
 f64 i64_
=//	t
00 }
")).
Eval vm_compute in ("<<<M1850>>>" ++ check (runes_of_ascii "packet
    Pad // a // b
{ i8i8 @calculatedFrom( ""a	b"") `u8 x,` ,
} options{ float// " ++ [128512]%N ++ runes_of_ascii " emoji
=  i64_
=//	t
00 }
")).
Eval vm_compute in ("<<<M1781>>>" ++ check (runes_of_ascii "
    Pad // a // b
{ i8i8 @calculatedFrom( ""a	b"") `u8 x,` ,
} options{ float// " ++ [128512]%N ++ runes_of_ascii " emoji
= f64 i64_
=//	t
00 }
")).
Eval vm_compute in ("<<<M1298>>>" ++ check (runes_of_ascii "root
    packet options1 { @calculatedFrom( """ ++ [128512]%N ++ runes_of_ascii """ ) u8x
@calculatedFrom( ""a\\""
/// triple
// @lengthOf(
) ,	}
")).
Eval vm_compute in ("<<<M3444>>>" ++ check (runes_of_ascii "
packet	B  { u8
    a	,	string s	, }
root packet

    P {	u16

L
	@lengthOf( B)	,
B,
u8
t
	,

    } ")).
Eval vm_compute in ("<<<M3343>>>" ++ check (runes_of_ascii "packet calculatedFrom { // c
@tag( 4294967296 ) u msg_type , char[ 3 ] crc @lengthOf( len ) `u8 x,` , }")).
Eval vm_compute in ("<<<M3450>>>" ++ check (runes_of_ascii "
options{

    FixedStringPadFromLeft

=

    true

; } root
	packet 
P{
    char[4
]z 
,

    } ")).
Eval vm_compute in ("<<<M2969>>>" ++ check (runes_of_ascii "packet A {
  match k as n {
    [""a"", 22, ""c c"", 4, ""e"", 66, ""g"", 8, ""i"", 10] : B,
    2 : C
  },
}")).
Eval vm_compute in ("<<<M4372>>>" ++ check (runes_of_ascii "
options

{ LittleEndian =	true ;

    }  root
	packet P

{  repeat
	char 
cs ,u8
    x ,
    }")).
Eval vm_compute in ("<<<M3219>>>" ++ check (runes_of_ascii "packet Logon
// c
{ @tag( 42 ) @rightPad ( ' ' ) @leftPad ( ) repeat trueish { string T , } , }")).
Eval vm_compute in ("<<<M3251>>>" ++ check (runes_of_ascii "packet Logon { @tag( 42 ) @rightPad ( ' ' ) @leftPad ( ) repeat trueish { string T
// c
, } , }")).
Eval vm_compute in ("<<<M4240>>>" ++ check (runes_of_ascii "packet crc {
    repeat int64 string_ `" ++ [28040; 24687; 31867; 22411]%N ++ runes_of_ascii "`,
}

root packet leftPad {
}

MetaData A {
}
// c")).
Eval vm_compute in ("<<<M2958>>>" ++ check (runes_of_ascii "packet A {
  match k as n {
    [1, 22, ""c c"", 4, 5, ""f"", 7, 8, ""i""] : B,
    2 : C
  },
}")).
Eval vm_compute in ("<<<M2964>>>" ++ check (runes_of_ascii "packet A {
  match k as n {
    [1, 22, 007, 4, 5, 66, 7, 8, 9, 10] : B
    2 : C
  },
}")).
Eval vm_compute in ("<<<M1004>>>" ++ check (runes_of_ascii "packet i64_	{
} MetaData metadata
    {int64 string_	`doc`  ,
}
    packet T{
    }
")).
Eval vm_compute in ("<<<M1998>>>" ++ check (runes_of_ascii "root
packet crc
    { f32a @calculatedFrom( """ ++ [233]%N ++ runes_of_ascii "t" ++ [233]%N ++ runes_of_ascii """ )
    ,`say ""hi""` lengthOf `` ,  }")).
Eval vm_compute in ("<<<M4404>>>" ++ check (runes_of_ascii "
MetaData
    stringy
    {  char[ 
0

]

    chars// @lengthOf(
  `{ , }`  ,  }
")).
Eval vm_compute in ("<<<M1976>>>" ++ check (runes_of_ascii "root
packet crc
    {  @calculatedFrom( """ ++ [233]%N ++ runes_of_ascii "t" ++ [233]%N ++ runes_of_ascii """ )
    `say ""hi""`, lengthOf `` ,  }")).
Eval vm_compute in ("<<<M3318>>>" ++ check (runes_of_ascii "packet o { @tag( 42 ) repeat x { char[ 0123456789 ] i64_ // c
, } , } options { }")).
Eval vm_compute in ("<<<M3611>>>" ++ check (runes_of_ascii "
packet  A {
    B	b 
`x
`

    ,
    B
`x
`
,
    repeat
	B bs
`x
`,
    } ")).
Eval vm_compute in ("<<<M3817>>>" ++ check (runes_of_ascii "packet A {
    B b `a
    b`,
    B `a
    b`,
    repeat B bs `a
    b`,
}")).
Eval vm_compute in ("<<<M4308>>>" ++ check (runes_of_ascii "packet A {
    match k as n {
        [1, ""bb""] : B,
        2 : C,
    },
}")).
Eval vm_compute in ("<<<M1072>>>" ++ check (runes_of_ascii "packet
    o {
@rightPad( )// trailing space 
x_y_z calculatedFrom , }

")).
Eval vm_compute in ("<<<M3457>>>" ++ check (runes_of_ascii "
root
	packet
	P 
{ u16  a, u32
Sum@calculatedFrom( ""CRC32""
    ) 
,  }")).
Eval vm_compute in ("<<<M3410>>>" ++ check (runes_of_ascii "MetaData _x { zchar[ 4294967296 ] lengthOf `// not a comment`
// c
, }")).
Eval vm_compute in ("<<<M2184>>>" ++ check (runes_of_ascii "root
    // `tick` ""quote"" 'q'
    packet As { trueish Packet u16 }
")).
Eval vm_compute in ("<<<M3455>>>" ++ check (runes_of_ascii "root packet P {
    u16 a,
    u32 Sum @calculatedFrom(""CRC32""),
}
")).
Eval vm_compute in ("<<<M939>>>" ++ check (runes_of_ascii "packet  metadata{ calculatedFrom Packet ,}
// packet A { u8 x, }
")).
Eval vm_compute in ("<<<M2869>>>" ++ check (runes_of_ascii "packet A {
  match k as n {
    [""a"", 22] : B,
    2 : C
  },
}")).
Eval vm_compute in ("<<<M3432>>>" ++ check (runes_of_ascii "root 
packet 
P

{

    hdr
{ 
u8
a  ,}
    ,
u8
x ,

}

")).
Eval vm_compute in ("<<<M4202>>>" ++ check (runes_of_ascii "MetaData M {
    u8 x `tab
    	x`,
    T t `tab
    	x`,
}")).
Eval vm_compute in ("<<<M2884>>>" ++ check (runes_of_ascii "packet A { Inner { match k as n { [1,22,007] : B, }, }, }")).
Eval vm_compute in ("<<<M1902>>>" ++ check (runes_of_ascii "
packet	{ As @calculatedFrom(//x
""{,}""	)lengthOf , } 	 ")).
Eval vm_compute in ("<<<M138>>>" ++ check (runes_of_ascii "MetaData
    /// triple
    falsey { uint16 Z9_ ,
}")).
Eval vm_compute in ("<<<M2403>>>" ++ check (runes_of_ascii "MetaData A
{ {
i64
chars	, } // `tick` ""quote"" 'q'")).
Eval vm_compute in ("<<<M3885>>>" ++ check (runes_of_ascii "  MetaData M

    {
	u8
x`
x`  ,T  t

`
x` , } ")).
Eval vm_compute in ("<<<M1773>>>" ++ check (runes_of_ascii "options { }options {  } // `tick` ""quote"" 'q'\ ")).
Eval vm_compute in ("<<<M2120>>>" ++ check (runes_of_ascii "MetaData x
{// " ++ [128512]%N ++ runes_of_ascii " emoji
i16 stringy stringy , }")).
Eval vm_compute in ("<<<M1747>>>" ++ check (runes_of_ascii "options { options {  } // `tick` ""quote"" 'q'")).
Eval vm_compute in ("<<<M4040>>>" ++ check (runes_of_ascii "
options {
	u8x 

    // c

=

    3
}
")).
Eval vm_compute in ("<<<M3018>>>" ++ check (runes_of_ascii "MetaData M {
    u8 x `
`,
    T t `
`,
}")).
Eval vm_compute in ("<<<M2761>>>" ++ check (runes_of_ascii "int8 @calculatedFrom( packet i32 ) as u8")).
Eval vm_compute in ("<<<M2138>>>" ++ check (runes_of_ascii "/MetaData x
{// " ++ [128512]%N ++ runes_of_ascii " emoji
i16 stringy , }")).
Eval vm_compute in ("<<<M2692>>>" ++ check (runes_of_ascii "JGdi0j'|Ze/o)f{H14^iRT3}Qq\} ;}&XD2>X=")).
Eval vm_compute in ("<<<M2850>>>" ++ check (runes_of_ascii "9h~{]Ry1}z""O-Eq~&O&et9""E9C]I0lrU:UOAN")).
Eval vm_compute in ("<<<M2776>>>" ++ check (runes_of_ascii "@rightPad char : = char packet true")).
Eval vm_compute in ("<<<M2814>>>" ++ check (runes_of_ascii "	" ++ [65533; 65533; 65533]%N ++ runes_of_ascii "Y" ++ [65533; 31; 65533; 65533]%N ++ runes_of_ascii "(" ++ [26]%N ++ runes_of_ascii "g" ++ [65533; 65533; 65533; 65533]%N ++ runes_of_ascii "-" ++ [567]%N ++ runes_of_ascii "q" ++ [65533; 65533; 4]%N ++ runes_of_ascii "G" ++ [65533]%N ++ runes_of_ascii "1" ++ [65533]%N ++ runes_of_ascii "/;D" ++ [65533]%N ++ runes_of_ascii "D" ++ [1; 65533]%N)).
Eval vm_compute in ("<<<M2096>>>" ++ check (runes_of_ascii "MetaData A { '\x01' u64 pack, }")).
Eval vm_compute in ("<<<M3083>>>" ++ check (runes_of_ascii "packet A {
 u8 x `d" ++ [5760]%N ++ runes_of_ascii "`, // c" ++ [5760]%N ++ runes_of_ascii "
}")).
Eval vm_compute in ("<<<M3892>>>" ++ check (runes_of_ascii "options {
    string_ = 007
}")).
Eval vm_compute in ("<<<M1985>>>" ++ check (runes_of_ascii "root
packet crc
    { f32a")).
Eval vm_compute in ("<<<M2094>>>" ++ check (runes_of_ascii "MetaData \ A { u64 pack, }")).
Eval vm_compute in ("<<<M2619>>>" ++ check (runes_of_ascii "packet A { @tag() u8 x, }")).
Eval vm_compute in ("<<<M2661>>>" ++ check (runes_of_ascii "options { a = char[x]; }")).
Eval vm_compute in ("<<<M2076>>>" ++ check (runes_of_ascii "MetaData A { u64 pack, ")).
Eval vm_compute in ("<<<M2398>>>" ++ check (runes_of_ascii "MetaData A
{
i64
chars")).
Eval vm_compute in ("<<<M3740>>>" ++ check (runes_of_ascii "options {
    a = 1
}")).
Eval vm_compute in ("<<<M2562>>>" ++ check (runes_of_ascii "packet A { repeat }")).
Eval vm_compute in ("<<<M1760>>>" ++ check (runes_of_ascii "options { }options")).
Eval vm_compute in ("<<<M3107>>>" ++ check (runes_of_ascii "// c" ++ [8239]%N ++ runes_of_ascii "
packet A {
}")).
Eval vm_compute in ("<<<M2732>>>" ++ check (runes_of_ascii " TdlH$1;l|=o#;&v&")).
Eval vm_compute in ("<<<M2651>>>" ++ check (runes_of_ascii "MetaData M M { }")).
Eval vm_compute in ("<<<M2627>>>" ++ check (runes_of_ascii "packet A { } }")).
Eval vm_compute in ("<<<M151>>>" ++ check (runes_of_ascii "options { }")).
Eval vm_compute in ("<<<M2479>>>" ++ check (runes_of_ascii "@leftPad(")).
Eval vm_compute in ("<<<M2740>>>" ++ check (runes_of_ascii "6g/cniK")).
Eval vm_compute in ("<<<M2429>>>" ++ check (runes_of_ascii "char_")).
Eval vm_compute in ("<<<M3110>>>" ++ check (runes_of_ascii "// c" ++ [8287]%N)).
Eval vm_compute in ("<<<M2544>>>" ++ check (runes_of_ascii "a
b")).
Eval vm_compute in ("<<<M2549>>>" ++ check (runes_of_ascii "a" ++ [8232]%N ++ runes_of_ascii "b")).
Eval vm_compute in ("<<<M2442>>>" ++ check (runes_of_ascii "u")).
