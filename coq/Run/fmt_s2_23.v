From FP Require Import Lexer Parser ShowPT Digest Formatter.
From Coq Require Import String List NArith.
Import ListNotations.
Open Scope string_scope.
Set Printing Width 100000000.
Set Printing Depth 100000000.
Definition show_fres (r : fres) : string :=
  match r with
  | FOk s => "OK:" ++ sh_escaped s ""
  | FErr s => "ERR:" ++ sh_escaped s ""
  | FPanic p => "PANIC:" ++ p
  end.
Definition check (rs : list rune) : string := digest (show_fres (format_res rs)).
Definition full (rs : list rune) : string := show_fres (format_res rs).
Eval vm_compute in ("<<<M3583>>>" ++ check (runes_of_ascii "options {
    LittleEndian = true;
    ArrayPrefixLenType = u8;
    FixedStringPadChar = '0';
    JavaPackage = ""com.example.msg"";
    GoPackage = ""msg"";
    GoModule = ""example.com/msg"";
}
MetaData Meta {
    u32 SeqNum `sequence number
more`,
    char[8] Symbol `symbol
more`,
    zchar[5] ZSym `z symbol
more`,
    string Note,
    Symbol AltSymbol `alias of symbol`,
    f64 Price,
}
packet Inner {
    u8 a,
    i16 b,
    string c,
}
packet Inner2 {
    u8 a2,
    char[3] c2,
}
packet Logon {
    u8 x,
    string user,
    repeat u16 codes,
}
packet Logout {
    u16 reason,
}
packet Empty {
}
root packet Msg {
    u8 su8,
    uint8 luint8,
    u16 su16,
    uint16 luint16,
    u32 su32,
    uint32 luint32,
    u64 su64,
    uint64 luint64,
    i8 si8,
    int8 lint8,
    i16 si16,
    int16 lint16,
    i32 si32,
    int32 lint32,
    i64 si64,
    int64 lint64,
    f32 sf32,
    float32 lfloat32,
    f64 sf64,
    float64 lfloat64,
    char[6] fsplain,
    @leftPad('0') char[4] fs0,
    @rightPad('0') char[5] fs1,
    @leftPad(' ') char[6] fs2,
    @rightPad(' ') char[7] fs3,
    @leftPad('\x00') char[8] fs4,
    @rightPad('\x00') char[9] fs5,
    @leftPad() char[10] fs6,
    @rightPad() char[11] fs7,
    zchar[7] fz,
    @leftPad('0') zchar[3] fzl0,
    string s1 `doc`,
    char[] s2,
    Inner,
    Sub {
        u8 q,
        string w,
        Deep {
            u16 z,
            repeat i32 zs,
        },
    },
    repeat u8 ru8,
    repeat u16 ru16,
    repeat u32 ru32,
    repeat u64 ru64,
    repeat i8 ri8,
    repeat i16 ri16,
    repeat i32 ri32,
    repeat i64 ri64,
    repeat f32 rf32,
    repeat f64 rf64,
    repeat string rstr,
    repeat char[] rstr2,
    repeat char[3] rfs,
    repeat zchar[3] rfz,
    repeat Inner2,
    repeat Grp {
        u8 k,
        char[2] v,
    },
    SeqNum,
    SeqNum seq2,
    repeat SeqNum seqs,
    Symbol,
    AltSymbol alt,
    ZSym,
    Note,
    repeat Symbol syms,
    Price px,
    u16 MsgType,
    u32 BodyLen @lengthOf(Body),
    match MsgType as Body {
        1 : Logon,
        [2, 3] : Logout,
        7 : Logon,
        9 : Empty,
    },
    u32 Checksum @calculatedFrom(""CRC32""),
}
")).
Eval vm_compute in ("<<<M838>>>" ++ check (runes_of_ascii "
packet roots { f64// a // b
len `crlf
line`	,@calculatedFrom(
""x y"" // trailing space 
) //x
u128 { match
roots as As { [""" ++ [233]%N ++ runes_of_ascii "t" ++ [233]%N ++ runes_of_ascii """ , 65535 ,007 ] :
    msg_type
4294967296:
Packet 42: As , ""// no comment"" : BodyLength
    65535 :int}
    ,} , @lengthOf(
int  )
char[ 0 ]
    Z9_ ,	repeat charz { zchar[0 ]	options1
    `line1
line2` //
, } , repeat char[] msg_type `
`	, @calculatedFrom( """" // c
)@rightPad (	) _x
len
``
,
}MetaData
Pad	{uint64 _x , } packet Foo {  @calculatedFrom(""a\""b""// 50% %s
) u16	asx
    `100% of %d`// `tick` ""quote"" 'q'
, @rightPad	('0' )
zchar[ 007] MetaDataX @lengthOf(
int )`line1
line2` ,A	@calculatedFrom( // `tick` ""quote"" 'q'
""" ++ [28040; 24687]%N ++ runes_of_ascii """)
    `// not a comment` ,  @rightPad ( )match	i8i8 as string_{ 255: i8i8, """ ++ [233]%N ++ runes_of_ascii "t" ++ [233]%N ++ runes_of_ascii """ :
As ,
42 :
T
    } , @calculatedFrom(
    ""abc"")
    @leftPad (
' ' ) @leftPad () // " ++ [27880; 37322]%N ++ runes_of_ascii "
float32 lengthOf , }root
packet tag// 50% %s
{ // a // b
char[
007	] MetaDataX @calculatedFrom(""packet"")
,@leftPad ( ) repeat u16	i64_
,
@rightPad (
    '0' ) repeat uint32 matchKey`crlf
line` , o { matchKey { repeat
    zchar[
    0123456789 ] BodyLength
, metadata , u@lengthOf( rootA //x
)
    `two words` , uint8 u128@lengthOf(
repeatCount )
`tab	here` , }
, match options1 as asx
{ [ ""\n"" ,	""\n"" ,
""abc"" , ""`tick`""
    ,
""x y""	, 1 //	t
, ""packet"" ]
:
    // c
    pack
255
// packet A { u8 x, }
/// triple
:
    u128 , [ ""\" ++ [233]%N ++ runes_of_ascii """  ,  ""packet"" ,255 , ""abc"" , ""a\\""
    // `tick` ""quote"" 'q'
    ]	: Z9_
}, falsey/// triple
{
match rootA	as u8x {[ ""a\\"" ] :
// `tick` ""quote"" 'q'
/// triple
T ,
["""" //
, //	t
""" ++ [128512]%N ++ runes_of_ascii """] :Pad, // " ++ [27880; 37322]%N ++ runes_of_ascii "
3:int 1
: // packet A { u8 x, }
leftPad , 10 : int }  ,
    }
    , } , repeat o matchKey ,
    } /// triple")).
Eval vm_compute in ("<<<M3727>>>" ++ check (runes_of_ascii "packet a1
    {

    repeat
char[
    007 
]

stringy, } 
packet
Foo{stringy

    ,
match	_x	as
    o{
    10 	 // " ++ [128512]%N ++ runes_of_ascii " emoji
  : 
a1
,	}
	,@leftPad
(

)
// 50% %s
  Pad
@calculatedFrom(

    ""// no comment"" //	t

	) ,  // 50% %s
  repeat
	a1 a1 `two words`

,

    i32

    falsey
`two words`

,
@calculatedFrom(	// trailing space 
  ""CRC32""
)

x@calculatedFrom(
	""\" ++ [233]%N ++ runes_of_ascii """ )
`u8 x,`
,
    repeat
uint8x  {

    u
{

char[]
	u128	// " ++ [27880; 37322]%N ++ runes_of_ascii "
  @lengthOf(

leftPad )
`{ , }` ,	roots , repeat

    u16	metadata
,  }	, }, 
zchar[  007

] BodyLength @calculatedFrom(
        // @lengthOf(
		// c
""a\\"" )  , // " ++ [27880; 37322]%N ++ runes_of_ascii "
  char[] o 
@lengthOf(f32a 
)	,

} root packet

    charz
    {@tag(
42
)
	rootA asx
	`
`
    ,a1 
{ u32

    stringy 
,
	float @calculatedFrom(  """ ++ [233]%N ++ runes_of_ascii "t" ++ [233]%N ++ runes_of_ascii """
)
`line1
line2`
    ,
    repeat repeatCount a1 ,  repeat msg_type

    `{ , }` 
, }	,

    u 
@calculatedFrom(""CRC32"")

    `line1
line2`,
    @lengthOf(
f32a
	)	match
// @lengthOf(

	//
    zchar as

    msg_type

    { [
    ""{,}""
	]: chars ""packet""
	:// " ++ [128512]%N ++ runes_of_ascii " emoji
    As , [1
,
    ""CRC32""	, ""a\""b"" , 	 // trailing space 
    0 
]
	:tag , },

    repeat float32
    tag `" ++ [233]%N ++ runes_of_ascii "` 	 //	t
	, @tag(	10

    )	string  string_  @calculatedFrom(""x y""

)
	`line1
line2`
    , @tag(

    4294967296 
)
repeat

char
o , 
        // c

repeat
    zchar[

42]

    msg_type `crlf
line`
	,
	char[ 42  ] /// triple
BodyLength 
@calculatedFrom(

    ""a	b""
)

    ,
	}

")).
Eval vm_compute in ("<<<M132>>>" ++ check (runes_of_ascii "root packet
rootA {len
chars `line1
line2` , @tag(
//	t
// trailing space 
3 ) @calculatedFrom(
""1"") u128 {
string matchKey	, } , Packet { zchar[7 ] falsey  ,
}	,
repeat
    uint32 uint8x ,	repeat
// 50% %s
//x
msg_type{zchar[ 0123456789]  msg_type @lengthOf( roots ) `a\`	, char[ 0 ]	As // packet A { u8 x, }
, } , f64
body
    , @leftPad(' '	) @lengthOf(
    o )	match x as
As //x
{
10 :
packetx """ ++ [128512]%N ++ runes_of_ascii """ :
    matchKey ,0 : T
    } // trailing space 
,@lengthOf(calculatedFrom) matchKey { repeat// 50% %s
char[
1
    ] matchKey//
`two words` ,	} , }
    root packet // a // b
falsey
{
    //
    char[007 ]leftPad `100% of %d` ,
repeat//	t
i32	tag`` ,
    @calculatedFrom(""a	b""
    ) @lengthOf( chars
)	repeat rootA `` ,
    @lengthOf( // c
crc //
) repeat Z9_ { repeat//x
int16
    rootA ,packetx @lengthOf(
    string_)`line1
line2`, repeat tag {
    char chars,u8
    metadata
, // c
float32 float
,
    match matchKey
// " ++ [27880; 37322]%N ++ runes_of_ascii "
//x
as// trailing space 
options1{ 007
: chars , } ,} , char[] float
    ,}, zchar[	0 ]u @lengthOf( stringy )
    `
` ,}packet T {
lengthOf @lengthOf( chars )
    `tab	here`,x_y_z
{	stringy @calculatedFrom(//x
""CRC32"" ) ,
} ,
} packet//	t
zchar// " ++ [27880; 37322]%N ++ runes_of_ascii "
{ @lengthOf(
    As) char[]
u ,@calculatedFrom(
    // c
    ""{,}"" )
i64 falsey `it's` ,
} packet float	{  }
")).
Eval vm_compute in ("<<<M4044>>>" ++ check (runes_of_ascii "packet u {
    i8i8 @lengthOf(rootA) `// not a comment`,
    @calculatedFrom(""" ++ [28040; 24687]%N ++ runes_of_ascii """)
    @tag(0123456789)
    @tag(7)
    tag @calculatedFrom(""`tick`"") `u8 x,`,
    match string_ as Pad {
        ""\" ++ [233]%N ++ runes_of_ascii """ : u,
        // 50% %s
        // a // b
        ""`tick`"" : leftPad,
        255 : metadata,
        //x
        // `tick` ""quote"" 'q'
        10 : Header,
        10 : msg_type,
        [""// no comment"", """", ""x y"", 0, ""// no comment""] : float,
    },
    @calculatedFrom("""")
    @calculatedFrom(""{,}"")
    Header {
        uint64 pack `" ++ [28040; 24687; 31867; 22411]%N ++ runes_of_ascii "`,
        leftPad {
            zchar[007] trueish @lengthOf(BodyLength),
            repeat lengthOf `
                        `,// trailing space 
            match Foo as Pad {
                ""\n"" : lengthOf,
                [""abc"", ""1""] : metadata,
                // packet A { u8 x, }
                65535 : zchar,
                [""abc"", 42] : string_,
                // c
                ""1"" : falsey,
            },
            char[65535] o,
        },
    },
}

options {
    // a // b
    lengthOf = true;
    rootA = true
    repeatCount = '\x00'
    A = false
}

options {
    u = ""packet""// " ++ [27880; 37322]%N ++ runes_of_ascii "
}

options {
    repeatCount = ""// no comment"";
}")).
Eval vm_compute in ("<<<M4282>>>" ++ check (runes_of_ascii "// top
options {
    // c1
    StringPrefixLenType = u64;
    // c5
    ArrayPrefixLenType = u8;
    FixedStringPadChar = '0';
    // c13
}

// c14
packet Logout {
    // c17
    char[] f1,
    repeat u64 Qty,// c24
    string Acct,
    // c27
    char[] Side2,
    // c30
    repeat i64 clOrdID,
}

packet Logon {
    i64 tag7,
    // c41
    Logout,// c43
    @rightPad('\x00')
    char[4] Qty,// c52a
    // c52b
    repeat char[4] venue,// c58a
    // c58b
    string seqNo,
}

// c62
packet Party {
    // c65
    Logon,// c67
    float32 x,
    uint32 price,
    // c73
    repeat string venue,
    repeat char[3] seqNo,
    // c83
}// c84a

// c84b
packet Leg {
    string Flags,
    // c90
    i32 Ref,
    repeat Logout,// c96a
    // c96b
    repeat u16 x,
    // c100
}

// c101
packet Cancel {
    // c104
    repeat Logon,// c107a
    // c107b
    int8 Ref,
    // c110
    Logout,
    // c112
    char[] OrderId,
    int16 Tail,
}

// c119
root packet Heartbeat {
    zchar[8] price,// c128
    repeat Logout,// c131
    Cancel,// c133
    char[] Qty,
    // c136
    int32 x,
    Leg,// c141
}// c142a
// c142b")).
Eval vm_compute in ("<<<M4275>>>" ++ check (runes_of_ascii "packet MetaDataX
    {

    }

packet  leftPad

{
repeat
Logon	{ asx {
	packetx
`say ""hi""`

    ,
match
	metadata
    as
chars
// trailing space 
	//	t

{  [
    7 ,255  ] :  falsey , 42 :  f32a 42
:
int  """ ++ [233]%N ++ runes_of_ascii "t" ++ [233]%N ++ runes_of_ascii """:

    u128 // a // b
    	,  }
,}
	,
    repeat
trueish
, string 
repeatCount

@lengthOf( x ) `doc` ,} ,
@rightPad
(	)
	zchar[ 3
    ]	// trailing space 

u128  `tab	here` ,@lengthOf(

    i64_  )
@calculatedFrom(
    ""abc""

) @lengthOf(  // 50% %s
  Z9_) int32 u8x
	`" ++ [28040; 24687; 31867; 22411]%N ++ runes_of_ascii "` 
,	@rightPad

( ) char[

00 ] roots	// `tick` ""quote"" 'q'
  	,	@rightPad (
'\x00' 
) @tag( 42
	)// trailing space 
@calculatedFrom(  ""a\""b"" )

    repeat asx
    `crlf
line`
	,
x
    @lengthOf(_x// `tick` ""quote"" 'q'

)	,

Logon	`
` ,@rightPad('0'
)
	As
    @lengthOf(crc )
    `" ++ [233]%N ++ runes_of_ascii "`,	@tag(	10 )
    int8

x_y_z 
@calculatedFrom( 
""" ++ [128512]%N ++ runes_of_ascii """
	)  , 
asx@lengthOf(

u8x
) ,} MetaData

    stringy

    {

int16
	repeatCount  `u8 x,`
, 
}	packet repeatCount {
@tag(7 
)
	repeat 
//	t
	// " ++ [27880; 37322]%N ++ runes_of_ascii "

  zchar[
65535
	]
    o 
,x_y_z

    charz ,

    } ")).
Eval vm_compute in ("<<<M1054>>>" ++ check (runes_of_ascii "
packet i8i8 { @tag(1) repeat	Packet
lengthOf ,string // trailing space 
repeatCount @calculatedFrom( ""a\""b""  )	`" ++ [28040; 24687; 31867; 22411]%N ++ runes_of_ascii "` ,string_ `line1
line2` ,
    i8i8
@calculatedFrom(
    ""\n"" ),
leftPad
@lengthOf(
packetx
    )`" ++ [233]%N ++ runes_of_ascii "` ,
    u8 x @calculatedFrom( //x
""\" ++ [233]%N ++ runes_of_ascii """ ) `tab	here` ,
@leftPad
    ( '0'  ) @tag( 7 )
    @rightPad (
    )
i8i8{ zchar , repeat u16 zchar	, asx
// " ++ [27880; 37322]%N ++ runes_of_ascii "
// " ++ [27880; 37322]%N ++ runes_of_ascii "
@lengthOf(
    chars )
    , repeat zchar[0123456789] // packet A { u8 x, }
rootA`doc` , //
} //x
,//
}
options
{As= 255 packetx // @lengthOf(
= """ ++ [128512]%N ++ runes_of_ascii """	; } packet crc{ @lengthOf(x) msg_type {u128 @lengthOf( x	), zchar[10 ]
    i64_
@lengthOf( options1 ) , char[	4294967296 // `tick` ""quote"" 'q'
] i64_ @calculatedFrom( ""packet""
) ,/// triple
char[
255]
    MetaDataX	@lengthOf( i64_
    // trailing space 
    )//x
, } , u16 x // @lengthOf(
, repeat
_x options1 ,@leftPad (
    '\x00') i8i8 @lengthOf( u8x )``,
}
options{BodyLength	= char[ // `tick` ""quote"" 'q'
255] stringy =
    // " ++ [128512]%N ++ runes_of_ascii " emoji
    007
;
}
")).
Eval vm_compute in ("<<<M3253>>>" ++ check (runes_of_ascii "// top
root
    // c0
packet // c1a
  // c1b
msg_type // c2a
  // c2b
{ // c3
i64 // c4
options1 // c5a
  // c5b
,
    // c6
@lengthOf( // c7a
  // c7b
f32a // c8
) // c9
repeat // c10
uint16
    // c11
Foo
    // c12
, // c13a
  // c13b
@calculatedFrom(
    // c14
""x y""
    // c15
) // c16a
  // c16b
repeat int64 // c18a
  // c18b
pack // c19a
  // c19b
, // c20a
  // c20b
@leftPad // c21
(
    // c22
' '
    // c23
) // c24a
  // c24b
uint8
    // c25
Foo , }
    // c28
packet rootA // c30a
  // c30b
{ // c31
f32a // c32a
  // c32b
x
    // c33
`" ++ [28040; 24687; 31867; 22411]%N ++ runes_of_ascii "` // c34
, char // c36
asx // c37a
  // c37b
@lengthOf(
    // c38
falsey // c39a
  // c39b
) // c40a
  // c40b
`` // c41a
  // c41b
, // c42
uint16 chars
    // c44
,
    // c45
@tag( // c46
0 // c47a
  // c47b
) // c48
string // c49a
  // c49b
_x // c50a
  // c50b
@calculatedFrom( ""abc""
    // c52
)
    // c53
`100% of %d`
    // c54
,
    // c55
} // c56a
  // c56b
")).
Eval vm_compute in ("<<<M4331>>>" ++ check (runes_of_ascii "packet
// c
Foo  // c
    { match // 50% %s
  float	as

    leftPad{ // " ++ [128512]%N ++ runes_of_ascii " emoji
	[  00 , ""`tick`"" ]: leftPad  
  // a // b
    /// triple

	,0

    //
    	// 50% %s
    :
	chars
, 
007

:
	Logon[

3
	]	:
body

    //	t
//
	,
[
10
]	: T
// " ++ [27880; 37322]%N ++ runes_of_ascii "

  , ""a	b""
:
	Z9_ , 
      // trailing space 

} , @lengthOf(	zchar 
)
i32

    trueish

    @lengthOf( a1 ) 
`it's`  ,

    @rightPad

    (

    ' '

    )	// a // b
  repeat
len
	{
match
pack
as	// packet A { u8 x, }
	  falsey
	{
""// no comment"" ://
    packetx  ""1""	:

//
    	// c
o

    ,  [
00,
	""{,}""]	//	t
    :
T

// " ++ [128512]%N ++ runes_of_ascii " emoji
// `tick` ""quote"" 'q'
  007
:

    // `tick` ""quote"" 'q'
    _x
    }  ,

}  ,
    match  options1 as rootA { ""a	b"" : MetaDataX
,	007 : 
calculatedFrom,
    // c
    //x
	""" ++ [233]%N ++ runes_of_ascii "t" ++ [233]%N ++ runes_of_ascii """
	: //
  lengthOf
    1
:
A
    ,	""a\\"": packetx
,

[""it's""	] :  body ,
    } ,

} packet	Header {
}
")).
Eval vm_compute in ("<<<M4334>>>" ++ check (runes_of_ascii "packet
rootA{
@tag(  10 
)
match	packetx // packet A { u8 x, }
as

    leftPad
{ 
7 :
	x //
,""abc"":	leftPad, ""x y""	:	Z9_// 50% %s
""""
	// @lengthOf(
  :Foo
    , } ,

    repeat
u64 u 
, repeat Packet{  f32

    uint8x ,repeat

    Packet

`{ , }`	,repeat	int16

chars

    `doc` // " ++ [128512]%N ++ runes_of_ascii " emoji
	,
	}
,
}

    root	packet	//
	x
	{

    @lengthOf(
calculatedFrom  
      // packet A { u8 x, }
  ) char[]

    falsey 
@lengthOf(asx )
    ,	match
	x_y_z as

    charz
{""\n""	:

    trueish
,
""// no comment"": 
u128 
,0123456789:Pad  ,
	} ,
	    // trailing space 
  // c
    	repeatCount
    @lengthOf(
	i8i8
    /// triple
		//x
	),	calculatedFrom

    @calculatedFrom( 
  // c
    """ ++ [233]%N ++ runes_of_ascii "t" ++ [233]%N ++ runes_of_ascii """)

,}options
    {
	body =
true

    ;
    f32a
=0123456789

len=
	""{,}"";
}
options  {}
MetaData
//x
    Logon

    {
    } ")).
Eval vm_compute in ("<<<M4479>>>" ++ check (runes_of_ascii "root packet Logon {
    @tag(7)
    zchar[1] matchKey `say ""hi""`,
    rootA `" ++ [233]%N ++ runes_of_ascii "`,
    match string_ as trueish {
        // trailing space 
        [4294967296] : BodyLength,
        // 50% %s
        7 : BodyLength,
        [""// no comment"", 65535, 42, ""it's"", ""\" ++ [233]%N ++ runes_of_ascii """] : len,
        [1, ""// no comment""] : matchKey,
        ""packet"" : Pad,
    },
    @tag(10)
    // 50% %s
    /// triple
    @rightPad('0')
    char[1] x_y_z @calculatedFrom(""" ++ [28040; 24687]%N ++ runes_of_ascii """) `" ++ [28040; 24687; 31867; 22411]%N ++ runes_of_ascii "`,
    repeat string i64_ `u8 x,`,
    char[] leftPad,
    @calculatedFrom(""" ++ [28040; 24687]%N ++ runes_of_ascii """)
    match Packet as chars {
        ""\" ++ [233]%N ++ runes_of_ascii """ : metadata,
    },
}

packet packetx {
    uint32 len @calculatedFrom(""" ++ [28040; 24687]%N ++ runes_of_ascii """) `tab	here`,
    @rightPad(' ')
    uint8 u128 `crlf
    line`,
    @rightPad('0')
    @lengthOf(zchar)
    @tag(3)
    string Logon,
    repeat int16 charz,
}")).
Eval vm_compute in ("<<<M2>>>" ++ check (runes_of_ascii "packet	string_
    { @calculatedFrom(
    """ ++ [128512]%N ++ runes_of_ascii """)zchar[
    3 ] packetx
,
}packet
//x
// trailing space 
MetaDataX{ x T, @leftPad  ( '\x00' )
/// triple
// packet A { u8 x, }
zchar[ // `tick` ""quote"" 'q'
10 ] leftPad
@lengthOf(
    chars
) `" ++ [233]%N ++ runes_of_ascii "` ,	}packet len {  @calculatedFrom( ""1"" )@tag(// `tick` ""quote"" 'q'
4294967296 ) leftPad , repeat i8i8 {string_ @lengthOf( rootA
    ) , }
, @lengthOf(
    leftPad )char
zchar ,
    @lengthOf(MetaDataX ) // 50% %s
@tag( 10) @rightPad	('0')options1 // " ++ [128512]%N ++ runes_of_ascii " emoji
matchKey `tab	here` ,@tag( 1 )//
repeat
    // packet A { u8 x, }
    float , }
    MetaData stringy { } packet packetx
{ @tag( // c
42
) @leftPad ( '0' )
int8 f32a ,@leftPad (	) @calculatedFrom(""a\""b"" ) @rightPad ('\x00' ) u16
    packetx@calculatedFrom(""it's"" )
, }
")).
Eval vm_compute in ("<<<M1256>>>" ++ check (runes_of_ascii "packet uint8x // " ++ [128512]%N ++ runes_of_ascii " emoji
{ }packet metadata {	} root packet float { @tag( 255 ) uint8 u128	@calculatedFrom(
    ""{,}""
) `line1
line2`
    ,A @lengthOf(
repeatCount
),A @calculatedFrom(
""" ++ [28040; 24687]%N ++ runes_of_ascii """) ,repeat Header { repeat zchar[ // `tick` ""quote"" 'q'
0 ] //
a1 `
`
,
    u8 calculatedFrom,i8i8 { // trailing space 
crc roots , x_y_z ,  } , repeat	u32// c
A ,} , char[] float `a\`, @lengthOf(
string_ )
match Foo
as  asx { [	0123456789, 65535,  ""\" ++ [233]%N ++ runes_of_ascii """ ] /// triple
:string_, 1 :
int// a // b
, ""it's"" :packetx, 255 :Logon, 1
: i64_
    ,1 /// triple
: calculatedFrom ,
} ,zchar[ 4294967296//x
] metadata`// not a comment` ,
// " ++ [128512]%N ++ runes_of_ascii " emoji
// a // b
}	options  {stringy =//	t
true
; matchKey= 00; rootA = '0' msg_type ='\x00'
; // a // b
}")).
Eval vm_compute in ("<<<M4025>>>" ++ check (runes_of_ascii "packet packetx {
    @calculatedFrom(""a\\"")
    T @calculatedFrom(""a\\"") `" ++ [28040; 24687; 31867; 22411]%N ++ runes_of_ascii "`,
}

packet charz {
    @rightPad()
    @lengthOf(msg_type)
    @tag(10)
    u64 Header @lengthOf(charz),
}

packet u {
    repeat lengthOf {
        matchKey @lengthOf(o) `tab	here`,
    },
    repeat u32 As `" ++ [28040; 24687; 31867; 22411]%N ++ runes_of_ascii "`,
    @tag(4294967296)
    @rightPad(' ')
    zchar[255] packetx @lengthOf(i64_) `100% of %d`,
    a1 x `
    `,
    u32 string_ @lengthOf(u),
    @tag(3)
    packetx @lengthOf(Packet) `u8 x,`,
    f32a @lengthOf(falsey),
    trueish {
        char[00] u128 ``,
        repeat charz,
        char[7] len `it's`,
        MetaDataX options1,
    },
    i64 Z9_,
    int32 Pad @lengthOf(Foo) `u8 x,`,
}")).
Eval vm_compute in ("<<<M4207>>>" ++ check (runes_of_ascii "options {
    u8x = '0';
    stringy = ""x y""
    lengthOf = true;//x
    _x = 007
    // trailing space 
    //
    A = '0';
}

root packet stringy {
    repeat uint16 len `tab	here`,
    @tag(7)
    @calculatedFrom(""" ++ [28040; 24687]%N ++ runes_of_ascii """)
    i16 msg_type `
        `,// a // b
    repeat repeatCount {
        repeat pack msg_type `tab	here`,
        match repeatCount as _x {
            ""`tick`"" : trueish,
            [""\n"", 65535, 255, ""abc"", 0123456789] : options1,
        },
    },
    @rightPad(' ')
    f64 Z9_,
    int32 BodyLength `two words`,
    @calculatedFrom(""a\\"")
    char[255] lengthOf,
    f64 Foo,
    char[1] Z9_,
    repeat roots uint8x,
}

packet Header {
}")).
Eval vm_compute in ("<<<M4460>>>" ++ check (runes_of_ascii "MetaData lengthOf {
    o falsey `u8 x,`,
    char[] u8x,
}

packet leftPad {
}

options {
    string_ = char[0123456789]
}

packet u {
    roots {
        char[0] leftPad,
        repeat i64 matchKey,
        repeat leftPad stringy ``,
        stringy @calculatedFrom(""x y"") `100% of %d`,
    },
    uint16 calculatedFrom,
    @calculatedFrom(""1"")
    repeat string i8i8,
    repeat matchKey `line1
    line2`,
    Pad @calculatedFrom("""") `u8 x,`,
    @tag(65535)
    repeat char[] asx `" ++ [28040; 24687; 31867; 22411]%N ++ runes_of_ascii "`,
    @tag(00)
    uint8x @calculatedFrom(""{,}""),
    chars _x,
    body `" ++ [28040; 24687; 31867; 22411]%N ++ runes_of_ascii "`,
    int64 Logon @calculatedFrom(""" ++ [233]%N ++ runes_of_ascii "t" ++ [233]%N ++ runes_of_ascii """),
}

packet Z9_ {
}
// " ++ [27880; 37322]%N)).
Eval vm_compute in ("<<<M912>>>" ++ check (runes_of_ascii "packet
    roots{ @tag( 65535) repeat
    // " ++ [27880; 37322]%N ++ runes_of_ascii "
    char[
    // @lengthOf(
    0123456789
]
Pad `tab	here`	, @tag( 255 ) // 50% %s
repeat crc , repeatCount { u @calculatedFrom(""\n""  ) /// triple
,
    Z9_
    @lengthOf(  asx )  , chars// " ++ [27880; 37322]%N ++ runes_of_ascii "
@calculatedFrom(
""a	b""
    ) , string uint8x @lengthOf( metadata
    )  ,
}
, @tag(
    42 ) uint16
    pack , } MetaData
    asx {
    } packet
    calculatedFrom { char[// trailing space 
10
] T// " ++ [128512]%N ++ runes_of_ascii " emoji
, @calculatedFrom(""it's"" ) @tag( 7  )
    A //x
@calculatedFrom(
    //x
    ""{,}"" ) `" ++ [233]%N ++ runes_of_ascii "`, u32
f32a @calculatedFrom( ""it's""// " ++ [27880; 37322]%N ++ runes_of_ascii "
) ,}
// packet A { u8 x, }
")).
Eval vm_compute in ("<<<M3432>>>" ++ check (runes_of_ascii "// top
packet
    // c0
Z9_
    // c1
{
    // c2
repeat
    // c3
int8
    // c4
T
    // c5
,
    // c6
}
    // c7
options
    // c8
{
    // c9
f32a
    // c10
=
    // c11
i16
    // c12
Packet
    // c13
=
    // c14
' '
    // c15
MetaDataX
    // c16
=
    // c17
""it's""
    // c18
;
    // c19
a1
    // c20
=
    // c21
""" ++ [233]%N ++ runes_of_ascii "t" ++ [233]%N ++ runes_of_ascii """
    // c22
;
    // c23
MetaDataX
    // c24
=
    // c25
""// no comment""
    // c26
}
    // c27
MetaData
    // c28
matchKey
    // c29
{
    // c30
zchar[
    // c31
1
    // c32
]
    // c33
MetaDataX
    // c34
,
    // c35
}
    // c36
")).
Eval vm_compute in ("<<<M31>>>" ++ check (runes_of_ascii "// packet A { u8 x, }
root
    // `tick` ""quote"" 'q'
    packet // 50% %s
lengthOf{ repeat
    int8
options1 ,string uint8x@lengthOf( len) `a\` , @lengthOf( //x
i8i8
) repeat int
    // " ++ [27880; 37322]%N ++ runes_of_ascii "
    len, @calculatedFrom( """ ++ [233]%N ++ runes_of_ascii "t" ++ [233]%N ++ runes_of_ascii """
) string	u8x@calculatedFrom( ""\n"" )
`it's`
// c
// @lengthOf(
, @leftPad
    ('0' )@calculatedFrom(
""CRC32"" )@leftPad /// triple
( )
i16 string_`" ++ [233]%N ++ runes_of_ascii "` ,
    @lengthOf( // `tick` ""quote"" 'q'
i64_  )uint8
Foo , @tag(
65535
    )
    // @lengthOf(
    rootA
`it's` ,}options{ leftPad =
""it's"" }  MetaData
x_y_z {string body,// c
}

")).
Eval vm_compute in ("<<<M478>>>" ++ check (runes_of_ascii "root
// " ++ [27880; 37322]%N ++ runes_of_ascii "
/// triple
packet
x{ float32 a1, match // `tick` ""quote"" 'q'
Logon
    as A
    { /// triple
""" ++ [128512]%N ++ runes_of_ascii """
    : f32a,	0: options1 ,
//
// packet A { u8 x, }
[ 0
    , 4294967296 ,65535 ,
    0
, 255,
    // 50% %s
    """ ++ [28040; 24687]%N ++ runes_of_ascii """
// trailing space 
// packet A { u8 x, }
,3 ,
007 ] :
Logon 0123456789 : BodyLength
    ,
// c
// c
} ,
int32 i64_@lengthOf(pack ) , match As
as
f32a{ 255 :stringy , 65535 :
i8i8 ,
// packet A { u8 x, }
/// triple
},	} MetaData int
    {
u64 f32a
, char[ 00
] options1 //x
, packetx lengthOf
, } // a // b")).
Eval vm_compute in ("<<<M3959>>>" ++ check (runes_of_ascii "options{LittleEndian

= 
true

;
ArrayPrefixLenType =  u32
	;  FixedStringPadFromLeft= 
true ;

    FixedStringPadChar
	='0'
; } packet

Party
{
}root
packet Heartbeat
{repeat string  Tail , InRef14
{
    InMsgkind17
	{int8
Flags 
,char[
    10 ]Acct
,  zchar[
4 ] sym ,i8
Px 
,	} , string
Px, }

    ,  uint16	seqNo

    ,
    int64	tag7
,
	u16

    Note

    ,

    u32
Px@lengthOf(

    Body) ,	match

Note as
    Body {

    96
:
Party
,}
,

    u16 Acct @calculatedFrom(  ""CRC32""	)

, }
")).
Eval vm_compute in ("<<<M558>>>" ++ check (runes_of_ascii "// c
MetaData x
{
falsey Logon `a\`,  char[]
a1 , crc A , }packet// trailing space 
Pad {
zchar[	4294967296	] x_y_z ``
, repeat
    matchKey{ zchar[ 007 ] len
, BodyLength { leftPad
a1 , crc i8i8	, uint64 len@lengthOf( o ) `line1
line2` ,}
,
    trueish , lengthOf calculatedFrom , } , @leftPad
    () u8x @calculatedFrom(
""" ++ [128512]%N ++ runes_of_ascii """  ) `line1
line2` , } packet asx {
float32
    Packet , @lengthOf(
    metadata ) repeat MetaDataX
    { f64
    // trailing space 
    Z9_ , }
    //x
    ,  }")).
Eval vm_compute in ("<<<M461>>>" ++ check (runes_of_ascii "packet u {Packet
,	int
    // trailing space 
    f32a`it's` , @lengthOf( lengthOf ) u64 Z9_
,repeat i64
    // @lengthOf(
    Packet ,@lengthOf( rootA
) @lengthOf( lengthOf
    )
// packet A { u8 x, }
// " ++ [27880; 37322]%N ++ runes_of_ascii "
char[]
    u8x @calculatedFrom(""abc""
) ,int {
    match
msg_type// a // b
as T {
    10 : Foo }	,
}
,
    @lengthOf(
    u128) @lengthOf(
o )
    charz msg_type
`u8 x,`,@rightPad( )repeat char[65535 ] Pad,
    @rightPad (
'0' ) o@lengthOf( u8x ) ,
} //x")).
Eval vm_compute in ("<<<M3551>>>" ++ check (runes_of_ascii "options {
    StringPrefixLenType = u8;
    ArrayPrefixLenType = u16;
    FixedStringPadChar = '0';
}
packet Fill {
    char[6] Acct,
    u64 venue,
}
root packet Logout {
    char[] Tail,
    repeat i8 f1,
    float64 msgKind,
    zchar[3] Note,
    uint64 count,
    @leftPad(' ') char[12] Px,
    u32 OrderId,
    u16 tag7 @lengthOf(Body),
    match OrderId as Body {
        [35, 107] : Fill,
    },
    u32 Ref @calculatedFrom(""CR\
C32""),
}
")).
Eval vm_compute in ("<<<M3431>>>" ++ check (runes_of_ascii "// top
packet // c0
Z9_ // c1
{ // c2
repeat // c3
int8 // c4
T // c5
, // c6
} // c7
options // c8
{ // c9
f32a // c10
= // c11
i16 // c12
Packet // c13
= // c14
' ' // c15
MetaDataX // c16
= // c17
""it's"" // c18
; // c19
a1 // c20
= // c21
""" ++ [233]%N ++ runes_of_ascii "t" ++ [233]%N ++ runes_of_ascii """ // c22
; // c23
MetaDataX // c24
= // c25
""// no comment"" // c26
} // c27
MetaData // c28
matchKey // c29
{ // c30
zchar[ // c31
1 // c32
] // c33
MetaDataX // c34
, // c35
} // c36
")).
Eval vm_compute in ("<<<M1379>>>" ++ check (runes_of_ascii "
packet i64_
{ match _x as f32a{ [ 1 , 007 ,
    // @lengthOf(
    ""packet"", ""\" ++ [233]%N ++ runes_of_ascii """
] :
    int ,
""1"" : Header [
    1]
    : u8x , 0123456789: falsey
[ 0123456789, 7
    , 3 , 1, 255
    // " ++ [128512]%N ++ runes_of_ascii " emoji
    , 3,
// " ++ [27880; 37322]%N ++ runes_of_ascii "
// " ++ [27880; 37322]%N ++ runes_of_ascii "
1 ] :	pack , } , }root packet Logon { match	i8i8 // @lengthOf(
as MetaDataX {
""// no comment"" :
x
[ 255]
    :
Logon
,""packet"":rootA ,	007
:
    packetx , 10// `tick` ""quote"" 'q'
:len	,  }
    , }
")).
Eval vm_compute in ("<<<M332>>>" ++ check (runes_of_ascii "options { a1 = false // c
}
packet lengthOf {
@leftPad() @tag(
1) char[ 0123456789 // trailing space 
] pack @lengthOf( BodyLength ) , uint8x { zchar[ 0 // " ++ [128512]%N ++ runes_of_ascii " emoji
] zchar // @lengthOf(
`u8 x,`,msg_type@lengthOf(
uint8x )
    `
` ,
repeat BodyLength `it's` , As rootA , } , repeat zchar
{
    repeat zchar[ 65535 ]
msg_type `a\` ,i8i8
@calculatedFrom(""it's""
    )
, }, i32 leftPad
`doc` // a // b
, }")).
Eval vm_compute in ("<<<M3629>>>" ++ check (runes_of_ascii "
//

	root  packet  Z9_

    { @tag(
    10
)

u32 A

    @lengthOf(  body	)
, 
@leftPad 
()zchar[
	3
] matchKey ,
repeat

    lengthOf	{

    u8
    asx // a // b

`two words`
    ,
    } ,

    @tag(

    0123456789 ) repeat

    //
  char[ 42
    ]

rootA
`say ""hi""`,
stringy
	`line1
line2`
    ,
	@leftPad // @lengthOf(
    ( ' '  )  repeat
    i32
trueish
,

} ")).
Eval vm_compute in ("<<<M3838>>>" ++ check (runes_of_ascii "

  packet
calculatedFrom

{// " ++ [128512]%N ++ runes_of_ascii " emoji

	@calculatedFrom( 
""a	b"" 
)
    repeat  int32
Header
// `tick` ""quote"" 'q'
	`a\`

,	}
packet
leftPad {@leftPad
( 
)  @tag(
65535  ) @rightPad
(	)

    repeat
    msg_type
,
string	charz
@calculatedFrom( ""// no comment""	) `100% of %d`,
Z9_ lengthOf  , @lengthOf(

i64_

    //
  ) char[
0 
] i8i8	@calculatedFrom(
""" ++ [128512]%N ++ runes_of_ascii """ ) , }
")).
Eval vm_compute in ("<<<M3456>>>" ++ check (runes_of_ascii "// top
packet // c0a
  // c0b
B
    // c1
{
    // c2
u8 // c3a
  // c3b
a ,
    // c5
} // c6a
  // c6b
root packet P // c9
{ // c10
u8 K
    // c12
,
    // c13
u64
    // c14
L
    // c15
@lengthOf( // c16
Body
    // c17
)
    // c18
, match // c20
K as
    // c22
Body { 1
    // c25
: // c26a
  // c26b
B // c27
,
    // c28
} ,
    // c30
} // c31
")).
Eval vm_compute in ("<<<M4151>>>" ++ check (runes_of_ascii "MetaData zchar {
    charz tag `say ""hi""`,
    char[10] string_,// 50% %s
    u16 u8x `100% of %d`,
    zchar[1] calculatedFrom `line1
        line2`,
    float32 string_ `" ++ [233]%N ++ runes_of_ascii "`,
}

packet Pad {
    char[007] As,
    As @calculatedFrom(""\" ++ [233]%N ++ runes_of_ascii """) `
        `,
    crc `100% of %d`,
    // c
    @tag(4294967296)
    @calculatedFrom(""" ++ [128512]%N ++ runes_of_ascii """)
    f32 u8x,
}")).
Eval vm_compute in ("<<<M3879>>>" ++ check (runes_of_ascii "root packet metadata {
    char[007] _x `a\`,
    match _x as Packet {
        [
            4294967296, ""a\""b"", ""{,}"", 0, """",
            65535
        ] : options1,
        [""abc""] : options1,
        [""it's"", """ ++ [233]%N ++ runes_of_ascii "t" ++ [233]%N ++ runes_of_ascii """, """ ++ [233]%N ++ runes_of_ascii "t" ++ [233]%N ++ runes_of_ascii """, ""a\\""] : len,
    },
    uint8 Z9_,
    As @calculatedFrom("""") `" ++ [28040; 24687; 31867; 22411]%N ++ runes_of_ascii "`,// @lengthOf(
    i64 As `" ++ [233]%N ++ runes_of_ascii "`,
}")).
Eval vm_compute in ("<<<M513>>>" ++ check (runes_of_ascii "
packet // c
repeatCount { match
    chars
as
u128{ // c
3  :
// @lengthOf(
// trailing space 
T , """ ++ [233]%N ++ runes_of_ascii "t" ++ [233]%N ++ runes_of_ascii """ :
    A ,// 50% %s
""a	b""
:  zchar
,
007
: Packet ,42:
// trailing space 
// `tick` ""quote"" 'q'
uint8x  }, @lengthOf( trueish) rootA `{ , }` , calculatedFrom @lengthOf(
T) , } MetaData	int { int16
len , }")).
Eval vm_compute in ("<<<M1371>>>" ++ check (runes_of_ascii "MetaData Header	{ u16 trueish `// not a comment` ,
zchar[ 255]
u128,_x x
    ,
// `tick` ""quote"" 'q'
// @lengthOf(
pack pack `" ++ [28040; 24687; 31867; 22411]%N ++ runes_of_ascii "`, char[]
    /// triple
    msg_type
, }
MetaData
repeatCount {
char[
    7
] /// triple
uint8x`u8 x,` , }options
{ zchar =
    // packet A { u8 x, }
    0123456789 }
")).
Eval vm_compute in ("<<<M322>>>" ++ check (runes_of_ascii "options { asx =' ' Header
    =uint16
    repeatCount =
""x y"" msg_type = 7
;	}
options {x_y_z=
    ""packet""packetx = ""`tick`"" ; rootA =""" ++ [128512]%N ++ runes_of_ascii """ ; } options
{ u128 =
char[ 42 ]
} options
{
u128 =i32 ; charz =
    // @lengthOf(
    true // " ++ [128512]%N ++ runes_of_ascii " emoji
; string_ =
    ' ' ;
    /// triple
    }

")).
Eval vm_compute in ("<<<M1957>>>" ++ check (runes_of_ascii "packet	packetx { // trailing space 
x_y_z
{
string
charz ,
string x// @lengthOf(
`two words`
    ,  u8x { // `tick` ""quote"" 'q'
charz `100% of %d` // packet A { u8 x, }
,}// " ++ [27880; 37322]%N ++ runes_of_ascii "
,} , }
    // a // b
    packet packet metadata {  @leftPad ( '0') repeat i32 options1 ,u64 uint8x , }
")).
Eval vm_compute in ("<<<M2038>>>" ++ check (runes_of_ascii "packet	packetx { // trailing space 
x_y_z
{
string
charz ,
string x// @lengthOf(
`two words`
    ,  u8x { // `tick` ""quote"" 'q'
charz `100% of %d` // packet A { u8 x, }
,}// " ++ [27880; 37322]%N ++ runes_of_ascii "
,} , }
    // a // b
    packet metadata {  '1'@leftPad ( '0') repeat i32 options1 ,u64 uint8x , }
")).
Eval vm_compute in ("<<<M2035>>>" ++ check (runes_of_ascii "packet	pa`cketx { // trailing space 
x_y_z
{
string
charz ,
string x// @lengthOf(
`two words`
    ,  u8x { // `tick` ""quote"" 'q'
charz `100% of %d` // packet A { u8 x, }
,}// " ++ [27880; 37322]%N ++ runes_of_ascii "
,} , }
    // a // b
    packet metadata {  @leftPad ( '0') repeat i32 options1 ,u64 uint8x , }
")).
Eval vm_compute in ("<<<M1968>>>" ++ check (runes_of_ascii "packet	packetx { // trailing space 
x_y_z
{
string
charz ,
string x// @lengthOf(
`two words`
    ,  u8x { // `tick` ""quote"" 'q'
charz `100% of %d` // packet A { u8 x, }
,}// " ++ [27880; 37322]%N ++ runes_of_ascii "
,} , }
    // a // b
    packet metadata @leftPad  { ( '0') repeat i32 options1 ,u64 uint8x , }
")).
Eval vm_compute in ("<<<M1986>>>" ++ check (runes_of_ascii "packet	packetx { // trailing space 
x_y_z
{
string
charz ,
string x// @lengthOf(
`two words`
    ,  u8x { // `tick` ""quote"" 'q'
charz `100% of %d` // packet A { u8 x, }
,}// " ++ [27880; 37322]%N ++ runes_of_ascii "
,} , }
    // a // b
    packet metadata {  @leftPad ( '0' repeat i32 options1 ,u64 uint8x , }
")).
Eval vm_compute in ("<<<M633>>>" ++ check (runes_of_ascii "options {A
    // 50% %s
    = '\x00'; } options {u = char repeatCount=
255
repeatCount = ""\" ++ [233]%N ++ runes_of_ascii """/// triple
;
    x
= ""CRC32"" }
    MetaData	MetaDataX { zchar[ 3 ]
    charz ,	Header
u8x ,// packet A { u8 x, }
string As , u128 body , options1
// a // b
// a // b
falsey ,  }
")).
Eval vm_compute in ("<<<M2195>>>" ++ check (runes_of_ascii "packet// packet A { u8 x, }
repeatCount	{// packet A { u8 x, }
@leftPad ( '\x00'
) repeat u8x MetaDataX `crlf
line`,
    repeat
    char[] MetaDataX
    ,
u64	uint8x@calculatedFrom(""a\""b""
// c
// packet A { u8 x, }
) `tab	here`
,//
}MetaData pack
    {
    @lengthOf }
")).
Eval vm_compute in ("<<<M309>>>" ++ check (runes_of_ascii "packet
    msg_type {} packet	trueish	{ repeat T
    { float64
body ,
options1 repeatCount `" ++ [28040; 24687; 31867; 22411]%N ++ runes_of_ascii "`
    ,
    } ,
match
chars as
    leftPad
    { [ 007 ]: string_ ,
    [ 7 ,  0 , 65535 ,""a\\""
, ""{,}""
]
    // c
    :  charz
    // " ++ [27880; 37322]%N ++ runes_of_ascii "
    , }
// " ++ [128512]%N ++ runes_of_ascii " emoji
// " ++ [27880; 37322]%N ++ runes_of_ascii "
, }")).
Eval vm_compute in ("<<<M2060>>>" ++ check (runes_of_ascii "packet// packet A { u8 x, }
repeatCount	{ {// packet A { u8 x, }
@leftPad ( '\x00'
) repeat u8x MetaDataX `crlf
line`,
    repeat
    char[] MetaDataX
    ,
u64	uint8x@calculatedFrom(""a\""b""
// c
// packet A { u8 x, }
) `tab	here`
,//
}MetaData pack
    {
    }
")).
Eval vm_compute in ("<<<M1313>>>" ++ check (runes_of_ascii "packet lengthOf { }
// " ++ [128512]%N ++ runes_of_ascii " emoji
/// triple
packet
    Packet
{@rightPad
    ('0' )@leftPad ('\x00' /// triple
)
match Logon  as
roots
{
""{,}"":u128 , } , leftPad  `" ++ [28040; 24687; 31867; 22411]%N ++ runes_of_ascii "` , } options {
Header
    = true } options{roots = int32 ; }	packet calculatedFrom {
    }")).
Eval vm_compute in ("<<<M2166>>>" ++ check (runes_of_ascii "packet// packet A { u8 x, }
repeatCount	{// packet A { u8 x, }
@leftPad ( '\x00'
) repeat u8x MetaDataX `crlf
line`,
    repeat
    char[] MetaDataX
    ,
u64	uint8x@calculatedFrom(""a\""b""
// c
// packet A { u8 x, }
) `tab	here`
,//
MetaData} pack
    {
    }
")).
Eval vm_compute in ("<<<M509>>>" ++ check (runes_of_ascii "//x
packet // c
zchar
    {
// " ++ [128512]%N ++ runes_of_ascii " emoji
// `tick` ""quote"" 'q'
string
    _x ,
    @lengthOf(
string_ )	a1
,char[]
// packet A { u8 x, }
// packet A { u8 x, }
leftPad ``,}
    packet
    charz{@leftPad ( ) falsey
//	t
// packet A { u8 x, }
`two words`,
}
")).
Eval vm_compute in ("<<<M1591>>>" ++ check (runes_of_ascii "packet calculatedFrom
{ @calculatedFrom( ""a\\"" ) zchar[ 4294967296 ]
calculatedFrom@lengthOf( pack )	`100% of %d` ,char[]body@calculatedFrom( ""// no comment"" )  ,
@tag( 007) //x
int8
leftPad`it's` , repeat pack
    { repeat char[ 3] @lengthOf(
,},
}")).
Eval vm_compute in ("<<<M1496>>>" ++ check (runes_of_ascii "packet calculatedFrom
{ @calculatedFrom( ""a\\"" ) zchar[ 4294967296 ]
calculatedFrom@lengthOf( pack )	`100% of %d` ,char[]options@calculatedFrom( ""// no comment"" )  ,
@tag( 007) //x
int8
leftPad`it's` , repeat pack
    { repeat char[ 3] body
,},
}")).
Eval vm_compute in ("<<<M371>>>" ++ check (runes_of_ascii "root
    packet
f32a { repeat int64 As , @tag(//	t
007	)
zchar {
char[ 007// a // b
]
    Header
, char[]
    i8i8 ,
} , @tag( 0)  char[]
    tag,  }
packet pack {
    }options { body= zchar[
4294967296 ];
roots = ""1""; x_y_z = char f32a
= 007; }
")).
Eval vm_compute in ("<<<M1440>>>" ++ check (runes_of_ascii "packet calculatedFrom
{ @calculatedFrom( ""a\\"" zchar[ ) 4294967296 ]
calculatedFrom@lengthOf( pack )	`100% of %d` ,char[]body@calculatedFrom( ""// no comment"" )  ,
@tag( 007) //x
int8
leftPad`it's` , repeat pack
    { repeat char[ 3] body
,},
}")).
Eval vm_compute in ("<<<M1606>>>" ++ check (runes_of_ascii "packet calculatedFrom
{ @calculatedFrom( ""a\\"" ) zchar[ 4294967296 ]
calculatedFrom@lengthOf( pack )	`100% of %d` ,char[]body@calculatedFrom( ""// no comment"" )  ,
@tag( 007) //x
int8
leftPad`it's` , repeat pack
    { repeat char[ 3] body
,}]
}")).
Eval vm_compute in ("<<<M1536>>>" ++ check (runes_of_ascii "packet calculatedFrom
{ @calculatedFrom( ""a\\"" ) zchar[ 4294967296 ]
calculatedFrom@lengthOf( pack )	`100% of %d` ,char[]body@calculatedFrom( ""// no comment"" )  ,
@tag( 007) //x
)
leftPad`it's` , repeat pack
    { repeat char[ 3] body
,},
}")).
Eval vm_compute in ("<<<M1541>>>" ++ check (runes_of_ascii "packet calculatedFrom
{ @calculatedFrom( ""a\\"" ) zchar[ 4294967296 ]
calculatedFrom@lengthOf( pack )	`100% of %d` ,char[]body@calculatedFrom( ""// no comment"" )  ,
@tag( 007) //x
int8
,`it's` , repeat pack
    { repeat char[ 3] body
,},
}")).
Eval vm_compute in ("<<<M1587>>>" ++ check (runes_of_ascii "packet calculatedFrom
{ @calculatedFrom( ""a\\"" ) zchar[ 4294967296 ]
calculatedFrom@lengthOf( pack )	`100% of %d` ,char[]body@calculatedFrom( ""// no comment"" )  ,
@tag( 007) //x
int8
leftPad`it's` , repeat pack
    { repeat char[ 3")).
Eval vm_compute in ("<<<M361>>>" ++ check (runes_of_ascii "MetaData
roots
{u8// c
float , charz Header , zchar[  007
    ] leftPad `" ++ [28040; 24687; 31867; 22411]%N ++ runes_of_ascii "` , zchar[ 42 ]
options1 `doc` , tag u,
As options1
, } packet matchKey{ } root packet _x {
char[] metadata
// c
// trailing space 
`a\`
, }
")).
Eval vm_compute in ("<<<M1567>>>" ++ check (runes_of_ascii "packet calculatedFrom
{ @calculatedFrom( ""a\\"" ) zchar[ 4294967296 ]
calculatedFrom@lengthOf( pack )	`100% of %d` ,char[]body@calculatedFrom( ""// no comment"" )  ,
@tag( 007) //x
int8
leftPad`it's` , repeat pack")).
Eval vm_compute in ("<<<M3815>>>" ++ check (runes_of_ascii "// top
MetaData metadata {
    // c2
}// c3

MetaData rootA {
    // c6
    i8 i64_,// c9
    roots options1 `a\`,// c13
    lengthOf Header,// c16
    Z9_ Foo,// c19
    int16 BodyLength,// c22
}// c23")).
Eval vm_compute in ("<<<M965>>>" ++ check (runes_of_ascii "MetaData crc // " ++ [27880; 37322]%N ++ runes_of_ascii "
{ u128
    //	t
    metadata
    `" ++ [28040; 24687; 31867; 22411]%N ++ runes_of_ascii "`, calculatedFrom body ,	repeatCount Header`a\`,float32 int  `u8 x,` ,string /// triple
Foo
, } //x
packet x {rootA calculatedFrom , }")).
Eval vm_compute in ("<<<M4045>>>" ++ check (runes_of_ascii "//x
packet zchar {
    // " ++ [128512]%N ++ runes_of_ascii " emoji
    // `tick` ""quote"" 'q'
    string _x,
    @lengthOf(string_)
    a1,
    char[] leftPad ``,
}

packet charz {
    @leftPad()
    falsey `two words`,
}")).
Eval vm_compute in ("<<<M271>>>" ++ check (runes_of_ascii "// trailing space 
root // packet A { u8 x, }
packet // trailing space 
zchar {// @lengthOf(
@calculatedFrom(
""packet"" )repeat char[
    7 ] _x , u32
crc ,
    }	packet	asx {}
")).
Eval vm_compute in ("<<<M3487>>>" ++ check (runes_of_ascii "packet A {
    u8 a,
}
packet B {
    u16 b,
}
root packet P {
    u8 K1,
    u8 K2,
    match K1 as M1 {
        1 : A,
    },
    match K2 as M2 {
        1 : B,
    },
}
")).
Eval vm_compute in ("<<<M2370>>>" ++ check (runes_of_ascii "
packet MetaDataX
{
    @leftPad @leftPad
( // a // b
'0'
) i8 u @lengthOf(
MetaDataX
    ) `say ""hi""` ,	} MetaData BodyLength {
    asx
x_y_z `" ++ [233]%N ++ runes_of_ascii "`
, uint64 u128 , }
")).
Eval vm_compute in ("<<<M1803>>>" ++ check (runes_of_ascii "options { } packet Packet{char[] i64_ ,
@tag(
    255) match
crc as i8i8{""{,}"" : trueish """" : Pad , ""a\\"" :
Foo ,
    1 :packetx
, """ ++ [128512]%N ++ runes_of_ascii """ : trueish trueish , } , }")).
Eval vm_compute in ("<<<M1090>>>" ++ check (runes_of_ascii "root
// @lengthOf(
// a // b
packet
    lengthOf { @tag(	3 // 50% %s
)@leftPad (
'\x00' // a // b
) asx{ zchar[ 0 ]
uint8x , zchar[ 255] float ,
} // " ++ [27880; 37322]%N ++ runes_of_ascii "
, }")).
Eval vm_compute in ("<<<M1683>>>" ++ check (runes_of_ascii "options { } packet Packet{char[] i64_ ,
@tag(
    255 255) match
crc as i8i8{""{,}"" : trueish """" : Pad , ""a\\"" :
Foo ,
    1 :packetx
, """ ++ [128512]%N ++ runes_of_ascii """ : trueish , } , }")).
Eval vm_compute in ("<<<M2380>>>" ++ check (runes_of_ascii "
packet MetaDataX
{
    @leftPad
( // a // b
'0'
) i8 u @lengthOf(
MetaDataX
    ) `say ""hi""` ,	} MetaData BodyLength {
    asx
x_y_z `" ++ [233]%N ++ runes_of_ascii "`
, uint64 u128 } ,
")).
Eval vm_compute in ("<<<M1813>>>" ++ check (runes_of_ascii "options { } packet Packet{char[] i64_ ,
@tag(
    255) match
crc as i8i8{""{,}"" : trueish """" : Pad , ""a\\"" :
Foo ,
    1 :packetx
, """ ++ [128512]%N ++ runes_of_ascii """ : trueish , } } , }")).
Eval vm_compute in ("<<<M1832>>>" ++ check (runes_of_ascii "options { } packet Packet{char[] ?i64_ ,
@tag(
    255) match
crc as i8i8{""{,}"" : trueish """" : Pad , ""a\\"" :
Foo ,
    1 :packetx
, """ ++ [128512]%N ++ runes_of_ascii """ : trueish , } , }")).
Eval vm_compute in ("<<<M1734>>>" ++ check (runes_of_ascii "options { } packet Packet{char[] i64_ ,
@tag(
    255) match
crc as i8i8{""{,}"" : trueish : """" Pad , ""a\\"" :
Foo ,
    1 :packetx
, """ ++ [128512]%N ++ runes_of_ascii """ : trueish , } , }")).
Eval vm_compute in ("<<<M1638>>>" ++ check (runes_of_ascii "options  } packet Packet{char[] i64_ ,
@tag(
    255) match
crc as i8i8{""{,}"" : trueish """" : Pad , ""a\\"" :
Foo ,
    1 :packetx
, """ ++ [128512]%N ++ runes_of_ascii """ : trueish , } , }")).
Eval vm_compute in ("<<<M1685>>>" ++ check (runes_of_ascii "options { } packet Packet{char[] i64_ ,
@tag(
    ;) match
crc as i8i8{""{,}"" : trueish """" : Pad , ""a\\"" :
Foo ,
    1 :packetx
, """ ++ [128512]%N ++ runes_of_ascii """ : trueish , } , }")).
Eval vm_compute in ("<<<M1637>>>" ++ check (runes_of_ascii "i32 { } packet Packet{char[] i64_ ,
@tag(
    255) match
crc as i8i8{""{,}"" : trueish """" : Pad , ""a\\"" :
Foo ,
    1 :packetx
, """ ++ [128512]%N ++ runes_of_ascii """ : trueish , } , }")).
Eval vm_compute in ("<<<M3621>>>" ++ check (runes_of_ascii "options {
    o = zchar[255];
    BodyLength = f32
    // packet A { u8 x, }
    // " ++ [27880; 37322]%N ++ runes_of_ascii "
    metadata = ""// no comment"";
    A = """ ++ [233]%N ++ runes_of_ascii "t" ++ [233]%N ++ runes_of_ascii """;
}// @lengthOf(")).
Eval vm_compute in ("<<<M1061>>>" ++ check (runes_of_ascii "MetaData f32a { }
    options { }
root
    packet
    chars {
@rightPad (
    '\x00' ) chars @lengthOf(falsey)
    ,char[
42 ] lengthOf
, } 	 ")).
Eval vm_compute in ("<<<M1806>>>" ++ check (runes_of_ascii "options { } packet Packet{char[] i64_ ,
@tag(
    255) match
crc as i8i8{""{,}"" : trueish """" : Pad , ""a\\"" :
Foo ,
    1 :packetx
, """ ++ [128512]%N ++ runes_of_ascii """ :")).
Eval vm_compute in ("<<<M3074>>>" ++ check (runes_of_ascii "packet A {
    u16 len @lengthOf(body) `100% of %s %d %v`,
    u32 crc @calculatedFrom(""CRC32"") `100% of %s %d %v`,
    string body,
}")).
Eval vm_compute in ("<<<M1390>>>" ++ check (runes_of_ascii "MetaData crc { // @lengthOf(
} root
packet
    f32a { @lengthOf( crc ) repeat i64_ { zchar[ 255] float // 50% %s
``
    , } ,  }")).
Eval vm_compute in ("<<<M3308>>>" ++ check (runes_of_ascii "MetaData metadata { } MetaData rootA { i8 i64_ , roots options1 `a\` , lengthOf Header , Z9_ Foo , int16 BodyLength , } // c
")).
Eval vm_compute in ("<<<M3287>>>" ++ check (runes_of_ascii "MetaData metadata { } MetaData rootA { i8 i64_ , roots options1 `a\`
// c
, lengthOf Header , Z9_ Foo , int16 BodyLength , }")).
Eval vm_compute in ("<<<M1497>>>" ++ check (runes_of_ascii "packet calculatedFrom
{ @calculatedFrom( ""a\\"" ) zchar[ 4294967296 ]
calculatedFrom@lengthOf( pack )	`100% of %d` ,char[]")).
Eval vm_compute in ("<<<M3014>>>" ++ check (runes_of_ascii "packet A {
  match k as n {
    [""a"", ""bb"", ""c c"", ""d"", ""e"", ""f"", ""g"", ""h"", ""i"", ""j"", ""k"", ""l""] : B
    2 : C
  },
}")).
Eval vm_compute in ("<<<M1827>>>" ++ check (runes_of_ascii "options { } packet Packet{char[] i64_ ,
@tag(
    255) match
crc as i8i8{""{,}"" : trueish """" : Pad , ""a\\"" :
Fo")).
Eval vm_compute in ("<<<M3326>>>" ++ check (runes_of_ascii "MetaData float { uint8 BodyLength // c
, } MetaData charz { float32 trueish `a\` , i16 metadata `say ""hi""` , }")).
Eval vm_compute in ("<<<M4194>>>" ++ check (runes_of_ascii "packet

    charz
    // 50% %s
	  // a // b

{ 
	// 50% %s
  @calculatedFrom(	"""" )

    pack 
,
    }
")).
Eval vm_compute in ("<<<M1915>>>" ++ check (runes_of_ascii "packet	packetx { // trailing space 
x_y_z
{
string
charz ,
string x// @lengthOf(
`two words`
    ,  u8x")).
Eval vm_compute in ("<<<M4509>>>" ++ check (runes_of_ascii "options { A  =true ;

}

packet len
{zchar[7	]
	Foo//	t
		@lengthOf(
BodyLength), 
zchar[10 ] int	,}")).
Eval vm_compute in ("<<<M4187>>>" ++ check (runes_of_ascii "options {
    A = true;
}

packet len {
    zchar[7] Foo @lengthOf(BodyLength),
    zchar[10] int,
}")).
Eval vm_compute in ("<<<M3081>>>" ++ check (runes_of_ascii "packet A {
    Inner {
        u8 x `%`,
        Deep {
            u8 y `%`,
        },
    },
}")).
Eval vm_compute in ("<<<M4159>>>" ++ check (runes_of_ascii "packet A {
    match k as n {
        [""a"", ""bb"", ""c c"", ""d"", ""e""] : B,
        2 : C,
    },
}")).
Eval vm_compute in ("<<<M2286>>>" ++ check (runes_of_ascii "MetaData _x {string na" ++ [239]%N ++ runes_of_ascii "ve `// not a comment` , string
i64_ // trailing space 
`a\` ,
    }
")).
Eval vm_compute in ("<<<M2284>>>" ++ check (runes_of_ascii "MetaData _x {string x `// not a comment` , string
i64_ // trailing space 
`a\` ,
    }
< ")).
Eval vm_compute in ("<<<M4095>>>" ++ check (runes_of_ascii "MetaData x_y_z {
    tag float `doc`,
    i16 _x `crlf
    line`,
    zchar[007] f32a,
}")).
Eval vm_compute in ("<<<M3214>>>" ++ check (runes_of_ascii "packet A { match k as n // a
 { // b
 1 // c
 : // d
 B // e
 , // f
 } // g
 , // h
 }")).
Eval vm_compute in ("<<<M285>>>" ++ check (runes_of_ascii "packet stringy{
@calculatedFrom(
""1"" ) zchar[ 0 ] body@calculatedFrom( ""a\""b""
) ,}")).
Eval vm_compute in ("<<<M2088>>>" ++ check (runes_of_ascii "packet// packet A { u8 x, }
repeatCount	{// packet A { u8 x, }
@leftPad ( '\x00'
)")).
Eval vm_compute in ("<<<M779>>>" ++ check (runes_of_ascii "  options {Logon = true ; As=3
;repeatCount
= """ ++ [233]%N ++ runes_of_ascii "t" ++ [233]%N ++ runes_of_ascii """ T = i8 ;
f32a=
f32 ;
    }
")).
Eval vm_compute in ("<<<M307>>>" ++ check (runes_of_ascii "root packet len// c
{
char[] repeatCount `{ , }`, repeat	char[42  ]
    u , }
")).
Eval vm_compute in ("<<<M2910>>>" ++ check (runes_of_ascii "packet A {
  match k as n {
    [""a"", ""bb"", ""c c"", ""d""] : B
    2 : C
  },
}")).
Eval vm_compute in ("<<<M3391>>>" ++ check (runes_of_ascii "MetaData _x { f64 charz `tab	here` , } options { BodyLength = """ ++ [233]%N ++ runes_of_ascii "t" ++ [233]%N ++ runes_of_ascii """ ;
// c
}")).
Eval vm_compute in ("<<<M2997>>>" ++ check (runes_of_ascii "packet A { Inner { match k as n { [1,22,007,4,5,66,7,8,9,10] : B, }, }, }")).
Eval vm_compute in ("<<<M2916>>>" ++ check (runes_of_ascii "packet A {
  match k as n {
    [1, 22, ""c c"", 4] : B
    2 : C
  },
}")).
Eval vm_compute in ("<<<M3405>>>" ++ check (runes_of_ascii "packet o
// c
{ @tag( 4294967296 ) options1 @lengthOf( u8x ) `" ++ [233]%N ++ runes_of_ascii "` , }")).
Eval vm_compute in ("<<<M2807>>>" ++ check (runes_of_ascii "f32 char[ uint32 root as @lengthOf( '\x00' 65535 as float64 i16 i64")).
Eval vm_compute in ("<<<M1155>>>" ++ check (runes_of_ascii "packet calculatedFrom { string
o	``
,
    body x_y_z,// a // b
}")).
Eval vm_compute in ("<<<M457>>>" ++ check (runes_of_ascii "packet leftPad{} packet charz
    { @rightPad ( '0'
)	tag
T ,}")).
Eval vm_compute in ("<<<M3061>>>" ++ check (runes_of_ascii "packet A {
    B b `
x`,
    B `
x`,
    repeat B bs `
x`,
}")).
Eval vm_compute in ("<<<M2747>>>" ++ check (runes_of_ascii "; packet , char char[ ] ) @calculatedFrom( ] string u64 :")).
Eval vm_compute in ("<<<M701>>>" ++ check (runes_of_ascii "MetaData x_y_z {char[] string_ ,  u128 stringy
, }
//
")).
Eval vm_compute in ("<<<M1880>>>" ++ check (runes_of_ascii "packet	packetx { // trailing space 
x_y_z
{
string")).
Eval vm_compute in ("<<<M2338>>>" ++ check (runes_of_ascii "
MetaData Pad{
u32 rootA `line1
line2` ~ ,
    }
")).
Eval vm_compute in ("<<<M4037>>>" ++ check (runes_of_ascii "root packet A {
    u8 x `a
        b
      c`,
}")).
Eval vm_compute in ("<<<M4230>>>" ++ check (runes_of_ascii "

  MetaData

    Pad
{	u32

rootA
,
    }

")).
Eval vm_compute in ("<<<M1163>>>" ++ check (runes_of_ascii "MetaData
    int // packet A { u8 x, }
{
}
")).
Eval vm_compute in ("<<<M673>>>" ++ check (runes_of_ascii "options { metadata
    =
    '\x00'  ; }

")).
Eval vm_compute in ("<<<M2289>>>" ++ check (runes_of_ascii "
 Pad{
u32 rootA `line1
line2` ,
    }
")).
Eval vm_compute in ("<<<M148>>>" ++ check (runes_of_ascii "options{ falsey
= // " ++ [128512]%N ++ runes_of_ascii " emoji
""it's"" }")).
Eval vm_compute in ("<<<M3864>>>" ++ check (runes_of_ascii "packet A {
    u8 x `a
        b`,
}")).
Eval vm_compute in ("<<<M2313>>>" ++ check (runes_of_ascii "
MetaData Pad{
u32 rootA  ,
    }
")).
Eval vm_compute in ("<<<M3964>>>" ++ check (runes_of_ascii "packet

A {u8 x `d" ++ [8239]%N ++ runes_of_ascii "`, 	 // c" ++ [8239]%N ++ runes_of_ascii "
	} ")).
Eval vm_compute in ("<<<M2676>>>" ++ check (runes_of_ascii "options { a = 1; b = 2 c = 3;; }")).
Eval vm_compute in ("<<<M3131>>>" ++ check (runes_of_ascii "packet A {
 u8 x `d" ++ [8192]%N ++ runes_of_ascii "`, // c" ++ [8192]%N ++ runes_of_ascii "
}")).
Eval vm_compute in ("<<<M2670>>>" ++ check (runes_of_ascii "MetaData M { @tag(1) u8 x, }")).
Eval vm_compute in ("<<<M634>>>" ++ check (runes_of_ascii "packet
    rootA
{
    }
")).
Eval vm_compute in ("<<<M2758>>>" ++ check (runes_of_ascii "i64 o u8 ""a\\"" ' ' string")).
Eval vm_compute in ("<<<M805>>>" ++ check (runes_of_ascii "packet
    u{ // " ++ [27880; 37322]%N ++ runes_of_ascii "
}
")).
Eval vm_compute in ("<<<M2716>>>" ++ check (runes_of_ascii "i32 float64 options ]")).
Eval vm_compute in ("<<<M2233>>>" ++ check (runes_of_ascii "MetaData _x {string")).
Eval vm_compute in ("<<<M3110>>>" ++ check (runes_of_ascii "// c" ++ [12288]%N ++ runes_of_ascii "
packet A {
}")).
Eval vm_compute in ("<<<M3211>>>" ++ check (runes_of_ascii "packet A { // a
 }")).
Eval vm_compute in ("<<<M3147>>>" ++ check (runes_of_ascii "packet A {
}// c" ++ [8239]%N)).
Eval vm_compute in ("<<<M2513>>>" ++ check (runes_of_ascii "@calculatedFrom")).
Eval vm_compute in ("<<<M2690>>>" ++ check (runes_of_ascii "options A { }")).
Eval vm_compute in ("<<<M2816>>>" ++ check ([65533; 65533; 65533; 65533; 65533; 65533]%N ++ runes_of_ascii "U" ++ [65533; 65533]%N ++ runes_of_ascii "^T")).
Eval vm_compute in ("<<<M2485>>>" ++ check (runes_of_ascii "metadata")).
Eval vm_compute in ("<<<M4243>>>" ++ check (runes_of_ascii "
// c" ++ [12288]%N)).
Eval vm_compute in ("<<<M2460>>>" ++ check (runes_of_ascii "uint8")).
Eval vm_compute in ("<<<M644>>>" ++ check (runes_of_ascii "  
")).
Eval vm_compute in ("<<<M390>>>" ++ check (runes_of_ascii "

")).
Eval vm_compute in ("<<<M2852>>>" ++ check (runes_of_ascii ";[" ++ [65533]%N)).
Eval vm_compute in ("<<<M2516>>>" ++ check (runes_of_ascii "/")).
