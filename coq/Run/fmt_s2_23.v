From FP Require Import Lexer Parser ShowPT Digest Formatter.
From Coq Require Import String List NArith.
Import ListNotations.
Open Scope string_scope.
Set Printing Width 100000000.
Set Printing Depth 100000000.
Definition show_fres (r : fres) : string :=
  match r with
  | FOk s => "OK:" ++ sh_escaped s ""
  | FErr s => "ERR:" ++ sh_escaped s ""
  | FPanic p => "PANIC:" ++ p
  end.
Definition check (rs : list rune) : string := digest (show_fres (format_res rs)).
Definition full (rs : list rune) : string := show_fres (format_res rs).
Eval vm_compute in ("<<<M32>>>" ++ check (runes_of_ascii "packet Logon{
f32a
// " ++ [27880; 37322]%N ++ runes_of_ascii "
// " ++ [128512]%N ++ runes_of_ascii " emoji
@lengthOf(
x ) `u8 x,` ,
@calculatedFrom(
    // `tick` ""quote"" 'q'
    ""a\""b"" // trailing space 
) @rightPad( '0'
)repeat int8
u128`doc` , match packetx //x
as
a1 { [
    // " ++ [27880; 37322]%N ++ runes_of_ascii "
    65535, """ ++ [128512]%N ++ runes_of_ascii """ ]
: packetx	,00 : x
,
// c
// @lengthOf(
} ,
    @calculatedFrom(""" ++ [28040; 24687]%N ++ runes_of_ascii """ )match
leftPad as lengthOf /// triple
{ 0
: packetx, [
    ""{,}"" // `tick` ""quote"" 'q'
,  0,
""CRC32"" , 4294967296
]
    :
    // @lengthOf(
    int
, """ ++ [28040; 24687]%N ++ runes_of_ascii """:A, [ 7
, 0  ,
""abc"" ,""CRC32"" ,""x y""// c
,
    //	t
    255
// a // b
// " ++ [27880; 37322]%N ++ runes_of_ascii "
, 007
, 1 // @lengthOf(
]	: _x } ,matchKey@lengthOf(tag ) , string BodyLength
    @calculatedFrom( ""packet""	)
/// triple
// a // b
, As @lengthOf(i8i8 ) `a\`
,int16 A@lengthOf( tag ) `// not a comment`
// " ++ [128512]%N ++ runes_of_ascii " emoji
//
,
}
MetaData metadata
//	t
// " ++ [128512]%N ++ runes_of_ascii " emoji
{
u32
// c
// a // b
a1 ,  u16 BodyLength `tab	here` // " ++ [128512]%N ++ runes_of_ascii " emoji
, int8
lengthOf// " ++ [27880; 37322]%N ++ runes_of_ascii "
,
    // " ++ [128512]%N ++ runes_of_ascii " emoji
    trueish x_y_z ,charz leftPad //
,} MetaData leftPad {	} packet rootA
{ match
    x
as
    int
    {0123456789// `tick` ""quote"" 'q'
: u8x
    ,
    0123456789
    :  tag
    ,	} , @lengthOf(A )
repeat
f32 body `a\` ,// trailing space 
i64	rootA
    // packet A { u8 x, }
    , @tag(007 ) match // @lengthOf(
Logon as metadata
    {
[""a	b"", // `tick` ""quote"" 'q'
65535
, ""abc"", 3 ,
10 , ""\" ++ [233]%N ++ runes_of_ascii """
]
    // packet A { u8 x, }
    :u128, 7
: // packet A { u8 x, }
zchar, 7 : stringy
    , 007
    :  string_ , """" : //x
a1 , }
,// c
i8
lengthOf// trailing space 
, float64 pack @calculatedFrom(""" ++ [128512]%N ++ runes_of_ascii """
) ,  repeatCount @calculatedFrom(
""// no comment"") , float // c
string_ , @leftPad // c
(
    '0' ) @calculatedFrom( ""a	b"" )@calculatedFrom( ""\" ++ [233]%N ++ runes_of_ascii """ ) // `tick` ""quote"" 'q'
match
    Logon as
    // @lengthOf(
    msg_type {	255 : roots, 255: x_y_z
// c
// packet A { u8 x, }
,	""it's""  :
len,[00 ,
    // packet A { u8 x, }
    42
    , ""\n"" ,007
    , ""1""
,//
""a\\"" , ""a\\""] :
f32a [
    42,	""a	b""
/// triple
//
]  :
    Header, [ """" , ""\" ++ [233]%N ++ runes_of_ascii """// `tick` ""quote"" 'q'
]
    : //
tag , } , // packet A { u8 x, }
int , }
    options // c
{uint8x = // @lengthOf(
""\n"" ;}
")).
Eval vm_compute in ("<<<M1094>>>" ++ check (runes_of_ascii "packet/// triple
u128 {@calculatedFrom(
""" ++ [128512]%N ++ runes_of_ascii """ )
/// triple
// c
i64 charz `tab	here` ,
    @lengthOf(
Header ) float32 a1@calculatedFrom(""" ++ [128512]%N ++ runes_of_ascii """) , repeat string a1
`it's`
    , @tag( 42
) @tag(
7 )zchar stringy ,
float32	calculatedFrom `
`,} MetaData x{ // " ++ [27880; 37322]%N ++ runes_of_ascii "
Header x_y_z`
` ,int64
options1
`it's`, char[]
chars, u16 options1
,u16 calculatedFrom `tab	here` // `tick` ""quote"" 'q'
, char[	0123456789 ] u , } root packet uint8x { @rightPad (	'\x00')
    char[	7]asx , int64
Pad @lengthOf(
As)`crlf
line`, msg_type  @calculatedFrom(
    ""`tick`"" ) ,
@calculatedFrom(// a // b
""a\\"" ) @rightPad ( ' '
    )repeatCount	`line1
line2`
, @tag(3 ) int32 As `two words`
,@tag( 1) @calculatedFrom( ""`tick`""  ) @lengthOf( f32a )match zchar
as u {0123456789: leftPad	""\" ++ [233]%N ++ runes_of_ascii """:  _x  , 7 : MetaDataX
, [ 4294967296 ]
:	stringy, 7:uint8x } ,@leftPad (
    ) string Foo
@lengthOf(MetaDataX ) ``, //
match calculatedFrom as A
{ [ 255
, 7 ,
1
, //x
1
    , 42,007 ,
007
    ]: A , [// `tick` ""quote"" 'q'
""a\\"",	""it's"",""1""
,	00 ,
    """ ++ [128512]%N ++ runes_of_ascii """,
""{,}"" ,
42]
:
    calculatedFrom	, ""it's""	:
    f32a ,
},
repeat char[]
i8i8,  leftPad
    ,
} packet _x { char[] Z9_  ,
int64 options1
    @calculatedFrom( """"// trailing space 
)`u8 x,`
,
    // `tick` ""quote"" 'q'
    @calculatedFrom( ""// no comment"" ) match tag
    as roots { [ // packet A { u8 x, }
""abc"" ] : options1	65535: o,	""// no comment"" : f32a// c
,""packet""
:uint8x ,  } ,  leftPad@calculatedFrom(""" ++ [233]%N ++ runes_of_ascii "t" ++ [233]%N ++ runes_of_ascii """ ) ,
    repeat x
    ,zchar[ 65535
] float `line1
line2` , i16 uint8x,	zchar[ 10
] uint8x // packet A { u8 x, }
,
@calculatedFrom(""abc"") repeat	x
{ trueish
    `tab	here`
,
}	, @tag( 1
) char[ 3 ]
// packet A { u8 x, }
// a // b
metadata`say ""hi""` , }
")).
Eval vm_compute in ("<<<M622>>>" ++ check (runes_of_ascii "
packet
    Logon {
@tag( 007 )  packetx {
    charz
    @calculatedFrom( ""\n"") , } , } packet u128
    { @calculatedFrom( ""1""
//x
// packet A { u8 x, }
)_x@calculatedFrom( """" ) ,} options { matchKey= 0123456789 ; len = ""1"" ;//x
Z9_= 255  Packet= '\x00' // `tick` ""quote"" 'q'
}	root packet// packet A { u8 x, }
Z9_ {
@calculatedFrom(
//
// trailing space 
""" ++ [233]%N ++ runes_of_ascii "t" ++ [233]%N ++ runes_of_ascii """ ) char[ 00 ]x_y_z @lengthOf( T )// c
,As @lengthOf(
    asx ) `tab	here` , x matchKey `{ , }`	, @leftPad ( )  @rightPad
    () @lengthOf(a1 )float
@lengthOf( o )`doc`
, } root packet int
// `tick` ""quote"" 'q'
// c
{@lengthOf(BodyLength ) repeat //
zchar[
42]
u8x
    `tab	here`
,
@leftPad  (
    ' ' ) @calculatedFrom(""a\\"") repeat  char[
    007
// a // b
//	t
] matchKey `tab	here` , Header @lengthOf( A ), repeat roots { repeat u
    // @lengthOf(
    { match calculatedFrom as o {
    255
:metadata } , match
BodyLength as o {""a	b"" :lengthOf // @lengthOf(
, },string	uint8x , // c
char[]
    lengthOf// " ++ [27880; 37322]%N ++ runes_of_ascii "
,}
    , match asx as
    pack {
    00
:metadata
// `tick` ""quote"" 'q'
// @lengthOf(
,
[""1"", ""abc"" , """ ++ [28040; 24687]%N ++ runes_of_ascii """
    ,255
    ,	4294967296 , 65535,
255, // a // b
255  ]: //x
o ,
[ 00
    ,""it's""	, 3
/// triple
// c
,""" ++ [128512]%N ++ runes_of_ascii """ // " ++ [27880; 37322]%N ++ runes_of_ascii "
]:calculatedFrom , [
00,
""{,}""
    ] : matchKey ,	""abc""
// trailing space 
//x
: // @lengthOf(
u ""x y"" : i8i8 // " ++ [27880; 37322]%N ++ runes_of_ascii "
, }, }, crc @lengthOf(
leftPad ) `{ , }` , stringy @calculatedFrom( ""x y"" ) `// not a comment` , uint16 calculatedFrom , }
")).
Eval vm_compute in ("<<<M558>>>" ++ check (runes_of_ascii "// " ++ [27880; 37322]%N ++ runes_of_ascii "
packet int {
@tag( // a // b
0)@rightPad ('0')@calculatedFrom(
""CRC32"" ) zchar[ 10 ]
    //x
    float ,
    char[
1 // " ++ [27880; 37322]%N ++ runes_of_ascii "
]float `
`, int8
i64_ @lengthOf( // packet A { u8 x, }
u128 )
    `{ , }` ,  uint32 rootA , float32 _x , u8 T `` , MetaDataX
x
    `it's` , char[] calculatedFrom , // @lengthOf(
uint64
    // a // b
    i8i8`// not a comment`	,
    } MetaData lengthOf {
// trailing space 
// `tick` ""quote"" 'q'
leftPad leftPad ,u32 a1 `it's` , Pad Packet ,//	t
uint8x leftPad,  falsey roots`// not a comment`
    , }
packet A { calculatedFrom @calculatedFrom( ""CRC32"" ) `` ,repeat matchKey {
    string
chars`two words` , // trailing space 
stringy @calculatedFrom( //	t
""1""),
// @lengthOf(
// " ++ [128512]%N ++ runes_of_ascii " emoji
} // c
, // packet A { u8 x, }
match trueish as float
/// triple
// " ++ [27880; 37322]%N ++ runes_of_ascii "
{  3:int /// triple
[
    // trailing space 
    """ ++ [233]%N ++ runes_of_ascii "t" ++ [233]%N ++ runes_of_ascii """  ,	""\n"" ]: Logon// @lengthOf(
, 7: metadata ,
007 :
    //
    u, },  @lengthOf(  body )char[]Logon //
`tab	here` , // trailing space 
@calculatedFrom( ""\" ++ [233]%N ++ runes_of_ascii """ )  charz// c
@lengthOf( i64_  ), repeat  i64 f32a
    ,repeat
u32	Foo `
` , @calculatedFrom(""1"" )
    repeat int	{repeat trueish
{ // trailing space 
repeat f64 Foo ,  },
} ,// c
char[]	matchKey @lengthOf(
x_y_z) , @rightPad
    ( ) repeat int64
As //	t
,}
")).
Eval vm_compute in ("<<<M4126>>>" ++ check (runes_of_ascii "options

{

    Pad //x
    	=
"""" ; 	 // trailing space 
zchar =char[65535
]
    Foo// c
    	=
1

    ;}
packet
    asx
	{
	repeat char u128 

    // " ++ [27880; 37322]%N ++ runes_of_ascii "
    //x
    ,

i16 Pad
, x
    @lengthOf(

Packet ) `
` ,

@tag( 10
	)repeat  float32 
i64_
    `// not a comment`
, 
@calculatedFrom(""""

) @calculatedFrom(  """" )@calculatedFrom( ""it's""

)
	repeat BodyLength
    Foo
`` ,/// triple
    matchKey
As	`say ""hi""`
,
@rightPad (	' '

    )	i8i8

    BodyLength

`" ++ [233]%N ++ runes_of_ascii "`
, } 
packet
	Pad {

@tag(
    10)
match o// a // b
		as
zchar { [

""abc""

    ]
:

i8i8
    ,""// no comment"" :	T ,

} 
,  u128
	f32a

`{ , }`

    ,
    @rightPad (
	)

    float64

Packet
@lengthOf(chars
    )
    `it's`,	@rightPad
(

    '0'/// triple
	) repeat zchar Packet `" ++ [28040; 24687; 31867; 22411]%N ++ runes_of_ascii "`
	,

@tag(

00 
// a // b
  /// triple
    	) 
@rightPad('0')
	match
	u
	as	pack
    {
""" ++ [28040; 24687]%N ++ runes_of_ascii """	:	repeatCount

""abc""

    :  Foo

    7
    : A 
,
""\" ++ [233]%N ++ runes_of_ascii """  // packet A { u8 x, }

  :	_x  ,
    } ,
As

@lengthOf(int )
        //
	// " ++ [128512]%N ++ runes_of_ascii " emoji
  ,
    char[
7 ] rootA @lengthOf(

    leftPad)

`{ , }`
, 
repeat
    f64

    x  ,  @calculatedFrom(  """ ++ [128512]%N ++ runes_of_ascii """) char[]
    u128
,

    }
")).
Eval vm_compute in ("<<<M4284>>>" ++ check (runes_of_ascii "packet Logon	{@leftPad ( '0' 
)@calculatedFrom(
""CRC32"")
match x_y_z
as calculatedFrom
	{
[ 
    // trailing space 
      // " ++ [128512]%N ++ runes_of_ascii " emoji

  65535 , 
10

    ]

    :
    asx
0	:
    BodyLength, 
} 
//
		// a // b
, @lengthOf(
metadata )
int16 leftPad

    , match

charz  as
	i8i8 {	[
    65535 // a // b
    ]:
    repeatCount 
,

""CRC32"":

Packet ,
	""a\""b""
    :Z9_
	,  00: falsey  ,
7:
falsey	,

} , // " ++ [27880; 37322]%N ++ runes_of_ascii "
@lengthOf(

body )
i32
	i8i8 `two words`
, @calculatedFrom(

""`tick`""
    )body	{  zchar[
	0  ]
    BodyLength `doc`
,

    u `
` 
,  } , 
@tag(
    0123456789

    )
@leftPad

    ( '\x00'  ) @calculatedFrom(

""a	b"" ) match 
As
as 
x_y_z  {
""" ++ [128512]%N ++ runes_of_ascii """
:

i64_

    ,0123456789 : Foo ,
	65535
: matchKey	,

65535

:	lengthOf 4294967296// a // b

: f32a
,}
, zchar[  0 ]  string_@lengthOf( packetx
)`" ++ [233]%N ++ runes_of_ascii "`

,	@calculatedFrom( 
""x y""

    )
    BodyLength {
char[

    1	]
	int
,f32a
	,
repeat
	Pad
tag `say ""hi""`
,} ,  
  //x

	zchar[ 
        // `tick` ""quote"" 'q'

0 ]  Foo
@calculatedFrom( ""// no comment"")

, @tag(
00)u16
roots	`it's` , 
} root

    packet
	roots {

}")).
Eval vm_compute in ("<<<M729>>>" ++ check (runes_of_ascii "
MetaData
charz{
zchar[  3 ]Z9_ ,u8 a1
    ,
repeatCount metadata ,
}options
// trailing space 
// @lengthOf(
{ u
=zchar[ 0123456789 ]; } //
options
    //
    { T = 1	;
    }
packet
_x { a1 @lengthOf(	falsey  ) ,
    @leftPad(
// packet A { u8 x, }
// trailing space 
'\x00'
) @leftPad ( '0' ) @leftPad //
( '0' ) repeat f32
Header
    `{ , }` ,@tag(
    3	) o { repeat
    //
    f32a {
    repeat //	t
string o , Pad
@lengthOf(stringy	)`u8 x,`, repeat zchar
A
    ,	repeat i8i8 ,
}
,
uint8x
    @lengthOf(zchar  )`two words` , match asx	as repeatCount { 255 :
    u128 , ""`tick`"" //	t
:calculatedFrom""\" ++ [233]%N ++ runes_of_ascii """ :
    zchar
    , 1 :f32a,
    4294967296:  u128 ,""// no comment""  :Pad,} ,} , @tag( 255
) // c
chars { As Z9_
    `u8 x,`,}
    ,  @leftPad	(
'\x00' )match uint8x as uint8x {""a\""b"": // " ++ [27880; 37322]%N ++ runes_of_ascii "
charz , } , len @lengthOf(	i8i8 ) ,}
    options { a1 =
//x
// trailing space 
1
pack = // " ++ [27880; 37322]%N ++ runes_of_ascii "
false /// triple
; // trailing space 
Z9_ =
// " ++ [27880; 37322]%N ++ runes_of_ascii "
// `tick` ""quote"" 'q'
' 'pack=
// packet A { u8 x, }
// trailing space 
0123456789 }
")).
Eval vm_compute in ("<<<M3561>>>" ++ check (runes_of_ascii "  options
	//
// packet A { u8 x, }
  {  MetaDataX
	=
    '0';

Logon  = false ;

    int  //	t
    =
'0'_x= 
// trailing space 
  //	t
	""x y"" 

//	t
		/// triple

;
    }
packet tag {  @tag( 	 /// triple
10 )
    repeat
	msg_type
	,match x
as 
Foo	{""x y""
: body  ,  },
@tag(
0) repeat char[

7 ]options1
    , repeat
	falsey {int8  options1 ,i8i8`crlf
line` , u16// " ++ [27880; 37322]%N ++ runes_of_ascii "

  f32a
@calculatedFrom( 
""// no comment""	// @lengthOf(
)  ,}

    ,@calculatedFrom( 
""{,}""	// " ++ [128512]%N ++ runes_of_ascii " emoji
    )

    uint32	repeatCount
,
    msg_type
@calculatedFrom( ""it's"" 
)  //
	`crlf
line`  , @tag(	// `tick` ""quote"" 'q'
  00	) match 
T
as  options1
	{
    4294967296
	:

    repeatCount

, }  , 
      // @lengthOf(
//	t
} 

// trailing space 
MetaData msg_type{	Foo  u  ,
char[] Pad	`
`	,
BodyLength

As  ,

    char[
    007 ]
calculatedFrom /// triple
	`a\`,

    //x
  } MetaData	msg_type

{	}
    packet trueish

    {T
// a // b
@lengthOf(
	pack 
)`crlf
line` ,  } ")).
Eval vm_compute in ("<<<M3647>>>" ++ check (runes_of_ascii "packet o

{	// trailing space 
  body
    {	string options1	@lengthOf(
	int
    ), 
	// " ++ [27880; 37322]%N ++ runes_of_ascii "
	repeat	u {match
    tag  as BodyLength

    {
	[

    """ ++ [128512]%N ++ runes_of_ascii """

,	/// triple

	""`tick`""
, 
    // @lengthOf(
  ""packet""  ,

    ""a\\""

    ,

    65535  ,
	0123456789	// trailing space 
	]:
	u 
	    // `tick` ""quote"" 'q'
	// c
  	""a\\""

:rootA,
	""" ++ [128512]%N ++ runes_of_ascii """
	:
	Foo
3

    : 
uint8x,	}
,

match leftPad

    as	// `tick` ""quote"" 'q'

	a1

    {
1
:  //	t
	  Header,  }  , },
} ,	chars

    ,
repeatCount body  
      //	t
	// " ++ [128512]%N ++ runes_of_ascii " emoji
		`a\`

,
} packet	metadata  {	@rightPad

('0' 	 // " ++ [27880; 37322]%N ++ runes_of_ascii "
)
    @leftPad
(//x
  	'0')@calculatedFrom(	""packet"" )	match
	o 
as

Logon { """"
:
    A	, [  007 	 // c
		,  7 ,
	1
,	""""	// trailing space 
,
	42	,	""a	b"" ]
: 
A""it's""
	: _x ,

    },
	@lengthOf(  //x
Header

)
    char[3
]i8i8  @lengthOf(int
    ) 
,
char[]Packet
@calculatedFrom(""a	b"")	,

    leftPad,}
    packet
charz

{
	} ")).
Eval vm_compute in ("<<<M307>>>" ++ check (runes_of_ascii "options {
    string_	= zchar[ 00
    ]
;}
    packet falsey { @lengthOf( float	) string o // c
,repeat msg_type , match MetaDataX as _x
    { 3: Pad ,
    }, leftPad@lengthOf(i8i8 //
) , @tag(
0123456789
    )
    i16 Packet `
`
,o pack `tab	here` ,zchar[ 10
] int
    , int16 Foo
//	t
// " ++ [128512]%N ++ runes_of_ascii " emoji
@calculatedFrom(
    ""CRC32"" )
`u8 x,` , match f32a as	u8x
{[ ""{,}""] : T, [ ""1""
, 65535 ,3 , 0 ,/// triple
""`tick`""
    , 0123456789 ,""" ++ [128512]%N ++ runes_of_ascii """ , ""a\\"" ] :uint8x  , 255 : a1  , ""a	b""	: falsey """ ++ [28040; 24687]%N ++ runes_of_ascii """ : x
    // " ++ [128512]%N ++ runes_of_ascii " emoji
    , //	t
[
    ""packet""
// c
//	t
,3
    ]
:
int , } ,
repeat Foo /// triple
{  zchar[1
]body ``  , roots
    rootA ,	char[ 0] rootA `doc`, }	,
    }// `tick` ""quote"" 'q'
options{
    } options { Header = int16
; roots = false ; repeatCount/// triple
=
    uint8; stringy
=	""x y"" ;leftPad = ""it's"";
    } MetaData u {	string_// trailing space 
Header
, zchar[ 3 ] i64_, }
")).
Eval vm_compute in ("<<<M1159>>>" ++ check (runes_of_ascii "root packet T
    {
@tag(0
// c
// `tick` ""quote"" 'q'
)
u64
int
// `tick` ""quote"" 'q'
//
, match rootA as BodyLength { ""it's"" : o , 10: int // a // b
, ""packet"" : string_, [""abc"" // `tick` ""quote"" 'q'
, 3
    ,
    0123456789 ,
    007 ,7 , //
3
    ,007
    ] : int,
    } , match i64_ as
// packet A { u8 x, }
// trailing space 
options1
    { 0123456789
: zchar , 00  :pack, } ,match
// c
// packet A { u8 x, }
zchar as
options1 {
    ""it's""
:matchKey  , ""1"" :// `tick` ""quote"" 'q'
u128
,  ""`tick`""  :
    trueish
    // packet A { u8 x, }
    255 // " ++ [27880; 37322]%N ++ runes_of_ascii "
:
crc
    , }  ,  } packet Z9_
// `tick` ""quote"" 'q'
// packet A { u8 x, }
{ BodyLength@calculatedFrom(
// " ++ [27880; 37322]%N ++ runes_of_ascii "
// " ++ [27880; 37322]%N ++ runes_of_ascii "
""x y"" ) `" ++ [28040; 24687; 31867; 22411]%N ++ runes_of_ascii "`
, @lengthOf( metadata// packet A { u8 x, }
) repeat i8i8
    zchar
`" ++ [28040; 24687; 31867; 22411]%N ++ runes_of_ascii "` ,zchar[
255  ] uint8x,
int8 Z9_@calculatedFrom(
    """" ) , } // packet A { u8 x, }")).
Eval vm_compute in ("<<<M4090>>>" ++ check (runes_of_ascii "options {
    LittleEndian = false;
    StringPrefixLenType = u16;
    ArrayPrefixLenType = u64;
    FixedStringPadFromLeft = true;
    FixedStringPadChar = ' ';
}

packet Logon {
    u16 Tail,
    repeat string x,
    i16 count,
    @leftPad('0')
    char[3] Note,
}

packet Fill {
}

packet Heartbeat {
}

packet Reject {
    string msgKind,
    repeat Logon,
    InFlags25 {
        repeat InPrice29 {
            u8 price,
            Logon,
            repeat char[1] Note,
        },
        char[] x,
        Fill,
    },
    repeat Heartbeat,
}

root packet Order {
    InNote88 {
        repeat i32 Acct,
        repeat i16 clOrdID,
        repeat Logon,
    },
    u16 tag7,
    match tag7 as Body {
        [14, 22] : Logon,
        55 : Heartbeat,
        93 : Reject,
        13 : Fill,
    },
}")).
Eval vm_compute in ("<<<M708>>>" ++ check (runes_of_ascii "  packet roots {
    @calculatedFrom(
    ""CRC32"" // " ++ [128512]%N ++ runes_of_ascii " emoji
) @tag(
    42
    )  Z9_ leftPad `line1
line2`
, @lengthOf( string_) @lengthOf(
Packet )	@calculatedFrom(  ""// no comment""
    )
repeat
chars len , @tag( //x
42 )
@tag( 3 )u8 u128 @lengthOf(	A
) , char T ,@lengthOf(
    charz )// `tick` ""quote"" 'q'
zchar lengthOf, repeat zchar[ 00 ] A
    ,char[ 4294967296 ] leftPad
`u8 x,` , @tag( 4294967296
    ) @tag(
    //	t
    007)
    repeat char[
    65535 ]
float
// packet A { u8 x, }
//
`two words`
    , } packet crc {msg_type @lengthOf(chars	) , string//	t
chars
@lengthOf(
u128 ) ,int64 Header ,match lengthOf//	t
as pack { [ 255
,
""packet"" ]
// c
// " ++ [27880; 37322]%N ++ runes_of_ascii "
:i64_// packet A { u8 x, }
,//x
1: u }
, trueish @lengthOf( packetx
) , charz @lengthOf( packetx), }
")).
Eval vm_compute in ("<<<M4350>>>" ++ check (runes_of_ascii "  options
    { LittleEndian
=false

; 
StringPrefixLenType

=
    u16; ArrayPrefixLenType

= u32
    ; }

    packet
Order

{  uint8

x,
repeat  string
	venue
    ,
}
    packet

Heartbeat

    {
    i64
    count,zchar[
1 ]
Qty  ,repeat

InX29 {
InSeqno26 
{ int64 f1,	char[

5

    ]Acct

,Order , }
    ,  repeat

InSide285
    {
	repeat	Order	,
	char[
	10  ] Px

, zchar[

9	]
    OrderId,
}	,	char[] venue ,	Order 
, 
} ,
    @rightPad
    (
'\x00'
    ) 
char[
	4
    ]	clOrdID
,}root packet	Party 
{

    zchar[  3
]
f1 ,

u32 clOrdID
,u32

    Px @lengthOf(	Body
	)
, match 
clOrdID

as

    Body {
[
	180

    ,

    64
]  :
Heartbeat
,
	11
	:	Order,
}
	,  u32  Side2
@calculatedFrom( 
""CRC32"")
,} ")).
Eval vm_compute in ("<<<M696>>>" ++ check (runes_of_ascii "
MetaData
packetx { }
    MetaData _x { char[ 255] string_
, int32	trueish  `u8 x,` ,}
packet
    //	t
    asx{x_y_z, @calculatedFrom( ""it's"" )
match // a // b
Pad
as falsey {
[ ""`tick`"" ,	7 , """ ++ [28040; 24687]%N ++ runes_of_ascii """
,
    """ ++ [233]%N ++ runes_of_ascii "t" ++ [233]%N ++ runes_of_ascii """ , ""a\\""
,
// " ++ [27880; 37322]%N ++ runes_of_ascii "
//x
3
,
    // " ++ [27880; 37322]%N ++ runes_of_ascii "
    65535 ]:// " ++ [128512]%N ++ runes_of_ascii " emoji
packetx,
    // @lengthOf(
    1
    :	zchar
// " ++ [128512]%N ++ runes_of_ascii " emoji
// " ++ [27880; 37322]%N ++ runes_of_ascii "
,
[ ""a\""b"" , 42 ] // a // b
:f32a , } , @tag(	007 //
)
    repeat string
    len
`doc`	,@calculatedFrom(
    ""a\\"" )// `tick` ""quote"" 'q'
matchKey
//	t
// `tick` ""quote"" 'q'
calculatedFrom `{ , }`, u8x@lengthOf( T )
`it's`,
}MetaData packetx { metadata  o`" ++ [233]%N ++ runes_of_ascii "`
    , i32 u128
`a\` , char[]msg_type , uint32 u, u32
Packet`" ++ [28040; 24687; 31867; 22411]%N ++ runes_of_ascii "`
    ,
    int16
    len`" ++ [28040; 24687; 31867; 22411]%N ++ runes_of_ascii "` ,	}
")).
Eval vm_compute in ("<<<M4396>>>" ++ check (runes_of_ascii "packet Logon {
    repeat char MetaDataX `say ""hi""`,
    @lengthOf(packetx)
    char[] repeatCount `doc`,
    @leftPad('0')
    @tag(7)
    Header @calculatedFrom(""""),
    @lengthOf(MetaDataX)
    match x as Header {
        ""x y"" : u8x,
        """ ++ [128512]%N ++ runes_of_ascii """ : charz,
        """ ++ [233]%N ++ runes_of_ascii "t" ++ [233]%N ++ runes_of_ascii """ : _x,
        [3, 00] : uint8x,
        ""it's"" : rootA,
        [00, 65535] : zchar,
    },
    @calculatedFrom(""// no comment"")
    int32 i64_,
    repeat body {
        zchar[10] BodyLength `line1
                line2`,
        lengthOf Logon,// @lengthOf(
        repeat float64 i8i8,
        char[0123456789] leftPad `
                `,
    },
    repeat char[255] a1 `" ++ [28040; 24687; 31867; 22411]%N ++ runes_of_ascii "`,
}")).
Eval vm_compute in ("<<<M4343>>>" ++ check (runes_of_ascii "packet Header {
    @rightPad('0')
    uint8x @calculatedFrom(""a	b""),
    char[] u128 @calculatedFrom(""// no comment""),
    @tag(0123456789)
    char[255] lengthOf @calculatedFrom("""") `" ++ [28040; 24687; 31867; 22411]%N ++ runes_of_ascii "`,
    x_y_z,
    i32 x_y_z ``,
    repeat char[007] rootA,
    float32 msg_type @calculatedFrom(""a	b"") `{ , }`,// " ++ [27880; 37322]%N ++ runes_of_ascii "
    @calculatedFrom(""x y"")
    @tag(255)
    match i8i8 as A {
        """" : f32a,
    },
    matchKey {
        MetaDataX Header,
        repeatCount `say ""hi""`,
        char[0] MetaDataX @lengthOf(len) `" ++ [233]%N ++ runes_of_ascii "`,
    },
    zchar[7] pack @calculatedFrom(""\n""),
}

packet uint8x {
    uint64 uint8x @calculatedFrom(""abc""),
}")).
Eval vm_compute in ("<<<M730>>>" ++ check (runes_of_ascii "//x
packet Packet
{ } // " ++ [128512]%N ++ runes_of_ascii " emoji
packet A { @calculatedFrom(
    ""a	b""
    ) @tag(
    // `tick` ""quote"" 'q'
    00 ) char[4294967296]u128 `` , } options {  lengthOf = """ ++ [233]%N ++ runes_of_ascii "t" ++ [233]%N ++ runes_of_ascii """
    ; crc= ""CRC32"" ; }
packet crc {
    @tag(255 ) @rightPad ( ) repeat
    //
    Pad, zchar[ 3 ] charz @lengthOf( zchar
)
`say ""hi""` ,repeat Header string_ `` // @lengthOf(
,
len@calculatedFrom(
    ""`tick`"") ,
@tag( 65535 )
    match chars
as	msg_type {4294967296 : roots
, """ ++ [233]%N ++ runes_of_ascii "t" ++ [233]%N ++ runes_of_ascii """ :_x ,
""CRC32"" : leftPad	, // packet A { u8 x, }
42: MetaDataX,
// a // b
// c
[ ""a	b""]
: i64_/// triple
""`tick`"" :
MetaDataX ,}
,
    }
")).
Eval vm_compute in ("<<<M3713>>>" ++ check (runes_of_ascii "
// top
packet // c0

trueish 
  // c1
  { repeat	// c3
    u32 
        // c4
  MetaDataX // c5a
    // c5b
	`doc`  // c6a
	// c6b
	,
	Header

    // c8

{
	    // c9

	packetx  // c10a
  // c10b
  o
    `u8 x,`// c12a
      // c12b
		,  // c13a
	// c13b

} 
      // c14
  ,  
      // c15
@leftPad 	 // c16
( // c17a
// c17b
	'\x00' 	 // c18a
  // c18b

)
repeat 
char[ 
	// c21
  0123456789 
	    // c22
    ]  // c23

	repeatCount// c24
  , 
	    // c25

	} // c26a
  // c26b

packet 	 // c27
Packet 	 // c28
	{ // c29a

	// c29b
}
")).
Eval vm_compute in ("<<<M3725>>>" ++ check (runes_of_ascii "
root
packet chars {  falsey

    ,  uint64
f32a @lengthOf(
	lengthOf 
) 
,  // c
  }	MetaData

    T 
{

char[]  As ,}	// trailing space 
packet
    tag
    {

    i64 Foo
    @lengthOf( 
a1
) , 
@calculatedFrom(	""" ++ [128512]%N ++ runes_of_ascii """ 
)
@leftPad
    ( 
'\x00' // " ++ [128512]%N ++ runes_of_ascii " emoji

	) 
// a // b

@leftPad 
( 
'\x00'	)
	repeat

    Foo

MetaDataX
    ,
    }

    root	packet	body
    {
    repeat
u64	MetaDataX 
`u8 x,`
, @rightPad 
(

    ' '
	)
	charz @lengthOf(
matchKey
    ) 
,
	@calculatedFrom( 
""""
    )  len@lengthOf(

tag ) , } ")).
Eval vm_compute in ("<<<M565>>>" ++ check (runes_of_ascii "
MetaData float { u32 metadata
, } root
packet BodyLength { } packet float  {@calculatedFrom( ""\n""
) int16 o
    ,
} MetaData stringy// `tick` ""quote"" 'q'
{ } root	packet body
{ char[255 ] BodyLength	,	@rightPad (
    '\x00' ) u8 body`` , leftPad	@calculatedFrom( /// triple
""a\\"" ) ,@lengthOf(options1 ) _x f32a
`{ , }`
    // " ++ [27880; 37322]%N ++ runes_of_ascii "
    , @lengthOf(x )// @lengthOf(
body
`tab	here` , i64 zchar `" ++ [233]%N ++ runes_of_ascii "`, /// triple
@tag(
0123456789// " ++ [27880; 37322]%N ++ runes_of_ascii "
)	match
    BodyLength as A{ 10 : crc , }
    , } // @lengthOf(")).
Eval vm_compute in ("<<<M1291>>>" ++ check (runes_of_ascii "/// triple
root packet x{
@rightPad () // trailing space 
string f32a `two words` ,  match MetaDataX as packetx { ""CRC32""
: metadata, ""\" ++ [233]%N ++ runes_of_ascii """
    // @lengthOf(
    :
leftPad ,
// packet A { u8 x, }
// trailing space 
[ ""// no comment"" , 00
    , 4294967296  ,  10	,65535
    , ""`tick`"", ""a\""b"" ] : chars , """ ++ [28040; 24687]%N ++ runes_of_ascii """:Foo , ""a\\"" :
    calculatedFrom , }
,@calculatedFrom( ""a\\""
) @lengthOf(A
) @calculatedFrom( """ ++ [128512]%N ++ runes_of_ascii """) x_y_z ,
repeat crc {
    string repeatCount , } , } options {
}
")).
Eval vm_compute in ("<<<M4105>>>" ++ check (runes_of_ascii "  packet

T
{ 

/// triple
  // @lengthOf(
  @tag(
007  ) T@calculatedFrom(
	""CRC32"" 
)  
  //	t
//

,
	@tag(  // " ++ [27880; 37322]%N ++ runes_of_ascii "
  65535
)

repeat 
tag
{ a1  @calculatedFrom( ""a\""b"" )	, }
    ,
	As{  char[ 	 //	t
  007]
lengthOf

    ,

char[] x 
@lengthOf(

crc ) ``
    ,repeat 
i8  matchKey ,

tag
	Z9_
	,
	},  repeat 
	// c
    	/// triple
uint64  zchar 
        // packet A { u8 x, }
    `doc`

    , @tag(
	255
)

repeat
zchar[

7

]
    lengthOf
,} ")).
Eval vm_compute in ("<<<M692>>>" ++ check (runes_of_ascii "packet
    // packet A { u8 x, }
    chars {
match tag as BodyLength{7 : roots ,""a\\"":
    lengthOf
    , ""1""	:	chars
// " ++ [128512]%N ++ runes_of_ascii " emoji
// " ++ [27880; 37322]%N ++ runes_of_ascii "
, //	t
}
    ,
@leftPad
( '\x00' )  _x@lengthOf( MetaDataX
) ,  repeat
x {
    match Logon as options1
{
    //	t
    3
: Pad,
    [""abc"" , // a // b
7 , 3 ,  ""x y"" ] :
o , [ 4294967296
] : leftPad
    /// triple
    , """ ++ [28040; 24687]%N ++ runes_of_ascii """
: Pad	,
//
//x
},zchar[ 0123456789
] leftPad, stringy T
,
    }, }
options{ }")).
Eval vm_compute in ("<<<M1297>>>" ++ check (runes_of_ascii "root
packet u8x { @calculatedFrom( ""{,}"" ) // trailing space 
@rightPad (
    '\x00')@leftPad
('0' )	match
    len
as options1 {  007 // " ++ [27880; 37322]%N ++ runes_of_ascii "
: charz ,""abc"":
    options1 }
,
@tag(	007 // `tick` ""quote"" 'q'
) char[ 42] Foo @calculatedFrom(
""" ++ [233]%N ++ runes_of_ascii "t" ++ [233]%N ++ runes_of_ascii """ ),  } //
packet
//x
// `tick` ""quote"" 'q'
u8x
    {
char[]
// " ++ [27880; 37322]%N ++ runes_of_ascii "
// c
body , uint32 // " ++ [27880; 37322]%N ++ runes_of_ascii "
packetx ,  @lengthOf( o) i8 calculatedFrom @calculatedFrom( ""CRC32"" ) ,
    } // " ++ [128512]%N ++ runes_of_ascii " emoji")).
Eval vm_compute in ("<<<M736>>>" ++ check (runes_of_ascii "options {} packet
calculatedFrom { } packet T{ @tag(
    42 ) match	len as
matchKey {
007  :
o
    , ""a\""b""
: calculatedFrom [  00//
,
42  ,
0 , 00 , 7 ]:
trueish
,	""packet"" // @lengthOf(
: MetaDataX , }, int @calculatedFrom( ""a\""b""
)`" ++ [233]%N ++ runes_of_ascii "` ,
@lengthOf(zchar) @tag( 65535 ) repeat string // c
uint8x , } MetaData leftPad
    // `tick` ""quote"" 'q'
    {
}
    //
    packet tag {	repeat Z9_ x_y_z `a\` ,}
")).
Eval vm_compute in ("<<<M606>>>" ++ check (runes_of_ascii "
options { x_y_z
    =// @lengthOf(
""x y"" ; }
    // " ++ [27880; 37322]%N ++ runes_of_ascii "
    packet
int { @calculatedFrom( ""\" ++ [233]%N ++ runes_of_ascii """ ) match
    MetaDataX
as
o {// c
4294967296
    : o , } ,
    }
    // packet A { u8 x, }
    MetaData
    asx {
    As u8x `// not a comment` ,	char[]
string_`doc` , i64_ Z9_
    ,
    i16 leftPad `it's`
    // `tick` ""quote"" 'q'
    ,
u16	BodyLength `// not a comment`,
lengthOf len ,
    }")).
Eval vm_compute in ("<<<M1021>>>" ++ check (runes_of_ascii "
options {
MetaDataX=  1;  matchKey	= ""it's"" ;f32a  = f64
    // @lengthOf(
    ; options1 = true
}// `tick` ""quote"" 'q'
packet
    As{ //
char[ 7]
lengthOf
@lengthOf( Foo )`line1
line2`
    , string msg_type
// @lengthOf(
// a // b
@lengthOf( float )	,
@calculatedFrom( ""packet"" )@tag( 00 ) o  falsey
`line1
line2` ,
}MetaData  Foo
{zchar[ 4294967296 ]	asx  ,
//
//
}
")).
Eval vm_compute in ("<<<M4258>>>" ++ check (runes_of_ascii "
MetaData  len 	 /// triple
	{ //
	f64

    T  `u8 x,`,

rootA stringy ,
    zchar 
repeatCount
`say ""hi""`  ,

MetaDataX
As ,
i8i8
string_
,
x_y_z f32a, }
    options 	 // c
		{ 
Logon
//
	=string 
float 
=

    string
    A
    =

""abc""/// triple
    ;
    //
	A = ""\" ++ [233]%N ++ runes_of_ascii """ 
Logon =7 
}	options	{
} 
options
{

packetx =

""abc""	// c
	;  x =true }
")).
Eval vm_compute in ("<<<M528>>>" ++ check (runes_of_ascii "options  { charz
    = char[ 0123456789
] zchar= float32 ;} packet
As
    { x_y_z crc `{ , }` ,	} root
    packet
body { @lengthOf( Logon
) Header repeatCount`it's`
,	char[ /// triple
255 ]
u128@lengthOf( uint8x
// " ++ [128512]%N ++ runes_of_ascii " emoji
// a // b
),
    // a // b
    repeat repeatCount`doc` //x
,
@lengthOf( packetx ) Z9_ x_y_z
    // " ++ [27880; 37322]%N ++ runes_of_ascii "
    `" ++ [28040; 24687; 31867; 22411]%N ++ runes_of_ascii "` ,}")).
Eval vm_compute in ("<<<M1370>>>" ++ check (runes_of_ascii "options	{ rootA =""" ++ [28040; 24687]%N ++ runes_of_ascii """
    ;a1 = // a // b
'\x00' ;
    asx=	' '} MetaData string_ { char[]
    i64_ `it's` ,  }
packet
float {@calculatedFrom(	""// no comment"" ) repeat char[]  Z9_, @lengthOf(
Foo
    ) uint16
u @calculatedFrom( ""\n"" )	, repeat uint32 a1 , // `tick` ""quote"" 'q'
Logon
// " ++ [128512]%N ++ runes_of_ascii " emoji
// " ++ [128512]%N ++ runes_of_ascii " emoji
`line1
line2`, }
//
")).
Eval vm_compute in ("<<<M96>>>" ++ check (runes_of_ascii "options{
} packet /// triple
chars {
int64 i8i8
    /// triple
    @calculatedFrom( ""// no comment"" ) `line1
line2` ,
@calculatedFrom(
""`tick`"" )
    _x
    `" ++ [28040; 24687; 31867; 22411]%N ++ runes_of_ascii "` , match
float /// triple
as BodyLength  {//
""" ++ [28040; 24687]%N ++ runes_of_ascii """:
    x_y_z [ 7 , 10
    , """ ++ [233]%N ++ runes_of_ascii "t" ++ [233]%N ++ runes_of_ascii """	, 1 ,""x y"" , 3 ] :	i64_	,
} , // a // b
} packet
uint8x { } // " ++ [27880; 37322]%N)).
Eval vm_compute in ("<<<M378>>>" ++ check (runes_of_ascii "options
{//
matchKey//x
=
42	x
    = '0';
charz= true
;  }MetaData	BodyLength
{
uint8 pack , zchar[ 1
]float, float32 x_y_z `` ,	u32 _x	, i16 body, } // a // b
MetaData asx { leftPad falsey ,
char[] float	,
char[] // `tick` ""quote"" 'q'
u128
    ,  char[]	float
, u64 // " ++ [128512]%N ++ runes_of_ascii " emoji
tag
,
    //	t
    }
")).
Eval vm_compute in ("<<<M1411>>>" ++ check (runes_of_ascii "root root packet Foo // " ++ [128512]%N ++ runes_of_ascii " emoji
{ } options {
    // a // b
    tag // `tick` ""quote"" 'q'
= //	t
""""
    ; u8x = zchar[0  ] }
MetaData
    int {zchar[ 10]
lengthOf	`` , i64 u8x`// not a comment` ,MetaDataX pack// `tick` ""quote"" 'q'
`crlf
line`
, Logon charz `crlf
line`
    ,
    // a // b
    }
")).
Eval vm_compute in ("<<<M306>>>" ++ check (runes_of_ascii "
packet charz
    { @lengthOf( Pad
) match rootA as	string_ { [ 0123456789 ]
// a // b
//
: repeatCount [
    00 ,""it's""
] : T ,
    0 // packet A { u8 x, }
: stringy,
    4294967296 :
msg_type ,/// triple
} ,} packet lengthOf
{
@tag( 7 ) char[
    255 ]
float@calculatedFrom( ""packet"" ),  }
")).
Eval vm_compute in ("<<<M1609>>>" ++ check (runes_of_ascii "root packet Foo // " ++ [128512]%N ++ runes_of_ascii " emoji
{ } options {
    // a // b
    tag // `tick` ""quote"" 'q'
= //	t
""""
    ; u8x = zchar[0  ] }
MetaData
    int {zchar[ 10]
lengthOf	`` , i64 u8x`// not a comment` ,MetaDataX pack// `tick` ""quote"" 'q'
`crlf
line`
, Logon charz `crlf
line`
   % ,
    // a // b
    }
")).
Eval vm_compute in ("<<<M1531>>>" ++ check (runes_of_ascii "root packet Foo // " ++ [128512]%N ++ runes_of_ascii " emoji
{ } options {
    // a // b
    tag // `tick` ""quote"" 'q'
= //	t
""""
    ; u8x = zchar[0  ] }
MetaData
    int {zchar[ 10]
lengthOf	, `` i64 u8x`// not a comment` ,MetaDataX pack// `tick` ""quote"" 'q'
`crlf
line`
, Logon charz `crlf
line`
    ,
    // a // b
    }
")).
Eval vm_compute in ("<<<M1534>>>" ++ check (runes_of_ascii "root packet Foo // " ++ [128512]%N ++ runes_of_ascii " emoji
{ } options {
    // a // b
    tag // `tick` ""quote"" 'q'
= //	t
""""
    ; u8x = zchar[0  ] }
MetaData
    int {zchar[ 10]
lengthOf	``  i64 u8x`// not a comment` ,MetaDataX pack// `tick` ""quote"" 'q'
`crlf
line`
, Logon charz `crlf
line`
    ,
    // a // b
    }
")).
Eval vm_compute in ("<<<M3491>>>" ++ check (runes_of_ascii "packet 
MDSnapshotZZ
{
	u8 a , 
}  packet OrderACK {
    u16

    b

    , }

packet
HTTPServerInfo{  string s  , 
}	root 
packet
FIXMsg { u8	KType

    ,  MDSnapshotZZ,repeat

OrderACK
,	match 
KType  as Body {
	1 : HTTPServerInfo
,

    2
	:

    OrderACK  ,
	}

    ,
}
")).
Eval vm_compute in ("<<<M1589>>>" ++ check (runes_of_ascii "root packet Foo // " ++ [128512]%N ++ runes_of_ascii " emoji
{ } options {
    // a // b
    tag // `tick` ""quote"" 'q'
= //	t
""""
    ; u8x = zchar[0  ] }
MetaData
    int {zchar[ 10]
lengthOf	`` , i64 u8x`// not a comment` ,MetaDataX pack// `tick` ""quote"" 'q'
`crlf
line`
, Logon charz 
    ,
    // a // b
    }
")).
Eval vm_compute in ("<<<M1265>>>" ++ check (runes_of_ascii "root packet metadata {// packet A { u8 x, }
@tag(
    7)
@rightPad (
'0')
match
o as
asx {
// packet A { u8 x, }
// packet A { u8 x, }
[ 65535/// triple
, ""a	b""] :tag , 0 :
// c
// " ++ [128512]%N ++ runes_of_ascii " emoji
matchKey ,  4294967296:o// `tick` ""quote"" 'q'
, ""it's"": /// triple
_x	,}	, }
")).
Eval vm_compute in ("<<<M3452>>>" ++ check (runes_of_ascii "// top
options // c0a
  // c0b
{ LittleEndian = // c3a
  // c3b
true ; // c5a
  // c5b
} // c6
root
    // c7
packet P
    // c9
{ u16
    // c11
a , u32 // c14a
  // c14b
Sum @calculatedFrom( // c16a
  // c16b
""CRC32"" // c17
) , // c19
} // c20a
  // c20b
")).
Eval vm_compute in ("<<<M4481>>>" ++ check (runes_of_ascii "
options{

    roots
=

    uint8 ;asx
    =	' '

    // a // b
;
}  options 

// a // b

{} root
packet
Packet { @lengthOf(
	T )

@calculatedFrom(
    ""abc""
) @calculatedFrom(""1""
    )
    A  // c
	  lengthOf
    ,

    } 
/// triple
 
")).
Eval vm_compute in ("<<<M669>>>" ++ check (runes_of_ascii "
root packet roots { @tag( 42  )repeat // " ++ [128512]%N ++ runes_of_ascii " emoji
string //	t
options1,
}
MetaData crc{ pack metadata `line1
line2`
,	int64 asx
// a // b
//	t
, // " ++ [27880; 37322]%N ++ runes_of_ascii "
A float ,char[65535 ]Z9_ `tab	here`
,
u8 u128 `` // trailing space 
,// a // b
}
")).
Eval vm_compute in ("<<<M3663>>>" ++ check (runes_of_ascii "
options
	{	roots 
=
u8 f32a =

    '\x00' BodyLength = """ ++ [28040; 24687]%N ++ runes_of_ascii """
} 
MetaData 	 // a // b
    packetx{

i32
options1, zchar[1
]

u8x  // @lengthOf(
    	`doc`
,
    zchar[
7
	]
matchKey 	 // " ++ [27880; 37322]%N ++ runes_of_ascii "

, 
int8
    As  `crlf
line`, }")).
Eval vm_compute in ("<<<M2231>>>" ++ check (runes_of_ascii "MetaData Packet { }packet packet	asx  { @lengthOf( asx) falsey`crlf
line`
,
    }
    packet x	{uint32// @lengthOf(
rootA	,u32 options1 `say ""hi""` , @tag( 7
    )// packet A { u8 x, }
msg_type @lengthOf(
stringy	)	, }

")).
Eval vm_compute in ("<<<M2258>>>" ++ check (runes_of_ascii "MetaData Packet { }packet	asx  { @lengthOf( asx i32 falsey`crlf
line`
,
    }
    packet x	{uint32// @lengthOf(
rootA	,u32 options1 `say ""hi""` , @tag( 7
    )// packet A { u8 x, }
msg_type @lengthOf(
stringy	)	, }

")).
Eval vm_compute in ("<<<M2379>>>" ++ check (runes_of_ascii "MetaData Packet { }packet	asx  { @lengthOf( asx) falsey`crlf
line`
$,
    }
    packet x	{uint32// @lengthOf(
rootA	,u32 options1 `say ""hi""` , @tag( 7
    )// packet A { u8 x, }
msg_type @lengthOf(
stringy	)	, }

")).
Eval vm_compute in ("<<<M2317>>>" ++ check (runes_of_ascii "MetaData Packet { }packet	asx  { @lengthOf( asx) falsey`crlf
line`
,
    }
    packet x	{uint32// @lengthOf(
rootA	,u32 `say ""hi""` options1 , @tag( 7
    )// packet A { u8 x, }
msg_type @lengthOf(
stringy	)	, }

")).
Eval vm_compute in ("<<<M2370>>>" ++ check (runes_of_ascii "MetaData Packet { }packet	asx  { @lengthOf( asx) falsey`crlf
line`
,
    }
    packet x	{uint32// @lengthOf(
rootA	,u32 options1 `say ""hi""` , @tag( 7
    )// packet A { u8 x, }
msg_type @lengthOf(
stringy	)	, 

")).
Eval vm_compute in ("<<<M2280>>>" ++ check (runes_of_ascii "MetaData Packet { }packet	asx  { @lengthOf( asx) falsey`crlf
line`
,
    }
     x	{uint32// @lengthOf(
rootA	,u32 options1 `say ""hi""` , @tag( 7
    )// packet A { u8 x, }
msg_type @lengthOf(
stringy	)	, }

")).
Eval vm_compute in ("<<<M2350>>>" ++ check (runes_of_ascii "MetaData Packet { }packet	asx  { @lengthOf( asx) falsey`crlf
line`
,
    }
    packet x	{uint32// @lengthOf(
rootA	,u32 options1 `say ""hi""` , @tag( 7
    )// packet A { u8 x, }
msg_type 
stringy	)	, }

")).
Eval vm_compute in ("<<<M1234>>>" ++ check (runes_of_ascii "packet zchar
    // @lengthOf(
    {
@tag( 255 ) match  u128 as roots { 0123456789 : //x
u} ,
zchar[ 4294967296
]charz// " ++ [128512]%N ++ runes_of_ascii " emoji
`tab	here`
, // " ++ [27880; 37322]%N ++ runes_of_ascii "
match
uint8x as leftPad { 10
: _x //x
, }, }
")).
Eval vm_compute in ("<<<M1008>>>" ++ check (runes_of_ascii "MetaData stringy
{ u len `line1
line2`,zchar[42
]
pack
    ,char[7 ] f32a //	t
`say ""hi""` // @lengthOf(
,
    // a // b
    char[
    7] i8i8
, }
    packet// " ++ [128512]%N ++ runes_of_ascii " emoji
float
    { }
// c
")).
Eval vm_compute in ("<<<M3657>>>" ++ check (runes_of_ascii "

  options{ 
chars	= ""abc""

    ;
}
    packet
string_
	{
uint8x x_y_z	,string
Header 
`
`	,

}
	packet 
pack  // a // b
	{	Z9_ @lengthOf(	chars)	/// triple
      `" ++ [233]%N ++ runes_of_ascii "`
, }

")).
Eval vm_compute in ("<<<M3468>>>" ++ check (runes_of_ascii "packet A {
    u8 a,
}
packet B {
    u16 b,
}
root packet P {
    u8 K1,
    u8 K2,
    match K1 as M1 {
        1 : A,
    },
    match K2 as M2 {
        1 : B,
    },
}
")).
Eval vm_compute in ("<<<M1548>>>" ++ check (runes_of_ascii "root packet Foo // " ++ [128512]%N ++ runes_of_ascii " emoji
{ } options {
    // a // b
    tag // `tick` ""quote"" 'q'
= //	t
""""
    ; u8x = zchar[0  ] }
MetaData
    int {zchar[ 10]
lengthOf	`` , i64")).
Eval vm_compute in ("<<<M447>>>" ++ check (runes_of_ascii "root  packet msg_type
// " ++ [27880; 37322]%N ++ runes_of_ascii "
//	t
{ string lengthOf `a\`
,
    @tag( 65535) rootA calculatedFrom , char[]	crc `{ , }`  ,
zchar[
// c
//	t
65535 ]msg_type , }
")).
Eval vm_compute in ("<<<M3474>>>" ++ check (runes_of_ascii "packet A {
    u8 a,
}
packet B {
    u16 b,
}
root packet P {
    u8 K,
    match K as M {
        [1, 2] : A,
        3 : B,
        7 : A,
    },
}
")).
Eval vm_compute in ("<<<M10>>>" ++ check (runes_of_ascii "MetaData
    chars{
char[]Header `say ""hi""`
,
    char[] matchKey
,char[ 1
    ]  u8x , zchar A ,x falsey
,
zchar[ 42
    ] calculatedFrom , }
")).
Eval vm_compute in ("<<<M3812>>>" ++ check (runes_of_ascii "packet A {
    u16 len @lengthOf(body) `a
        b
      c`,
    u32 crc @calculatedFrom(""CRC32"") `a
        b
      c`,
    string body,
}")).
Eval vm_compute in ("<<<M3990>>>" ++ check (runes_of_ascii "  packet A
    {  match	k
    as

n
    {

[
	1

    ,
	""bb"" , 007 
,  ""d"" ,
	5
, ""f""
,	7

,  ""h""
	,
9 ] 
:B
, 2 : C }
    ,
    }
")).
Eval vm_compute in ("<<<M1721>>>" ++ check (runes_of_ascii "root @tag packet /// triple
rootA {	i32
MetaDataX@calculatedFrom( ""CRC32"" ) `line1
line2` , } MetaData BodyLength {
u8
rootA, } // c")).
Eval vm_compute in ("<<<M1665>>>" ++ check (runes_of_ascii "root packet /// triple
rootA {	i32
MetaDataX@calculatedFrom( ""CRC32"" i64 `line1
line2` , } MetaData BodyLength {
u8
rootA, } // c")).
Eval vm_compute in ("<<<M1664>>>" ++ check (runes_of_ascii "root packet /// triple
rootA {	i32
MetaDataX@calculatedFrom( ""CRC32"" `line1
line2` ) , } MetaData BodyLength {
u8
rootA, } // c")).
Eval vm_compute in ("<<<M666>>>" ++ check (runes_of_ascii "  MetaData body
{i16 // @lengthOf(
metadata
//	t
// packet A { u8 x, }
,
float64
    leftPad
`
`, BodyLength Z9_ `" ++ [233]%N ++ runes_of_ascii "`
    ,}
")).
Eval vm_compute in ("<<<M1395>>>" ++ check (runes_of_ascii "options
{ repeatCount
=
u16 // `tick` ""quote"" 'q'
; float  =  ' ' Logon = string
;packetx = // " ++ [128512]%N ++ runes_of_ascii " emoji
3//
a1=  zchar[7	] }")).
Eval vm_compute in ("<<<M4189>>>" ++ check (runes_of_ascii "

  packet

    Logon{
@tag(
	42

) 
@rightPad ( // c
' ') @leftPad( )
    repeat	trueish

{ string
    T ,
} 
,
	}
")).
Eval vm_compute in ("<<<M1788>>>" ++ check (runes_of_ascii "packet
    ""x y"" // a // b
{ i8i8 @calculatedFrom( ""a	b"") `u8 x,` ,
} options{ float// " ++ [128512]%N ++ runes_of_ascii " emoji
= f64 i64_
=//	t
00 }
")).
Eval vm_compute in ("<<<M1892>>>" ++ check (runes_of_ascii "packet
    Pad // a // b
{ i8i8 @calculatedFrom( ""a	b"") `u8 x,` ,
} options{ float// " ++ [128512]%N ++ runes_of_ascii " emoji
= f64 i6'4_
=//	t
00 }
")).
Eval vm_compute in ("<<<M3023>>>" ++ check (runes_of_ascii "packet A {
    Inner {
        u8 x `a
    b
  c`,
        Deep {
            u8 y `a
    b
  c`,
        },
    },
}")).
Eval vm_compute in ("<<<M4071>>>" ++ check (runes_of_ascii "  options 
{

    repeatCount 
=  '0' 
roots =
""\" ++ [233]%N ++ runes_of_ascii """
    ;  int= f64
    Packet
= '\x00'
;Z9_
    =
""a\""b"";

} ")).
Eval vm_compute in ("<<<M1784>>>" ++ check (runes_of_ascii "=
    Pad // a // b
{ i8i8 @calculatedFrom( ""a	b"") `u8 x,` ,
} options{ float// " ++ [128512]%N ++ runes_of_ascii " emoji
= f64 i64_
=//	t
00 }
")).
Eval vm_compute in ("<<<M498>>>" ++ check (runes_of_ascii "packet  options1 {
    _x string_ , string
    zchar @lengthOf(f32a// packet A { u8 x, }
)
, uint64
x ,
    }")).
Eval vm_compute in ("<<<M1194>>>" ++ check (runes_of_ascii "//	t
options
    { // c
}MetaData asx
{float64 x_y_z
,
}  options	{// packet A { u8 x, }
stringy = '0' ;
}")).
Eval vm_compute in ("<<<M1275>>>" ++ check (runes_of_ascii "root
packet  len{ @rightPad (
    ' ' ) @tag(0 ) int16 msg_type `{ , }` ,
}
packet
    leftPad
    {	}
")).
Eval vm_compute in ("<<<M3365>>>" ++ check (runes_of_ascii "packet calculatedFrom { @tag( 4294967296 ) u msg_type , char[ 3 ] crc @lengthOf( // c
len ) `u8 x,` , }")).
Eval vm_compute in ("<<<M1468>>>" ++ check (runes_of_ascii "root packet Foo // " ++ [128512]%N ++ runes_of_ascii " emoji
{ } options {
    // a // b
    tag // `tick` ""quote"" 'q'
= //	t
""""
    ;")).
Eval vm_compute in ("<<<M2960>>>" ++ check (runes_of_ascii "packet A {
  match k as n {
    [""a"", ""bb"", 007, ""d"", ""e"", 66, ""g"", ""h"", 9] : B,
    2 : C
  },
}")).
Eval vm_compute in ("<<<M3214>>>" ++ check (runes_of_ascii "// c
packet Logon { @tag( 42 ) @rightPad ( ' ' ) @leftPad ( ) repeat trueish { string T , } , }")).
Eval vm_compute in ("<<<M3247>>>" ++ check (runes_of_ascii "packet Logon { @tag( 42 ) @rightPad ( ' ' ) @leftPad ( ) repeat trueish {
// c
string T , } , }")).
Eval vm_compute in ("<<<M2948>>>" ++ check (runes_of_ascii "packet A {
  match k as n {
    [""a"", ""bb"", 007, ""d"", ""e"", 66, ""g"", ""h""] : B
    2 : C
  },
}")).
Eval vm_compute in ("<<<M1959>>>" ++ check (runes_of_ascii "root root
packet crc
    { f32a @calculatedFrom( """ ++ [233]%N ++ runes_of_ascii "t" ++ [233]%N ++ runes_of_ascii """ )
    `say ""hi""`, lengthOf `` ,  }")).
Eval vm_compute in ("<<<M1030>>>" ++ check (runes_of_ascii "packet i8i8 { } options
    { MetaDataX =
""it's""  asx = char[
    65535
    ]  ;
    }")).
Eval vm_compute in ("<<<M2043>>>" ++ check (runes_of_ascii "root
packet crc
    { f32a @calculatedFrom( """ ++ [233]%N ++ runes_of_ascii "t" ++ [233]%N ++ runes_of_ascii """ )
    \`say ""hi""`, lengthOf `` ,  }")).
Eval vm_compute in ("<<<M972>>>" ++ check (runes_of_ascii "options	{ string_ =  '\x00'
    rootA // trailing space 
= u8; Foo =""a\\""//
;
    }
")).
Eval vm_compute in ("<<<M2932>>>" ++ check (runes_of_ascii "packet A {
  match k as n {
    [1, 22, ""c c"", 4, 5, ""f"", 7] : B,
    2 : C
  },
}")).
Eval vm_compute in ("<<<M3306>>>" ++ check (runes_of_ascii "packet o { @tag( 42 ) repeat // c
x { char[ 0123456789 ] i64_ , } , } options { }")).
Eval vm_compute in ("<<<M231>>>" ++ check (runes_of_ascii "MetaData Z9_
    { a1
//
/// triple
Z9_
    , zchar[ 10	] x
    , } options { }
")).
Eval vm_compute in ("<<<M234>>>" ++ check (runes_of_ascii "packet	As{ match  repeatCount as metadata
{ 007 : //x
crc, ""a	b"" :
    A} , }
")).
Eval vm_compute in ("<<<M4427>>>" ++ check (runes_of_ascii "

  packet
    A

{match
k
as
n
	{ [ 1,22
    ,	""c c""
]  :B
2
	:
C}
    ,} ")).
Eval vm_compute in ("<<<M1072>>>" ++ check (runes_of_ascii "packet
    o {
@rightPad( )// trailing space 
x_y_z calculatedFrom , }

")).
Eval vm_compute in ("<<<M4089>>>" ++ check (runes_of_ascii "//x
  	packet zchar

{@calculatedFrom( ""CRC32""
	)

    lengthOf	, }
")).
Eval vm_compute in ("<<<M3410>>>" ++ check (runes_of_ascii "MetaData _x { zchar[ 4294967296 ] lengthOf `// not a comment`
// c
, }")).
Eval vm_compute in ("<<<M2187>>>" ++ check (runes_of_ascii "root
    // `tick` ""quote"" 'q'
    packet As { trueish Packet , } }
")).
Eval vm_compute in ("<<<M4069>>>" ++ check (runes_of_ascii "  MetaData zchar

    {zchar[ 3
	]

    Pad

    ,	}
	// c
")).
Eval vm_compute in ("<<<M939>>>" ++ check (runes_of_ascii "packet  metadata{ calculatedFrom Packet ,}
// packet A { u8 x, }
")).
Eval vm_compute in ("<<<M2869>>>" ++ check (runes_of_ascii "packet A {
  match k as n {
    [""a"", 22] : B,
    2 : C
  },
}")).
Eval vm_compute in ("<<<M3432>>>" ++ check (runes_of_ascii "root 
packet 
P

{

    hdr
{ 
u8
a  ,}
    ,
u8
x ,

}

")).
Eval vm_compute in ("<<<M3176>>>" ++ check (runes_of_ascii "packet A { @leftPad() char[4] x, @rightPad( ) zchar[2] y, }")).
Eval vm_compute in ("<<<M2375>>>" ++ check (runes_of_ascii "MetaData Packet { }packet	asx  { @lengthOf( asx) falsey`c")).
Eval vm_compute in ("<<<M1899>>>" ++ check (runes_of_ascii "
'\x00'	As { @calculatedFrom(//x
""{,}""	)lengthOf , } 	 ")).
Eval vm_compute in ("<<<M2420>>>" ++ check (runes_of_ascii "MetaData caf" ++ [233]%N ++ runes_of_ascii "_1
{
i64
chars	, } // `tick` ""quote"" 'q'")).
Eval vm_compute in ("<<<M1241>>>" ++ check (runes_of_ascii "MetaData u8x
{
uint32 metadata
`line1
line2` , }
")).
Eval vm_compute in ("<<<M2419>>>" ++ check (runes_of_ascii "MetaData A
{
i64
chars	, }# // `tick` ""quote"" 'q'")).
Eval vm_compute in ("<<<M1748>>>" ++ check (runes_of_ascii "options { } }options {  } // `tick` ""quote"" 'q'")).
Eval vm_compute in ("<<<M2120>>>" ++ check (runes_of_ascii "MetaData x
{// " ++ [128512]%N ++ runes_of_ascii " emoji
i16 stringy stringy , }")).
Eval vm_compute in ("<<<M1756>>>" ++ check (runes_of_ascii "options { }options   } // `tick` ""quote"" 'q'")).
Eval vm_compute in ("<<<M54>>>" ++ check (runes_of_ascii "  MetaData
u128{ uint32 lengthOf ,
    }
")).
Eval vm_compute in ("<<<M3025>>>" ++ check (runes_of_ascii "root packet A {
    u8 x `a
    b
  c`,
}")).
Eval vm_compute in ("<<<M2756>>>" ++ check (runes_of_ascii "nueM}|d!jTeH%\GJjof8G!IY}Og26Y'e]tl6awM""")).
Eval vm_compute in ("<<<M2138>>>" ++ check (runes_of_ascii "/MetaData x
{// " ++ [128512]%N ++ runes_of_ascii " emoji
i16 stringy , }")).
Eval vm_compute in ("<<<M2604>>>" ++ check (runes_of_ascii "packet A { match k as n { 1 : B,, }, }")).
Eval vm_compute in ("<<<M2850>>>" ++ check (runes_of_ascii "9h~{]Ry1}z""O-Eq~&O&et9""E9C]I0lrU:UOAN")).
Eval vm_compute in ("<<<M2601>>>" ++ check (runes_of_ascii "packet A { match k as n { 1 : B } }")).
Eval vm_compute in ("<<<M1240>>>" ++ check (runes_of_ascii "options { Packet	= ""packet"" ; }
")).
Eval vm_compute in ("<<<M3619>>>" ++ check (runes_of_ascii "packet A {
    x @lengthOf(y),
}")).
Eval vm_compute in ("<<<M2783>>>" ++ check (runes_of_ascii "U^}|d}OPKLGCG6_a=z(#7;cXSYr;lQ")).
Eval vm_compute in ("<<<M2067>>>" ++ check (runes_of_ascii "MetaData A { u64 pack pack, }")).
Eval vm_compute in ("<<<M4497>>>" ++ check (runes_of_ascii "MetaData 
Packet	{

    } ")).
Eval vm_compute in ("<<<M2057>>>" ++ check (runes_of_ascii "MetaData A { { u64 pack, }")).
Eval vm_compute in ("<<<M2097>>>" ++ check (runes_of_ascii "MetaData A { |u64 pack, }")).
Eval vm_compute in ("<<<M2068>>>" ++ check (runes_of_ascii "MetaData A { u64 ,pack }")).
Eval vm_compute in ("<<<M2051>>>" ++ check (runes_of_ascii "MetaData  { u64 pack, }")).
Eval vm_compute in ("<<<M2079>>>" ++ check (runes_of_ascii "MetaData A { u64 pack,")).
Eval vm_compute in ("<<<M2857>>>" ++ check ([65533; 65533]%N ++ runes_of_ascii "0" ++ [65533; 65533; 65533; 65533]%N ++ runes_of_ascii "%?" ++ [65533; 11]%N ++ runes_of_ascii "h" ++ [65533; 65533]%N ++ runes_of_ascii "p" ++ [65533; 65533]%N ++ runes_of_ascii "|" ++ [65533; 65533; 65533]%N)).
Eval vm_compute in ("<<<M563>>>" ++ check (runes_of_ascii "
root
packet o {}")).
Eval vm_compute in ("<<<M2026>>>" ++ check (runes_of_ascii "root
packet crc
 ")).
Eval vm_compute in ("<<<M3111>>>" ++ check (runes_of_ascii "packet A {
}
// c" ++ [8287]%N)).
Eval vm_compute in ("<<<M2732>>>" ++ check (runes_of_ascii " TdlH$1;l|=o#;&v&")).
Eval vm_compute in ("<<<M2638>>>" ++ check (runes_of_ascii "root options { }")).
Eval vm_compute in ("<<<M4490>>>" ++ check (runes_of_ascii "packet f32a {
}")).
Eval vm_compute in ("<<<M2410>>>" ++ check (runes_of_ascii "MetaData A
{")).
Eval vm_compute in ("<<<M3575>>>" ++ check (runes_of_ascii "// " ++ [128512]%N ++ runes_of_ascii " emoji")).
Eval vm_compute in ("<<<M2435>>>" ++ check (runes_of_ascii "zchar[]")).
Eval vm_compute in ("<<<M2775>>>" ++ check (runes_of_ascii ";>/7""#")).
Eval vm_compute in ("<<<M2811>>>" ++ check (runes_of_ascii "}#.UJ")).
Eval vm_compute in ("<<<M2513>>>" ++ check (runes_of_ascii """\\""")).
Eval vm_compute in ("<<<M2526>>>" ++ check (runes_of_ascii "1 2")).
Eval vm_compute in ("<<<M2534>>>" ++ check (runes_of_ascii "_1")).
