From FP Require Import Lexer Parser ShowPT Digest Formatter.
From Coq Require Import String List NArith.
Import ListNotations.
Open Scope string_scope.
Set Printing Width 100000000.
Set Printing Depth 100000000.
Definition show_fres (r : fres) : string :=
  match r with
  | FOk s => "OK:" ++ sh_escaped s ""
  | FErr s => "ERR:" ++ sh_escaped s ""
  | FPanic p => "PANIC:" ++ p
  end.
Definition check (rs : list rune) : string := digest (show_fres (format_res rs)).
Definition full (rs : list rune) : string := show_fres (format_res rs).
Eval vm_compute in ("<<<M1695>>>" ++ check (runes_of_ascii "// top
options {
    // c1a
    // c1b
    StringPrefixLenType = u8;// c5
    ArrayPrefixLenType = u8;
    // c9
    FixedStringPadFromLeft = true;
    FixedStringPadChar = ' ';// c17
}// c18

packet Logout {
    // c21
    repeat string Px,// c25
    repeat string seqNo,// c29a
    // c29b
    InMsgkind64 {
        // c31
        uint16 OrderId,// c34
        char[] count,
        repeat i32 venue,
        // c41
    },
}

packet Heartbeat {
    // c47a
    // c47b
    float32 tag7,
    repeat InPrice50 {
        repeat char[5] lastPx,
        // c59
        InRef42 {
            // c61
            u8 pad0,// c64
        },// c66
        uint32 Acct,
        repeat Logout,// c72a
        // c72b
        repeat char[5] Qty,
        // c78
    },
    repeat InSeqno30 {
        // c83
        repeat Logout,// c86
    },// c88a
    // c88b
    @leftPad('0')
    // c92a
    // c92b
    char[12] Acct,// c97a
    // c97b
    char[] Side2,
    // c100
    repeat string msgKind,
}

// c105
packet Ack {
    // c108
    Heartbeat,
    // c110
    char[8] seqNo,
    // c115
    float64 clOrdID,
}// c119

packet Trade {
    // c122
    char[] OrderId,// c125
    f64 Side2,// c128a
    // c128b
    zchar[8] f1,
    // c133
    string Qty,
    // c136
    float64 seqNo,// c139a
    // c139b
    repeat Logout,
    // c142
}

packet Order {
    f32 OrderId,// c149
    repeat u8 x,// c153
    Ack,
    // c155
    zchar[7] Note,// c160
}

root packet Logon {
    @rightPad('\x00')
    // c169
    char[9] f1,// c174
}
// c175")).
Eval vm_compute in ("<<<M255>>>" ++ check (runes_of_ascii "/// triple
MetaData Logon
    {i16 body
, } /// triple
root packet
Z9_ {	_x
// packet A { u8 x, }
// " ++ [128512]%N ++ runes_of_ascii " emoji
{
Foo {
    matchKey { repeat
    leftPad body ,
    u128 MetaDataX ,
    match uint8x as BodyLength{ ""abc"": int , [42
    ,
    10
    ]: Z9_ , 1 :// a // b
i64_ 0123456789 :
u ,  ""a\""b""
: chars , }
    ,
repeat //	t
int32
//x
//	t
packetx
    , } ,  match zchar as u128
    // @lengthOf(
    { 007 //x
: msg_type	""a\\"" : asx, """":T
, 007 : charz, ""abc"":
    /// triple
    matchKey , ""x y"":  string_ ,
}
, repeat  zchar[
0123456789 ]// trailing space 
msg_type `doc` ,}, match Z9_ as MetaDataX
{	[ 0 , ""1""
    ]:
    // packet A { u8 x, }
    uint8x [ 65535 ,
//
//	t
""""] :
    x_y_z
,""x y"": falsey ,
65535
:
packetx, ""// no comment"": falsey [ 4294967296 , ""a\""b"" ,
    ""\n"" , ""a\""b""	,
    255 ]: charz	, } // @lengthOf(
,
}
,
    chars
    int `u8 x,`
    , @tag(65535)
char[] Header `{ , }` , @tag(
    255
) match	repeatCount as
    A { [4294967296 ,""\" ++ [233]%N ++ runes_of_ascii """ , ""packet"" , // packet A { u8 x, }
42 ,
007 , """ ++ [128512]%N ++ runes_of_ascii """, ""a\""b"" ]// c
:
    lengthOf , ""// no comment""
:
a1 ,""\n"" : MetaDataX//x
3 // a // b
:
// @lengthOf(
// packet A { u8 x, }
body	, } , }
")).
Eval vm_compute in ("<<<M1124>>>" ++ check (runes_of_ascii "// top
root
    // c0
packet // c1a
  // c1b
msg_type // c2a
  // c2b
{ // c3
i64 // c4
options1 // c5a
  // c5b
,
    // c6
@lengthOf( // c7a
  // c7b
f32a // c8
) // c9
repeat // c10
uint16
    // c11
Foo
    // c12
, // c13a
  // c13b
@calculatedFrom(
    // c14
""x y""
    // c15
) // c16a
  // c16b
repeat int64 // c18a
  // c18b
pack // c19a
  // c19b
, // c20a
  // c20b
@leftPad // c21
(
    // c22
' '
    // c23
) // c24a
  // c24b
uint8
    // c25
Foo , }
    // c28
packet rootA // c30a
  // c30b
{ // c31
f32a // c32a
  // c32b
x
    // c33
`two words` // c34
, char // c36
asx // c37a
  // c37b
@lengthOf(
    // c38
falsey // c39a
  // c39b
) // c40a
  // c40b
`u8 x,` // c41a
  // c41b
, // c42
@lengthOf( i64_
    // c44
)
    // c45
uint16 // c46
chars // c47a
  // c47b
, // c48
@tag( // c49a
  // c49b
0 // c50a
  // c50b
) string
    // c52
_x
    // c53
@calculatedFrom(
    // c54
""abc""
    // c55
) // c56a
  // c56b
`// not a comment`
    // c57
, // c58
} // c59a
  // c59b
")).
Eval vm_compute in ("<<<M307>>>" ++ check (runes_of_ascii "options {
    string_	= zchar[ 00
    ]
;}
    packet falsey { @lengthOf( float	) string o // c
,repeat msg_type , match MetaDataX as _x
    { 3: Pad ,
    }, leftPad@lengthOf(i8i8 //
) , @tag(
0123456789
    )
    i16 Packet `
`
,o pack `tab	here` ,zchar[ 10
] int
    , int16 Foo
//	t
// " ++ [128512]%N ++ runes_of_ascii " emoji
@calculatedFrom(
    ""CRC32"" )
`u8 x,` , match f32a as	u8x
{[ ""{,}""] : T, [ ""1""
, 65535 ,3 , 0 ,/// triple
""`tick`""
    , 0123456789 ,""" ++ [128512]%N ++ runes_of_ascii """ , ""a\\"" ] :uint8x  , 255 : a1  , ""a	b""	: falsey """ ++ [28040; 24687]%N ++ runes_of_ascii """ : x
    // " ++ [128512]%N ++ runes_of_ascii " emoji
    , //	t
[
    ""packet""
// c
//	t
,3
    ]
:
int , } ,
repeat Foo /// triple
{  zchar[1
]body ``  , roots
    rootA ,	char[ 0] rootA `doc`, }	,
    }// `tick` ""quote"" 'q'
options{
    } options { Header = int16
; roots = false ; repeatCount/// triple
=
    uint8; stringy
=	""x y"" ;leftPad = ""it's"";
    } MetaData u {	string_// trailing space 
Header
, zchar[ 3 ] i64_, }
")).
Eval vm_compute in ("<<<M1444>>>" ++ check (runes_of_ascii "

  options {
LittleEndian
    =true
	; StringPrefixLenType = u64
;

ArrayPrefixLenType	=
u8
	; 
FixedStringPadChar	='0'; }
	packet Reject{
    i32

Ref  , repeat f64 OrderId	, repeat 
InNote12
	{  u8 pad0 ,	}, @leftPad
	( 
' '
)

char[

6

]	count
,  }	packet  Logout{ zchar[6 
]Tail
,
repeat string
	venue 
,
	}packet
Cancel{ 
u64
count , repeat	char[ 5

    ] 
lastPx ,
	i64  Tail
,

    repeat
InF140

{	repeat 
Logout
    ,  repeat
Reject
	,
} , } 
root 
packet 
Trade
	{
    repeat InMsgkind39	{ repeat
    Reject  ,
char[

    4
]
	Px 
,  }  ,
	string

Acct 
, uint16
price

    , f32 OrderId, u16 x ,

u16
    clOrdID
@lengthOf(  Body
    )	,
    match x

as Body	{178 
: Logout, 
13 : Cancel ,174
    :	Reject
,  }	,
u16  Flags

    @calculatedFrom(	""CRC32""), }
")).
Eval vm_compute in ("<<<M1893>>>" ++ check (runes_of_ascii "options {
    StringPrefixLenType = u16;
    ArrayPrefixLenType = u32;
    FixedStringPadFromLeft = false;
    FixedStringPadChar = '0';
}

packet Logout {
    f64 f1,
    i16 Note,
    @rightPad('\x00')
    char[11] Flags,
}

packet Cancel {
    float64 msgKind,
}

packet Reject {
    InQty43 {
        float32 sym,
        char[10] Tail,
        uint8 venue,
        uint16 f1,
        char[9] Acct,
    },
}

packet Trade {
    char[] x,
    zchar[6] Note,
    repeat Reject,
}

root packet Order {
    Cancel,
    Logout,
    u64 Acct,
    u32 OrderId,
    match OrderId as Body {
        [127, 70] : Reject,
        177 : Trade,
        58 : Logout,
        75 : Cancel,
    },
    u32 Tail @calculatedFrom(""CRC32""),
}")).
Eval vm_compute in ("<<<M1175>>>" ++ check (runes_of_ascii "// top
MetaData
    // c0
x_y_z
    // c1
{
    // c2
char
    // c3
body
    // c4
,
    // c5
f64
    // c6
i8i8
    // c7
`two words`
    // c8
,
    // c9
body
    // c10
body
    // c11
`" ++ [28040; 24687; 31867; 22411]%N ++ runes_of_ascii "`
    // c12
,
    // c13
}
    // c14
root
    // c15
packet
    // c16
chars
    // c17
{
    // c18
@lengthOf(
    // c19
i64_
    // c20
)
    // c21
chars
    // c22
,
    // c23
i8i8
    // c24
{
    // c25
falsey
    // c26
@lengthOf(
    // c27
stringy
    // c28
)
    // c29
`doc`
    // c30
,
    // c31
}
    // c32
,
    // c33
x
    // c34
@lengthOf(
    // c35
A
    // c36
)
    // c37
`crlf
line`
    // c38
,
    // c39
}
    // c40
")).
Eval vm_compute in ("<<<M1922>>>" ++ check (runes_of_ascii "// top
root packet msg_type {
    // c3
    i64 options1,
    // c6
    @lengthOf(f32a)
    // c9
    repeat uint16 Foo,
    // c13
    @calculatedFrom(""x y"")
    // c16
    repeat int64 pack,
    // c20
    @leftPad(' ')
    // c24
    uint8 Foo,
    // c27
}

// c28
packet rootA {
    // c31
    f32a x `two words`,
    // c35
    char asx @lengthOf(falsey) `u8 x,`,
    // c42
    @lengthOf(i64_)
    // c45
    uint16 chars,
    // c48
    @tag(0)
    // c51
    string _x @calculatedFrom(""abc"") `// not a comment`,
    // c58
}
// c59")).
Eval vm_compute in ("<<<M1514>>>" ++ check (runes_of_ascii "root packet i64_ {
    packetx {
        string zchar @calculatedFrom(""`tick`"") `
                `,
        zchar[1] metadata `doc`,
        Foo @calculatedFrom(""CRC32""),
    },
    char[] roots `crlf
        line`,
    @calculatedFrom(""it's"")
    char rootA,
    @tag(7)
    charz o `it's`,// a // b
    char[007] msg_type @lengthOf(x_y_z),
    repeat zchar[007] repeatCount `say ""hi""`,
    match i64_ as rootA {
        [""abc""] : T,
    },
    repeat chars,
}")).
Eval vm_compute in ("<<<M1201>>>" ++ check (runes_of_ascii "// top
packet
    // c0
u128
    // c1
{
    // c2
@lengthOf(
    // c3
body
    // c4
)
    // c5
match
    // c6
x_y_z
    // c7
as
    // c8
u
    // c9
{
    // c10
""x y""
    // c11
:
    // c12
i8i8
    // c13
,
    // c14
}
    // c15
,
    // c16
@tag(
    // c17
255
    // c18
)
    // c19
char[]
    // c20
roots
    // c21
@lengthOf(
    // c22
int
    // c23
)
    // c24
,
    // c25
}
    // c26
")).
Eval vm_compute in ("<<<M1351>>>" ++ check (runes_of_ascii "packet B // c1
{ // c2
u8 // c3a
  // c3b
a // c4
,
    // c5
} // c6a
  // c6b
root
    // c7
packet
    // c8
P // c9
{ // c10a
  // c10b
u8 // c11
K // c12a
  // c12b
, // c13a
  // c13b
u64 // c14
L @lengthOf( Body // c17a
  // c17b
) // c18
,
    // c19
match // c20a
  // c20b
K as // c22
Body // c23
{
    // c24
1 // c25
: // c26
B // c27
, } , } // c31
")).
Eval vm_compute in ("<<<M52>>>" ++ check (runes_of_ascii "// `tick` ""quote"" 'q'
root packet u128{Z9_ { match trueish // c
as rootA { [	""abc"" , ""{,}""
,// c
0 ]
: MetaDataX [
""a\""b""
]
: tag ,
""CRC32"" :
//	t
/// triple
options1 ,
    [
    """ ++ [28040; 24687]%N ++ runes_of_ascii """,
""a\\"" ] :
lengthOf
    , ""a\""b""
: chars ,
    } , }
,
    @rightPad( '0'	) @calculatedFrom( ""CRC32"" ) char[00 ] packetx,
} // a // b")).
Eval vm_compute in ("<<<M1968>>>" ++ check (runes_of_ascii "
options{
matchKey

= 42	/// triple
    x= '0'
    // packet A { u8 x, }
      //

charz
= 

// packet A { u8 x, }
      // trailing space 
true;	} 
MetaData BodyLength
    { uint8
pack 
,zchar[ 1  ] 
float	,

    float32  x_y_z

    ``  ,
    u32 _x

    ,

    i16
body	,}

")).
Eval vm_compute in ("<<<M243>>>" ++ check (runes_of_ascii "packet leftPad{
    trueish { char[] charz	@calculatedFrom(  ""\n"" )
// @lengthOf(
//x
,
    } , @rightPad
    ( '0' ) @tag( 255 )len {
    zchar[
65535
] f32a , }
,f64
    i8i8	`` , } options {chars = 00 Pad =
    false // a // b
stringy =
string
    }
")).
Eval vm_compute in ("<<<M1583>>>" ++ check (runes_of_ascii "
packet 
orderItem

// c1
{  // c2

u8 	 // c3a
// c3b
  	a 

// c4
	,
    // c5
  	}  root packet // c8
  	newOrder	// c9a
// c9b
    {  
      // c10
orderItem	// c11a
  // c11b

,  // c12
  u8 
    // c13
    	x // c14
  , }

")).
Eval vm_compute in ("<<<M442>>>" ++ check (runes_of_ascii "options
{
matchKey = 42/// triple
x='0' ;
// packet A { u8 x, }
//
charz
=
// packet A { u8 x, }
// trailing space 
true true  ; } MetaData BodyLength
{
uint8
pack,zchar[ 1]float ,  float32 x_y_z `` ,u32
_x,i16 body  , }
")).
Eval vm_compute in ("<<<M469>>>" ++ check (runes_of_ascii "options
{
matchKey = 42/// triple
x='0' ;
// packet A { u8 x, }
//
charz
=
// packet A { u8 x, }
// trailing space 
true  ; } MetaData BodyLength
crc
uint8
pack,zchar[ 1]float ,  float32 x_y_z `` ,u32
_x,i16 body  , }
")).
Eval vm_compute in ("<<<M583>>>" ++ check (runes_of_ascii "options
{
matchKey = 42/// triple
x='0' ;
// packet A { u8 x, }
//
charz
=
// packet A { u8 x, }
// trailing space 
true  ; } MetaData BodyLength
{
uint8'
pack,zchar[ 1]float ,  float32 x_y_z `` ,u32
_x,i16 body  , }
")).
Eval vm_compute in ("<<<M533>>>" ++ check (runes_of_ascii "options
{
matchKey = 42/// triple
x='0' ;
// packet A { u8 x, }
//
charz
=
// packet A { u8 x, }
// trailing space 
true  ; } MetaData BodyLength
{
uint8
pack,zchar[ 1]float ,  float32 x_y_z `` ,_x
u32,i16 body  , }
")).
Eval vm_compute in ("<<<M546>>>" ++ check (runes_of_ascii "options
{
matchKey = 42/// triple
x='0' ;
// packet A { u8 x, }
//
charz
=
// packet A { u8 x, }
// trailing space 
true  ; } MetaData BodyLength
{
uint8
pack,zchar[ 1]float ,  float32 x_y_z `` ,u32
_x, body  , }
")).
Eval vm_compute in ("<<<M461>>>" ++ check (runes_of_ascii "options
{
matchKey = 42/// triple
x='0' ;
// packet A { u8 x, }
//
charz
=
// packet A { u8 x, }
// trailing space 
true  ; } MetaData 
{
uint8
pack,zchar[ 1]float ,  float32 x_y_z `` ,u32
_x,i16 body  , }
")).
Eval vm_compute in ("<<<M49>>>" ++ check (runes_of_ascii "// a // b
root
    packet string_ { i32 options1 `say ""hi""`
, } packet stringy
// " ++ [128512]%N ++ runes_of_ascii " emoji
/// triple
{
    } MetaData
len  {i8i8
charz
    `u8 x,`,
// `tick` ""quote"" 'q'
// trailing space 
}")).
Eval vm_compute in ("<<<M672>>>" ++ check (runes_of_ascii "// c
packet i64_ {	char[] calculatedFrom , } } packet
trueish  {@calculatedFrom(
""a\\"" ) o { i32 falsey@lengthOf( uint8x ),
} , } // `tick` ""quote"" 'q'
options {// c
Z9_ = ' '//
}
")).
Eval vm_compute in ("<<<M721>>>" ++ check (runes_of_ascii "// c
packet i64_ {	char[] calculatedFrom , } packet
trueish  {@calculatedFrom(
""a\\""  o { i32 falsey@lengthOf( uint8x ),
} , } // `tick` ""quote"" 'q'
options {// c
Z9_ = ' '//
}
")).
Eval vm_compute in ("<<<M77>>>" ++ check (runes_of_ascii "MetaData o
    { char[] i64_
`{ , }`	, u16 tag  ,
char[]
lengthOf	`u8 x,` , Z9_  rootA`
`,
zchar[	3 // trailing space 
] u, // " ++ [27880; 37322]%N ++ runes_of_ascii "
float T
//	t
//	t
`{ , }`
    , }
")).
Eval vm_compute in ("<<<M1890>>>" ++ check (runes_of_ascii "options {
    // trailing space 
    A = ' ';
    calculatedFrom = ""a\""b"";
    msg_type = char[4294967296];
    //
    rootA = '\x00'
    msg_type = false
}")).
Eval vm_compute in ("<<<M1306>>>" ++ check (runes_of_ascii "MetaData _x
    // c1
{
    // c2
zchar[ 4294967296 // c4a
  // c4b
] lengthOf // c6
`// not a comment` // c7a
  // c7b
,
    // c8
}
    // c9
")).
Eval vm_compute in ("<<<M1532>>>" ++ check (runes_of_ascii "

  packet Logon 	 // c
	{

@tag(

42) @rightPad 
(

    ' '

)
@leftPad ( )
    repeat

    trueish{  string	T ,
	}
    ,
    }")).
Eval vm_compute in ("<<<M53>>>" ++ check (runes_of_ascii "  options{ u= ""a	b"" ; charz = true ;
    matchKey =//x
0123456789 u8x =
char[]
    // trailing space 
    Packet
=
false ; }
")).
Eval vm_compute in ("<<<M1347>>>" ++ check (runes_of_ascii "packet B {
    u8 a,
}
root packet P {
    u8 K,
    u8 L @lengthOf(Body),
    match K as Body {
        1 : B,
    },
}
")).
Eval vm_compute in ("<<<M647>>>" ++ check (runes_of_ascii "MetaData
    // trailing space 
    matchKey
{ u64 chars // a // b
,char[] length<Of `// not a comment`
    , //	t
}")).
Eval vm_compute in ("<<<M1973>>>" ++ check (runes_of_ascii "

  packet

    A  {

    match
k as  n
    {	[

""a""	, ""bb"",
    ""c c"" 
]

    :
    B ,
	2
	: C  }

    , } ")).
Eval vm_compute in ("<<<M1703>>>" ++ check (runes_of_ascii "// c
packet Logon {
    @tag(42)
    @rightPad(' ')
    @leftPad()
    repeat trueish {
        string T,
    },
}")).
Eval vm_compute in ("<<<M1377>>>" ++ check (runes_of_ascii "root packet
    // c1
P {
    // c3
repeat string ss , // c7
repeat // c8
u16 // c9
ns
    // c10
, } // c12
")).
Eval vm_compute in ("<<<M896>>>" ++ check (runes_of_ascii "packet A {
  match k as n {
    [""a"", 22, ""c c"", 4, ""e"", 66, ""g"", 8, ""i"", 10, ""k""] : B,
    2 : C
  },
}")).
Eval vm_compute in ("<<<M1271>>>" ++ check (runes_of_ascii "packet calculatedFrom { @tag( 4294967296 ) u msg_type , char[ // c
3 ] crc @lengthOf( len ) `u8 x,` , }")).
Eval vm_compute in ("<<<M919>>>" ++ check (runes_of_ascii "packet A {
    Inner {
        u8 x `a
b`,
        Deep {
            u8 y `a
b`,
        },
    },
}")).
Eval vm_compute in ("<<<M875>>>" ++ check (runes_of_ascii "packet A {
  match k as n {
    [""a"", ""bb"", 007, ""d"", ""e"", 66, ""g"", ""h"", 9] : B
    2 : C
  },
}")).
Eval vm_compute in ("<<<M1149>>>" ++ check (runes_of_ascii "packet Logon { @tag( 42 ) @rightPad ( ' ' )
// c
@leftPad ( ) repeat trueish { string T , } , }")).
Eval vm_compute in ("<<<M1566>>>" ++ check (runes_of_ascii "
packet A { B

b
`a
    b
  c` 
,
    B `a
    b
  c` 
,

repeat B
    bs
	`a
    b
  c`
, }
")).
Eval vm_compute in ("<<<M858>>>" ++ check (runes_of_ascii "packet A {
  match k as n {
    [""a"", 22, ""c c"", 4, ""e"", 66, ""g"", 8] : B
    2 : C
  },
}")).
Eval vm_compute in ("<<<M1965>>>" ++ check (runes_of_ascii "
// `tick` ""quote"" 'q'
    options

    {leftPad

= 
float32

} root  packet o {
} ")).
Eval vm_compute in ("<<<M256>>>" ++ check (runes_of_ascii "packet matchKey {
@tag( 7
    ) @leftPad
    //x
    ( '\x00')
    string_ ,	} 	 ")).
Eval vm_compute in ("<<<M1232>>>" ++ check (runes_of_ascii "packet o { @tag( 42 ) repeat x { char[ 0123456789 ] i64_ // c
, } , } options { }")).
Eval vm_compute in ("<<<M278>>>" ++ check (runes_of_ascii "options  {Packet= zchar[ 3
] u128 = zchar[
42 ] a1=
'\x00'	;
crc=	0	; //	t
}
")).
Eval vm_compute in ("<<<M802>>>" ++ check (runes_of_ascii "packet A {
  match k as n {
    [""a"", ""bb"", ""c c"", ""d""] : B
    2 : C
  },
}")).
Eval vm_compute in ("<<<M959>>>" ++ check (runes_of_ascii "packet A {
    B b `tab
	x`,
    B `tab
	x`,
    repeat B bs `tab
	x`,
}")).
Eval vm_compute in ("<<<M1314>>>" ++ check (runes_of_ascii "MetaData _x {
// c
zchar[ 4294967296 ] lengthOf `// not a comment` , }")).
Eval vm_compute in ("<<<M1369>>>" ++ check (runes_of_ascii "root packet P {
    u16 a,
    u32 Sum @calculatedFrom(""CRC32""),
}
")).
Eval vm_compute in ("<<<M1635>>>" ++ check (runes_of_ascii "MetaData charz {
    zchar[42] packetx `crlf
        line`,
}")).
Eval vm_compute in ("<<<M1967>>>" ++ check (runes_of_ascii "options {
    a = ""x\
        y"";
    b = ""x\
        y""
}")).
Eval vm_compute in ("<<<M1084>>>" ++ check (runes_of_ascii "packet A { B { // a
 u8 x, // b
 } // c
 , // d
 }")).
Eval vm_compute in ("<<<M766>>>" ++ check (runes_of_ascii "= @calculatedFrom( true '\x00' i64 uint32")).
Eval vm_compute in ("<<<M1954>>>" ++ check (runes_of_ascii "options {
    a = 1// c
    b = 2;// d
}")).
Eval vm_compute in ("<<<M1989>>>" ++ check (runes_of_ascii "options {
    // " ++ [27880; 37322]%N ++ runes_of_ascii "
    T = int64
}")).
Eval vm_compute in ("<<<M958>>>" ++ check (runes_of_ascii "packet A {
    u8 x `tab
	x`,
}")).
Eval vm_compute in ("<<<M1482>>>" ++ check (runes_of_ascii "

  // c" ++ [5760]%N ++ runes_of_ascii "
  	packet
	A  {  }
")).
Eval vm_compute in ("<<<M1936>>>" ++ check (runes_of_ascii "options {
    i64_ = 00
}")).
Eval vm_compute in ("<<<M1623>>>" ++ check (runes_of_ascii "packet repeatCount {
}")).
Eval vm_compute in ("<<<M980>>>" ++ check (runes_of_ascii "packet A {
}
// c" ++ [12288]%N)).
Eval vm_compute in ("<<<M1073>>>" ++ check (runes_of_ascii "MetaData M {
}// c")).
Eval vm_compute in ("<<<M741>>>" ++ check (runes_of_ascii "xgTn-gkPTrfXT@?")).
Eval vm_compute in ("<<<M38>>>" ++ check (runes_of_ascii "
 	 ")).
Eval vm_compute in ("<<<M733>>>" ++ check ([65279]%N)).
