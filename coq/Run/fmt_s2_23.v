From FP Require Import Lexer Parser ShowPT Digest Formatter.
From Coq Require Import String List NArith.
Import ListNotations.
Open Scope string_scope.
Set Printing Width 100000000.
Set Printing Depth 100000000.
Definition show_fres (r : fres) : string :=
  match r with
  | FOk s => "OK:" ++ sh_escaped s ""
  | FErr s => "ERR:" ++ sh_escaped s ""
  | FPanic p => "PANIC:" ++ p
  end.
Definition check (rs : list rune) : string := digest (show_fres (format_res rs)).
Definition full (rs : list rune) : string := show_fres (format_res rs).
Eval vm_compute in ("<<<M1232>>>" ++ check (runes_of_ascii "packet u {
    @leftPad
( '\x00' ) match
    // @lengthOf(
    pack
as	Logon {""" ++ [28040; 24687]%N ++ runes_of_ascii """  : As ,""`tick`""
    : asx// " ++ [27880; 37322]%N ++ runes_of_ascii "
, 0 : float} ,
// @lengthOf(
// " ++ [128512]%N ++ runes_of_ascii " emoji
string trueish@calculatedFrom(""a	b"") , // " ++ [27880; 37322]%N ++ runes_of_ascii "
match matchKey as
// @lengthOf(
//	t
options1{
//x
/// triple
00 :
lengthOf
// @lengthOf(
//x
} , match
roots as Header
{
    42
    :
    string_
,
[ 10 ,
""a\""b"" ,
    ""\" ++ [233]%N ++ runes_of_ascii """ ,""\" ++ [233]%N ++ runes_of_ascii """  ,
""CRC32"" ,""1"" , ""it's""
// " ++ [27880; 37322]%N ++ runes_of_ascii "
// trailing space 
, ""abc"" ]
    :
lengthOf , ""CRC32"" :  As }, char[] falsey , //	t
chars
@lengthOf( a1
)
    //
    , @tag( 255 )
@lengthOf(x )	match metadata as // " ++ [128512]%N ++ runes_of_ascii " emoji
rootA {007:
trueish ,	00 :
metadata , [ 0123456789] : x_y_z ,0 : Logon }
    ,@leftPad ('\x00' )
    zchar[ 1 ]pack `" ++ [233]%N ++ runes_of_ascii "`
, @leftPad
( )
    match x_y_z	as	Z9_ {
// a // b
//x
""" ++ [128512]%N ++ runes_of_ascii """ :leftPad } // packet A { u8 x, }
,  repeat	Z9_	`tab	here` , // trailing space 
} options
// `tick` ""quote"" 'q'
// " ++ [128512]%N ++ runes_of_ascii " emoji
{ uint8x
    = string	;
}MetaData
    // packet A { u8 x, }
    MetaDataX
    {
    i64_ uint8x ,
    zchar[
0 ]float
,char[] packetx // c
`it's`,
    }
root
packet
crc {
@tag(
1 ) i64_ // @lengthOf(
@calculatedFrom(
    """ ++ [233]%N ++ runes_of_ascii "t" ++ [233]%N ++ runes_of_ascii """
),//x
@calculatedFrom( ""\n"" ) @calculatedFrom( ""it's"")@calculatedFrom( ""a\\""
    ) chars
uint8x , @tag(7)match Logon as
    string_ { 3 : a1 , // " ++ [128512]%N ++ runes_of_ascii " emoji
}// trailing space 
, int16 i64_`
`
    , @tag(
1 )
falsey T
, } root packet Foo { // trailing space 
repeat // `tick` ""quote"" 'q'
zchar{ i64_
@calculatedFrom( //x
""" ++ [233]%N ++ runes_of_ascii "t" ++ [233]%N ++ runes_of_ascii """ ) `line1
line2`, match matchKey as
zchar {
    ""1"": As	[
0 ]
// a // b
//
: f32a
    , [ ""x y"" ] // packet A { u8 x, }
: body , ""it's""
: _x , [ """ ++ [28040; 24687]%N ++ runes_of_ascii """ ,007
]
    :matchKey
    ""x y"" : x_y_z
, }
,
    zchar[ 7 ] metadata @lengthOf(_x )`// not a comment`	, float  @lengthOf(
    matchKey /// triple
) ,	}
, packetx
@calculatedFrom( ""// no comment""	)  , roots @lengthOf(falsey ), // " ++ [128512]%N ++ runes_of_ascii " emoji
u8
calculatedFrom
    `{ , }` ,
char[ 10 ]repeatCount // `tick` ""quote"" 'q'
`crlf
line` , @lengthOf(
float//x
)
int16 int `two words` , repeat
u64 x
, i8i8
@lengthOf(Packet )
`" ++ [28040; 24687; 31867; 22411]%N ++ runes_of_ascii "`
, }")).
Eval vm_compute in ("<<<M1073>>>" ++ check (runes_of_ascii "
packet uint8x { @lengthOf(i64_ // trailing space 
) calculatedFrom {i32 Foo	@lengthOf( pack),
// " ++ [27880; 37322]%N ++ runes_of_ascii "
// " ++ [128512]%N ++ runes_of_ascii " emoji
} ,@leftPad
    (
'\x00' ) repeat A `it's` //	t
, // a // b
@rightPad ( '\x00')Header@calculatedFrom(""" ++ [28040; 24687]%N ++ runes_of_ascii """ ) , @calculatedFrom( ""// no comment""	) @tag(
0123456789) @tag(  7
) options1 { match	u	as lengthOf { 10: lengthOf
    ,/// triple
""a\\""
:
    As//x
,
} ,
options1 roots	`{ , }` , },// @lengthOf(
repeat o
    //x
    `" ++ [28040; 24687; 31867; 22411]%N ++ runes_of_ascii "` , @tag(
42) @calculatedFrom(""" ++ [233]%N ++ runes_of_ascii "t" ++ [233]%N ++ runes_of_ascii """
)	int16 BodyLength	, repeat	Logon T`// not a comment` ,repeat x string_	, } MetaData len
    { Header lengthOf `// not a comment` , } packet metadata	{ roots
    // " ++ [27880; 37322]%N ++ runes_of_ascii "
    @lengthOf(asx ), @tag(
    65535 )
string Header
@calculatedFrom(  """ ++ [28040; 24687]%N ++ runes_of_ascii """ )
`
` , @lengthOf(As ) @lengthOf( string_ ) @leftPad	(
)
    repeat char[1] body  , @calculatedFrom( ""a\""b"" )
match u128 as
Pad{
""\" ++ [233]%N ++ runes_of_ascii """ : float  [
    7 // " ++ [128512]%N ++ runes_of_ascii " emoji
] :
    Packet
, 10 : i8i8	,
    // trailing space 
    },@tag( 255)
    f64 a1 @calculatedFrom( // a // b
""a\""b"" )
    ,
@lengthOf( falsey
)// trailing space 
MetaDataX@lengthOf(MetaDataX)
, @tag(42
)
    char[	007 ] x_y_z	,}MetaData Z9_{
f32 MetaDataX `{ , }` , zchar[10
    ] charz
`a\` , u16 leftPad `tab	here` ,packetx // trailing space 
asx `say ""hi""` , char[]
    //x
    u8x , }
root packet
    // packet A { u8 x, }
    Packet
    // @lengthOf(
    { int32 chars,	repeat int8 stringy , string chars
    ,repeat	chars
    // `tick` ""quote"" 'q'
    {  _x  ,repeat repeatCount trueish,
falsey // @lengthOf(
@calculatedFrom(
""it's"" )// " ++ [128512]%N ++ runes_of_ascii " emoji
, },
// packet A { u8 x, }
// trailing space 
char[] i8i8
    @lengthOf( packetx),}
")).
Eval vm_compute in ("<<<M3902>>>" ++ check (runes_of_ascii "options

{StringPrefixLenType 
=u16
    ;

    ArrayPrefixLenType
    =u16
; }

    packet
    SampleBinary 
{
    uint16
	MsgType
`" ++ [28040; 24687; 31867; 22411]%N ++ runes_of_ascii "`  ,	u16 BodyLenght 
@lengthOf(
    Body

    )

`" ++ [28040; 24687; 20307; 38271; 24230]%N ++ runes_of_ascii "` , match 
MsgType as
Body
    {

1 :

    Logon  , 2  : Logout ,
3

    :
    Heartbeat 
,
	4  :

RiskControlRequest
, 5 :
    RiskControlResponse
	,	},
    @calculatedFrom(  ""CRC32""
	)
    u32

    Ckecksum `" ++ [26657; 39564; 21644]%N ++ runes_of_ascii "`,
} 
packet

    Logon
    {
@leftPad
	(
	'0' )char[ 
10
]UserName

`" ++ [29992; 25143; 21517]%N ++ runes_of_ascii "`

    ,

    string	Password  `" ++ [23494; 30721]%N ++ runes_of_ascii "`
,
uint64 ClientId `" ++ [23458; 25143; 31471]%N ++ runes_of_ascii "ID` 
, u16
	HeartbeatInterval

`" ++ [24515; 36339; 38388; 38548]%N ++ runes_of_ascii "`

    , }

    packet	Logout

    { @rightPad ('0')
	char[
	10 ]  UserName `" ++ [29992; 25143; 21517]%N ++ runes_of_ascii "` 
, uint64	ClientId

`" ++ [23458; 25143; 31471]%N ++ runes_of_ascii "ID`	, }

    packet

Heartbeat {

    }
packet RiskControlRequest{ string 
UniqueOrderId `" ++ [21807; 19968; 35746; 21333; 21495]%N ++ runes_of_ascii "`
	,	char[
16

    ]

    ClOrdID `" ++ [23458; 25143; 35746; 21333; 21495]%N ++ runes_of_ascii "`
, 
char[
3]

    MarketID 
`" ++ [24066; 22330]%N ++ runes_of_ascii "id`

,
    char[
	12
]  SecurityID`" ++ [35777; 21048; 20195; 30721]%N ++ runes_of_ascii "` ,

    char

    Side 
`" ++ [20080; 21334; 26041; 21521]%N ++ runes_of_ascii "` 
, char OrderType`" ++ [35746; 21333; 31867; 22411]%N ++ runes_of_ascii "`
,u64
Price
`" ++ [20215; 26684]%N ++ runes_of_ascii "`,

u32 
Qty `" ++ [25968; 37327]%N ++ runes_of_ascii "` , repeat string

    ExtraInfo`" ++ [38468; 21152; 20449; 24687]%N ++ runes_of_ascii "`

    ,

    repeat
SubOrder{

    char[ 16 ] ClOrdID 
`" ++ [23376; 35746; 21333; 21495]%N ++ runes_of_ascii "` ,u64  Price`" ++ [23376; 35746; 21333; 20215; 26684]%N ++ runes_of_ascii "`,u32  Qty`" ++ [23376; 35746; 21333; 25968; 37327]%N ++ runes_of_ascii "`,
},
}

packet
    RiskControlResponse	{ string
UniqueOrderId 
`" ++ [21807; 19968; 35746; 21333; 21495]%N ++ runes_of_ascii "`  ,
i32 Status
`" ++ [29366; 24577]%N ++ runes_of_ascii "`  ,

    string
Msg `" ++ [32467; 26524; 20449; 24687]%N ++ runes_of_ascii "`

, repeat  Detail
, } 
packet	Detail
    {string
RuleName
    `" ++ [35268; 21017; 21517; 31216]%N ++ runes_of_ascii "`
	,
	u16 Code`" ++ [21407; 22240; 20195; 30721]%N ++ runes_of_ascii "`,
    }

")).
Eval vm_compute in ("<<<M3577>>>" ++ check (runes_of_ascii "// top
options {
    LittleEndian = false;// c5
    StringPrefixLenType = u16;
    // c9
    ArrayPrefixLenType = u32;// c13
}

packet Order {
    uint8 x,
    repeat string venue,
    // c24
}

// c25
packet Heartbeat {
    // c28
    i64 count,
    // c31
    zchar[1] Qty,
    // c36
    repeat InX29 {
        // c39a
        // c39b
        InSeqno26 {
            // c41a
            // c41b
            int64 f1,
            char[5] Acct,// c49a
            // c49b
            Order,
            // c51
        },// c53a
        // c53b
        repeat InSide285 {
            // c56a
            // c56b
            repeat Order,
            char[10] Px,// c64a
            // c64b
            zchar[9] OrderId,// c69a
            // c69b
        },// c71a
        // c71b
        char[] venue,
        // c74
        Order,
        // c76
    },// c78
    @rightPad('\x00')
    // c82
    char[4] clOrdID,// c87
}

// c88
root packet Party {
    zchar[3] f1,
    u32 clOrdID,// c100a
    // c100b
    u32 Px @lengthOf(Body),
    // c106
    match clOrdID as Body {
        [180, 64] : Heartbeat,
        // c119
        11 : Order,
        // c123a
        // c123b
    },
    // c125
    u32 Side2 @calculatedFrom(""CRC32""),// c131a
    // c131b
}
// c132")).
Eval vm_compute in ("<<<M4362>>>" ++ check (runes_of_ascii "packet Packet {
}

packet repeatCount {
    @tag(4294967296)
    @lengthOf(A)
    @lengthOf(float)
    rootA,
    @tag(0123456789)
    Header `// not a comment`,
    matchKey f32a,
    Pad,
    repeat float32 uint8x `" ++ [233]%N ++ runes_of_ascii "`,
    @leftPad('\x00')
    repeat char[3] tag `
    `,
    repeat pack {
        repeat x {
            repeat f64 len,
            i64_ len,
        },
        repeatCount @lengthOf(uint8x),
        match zchar as a1 {
            // a // b
            // packet A { u8 x, }
            3 : u,
        },// packet A { u8 x, }
        repeat rootA {
            options1 {
                repeat body u8x `crlf
                line`,
                match Z9_ as f32a {
                    007 : repeatCount,
                    ""packet"" : calculatedFrom,
                    // " ++ [128512]%N ++ runes_of_ascii " emoji
                    10 : calculatedFrom,
                    ""CRC32"" : _x,
                    [""x y""] : i64_,
                    ""packet"" : MetaDataX,
                },
            },
            //x
        },
    },
}

MetaData asx {
    u trueish,
    chars f32a `// not a comment`,
    float64 u128,
    string_ string_ `
    `,
}

packet crc {
}")).
Eval vm_compute in ("<<<M4520>>>" ++ check (runes_of_ascii "MetaData body {
    asx stringy,
    f64 As ``,
    Foo Logon `a\`,
    packetx asx `" ++ [28040; 24687; 31867; 22411]%N ++ runes_of_ascii "`,
    u32 matchKey `line1
    line2`,
    u16 chars,
}

root packet _x {
    match rootA as repeatCount {
        /// triple
        //x
        007 : msg_type,
        /// triple
        [4294967296, ""// no comment""] : leftPad,
        """" : packetx,
        0123456789 : Logon,
        10 : a1,
        [
            ""abc"", 7, ""CRC32"", 0123456789, 255,
            ""a\""b"", """ ++ [128512]%N ++ runes_of_ascii """
        ] : len,
    },
    repeat string trueish,
    @rightPad()
    int64 f32a @lengthOf(tag),
    // a // b
    // @lengthOf(
    zchar[42] lengthOf @lengthOf(tag) `{ , }`,
    @tag(10)
    int32 leftPad `doc`,
    x_y_z chars,
    @calculatedFrom(""// no comment"")
    @lengthOf(_x)
    @lengthOf(matchKey)
    repeat zchar zchar,
    @calculatedFrom(""a	b"")
    repeat Pad i8i8,
    @tag(1)
    repeat int16 metadata,
}

options {
    T = ""`tick`"";
    crc = '\x00';// packet A { u8 x, }
    o = ' ';
}

packet matchKey {
    zchar[0123456789] crc,
    @lengthOf(packetx)
    char[] uint8x `say ""hi""`,
    repeat As A,
}
// c")).
Eval vm_compute in ("<<<M4509>>>" ++ check (runes_of_ascii "packet charz {
    zchar @lengthOf(body),
    string BodyLength ``,
    float `" ++ [233]%N ++ runes_of_ascii "`,
    @lengthOf(len)
    @tag(255)
    @calculatedFrom(""{,}"")
    a1 int `two words`,
    char[3] float @calculatedFrom(""CRC32""),
    repeat int32 stringy,//
    @tag(3)
    @tag(3)
    a1 {
        match chars as roots {
            ""it's"" : o,
            ""CRC32"" : stringy,
            0123456789 : Pad,
            [""a	b"", """ ++ [128512]%N ++ runes_of_ascii """] : body,
        },
        char[42] u8x,
        char[255] x_y_z @calculatedFrom(""packet""),
        match body as BodyLength {
            10 : zchar,
            007 : uint8x,
            ""a\""b"" : Header,
            ""x y"" : chars,
            007 : f32a,
        },
    },
    match T as stringy {
        10 : float,
        // trailing space 
        0 : string_,
        10 : crc,
        7 : chars,
        7 : body,
    },
    repeat crc `
        `,
}

MetaData roots {
    char[] string_ `{ , }`,
}

root packet As {
    @rightPad(' ')
    i64 leftPad @calculatedFrom(""abc"") `doc`,
    char[] options1,
}")).
Eval vm_compute in ("<<<M641>>>" ++ check (runes_of_ascii "root
    packet pack {
@lengthOf(
leftPad) match msg_type
    as// a // b
lengthOf
    {
""\n"" : a1,3
:tag 0 : metadata
,
    } ,
    tag @calculatedFrom( ""CRC32"" )
    `doc`/// triple
,
    @rightPad // `tick` ""quote"" 'q'
('\x00'
//x
// " ++ [27880; 37322]%N ++ runes_of_ascii "
)zchar[ 255 ]asx// @lengthOf(
`say ""hi""` ,@calculatedFrom( ""a	b"")
    @calculatedFrom(""" ++ [233]%N ++ runes_of_ascii "t" ++ [233]%N ++ runes_of_ascii """)@calculatedFrom(""packet"" ) Pad { match
    rootA  as float {
    [00 , 007 , ""a\""b"" ,"""",	""a	b"" , ""packet""	]: stringy 0 // trailing space 
: float  ""\" ++ [233]%N ++ runes_of_ascii """ : int	,} , i8i8 { Foo @calculatedFrom( """ ++ [128512]%N ++ runes_of_ascii """
),
string zchar `" ++ [28040; 24687; 31867; 22411]%N ++ runes_of_ascii "` , zchar[ 3
    // " ++ [27880; 37322]%N ++ runes_of_ascii "
    ] metadata `crlf
line` ,
match leftPad as // c
f32a //	t
{ 0
: // " ++ [27880; 37322]%N ++ runes_of_ascii "
pack, [ """",  ""packet""
, 0	,42,""abc""
,
// c
// trailing space 
1 ,
    ""{,}"" ]
: uint8x
} ,
} ,char[ 00
// c
// trailing space 
] trueish @calculatedFrom( """ ++ [128512]%N ++ runes_of_ascii """) // `tick` ""quote"" 'q'
,// c
} , }packet repeatCount{@tag( 4294967296
    )  i8i8
// " ++ [27880; 37322]%N ++ runes_of_ascii "
//x
f32a,@lengthOf(  len )
i8i8 {As`
` // " ++ [128512]%N ++ runes_of_ascii " emoji
, },repeat
f64 asx , }
")).
Eval vm_compute in ("<<<M1106>>>" ++ check (runes_of_ascii "options
    {Pad //x
= """" ;// trailing space 
zchar =char[ 65535 ] Foo // c
= 1; } packet asx {
repeat char u128
// " ++ [27880; 37322]%N ++ runes_of_ascii "
//x
, i16 Pad ,x @lengthOf( Packet )`
`, @tag( 10 ) repeat float32	i64_
`// not a comment`,
@calculatedFrom("""") @calculatedFrom( """")
@calculatedFrom(
    ""it's"") repeat  BodyLength Foo ``, /// triple
matchKey
    As `say ""hi""` ,
@rightPad
( ' ' ) i8i8 BodyLength `" ++ [233]%N ++ runes_of_ascii "`, } packet Pad
{@tag( 10 ) match
o // a // b
as zchar {[  ""abc""
    ] : i8i8
,
""// no comment"" : T ,
} ,
u128  f32a`{ , }`,  @rightPad	( ) float64 Packet @lengthOf(	chars )  `it's`, @rightPad (
'0' /// triple
) repeat
    zchar
Packet `" ++ [28040; 24687; 31867; 22411]%N ++ runes_of_ascii "`
, @tag( 00
// a // b
/// triple
)@rightPad( '0' ) match u as	pack {""" ++ [28040; 24687]%N ++ runes_of_ascii """ : repeatCount ""abc"" : Foo  7:A ,
""\" ++ [233]%N ++ runes_of_ascii """// packet A { u8 x, }
:_x , } ,	As @lengthOf( int
    )
//
// " ++ [128512]%N ++ runes_of_ascii " emoji
, char[ 7 ] rootA
    @lengthOf( leftPad)
    `{ , }` , repeat f64 x , @calculatedFrom( """ ++ [128512]%N ++ runes_of_ascii """ )
char[] u128
,  }")).
Eval vm_compute in ("<<<M1042>>>" ++ check (runes_of_ascii "  MetaData
//
// a // b
float {stringy // packet A { u8 x, }
leftPad //
, }
root packet a1 /// triple
{ @lengthOf(	matchKey ) char[] int `
`
    ,char[
42] body `a\` , @leftPad ('0'
    ) T { zchar[
1 ] /// triple
u128
@lengthOf( repeatCount
) `
` , // trailing space 
} , @lengthOf(
msg_type
// `tick` ""quote"" 'q'
// @lengthOf(
)
    repeat uint16 rootA , @rightPad( ) repeat metadata i64_ `two words` , match leftPad as _x
{
// @lengthOf(
/// triple
00
    :charz
    , 7	:  float,// @lengthOf(
""CRC32"" :	float 0123456789  :	rootA } ,  rootA , zchar[	42
// " ++ [128512]%N ++ runes_of_ascii " emoji
// packet A { u8 x, }
]
    pack , @lengthOf( trueish)
    i64 Foo , //x
body
    `" ++ [28040; 24687; 31867; 22411]%N ++ runes_of_ascii "` , }packet T //
{repeat Packet ,
// trailing space 
// `tick` ""quote"" 'q'
char[]// @lengthOf(
x
`crlf
line`
, charz @lengthOf(
    pack //
) ,
char[
    // c
    0 ] As,
    @calculatedFrom( """ ++ [28040; 24687]%N ++ runes_of_ascii """
    )MetaDataX ,}")).
Eval vm_compute in ("<<<M1103>>>" ++ check (runes_of_ascii "/// triple
packet // packet A { u8 x, }
asx{stringy BodyLength `doc`,
    @tag( 00 ) A
    {  f32a  , i32 // @lengthOf(
x_y_z @calculatedFrom( //
""1"" ) `doc`, u32 // packet A { u8 x, }
x_y_z
    `" ++ [28040; 24687; 31867; 22411]%N ++ runes_of_ascii "` , uint16
o `a\`
, // a // b
} ,
//x
// trailing space 
@leftPad ( ' ' )
x_y_z @calculatedFrom( ""x y"" ) `{ , }` ,
@calculatedFrom(
""{,}""
    // " ++ [27880; 37322]%N ++ runes_of_ascii "
    )	MetaDataX ,
    }packet x_y_z {
    @calculatedFrom(
""a\\"" )
repeat char[
    4294967296 ]	zchar
    // `tick` ""quote"" 'q'
    `it's` , @tag( 10
)
matchKey
    @calculatedFrom( ""CRC32"")  , @calculatedFrom( ""it's"") repeat uint8x
, zchar[ 7 ]  msg_type @lengthOf( crc )
    `line1
line2` ,falsey { x_y_z MetaDataX, int32 chars `" ++ [233]%N ++ runes_of_ascii "`
// " ++ [128512]%N ++ runes_of_ascii " emoji
// " ++ [128512]%N ++ runes_of_ascii " emoji
, char[]
stringy @calculatedFrom( """ ++ [128512]%N ++ runes_of_ascii """
    )`" ++ [233]%N ++ runes_of_ascii "`,} ,@calculatedFrom(  ""abc""
// a // b
// a // b
) repeat char Z9_ , }
")).
Eval vm_compute in ("<<<M3781>>>" ++ check (runes_of_ascii "
options

{	len=	int8  /// triple
    Header
    =
	'0'
;

} packet
options1
	{  @calculatedFrom(

""{,}"" )
	repeat//
    body
    ,

    }

    packet  uint8x	{	repeat
int8  f32a
    , }

    packet	As{ match u128
as o {0

    : len 
,
	    // c

	}
, @calculatedFrom(""""	)

zchar// @lengthOf(
	As,  zchar[
	00]u8x
, @lengthOf(	u8x )match
stringy

    as
o

{[ ""1""
,
""\" ++ [233]%N ++ runes_of_ascii """
]// " ++ [128512]%N ++ runes_of_ascii " emoji
  :
repeatCount

,  [
	7
, 
	// " ++ [27880; 37322]%N ++ runes_of_ascii "
	3
	,
""1""
,  007 ,
""\n""
    , 0 
]:	metadata
,	//	t
    ""it's"":o
	,
	00:
roots ,4294967296 :uint8x
,}  , @calculatedFrom(
	""it's""
    )
@tag(
3)	int
    @lengthOf( int 
)
    ,
    char[]

asx
@calculatedFrom( 
""a\""b"" )
`a\` ,int16
    charz

    , 
  //	t
	string x_y_z
@lengthOf( int
    )`a\`

    ,	i64 o

    ,}
root packet  zchar	{  }

")).
Eval vm_compute in ("<<<M3670>>>" ++ check (runes_of_ascii "
//x
  root
	packet 
Z9_
{@calculatedFrom(
""a\\"" )	zchar[ 1 ] 	 // @lengthOf(
  a1 @lengthOf(Z9_ 
)

    ,

@tag(0123456789) @lengthOf(
Header )@tag( 4294967296)
    uint8 u128
	,
i16  msg_type	// trailing space 
,

tag

matchKey  ,repeat	i8
options1`tab	here`	,

repeat /// triple
  f32a
Z9_
,  
      /// triple
//	t

match  tag
	as

    Foo {	42
    : 
Logon ,
	[ 4294967296
	]

:Pad

,
3 :
a1

,

[

    007	,

1
	] 
:a1
    , } , // packet A { u8 x, }
	repeat zchar{

repeat //

u8 options1 // c
  , 
leftPad{ msg_type 
, } ,
	leftPad
@lengthOf(string_

)
	`a\`
	,} , zchar charz ,	string tag

    @calculatedFrom( ""{,}""	)	,	// " ++ [27880; 37322]%N ++ runes_of_ascii "
  	}  packet  // @lengthOf(

u128 {
@tag(	// " ++ [27880; 37322]%N ++ runes_of_ascii "
	4294967296 ) @tag( 42 )
	f32a 
@lengthOf(float )	`" ++ [233]%N ++ runes_of_ascii "`
, 
}")).
Eval vm_compute in ("<<<M3918>>>" ++ check (runes_of_ascii "options {
    StringPrefixLenType = u16;
    ArrayPrefixLenType = u32;
    FixedStringPadFromLeft = false;
    FixedStringPadChar = '0';
}

packet Logout {
    f64 f1,
    i16 Note,
    @rightPad('\x00')
    char[11] Flags,
}

packet Cancel {
    float64 msgKind,
}

packet Reject {
    InQty43 {
        float32 sym,
        char[10] Tail,
        uint8 venue,
        uint16 f1,
        char[9] Acct,
    },
}

packet Trade {
    char[] x,
    zchar[6] Note,
    repeat Reject,
}

root packet Order {
    Cancel,
    Logout,
    u64 Acct,
    u32 OrderId,
    match OrderId as Body {
        [127, 70] : Reject,
        177 : Trade,
        58 : Logout,
        75 : Cancel,
    },
    u32 Tail @calculatedFrom(""CRC32""),
}")).
Eval vm_compute in ("<<<M1353>>>" ++ check (runes_of_ascii "root  packet uint8x
    { }options {
    o	=
//x
//
' '
; x_y_z= 0123456789 stringy= ""packet"" }
packet
    A
    { match falsey as string_ {
""" ++ [28040; 24687]%N ++ runes_of_ascii """	: packetx , 0 :BodyLength , } // @lengthOf(
,
float32// " ++ [27880; 37322]%N ++ runes_of_ascii "
string_ @lengthOf(
    a1) ,
trueish @calculatedFrom( ""abc"" ),
@leftPad //	t
(  '0' )string matchKey
    @lengthOf( x_y_z )  ``
,
leftPad {trueish @calculatedFrom(""a\""b"" ) // c
,}, // `tick` ""quote"" 'q'
@tag( 1
    // trailing space 
    )repeat float64 calculatedFrom`{ , }` , @leftPad
    // @lengthOf(
    (
'\x00' )match Z9_ //	t
as
crc
    { [0]  : a1 , //
} , _x @lengthOf( T )// trailing space 
, x_y_z `" ++ [28040; 24687; 31867; 22411]%N ++ runes_of_ascii "`
// c
// `tick` ""quote"" 'q'
,
repeat char[] Z9_  , }
// " ++ [27880; 37322]%N ++ runes_of_ascii "
")).
Eval vm_compute in ("<<<M1306>>>" ++ check (runes_of_ascii "root packet a1
{@leftPad ()repeat
pack {repeat
Header`doc`
, } , } packet u {//x
@tag( 65535) @tag( 007	)
    repeat	uint8x {
    match Packet as trueish {
    [ ""1""
    , 255 , //	t
65535
]: trueish ,// @lengthOf(
""" ++ [233]%N ++ runes_of_ascii "t" ++ [233]%N ++ runes_of_ascii """ :
    chars
, """ ++ [233]%N ++ runes_of_ascii "t" ++ [233]%N ++ runes_of_ascii """:
stringy	""// no comment"" : body
,""\" ++ [233]%N ++ runes_of_ascii """ : body , } , repeat a1 options1 //	t
, match	uint8x as Header  { [
    ""packet""
    ]
    : uint8x
, 10 :
BodyLength
,[	007
]: Foo ,	007 :	T , ""\n"" :
asx }, char[
42
]
As
, } , @calculatedFrom(
""abc"" ) @rightPad // " ++ [128512]%N ++ runes_of_ascii " emoji
( ) matchKey ``
    , Logon
o ,
    @calculatedFrom(  ""`tick`""
) repeat a1{ // c
int8
    len
,	}
// " ++ [27880; 37322]%N ++ runes_of_ascii "
// `tick` ""quote"" 'q'
, }
// trailing space 
")).
Eval vm_compute in ("<<<M4186>>>" ++ check (runes_of_ascii "//x
packet Packet {
}// " ++ [128512]%N ++ runes_of_ascii " emoji

packet A {
    @calculatedFrom(""a	b"")
    @tag(00)
    char[4294967296] u128 ``,
}

options {
    lengthOf = """ ++ [233]%N ++ runes_of_ascii "t" ++ [233]%N ++ runes_of_ascii """;
    crc = ""CRC32"";
}

packet crc {
    @tag(255)
    @rightPad()
    repeat Pad,
    zchar[3] charz @lengthOf(zchar) `say ""hi""`,
    repeat Header string_ ``,
    len @calculatedFrom(""`tick`""),
    @tag(65535)
    match chars as msg_type {
        4294967296 : roots,
        """ ++ [233]%N ++ runes_of_ascii "t" ++ [233]%N ++ runes_of_ascii """ : _x,
        ""CRC32"" : leftPad,
        // packet A { u8 x, }
        42 : MetaDataX,
        // a // b
        // c
        [""a	b""] : i64_,
        /// triple
        ""`tick`"" : MetaDataX,
    },
}")).
Eval vm_compute in ("<<<M834>>>" ++ check (runes_of_ascii "  packet Pad
{ @tag(	0123456789)	float64 metadata `a\`
, @calculatedFrom( ""a\""b""
)	@lengthOf( //	t
matchKey )uint8
leftPad `it's`, i32 chars `two words` , @leftPad ( ' ')@calculatedFrom(
""{,}"" ) leftPad	`" ++ [233]%N ++ runes_of_ascii "` , char[
00 ] options1 `" ++ [233]%N ++ runes_of_ascii "` ,
    repeat repeatCount
    { repeat zchar
{ char[ 65535 ]
    // a // b
    lengthOf@lengthOf( As ) `{ , }`
    ,}
,
As _x , a1 //
``	,
calculatedFrom `{ , }` ,
    } ,@lengthOf(  calculatedFrom )match
    o as  x_y_z{  00: A ,
    42: lengthOf , [""packet"" ,
    10 ] :charz , [""{,}""
//
// `tick` ""quote"" 'q'
, 1
]  : tag // trailing space 
[""{,}""] :int
, }  ,	}
")).
Eval vm_compute in ("<<<M4012>>>" ++ check (runes_of_ascii "/// triple
root packet x {
    @rightPad()
    // trailing space 
    string f32a `two words`,
    match MetaDataX as packetx {
        ""CRC32"" : metadata,
        ""\" ++ [233]%N ++ runes_of_ascii """ : leftPad,
        // packet A { u8 x, }
        // trailing space 
        [
            ""// no comment"", 00, 4294967296, 10, 65535,
            ""`tick`"", ""a\""b""
        ] : chars,
        """ ++ [28040; 24687]%N ++ runes_of_ascii """ : Foo,
        ""a\\"" : calculatedFrom,
    },
    @calculatedFrom(""a\\"")
    @lengthOf(A)
    @calculatedFrom(""" ++ [128512]%N ++ runes_of_ascii """)
    x_y_z,
    repeat crc {
        string repeatCount,
    },
}

options {
}")).
Eval vm_compute in ("<<<M1040>>>" ++ check (runes_of_ascii "
options	{ zchar =	false ; Packet = ""`tick`"" ;	a1 =
    // c
    char[]
    ; Packet =0123456789 ; }	packet msg_type  { /// triple
@lengthOf( u128
) body	@lengthOf( len ) ,@calculatedFrom( ""CRC32""
)
zchar[
    /// triple
    007 ]// packet A { u8 x, }
repeatCount@lengthOf(
Foo)  `it's` , i16 leftPad @calculatedFrom(""a\\"")
`u8 x,` ,
    /// triple
    float ,
@lengthOf(a1 )As @lengthOf( rootA ) `doc` // @lengthOf(
, // " ++ [128512]%N ++ runes_of_ascii " emoji
f32 o
@calculatedFrom(""a	b"" )  `tab	here` ,
    } options
// @lengthOf(
// " ++ [27880; 37322]%N ++ runes_of_ascii "
{ } options { }

")).
Eval vm_compute in ("<<<M565>>>" ++ check (runes_of_ascii "
MetaData float { u32 metadata
, } root
packet BodyLength { } packet float  {@calculatedFrom( ""\n""
) int16 o
    ,
} MetaData stringy// `tick` ""quote"" 'q'
{ } root	packet body
{ char[255 ] BodyLength	,	@rightPad (
    '\x00' ) u8 body`` , leftPad	@calculatedFrom( /// triple
""a\\"" ) ,@lengthOf(options1 ) _x f32a
`{ , }`
    // " ++ [27880; 37322]%N ++ runes_of_ascii "
    , @lengthOf(x )// @lengthOf(
body
`tab	here` , i64 zchar `" ++ [233]%N ++ runes_of_ascii "`, /// triple
@tag(
0123456789// " ++ [27880; 37322]%N ++ runes_of_ascii "
)	match
    BodyLength as A{ 10 : crc , }
    , } // @lengthOf(")).
Eval vm_compute in ("<<<M11>>>" ++ check (runes_of_ascii "packet u128 {
@rightPad ( )
@tag( 7) stringy
body , }// packet A { u8 x, }
root
    packet // " ++ [27880; 37322]%N ++ runes_of_ascii "
i64_
    { }
    packet falsey	{
float@lengthOf(_x //	t
)`" ++ [233]%N ++ runes_of_ascii "`
, i32 a1 ,
u {//	t
string	crc
,  } ,@leftPad
    // a // b
    (
)repeat
    options1 { calculatedFrom @calculatedFrom(
    ""it's"" ) `{ , }`	, zchar falsey `u8 x,` ,repeat falsey  , }
// packet A { u8 x, }
//x
, }root // " ++ [128512]%N ++ runes_of_ascii " emoji
packet pack
    { @tag( 0123456789 ) // @lengthOf(
repeat
//
// " ++ [27880; 37322]%N ++ runes_of_ascii "
uint32
roots, }")).
Eval vm_compute in ("<<<M1359>>>" ++ check (runes_of_ascii "MetaData calculatedFrom { float // " ++ [27880; 37322]%N ++ runes_of_ascii "
len , u8
uint8x , falsey	string_
// packet A { u8 x, }
// a // b
,
} MetaData
falsey { } packet // @lengthOf(
T
{
//x
//x
zchar[ 007 ] Packet @calculatedFrom(
    ""// no comment"" )`{ , }` , repeat
    u64 metadata //	t
,
u { char[255] T `u8 x,` , body,zchar[
255]	repeatCount
,},// a // b
@calculatedFrom( ""// no comment""
    )@leftPad( '\x00' )
@lengthOf(
    i64_) zchar[ 65535 ]float @lengthOf(trueish ) , }
")).
Eval vm_compute in ("<<<M373>>>" ++ check (runes_of_ascii "root	packet chars
{ falsey , uint64 f32a @lengthOf( lengthOf
) , // c
}MetaData T{ char[] As ,
} // trailing space 
packet
tag {
    i64
    Foo @lengthOf(
    a1 ),@calculatedFrom(""" ++ [128512]%N ++ runes_of_ascii """ ) @leftPad ( '\x00'// " ++ [128512]%N ++ runes_of_ascii " emoji
)
    // a // b
    @leftPad('\x00')
repeat Foo MetaDataX , } root
packet body {
repeat u64
    MetaDataX `u8 x,` ,
@rightPad
    (
    ' ' )
charz	@lengthOf(matchKey ) ,	@calculatedFrom(
""""
    )len @lengthOf(tag )
, }
")).
Eval vm_compute in ("<<<M4060>>>" ++ check (runes_of_ascii "
packet
    i64_ { x_y_z
`it's`

, 
o	@lengthOf( 
i64_) 

    // a // b

,	char[ 007]
trueish
// trailing space 
	/// triple

@lengthOf(	leftPad 
),
} 
MetaData
    tag {
char[ 65535

] 

// c
  /// triple
    	pack

,
	int64
Logon  `two words` 
,	// a // b

}
packet
u8x

    {
	float64

    lengthOf , 
repeat char[]
	As ,u

BodyLength ,tag {
	repeat
BodyLength
	{ 	 // a // b
uint16
	zchar`doc` , } , }
,}
")).
Eval vm_compute in ("<<<M1043>>>" ++ check (runes_of_ascii "packet // `tick` ""quote"" 'q'
i8i8 {
    // c
    } MetaData repeatCount
    //	t
    {f32a leftPad
    /// triple
    `" ++ [233]%N ++ runes_of_ascii "` /// triple
, BodyLength leftPad `line1
line2`	, }packet lengthOf
{	@lengthOf( tag)zchar[ 65535] stringy `
` ,match // packet A { u8 x, }
f32a
    as
u8x { 255 : o, [	007
, // c
""" ++ [28040; 24687]%N ++ runes_of_ascii """ , 255, 7, 3
]//x
:body , ""\" ++ [233]%N ++ runes_of_ascii """
    :  zchar	, }, @leftPad( '\x00' ) Pad @calculatedFrom(  """ ++ [28040; 24687]%N ++ runes_of_ascii """
) , }")).
Eval vm_compute in ("<<<M361>>>" ++ check (runes_of_ascii "// c
packet float// `tick` ""quote"" 'q'
{ match tag
as	x // " ++ [128512]%N ++ runes_of_ascii " emoji
{
""\n"" :
    // a // b
    A ,
} , @lengthOf(
    o ) A  , char[ 4294967296 ] o @lengthOf( // packet A { u8 x, }
a1 ) , }	packet x {
    char[
3 ] BodyLength
, }
packet Header { @lengthOf( stringy )
@tag(42	)@calculatedFrom(""1"" ) zchar[ 0123456789 ] As
@lengthOf(
    // a // b
    packetx ) `// not a comment` , } //	t")).
Eval vm_compute in ("<<<M4337>>>" ++ check (runes_of_ascii "root packet A {
    /// triple
    repeat string Packet `say ""hi""`,
}

MetaData o {
    char[] u128 `line1
        line2`,
    lengthOf x_y_z,
    char[1] i8i8 `a\`,
    int16 leftPad `two words`,
    i16 asx,
}// packet A { u8 x, }

MetaData charz {
    Header a1,
    Header trueish `u8 x,`,
    u128 stringy,
    uint8 matchKey,
    uint32 options1,
    matchKey i8i8,
}")).
Eval vm_compute in ("<<<M304>>>" ++ check (runes_of_ascii "
MetaData
a1 {
u128// @lengthOf(
As ,char[
4294967296] lengthOf ,
uint64 msg_type	, x_y_z f32a
, float32	o // " ++ [27880; 37322]%N ++ runes_of_ascii "
,	} options
// " ++ [27880; 37322]%N ++ runes_of_ascii "
// " ++ [128512]%N ++ runes_of_ascii " emoji
{
//x
// @lengthOf(
}MetaData string_
    {
}
packet roots {
repeat f32 As `" ++ [28040; 24687; 31867; 22411]%N ++ runes_of_ascii "` , } options {
    // " ++ [128512]%N ++ runes_of_ascii " emoji
    uint8x = ""a	b""Packet//
=42
;pack =
    10
    ;
    tag= string	; repeatCount = // " ++ [27880; 37322]%N ++ runes_of_ascii "
char[ 0	] ; }")).
Eval vm_compute in ("<<<M3563>>>" ++ check (runes_of_ascii "root
	packet

Foo // " ++ [128512]%N ++ runes_of_ascii " emoji

	{ }  options { 
    // a // b
  	tag	// `tick` ""quote"" 'q'
=//	t
  	""""
    ;  u8x =
	zchar[

    0 ] 
}

    MetaData int

    {zchar[10 ]
	lengthOf`` 
,
	i64 u8x  `// not a comment`
    , MetaDataX

    pack  // `tick` ""quote"" 'q'
	`crlf
line`,

    Logon 
charz`crlf
line` , 
//'1' a // b
		}
")).
Eval vm_compute in ("<<<M4230>>>" ++ check (runes_of_ascii "packet o {
    @lengthOf(As)
    calculatedFrom @lengthOf(matchKey),// a // b
}

packet options1 {
    match x as Foo {
        [""a\""b"", 7] : u128,
        """ ++ [128512]%N ++ runes_of_ascii """ : Packet,
    },
    repeat pack len `tab	here`,
    msg_type,
    @calculatedFrom(""" ++ [128512]%N ++ runes_of_ascii """)
    char[10] zchar,
}

options {
    metadata = ""CRC32"";
    uint8x = false;
}")).
Eval vm_compute in ("<<<M1020>>>" ++ check (runes_of_ascii "packet
stringy { string_
    , }
packet
rootA
    { f32
A @lengthOf( lengthOf ) , @calculatedFrom(	""" ++ [233]%N ++ runes_of_ascii "t" ++ [233]%N ++ runes_of_ascii """ )zchar[ 4294967296// " ++ [27880; 37322]%N ++ runes_of_ascii "
] float @lengthOf( Foo ) ,
@rightPad (
    '0' )
// `tick` ""quote"" 'q'
// packet A { u8 x, }
string
body
`" ++ [233]%N ++ runes_of_ascii "` ,char[ 42
//	t
// packet A { u8 x, }
] Logon @lengthOf( uint8x ) `u8 x,` , }
")).
Eval vm_compute in ("<<<M3671>>>" ++ check (runes_of_ascii "packet chars {
}

packet int {
    options1 {
        repeat int32 u,
        char[] Pad `" ++ [28040; 24687; 31867; 22411]%N ++ runes_of_ascii "`,
    },
    repeat char[] T,
    match u128 as Packet {
        ""\n"" : MetaDataX,
        ""\n"" : falsey,
        ""a	b"" : i8i8,
        ""it's"" : options1,
        ""`tick`"" : pack,
        ""\" ++ [233]%N ++ runes_of_ascii """ : int,
    },
}")).
Eval vm_compute in ("<<<M1542>>>" ++ check (runes_of_ascii "root packet Foo // " ++ [128512]%N ++ runes_of_ascii " emoji
{ } options {
    // a // b
    tag // `tick` ""quote"" 'q'
= //	t
""""
    ; u8x = zchar[0  ] }
MetaData
    int {zchar[ 10]
lengthOf	`` , float64 u8x`// not a comment` ,MetaDataX pack// `tick` ""quote"" 'q'
`crlf
line`
, Logon charz `crlf
line`
    ,
    // a // b
    }
")).
Eval vm_compute in ("<<<M1505>>>" ++ check (runes_of_ascii "root packet Foo // " ++ [128512]%N ++ runes_of_ascii " emoji
{ } options {
    // a // b
    tag // `tick` ""quote"" 'q'
= //	t
""""
    ; u8x = zchar[0  ] }
MetaData
    int { {zchar[ 10]
lengthOf	`` , i64 u8x`// not a comment` ,MetaDataX pack// `tick` ""quote"" 'q'
`crlf
line`
, Logon charz `crlf
line`
    ,
    // a // b
    }
")).
Eval vm_compute in ("<<<M1417>>>" ++ check (runes_of_ascii "root uint64 Foo // " ++ [128512]%N ++ runes_of_ascii " emoji
{ } options {
    // a // b
    tag // `tick` ""quote"" 'q'
= //	t
""""
    ; u8x = zchar[0  ] }
MetaData
    int {zchar[ 10]
lengthOf	`` , i64 u8x`// not a comment` ,MetaDataX pack// `tick` ""quote"" 'q'
`crlf
line`
, Logon charz `crlf
line`
    ,
    // a // b
    }
")).
Eval vm_compute in ("<<<M1581>>>" ++ check (runes_of_ascii "root packet Foo // " ++ [128512]%N ++ runes_of_ascii " emoji
{ } options {
    // a // b
    tag // `tick` ""quote"" 'q'
= //	t
""""
    ; u8x = zchar[0  ] }
MetaData
    int {zchar[ 10]
lengthOf	`` , i64 u8x`// not a comment` ,MetaDataX pack// `tick` ""quote"" 'q'
`crlf
line`
, charz Logon `crlf
line`
    ,
    // a // b
    }
")).
Eval vm_compute in ("<<<M318>>>" ++ check (runes_of_ascii "
packet As { @leftPad
( )
    @leftPad ( ' '  )char[] zchar, A string_
`" ++ [233]%N ++ runes_of_ascii "`
,
a1
    {	Z9_ @lengthOf(
    repeatCount )
    , u128
{ zchar[4294967296 ] crc
//x
//
@calculatedFrom(  ""packet"" ) ,repeat char x_y_z, }
,	u8
    Logon	@calculatedFrom(
    """ ++ [233]%N ++ runes_of_ascii "t" ++ [233]%N ++ runes_of_ascii """ ) , }, }
packet
u { } // " ++ [128512]%N ++ runes_of_ascii " emoji")).
Eval vm_compute in ("<<<M1474>>>" ++ check (runes_of_ascii "root packet Foo // " ++ [128512]%N ++ runes_of_ascii " emoji
{ } options {
    // a // b
    tag // `tick` ""quote"" 'q'
= //	t
""""
    ; u8x = 0  ] }
MetaData
    int {zchar[ 10]
lengthOf	`` , i64 u8x`// not a comment` ,MetaDataX pack// `tick` ""quote"" 'q'
`crlf
line`
, Logon charz `crlf
line`
    ,
    // a // b
    }
")).
Eval vm_compute in ("<<<M1152>>>" ++ check (runes_of_ascii "MetaData x_y_z{
} packet Foo{  repeat i64_{
int32 f32a
    , } , i8i8
    @lengthOf( lengthOf ) , @lengthOf( matchKey ) @leftPad
(
    '0'	) repeat uint8x { u{ zchar[
7]
    i64_ @calculatedFrom( ""\" ++ [233]%N ++ runes_of_ascii """ ) `two words` , repeat char[] Z9_ `doc`,	} , }
, f32 calculatedFrom `doc`	,}
")).
Eval vm_compute in ("<<<M1598>>>" ++ check (runes_of_ascii "root packet Foo // " ++ [128512]%N ++ runes_of_ascii " emoji
{ } options {
    // a // b
    tag // `tick` ""quote"" 'q'
= //	t
""""
    ; u8x = zchar[0  ] }
MetaData
    int {zchar[ 10]
lengthOf	`` , i64 u8x`// not a comment` ,MetaDataX pack// `tick` ""quote"" 'q'
`crlf
line`
, Logon charz `crlf
line`")).
Eval vm_compute in ("<<<M3825>>>" ++ check (runes_of_ascii "
MetaData
pack

    { Header
len
	,}packet i8i8 {

    pack @lengthOf( 	 // @lengthOf(
  	int
	)
    ,
} root packet

// `tick` ""quote"" 'q'
	// c
    MetaDataX
{ 
char[
007  ]

metadata ,}  MetaData  //x
	MetaDataX {	int
        //x
    	o	,
}
")).
Eval vm_compute in ("<<<M4000>>>" ++ check (runes_of_ascii "options 
{  uint8x =""\n""
	; 
  // " ++ [128512]%N ++ runes_of_ascii " emoji
  // packet A { u8 x, }
    	} packet  
      //
  repeatCount
    {  roots len,

    @lengthOf(
	f32a
    )
        // `tick` ""quote"" 'q'
o
`say ""hi""` ,} //	t

	options //x
  {
	a1

=
u32
    ;
	}

")).
Eval vm_compute in ("<<<M4244>>>" ++ check (runes_of_ascii "// a // b
      packet	/// triple
	tag{ 
match As as o{
    ""`tick`"" 
:	float , }

,

    string 	 // c
    u128`two words` ,	}
// " ++ [27880; 37322]%N ++ runes_of_ascii "

// packet A { u8 x, }
	packet

    lengthOf
	{

int64
	u@calculatedFrom(  """ ++ [233]%N ++ runes_of_ascii "t" ++ [233]%N ++ runes_of_ascii """
)

    ,
}")).
Eval vm_compute in ("<<<M3551>>>" ++ check (runes_of_ascii "packet Sub {
    u8 a,
    u32 SubSum @calculatedFrom(""CRC16""),
}
root packet Frame {
    u16 MsgType,
    u16 BodyLen @lengthOf(Body),
    Sub Body,
    string note,
    u32 Checksum @calculatedFrom(""CRC16""),
    u8 tail,
}
")).
Eval vm_compute in ("<<<M2293>>>" ++ check (runes_of_ascii "MetaData Packet { }packet	asx  { @lengthOf( asx) falsey`crlf
line`
,
    }
    packet x	string uint32// @lengthOf(
rootA	,u32 options1 `say ""hi""` , @tag( 7
    )// packet A { u8 x, }
msg_type @lengthOf(
stringy	)	, }

")).
Eval vm_compute in ("<<<M2298>>>" ++ check (runes_of_ascii "MetaData Packet { }packet	asx  { @lengthOf( asx) falsey`crlf
line`
,
    }
    packet x	{@leftPad// @lengthOf(
rootA	,u32 options1 `say ""hi""` , @tag( 7
    )// packet A { u8 x, }
msg_type @lengthOf(
stringy	)	, }

")).
Eval vm_compute in ("<<<M2214>>>" ++ check (runes_of_ascii "Packet MetaData { }packet	asx  { @lengthOf( asx) falsey`crlf
line`
,
    }
    packet x	{uint32// @lengthOf(
rootA	,u32 options1 `say ""hi""` , @tag( 7
    )// packet A { u8 x, }
msg_type @lengthOf(
stringy	)	, }

")).
Eval vm_compute in ("<<<M3289>>>" ++ check (runes_of_ascii "// top
packet // c0
o // c1
{ // c2
@tag( // c3
42 // c4
) // c5
repeat // c6
x // c7
{ // c8
char[ // c9
0123456789 // c10
] // c11
i64_ // c12
, // c13
} // c14
, // c15
} // c16
options // c17
{ // c18
} // c19
")).
Eval vm_compute in ("<<<M2394>>>" ++ check (runes_of_ascii "MetaData a" ++ [769]%N ++ runes_of_ascii "b { }packet	asx  { @lengthOf( asx) falsey`crlf
line`
,
    }
    packet x	{uint32// @lengthOf(
rootA	,u32 options1 `say ""hi""` , @tag( 7
    )// packet A { u8 x, }
msg_type @lengthOf(
stringy	)	, }

")).
Eval vm_compute in ("<<<M839>>>" ++ check (runes_of_ascii "packet Z9_ { i32 body
,	u64 u8x @lengthOf(
    // trailing space 
    x_y_z ) ,@lengthOf( u128
    ) zchar[
    00 ] stringy,
repeat uint8
leftPad , } packet matchKey { } // @lengthOf(
packet pack //
{}
")).
Eval vm_compute in ("<<<M637>>>" ++ check (runes_of_ascii "root //
packet A // packet A { u8 x, }
{ @lengthOf( calculatedFrom )
@tag( 65535 ) charz @lengthOf(charz
    )  , } options {
crc
= 65535 }
options
    {leftPad // @lengthOf(
=1
    A =
true
;
}
")).
Eval vm_compute in ("<<<M604>>>" ++ check (runes_of_ascii "options { rootA = '\x00' _x = true
//
// @lengthOf(
}
    packet //
uint8x
{ uint16 u
    /// triple
    @lengthOf( x_y_z )
    //
    `say ""hi""` ,} MetaData // @lengthOf(
_x { } options
{ }
")).
Eval vm_compute in ("<<<M3839>>>" ++ check (runes_of_ascii "packet stringy {
    @tag(0)
    // packet A { u8 x, }
    repeatCount,
    @calculatedFrom("""")
    body falsey,
    @lengthOf(chars)
    repeat x_y_z `two words`,
    repeatCount Pad,
}")).
Eval vm_compute in ("<<<M162>>>" ++ check (runes_of_ascii "packet float {// a // b
@lengthOf(
    T ) repeat charz
    {
    // c
    packetx @calculatedFrom( """ ++ [28040; 24687]%N ++ runes_of_ascii """)
    `" ++ [233]%N ++ runes_of_ascii "` // " ++ [27880; 37322]%N ++ runes_of_ascii "
, char[
4294967296 //x
]Header	,  }
    , } /// triple")).
Eval vm_compute in ("<<<M295>>>" ++ check (runes_of_ascii "options{zchar
=7 ;
// c
// packet A { u8 x, }
msg_type =	uint8 falsey =	1 ;
}
    MetaData  Pad// @lengthOf(
{ f64	u `tab	here`
,// a // b
}	options {
    }
// " ++ [128512]%N ++ runes_of_ascii " emoji
")).
Eval vm_compute in ("<<<M1258>>>" ++ check (runes_of_ascii "packet
    stringy { @tag( 007
)
@calculatedFrom(
""packet""
    ) repeat// " ++ [27880; 37322]%N ++ runes_of_ascii "
i64
    x, _x// a // b
, repeat char[7]Packet , }root packet body	{ i32	Pad
,
    }")).
Eval vm_compute in ("<<<M421>>>" ++ check (runes_of_ascii "// c
options
{	x
    = ""1"" x =	'\x00'	; body =65535
    // `tick` ""quote"" 'q'
    ; repeatCount = // packet A { u8 x, }
' '
trueish = // " ++ [128512]%N ++ runes_of_ascii " emoji
char[]
}
")).
Eval vm_compute in ("<<<M55>>>" ++ check (runes_of_ascii "
packet Foo
    {
    repeat
int
    //x
    { string u @calculatedFrom( ""packet"")	`` // @lengthOf(
,}
,zchar[ 007 ]  A
    `doc`, }
options { }")).
Eval vm_compute in ("<<<M1518>>>" ++ check (runes_of_ascii "root packet Foo // " ++ [128512]%N ++ runes_of_ascii " emoji
{ } options {
    // a // b
    tag // `tick` ""quote"" 'q'
= //	t
""""
    ; u8x = zchar[0  ] }
MetaData
    int {zchar[")).
Eval vm_compute in ("<<<M1513>>>" ++ check (runes_of_ascii "root packet Foo // " ++ [128512]%N ++ runes_of_ascii " emoji
{ } options {
    // a // b
    tag // `tick` ""quote"" 'q'
= //	t
""""
    ; u8x = zchar[0  ] }
MetaData
    int {")).
Eval vm_compute in ("<<<M3786>>>" ++ check (runes_of_ascii "root packet rootA {
    i32 MetaDataX @calculatedFrom(""CRC32"") `line1
    lin@lengthOfe2`,
}

MetaData BodyLength {
    u8 rootA,
}// c")).
Eval vm_compute in ("<<<M1725>>>" ++ check (runes_of_ascii "'' root packet /// triple
rootA {	i32
MetaDataX@calculatedFrom( ""CRC32"" ) `line1
line2` , } MetaData BodyLength {
u8
rootA, } // c")).
Eval vm_compute in ("<<<M1730>>>" ++ check (runes_of_ascii "root pac#ket /// triple
rootA {	i32
MetaDataX@calculatedFrom( ""CRC32"" ) `line1
line2` , } MetaData BodyLength {
u8
rootA, } // c")).
Eval vm_compute in ("<<<M1692>>>" ++ check (runes_of_ascii "root packet /// triple
rootA {	i32
MetaDataX@calculatedFrom( ""CRC32"" ) `line1
line2` , } MetaData BodyLength 
u8
rootA, } // c")).
Eval vm_compute in ("<<<M3791>>>" ++ check (runes_of_ascii "
packet

    A
	{

Inner {	match k
    as	n { 
[

    1
, 
22
    ,007

,
4,5
,66

    ]: B
,

    }

    ,} ,}

")).
Eval vm_compute in ("<<<M3930>>>" ++ check (runes_of_ascii "options {
    Header = false
    float = ""abc"";
    i64_ = false;
}

options {
    //
    //x
    repeatCount = ""a\\"";
}
//")).
Eval vm_compute in ("<<<M485>>>" ++ check (runes_of_ascii "options{
    Pad =	string options1 =  char[ 65535 ] float= 3
    ;	falsey	=
    '\x00' // a // b
x=
    //x
    ' '  }
")).
Eval vm_compute in ("<<<M1893>>>" ++ check (runes_of_ascii "packet
    Pad // a // b
{ caf" ++ [233]%N ++ runes_of_ascii "_1 @calculatedFrom( ""a	b"") `u8 x,` ,
} options{ float// " ++ [128512]%N ++ runes_of_ascii " emoji
= f64 i64_
=//	t
00 }
")).
Eval vm_compute in ("<<<M1493>>>" ++ check (runes_of_ascii "root packet Foo // " ++ [128512]%N ++ runes_of_ascii " emoji
{ } options {
    // a // b
    tag // `tick` ""quote"" 'q'
= //	t
""""
    ; u8x = zchar[0  ]")).
Eval vm_compute in ("<<<M1825>>>" ++ check (runes_of_ascii "packet
    Pad // a // b
{ i8i8 @calculatedFrom( ""a	b"") `u8 x,` ,
 options{ float// " ++ [128512]%N ++ runes_of_ascii " emoji
= f64 i64_
=//	t
00 }
")).
Eval vm_compute in ("<<<M1488>>>" ++ check (runes_of_ascii "root packet Foo // " ++ [128512]%N ++ runes_of_ascii " emoji
{ } options {
    // a // b
    tag // `tick` ""quote"" 'q'
= //	t
""""
    ; u8x = zchar[0")).
Eval vm_compute in ("<<<M757>>>" ++ check (runes_of_ascii "root packet	charz	{ @tag(
    // trailing space 
    0123456789 )
string a1 `// not a comment` , }options {
}

")).
Eval vm_compute in ("<<<M4284>>>" ++ check (runes_of_ascii "packet 
Logon
{
	@tag(
    42
	)	@rightPad
( 
' ' )
@leftPad

()

repeat trueish{

string T ,} , // c
  }

")).
Eval vm_compute in ("<<<M317>>>" ++ check (runes_of_ascii "packet BodyLength
{
@calculatedFrom(	""""
)// c
char[  42 ]uint8x,} packet  len { uint64 a1  `{ , }`//x
,}
")).
Eval vm_compute in ("<<<M3340>>>" ++ check (runes_of_ascii "packet
// c
calculatedFrom { @tag( 4294967296 ) u msg_type , char[ 3 ] crc @lengthOf( len ) `u8 x,` , }")).
Eval vm_compute in ("<<<M3372>>>" ++ check (runes_of_ascii "packet calculatedFrom { @tag( 4294967296 ) u msg_type , char[ 3 ] crc @lengthOf( len ) `u8 x,`
// c
, }")).
Eval vm_compute in ("<<<M831>>>" ++ check (runes_of_ascii "packet
    u { }
MetaData string_ {
metadata
    msg_type , } options {pack= true; rootA= true }

")).
Eval vm_compute in ("<<<M2989>>>" ++ check (runes_of_ascii "packet A {
  match k as n {
    [1, 22, 007, 4, 5, 66, 7, 8, 9, 10, 11, 12] : B,
    2 : C
  },
}")).
Eval vm_compute in ("<<<M3216>>>" ++ check (runes_of_ascii "packet // c
Logon { @tag( 42 ) @rightPad ( ' ' ) @leftPad ( ) repeat trueish { string T , } , }")).
Eval vm_compute in ("<<<M3248>>>" ++ check (runes_of_ascii "packet Logon { @tag( 42 ) @rightPad ( ' ' ) @leftPad ( ) repeat trueish { string // c
T , } , }")).
Eval vm_compute in ("<<<M3855>>>" ++ check (runes_of_ascii "packet A {
    match k as n {
        [""a"", ""bb"", 007, ""d"", ""e""] : B,
        2 : C,
    },
}")).
Eval vm_compute in ("<<<M1959>>>" ++ check (runes_of_ascii "root root
packet crc
    { f32a @calculatedFrom( """ ++ [233]%N ++ runes_of_ascii "t" ++ [233]%N ++ runes_of_ascii """ )
    `say ""hi""`, lengthOf `` ,  }")).
Eval vm_compute in ("<<<M2012>>>" ++ check (runes_of_ascii "root
packet crc
    { f32a @calculatedFrom( """ ++ [233]%N ++ runes_of_ascii "t" ++ [233]%N ++ runes_of_ascii """ )
    `say ""hi""`, lengthOf `` `` ,  }")).
Eval vm_compute in ("<<<M4155>>>" ++ check (runes_of_ascii "packet A {
    match k as n {
        [1, 22, ""c c"", 4, 5] : B,
        2 : C,
    },
}")).
Eval vm_compute in ("<<<M1983>>>" ++ check (runes_of_ascii "root
packet crc
    { f32a """ ++ [233]%N ++ runes_of_ascii "t" ++ [233]%N ++ runes_of_ascii """ @calculatedFrom( )
    `say ""hi""`, lengthOf `` ,  }")).
Eval vm_compute in ("<<<M3631>>>" ++ check (runes_of_ascii "root packet x_y_z {
    // a // b
    // packet A { u8 x, }
    repeat falsey `" ++ [233]%N ++ runes_of_ascii "`,
}")).
Eval vm_compute in ("<<<M331>>>" ++ check (runes_of_ascii "MetaData
// a // b
//	t
rootA { } options //
{ tag // `tick` ""quote"" 'q'
=
3; }
")).
Eval vm_compute in ("<<<M3315>>>" ++ check (runes_of_ascii "packet o { @tag( 42 ) repeat x { char[ 0123456789
// c
] i64_ , } , } options { }")).
Eval vm_compute in ("<<<M3179>>>" ++ check (runes_of_ascii "packet A { u16 // a
 len // b
 @lengthOf( // c
 body // d
 ) // e
 `d` // f
 , }")).
Eval vm_compute in ("<<<M2925>>>" ++ check (runes_of_ascii "packet A {
  match k as n {
    [1, 22, 007, 4, 5, 66, 7] : B
    2 : C
  },
}")).
Eval vm_compute in ("<<<M3581>>>" ++ check (runes_of_ascii "packet 
      //	t
    //

	packetx 
{ repeat	zchar[
	007
	]Foo

    , }
")).
Eval vm_compute in ("<<<M702>>>" ++ check (runes_of_ascii "// packet A { u8 x, }
options{u
=string ;chars=
""" ++ [128512]%N ++ runes_of_ascii """ ; MetaDataX =false }
")).
Eval vm_compute in ("<<<M3394>>>" ++ check (runes_of_ascii "
// c
MetaData _x { zchar[ 4294967296 ] lengthOf `// not a comment` , }")).
Eval vm_compute in ("<<<M3407>>>" ++ check (runes_of_ascii "MetaData _x { zchar[ 4294967296 ] lengthOf // c
`// not a comment` , }")).
Eval vm_compute in ("<<<M2010>>>" ++ check (runes_of_ascii "root
packet crc
    { f32a @calculatedFrom( """ ++ [233]%N ++ runes_of_ascii "t" ++ [233]%N ++ runes_of_ascii """ )
    `say ""hi""`,")).
Eval vm_compute in ("<<<M2877>>>" ++ check (runes_of_ascii "packet A {
  match k as n {
    [1, ""bb"", 007] : B
    2 : C
  },
}")).
Eval vm_compute in ("<<<M428>>>" ++ check (runes_of_ascii "options{u128=
    '0' ; u128 = ' ' Logon=char[] A=
    char[];	}
")).
Eval vm_compute in ("<<<M2179>>>" ++ check (runes_of_ascii "root
    // `tick` ""quote"" 'q'
    packet As { trueish u64 , }
")).
Eval vm_compute in ("<<<M2863>>>" ++ check (runes_of_ascii "packet A {
  match k as n {
    [1, 22] : B,
    2 : C
  },
}")).
Eval vm_compute in ("<<<M3587>>>" ++ check (runes_of_ascii "

  packet  A
{zchar[

    3 ]
    x
	@lengthOf(
y) ,
	}
")).
Eval vm_compute in ("<<<M2375>>>" ++ check (runes_of_ascii "MetaData Packet { }packet	asx  { @lengthOf( asx) falsey`c")).
Eval vm_compute in ("<<<M1814>>>" ++ check (runes_of_ascii "packet
    Pad // a // b
{ i8i8 @calculatedFrom( ""a	b""")).
Eval vm_compute in ("<<<M2420>>>" ++ check (runes_of_ascii "MetaData caf" ++ [233]%N ++ runes_of_ascii "_1
{
i64
chars	, } // `tick` ""quote"" 'q'")).
Eval vm_compute in ("<<<M1938>>>" ++ check (runes_of_ascii "
packet	As { @calculatedFrom(//x
""{,}""	)lengthOf ,")).
Eval vm_compute in ("<<<M2820>>>" ++ check (runes_of_ascii "match char[] , uint64 as i64 root uint32 MetaData")).
Eval vm_compute in ("<<<M1768>>>" ++ check (runes_of_ascii "options { }optio''ns {  } // `tick` ""quote"" 'q'")).
Eval vm_compute in ("<<<M1778>>>" ++ check (runes_of_ascii "options { }options {  } // `tick` ""quote"" '<q'")).
Eval vm_compute in ("<<<M420>>>" ++ check (runes_of_ascii "options {
// " ++ [27880; 37322]%N ++ runes_of_ascii "
//
calculatedFrom
= false }")).
Eval vm_compute in ("<<<M3036>>>" ++ check (runes_of_ascii "MetaData M {
    u8 x `x
`,
    T t `x
`,
}")).
Eval vm_compute in ("<<<M2413>>>" ++ check (runes_of_ascii "[ A
{
i64
chars	, } // `tick` ""quote"" 'q'")).
Eval vm_compute in ("<<<M2744>>>" ++ check (runes_of_ascii "!}#nP]WB#d!4m &%rd=1Z\-""oa^ntV9;N*>hg2cq")).
Eval vm_compute in ("<<<M794>>>" ++ check (runes_of_ascii "// " ++ [128512]%N ++ runes_of_ascii " emoji
options { MetaDataX=string }")).
Eval vm_compute in ("<<<M2604>>>" ++ check (runes_of_ascii "packet A { match k as n { 1 : B,, }, }")).
Eval vm_compute in ("<<<M2729>>>" ++ check (runes_of_ascii "MetaData match @lengthOf( match 007 )")).
Eval vm_compute in ("<<<M2639>>>" ++ check (runes_of_ascii "root packet A { } root packet B { }")).
Eval vm_compute in ("<<<M2610>>>" ++ check (runes_of_ascii "packet A { match k n { 1 : B }, }")).
Eval vm_compute in ("<<<M661>>>" ++ check (runes_of_ascii "options  { metadata=""packet""	}
")).
Eval vm_compute in ("<<<M3068>>>" ++ check (runes_of_ascii "packet A {
 u8 x `d" ++ [12288]%N ++ runes_of_ascii "`, // c" ++ [12288]%N ++ runes_of_ascii "
}")).
Eval vm_compute in ("<<<M3162>>>" ++ check (runes_of_ascii "MetaData M {
}// c
options {}")).
Eval vm_compute in ("<<<M1202>>>" ++ check (runes_of_ascii "options {tag = ""it's"" ;
}
")).
Eval vm_compute in ("<<<M2084>>>" ++ check (runes_of_ascii "MetaData A { u64 pack\ , }")).
Eval vm_compute in ("<<<M2239>>>" ++ check (runes_of_ascii "MetaData Packet { }packet")).
Eval vm_compute in ("<<<M2098>>>" ++ check (runes_of_ascii "MetaData A { u64 " ++ [252]%N ++ runes_of_ascii "ber, }")).
Eval vm_compute in ("<<<M2051>>>" ++ check (runes_of_ascii "MetaData  { u64 pack, }")).
Eval vm_compute in ("<<<M1980>>>" ++ check (runes_of_ascii "root
packet crc
    {")).
Eval vm_compute in ("<<<M3154>>>" ++ check (runes_of_ascii "// a// bpacket A {}")).
Eval vm_compute in ("<<<M876>>>" ++ check (runes_of_ascii "// @lengthOf(
 //	t")).
Eval vm_compute in ("<<<M914>>>" ++ check (runes_of_ascii "packet
    As { }
")).
Eval vm_compute in ("<<<M3101>>>" ++ check (runes_of_ascii "packet A {
}
// c" ++ [8233]%N)).
Eval vm_compute in ("<<<M2653>>>" ++ check (runes_of_ascii "options { a = 1 }")).
Eval vm_compute in ("<<<M2070>>>" ++ check (runes_of_ascii "MetaData A { u64")).
Eval vm_compute in ("<<<M1794>>>" ++ check (runes_of_ascii "packet
    Pad")).
Eval vm_compute in ("<<<M2556>>>" ++ check (runes_of_ascii """" ++ [233]%N ++ runes_of_ascii """ `" ++ [21517]%N ++ runes_of_ascii "` // " ++ [252]%N)).
Eval vm_compute in ("<<<M1940>>>" ++ check (runes_of_ascii "
packet	A")).
Eval vm_compute in ("<<<M2489>>>" ++ check (runes_of_ascii "@tag(1)")).
Eval vm_compute in ("<<<M1334>>>" ++ check (runes_of_ascii "// c
")).
Eval vm_compute in ("<<<M3095>>>" ++ check (runes_of_ascii "// c" ++ [8232]%N)).
Eval vm_compute in ("<<<M2539>>>" ++ check (runes_of_ascii "{}{}")).
Eval vm_compute in ("<<<M2546>>>" ++ check (runes_of_ascii "a" ++ [11]%N ++ runes_of_ascii "b")).
Eval vm_compute in ("<<<M2736>>>" ++ check (runes_of_ascii "u!")).
