From FP Require Import Lexer Parser ShowPT Digest Formatter.
From Coq Require Import String List NArith.
Import ListNotations.
Open Scope string_scope.
Set Printing Width 100000000.
Set Printing Depth 100000000.
Definition show_fres (r : fres) : string :=
  match r with
  | FOk s => "OK:" ++ sh_escaped s ""
  | FErr s => "ERR:" ++ sh_escaped s ""
  | FPanic p => "PANIC:" ++ p
  end.
Definition check (rs : list rune) : string := digest (show_fres (format_res rs)).
Definition full (rs : list rune) : string := show_fres (format_res rs).
Eval vm_compute in ("<<<M1901>>>" ++ check (runes_of_ascii "options {
	BodyLength =
    3 ;	// " ++ [128512]%N ++ runes_of_ascii " emoji
  T =""packet"" 
	// @lengthOf(
	// trailing space 
    ;

    // c
  // trailing space 
	crc  =
	true 
; 
falsey
    =
    '\x00' 	 /// triple
    ;

}
root	packet

A 
{
@leftPad( '0')	char[	65535

] Header	`" ++ [233]%N ++ runes_of_ascii "` ,

@rightPad
('0' )  //
      a1 @lengthOf(

msg_type )	,	@lengthOf(

rootA )match
    _x as 	 //x

stringy 
{

""CRC32""
:chars ,  3 	 // `tick` ""quote"" 'q'
  :

float, 255

:
	asx// `tick` ""quote"" 'q'
,

10	:	tag
,	//
	}
    ,
@calculatedFrom(""" ++ [128512]%N ++ runes_of_ascii """
	)u32 u8x `crlf
line`	,
	repeat char[]asx

    `a\`, @rightPad
	(  '0')match
	f32a
	as

    Packet{[
    255
,

""CRC32"" ,
	007  ,

    ""1""
,

""packet""
	,
	00,

4294967296
] :
	calculatedFrom

,
""packet""  : falsey	,  ""a\""b"" 
:
body
,	7  // a // b
		:Packet // " ++ [128512]%N ++ runes_of_ascii " emoji
    0123456789  :
i64_,
	// a // b
  [
4294967296 
,

0123456789

]

    : // `tick` ""quote"" 'q'
    options1	}
	, crc  /// triple
  @lengthOf( Foo	),@calculatedFrom(""{,}""	)  @lengthOf(  metadata

    ) @lengthOf(  i8i8 )
int64
options1

@calculatedFrom( ""CRC32""
    )
    `line1
line2`
, // @lengthOf(

}
	packet
a1 // `tick` ""quote"" 'q'
{

match lengthOf//
  as x_y_z{ ""it's"" 
:
    matchKey
    //
    // @lengthOf(
  ,  10

:	Packet

    ,	[  //x
  ""abc""	]// a // b

: A
10	//x
	: metadata ,
	}	,

    }
    MetaData body {
	char string_  , char[]
x, len

    Pad,
string 
leftPad
	, 
}	// trailing space 
")).
Eval vm_compute in ("<<<M1650>>>" ++ check (runes_of_ascii "
// top
  	options 
// c0
	{// c1a

	// c1b
	LittleEndian 

// c2
	=
true // c4a
      // c4b
    ;
// c5
StringPrefixLenType
= 
// c7
  u16// c8
	; 	 // c9a
// c9b
	FixedStringPadChar// c10
	  =  // c11
  ' '
// c12

;
	    // c13
} 	 // c14
		packet// c15a

// c15b

Logon

{ // c17a
  	// c17b
    @leftPad (

    '0')// c21
	char[	// c22a
      // c22b
	10 	 // c23
    ] 	 // c24
	tag7  // c25a
	// c25b
	  ,  
  // c26
    }  // c27a

	// c27b
    	root packet 

    // c29
Ack  // c30a
// c30b

{

    int32	// c32
Px 
,  // c34
  uint16  
      // c35
    count 	 // c36
, 

// c37
	  string// c38a
    // c38b
	Qty 
// c39
, // c40a
	// c40b
    string 	 // c41a
    // c41b
    	OrderId  // c42
,	string

Flags	// c45a
      // c45b
,
	// c46
	u8// c47a
	// c47b
	x // c48a

  // c48b
		,  // c49a
// c49b
	match  // c50
  x  // c51
  	as
    // c52
	  Body 

// c53
	{	// c54
  [	// c55a
      // c55b

58  // c56

, 	 // c57
  169  // c58a
      // c58b
	  ]// c59
    : 
Logon
	,  // c62a
  	// c62b

}  // c63
    , 
  // c64
} 

// c65
")).
Eval vm_compute in ("<<<M1343>>>" ++ check (runes_of_ascii "  options { 
StringPrefixLenType
= u64

; ArrayPrefixLenType=	u32
    ;  FixedStringPadFromLeft =
    false
;
    } packet
Party{ 
zchar[
7]OrderId
, InTail6{

    repeat
char[
1  ] 
msgKind	,char[

    3]
Tail ,char[ 
3 ]

    Flags	,
i16
tag7	, 
}

,@rightPad

    ('0'
)

    char[

12 ]clOrdID
	,}
	packet	Quote
    {@leftPad
('0' 
)
    char[
	11]
price ,repeat  InCount7  { i32
    x
,Party,u8  Ref

    , u8 tag7
, 
} ,
	char[]	seqNo
	,

    Party, } packet  Logon
{@rightPad(

    '\x00'
	)
char[
    5

]
	Note,

i16
    sym

    ,InPrice72{char[	9 ]  Ref
, zchar[ 1 ]
    venue , } ,
    char[]

    clOrdID 
,	}
	root
packet
Reject {
    repeat Logon

,
@leftPad	( ' '
	)
    char[
4
] seqNo,
zchar[ 5]
    Acct

    ,
	u32

    x,
    u16
	f1	@lengthOf(

Body )	, match

x

as
Body
{
[169,	74
	] 
:
Quote
, 
45 :
Party,7

:

    Logon 
, }

    , }
")).
Eval vm_compute in ("<<<M1362>>>" ++ check (runes_of_ascii "options {
    FixedStringPadFromLeft = true;
    FixedStringPadChar = '0';
}
packet Leg {
    repeat InSym93 {
        zchar[3] Acct,
        string Side2,
        i32 Flags,
        f32 Note,
        i32 msgKind,
    },
    f64 Note,
    uint16 Px,
}
packet Quote {
    zchar[2] OrderId,
}
packet Ack {
    repeat string lastPx,
    zchar[4] price,
    uint32 OrderId,
    Quote,
    int8 Acct,
}
packet Fill {
    repeat Leg,
    @rightPad('0') char[11] Note,
    f64 Px,
    @rightPad('\x00') char[5] Flags,
    zchar[9] x,
    string msgKind,
}
root packet Order {
    Leg,
    repeat Ack,
    @rightPad('\x00') char[3] Side2,
    repeat char[1] seqNo,
    u16 clOrdID,
    match clOrdID as Body {
        198 : Leg,
        23 : Quote,
        13 : Ack,
        159 : Fill,
    },
    u32 venue @calculatedFrom(""CR\
C32""),
}
")).
Eval vm_compute in ("<<<M1680>>>" ++ check (runes_of_ascii "

  options{
	StringPrefixLenType 
=

u8

;
ArrayPrefixLenType 
= u32;

FixedStringPadFromLeft
=
    true ;
    FixedStringPadChar =' ' ;}	packet
    Leg { } packet
    Heartbeat

    { 
zchar[
	6 ] 
msgKind ,@rightPad (
'0')

char[	3 ]Qty

,

zchar[  9
]
Side2
, i8 
Acct	,
}

packet
	Logout
{int8
x

    , 
} packet
Order  { 
char[] Acct 
,
zchar[ 
8]

    count

    ,
u32	OrderId 
,
uint8	lastPx

    ,u16 clOrdID
	, zchar[
7 ] 
Note , }
root 
packet Reject{ 
@leftPad
( ' '  )  char[ 
8 ] Side2 
, i8
	clOrdID ,repeat
    f32  x
    ,
    u32
lastPx , match

    lastPx  as
    Body	{ [	30,

    147  ]

    :
    Heartbeat ,  134 :
	Leg

, 183:Logout,
	40
    :
	Order,
	},
u16
Ref
@calculatedFrom( ""CRC32""

    ), }

")).
Eval vm_compute in ("<<<M117>>>" ++ check (runes_of_ascii "// a // b
packet	u128  {
    repeat chars	{i64 u8x
`
`// a // b
, // c
_x
@lengthOf(  falsey
    )
,
    Logon
`" ++ [28040; 24687; 31867; 22411]%N ++ runes_of_ascii "` ,repeat char[]
trueish `tab	here` ,}
    , } root packet T { match Packet
as
trueish {
""packet"" : charz
    ,
    [4294967296 , ""1"" ] : A , 7 : x
    // " ++ [27880; 37322]%N ++ runes_of_ascii "
    , [
    // a // b
    7 ,""a	b""
    ]
:	u128 255 :
As
    3:
Packet,} ,
//	t
// trailing space 
pack
`a\` , @calculatedFrom( """ ++ [233]%N ++ runes_of_ascii "t" ++ [233]%N ++ runes_of_ascii """ //	t
)
    rootA matchKey  ,
char[ 65535]/// triple
leftPad @lengthOf( roots
    //
    ) , repeat MetaDataX { u64
    a1 @calculatedFrom(""x y"" ) `doc`  ,//	t
uint8 falsey
,
match BodyLength as A
{  [ ""\" ++ [233]%N ++ runes_of_ascii """,255 ,"""" ,
    ""it's"" ] :	Foo ,
3 : u128}	, } ,	}
")).
Eval vm_compute in ("<<<M208>>>" ++ check (runes_of_ascii "packet // packet A { u8 x, }
u8x {}root packet
    matchKey{
repeat zchar[ 0123456789 ] // packet A { u8 x, }
int , char[
// `tick` ""quote"" 'q'
// a // b
4294967296 ]
asx `{ , }`
    ,
repeat i8i8, repeat Packet { repeat
    leftPad {	f32 u128
@lengthOf(As ), body`two words` ,// packet A { u8 x, }
rootA Pad , } , char[ 00
] msg_type `tab	here` // " ++ [128512]%N ++ runes_of_ascii " emoji
,
    repeat
    //x
    i64_ `doc` , zchar x_y_z ,}
,
}
root
packet int {
repeat f32a {repeat f32a  asx
`u8 x,` ,} ,@lengthOf(
// @lengthOf(
//	t
msg_type// packet A { u8 x, }
) body ,
// c
//
Z9_ // c
zchar `a\` //x
, } //x")).
Eval vm_compute in ("<<<M1853>>>" ++ check (runes_of_ascii "options {
    StringPrefixLenType = u8;
    ArrayPrefixLenType = u8;
    FixedStringPadFromLeft = false;
    FixedStringPadChar = ' ';
}

packet Ack {
    char[] tag7,
}

packet Reject {
    InSym61 {
        repeat Ack,
        zchar[4] f1,
    },
}

packet Logout {
    char[4] clOrdID,
}

root packet Cancel {
    @leftPad(' ')
    char[10] price,
    u8 x,
    u32 venue @lengthOf(Body),
    match x as Body {
        [92, 175] : Logout,
        26 : Reject,
        144 : Ack,
    },
    u16 count @calculatedFrom(""CRC32""),
}")).
Eval vm_compute in ("<<<M340>>>" ++ check (runes_of_ascii "packet leftPad//
{@rightPad () repeat chars	{crc /// triple
pack  ,
} ,
@calculatedFrom( """ ++ [28040; 24687]%N ++ runes_of_ascii """ )@lengthOf(options1  )@tag( 65535 ) Foo,match
matchKey
    as // " ++ [128512]%N ++ runes_of_ascii " emoji
tag	{
    // c
    [ ""{,}"",
""""
, ""`tick`"" ,
3 ,""it's"",  """ ++ [128512]%N ++ runes_of_ascii """	,
""it's""] :As
    , [
/// triple
//	t
""x y""]
    //x
    :
chars,""" ++ [233]%N ++ runes_of_ascii "t" ++ [233]%N ++ runes_of_ascii """	:uint8x,4294967296:	packetx
""// no comment""
:
calculatedFrom , }
,  @calculatedFrom( ""// no comment""// @lengthOf(
)
char[// trailing space 
007 ]	f32a ,} // a // b")).
Eval vm_compute in ("<<<M1556>>>" ++ check (runes_of_ascii "packet metadata {
    @rightPad()
    zchar[0123456789] i64_ @calculatedFrom(""\n""),
    @leftPad(' ')
    zchar[255] MetaDataX `{ , }`,
    @rightPad(' ')
    @calculatedFrom(""abc"")
    @lengthOf(matchKey)
    repeat char[42] packetx `" ++ [233]%N ++ runes_of_ascii "`,
    trueish @calculatedFrom(""packet"") `a\`,
    matchKey int `" ++ [28040; 24687; 31867; 22411]%N ++ runes_of_ascii "`,
    @tag(0)
    len {
        char[65535] Header,
    },
    @lengthOf(f32a)
    zchar[10] trueish `crlf
        line`,
}")).
Eval vm_compute in ("<<<M1789>>>" ++ check (runes_of_ascii "packet metadata {
    //	t
    float64 body @lengthOf(calculatedFrom),// a // b
    @tag(42)
    rootA,
    x_y_z u8x `// not a comment`,
    @lengthOf(Pad)
    match packetx as leftPad {
        //
        65535 : tag,
        """ ++ [128512]%N ++ runes_of_ascii """ : _x,
    },
    x_y_z metadata,
    @tag(7)
    int64 zchar @lengthOf(repeatCount) `" ++ [233]%N ++ runes_of_ascii "`,
    @tag(0123456789)
    repeat float chars,
    f32 MetaDataX,
}")).
Eval vm_compute in ("<<<M1835>>>" ++ check (runes_of_ascii "
packet  repeatCount{ @calculatedFrom(

""abc""
	)  zchar[  
  // @lengthOf(
0 
]	// `tick` ""quote"" 'q'
  MetaDataX

`
`,

string_@calculatedFrom(""1""

)
	,	match	string_ as

    msg_type 
{

    [  // a // b
    65535
,  // a // b
""a	b""
    ,7

    ,  255
]:matchKey
	,  10  :
options1 
,3
    :  Logon
,

    } ,
    // " ++ [27880; 37322]%N ++ runes_of_ascii "
	packetx 
`a\`,
} ")).
Eval vm_compute in ("<<<M1326>>>" ++ check (runes_of_ascii "options {
    LittleEndian = true;
    StringPrefixLenType = u16;
    FixedStringPadChar = ' ';
}
packet Logon {
    @leftPad('0') char[10] tag7,
}
root packet Ack {
    int32 Px,
    uint16 count,
    string Qty,
    string OrderId,
    string Flags,
    u8 x,
    match x as Body {
        [58, 169] : Logon,
    },
}
")).
Eval vm_compute in ("<<<M262>>>" ++ check (runes_of_ascii "  packet  Logon
    { o Header ,	Header
, @lengthOf(
u )	char[ 255 ] tag `tab	here`, char[]falsey ,
    @lengthOf(	zchar )
    @rightPad (
) float roots// @lengthOf(
,
@calculatedFrom(	""// no comment"") i64
u8x,
} options { metadata = '0' ;_x = 4294967296 ; Packet
    =
    '0'
;
    }

")).
Eval vm_compute in ("<<<M1395>>>" ++ check (runes_of_ascii "options {
    LittleEndian = true;
}

packet Logon {
    u8 x,
    string user,
}

packet Logout {
    u16 reason,
}

packet Empty {
}

root packet Frame {
    u16 MsgType,
    u8 BodyLen @lengthOf(Body),
    u8 flags,
    Logon Body,
    u32 trailer,
}")).
Eval vm_compute in ("<<<M1247>>>" ++ check (runes_of_ascii "options { LittleEndian // c2a
  // c2b
= // c3
true
    // c4
; } root
    // c7
packet P // c9a
  // c9b
{ repeat char // c12a
  // c12b
cs // c13a
  // c13b
, // c14a
  // c14b
u8
    // c15
x
    // c16
, // c17
}
    // c18
")).
Eval vm_compute in ("<<<M1740>>>" ++ check (runes_of_ascii "

  // top
  packet  // c0a
	  // c0b

	body
	    // c1
	{i32	// c3
f32a 
	// c4
    `{ , }`	// c5a
    // c5b
    	,	}
    // c7
options// c8a

// c8b
{  // c9
  }  // c10a
    // c10b
")).
Eval vm_compute in ("<<<M1467>>>" ++ check (runes_of_ascii "packet A{
    match
	k
as	n{
    [

    ""a"" ,
22	,""c c""
,
    4 , ""e"" ,
66
, ""g""	,
8 
,

    ""i""  , 10	,
""k""
    ,
    12 ]
    : B ,

    2
    : 
C } 
,} ")).
Eval vm_compute in ("<<<M418>>>" ++ check (runes_of_ascii "packet uint8x
{ match pack
    @rightPad msg_type	{
    0123456789 :	float
}
,
} packet //	t
a1
    { } options {packetx
    = '\x00'	; u128= ""a	b""  ; }
")).
Eval vm_compute in ("<<<M523>>>" ++ check (runes_of_ascii "packet uint8x
{ match pack
    as msg_type	{
    0123456789 :	float
}
,
} packet //	t
a1
    { } options {packetx
    = '\x00'	; u128= MetaData  ; }
")).
Eval vm_compute in ("<<<M672>>>" ++ check (runes_of_ascii "// @lengthOf(
packet i8i8 { u128 o , }
options { MetaDataX = true;
    BodyLength =""packet"" x_y_z= 007
crc //x
= ""abc"" ;
    msg_type =
@leftpad i16 }")).
Eval vm_compute in ("<<<M448>>>" ++ check (runes_of_ascii "packet uint8x
{ match pack
    as msg_type	{
    0123456789 :	float
=
,
} packet //	t
a1
    { } options {packetx
    = '\x00'	; u128= ""a	b""  ; }
")).
Eval vm_compute in ("<<<M485>>>" ++ check (runes_of_ascii "packet uint8x
{ match pack
    as msg_type	{
    0123456789 :	float
}
,
} packet //	t
a1
    { } options packetx
    = '\x00'	; u128= ""a	b""  ; }
")).
Eval vm_compute in ("<<<M667>>>" ++ check (runes_of_ascii "// @lengthOf(
packet i8i8 { u128 o char }
options { MetaDataX = true;
    BodyLength =""packet"" x_y_z= 007
crc //x
= ""abc"" ;
    msg_type =
i16 }")).
Eval vm_compute in ("<<<M677>>>" ++ check (runes_of_ascii "// @lengthOf(
packet i8i8 { u128 o , }
options { MetaDataX = true;
    BodyLength =""packet"" x_y_z 007 =
crc //x
= ""abc"" ;
    msg_type =
i16 }")).
Eval vm_compute in ("<<<M692>>>" ++ check (runes_of_ascii "// @lengthOf(
packet i8i8 { u128 o , }
options { MetaDataX = true;
    BodyLength =""packet"" x_y_z= 007
u8 //x
= ""abc"" ;
    msg_type =
i16 }")).
Eval vm_compute in ("<<<M524>>>" ++ check (runes_of_ascii "packet uint8x
{ match pack
    as msg_type	{
    0123456789 :	float
}
,
} packet //	t
a1
    { } options {packetx
    = '\x00'	; u128=")).
Eval vm_compute in ("<<<M304>>>" ++ check (runes_of_ascii "packet
    // " ++ [27880; 37322]%N ++ runes_of_ascii "
    Logon {
repeatCount @lengthOf( roots ) , @tag(0) repeat zchar[007] crc , rootA a1 `{ , }` , string_ `" ++ [233]%N ++ runes_of_ascii "`
,  }
")).
Eval vm_compute in ("<<<M1194>>>" ++ check (runes_of_ascii "// top
packet // c0
body // c1
{ // c2
i32 // c3
f32a // c4
`{ , }` // c5
, // c6
} // c7
options // c8
{ // c9
} // c10
")).
Eval vm_compute in ("<<<M1159>>>" ++ check (runes_of_ascii "MetaData leftPad { chars MetaDataX , } packet repeatCount // c
{ char[ 255 ] uint8x `" ++ [233]%N ++ runes_of_ascii "` , } MetaData pack { As Foo , }")).
Eval vm_compute in ("<<<M218>>>" ++ check (runes_of_ascii "
MetaData
uint8x { char[ 007
    ]leftPad ,Pad
T ,u64 BodyLength , char[] int  ,float
Z9_ , float32 metadata
    , }
")).
Eval vm_compute in ("<<<M315>>>" ++ check (runes_of_ascii "packet Foo{ tag roots ,
    // `tick` ""quote"" 'q'
    i64_, @calculatedFrom( ""packet"" ) uint32 MetaDataX
, }
")).
Eval vm_compute in ("<<<M1455>>>" ++ check (runes_of_ascii "
root 
packet
	SimpleMessage	{uint16 MsgType 
`" ++ [28040; 24687; 31867; 22411]%N ++ runes_of_ascii "`,
	string

    JsonBody

`Json" ++ [23383; 31526; 20018; 28040; 24687; 20307]%N ++ runes_of_ascii "` ,

    }

")).
Eval vm_compute in ("<<<M373>>>" ++ check (runes_of_ascii "  MetaData leftPad { /// triple
char[] body,  As options1
//
/// triple
,
o
    //x
    i64_
, }
")).
Eval vm_compute in ("<<<M1569>>>" ++ check (runes_of_ascii "packet A 
{
match k	as
n  { 
[ 1 
,
22  ,	""c c"" 
,4
    ,
	5
	,	""f"", 7]:  B  2 : C
	}
,
}
")).
Eval vm_compute in ("<<<M563>>>" ++ check (runes_of_ascii "
packet
    asx { {match u128 as lengthOf
{
//	t
// `tick` ""quote"" 'q'
255 : x ,
    } ,	}")).
Eval vm_compute in ("<<<M69>>>" ++ check (runes_of_ascii "//
packet metadata
{ }	MetaData chars
//x
//	t
{
    char[ 42	] leftPad `crlf
line`  ,
}")).
Eval vm_compute in ("<<<M1627>>>" ++ check (runes_of_ascii "
packet A	{	match k as

    n
{ 
[""a""
, ""bb""
	, 
007]
	:
	B,
2
    :	C

}

    , }
")).
Eval vm_compute in ("<<<M1576>>>" ++ check (runes_of_ascii "packet A {
    match k as n {
        [""a"", ""bb"", ""c c""] : B,
        2 : C,
    },
}")).
Eval vm_compute in ("<<<M848>>>" ++ check (runes_of_ascii "packet A {
  match k as n {
    [1, 22, ""c c"", 4, 5, ""f"", 7] : B
    2 : C
  },
}")).
Eval vm_compute in ("<<<M820>>>" ++ check (runes_of_ascii "packet A {
  match k as n {
    [""a"", 22, ""c c"", 4, ""e""] : B
    2 : C
  },
}")).
Eval vm_compute in ("<<<M601>>>" ++ check (runes_of_ascii "
packet
    asx {match u128 as lengthOf
{
//	t
// `tick` ""quote"" 'q'
255")).
Eval vm_compute in ("<<<M1283>>>" ++ check (runes_of_ascii "root packet P {
    u16 a,
    u32 Sum @calculatedFrom(""CR\
C32""),
}
")).
Eval vm_compute in ("<<<M788>>>" ++ check (runes_of_ascii "packet A {
  match k as n {
    [1, 22, 007] : B
    2 : C
  },
}")).
Eval vm_compute in ("<<<M939>>>" ++ check (runes_of_ascii "MetaData M {
    u8 x `a
    b
  c`,
    T t `a
    b
  c`,
}")).
Eval vm_compute in ("<<<M1088>>>" ++ check (runes_of_ascii "packet A { @tag(1) // a
 @leftPad('0') // b
 char[4] x, }")).
Eval vm_compute in ("<<<M1201>>>" ++ check (runes_of_ascii "packet body // c
{ i32 f32a `{ , }` , } options { }")).
Eval vm_compute in ("<<<M654>>>" ++ check (runes_of_ascii "// @lengthOf(
packet i8i8 { u128 o , }
options {")).
Eval vm_compute in ("<<<M957>>>" ++ check (runes_of_ascii "MetaData M {
    u8 x `
x`,
    T t `
x`,
}")).
Eval vm_compute in ("<<<M1067>>>" ++ check (runes_of_ascii "packet A {    u8 x, // c    u8 y,}")).
Eval vm_compute in ("<<<M179>>>" ++ check (runes_of_ascii "// `tick` ""quote"" 'q'
options {}")).
Eval vm_compute in ("<<<M1013>>>" ++ check (runes_of_ascii "packet A {
 u8 x `d" ++ [8232]%N ++ runes_of_ascii "`, // c" ++ [8232]%N ++ runes_of_ascii "
}")).
Eval vm_compute in ("<<<M947>>>" ++ check (runes_of_ascii "packet A {
    u8 x `x
`,
}")).
Eval vm_compute in ("<<<M414>>>" ++ check (runes_of_ascii "packet uint8x
{ match")).
Eval vm_compute in ("<<<M211>>>" ++ check (runes_of_ascii "MetaData
roots {
}

")).
Eval vm_compute in ("<<<M987>>>" ++ check (runes_of_ascii "// c" ++ [160]%N ++ runes_of_ascii "
packet A {
}")).
Eval vm_compute in ("<<<M1232>>>" ++ check (runes_of_ascii "packet x { } // c
")).
Eval vm_compute in ("<<<M1231>>>" ++ check (runes_of_ascii "packet x {
// c
}")).
Eval vm_compute in ("<<<M255>>>" ++ check (runes_of_ascii " /// triple")).
Eval vm_compute in ("<<<M726>>>" ++ check (runes_of_ascii "
	 ")).
