From FP Require Import Lexer Parser ShowPT Digest Formatter.
From Coq Require Import String List NArith.
Import ListNotations.
Open Scope string_scope.
Set Printing Width 100000000.
Set Printing Depth 100000000.
Definition show_fres (r : fres) : string :=
  match r with
  | FOk s => "OK:" ++ sh_escaped s ""
  | FErr s => "ERR:" ++ sh_escaped s ""
  | FPanic p => "PANIC:" ++ p
  end.
Definition check (rs : list rune) : string := digest (show_fres (format_res rs)).
Definition full (rs : list rune) : string := show_fres (format_res rs).
Eval vm_compute in ("<<<M232>>>" ++ check (runes_of_ascii "// packet A { u8 x, }
root packet rootA
    {
repeat char[]int
    /// triple
    `it's` , string asx @calculatedFrom(""a\""b"") //x
`tab	here`	, falsey `` , repeat string
    metadata ``
//
// " ++ [27880; 37322]%N ++ runes_of_ascii "
,  match
x
    // @lengthOf(
    as	chars{007 : lengthOf ""// no comment"" :o	,
[ """ ++ [233]%N ++ runes_of_ascii "t" ++ [233]%N ++ runes_of_ascii """] //	t
: len , [ 0123456789
    ,
    007 ,""" ++ [233]%N ++ runes_of_ascii "t" ++ [233]%N ++ runes_of_ascii """, // trailing space 
42 , 0123456789
, ""packet"" , 00	]
    : x , } ,  match pack as int
{ [ // a // b
1
    , ""a\""b""
,
    ""a\""b""	]:x
,} ,
} root packet	int
    {
char[10] len @lengthOf(	string_) , @calculatedFrom( ""1""
) repeat
    //	t
    packetx {
    char[ 42 ] Foo , a1 A  , repeat zchar[1  ] i8i8
`a\` ,	zchar[
4294967296 ]
x_y_z@lengthOf( T )`` , }, char
chars , repeat zchar[255 ] tag
    `tab	here`
,
    @calculatedFrom(""it's"" //	t
) // packet A { u8 x, }
char[ 00 ] BodyLength
//x
// " ++ [128512]%N ++ runes_of_ascii " emoji
``  ,
//	t
/// triple
} packet asx
    {zchar[
255	]x
@lengthOf(
int)
, } MetaData repeatCount{a1 Logon , u8x As
, char[
    /// triple
    00	]// c
metadata
    `line1
line2`, i32 Logon
    `it's`,string falsey ,
}
    packet Z9_
// trailing space 
// " ++ [27880; 37322]%N ++ runes_of_ascii "
{
options1
{ u32
    MetaDataX
, char[ 1]
// " ++ [128512]%N ++ runes_of_ascii " emoji
//x
x	@lengthOf( Header ) ,	repeatCount
    /// triple
    x_y_z, } ,	float ,
repeat packetx Z9_,@rightPad (
// trailing space 
// trailing space 
' ' ) asx
{string	asx @lengthOf( uint8x // c
),	packetx , char[ 007 ] metadata ,  } ,
    }
")).
Eval vm_compute in ("<<<M380>>>" ++ check (runes_of_ascii "options {
	StringPrefixLenType = u16;
	ArrayPrefixLenType = u16;
}

packet SampleBinary {
	uint16 MsgType `" ++ [28040; 24687; 31867; 22411]%N ++ runes_of_ascii "`,
	u16 BodyLenght @lengthOf(Body) `" ++ [28040; 24687; 20307; 38271; 24230]%N ++ runes_of_ascii "`,
	match MsgType as Body {
		1 : Logon,
		2 : Logout,
		3 : Heartbeat,
		4 : RiskControlRequest,
		5 : RiskControlResponse,
	},
		@calculatedFrom(""CRC32"")
	u32 Ckecksum `" ++ [26657; 39564; 21644]%N ++ runes_of_ascii "`,
}

packet Logon {
	 @leftPad('0')
	char[10] UserName `" ++ [29992; 25143; 21517]%N ++ runes_of_ascii "`,
	string Password `" ++ [23494; 30721]%N ++ runes_of_ascii "`,
	uint64 ClientId `" ++ [23458; 25143; 31471]%N ++ runes_of_ascii "ID`,
	u16 HeartbeatInterval `" ++ [24515; 36339; 38388; 38548]%N ++ runes_of_ascii "`,
}

packet Logout {
	  @rightPad('0')
	char[10] UserName `" ++ [29992; 25143; 21517]%N ++ runes_of_ascii "`,
	uint64 ClientId `" ++ [23458; 25143; 31471]%N ++ runes_of_ascii "ID`,
}

packet Heartbeat {
}

packet RiskControlRequest {
	string UniqueOrderId `" ++ [21807; 19968; 35746; 21333; 21495]%N ++ runes_of_ascii "`,
	char[16] ClOrdID `" ++ [23458; 25143; 35746; 21333; 21495]%N ++ runes_of_ascii "`,
	char[3] MarketID `" ++ [24066; 22330]%N ++ runes_of_ascii "id`,
	char[12] SecurityID `" ++ [35777; 21048; 20195; 30721]%N ++ runes_of_ascii "`,
	char Side `" ++ [20080; 21334; 26041; 21521]%N ++ runes_of_ascii "`,
	char OrderType `" ++ [35746; 21333; 31867; 22411]%N ++ runes_of_ascii "`,
	u64 Price `" ++ [20215; 26684]%N ++ runes_of_ascii "`,
	u32 Qty `" ++ [25968; 37327]%N ++ runes_of_ascii "`,
	repeat string ExtraInfo `" ++ [38468; 21152; 20449; 24687]%N ++ runes_of_ascii "`,
	repeat SubOrder {
			char[16] ClOrdID `" ++ [23376; 35746; 21333; 21495]%N ++ runes_of_ascii "`,
			u64 Price `" ++ [23376; 35746; 21333; 20215; 26684]%N ++ runes_of_ascii "`,
			u32 Qty `" ++ [23376; 35746; 21333; 25968; 37327]%N ++ runes_of_ascii "`,
		},
}

packet RiskControlResponse {
	string UniqueOrderId `" ++ [21807; 19968; 35746; 21333; 21495]%N ++ runes_of_ascii "`,
	i32 Status `" ++ [29366; 24577]%N ++ runes_of_ascii "`,
	string Msg `" ++ [32467; 26524; 20449; 24687]%N ++ runes_of_ascii "`,
	repeat Detail,
}

packet Detail {
	string RuleName `" ++ [35268; 21017; 21517; 31216]%N ++ runes_of_ascii "`,
	u16 Code `" ++ [21407; 22240; 20195; 30721]%N ++ runes_of_ascii "`,
}")).
Eval vm_compute in ("<<<M1368>>>" ++ check (runes_of_ascii "  options {LittleEndian	=true;
StringPrefixLenType

=

    u16 ; ArrayPrefixLenType 
=
	u8
; FixedStringPadChar  =' '
    ; 
}packet

Ack

    {

@leftPad	(
' ')char[
5 ] lastPx 
,
zchar[	4 ]	count

    ,  repeat InVenue30  {
char[ 
9 ]  Side2 ,
    char[ 12 ]  venue
,
}

    , } 
packet
	Order	{ int16
    Note,  repeat	InAcct28
    {	InSym3

    { Ack ,char[  4]lastPx,
    char[

    1] venue , f32  Ref,	}, 
repeat
InTag729

{char[
	3 
] Side2
    ,

uint64 Acct 
,
	char[] price
    ,zchar[
9 ]
    Note

    ,

    zchar[9]
    venue
    ,
},char[]
count,
Ack ,
char[] Px, } ,u8
	f1,
Ack , 
} packet

    Fill{	zchar[7

] 
x
,Order

,

    @leftPad  (
' '
) char[
	9 ]

    venue
, 
string	count 
,	char[]  Flags
, }	packet 
Logon{
    }	packet
    Reject
    { Order , char[]
sym,
}
root packet Quote {string price

,i64 Flags ,
	repeat

Fill
,
zchar[
	9]
x
, f32 lastPx ,
    repeat

    Ack
	, }
")).
Eval vm_compute in ("<<<M282>>>" ++ check (runes_of_ascii "// a // b
root packet	uint8x
{ repeat x
    { tag
@calculatedFrom( ""// no comment""
)
`it's`  , }
,
    //x
    A
//	t
// @lengthOf(
@calculatedFrom(// trailing space 
""abc"") , uint64 zchar,
//	t
//	t
zchar[7 ] msg_type , @calculatedFrom( """ ++ [28040; 24687]%N ++ runes_of_ascii """
    // " ++ [27880; 37322]%N ++ runes_of_ascii "
    )
crc
,
    // `tick` ""quote"" 'q'
    f32a Pad
,	Header
// 50% %s
//x
, // trailing space 
zchar[42] x
@calculatedFrom( ""\n"")`" ++ [28040; 24687; 31867; 22411]%N ++ runes_of_ascii "` , string len
,
    } packet
    falsey {
    // " ++ [27880; 37322]%N ++ runes_of_ascii "
    i64_ @calculatedFrom(
    ""{,}"" ) , repeat
string chars,
    // `tick` ""quote"" 'q'
    zchar[ 7 ] calculatedFrom
    ,Header
    { char u
    `crlf
line` , repeat char[]	tag `a\` ,
    Z9_ @lengthOf(T) // " ++ [27880; 37322]%N ++ runes_of_ascii "
`say ""hi""`
,
}
,
/// triple
// " ++ [27880; 37322]%N ++ runes_of_ascii "
msg_type @calculatedFrom( ""// no comment""
) ,
@rightPad( '\x00' ) @lengthOf(
asx)
falsey ,
} // a // b")).
Eval vm_compute in ("<<<M1392>>>" ++ check (runes_of_ascii "// top
options // c0a
  // c0b
{ LittleEndian = // c3
true
    // c4
; } // c6
packet
    // c7
Sub { // c9a
  // c9b
u8 a // c11
,
    // c12
@calculatedFrom( ""CRC16"" ) // c15a
  // c15b
u64 // c16a
  // c16b
SubSum // c17
, // c18a
  // c18b
}
    // c19
root
    // c20
packet // c21a
  // c21b
Frame // c22
{
    // c23
u16 // c24a
  // c24b
MsgType , // c26
u16 BodyLen // c28a
  // c28b
@lengthOf( Body // c30
) // c31
, // c32a
  // c32b
Sub // c33a
  // c33b
Body , // c35
string
    // c36
note
    // c37
,
    // c38
@calculatedFrom( // c39
""CRC16""
    // c40
) // c41a
  // c41b
u64 Checksum
    // c43
,
    // c44
u8 // c45a
  // c45b
tail // c46
, // c47
} // c48a
  // c48b
")).
Eval vm_compute in ("<<<M1868>>>" ++ check (runes_of_ascii "packet crc {
    @calculatedFrom(""x y"")
    char[] u8x,
}

root packet asx {
    float32 u8x `doc`,
}

packet lengthOf {
    repeat BodyLength {
        match uint8x as matchKey {
            ""\n"" : body,
            00 : f32a,
            """ ++ [233]%N ++ runes_of_ascii "t" ++ [233]%N ++ runes_of_ascii """ : rootA,
            ""it's"" : crc,
        },
    },
    @tag(42)
    //
    // " ++ [27880; 37322]%N ++ runes_of_ascii "
    roots Z9_,
    repeat leftPad {
        u128 {
            len lengthOf,
            options1 A,
            // `tick` ""quote"" 'q'
            /// triple
            u128 Header,
        },
    },
    @leftPad(
    ' ')
    /// triple
    repeat int32 u8x,
}// @lengthOf(")).
Eval vm_compute in ("<<<M51>>>" ++ check (runes_of_ascii "options {lengthOf // " ++ [128512]%N ++ runes_of_ascii " emoji
=// `tick` ""quote"" 'q'
true ; string_ =
    ""a\\"" ;}
root packet zchar
{string_ // " ++ [27880; 37322]%N ++ runes_of_ascii "
{ match
//
//x
x as string_{
    //	t
    0: zchar  ,
} ,
    }
    ,	@calculatedFrom(	""CRC32"" ) @tag( 42
) repeat
char[
    4294967296 ] u `say ""hi""` ,
    // 50% %s
    @tag( 3 )  @leftPad ( ' ' ) @tag( // `tick` ""quote"" 'q'
42	) match Header
as A { 42 : Logon ,  } ,
@tag(
4294967296
)i64_ `doc` ,} root packet
x_y_z { @calculatedFrom( ""// no comment"" ) @leftPad ( ) @lengthOf( int)//	t
u8x `" ++ [28040; 24687; 31867; 22411]%N ++ runes_of_ascii "`
    ,
    }
")).
Eval vm_compute in ("<<<M303>>>" ++ check (runes_of_ascii "
options
{  charz
    = false ; Z9_
    = ""\" ++ [233]%N ++ runes_of_ascii """ ;// c
} options { falsey
= char[] ;} packet metadata {
@tag(
    4294967296
    ) match int as
    float
{
[ 0 ,0123456789
,  42 ,7 ,""a\""b"" , 7 ]
: zchar
, ""1""  :options1
//
// " ++ [128512]%N ++ runes_of_ascii " emoji
,
    }, @tag(10 ) match msg_type
as Foo  { ""a	b"" : rootA , 65535
    : roots /// triple
, 00:// `tick` ""quote"" 'q'
trueish,""\" ++ [233]%N ++ runes_of_ascii """
    : MetaDataX,
//x
// 50% %s
00
    :Logon ,
} ,repeat len packetx
,
    @lengthOf(Foo ) len`two words`	, roots, } //x")).
Eval vm_compute in ("<<<M77>>>" ++ check (runes_of_ascii "packet string_ /// triple
{ match
MetaDataX as
    /// triple
    matchKey {[ ""1"" , ""x y"" ]
: chars,
}, @leftPad
    ( ) char[]
// c
//	t
body @lengthOf( // `tick` ""quote"" 'q'
int ) , int16
T
, string
// 50% %s
/// triple
int  @lengthOf( uint8x ),repeat chars Foo // `tick` ""quote"" 'q'
, }	options {
    msg_type
    // a // b
    =true
    f32a =  ""packet"" } root packet u128{	zchar[
007] metadata  @lengthOf( int)
`100% of %d`,
    }")).
Eval vm_compute in ("<<<M1365>>>" ++ check (runes_of_ascii "
options	{
    LittleEndian	=

true;

StringPrefixLenType
	=
	u32 ; ArrayPrefixLenType =
	u64

    ; } packet Logon  { string  OrderId
,uint32 lastPx,
    repeat	char[6
    ]Side2,
    i64

Tail
	, repeat  i8 f1

    ,

    }

    packet
Party

    {

}
	packet
    Quote{
repeat 
char[
6	]clOrdID ,  repeat Logon 
,

    }
    root
packet

Order 
{zchar[ 5
    ] Acct,repeat f64 price , }

")).
Eval vm_compute in ("<<<M363>>>" ++ check (runes_of_ascii "packet
i64_ {@calculatedFrom(""a	b"" ) match Logon as packetx	{ 10  :
rootA ""it's"" : BodyLength,[ """ ++ [28040; 24687]%N ++ runes_of_ascii """ ,3 ]
    :roots[
    // packet A { u8 x, }
    ""\" ++ [233]%N ++ runes_of_ascii """ ]  :
rootA ,""{,}"" : chars, [  """ ++ [28040; 24687]%N ++ runes_of_ascii """ ] : pack , } ,
    }
    MetaData trueish
{ u64	uint8x //
`say ""hi""` , string uint8x `{ , }`
, BodyLength uint8x
//x
// " ++ [27880; 37322]%N ++ runes_of_ascii "
`{ , }` , char[]	pack`u8 x,`, // `tick` ""quote"" 'q'
}
")).
Eval vm_compute in ("<<<M97>>>" ++ check (runes_of_ascii "packet o { @rightPad ( '\x00') @calculatedFrom(
    ""a\""b""
) @rightPad ( '0') char[// trailing space 
255] zchar
@calculatedFrom(
""\" ++ [233]%N ++ runes_of_ascii """ ) ,
char[
// 50% %s
//	t
10 /// triple
]
    _x  `" ++ [28040; 24687; 31867; 22411]%N ++ runes_of_ascii "`,
}	options {	}options{ Pad='0' ;} packet
i64_ { repeat string // " ++ [128512]%N ++ runes_of_ascii " emoji
zchar , @calculatedFrom( """"
)	@lengthOf( Packet
)
    f32a
// c
// " ++ [27880; 37322]%N ++ runes_of_ascii "
,}
")).
Eval vm_compute in ("<<<M40>>>" ++ check (runes_of_ascii "packet
    len { // " ++ [27880; 37322]%N ++ runes_of_ascii "
@leftPad( '0'
    ) // trailing space 
Logon @lengthOf( _x)
`100% of %d`
,char
    rootA
, @calculatedFrom( """ ++ [28040; 24687]%N ++ runes_of_ascii """ )
@leftPad
    (' ' ) // `tick` ""quote"" 'q'
i8
crc , msg_type
@calculatedFrom( """"	)
`
`
, // `tick` ""quote"" 'q'
}	options//x
{}
options { u8x =true }
")).
Eval vm_compute in ("<<<M1774>>>" ++ check (runes_of_ascii "options{x
    =  ""x y""	;}options 	 /// triple
{
    i8i8
= 4294967296
crc
=  255
// " ++ [128512]%N ++ runes_of_ascii " emoji
	// 50% %s
    ;
string_
    = 
char[
    //x
		// a // b

255]

    u= '\x00' ;BodyLength 
=

'0'
}
    packet 
u
	{

float32

    pack // `tick` ""quote"" 'q'
,
    }

")).
Eval vm_compute in ("<<<M1634>>>" ++ check (runes_of_ascii "packet
len	{
    @calculatedFrom(

    ""{,}"")
zchar[
10 
]  packetx `line1
line2` 
, @lengthOf( metadata
) @calculatedFrom(
	""a	b""
)
	matchKey
@lengthOf(
	As)
,
    chars
    // 50% %s
  // a // b
      uint8x

    `a\` , char[ 65535  ]Foo,
	}
")).
Eval vm_compute in ("<<<M162>>>" ++ check (runes_of_ascii "options {i8i8
    =	""\n"" Header =
""x y""
; /// triple
} root
    packet
    A { match charz as
    T
    {
    //
    0:// trailing space 
options1// `tick` ""quote"" 'q'
}, }  packet float/// triple
{ @rightPad ( ) repeat metadata`u8 x,` , }
")).
Eval vm_compute in ("<<<M538>>>" ++ check (runes_of_ascii "packet
    asx { @calculatedFrom(
""""  ) @tag( 255 )repeat
// packet A { u8 x, }
// trailing space 
int16 ?u8x
,
@tag(
    //
    007 )
    @tag( 0
    /// triple
    ) @tag( 1) u
    @lengthOf( T ),
// `tick` ""quote"" 'q'
//x
} // " ++ [128512]%N ++ runes_of_ascii " emoji")).
Eval vm_compute in ("<<<M498>>>" ++ check (runes_of_ascii "packet
    asx { @calculatedFrom(
""""  ) @tag( 255 )repeat
// packet A { u8 x, }
// trailing space 
int16 u8x
,
@tag(
    //
    007 )
    @tag( 0
    /// triple
    ) @tag( 1) @lengthOf(
    u T ),
// `tick` ""quote"" 'q'
//x
} // " ++ [128512]%N ++ runes_of_ascii " emoji")).
Eval vm_compute in ("<<<M421>>>" ++ check (runes_of_ascii "packet
    asx { @calculatedFrom(
""""  ) @tag(  )repeat
// packet A { u8 x, }
// trailing space 
int16 u8x
,
@tag(
    //
    007 )
    @tag( 0
    /// triple
    ) @tag( 1) u
    @lengthOf( T ),
// `tick` ""quote"" 'q'
//x
} // " ++ [128512]%N ++ runes_of_ascii " emoji")).
Eval vm_compute in ("<<<M206>>>" ++ check (runes_of_ascii "options
{ crc
    ='\x00' ; uint8x = // " ++ [27880; 37322]%N ++ runes_of_ascii "
""x y""; a1= """ ++ [28040; 24687]%N ++ runes_of_ascii """
o =
    '\x00'
// trailing space 
// trailing space 
charz = 4294967296 //
}
    options  {
    // " ++ [128512]%N ++ runes_of_ascii " emoji
    stringy
// `tick` ""quote"" 'q'
// 50% %s
= '0'; }
")).
Eval vm_compute in ("<<<M1474>>>" ++ check (runes_of_ascii "
packet

zchar 
{@lengthOf(
charz

) zchar@lengthOf(
	Header	)
	`
`  ,
	u8
    calculatedFrom
, @calculatedFrom( ""x y"" 
) u128 @calculatedFrom( ""it's""  )

, }
options

{  float= 007  uint8x =  ""`tick`""; } ")).
Eval vm_compute in ("<<<M1343>>>" ++ check (runes_of_ascii "packet u128 {
    u8 a,
}
root packet Msg {
    u8 k,
    u24 {
        u8 Hi,
        u16 Lo,
    },
    repeat i24 {
        u32 q,
    },
    u128,
    u16 float32x,
    string s,
}
")).
Eval vm_compute in ("<<<M622>>>" ++ check (runes_of_ascii "MetaData u
    { } MetaData o
{ float uint8x
`100% of %d` ,repeatCount u8x, string_ leftPad leftPad
, i32
    Foo , int64 x `two words` , calculatedFrom
stringy `a\` ,
}
")).
Eval vm_compute in ("<<<M1580>>>" ++ check (runes_of_ascii "
packet A{

match k 
as

    n  {[
    ""a"" 
,

    22

, 
""c c""  ,

    4, ""e"",	66 ,
    ""g""
,
    8 
,

    ""i""

    ,10 ,  ""k""
]
:

    B
,2: C } ,

}")).
Eval vm_compute in ("<<<M704>>>" ++ check (runes_of_ascii "MetaData u
    { } MetaData o
{ float uint8x
`100% of %d` ,repeatCount u8x, string_ leftPad
, i32
    " ++ [8232]%N ++ runes_of_ascii "Foo , int64 x `two words` , calculatedFrom
stringy `a\` ,
}
")).
Eval vm_compute in ("<<<M653>>>" ++ check (runes_of_ascii "MetaData u
    { } MetaData o
{ float uint8x
`100% of %d` ,repeatCount u8x, string_ leftPad
, i32
    Foo , int64 `two words` x , calculatedFrom
stringy `a\` ,
}
")).
Eval vm_compute in ("<<<M606>>>" ++ check (runes_of_ascii "MetaData u
    { } MetaData o
{ float uint8x
`100% of %d` ,repeatCount , string_ leftPad
, i32
    Foo , int64 x `two words` , calculatedFrom
stringy `a\` ,
}
")).
Eval vm_compute in ("<<<M1274>>>" ++ check (runes_of_ascii "
packet	B
    {

    u8	a 
,  } root

    packet P{ u8	K,

u64
L @lengthOf(

    Body

    )

    ,
match
    K  as
	Body
    { 1 :

B
,

}  ,}
")).
Eval vm_compute in ("<<<M1309>>>" ++ check (runes_of_ascii "
packet	A
	{

u8  a

,

}
packet B
    {

u16	b

    ,}root

    packet
	P

{ u8

    K
,
    match  K as M 
{
1 :
A, 1

    :
	B , 
} , } ")).
Eval vm_compute in ("<<<M288>>>" ++ check (runes_of_ascii "packet
    asx
{ f32
    u
@calculatedFrom(
""packet"" )  , } MetaData tag
{ zchar[ 007 ] pack, zchar[00 ]// packet A { u8 x, }
len`
` , }")).
Eval vm_compute in ("<<<M1772>>>" ++ check (runes_of_ascii "options {
}

options {
    MetaDataX = char;
}

MetaData Pad {
    i8 metadata,
    // c
    string stringy,
    int8 As `{ , }`,
}")).
Eval vm_compute in ("<<<M1437>>>" ++ check (runes_of_ascii "options {
}

options {
    MetaDataX = char;
}

MetaData Pad {
    i8 metadata,
    string stringy,
    int8 As `{ , }`,
}")).
Eval vm_compute in ("<<<M1202>>>" ++ check (runes_of_ascii "
// c
options { } options { MetaDataX = char ; } MetaData Pad { i8 metadata , string stringy , int8 As `{ , }` , }")).
Eval vm_compute in ("<<<M1226>>>" ++ check (runes_of_ascii "options { } options { MetaDataX = char ; } MetaData Pad
// c
{ i8 metadata , string stringy , int8 As `{ , }` , }")).
Eval vm_compute in ("<<<M235>>>" ++ check (runes_of_ascii "// " ++ [128512]%N ++ runes_of_ascii " emoji
packet lengthOf {zchar[
1
    ]u8x
    `tab	here` ,}packet packetx{@leftPad ( ) f32a `it's`
    , }")).
Eval vm_compute in ("<<<M1565>>>" ++ check (runes_of_ascii "
packet
	u128  { } packet  _x/// triple
	{

    } 
MetaData  T {
u128
	f32a
    // c

,}
	options {}
")).
Eval vm_compute in ("<<<M1902>>>" ++ check (runes_of_ascii "
packet
	A
    {
match k
    as  n {

[""a""  ,
""bb""

    ,
	""c c""	,	""d"" 
]  :  B 2 
:
C	} ,

}

")).
Eval vm_compute in ("<<<M874>>>" ++ check (runes_of_ascii "packet A {
  match k as n {
    [""a"", ""bb"", 007, ""d"", ""e"", 66, ""g"", ""h"", 9] : B
    2 : C
  },
}")).
Eval vm_compute in ("<<<M839>>>" ++ check (runes_of_ascii "packet A {
  match k as n {
    [""a"", ""bb"", ""c c"", ""d"", ""e"", ""f"", ""g""] : B,
    2 : C
  },
}")).
Eval vm_compute in ("<<<M826>>>" ++ check (runes_of_ascii "packet A {
  match k as n {
    [""a"", ""bb"", ""c c"", ""d"", ""e"", ""f""] : B,
    2 : C
  },
}")).
Eval vm_compute in ("<<<M864>>>" ++ check (runes_of_ascii "packet A {
  match k as n {
    [1, 22, 007, 4, 5, 66, 7, 8, 9] : B
    2 : C
  },
}")).
Eval vm_compute in ("<<<M829>>>" ++ check (runes_of_ascii "packet A {
  match k as n {
    [1, ""bb"", 007, ""d"", 5, ""f""] : B
    2 : C
  },
}")).
Eval vm_compute in ("<<<M816>>>" ++ check (runes_of_ascii "packet A {
  match k as n {
    [1, ""bb"", 007, ""d"", 5] : B
    2 : C
  },
}")).
Eval vm_compute in ("<<<M1919>>>" ++ check (runes_of_ascii "packet A {
    B b `
    x`,
    B `
    x`,
    repeat B bs `
    x`,
}")).
Eval vm_compute in ("<<<M789>>>" ++ check (runes_of_ascii "packet A {
  match k as n {
    [1, ""bb"", 007] : B,
    2 : C
  },
}")).
Eval vm_compute in ("<<<M118>>>" ++ check (runes_of_ascii "MetaData i64_ { zchar[ // " ++ [27880; 37322]%N ++ runes_of_ascii "
0123456789 ]
    i8i8
    `" ++ [233]%N ++ runes_of_ascii "`,  }")).
Eval vm_compute in ("<<<M1544>>>" ++ check (runes_of_ascii "  options

{ A
=
    ""// no comment""

    }

    // c
 
")).
Eval vm_compute in ("<<<M784>>>" ++ check (runes_of_ascii "packet A { Inner { match k as n { [1,22] : B, }, }, }")).
Eval vm_compute in ("<<<M222>>>" ++ check (runes_of_ascii "options// packet A { u8 x, }
{ i8i8 = '\x00' }
")).
Eval vm_compute in ("<<<M1575>>>" ++ check (runes_of_ascii "root packet A {
    u8 x `a
    
    b`,
}")).
Eval vm_compute in ("<<<M1608>>>" ++ check (runes_of_ascii "MetaData M {
}// c

MetaData N {
}// d")).
Eval vm_compute in ("<<<M1718>>>" ++ check (runes_of_ascii "
packet

A{ u8

    x
`a
b` ,
}
")).
Eval vm_compute in ("<<<M1295>>>" ++ check (runes_of_ascii "root packet P {
    string s,
}
")).
Eval vm_compute in ("<<<M1072>>>" ++ check (runes_of_ascii "packet A {
 u8 x `d" ++ [65279]%N ++ runes_of_ascii "`, // c" ++ [65279]%N ++ runes_of_ascii "
}")).
Eval vm_compute in ("<<<M927>>>" ++ check (runes_of_ascii "packet A {
    u8 x `
`,
}")).
Eval vm_compute in ("<<<M1149>>>" ++ check (runes_of_ascii "root packet a1 { // c
}")).
Eval vm_compute in ("<<<M306>>>" ++ check (runes_of_ascii "//
packet int{ }
//
")).
Eval vm_compute in ("<<<M1050>>>" ++ check (runes_of_ascii "packet A {
}
// c" ++ [11]%N)).
Eval vm_compute in ("<<<M1053>>>" ++ check (runes_of_ascii "packet A {
}// c" ++ [12]%N)).
Eval vm_compute in ("<<<M1933>>>" ++ check (runes_of_ascii "packet u8x {
}")).
Eval vm_compute in ("<<<M1039>>>" ++ check (runes_of_ascii "// c" ++ [8239]%N)).
