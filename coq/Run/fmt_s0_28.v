From FP Require Import Lexer Parser ShowPT Digest Formatter.
From Coq Require Import String List NArith.
Import ListNotations.
Open Scope string_scope.
Set Printing Width 100000000.
Set Printing Depth 100000000.
Definition show_fres (r : fres) : string :=
  match r with
  | FOk s => "OK:" ++ sh_escaped s ""
  | FErr s => "ERR:" ++ sh_escaped s ""
  | FPanic p => "PANIC:" ++ p
  end.
Definition check (rs : list rune) : string := digest (show_fres (format_res rs)).
Definition full (rs : list rune) : string := show_fres (format_res rs).
Eval vm_compute in ("<<<M339>>>" ++ check (runes_of_ascii "// @lengthOf(
packet A { repeat rootA
{ repeat o , BodyLength i64_ `// not a comment` ,  repeatCount @calculatedFrom(""it's"" ) , }
    // @lengthOf(
    ,
//x
//x
@tag( 0 ) falsey @lengthOf( BodyLength
), @leftPad ( ) @calculatedFrom( ""1"" )
@lengthOf(int ) match trueish
as body // trailing space 
{ [ 007
, 7
,
    ""abc"",
""x y"" ,  00 , ""// no comment"" ,
    255, 1
]: body
, } , @lengthOf( Pad ) metadata@calculatedFrom( ""it's"" )
,
    // `tick` ""quote"" 'q'
    @leftPad() @calculatedFrom(	""" ++ [233]%N ++ runes_of_ascii "t" ++ [233]%N ++ runes_of_ascii """ ) char falsey `" ++ [233]%N ++ runes_of_ascii "`,char[
007 ] metadata @lengthOf( chars) , @rightPad ( '0'
) u8 // c
roots@calculatedFrom( ""packet"" ) ,
    string_ MetaDataX ,@lengthOf( Z9_ ) @leftPad ( '\x00' ) /// triple
@rightPad
    ( ' ' //
) MetaDataX
    `two words`  ,zchar[
0
    ]
body// " ++ [27880; 37322]%N ++ runes_of_ascii "
`line1
line2` , } packet
    // packet A { u8 x, }
    uint8x {@rightPad  ( '0' )
    //	t
    char[]stringy,MetaDataX Z9_ , i8 Logon , } root packet
    //	t
    u // " ++ [128512]%N ++ runes_of_ascii " emoji
{ int64 Z9_
    , zchar[ 00 ]
    string_
    //
    `" ++ [28040; 24687; 31867; 22411]%N ++ runes_of_ascii "` ,
    @calculatedFrom(""a\""b""
    )
@tag( 3  ) @rightPad (
'0' ) repeat u32 packetx `two words` , char[42
] string_ , repeat Header lengthOf ,
}
options // packet A { u8 x, }
{	} packet Header
// " ++ [128512]%N ++ runes_of_ascii " emoji
// packet A { u8 x, }
{ @rightPad
(//x
)metadata { char[ 65535// c
]o, repeat x
// c
/// triple
{char[
4294967296 ]  options1 , }
// c
// a // b
,
roots Header, } , }
")).
Eval vm_compute in ("<<<M43>>>" ++ check (runes_of_ascii "packet asx {
    leftPad@calculatedFrom( """ ++ [233]%N ++ runes_of_ascii "t" ++ [233]%N ++ runes_of_ascii """ ) , @leftPad
(  '0')
    // trailing space 
    u8x As `crlf
line` ,char[ 3 ] asx @calculatedFrom( ""{,}"" )  ,
// @lengthOf(
// trailing space 
repeat u128  { int {packetx @calculatedFrom( ""packet"" )
    ,	match
T as  T
{ ""a	b""
: o , } , zchar[ 00
    ]lengthOf
`{ , }` ,
/// triple
// trailing space 
char[] crc @calculatedFrom( ""abc"" )
, } , Header	@calculatedFrom( """ ++ [233]%N ++ runes_of_ascii "t" ++ [233]%N ++ runes_of_ascii """ )
`two words` ,
repeat uint8 uint8x , repeat
    //
    char[0123456789 ]float`u8 x,`,} ,
packetx x `say ""hi""` , @rightPad ( )
i8i8
    @calculatedFrom( ""x y""), @leftPad
    ( ) BodyLength {repeat	int32
_x ``  , i8 msg_type
`doc` //
, }, }
// `tick` ""quote"" 'q'
// packet A { u8 x, }
packet body { }	packet	repeatCount{zchar[  3 ] Packet, @lengthOf( // @lengthOf(
Header  )
    i64
// c
// c
Packet `two words` ,
zchar[ 65535
]calculatedFrom `tab	here`//	t
, match x as leftPad
    { ""// no comment"": rootA
    , ""`tick`"" :
o,
}
,// " ++ [128512]%N ++ runes_of_ascii " emoji
zchar[ //	t
3 ]
// packet A { u8 x, }
// " ++ [27880; 37322]%N ++ runes_of_ascii "
u128 @calculatedFrom( ""{,}"" ) `{ , }`
    ,
}
    //	t
    options { u = char[ 42 ] // " ++ [27880; 37322]%N ++ runes_of_ascii "
metadata
=""a\\""
;  Logon =
string ; Z9_ = u16
;  }
")).
Eval vm_compute in ("<<<M129>>>" ++ check (runes_of_ascii "packet
MetaDataX { metadata trueish`" ++ [233]%N ++ runes_of_ascii "`
//x
//x
,// trailing space 
@calculatedFrom(""`tick`"" )uint8x
    // c
    @calculatedFrom(  """ ++ [128512]%N ++ runes_of_ascii """  ) `{ , }`
    , @calculatedFrom( ""a\""b"" ) // packet A { u8 x, }
match Packet as
    body { 3
    : repeatCount
,""x y""
    /// triple
    :lengthOf// `tick` ""quote"" 'q'
4294967296 :
    packetx
    , [ ""abc""
, ""// no comment""
    ,
""abc"" ,
""\n"" //	t
, ""1""
]: u128 [ 00 , 65535 ,""x y"" ,""{,}""  ]
: calculatedFrom ,
    7 :	i8i8  }, u8x ,match int as	matchKey{
[1 ,""CRC32""]
    // trailing space 
    :// @lengthOf(
asx,	}
    , @lengthOf( // " ++ [128512]%N ++ runes_of_ascii " emoji
a1) string x `it's` , repeat // @lengthOf(
char matchKey  ,
    // a // b
    @leftPad // trailing space 
( )@rightPad ( ) match
metadata	as  Packet { [ 65535  ] : Header , }, @tag( 255)
zchar[ 3 ] crc `u8 x,` ,} MetaData
    rootA // trailing space 
{
i8i8	Pad , int8
packetx `{ , }`
,
    int8 stringy,
    // `tick` ""quote"" 'q'
    body _x  , body o , }")).
Eval vm_compute in ("<<<M221>>>" ++ check (runes_of_ascii "packet u128
{ @rightPad (
' ' )
i64_ { Logon ,char[ 4294967296
    // @lengthOf(
    ] MetaDataX@calculatedFrom( """ ++ [28040; 24687]%N ++ runes_of_ascii """ ) , } // " ++ [27880; 37322]%N ++ runes_of_ascii "
,	rootA{ zchar[
    // " ++ [128512]%N ++ runes_of_ascii " emoji
    1 // a // b
]rootA ,
asx { rootA @calculatedFrom( ""abc""  ), repeat uint16 x_y_z
,
    // packet A { u8 x, }
    zchar[
42
    ] stringy ,body , }, }, @leftPad
( '\x00' ) char[ 3]Z9_ @lengthOf(  roots )
    // trailing space 
    `" ++ [233]%N ++ runes_of_ascii "`	, @lengthOf( charz	) @leftPad ( '0')@calculatedFrom(  ""a\""b"" )
    zchar[//	t
7 ]
    // @lengthOf(
    a1 @calculatedFrom( ""\" ++ [233]%N ++ runes_of_ascii """
) //
`// not a comment` ,
@lengthOf( lengthOf ) repeat
i16
chars
,int
{
    //	t
    zchar[
    1 ] calculatedFrom`line1
line2`,Packet `" ++ [28040; 24687; 31867; 22411]%N ++ runes_of_ascii "` , } ,// " ++ [128512]%N ++ runes_of_ascii " emoji
@rightPad ( '\x00'  )
    zchar[255 // `tick` ""quote"" 'q'
]
    repeatCount @calculatedFrom(""\" ++ [233]%N ++ runes_of_ascii """ ) , repeat
    char[] Pad
`a\` ,  @lengthOf( pack )	i8 int , }")).
Eval vm_compute in ("<<<M1495>>>" ++ check (runes_of_ascii "
options  { StringPrefixLenType

    =u8 ;	ArrayPrefixLenType  = u32
    ;
FixedStringPadFromLeft = true ;	FixedStringPadChar
=
' ' ;

} packet Leg 
{ 
} packet 
Heartbeat	{
zchar[  6]
msgKind , @rightPad ( 
'0'

    )

    char[ 
3

]  Qty 
,

zchar[ 9]
Side2  ,

    i8 Acct
,  }
    packet  Logout
    {
int8
x	, }packet

    Order

{ char[] Acct 
,
    zchar[

    8
]	count

,
u32 OrderId
,

    uint8	lastPx

    ,
	u16 clOrdID 
, 
zchar[
7
    ]
Note ,
	}

    root packet

Reject{
@leftPad
(
    ' ' )char[
8
] Side2  ,
i8
clOrdID
, repeat

    f32

    x, u32
	lastPx,
match	lastPx

as
	Body

    {
[  30
    ,  147

] :
	Heartbeat,

134 :Leg

,183 
: Logout
,

40	:
    Order
	,
	}
,u16
Ref @calculatedFrom(

""CR\
C32""  )
    ,
}")).
Eval vm_compute in ("<<<M201>>>" ++ check (runes_of_ascii "packet charz
{ //	t
repeat i64_ ,trueish {
repeat _x
    ,	repeatCount, repeat u16
matchKey `
`
,
// " ++ [128512]%N ++ runes_of_ascii " emoji
// a // b
matchKey @calculatedFrom( ""a\""b"" )
`it's` ,}	,
@tag(
007 )@calculatedFrom(
    ""a\\"")	@tag(
    3 // @lengthOf(
)f32 f32a @lengthOf(asx ) `crlf
line` // packet A { u8 x, }
, repeat i8 string_
,
    @lengthOf(
    // @lengthOf(
    Logon  ) @lengthOf( x_y_z )
    @lengthOf(
zchar
    ) repeat char[ 65535	] Foo`" ++ [233]%N ++ runes_of_ascii "`,
@calculatedFrom(//
""abc""
) trueish @lengthOf( A )
// " ++ [27880; 37322]%N ++ runes_of_ascii "
// a // b
,char[ 0 ] float , Packet
    @calculatedFrom( ""a	b""
), } MetaData
    Pad { char[ 00 ] leftPad , u8 rootA `
`,
//
// " ++ [128512]%N ++ runes_of_ascii " emoji
int32
    a1	`say ""hi""`
    ,
Z9_ float , //x
i32 Pad ,
}")).
Eval vm_compute in ("<<<M147>>>" ++ check (runes_of_ascii "root
    packet falsey{	@tag( 255) len@calculatedFrom( ""`tick`""
    )//
,match MetaDataX as
crc
{	[7 ] :
    roots ,} ,	@tag( 10 ) @tag(
// `tick` ""quote"" 'q'
// `tick` ""quote"" 'q'
10//
) @tag( 255)	repeat /// triple
uint64 rootA	, tag // a // b
`" ++ [28040; 24687; 31867; 22411]%N ++ runes_of_ascii "` ,
float32  i64_ , int64 _x  `doc` , @leftPad( ' '
    )
match
// @lengthOf(
// @lengthOf(
i8i8 as pack { // `tick` ""quote"" 'q'
7 : Logon , ""x y"" : lengthOf , } , // trailing space 
match x_y_z as u
{
// `tick` ""quote"" 'q'
// " ++ [27880; 37322]%N ++ runes_of_ascii "
[ 0123456789 ] :	packetx ,007 :x_y_z
// trailing space 
//
, 10 : rootA , 7 : u 0123456789 :falsey
, }	, // packet A { u8 x, }
}
")).
Eval vm_compute in ("<<<M1116>>>" ++ check (runes_of_ascii "// top
MetaData // c0
Packet // c1
{ // c2
} // c3
packet // c4
charz // c5
{ // c6
Foo // c7
asx // c8
`it's` // c9
, // c10
@lengthOf( // c11
T // c12
) // c13
@calculatedFrom( // c14
"""" // c15
) // c16
@calculatedFrom( // c17
""x y"" // c18
) // c19
zchar[ // c20
007 // c21
] // c22
repeatCount // c23
@lengthOf( // c24
int // c25
) // c26
`a\` // c27
, // c28
i8 // c29
string_ // c30
, // c31
repeat // c32
options1 // c33
Pad // c34
, // c35
} // c36
root // c37
packet // c38
Packet // c39
{ // c40
int8 // c41
float // c42
`doc` // c43
, // c44
} // c45
")).
Eval vm_compute in ("<<<M1846>>>" ++ check (runes_of_ascii "//x
root packet float {
    options1 A,
    @tag(42)
    u8x {
        tag @calculatedFrom(""\" ++ [233]%N ++ runes_of_ascii """) `tab	here`,
    },
    int16 asx,
    @lengthOf(o)
    @rightPad()
    repeat int Logon,
    @calculatedFrom(""// no comment"")
    @leftPad('\x00')
    @rightPad('0')
    zchar[65535] o `
    `,
    repeat As {
        //x
        repeat uint16 o,
        repeat char[1] o,
        u128 metadata,
        repeat char[7] Header,
    },
    @tag(0123456789)
    a1 tag,
    float32 asx,
    repeat len ``,
}")).
Eval vm_compute in ("<<<M253>>>" ++ check (runes_of_ascii "packet
u	{ @lengthOf( //
zchar )match Header as len  {
    42// trailing space 
:
    x_y_z ,
    // " ++ [27880; 37322]%N ++ runes_of_ascii "
    },rootA	`
`	,	match u8x as pack {[ 1 , """" ]
    : float , ""abc""  :
string_ ,42 :
    i64_/// triple
,
1:zchar
// trailing space 
// " ++ [128512]%N ++ runes_of_ascii " emoji
} ,char[ 3 ] int ,
match options1 as u128 { [ ""`tick`"" ] : u
// packet A { u8 x, }
/// triple
, } ,	}
options {	len	= //	t
i8 // " ++ [27880; 37322]%N ++ runes_of_ascii "
; zchar = true; } packet T{char[ 42 ] asx@calculatedFrom(""CRC32"" ) , }
")).
Eval vm_compute in ("<<<M256>>>" ++ check (runes_of_ascii "
options // " ++ [27880; 37322]%N ++ runes_of_ascii "
{ T = zchar[ 42
] options1 = uint8 ;
lengthOf
=
    // a // b
    char[4294967296
    ]
    ; } packet Z9_ { repeat
MetaDataX
`crlf
line`
    ,
repeat string x_y_z	,
    u32 x
, // `tick` ""quote"" 'q'
@tag(
// " ++ [128512]%N ++ runes_of_ascii " emoji
// " ++ [128512]%N ++ runes_of_ascii " emoji
00 )repeat i64 Logon ,
u8x
f32a, repeat
    lengthOf``, repeat
stringy Pad
    // @lengthOf(
    `
`,
    repeat
    string_ chars `// not a comment` , }

")).
Eval vm_compute in ("<<<M235>>>" ++ check (runes_of_ascii "packet crc
// a // b
//x
{	u128
    packetx , // " ++ [128512]%N ++ runes_of_ascii " emoji
match roots	as
    //
    falsey
{ 0123456789 // a // b
: Header ""packet""// a // b
: // a // b
Z9_	3 : A ,
// trailing space 
// a // b
""a	b""  : roots 10
:  _x
, } , @tag( 255// a // b
) match
calculatedFrom  as	o {
    255 : string_ """ ++ [28040; 24687]%N ++ runes_of_ascii """ : i64_
,	} , }MetaData
T
{ float64 u	,} packet Pad { /// triple
}
")).
Eval vm_compute in ("<<<M1335>>>" ++ check (runes_of_ascii "options {
    LittleEndian = true;
    StringPrefixLenType = u16;
    FixedStringPadChar = ' ';
}
packet Logon {
    @leftPad('0') char[10] tag7,
}
root packet Ack {
    int32 Px,
    uint16 count,
    string Qty,
    string OrderId,
    string Flags,
    u8 x,
    match x as Body {
        [58, 169] : Logon,
    },
}
")).
Eval vm_compute in ("<<<M182>>>" ++ check (runes_of_ascii "root packet int {match MetaDataX	as charz
{ 255 :uint8x , 65535 : // @lengthOf(
u128 ""\" ++ [233]%N ++ runes_of_ascii """
:o,0123456789 : _x ""{,}"" :
    matchKey
// `tick` ""quote"" 'q'
// `tick` ""quote"" 'q'
[4294967296 ,"""" ,	10
    ]: charz , }	, @lengthOf( roots
) x @calculatedFrom( ""\n"" )
    , i32
    tag , }")).
Eval vm_compute in ("<<<M1291>>>" ++ check (runes_of_ascii "// top
root
    // c0
packet
    // c1
P // c2a
  // c2b
{ // c3
u8 // c4
s_u8 // c5a
  // c5b
, // c6
repeat u8 // c8a
  // c8b
r_u8 // c9a
  // c9b
,
    // c10
u16 // c11a
  // c11b
b_len // c12a
  // c12b
, // c13a
  // c13b
} // c14a
  // c14b
")).
Eval vm_compute in ("<<<M351>>>" ++ check (runes_of_ascii "MetaData leftPad// packet A { u8 x, }
{ string u128 `say ""hi""` //
, // c
A packetx
    //	t
    , char[
//
// packet A { u8 x, }
42
]
leftPad
    `tab	here` // trailing space 
,i16 crc ,
string uint8x // a // b
,
}")).
Eval vm_compute in ("<<<M1918>>>" ++ check (runes_of_ascii "
options{
falsey 
    /// triple
    =  false
	;falsey

    = 
//
  int16	// `tick` ""quote"" 'q'
  ; 
	// `tick` ""quote"" 'q'
  A
    = 
	// trailing space 
u32
    ; trueish = 1  ;  }")).
Eval vm_compute in ("<<<M1429>>>" ++ check (runes_of_ascii "// top
options {
    // c1
    LittleEndian = true;
    // c5
}

// c6
root packet P {
    u16 a,// c13
    u32 Sum @calculatedFrom(""CRC32""),
    // c19
}// c20a
// c20b")).
Eval vm_compute in ("<<<M392>>>" ++ check (runes_of_ascii "packet packet uint8x
{ match pack
    as msg_type	{
    0123456789 :	float
}
,
} packet //	t
a1
    { } options {packetx
    = '\x00'	; u128= ""a	b""  ; }
")).
Eval vm_compute in ("<<<M523>>>" ++ check (runes_of_ascii "packet uint8x
{ match pack
    as msg_type	{
    0123456789 :	float
}
,
} packet //	t
a1
    { } options {packetx
    = '\x00'	; u128= MetaData  ; }
")).
Eval vm_compute in ("<<<M463>>>" ++ check (runes_of_ascii "packet uint8x
{ match pack
    as msg_type	{
    0123456789 :	float
}
,
} float32 //	t
a1
    { } options {packetx
    = '\x00'	; u128= ""a	b""  ; }
")).
Eval vm_compute in ("<<<M472>>>" ++ check (runes_of_ascii "packet uint8x
{ match pack
    as msg_type	{
    0123456789 :	float
}
,
} packet //	t
a1
    } { options {packetx
    = '\x00'	; u128= ""a	b""  ; }
")).
Eval vm_compute in ("<<<M525>>>" ++ check (runes_of_ascii "packet uint8x
{ match pack
    as msg_type	{
    0123456789 :	float
}
,
} packet //	t
a1
    { } options {packetx
    = '\x00'	; u128= ""a	b""   }
")).
Eval vm_compute in ("<<<M405>>>" ++ check (runes_of_ascii "packet uint8x
{  pack
    as msg_type	{
    0123456789 :	float
}
,
} packet //	t
a1
    { } options {packetx
    = '\x00'	; u128= ""a	b""  ; }
")).
Eval vm_compute in ("<<<M480>>>" ++ check (runes_of_ascii "packet uint8x
{ match pack
    as msg_type	{
    0123456789 :	float
}
,
} packet //	t
a1
    { }  {packetx
    = '\x00'	; u128= ""a	b""  ; }
")).
Eval vm_compute in ("<<<M71>>>" ++ check (runes_of_ascii "root packet MetaDataX
{repeat u8x len `" ++ [28040; 24687; 31867; 22411]%N ++ runes_of_ascii "`,
As { u8x
, } , int f32a
`" ++ [233]%N ++ runes_of_ascii "`, @lengthOf( float ) Z9_
// @lengthOf(
// trailing space 
`a\` , }")).
Eval vm_compute in ("<<<M649>>>" ++ check (runes_of_ascii "// @lengthOf(
packet i8i8 { u128 o , }
options {  = true;
    BodyLength =""packet"" x_y_z= 007
crc //x
= ""abc"" ;
    msg_type =
i16 }")).
Eval vm_compute in ("<<<M1538>>>" ++ check (runes_of_ascii "MetaData leftPad {
    chars MetaDataX,
}

packet repeatCount {
    char[255] uint8x `" ++ [233]%N ++ runes_of_ascii "`,
}

MetaData pack {
    As Foo,
}
// c")).
Eval vm_compute in ("<<<M1779>>>" ++ check (runes_of_ascii "//
packet
metadata	{ 
} 
MetaData

    chars
	    //x
	//	t
	{
char[42
    ]

leftPad `crlf
line`
    ,

    }

")).
Eval vm_compute in ("<<<M1163>>>" ++ check (runes_of_ascii "MetaData leftPad { chars MetaDataX , } packet repeatCount { char[ // c
255 ] uint8x `" ++ [233]%N ++ runes_of_ascii "` , } MetaData pack { As Foo , }")).
Eval vm_compute in ("<<<M218>>>" ++ check (runes_of_ascii "
MetaData
uint8x { char[ 007
    ]leftPad ,Pad
T ,u64 BodyLength , char[] int  ,float
Z9_ , float32 metadata
    , }
")).
Eval vm_compute in ("<<<M315>>>" ++ check (runes_of_ascii "packet Foo{ tag roots ,
    // `tick` ""quote"" 'q'
    i64_, @calculatedFrom( ""packet"" ) uint32 MetaDataX
, }
")).
Eval vm_compute in ("<<<M1276>>>" ++ check (runes_of_ascii "options {
    LittleEndian = true;
}
root packet P {
    u16 a,
    u32 Sum @calculatedFrom(""CRC32""),
}
")).
Eval vm_compute in ("<<<M1614>>>" ++ check (runes_of_ascii "MetaData chars {
    x_y_z x `line1
    line2`,
    _x A `// not a comment`,
}// `tick` ""quote"" 'q'")).
Eval vm_compute in ("<<<M568>>>" ++ check (runes_of_ascii "
packet
    asx {match match u128 as lengthOf
{
//	t
// `tick` ""quote"" 'q'
255 : x ,
    } ,	}")).
Eval vm_compute in ("<<<M1858>>>" ++ check (runes_of_ascii "packet u {
    repeat A,
    @lengthOf(lengthOf)
    repeat i64 i64_,//
    zchar[3] body,
}")).
Eval vm_compute in ("<<<M1540>>>" ++ check (runes_of_ascii "
packet
	A {

    Inner {match
    k

as

    n {

[	1  ]
    : 
B ,
    } ,
}
, }
")).
Eval vm_compute in ("<<<M622>>>" ++ check (runes_of_ascii "
packet
    asx {match u128 as lengthOf
{
//	t
// `tick` ""quote"" 'q'
255 : x ,
    } ,	")).
Eval vm_compute in ("<<<M1401>>>" ++ check (runes_of_ascii "packet A {
    match k as n {
        1 : B,
        // a// b
        2 : C,
    },
}")).
Eval vm_compute in ("<<<M833>>>" ++ check (runes_of_ascii "packet A {
  match k as n {
    [""a"", 22, ""c c"", 4, ""e"", 66] : B
    2 : C
  },
}")).
Eval vm_compute in ("<<<M802>>>" ++ check (runes_of_ascii "packet A {
  match k as n {
    [""a"", ""bb"", ""c c"", ""d""] : B,
    2 : C
  },
}")).
Eval vm_compute in ("<<<M91>>>" ++ check (runes_of_ascii "packet
roots{ }	MetaData
    metadata{
asx matchKey ,
uint64
rootA , }")).
Eval vm_compute in ("<<<M1409>>>" ++ check (runes_of_ascii "packet metadata {
    u32 Packet `say ""hi""`,
    // trailing space 
}")).
Eval vm_compute in ("<<<M1101>>>" ++ check (runes_of_ascii "// top
MetaData
    // c0
tag
    // c1
{
    // c2
}
    // c3
")).
Eval vm_compute in ("<<<M775>>>" ++ check (runes_of_ascii "packet A {
  match k as n {
    [""a""] : B,
    2 : C
  },
}")).
Eval vm_compute in ("<<<M1679>>>" ++ check (runes_of_ascii "MetaData

M
	{ u8

    x `tab
	x`	,

T  t`tab
	x` , }")).
Eval vm_compute in ("<<<M1208>>>" ++ check (runes_of_ascii "packet body { i32 f32a
// c
`{ , }` , } options { }")).
Eval vm_compute in ("<<<M1243>>>" ++ check (runes_of_ascii "root packet P {
    repeat char cs,
    u8 x,
}
")).
Eval vm_compute in ("<<<M429>>>" ++ check (runes_of_ascii "packet uint8x
{ match pack
    as msg_type")).
Eval vm_compute in ("<<<M971>>>" ++ check (runes_of_ascii "options {
    a = ""\
"";
    b = ""\
""
}")).
Eval vm_compute in ("<<<M1958>>>" ++ check (runes_of_ascii "packet A {
    u8 x `
        `,
}")).
Eval vm_compute in ("<<<M276>>>" ++ check (runes_of_ascii "MetaData repeatCount { }
//	t
")).
Eval vm_compute in ("<<<M270>>>" ++ check (runes_of_ascii "  root packet msg_type
{
}
")).
Eval vm_compute in ("<<<M1930>>>" ++ check (runes_of_ascii "packet A {
}// a// b// c")).
Eval vm_compute in ("<<<M1510>>>" ++ check (runes_of_ascii "packet x {
    // c
}")).
Eval vm_compute in ("<<<M95>>>" ++ check (runes_of_ascii "
packet  Logon {}
")).
Eval vm_compute in ("<<<M1046>>>" ++ check (runes_of_ascii "packet A {
}
// c" ++ [8203]%N)).
Eval vm_compute in ("<<<M1049>>>" ++ check (runes_of_ascii "packet A {
}// c" ++ [65279]%N)).
Eval vm_compute in ("<<<M626>>>" ++ check (runes_of_ascii "
packet
    as")).
Eval vm_compute in ("<<<M1891>>>" ++ check (runes_of_ascii "
// c" ++ [11]%N)).
Eval vm_compute in ("<<<M86>>>" ++ check (runes_of_ascii "  ")).
