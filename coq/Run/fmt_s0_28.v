From FP Require Import Lexer Parser ShowPT Digest Formatter.
From Coq Require Import String List NArith.
Import ListNotations.
Open Scope string_scope.
Set Printing Width 100000000.
Set Printing Depth 100000000.
Definition show_fres (r : fres) : string :=
  match r with
  | FOk s => "OK:" ++ sh_escaped s ""
  | FErr s => "ERR:" ++ sh_escaped s ""
  | FPanic p => "PANIC:" ++ p
  end.
Definition check (rs : list rune) : string := digest (show_fres (format_res rs)).
Definition full (rs : list rune) : string := show_fres (format_res rs).
Eval vm_compute in ("<<<M1758>>>" ++ check (runes_of_ascii "

  root

    packet u

{ 
char[
007
]
    x_y_z `two words`
	,int16
    u8x 
@calculatedFrom(	""packet""

    ) 
// @lengthOf(
	  ,

float64
falsey	@calculatedFrom( ""\" ++ [233]%N ++ runes_of_ascii """
    )
	`u8 x,`	,	trueish
@calculatedFrom(""" ++ [233]%N ++ runes_of_ascii "t" ++ [233]%N ++ runes_of_ascii """  )  `tab	here`	,
    @tag( 1
)

    repeat

char[ 4294967296
]
// " ++ [128512]%N ++ runes_of_ascii " emoji
	u, match

// " ++ [27880; 37322]%N ++ runes_of_ascii "
  i8i8
//

as	// " ++ [128512]%N ++ runes_of_ascii " emoji
  o  {[ ""a\\"" ]	: 
matchKey 
, [ 0123456789
	//x

,	""x y""
    ,0
    , 
      /// triple
	/// triple
  00
	, 
""a	b""
,
    ""{,}""	, 	 // a // b

	""{,}"" ,  007	]
	: 
u8x
,
	255 : u128,
    [
    """ ++ [28040; 24687]%N ++ runes_of_ascii """  ,  0123456789

    , 65535

    ,
    // a // b
	""\n"" ] : _x
,
7 :falsey

    } ,@leftPad	()// " ++ [128512]%N ++ runes_of_ascii " emoji
    	charz

@lengthOf(  A )
	,	// `tick` ""quote"" 'q'
    }

root  packet 
stringy { 
repeat MetaDataX {

float32 
T , string

    x_y_z

    `a\`  ,  repeat

    _x

zchar	`u8 x,` ,
},} packet

    Foo {@lengthOf(
roots)
	calculatedFrom a1
	, zchar[0123456789 ]_x  ,
        // @lengthOf(
    // trailing space 
  match  //
    roots as MetaDataX  // c
	{/// triple
	  42	: _x
,3  // a // b
:

    msg_type
7

:
    a1  , 
"""" :

i8i8
	,  //x
	[

""" ++ [233]%N ++ runes_of_ascii "t" ++ [233]%N ++ runes_of_ascii """
]	:i8i8
,
	00:	leftPad , },
    @calculatedFrom( 	 // @lengthOf(
	"""")  char[
	00	// c
]
Foo  @lengthOf(

    uint8x
	) 
,

f32
chars
	, }
    packet  metadata
    //	t
		{
    } 
MetaData i64_  // packet A { u8 x, }

{

    lengthOf
	options1 ,
	    // @lengthOf(
  //x

a1	A , x

Header , 
}

")).
Eval vm_compute in ("<<<M1507>>>" ++ check (runes_of_ascii "

  // top
    packet	// c0a
		// c0b

A 
{ 	 // c2
u8  // c3a
	// c3b

  a
,	// c5
	  } 	 // c6a
  // c6b
	packet// c7a
	// c7b

B
	{ 
    // c9
  	u16  b  // c11
,
    }  // c13a
  // c13b
    packet  // c14
	C 
    // c15
{
// c16
      u32 
	    // c17
	c 	 // c18
	  , 	 // c19a
	// c19b
} 

// c20
    root	packet 	 // c22a

// c22b
	M	// c23
  {  u16  Kc 
        // c26

  , 

// c27
u16 	 // c28a
	  // c28b
    Kb,  // c30
	u16 Ka
// c32
    	,
	match// c34a

// c34b
  Kc 	 // c35
	as X
    // c37
	  {
    // c38
    9 	 // c39

:
        // c40

A

// c41
  	,
10	:

// c44
  B 
    // c45
, 
    // c46
}
    ,
	match 
// c49
	Kb// c50
as	// c51a
    // c51b
Y// c52
{
    2 // c54a
	// c54b
  : 

    // c55
    	C  ,// c57
      1 // c58
  	:
	A ,  // c61a
  // c61b
		} // c62
,// c63a
		// c63b
	match 

// c64
    	Ka as  // c66
Z  // c67
    { 
        // c68
		1 // c69a
// c69b
	:

B // c71a
    // c71b
, 	 // c72
	} 	 // c73a
    	// c73b
	, // c74
	A // c75a

	// c75b
    ,  // c76
  B 
        // c77
  , 

    // c78
  	C 
,// c80
    	}
")).
Eval vm_compute in ("<<<M1327>>>" ++ check (runes_of_ascii "// top
options
    // c0
{ // c1a
  // c1b
LittleEndian
    // c2
= true // c4a
  // c4b
;
    // c5
StringPrefixLenType =
    // c7
u16 // c8
; // c9a
  // c9b
FixedStringPadChar // c10
= // c11
' '
    // c12
;
    // c13
} // c14
packet // c15a
  // c15b
Logon { // c17a
  // c17b
@leftPad ( '0' ) // c21
char[ // c22a
  // c22b
10 // c23
] // c24
tag7 // c25a
  // c25b
,
    // c26
} // c27a
  // c27b
root packet
    // c29
Ack // c30a
  // c30b
{ int32 // c32
Px , // c34
uint16
    // c35
count // c36
,
    // c37
string // c38a
  // c38b
Qty
    // c39
, // c40a
  // c40b
string // c41a
  // c41b
OrderId // c42
, string Flags // c45a
  // c45b
,
    // c46
u8 // c47a
  // c47b
x // c48a
  // c48b
, // c49a
  // c49b
match // c50
x // c51
as
    // c52
Body
    // c53
{ // c54
[ // c55a
  // c55b
58 // c56
, // c57
169 // c58a
  // c58b
] // c59
: Logon , // c62a
  // c62b
} // c63
,
    // c64
}
    // c65
")).
Eval vm_compute in ("<<<M1815>>>" ++ check (runes_of_ascii "root packet asx {
    leftPad {
        u128 @calculatedFrom(""1""),//x
    },
    lengthOf @calculatedFrom(""" ++ [128512]%N ++ runes_of_ascii """) `a\`,
    i64 Packet @lengthOf(calculatedFrom),
    @calculatedFrom(""" ++ [233]%N ++ runes_of_ascii "t" ++ [233]%N ++ runes_of_ascii """)
    stringy a1 `doc`,
    @rightPad()
    // c
    a1 `a\`,
    char Header @lengthOf(x) `say ""hi""`,
    uint8x Z9_ `tab	here`,
}

options {
    calculatedFrom = 0
}

packet metadata {
    @leftPad('\x00')
    f32 pack,
    @tag(65535)
    u32 uint8x @lengthOf(repeatCount) ``,
    MetaDataX {
        repeat options1,
        match matchKey as len {
            """ ++ [128512]%N ++ runes_of_ascii """ : u8x,
            1 : zchar,
            /// triple
            [""a\\"", ""x y""] : charz,
            0 : x_y_z,
            [4294967296] : asx,
            [10, ""a\""b"", ""\n"", ""\" ++ [233]%N ++ runes_of_ascii """] : _x,
        },
        uint8 metadata @lengthOf(float),
        zchar[255] i8i8,
    },
}

root packet f32a {
}")).
Eval vm_compute in ("<<<M1773>>>" ++ check (runes_of_ascii "options {
    StringPrefixLenType = u16;
    ArrayPrefixLenType = u32;
    FixedStringPadFromLeft = true;
    FixedStringPadChar = '0';
}

packet Cancel {
}

packet Party {
}

packet Logon {
}

packet Ack {
}

packet Logout {
    repeat InSym87 {
        InClordid94 {
            string clOrdID,
        },
        string Px,
        i16 Qty,
        repeat InCount71 {
            repeat Cancel,
            uint16 Tail,
            char[2] x,
            repeat string Ref,
        },
        Cancel,
    },
}

root packet Order {
    repeat string tag7,
    @leftPad(' ')
    char[3] Px,
    u8 Qty,
    match Qty as Body {
        [28, 62] : Logon,
        148 : Ack,
        88 : Party,
        184 : Cancel,
    },
    u16 Note @calculatedFrom(""CRC32""),
}")).
Eval vm_compute in ("<<<M1486>>>" ++ check (runes_of_ascii "

  // top

root	// c0
packet  // c1
	_x
	    // c2
{
    match 
    // c4
  Foo// c5
as  // c6a

// c6b
    Z9_
    { 
	// c8
		""a	b""	// c9a
    // c9b
	:	// c10
	Pad	// c11
	  ,  
      // c12
	},	// c14
repeat	// c15a

// c15b
		x`line1
line2`
        // c17
	, // c18
    @rightPad // c19a
// c19b
	(
    // c20

  ' '	// c21
      )  // c22
  @calculatedFrom(

    ""a\\""  
  // c24
	) 	 // c25a
// c25b
    metadata	MetaDataX  
      // c27

	,
    @tag( 
    // c29
      0
) // c31
	Logon	int 
	// c33
	  ``

    // c34
    ,
	    // c35
		}  // c36
    	options// c37

{  
      // c38
	  T  // c39
=// c40a
      // c40b

'\x00'
	}  // c42a
    // c42b
 
")).
Eval vm_compute in ("<<<M78>>>" ++ check (runes_of_ascii "options {
Header	=u32; } options {
i8i8	=
    f64 ; body
    =  zchar[
// " ++ [128512]%N ++ runes_of_ascii " emoji
/// triple
00//
] ; }
    //
    MetaData BodyLength  { // trailing space 
}// " ++ [27880; 37322]%N ++ runes_of_ascii "
options
{ Logon= u64 As =
    true i64_
= '\x00' ;
} root packet asx {
@tag(
// `tick` ""quote"" 'q'
//	t
4294967296
    )
    roots @lengthOf( A ) ,repeat uint8 u128
    , int32 i64_  ,
    u8 u `` ,
@lengthOf(
// c
// c
len ) uint64
    //x
    matchKey ,	match rootA
    as stringy {
1 : string_, 7 : charz , 255 : u128, [ // trailing space 
0
,0123456789 ,1,007  ]: len
    , 10
    :trueish } ,
@rightPad	()
    char[ 7] int //
@lengthOf(
x ) `two words`
, }")).
Eval vm_compute in ("<<<M1540>>>" ++ check (runes_of_ascii "packet pack {
    u8 a1 `say ""hi""`,
    @leftPad('\x00')
    uint8 Logon `
    `,
    char[] lengthOf `" ++ [233]%N ++ runes_of_ascii "`,
    //
    //x
    repeat char[] As,
    @lengthOf(string_)
    @calculatedFrom(""a\\"")
    repeat u8x o,
    char string_ @calculatedFrom(""a\""b"") `tab	here`,
    repeat As {
        char[0] i64_ @lengthOf(T) `" ++ [233]%N ++ runes_of_ascii "`,
        char[4294967296] T @calculatedFrom(""\" ++ [233]%N ++ runes_of_ascii """),
        trueish,
        repeat int {
            string Logon @calculatedFrom(""1""),
            metadata,
            uint32 Z9_,// " ++ [27880; 37322]%N ++ runes_of_ascii "
        },
    },
    @tag(00)
    //	t
    i16 a1 `a\`,
}")).
Eval vm_compute in ("<<<M1743>>>" ++ check (runes_of_ascii "// top
packet A {
    // c2
    u8 a,// c5
}// c6a

// c6b
packet B {
    // c9
    u16 b,
}// c13a

// c13b
packet C {
    // c16
    u32 c,// c19a
}

// c20
root packet M {
    u16 Kc,
    // c27
    u16 Kb,// c30
    u16 Ka,
    match Kc as X {
        // c38
        9 : A,
        10 : B,
    },
    match Kb as Y {
        2 : C,
        // c57
        1 : A,
    },// c63a
    // c63b
    match Ka as Z {
        // c68
        1 : B,
    },// c74
    A,// c76
    B,
    // c78
    C,// c80
}")).
Eval vm_compute in ("<<<M48>>>" ++ check (runes_of_ascii "root	packet Logon { @calculatedFrom( """" ) @lengthOf( int ) @tag( 3
) match _x
as // a // b
i64_ { 10:asx
// `tick` ""quote"" 'q'
/// triple
""" ++ [128512]%N ++ runes_of_ascii """ : crc ,[ 0
,
007
] : float  ,// trailing space 
}
    , repeat //	t
uint16
leftPad  ,
    }
    // " ++ [27880; 37322]%N ++ runes_of_ascii "
    packet charz
{  } MetaData
int {
//
// trailing space 
zchar[ 4294967296 ]matchKey
,
asx rootA
    `doc`
, Foo string_ `// not a comment`
,
    char[]u8x , // `tick` ""quote"" 'q'
roots
float , }
")).
Eval vm_compute in ("<<<M1575>>>" ++ check (runes_of_ascii "MetaData BodyLength {
    zchar[65535] As `crlf
        line`,
    u16 charz,
    body len,
    zchar msg_type,
    uint64 metadata,
}

root packet matchKey {
    repeat i8i8 `{ , }`,
}

MetaData a1 {
    i8i8 Pad `it's`,
    int64 roots `doc`,
    Foo BodyLength `u8 x,`,
}

packet _x {
    lengthOf {
        pack `" ++ [28040; 24687; 31867; 22411]%N ++ runes_of_ascii "`,
        string_,
        repeat rootA len,
        zchar[1] u8x,
    },
}")).
Eval vm_compute in ("<<<M1783>>>" ++ check (runes_of_ascii "
packet

    tag
    { 
}
packet

    falsey
{
	string
    charz	@lengthOf(zchar)

    , 
string // trailing space 
    u 
@calculatedFrom(
""" ++ [233]%N ++ runes_of_ascii "t" ++ [233]%N ++ runes_of_ascii """
	)
`// not a comment` ,@leftPad
    ('0' )
char[]
leftPad@calculatedFrom(
""a	b""
	) `// not a comment`
,

    @calculatedFrom(

    ""`tick`"")

    @lengthOf(

roots) repeat MetaDataX

,

    }
")).
Eval vm_compute in ("<<<M1476>>>" ++ check (runes_of_ascii "packet a1 {
    @leftPad()
    float @lengthOf(uint8x),
}

packet Logon {
    char Logon @calculatedFrom(""a\\""),
    T stringy,
    //
    // c
    repeat uint8 stringy `two words`,
}

MetaData charz {
    u tag `
        `,
    a1 falsey,
    Z9_ matchKey,
    f64 lengthOf `a\`,
    f32a roots ``,
    float64 x_y_z,
}")).
Eval vm_compute in ("<<<M1615>>>" ++ check (runes_of_ascii "  // top
  packet // c0a
  // c0b
  orderItem// c1a
	// c1b
		{
    u8 	 // c3
    a// c4
  , 	 // c5a
	// c5b
	}
// c6
root
	packet	// c8a
      // c8b
    newOrder  // c9a
	// c9b
      {
orderItem// c11
      , u8
    // c13

  x	// c14a
    	// c14b
,
    // c15
  } 	 // c16")).
Eval vm_compute in ("<<<M80>>>" ++ check (runes_of_ascii "packet
    len { // trailing space 
repeat zchar f32a `// not a comment` , @tag( 255 )repeat  Pad { x T
, } , @calculatedFrom(
""{,}"") repeat
    // a // b
    leftPad { u64 u8x `tab	here` ,o Packet
    ,char[] chars , } , @tag( 3 )float64
    i8i8 , }
")).
Eval vm_compute in ("<<<M183>>>" ++ check (runes_of_ascii "root
packet tag {
@calculatedFrom(
""{,}""
    // `tick` ""quote"" 'q'
    )
@tag(
//x
// " ++ [27880; 37322]%N ++ runes_of_ascii "
42
    )
    i64_ @lengthOf( calculatedFrom ) , zchar[// " ++ [128512]%N ++ runes_of_ascii " emoji
3 // @lengthOf(
] int  , } root// c
packet Foo { }
// @lengthOf(
")).
Eval vm_compute in ("<<<M1689>>>" ++ check (runes_of_ascii "packet
    T {
int

u
,
    @calculatedFrom(	""\" ++ [233]%N ++ runes_of_ascii """  ) // `tick` ""quote"" 'q'
    repeat 	 // @lengthOf(
string x_y_z  // a // b
	  ,uint32	// `tick` ""quote"" 'q'
  int
    `crlf
line`
, 
}
")).
Eval vm_compute in ("<<<M1935>>>" ++ check (runes_of_ascii "// top
options {
    f32a = 0
}// c5

packet trueish {
}

MetaData _x {
    char[0123456789] zchar,
    string crc,
    char[1] options1,
    uint8 repeatCount,
}// c29")).
Eval vm_compute in ("<<<M396>>>" ++ check (runes_of_ascii "packet uint8x uint8x
{ match pack
    as msg_type	{
    0123456789 :	float
}
,
} packet //	t
a1
    { } options {packetx
    = '\x00'	; u128= ""a	b""  ; }
")).
Eval vm_compute in ("<<<M513>>>" ++ check (runes_of_ascii "packet uint8x
{ match pack
    as msg_type	{
    0123456789 :	float
}
,
} packet //	t
a1
    { } options {packetx
    = '\x00'	; float32= ""a	b""  ; }
")).
Eval vm_compute in ("<<<M463>>>" ++ check (runes_of_ascii "packet uint8x
{ match pack
    as msg_type	{
    0123456789 :	float
}
,
} float32 //	t
a1
    { } options {packetx
    = '\x00'	; u128= ""a	b""  ; }
")).
Eval vm_compute in ("<<<M467>>>" ++ check (runes_of_ascii "packet uint8x
{ match pack
    as msg_type	{
    0123456789 :	float
}
,
} packet //	t
{
    a1 } options {packetx
    = '\x00'	; u128= ""a	b""  ; }
")).
Eval vm_compute in ("<<<M515>>>" ++ check (runes_of_ascii "packet uint8x
{ match pack
    as msg_type	{
    0123456789 :	float
}
,
} packet //	t
a1
    { } options {packetx
    = '\x00'	; u128 ""a	b""  ; }
")).
Eval vm_compute in ("<<<M398>>>" ++ check (runes_of_ascii "packet [
{ match pack
    as msg_type	{
    0123456789 :	float
}
,
} packet //	t
a1
    { } options {packetx
    = '\x00'	; u128= ""a	b""  ; }
")).
Eval vm_compute in ("<<<M120>>>" ++ check (runes_of_ascii "packet float {@calculatedFrom(
// " ++ [128512]%N ++ runes_of_ascii " emoji
// packet A { u8 x, }
""CRC32"" )Foo `" ++ [28040; 24687; 31867; 22411]%N ++ runes_of_ascii "`	,@calculatedFrom( ""a\\"" )
    zchar[ 0 ]	msg_type `doc` , }")).
Eval vm_compute in ("<<<M71>>>" ++ check (runes_of_ascii "root packet MetaDataX
{repeat u8x len `" ++ [28040; 24687; 31867; 22411]%N ++ runes_of_ascii "`,
As { u8x
, } , int f32a
`" ++ [233]%N ++ runes_of_ascii "`, @lengthOf( float ) Z9_
// @lengthOf(
// trailing space 
`a\` , }")).
Eval vm_compute in ("<<<M1522>>>" ++ check (runes_of_ascii "  packet A	{
match k	as
n
	{	[
	1 
, 
22  , 
007
,

    4, 5
    ,

    66 ,
	7  ,  8,	9

    ,
10 ]
: 
B,	2 :C

    }

, 
}
")).
Eval vm_compute in ("<<<M1731>>>" ++ check (runes_of_ascii "MetaData leftPad {
    chars MetaDataX,
}

// c
packet repeatCount {
    char[255] uint8x `" ++ [233]%N ++ runes_of_ascii "`,
}

MetaData pack {
    As Foo,
}")).
Eval vm_compute in ("<<<M1143>>>" ++ check (runes_of_ascii "MetaData // c
leftPad { chars MetaDataX , } packet repeatCount { char[ 255 ] uint8x `" ++ [233]%N ++ runes_of_ascii "` , } MetaData pack { As Foo , }")).
Eval vm_compute in ("<<<M1175>>>" ++ check (runes_of_ascii "MetaData leftPad { chars MetaDataX , } packet repeatCount { char[ 255 ] uint8x `" ++ [233]%N ++ runes_of_ascii "` , } // c
MetaData pack { As Foo , }")).
Eval vm_compute in ("<<<M346>>>" ++ check (runes_of_ascii "MetaData chars {
x_y_z
/// triple
/// triple
x
    `line1
line2` ,_x A`// not a comment`,	} // `tick` ""quote"" 'q'")).
Eval vm_compute in ("<<<M911>>>" ++ check (runes_of_ascii "packet A {
  match k as n {
    [""a"", 22, ""c c"", 4, ""e"", 66, ""g"", 8, ""i"", 10, ""k"", 12] : B
    2 : C
  },
}")).
Eval vm_compute in ("<<<M1915>>>" ++ check (runes_of_ascii "  packet
    A{match k 
as
n

    { 
[ ""a""
	, ""bb"", 007,
    ""d""]
	:

    B

,
	2 : C

    }
,}

")).
Eval vm_compute in ("<<<M620>>>" ++ check (runes_of_ascii "
packet
    asx {match u128 as lengthOf
{
//	t
// `tick` ""quote"" 'q'
255 : x ,
    } @lengthOf(	}")).
Eval vm_compute in ("<<<M862>>>" ++ check (runes_of_ascii "packet A {
  match k as n {
    [""a"", ""bb"", 007, ""d"", ""e"", 66, ""g"", ""h""] : B,
    2 : C
  },
}")).
Eval vm_compute in ("<<<M598>>>" ++ check (runes_of_ascii "
packet
    asx {match u128 as lengthOf
{
//	t
// `tick` ""quote"" 'q'
255 : : x ,
    } ,	}")).
Eval vm_compute in ("<<<M579>>>" ++ check (runes_of_ascii "
packet
    asx {match u128 lengthOf as
{
//	t
// `tick` ""quote"" 'q'
255 : x ,
    } ,	}")).
Eval vm_compute in ("<<<M595>>>" ++ check (runes_of_ascii "
packet
    asx {match u128 as lengthOf
{
//	t
// `tick` ""quote"" 'q'
: : x ,
    } ,	}")).
Eval vm_compute in ("<<<M836>>>" ++ check (runes_of_ascii "packet A {
  match k as n {
    [""a"", ""bb"", 007, ""d"", ""e"", 66] : B,
    2 : C
  },
}")).
Eval vm_compute in ("<<<M1292>>>" ++ check (runes_of_ascii "

  root
    packet

P

    {
	u8
	s_u8,  repeat  u8 r_u8  , u16
    b_len, }

")).
Eval vm_compute in ("<<<M743>>>" ++ check (runes_of_ascii "int16 zchar[ } `doc` char u16 uint16 true false u8 msg_type """ ++ [233]%N ++ runes_of_ascii "t" ++ [233]%N ++ runes_of_ascii """ ""a\\"" pack")).
Eval vm_compute in ("<<<M890>>>" ++ check (runes_of_ascii "packet A { Inner { match k as n { [1,22,007,4,5,66,7,8,9,10] : B, }, }, }")).
Eval vm_compute in ("<<<M800>>>" ++ check (runes_of_ascii "packet A {
  match k as n {
    [1, 22, 007, 4] : B,
    2 : C
  },
}")).
Eval vm_compute in ("<<<M167>>>" ++ check (runes_of_ascii "packet msg_type { repeat// " ++ [27880; 37322]%N ++ runes_of_ascii "
zchar[  007] Logon `two words`, }
")).
Eval vm_compute in ("<<<M439>>>" ++ check (runes_of_ascii "packet uint8x
{ match pack
    as msg_type	{
    0123456789")).
Eval vm_compute in ("<<<M1560>>>" ++ check (runes_of_ascii "
root packet P
{
hdr {

    u8

a  , } , 
u8 x ,
	}")).
Eval vm_compute in ("<<<M1209>>>" ++ check (runes_of_ascii "packet body { i32 f32a `{ , }` // c
, } options { }")).
Eval vm_compute in ("<<<M693>>>" ++ check (runes_of_ascii "// @lengthOf(
packet i8i8 { u128 o , }
options")).
Eval vm_compute in ("<<<M337>>>" ++ check (runes_of_ascii "//	t
options
// c
// " ++ [128512]%N ++ runes_of_ascii " emoji
{
    } // c")).
Eval vm_compute in ("<<<M708>>>" ++ check (runes_of_ascii "// @lengthOf(
packet i8i8 { u128 o ,")).
Eval vm_compute in ("<<<M1284>>>" ++ check (runes_of_ascii "root packet P {
    string s,
}
")).
Eval vm_compute in ("<<<M1038>>>" ++ check (runes_of_ascii "packet A {
 u8 x `d" ++ [12]%N ++ runes_of_ascii "`, // c" ++ [12]%N ++ runes_of_ascii "
}")).
Eval vm_compute in ("<<<M713>>>" ++ check (runes_of_ascii "// @lengthOf(
packet i8i8")).
Eval vm_compute in ("<<<M1791>>>" ++ check (runes_of_ascii "
MetaData
i64_

{
	}

")).
Eval vm_compute in ("<<<M170>>>" ++ check (runes_of_ascii "packet pack
{
} 	 ")).
Eval vm_compute in ("<<<M1006>>>" ++ check (runes_of_ascii "packet A {
}
// c" ++ [8202]%N)).
Eval vm_compute in ("<<<M571>>>" ++ check (runes_of_ascii "
packet
    asx {")).
Eval vm_compute in ("<<<M1663>>>" ++ check (runes_of_ascii "packet A {
}// c")).
Eval vm_compute in ("<<<M750>>>" ++ check (runes_of_ascii "uk%W,3^r>l")).
Eval vm_compute in ("<<<M293>>>" ++ check (runes_of_ascii "  

")).
