From FP Require Import Lexer Parser ShowPT Digest Formatter.
From Coq Require Import String List NArith.
Import ListNotations.
Open Scope string_scope.
Set Printing Width 100000000.
Set Printing Depth 100000000.
Definition show_fres (r : fres) : string :=
  match r with
  | FOk s => "OK:" ++ sh_escaped s ""
  | FErr s => "ERR:" ++ sh_escaped s ""
  | FPanic p => "PANIC:" ++ p
  end.
Definition check (rs : list rune) : string := digest (show_fres (format_res rs)).
Definition full (rs : list rune) : string := show_fres (format_res rs).
Eval vm_compute in ("<<<M213>>>" ++ check (runes_of_ascii "
packet body
{@tag(
    3 ) i16 options1 ,  repeat string
body ,
@calculatedFrom( // trailing space 
""a\""b""
) x_y_z @calculatedFrom(
""a\\"") `it's` , match o as BodyLength
{ 00
:
pack,
1 : u	,
[255,255,""// no comment"" ]
    : Packet	[ 65535 ] :  i64_ , }
// @lengthOf(
//
,// a // b
@calculatedFrom( // c
""" ++ [233]%N ++ runes_of_ascii "t" ++ [233]%N ++ runes_of_ascii """ ) string// `tick` ""quote"" 'q'
len `tab	here`,
    @tag( 0123456789
) repeat
    //	t
    matchKey A `a\`,
    i8i8 Packet , stringy @calculatedFrom( ""x y"" ) ,f32a As
`crlf
line` ,u128{ repeat
    int  {
    repeat
    zchar[255 ] a1`{ , }`
,
// a // b
// a // b
match calculatedFrom as body//	t
{
    0 // " ++ [27880; 37322]%N ++ runes_of_ascii "
:body	42
    // c
    :tag // @lengthOf(
, ""1""	:packetx , ""it's"":  roots,}, i32 u @calculatedFrom(// " ++ [128512]%N ++ runes_of_ascii " emoji
""a\\"" ) ,
}	,
string_`crlf
line`, _x  , repeat lengthOf crc ,	}, // " ++ [27880; 37322]%N ++ runes_of_ascii "
}
MetaData rootA {
uint8	tag , string	Z9_ `u8 x,` ,
    f64 float ,
    Logon
falsey`a\`
, } packet len{  char[] u	`// not a comment`, char[] Header
`// not a comment`	, string charz
// a // b
/// triple
`tab	here` ,
    //
    @leftPad
    // packet A { u8 x, }
    ( )@lengthOf(
a1)
// " ++ [128512]%N ++ runes_of_ascii " emoji
//x
len
crc, @leftPad ( ' ' )Packet @calculatedFrom(""" ++ [128512]%N ++ runes_of_ascii """ ) , repeat uint8 a1
, match
    T as As { ""packet"": Logon , [	""" ++ [128512]%N ++ runes_of_ascii """
    , 0 ]
: i64_ , [ ""packet"" , 7
    ]
    : string_ ,
} , repeat//
zchar[
007 ] zchar `{ , }` ,
    }
")).
Eval vm_compute in ("<<<M1410>>>" ++ check (runes_of_ascii "// top
options {
    // c1a
    // c1b
    StringPrefixLenType = u8;
    ArrayPrefixLenType = u32;// c9
    FixedStringPadFromLeft = true;
    // c13
    FixedStringPadChar = ' ';
    // c17
}// c18a

// c18b
packet Leg {
}

packet Heartbeat {
    // c25
    zchar[6] msgKind,
    @rightPad('0')
    // c34
    char[3] Qty,
    zchar[9] Side2,
    // c44
    i8 Acct,
    // c47
}// c48a

// c48b
packet Logout {
    // c51a
    // c51b
    int8 x,
    // c54
}// c55

packet Order {
    // c58a
    // c58b
    char[] Acct,// c61
    zchar[8] count,
    u32 OrderId,
    uint8 lastPx,
    u16 clOrdID,
    zchar[7] Note,
    // c80
}// c81

root packet Reject {
    @leftPad(' ')
    char[8] Side2,// c94a
    // c94b
    i8 clOrdID,
    // c97
    repeat f32 x,
    // c101
    u32 lastPx,
    // c104
    match lastPx as Body {
        // c109a
        // c109b
        [30, 147] : Heartbeat,
        // c117
        134 : Leg,
        // c121
        183 : Logout,
        40 : Order,
        // c129a
        // c129b
    },// c131
    u16 Ref @calculatedFrom(""CRC32""),
    // c137
}// c138")).
Eval vm_compute in ("<<<M176>>>" ++ check (runes_of_ascii "
packet i8i8 { @tag( 0 ) int32
leftPad `it's`
, repeat char[]Header`crlf
line`
, @calculatedFrom( ""\" ++ [233]%N ++ runes_of_ascii """ )/// triple
repeat
    uint8 float , @rightPad
('\x00' ) char[] zchar@lengthOf(
// a // b
//x
leftPad )
`
` , Z9_ ,
@lengthOf(
x ) match As as
    tag {	""a	b""  :
string_ [
10 , 7 , ""1"" , 255
,
3
    , 42 ,
    //
    0123456789, """ ++ [128512]%N ++ runes_of_ascii """ ] :x_y_z ,""CRC32""
: Z9_  , 00
    // c
    : Logon
    ,
} , @tag(007) o {
    char
    Packet
@lengthOf(
    //	t
    repeatCount
) , } , @lengthOf(
// " ++ [27880; 37322]%N ++ runes_of_ascii "
/// triple
pack
) float64 rootA `two words`
    ,	repeat char[] BodyLength ,}
packet Z9_{ match
    // packet A { u8 x, }
    As
as
    a1{ //
0: trueish // `tick` ""quote"" 'q'
,} ,
/// triple
// " ++ [27880; 37322]%N ++ runes_of_ascii "
} root packet u8x {
/// triple
// " ++ [128512]%N ++ runes_of_ascii " emoji
repeat
string Logon `tab	here` , // " ++ [128512]%N ++ runes_of_ascii " emoji
}	options { _x
=
    ""packet""
;f32a =007 } packet i8i8 {@calculatedFrom( ""CRC32"" )
A @lengthOf(
a1
)
, } 	 ")).
Eval vm_compute in ("<<<M1937>>>" ++ check (runes_of_ascii "options 
{
	}  packet
	u8x

{  string

uint8x
@calculatedFrom(
	""{,}"")
	`crlf
line`  , } MetaData
	falsey {	Logon packetx  `tab	here`
,  }
    root  packet
o
{
falsey
	@calculatedFrom(
//x
// " ++ [27880; 37322]%N ++ runes_of_ascii "
""" ++ [28040; 24687]%N ++ runes_of_ascii """)

,

@tag( 0123456789

    )	// `tick` ""quote"" 'q'
char[
    // `tick` ""quote"" 'q'
  0123456789
] 
u128 @calculatedFrom(	""{,}""  )

, @tag(	00
	)

    @lengthOf(stringy)
	@tag(	4294967296)rootA
    Header  ,
    @lengthOf( 
As
	)  repeat 
leftPad

    `// not a comment`  // c

	,

i8 leftPad@calculatedFrom(  """"
	)
	,@tag( 
10 )
zchar[	007
]	packetx

    @lengthOf(// packet A { u8 x, }
  u8x
	)
    `" ++ [28040; 24687; 31867; 22411]%N ++ runes_of_ascii "`
,}
    packet

options1
{  
  //	t

  // trailing space 

falsey // packet A { u8 x, }
{	//	t
    zchar[
	3]  // " ++ [128512]%N ++ runes_of_ascii " emoji
	  roots
//
// a // b

	, u32 
Header // c
		,
} 
, // a // b

	}

")).
Eval vm_compute in ("<<<M90>>>" ++ check (runes_of_ascii "root packet lengthOf
{ // a // b
match i64_  as options1{	""// no comment"":
    // packet A { u8 x, }
    f32a
    // @lengthOf(
    , 65535 :
    falsey, } ,  @tag(
0
)  char[]
    body
@lengthOf(  lengthOf ) ,	u64 string_ `it's`,@lengthOf( string_ // packet A { u8 x, }
)crc {repeat
zchar[ 3
] u	,	pack // packet A { u8 x, }
`a\`// trailing space 
,char[] crc `` , } //x
,int16 // packet A { u8 x, }
metadata `line1
line2`, }root	packet //	t
leftPad
{ repeat	zchar[
4294967296 //x
] MetaDataX
    ,@tag( 10 // `tick` ""quote"" 'q'
) match  tag as falsey
{ 7:
    BodyLength
, 0 : i64_ ,} , repeat char[ 255
    // @lengthOf(
    ] A
,
char[ 7]
trueish @calculatedFrom(	""a\\"" ) `two words`
// " ++ [128512]%N ++ runes_of_ascii " emoji
//	t
, i16
Logon, }
")).
Eval vm_compute in ("<<<M1951>>>" ++ check (runes_of_ascii "options {
}

packet u8x {
    string uint8x @calculatedFrom(""{,}"") `crlf
        line`,
}

MetaData falsey {
    Logon packetx `tab	here`,
}

root packet o {
    falsey @calculatedFrom(""" ++ [28040; 24687]%N ++ runes_of_ascii """),
    @tag(0123456789)
    // `tick` ""quote"" 'q'
    char[0123456789] u128 @calculatedFrom(""{,}""),
    @tag(00)
    @lengthOf(stringy)
    @tag(4294967296)
    rootA Header,
    @lengthOf(As)
    repeat leftPad `// not a comment`,
    i8 leftPad @calculatedFrom(""""),
    @tag(10)
    zchar[007] packetx @lengthOf(u8x) `" ++ [28040; 24687; 31867; 22411]%N ++ runes_of_ascii "`,
}

packet options1 {
    //	t
    // trailing space 
    falsey {
        //	t
        zchar[3] roots,
        u32 Header,
    },// a // b
}")).
Eval vm_compute in ("<<<M131>>>" ++ check (runes_of_ascii "
root
packet
u8x{ char
// trailing space 
// @lengthOf(
i64_ ,repeat char[1
] Z9_ , @tag(
//x
// " ++ [128512]%N ++ runes_of_ascii " emoji
42
) repeat Logon MetaDataX , @leftPad
    //
    ( )
    Foo
@lengthOf( As
    ) // " ++ [128512]%N ++ runes_of_ascii " emoji
, match u128	as //	t
calculatedFrom {// " ++ [128512]%N ++ runes_of_ascii " emoji
4294967296:
BodyLength,
    3:  A , //
[ 4294967296//
, ""packet""] : o	, 65535 : roots } ,
repeat Pad { uint64 x @calculatedFrom( """ ++ [128512]%N ++ runes_of_ascii """
    ) , a1 @lengthOf( As)
    `line1
line2` ,	repeat string_{repeat uint32 _x	, f32
MetaDataX `it's`
    //	t
    , u64 As  @lengthOf( crc ) , } ,
    roots , }, zchar[  00] // @lengthOf(
u128, }
//	t
")).
Eval vm_compute in ("<<<M296>>>" ++ check (runes_of_ascii "MetaData u128
{  zchar[ 3 ] matchKey	`crlf
line` //
, } // packet A { u8 x, }
options
{ //x
} root	packet rootA
    { @calculatedFrom(
    ""{,}"" ) repeat u16 len ,repeat body,i8i8 @lengthOf( packetx),metadata int `line1
line2` ,  uint8x `two words` // c
, int16 //
x_y_z
, repeatCount , Logon {  repeat// trailing space 
i8 Packet `line1
line2`
, } ,}
options
{// " ++ [128512]%N ++ runes_of_ascii " emoji
lengthOf
//
// trailing space 
= ' ' ;
i64_ = ""{,}"" ; msg_type
= '0'
; u=
// packet A { u8 x, }
// " ++ [27880; 37322]%N ++ runes_of_ascii "
i32;_x = ""abc""
    // packet A { u8 x, }
    ; }
")).
Eval vm_compute in ("<<<M193>>>" ++ check (runes_of_ascii "
root packet lengthOf{
    char[ 3 ] Pad ,	@rightPad
    (  '0'
)
    crc `doc` ,i32 //x
uint8x
,	zchar { match Logon  as int { [ 0 , """ ++ [233]%N ++ runes_of_ascii "t" ++ [233]%N ++ runes_of_ascii """] :o , ""// no comment"" :len ,
} , asx
{
    //x
    char[	10 ]
u128 // a // b
@lengthOf(  x_y_z)`say ""hi""`, }
/// triple
//
, char[
1 ] A, u// c
chars
    `` , }, repeat matchKey
{ //x
string trueish@calculatedFrom(
    ""a	b""  )  , repeat
    // packet A { u8 x, }
    i8 msg_type `it's` ,	} , /// triple
}
packet float { }")).
Eval vm_compute in ("<<<M1926>>>" ++ check (runes_of_ascii "// top
options {
    // c1
    uint8x = 007;// c5
    lengthOf = i8;// c9
}// c10

packet i64_ {
    // c13
    @calculatedFrom(""1"")
    // c16
    @tag(3)
    // c19
    @lengthOf(rootA)
    // c22
    repeat int8 Packet `u8 x,`,// c27
}// c28

root packet stringy {
    // c32
    @rightPad(' ')
    // c36
    repeat char[10] repeatCount,// c42
    @tag(255)
    // c45
    float64 msg_type @calculatedFrom(""packet""),// c51
}// c52")).
Eval vm_compute in ("<<<M220>>>" ++ check (runes_of_ascii "root
    packet string_{
//	t
//x
i16 o /// triple
,
    @tag( 4294967296
)
repeat char o ,Foo {match MetaDataX // trailing space 
as leftPad
    { 0123456789 : calculatedFrom ,
[ 0 ]
: u128}
, repeat
u
// `tick` ""quote"" 'q'
// @lengthOf(
{
    zchar[65535]body@lengthOf( float  )
,o , asx @calculatedFrom( ""{,}"" ) `it's` // `tick` ""quote"" 'q'
,}// `tick` ""quote"" 'q'
,
} ,  }
")).
Eval vm_compute in ("<<<M1787>>>" ++ check (runes_of_ascii "MetaData Header {
}

packet crc {
    match zchar as leftPad {
        7 : As,
        0 : Packet,
        [00] : Pad,
        //x
        //x
        ""// no comment"" : calculatedFrom,
        3 : string_,
    },
    falsey packetx `crlf
        line`,// " ++ [27880; 37322]%N ++ runes_of_ascii "
    @tag(42)
    repeat u64 packetx,
    @calculatedFrom(""1"")
    repeat u16 calculatedFrom,
}")).
Eval vm_compute in ("<<<M1338>>>" ++ check (runes_of_ascii "options {
    LittleEndian = true;
    StringPrefixLenType = u16;
    FixedStringPadChar = ' ';
}
packet Logon {
    @leftPad('0') char[10] tag7,
}
root packet Ack {
    int32 Px,
    uint16 count,
    string Qty,
    string OrderId,
    string Flags,
    u8 x,
    match x as Body {
        [58, 169] : Logon,
    },
}
")).
Eval vm_compute in ("<<<M262>>>" ++ check (runes_of_ascii "  packet  Logon
    { o Header ,	Header
, @lengthOf(
u )	char[ 255 ] tag `tab	here`, char[]falsey ,
    @lengthOf(	zchar )
    @rightPad (
) float roots// @lengthOf(
,
@calculatedFrom(	""// no comment"") i64
u8x,
} options { metadata = '0' ;_x = 4294967296 ; Packet
    =
    '0'
;
    }

")).
Eval vm_compute in ("<<<M1274>>>" ++ check (runes_of_ascii "// top
options
    // c0
{ // c1a
  // c1b
FixedStringPadFromLeft
    // c2
= // c3
true
    // c4
; // c5a
  // c5b
}
    // c6
root // c7
packet P {
    // c10
char[ // c11a
  // c11b
4 // c12a
  // c12b
] z // c14
,
    // c15
} // c16a
  // c16b
")).
Eval vm_compute in ("<<<M1328>>>" ++ check (runes_of_ascii "packet

    Logon
    {

string

    user
,} root	packet	Frame{ u8 K 
,
    match  K 
as Body
	{ 1
:
    Logon ,2
: Logout  ,

}  ,
	Tail, }

    packet
Logout
	{ u16	reason ,

}
	packet  Tail
{u32	crc
    ,  }
")).
Eval vm_compute in ("<<<M38>>>" ++ check (runes_of_ascii "options
{ falsey
    /// triple
    = false ; falsey=
    //
    int16// `tick` ""quote"" 'q'
;
    // `tick` ""quote"" 'q'
    A =
    // trailing space 
    u32  ;
    trueish	= 1  ;
    }
")).
Eval vm_compute in ("<<<M44>>>" ++ check (runes_of_ascii "
packet repeatCount
    {
trueish , } packet uint8x
{/// triple
match u8x as calculatedFrom
    { [ 4294967296 ]: len ,
[ """ ++ [128512]%N ++ runes_of_ascii """ ,	""" ++ [233]%N ++ runes_of_ascii "t" ++ [233]%N ++ runes_of_ascii """ , 255 , //
1
] : falsey , } , }
")).
Eval vm_compute in ("<<<M453>>>" ++ check (runes_of_ascii "packet uint8x
{ match pack
    as msg_type	{
    0123456789 :	float
}
@lengthOf(
} packet //	t
a1
    { } options {packetx
    = '\x00'	; u128= ""a	b""  ; }
")).
Eval vm_compute in ("<<<M1446>>>" ++ check (runes_of_ascii "  MetaData	leftPad
    { chars

MetaDataX	,
    }
    packet  repeatCount { char[255 ]uint8x `" ++ [233]%N ++ runes_of_ascii "`,
	} MetaData

    pack
	{

    As	Foo	,}  
      // c")).
Eval vm_compute in ("<<<M548>>>" ++ check (runes_of_ascii "packet uint8x
{ match pack
    as msg_type	{
    0123456789 :	float
}
,
} packet //	t
a1
    { } options {packetx
    ''= '\x00'	; u128= ""a	b""  ; }
")).
Eval vm_compute in ("<<<M452>>>" ++ check (runes_of_ascii "packet uint8x
{ match pack
    as msg_type	{
    0123456789 :	float
}
}
, packet //	t
a1
    { } options {packetx
    = '\x00'	; u128= ""a	b""  ; }
")).
Eval vm_compute in ("<<<M505>>>" ++ check (runes_of_ascii "packet uint8x
{ match pack
    as msg_type	{
    0123456789 :	float
}
,
} packet //	t
a1
    { } options {packetx
    = '\x00'	 u128= ""a	b""  ; }
")).
Eval vm_compute in ("<<<M703>>>" ++ check (runes_of_ascii "// @lengthOf(
packet i8i8 { u128 o , }
options '1'{ MetaDataX = true;
    BodyLength =""packet"" x_y_z= 007
crc //x
= ""abc"" ;
    msg_type =
i16 }")).
Eval vm_compute in ("<<<M120>>>" ++ check (runes_of_ascii "packet float {@calculatedFrom(
// " ++ [128512]%N ++ runes_of_ascii " emoji
// packet A { u8 x, }
""CRC32"" )Foo `" ++ [28040; 24687; 31867; 22411]%N ++ runes_of_ascii "`	,@calculatedFrom( ""a\\"" )
    zchar[ 0 ]	msg_type `doc` , }")).
Eval vm_compute in ("<<<M1771>>>" ++ check (runes_of_ascii "packet A {
    match k as n {
        [
            1, 22, ""c c"", 4, 5,
            ""f"", 7, 8, ""i"", 10
        ] : B,
        2 : C,
    },
}")).
Eval vm_compute in ("<<<M714>>>" ++ check (runes_of_ascii "// @lengthOf(
packet i8i8 { u128 o , }
options { MetaDataX = true;
    BodyLength =""packet"" x_y_z= 007
crc //x
= ""abc"" ;
    msg_type")).
Eval vm_compute in ("<<<M1932>>>" ++ check (runes_of_ascii "
packet A	{
    u16 
len
    @lengthOf(
	body) `a
b`

    , u32 crc@calculatedFrom(""CRC32""
)
    `a
b`,
string
body
,
    }

")).
Eval vm_compute in ("<<<M1194>>>" ++ check (runes_of_ascii "// top
packet // c0
body // c1
{ // c2
i32 // c3
f32a // c4
`{ , }` // c5
, // c6
} // c7
options // c8
{ // c9
} // c10
")).
Eval vm_compute in ("<<<M1158>>>" ++ check (runes_of_ascii "MetaData leftPad { chars MetaDataX , } packet
// c
repeatCount { char[ 255 ] uint8x `" ++ [233]%N ++ runes_of_ascii "` , } MetaData pack { As Foo , }")).
Eval vm_compute in ("<<<M39>>>" ++ check (runes_of_ascii "options { o =
    '\x00' // " ++ [128512]%N ++ runes_of_ascii " emoji
; T = u32 ; msg_type
// `tick` ""quote"" 'q'
//
= ""a	b""  a1 = '\x00'
}
// " ++ [128512]%N ++ runes_of_ascii " emoji
")).
Eval vm_compute in ("<<<M1244>>>" ++ check (runes_of_ascii "// top
root // c0
packet // c1
P { // c3
repeat // c4
char cs
    // c6
, u8 x // c9a
  // c9b
, }
    // c11
")).
Eval vm_compute in ("<<<M897>>>" ++ check (runes_of_ascii "packet A {
  match k as n {
    [""a"", 22, ""c c"", 4, ""e"", 66, ""g"", 8, ""i"", 10, ""k""] : B,
    2 : C
  },
}")).
Eval vm_compute in ("<<<M641>>>" ++ check (runes_of_ascii "
packet
    asx {match u128 as lengthOf
{
//	t
// `tick` ""quote"" 'q'
255 : x ,
    } @lengthOf ,	}")).
Eval vm_compute in ("<<<M1832>>>" ++ check (runes_of_ascii "

  packet
    A
    {B b
`a
    b
  c` ,
B
    `a
    b
  c`,
	repeat B	bs `a
    b
  c` ,

}
")).
Eval vm_compute in ("<<<M717>>>" ++ check (runes_of_ascii "// @lengthOf(
packet i8i8 { u128 o , }
options { MetaDataX = true;
    BodyLength =""packet"" ")).
Eval vm_compute in ("<<<M631>>>" ++ check (runes_of_ascii "
packet
    asx {match u128 as lengthOf
{
//	t
// `tick` ""quote"" 'q'
255 %: x ,
    } ,	}")).
Eval vm_compute in ("<<<M1572>>>" ++ check (runes_of_ascii "packet A {
    match k as n {
        [1, ""bb"", 007, ""d"", 5] : B,
        2 : C,
    },
}")).
Eval vm_compute in ("<<<M846>>>" ++ check (runes_of_ascii "packet A {
  match k as n {
    [""a"", 22, ""c c"", 4, ""e"", 66, ""g""] : B
    2 : C
  },
}")).
Eval vm_compute in ("<<<M815>>>" ++ check (runes_of_ascii "packet A {
  match k as n {
    [""a"", ""bb"", ""c c"", ""d"", ""e""] : B,
    2 : C
  },
}")).
Eval vm_compute in ("<<<M1612>>>" ++ check (runes_of_ascii "

  packet A{	// a
  @tag(  1 
) u8
x
, // b
	  // c
		@tag( 2
	)u8  y  , }
")).
Eval vm_compute in ("<<<M1518>>>" ++ check (runes_of_ascii "packet A {
    B b `a
    b`,
    B `a
    b`,
    repeat B bs `a
    b`,
}")).
Eval vm_compute in ("<<<M454>>>" ++ check (runes_of_ascii "packet uint8x
{ match pack
    as msg_type	{
    0123456789 :	float
}")).
Eval vm_compute in ("<<<M628>>>" ++ check (runes_of_ascii "
packet
    asx {match u128 as lengthOf
{
//	t
// `tick` ""quote""")).
Eval vm_compute in ("<<<M778>>>" ++ check (runes_of_ascii "packet A {
  match k as n {
    [1, 22] : B,
    2 : C
  },
}")).
Eval vm_compute in ("<<<M1648>>>" ++ check (runes_of_ascii "
packet
A
	{ B {// a
	u8	x ,// b
	}	// c

,// d
    }

")).
Eval vm_compute in ("<<<M1197>>>" ++ check (runes_of_ascii "// c
packet body { i32 f32a `{ , }` , } options { }")).
Eval vm_compute in ("<<<M1411>>>" ++ check (runes_of_ascii "packet A

    {

    u8 
x
	`d" ++ [65279]%N ++ runes_of_ascii "`
	,// c" ++ [65279]%N ++ runes_of_ascii "
  } ")).
Eval vm_compute in ("<<<M1457>>>" ++ check (runes_of_ascii "MetaData o {
}

MetaData T {
}

options {
}")).
Eval vm_compute in ("<<<M1067>>>" ++ check (runes_of_ascii "packet A {    u8 x, // c    u8 y,}")).
Eval vm_compute in ("<<<M197>>>" ++ check (runes_of_ascii "
options {u8x
=
    ""packet"" ;	}
")).
Eval vm_compute in ("<<<M934>>>" ++ check (runes_of_ascii "root packet A {
    u8 x `
`,
}")).
Eval vm_compute in ("<<<M923>>>" ++ check (runes_of_ascii "packet A {
    u8 x `a
b`,
}")).
Eval vm_compute in ("<<<M1391>>>" ++ check (runes_of_ascii "
// c

packet
	x
	{
}

")).
Eval vm_compute in ("<<<M51>>>" ++ check (runes_of_ascii "options {} // " ++ [128512]%N ++ runes_of_ascii " emoji")).
Eval vm_compute in ("<<<M1128>>>" ++ check (runes_of_ascii "// c
MetaData u { }")).
Eval vm_compute in ("<<<M1017>>>" ++ check (runes_of_ascii "// c" ++ [8233]%N ++ runes_of_ascii "
packet A {
}")).
Eval vm_compute in ("<<<M994>>>" ++ check (runes_of_ascii "packet A {
}// c" ++ [5760]%N)).
Eval vm_compute in ("<<<M761>>>" ++ check (runes_of_ascii "{];z" ++ [65533]%N ++ runes_of_ascii """t" ++ [65533; 65533; 65533]%N ++ runes_of_ascii "XKU" ++ [65533; 2]%N)).
Eval vm_compute in ("<<<M741>>>" ++ check ([65533; 65533]%N ++ runes_of_ascii "1" ++ [65533]%N ++ runes_of_ascii "dcV")).
Eval vm_compute in ("<<<M733>>>" ++ check (runes_of_ascii "


")).
