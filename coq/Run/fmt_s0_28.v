From FP Require Import Lexer Parser ShowPT Digest Formatter.
From Coq Require Import String List NArith.
Import ListNotations.
Open Scope string_scope.
Set Printing Width 100000000.
Set Printing Depth 100000000.
Definition show_fres (r : fres) : string :=
  match r with
  | FOk s => "OK:" ++ sh_escaped s ""
  | FErr s => "ERR:" ++ sh_escaped s ""
  | FPanic p => "PANIC:" ++ p
  end.
Definition check (rs : list rune) : string := digest (show_fres (format_res rs)).
Definition full (rs : list rune) : string := show_fres (format_res rs).
Eval vm_compute in ("<<<M1343>>>" ++ check (runes_of_ascii "// top
options
    // c0
{ // c1a
  // c1b
LittleEndian
    // c2
= // c3a
  // c3b
false
    // c4
; ArrayPrefixLenType = // c7a
  // c7b
u8
    // c8
; // c9
FixedStringPadFromLeft // c10a
  // c10b
= // c11
true ; // c13
FixedStringPadChar
    // c14
= '0' // c16
;
    // c17
} // c18
packet
    // c19
Heartbeat {
    // c21
string lastPx , uint8 // c25
Qty ,
    // c27
i64 // c28a
  // c28b
Acct
    // c29
,
    // c30
char[ // c31
4 ] // c33
Ref // c34
, // c35
} packet // c37
Fill // c38
{ // c39
uint8 // c40a
  // c40b
Ref // c41
, Heartbeat // c43
, // c44a
  // c44b
f32 // c45
OrderId , // c47
repeat f32 // c49
x
    // c50
, // c51a
  // c51b
} root packet Order
    // c55
{ // c56a
  // c56b
zchar[
    // c57
2 // c58
] // c59a
  // c59b
OrderId ,
    // c61
zchar[ // c62a
  // c62b
2 ]
    // c64
Acct
    // c65
,
    // c66
zchar[ // c67
1 ] // c69
Note // c70a
  // c70b
,
    // c71
zchar[
    // c72
9 // c73
] Qty // c75a
  // c75b
, // c76a
  // c76b
string price // c78
, // c79
string // c80a
  // c80b
tag7
    // c81
, // c82a
  // c82b
u32
    // c83
x
    // c84
, // c85a
  // c85b
match // c86
x as // c88
Body // c89
{ // c90
123 // c91
: // c92a
  // c92b
Fill , // c94a
  // c94b
112 // c95a
  // c95b
: // c96a
  // c96b
Heartbeat , // c98
} // c99
, // c100
u32 seqNo
    // c102
@calculatedFrom( // c103
""CRC32"" // c104
)
    // c105
,
    // c106
} // c107
")).
Eval vm_compute in ("<<<M43>>>" ++ check (runes_of_ascii "packet asx {
    leftPad@calculatedFrom( """ ++ [233]%N ++ runes_of_ascii "t" ++ [233]%N ++ runes_of_ascii """ ) , @leftPad
(  '0')
    // trailing space 
    u8x As `crlf
line` ,char[ 3 ] asx @calculatedFrom( ""{,}"" )  ,
// @lengthOf(
// trailing space 
repeat u128  { int {packetx @calculatedFrom( ""packet"" )
    ,	match
T as  T
{ ""a	b""
: o , } , zchar[ 00
    ]lengthOf
`{ , }` ,
/// triple
// trailing space 
char[] crc @calculatedFrom( ""abc"" )
, } , Header	@calculatedFrom( """ ++ [233]%N ++ runes_of_ascii "t" ++ [233]%N ++ runes_of_ascii """ )
`two words` ,
repeat uint8 uint8x , repeat
    //
    char[0123456789 ]float`u8 x,`,} ,
packetx x `say ""hi""` , @rightPad ( )
i8i8
    @calculatedFrom( ""x y""), @leftPad
    ( ) BodyLength {repeat	int32
_x ``  , i8 msg_type
`doc` //
, }, }
// `tick` ""quote"" 'q'
// packet A { u8 x, }
packet body { }	packet	repeatCount{zchar[  3 ] Packet, @lengthOf( // @lengthOf(
Header  )
    i64
// c
// c
Packet `two words` ,
zchar[ 65535
]calculatedFrom `tab	here`//	t
, match x as leftPad
    { ""// no comment"": rootA
    , ""`tick`"" :
o,
}
,// " ++ [128512]%N ++ runes_of_ascii " emoji
zchar[ //	t
3 ]
// packet A { u8 x, }
// " ++ [27880; 37322]%N ++ runes_of_ascii "
u128 @calculatedFrom( ""{,}"" ) `{ , }`
    ,
}
    //	t
    options { u = char[ 42 ] // " ++ [27880; 37322]%N ++ runes_of_ascii "
metadata
=""a\\""
;  Logon =
string ; Z9_ = u16
;  }
")).
Eval vm_compute in ("<<<M129>>>" ++ check (runes_of_ascii "packet
MetaDataX { metadata trueish`" ++ [233]%N ++ runes_of_ascii "`
//x
//x
,// trailing space 
@calculatedFrom(""`tick`"" )uint8x
    // c
    @calculatedFrom(  """ ++ [128512]%N ++ runes_of_ascii """  ) `{ , }`
    , @calculatedFrom( ""a\""b"" ) // packet A { u8 x, }
match Packet as
    body { 3
    : repeatCount
,""x y""
    /// triple
    :lengthOf// `tick` ""quote"" 'q'
4294967296 :
    packetx
    , [ ""abc""
, ""// no comment""
    ,
""abc"" ,
""\n"" //	t
, ""1""
]: u128 [ 00 , 65535 ,""x y"" ,""{,}""  ]
: calculatedFrom ,
    7 :	i8i8  }, u8x ,match int as	matchKey{
[1 ,""CRC32""]
    // trailing space 
    :// @lengthOf(
asx,	}
    , @lengthOf( // " ++ [128512]%N ++ runes_of_ascii " emoji
a1) string x `it's` , repeat // @lengthOf(
char matchKey  ,
    // a // b
    @leftPad // trailing space 
( )@rightPad ( ) match
metadata	as  Packet { [ 65535  ] : Header , }, @tag( 255)
zchar[ 3 ] crc `u8 x,` ,} MetaData
    rootA // trailing space 
{
i8i8	Pad , int8
packetx `{ , }`
,
    int8 stringy,
    // `tick` ""quote"" 'q'
    body _x  , body o , }")).
Eval vm_compute in ("<<<M221>>>" ++ check (runes_of_ascii "packet u128
{ @rightPad (
' ' )
i64_ { Logon ,char[ 4294967296
    // @lengthOf(
    ] MetaDataX@calculatedFrom( """ ++ [28040; 24687]%N ++ runes_of_ascii """ ) , } // " ++ [27880; 37322]%N ++ runes_of_ascii "
,	rootA{ zchar[
    // " ++ [128512]%N ++ runes_of_ascii " emoji
    1 // a // b
]rootA ,
asx { rootA @calculatedFrom( ""abc""  ), repeat uint16 x_y_z
,
    // packet A { u8 x, }
    zchar[
42
    ] stringy ,body , }, }, @leftPad
( '\x00' ) char[ 3]Z9_ @lengthOf(  roots )
    // trailing space 
    `" ++ [233]%N ++ runes_of_ascii "`	, @lengthOf( charz	) @leftPad ( '0')@calculatedFrom(  ""a\""b"" )
    zchar[//	t
7 ]
    // @lengthOf(
    a1 @calculatedFrom( ""\" ++ [233]%N ++ runes_of_ascii """
) //
`// not a comment` ,
@lengthOf( lengthOf ) repeat
i16
chars
,int
{
    //	t
    zchar[
    1 ] calculatedFrom`line1
line2`,Packet `" ++ [28040; 24687; 31867; 22411]%N ++ runes_of_ascii "` , } ,// " ++ [128512]%N ++ runes_of_ascii " emoji
@rightPad ( '\x00'  )
    zchar[255 // `tick` ""quote"" 'q'
]
    repeatCount @calculatedFrom(""\" ++ [233]%N ++ runes_of_ascii """ ) , repeat
    char[] Pad
`a\` ,  @lengthOf( pack )	i8 int , }")).
Eval vm_compute in ("<<<M230>>>" ++ check (runes_of_ascii "packet rootA{	match
zchar as
    // " ++ [128512]%N ++ runes_of_ascii " emoji
    int {
    [ ""it's""
, ""1""]
    :// c
tag ,
    } , char Packet @lengthOf( body ) , metadata @lengthOf( packetx ) ,@calculatedFrom( """ ++ [128512]%N ++ runes_of_ascii """	)match
    repeatCount as f32a { """ ++ [28040; 24687]%N ++ runes_of_ascii """
    :chars ,
    }
    ,@lengthOf(string_ )char[ 0
    //
    ] len @calculatedFrom(
""abc"" )
,
    // `tick` ""quote"" 'q'
    u8 uint8x@lengthOf( roots)  `say ""hi""`
, int @calculatedFrom( ""a\""b"") ,match
msg_type as i8i8 {// c
""\" ++ [233]%N ++ runes_of_ascii """
// " ++ [27880; 37322]%N ++ runes_of_ascii "
// packet A { u8 x, }
: Header , 1 : zchar,
    [ ""\n""	]
:	string_
""\n"" :i8i8 0123456789 : Logon
    [ 00 , 007 ,""1"" ,
    //	t
    ""it's""
    , ""// no comment""
    ,
    0
, ""a\\"" ,// packet A { u8 x, }
007 ]
    :BodyLength}
, match rootA as // c
chars  {
7
:
    // @lengthOf(
    Header }
, A Foo `tab	here` ,
}
")).
Eval vm_compute in ("<<<M369>>>" ++ check (runes_of_ascii "root
packet leftPad { @calculatedFrom( """ ++ [128512]%N ++ runes_of_ascii """) int64 len
`{ , }` , } packet
    u128
    { zchar[ 65535 ] chars @calculatedFrom( ""\" ++ [233]%N ++ runes_of_ascii """
    ), @lengthOf(  int
// packet A { u8 x, }
// @lengthOf(
) i64_ , crc { match	Z9_ as Logon
    {
10 : int ,
[ 0 ]
: u8x ,
// trailing space 
//x
42 :
    trueish , [ ""\" ++ [233]%N ++ runes_of_ascii """ , 4294967296
    ]
:Z9_
    ""\n""	: u128 ,	} ,
    repeat string_ uint8x, i8i8 , match u as body
{ 4294967296:
// " ++ [27880; 37322]%N ++ runes_of_ascii "
/// triple
Z9_, 10
:	Z9_,
[ """ ++ [128512]%N ++ runes_of_ascii """
    ,
    ""x y"" ]
: pack ,
    } , }
, @tag( // " ++ [128512]%N ++ runes_of_ascii " emoji
0123456789 )
    @lengthOf( calculatedFrom) @leftPad ( '\x00' // c
) zchar[ 3 ]
    T ,
match A  as
    leftPad{ [ """ ++ [28040; 24687]%N ++ runes_of_ascii """ ] :i64_""// no comment"" :
    string_
    ,
} , } // trailing space ")).
Eval vm_compute in ("<<<M87>>>" ++ check (runes_of_ascii "root packet matchKey{ match	Foo as Z9_ {// c
[ ""x y"" , ""1"" ,
    007
, 7 ]: pack,
""`tick`"" :
u128 ,""a	b"" :msg_type,[
//
//
00 ,	65535
] : a1, ""it's"" :Foo
    , // " ++ [128512]%N ++ runes_of_ascii " emoji
[ //x
""""
] : u, } ,
} packet calculatedFrom // c
{msg_type {
    T @calculatedFrom( ""\n"" ) ,float64 i8i8, As`
`, u32 rootA @lengthOf(
// c
// `tick` ""quote"" 'q'
float
) ,}
, }
    packet
    // " ++ [27880; 37322]%N ++ runes_of_ascii "
    x_y_z
{@tag( //x
0 ) i64_
    // " ++ [27880; 37322]%N ++ runes_of_ascii "
    @lengthOf(
    //
    MetaDataX
) ,	}packet A { @calculatedFrom( ""a\\"" )@calculatedFrom(""abc"" ) _x
u	`say ""hi""` ,
    } options
    // `tick` ""quote"" 'q'
    { // trailing space 
metadata = ""a\\"" ; // a // b
}")).
Eval vm_compute in ("<<<M113>>>" ++ check (runes_of_ascii "options	{
As
= // packet A { u8 x, }
' '}MetaData o{} root packet pack
{ } packet tag // " ++ [128512]%N ++ runes_of_ascii " emoji
{ match falsey as
BodyLength	{ 4294967296
:
    lengthOf
// c
// " ++ [27880; 37322]%N ++ runes_of_ascii "
,[ ""x y""
,""a\\""
    ]
    : rootA , [
42 , ""a	b"" ,
    ""CRC32"" , 65535 ,""abc"" , 007 ]
:
u8x	""x y"" : A ,
    /// triple
    65535 :  i64_,
    0123456789 :
    Packet }
    , @lengthOf(  msg_type)	pack msg_type,
    @tag( 0 )@lengthOf( Packet
)/// triple
@tag(
3 )
//	t
// " ++ [128512]%N ++ runes_of_ascii " emoji
Foo , repeat float64 zchar, @calculatedFrom(
""a\""b""
) @lengthOf(A )@lengthOf( roots
) options1 @lengthOf(
Z9_ ),char[] T ,  }")).
Eval vm_compute in ("<<<M1745>>>" ++ check (runes_of_ascii "
MetaData  BodyLength	{

zchar[65535	]  As
`crlf
line` ,  u16 
charz

    , 
body
len
,zchar
	msg_type,
    uint64 metadata ,
    }root

packet	//
	matchKey
{
	repeat

    i8i8  `{ , }`	,
}

    MetaData 
a1
	{i8i8 
Pad `it's` ,  
  // trailing space 
    // `tick` ""quote"" 'q'

int64

// " ++ [128512]%N ++ runes_of_ascii " emoji
roots
    `doc`,

    Foo BodyLength `u8 x,` , }packet
    _x
	{ lengthOf
	{  pack `" ++ [28040; 24687; 31867; 22411]%N ++ runes_of_ascii "`
    , string_ 	 // @lengthOf(
    	,
    repeat //
	rootA
    len

    ,zchar[

1 
] u8x	,
	}	,
	} ")).
Eval vm_compute in ("<<<M253>>>" ++ check (runes_of_ascii "packet
u	{ @lengthOf( //
zchar )match Header as len  {
    42// trailing space 
:
    x_y_z ,
    // " ++ [27880; 37322]%N ++ runes_of_ascii "
    },rootA	`
`	,	match u8x as pack {[ 1 , """" ]
    : float , ""abc""  :
string_ ,42 :
    i64_/// triple
,
1:zchar
// trailing space 
// " ++ [128512]%N ++ runes_of_ascii " emoji
} ,char[ 3 ] int ,
match options1 as u128 { [ ""`tick`"" ] : u
// packet A { u8 x, }
/// triple
, } ,	}
options {	len	= //	t
i8 // " ++ [27880; 37322]%N ++ runes_of_ascii "
; zchar = true; } packet T{char[ 42 ] asx@calculatedFrom(""CRC32"" ) , }
")).
Eval vm_compute in ("<<<M0>>>" ++ check (runes_of_ascii "packet leftPad// trailing space 
{@tag( 10 )
    @tag( 007 ) @lengthOf(	a1 )
// a // b
//
repeat metadata
    ,
} // " ++ [128512]%N ++ runes_of_ascii " emoji
options
    // @lengthOf(
    { lengthOf
= """ ++ [128512]%N ++ runes_of_ascii """	;
}  packet T
    // " ++ [27880; 37322]%N ++ runes_of_ascii "
    { A
{
//
// `tick` ""quote"" 'q'
tag@calculatedFrom(""abc"")
, }
    , @lengthOf( matchKey
    ) string	Header @lengthOf( metadata
) ,leftPad
    // trailing space 
    @calculatedFrom(
""a\""b"" )`crlf
line`,}
")).
Eval vm_compute in ("<<<M1800>>>" ++ check (runes_of_ascii "// top
root packet _x {
    match Foo as Z9_ {
        // c8
        ""a	b"" : Pad,
        // c12
    },// c14
    repeat x `line1
    line2`,// c18
    @rightPad(' ')
    // c22
    @calculatedFrom(""a\\"")
    // c25a
    // c25b
    metadata MetaDataX,
    @tag(0)
    // c31
    Logon int ``,
    // c35
}// c36

options {
    // c38
    T = '\x00'
}// c42a
// c42b")).
Eval vm_compute in ("<<<M285>>>" ++ check (runes_of_ascii "packet zchar { @calculatedFrom(
    ""packet"" )
    @lengthOf( body ) @lengthOf(A )
    repeat /// triple
u128
    { f32a
chars `` , repeat x_y_z `tab	here`	, // c
} , // " ++ [27880; 37322]%N ++ runes_of_ascii "
repeat
Logon {// " ++ [27880; 37322]%N ++ runes_of_ascii "
u@calculatedFrom( // `tick` ""quote"" 'q'
""// no comment"") //
`two words` , char
    u8x , uint32  uint8x  , } , int8
    asx ``,}
")).
Eval vm_compute in ("<<<M1359>>>" ++ check (runes_of_ascii "options
    {
	LittleEndian 
=
false ; StringPrefixLenType

    =
u16

; }  packet
    Heartbeat
	{ @rightPad(

    '0')
	char[
7 ]
seqNo	,
	uint64 Tail
,

    i16
Flags 
,
u16
msgKind,  } root

packet
    Reject
{ 
zchar[
	3
]tag7

,
    repeat Heartbeat ,	repeat 
string
	clOrdID,	}

")).
Eval vm_compute in ("<<<M177>>>" ++ check (runes_of_ascii "root
packet Logon {
    @rightPad
(// @lengthOf(
'0' ) repeat
    charz // " ++ [27880; 37322]%N ++ runes_of_ascii "
{// " ++ [128512]%N ++ runes_of_ascii " emoji
Z9_ `{ , }` , string string_ `say ""hi""` , repeat int8  rootA ,	match Foo	as
pack {
[ 42
// c
/// triple
, 0 ] :u, ""a\""b"" : int
,
}
// c
// `tick` ""quote"" 'q'
,
} , }")).
Eval vm_compute in ("<<<M1247>>>" ++ check (runes_of_ascii "options { LittleEndian // c2a
  // c2b
= // c3
true
    // c4
; } root
    // c7
packet P // c9a
  // c9b
{ repeat char // c12a
  // c12b
cs // c13a
  // c13b
, // c14a
  // c14b
u8
    // c15
x
    // c16
, // c17
}
    // c18
")).
Eval vm_compute in ("<<<M10>>>" ++ check (runes_of_ascii "MetaData //	t
x{
    } packet rootA
//x
//	t
{ i64	As
//x
// @lengthOf(
@lengthOf(
    A )
`// not a comment` ,
}
    options { asx =	string ; i8i8 =zchar[
0123456789 ];	Foo =10 ; As =true
; }
")).
Eval vm_compute in ("<<<M1419>>>" ++ check (runes_of_ascii "packet A {
    match k as n {
        [
            ""a"", ""bb"", 007, ""d"", ""e"",
            66, ""g"", ""h"", 9, ""j"",
            ""k"", 12
        ] : B,
        2 : C,
    },
}")).
Eval vm_compute in ("<<<M355>>>" ++ check (runes_of_ascii "options  { As = true
    MetaDataX =true	}	packet A { repeat calculatedFrom `say ""hi""`
    ,} MetaData crc { u crc ,
    uint32 body , i16 stringy
`u8 x,`
, }
")).
Eval vm_compute in ("<<<M478>>>" ++ check (runes_of_ascii "packet uint8x
{ match pack
    as msg_type	{
    0123456789 :	float
}
,
} packet //	t
a1
    { char[ options {packetx
    = '\x00'	; u128= ""a	b""  ; }
")).
Eval vm_compute in ("<<<M516>>>" ++ check (runes_of_ascii "packet uint8x
{ match pack
    as msg_type	{
    0123456789 :	float
}
,
} packet //	t
a1
    { } options {packetx
    = '\x00'	; u128= = ""a	b""  ; }
")).
Eval vm_compute in ("<<<M427>>>" ++ check (runes_of_ascii "packet uint8x
{ match pack
    as msg_type	0123456789
    { :	float
}
,
} packet //	t
a1
    { } options {packetx
    = '\x00'	; u128= ""a	b""  ; }
")).
Eval vm_compute in ("<<<M435>>>" ++ check (runes_of_ascii "packet uint8x
{ match pack
    as msg_type	{
    0123456789 	float
}
,
} packet //	t
a1
    { } options {packetx
    = '\x00'	; u128= ""a	b""  ; }
")).
Eval vm_compute in ("<<<M410>>>" ++ check (runes_of_ascii "packet uint8x
{ match 
    as msg_type	{
    0123456789 :	float
}
,
} packet //	t
a1
    { } options {packetx
    = '\x00'	; u128= ""a	b""  ; }
")).
Eval vm_compute in ("<<<M677>>>" ++ check (runes_of_ascii "// @lengthOf(
packet i8i8 { u128 o , }
options { MetaDataX = true;
    BodyLength =""packet"" x_y_z 007 =
crc //x
= ""abc"" ;
    msg_type =
i16 }")).
Eval vm_compute in ("<<<M704>>>" ++ check (runes_of_ascii "// @lengthOf(
packet i8i8 { u128 o , }
options { MetaDataX = true;
    BodyLength =""packet"" x_y_z 007
crc //x
= ""abc"" ;
    msg_type =
i16 }")).
Eval vm_compute in ("<<<M716>>>" ++ check (runes_of_ascii "// @lengthOf(
packet i8i8 { u128 o , }
 { MetaDataX = true;
    BodyLength =""packet"" x_y_z= 007
crc //x
= ""abc"" ;
    msg_type =
i16 }")).
Eval vm_compute in ("<<<M1739>>>" ++ check (runes_of_ascii "MetaData leftPad {
    // c
    chars MetaDataX,
}

packet repeatCount {
    char[255] uint8x `" ++ [233]%N ++ runes_of_ascii "`,
}

MetaData pack {
    As Foo,
}")).
Eval vm_compute in ("<<<M1264>>>" ++ check (runes_of_ascii "packet B {
    u8 a,
}
root packet P {
    u8 K,
    match K as Body {
        1 : B,
    },
    u16 L @lengthOf(Body),
}
")).
Eval vm_compute in ("<<<M1157>>>" ++ check (runes_of_ascii "MetaData leftPad { chars MetaDataX , } packet // c
repeatCount { char[ 255 ] uint8x `" ++ [233]%N ++ runes_of_ascii "` , } MetaData pack { As Foo , }")).
Eval vm_compute in ("<<<M1610>>>" ++ check (runes_of_ascii "
packet
B
	{ 
u8 a
    ,
    string

s	,
}
    root
packet

    P
{
u16
L  @lengthOf(B 
)  ,	B,

u8

    t ,
}
")).
Eval vm_compute in ("<<<M914>>>" ++ check (runes_of_ascii "packet A {
  match k as n {
    [""a"", ""bb"", 007, ""d"", ""e"", 66, ""g"", ""h"", 9, ""j"", ""k"", 12] : B,
    2 : C
  },
}")).
Eval vm_compute in ("<<<M24>>>" ++ check (runes_of_ascii "options { metadata
= '\x00' ;
    u128
=
    ""CRC32"" ; charz = ' 'options1 = 00 ; }
packet string_ { }
")).
Eval vm_compute in ("<<<M160>>>" ++ check (runes_of_ascii "
MetaData zchar { roots
A , char[] falsey `line1
line2` ,
// " ++ [128512]%N ++ runes_of_ascii " emoji
// @lengthOf(
int crc ,	} //	t")).
Eval vm_compute in ("<<<M590>>>" ++ check (runes_of_ascii "
packet
    asx {match u128 as lengthOf
MetaData
//	t
// `tick` ""quote"" 'q'
255 : x ,
    } ,	}")).
Eval vm_compute in ("<<<M578>>>" ++ check (runes_of_ascii "
packet
    asx {match u128 as as lengthOf
{
//	t
// `tick` ""quote"" 'q'
255 : x ,
    } ,	}")).
Eval vm_compute in ("<<<M633>>>" ++ check (runes_of_ascii "
packet
    asx {match u128 as `lengthOf
{
//	t
// `tick` ""quote"" 'q'
255 : x ,
    } ,	}")).
Eval vm_compute in ("<<<M562>>>" ++ check (runes_of_ascii "
packet
    asx match u128 as lengthOf
{
//	t
// `tick` ""quote"" 'q'
255 : x ,
    } ,	}")).
Eval vm_compute in ("<<<M570>>>" ++ check (runes_of_ascii "
packet
    asx {{ u128 as lengthOf
{
//	t
// `tick` ""quote"" 'q'
255 : x ,
    } ,	}")).
Eval vm_compute in ("<<<M847>>>" ++ check (runes_of_ascii "packet A {
  match k as n {
    [1, 22, ""c c"", 4, 5, ""f"", 7] : B,
    2 : C
  },
}")).
Eval vm_compute in ("<<<M1905>>>" ++ check (runes_of_ascii "packet A {
    // a
    @tag(1)
    u8 x,// b
    // c
    @tag(2)
    u8 y,
}")).
Eval vm_compute in ("<<<M1958>>>" ++ check (runes_of_ascii "options {
    lengthOf = 3
    trueish = true;
    calculatedFrom = 007;
}")).
Eval vm_compute in ("<<<M798>>>" ++ check (runes_of_ascii "packet A {
  match k as n {
    [""a"", ""bb"", 007] : B
    2 : C
  },
}")).
Eval vm_compute in ("<<<M788>>>" ++ check (runes_of_ascii "packet A {
  match k as n {
    [1, 22, 007] : B
    2 : C
  },
}")).
Eval vm_compute in ("<<<M948>>>" ++ check (runes_of_ascii "packet A {
    B b `x
`,
    B `x
`,
    repeat B bs `x
`,
}")).
Eval vm_compute in ("<<<M767>>>" ++ check (runes_of_ascii "@rightPad char[] string u16 @tag( @lengthOf( as packet ,")).
Eval vm_compute in ("<<<M1204>>>" ++ check (runes_of_ascii "packet body {
// c
i32 f32a `{ , }` , } options { }")).
Eval vm_compute in ("<<<M1073>>>" ++ check (runes_of_ascii "packet A {} packet B {} MetaData M {} options {}")).
Eval vm_compute in ("<<<M47>>>" ++ check (runes_of_ascii "MetaData	lengthOf
{
Header o `doc`
    ,}
")).
Eval vm_compute in ("<<<M325>>>" ++ check (runes_of_ascii "packet charz { } // packet A { u8 x, }")).
Eval vm_compute in ("<<<M1741>>>" ++ check (runes_of_ascii "MetaData M{

} // c
  options {}

")).
Eval vm_compute in ("<<<M1857>>>" ++ check (runes_of_ascii "

  MetaData
u
{} 
      // c
")).
Eval vm_compute in ("<<<M83>>>" ++ check (runes_of_ascii "
options{ options1 =	7 ;
}
")).
Eval vm_compute in ("<<<M1820>>>" ++ check (runes_of_ascii "packet A {
}// a// b// c")).
Eval vm_compute in ("<<<M1391>>>" ++ check (runes_of_ascii "packet x {
    // c
}")).
Eval vm_compute in ("<<<M1134>>>" ++ check (runes_of_ascii "MetaData u { // c
}")).
Eval vm_compute in ("<<<M1031>>>" ++ check (runes_of_ascii "packet A {
}
// c" ++ [11]%N)).
Eval vm_compute in ("<<<M1024>>>" ++ check (runes_of_ascii "packet A {
}// c" ++ [8287]%N)).
Eval vm_compute in ("<<<M1746>>>" ++ check (runes_of_ascii "
/// triple
 
")).
Eval vm_compute in ("<<<M252>>>" ++ check (runes_of_ascii " // c")).
Eval vm_compute in ("<<<M728>>>" ++ check (runes_of_ascii "		")).
