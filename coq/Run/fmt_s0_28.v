From FP Require Import Lexer Parser ShowPT Digest Formatter.
From Coq Require Import String List NArith.
Import ListNotations.
Open Scope string_scope.
Set Printing Width 100000000.
Set Printing Depth 100000000.
Definition show_fres (r : fres) : string :=
  match r with
  | FOk s => "OK:" ++ sh_escaped s ""
  | FErr s => "ERR:" ++ sh_escaped s ""
  | FPanic p => "PANIC:" ++ p
  end.
Definition check (rs : list rune) : string := digest (show_fres (format_res rs)).
Definition full (rs : list rune) : string := show_fres (format_res rs).
Eval vm_compute in ("<<<M1407>>>" ++ check (runes_of_ascii "
packet  o	// @lengthOf(

{
@leftPad
(

)

@tag(
00 
)
    int16	int

    @lengthOf( Header)

`
`
	,@leftPad 
( '\x00'
)
char[

00	// c

] body

    @lengthOf(  // packet A { u8 x, }
  a1 ) `" ++ [28040; 24687; 31867; 22411]%N ++ runes_of_ascii "`
    ,	}packet roots

    { Logon  `crlf
line` ,

    } 
packet 	 // `tick` ""quote"" 'q'
  _x
    // `tick` ""quote"" 'q'
  //
{
zchar[  4294967296
    ]Header `
`
	,
	chars @calculatedFrom(  ""1"" )	// packet A { u8 x, }
  ,
match
As
    // 50% %s
//
		as 
// @lengthOf(
  //x
  	A
{
""`tick`"" // " ++ [27880; 37322]%N ++ runes_of_ascii "

: 
u  }

    , repeat
    string
zchar, 
repeat  packetx
{
	match
    pack
	//x
    as

lengthOf  {

3  :
calculatedFrom ,	3  
  // packet A { u8 x, }
	: metadata	,	""abc""  // " ++ [128512]%N ++ runes_of_ascii " emoji
      :

    falsey,4294967296
    : len 
,
} ,	match

    Packet 
as
    repeatCount 
{ [
""a\\""
	,1, ""a\\""
,

0
,""packet""
	,
    ""a	b""
]
:f32a

, 
4294967296 : tag 
1:
	packetx 
, 
[""\n""
,42 
,
4294967296	,	""a	b"",
10
,

255
,
007
] :
    chars

    ,
    [

""1"" ,

    ""// no comment""	, 
0

,// 50% %s
	1 ,	""`tick`""	,3 
, 
42 
,

    ""\" ++ [233]%N ++ runes_of_ascii """
]
:BodyLength
}
	,// trailing space 
	  } ,	string u8x`" ++ [28040; 24687; 31867; 22411]%N ++ runes_of_ascii "`	,  repeat

    f32a
{

    char[

7  ]  // " ++ [128512]%N ++ runes_of_ascii " emoji
	x_y_z
	`
` // trailing space 
,

},

}

MetaData

    Packet
	{
chars
u 
,  char[]
u8x, 

// 50% %s
  	// trailing space 
      x_y_z 
	/// triple
	asx	`" ++ [28040; 24687; 31867; 22411]%N ++ runes_of_ascii "`

, 
int8
	Header  `{ , }`	,
	zchar[
    4294967296

    ]	rootA `u8 x,`  
  /// triple
    //
    ,
char[]

    calculatedFrom
, 
}
")).
Eval vm_compute in ("<<<M1341>>>" ++ check (runes_of_ascii "// top
packet
    // c0
Frame // c1a
  // c1b
{
    // c2
u8 // c3
HK // c4
, // c5
u8 // c6
BK , // c8a
  // c8b
u8
    // c9
TK // c10
, match // c12
HK
    // c13
as Hdr
    // c15
{ // c16a
  // c16b
1 // c17
: // c18a
  // c18b
HdrA // c19a
  // c19b
, 2 // c21a
  // c21b
:
    // c22
HdrB , // c24
}
    // c25
, // c26a
  // c26b
match // c27a
  // c27b
BK
    // c28
as
    // c29
Body { 1 // c32a
  // c32b
: // c33a
  // c33b
BodyA // c34a
  // c34b
, // c35a
  // c35b
2
    // c36
:
    // c37
BodyB , // c39a
  // c39b
} ,
    // c41
match
    // c42
TK // c43
as Trl // c45a
  // c45b
{ 1 // c47
: // c48
TrlA // c49
, // c50
} ,
    // c52
}
    // c53
packet HdrA // c55
{ // c56
u8 // c57
a // c58a
  // c58b
, // c59
} // c60a
  // c60b
packet HdrB // c62
{
    // c63
u16 b
    // c65
, } packet
    // c68
BodyA // c69
{ // c70
u32
    // c71
c
    // c72
, // c73
}
    // c74
packet // c75
BodyB // c76
{ u64 d , // c80a
  // c80b
}
    // c81
packet // c82
TrlA
    // c83
{ // c84a
  // c84b
u8 // c85
e
    // c86
, // c87a
  // c87b
} root
    // c89
packet
    // c90
Msg // c91
{ // c92
Frame // c93a
  // c93b
, // c94a
  // c94b
u8 // c95a
  // c95b
x
    // c96
, // c97
}
    // c98
")).
Eval vm_compute in ("<<<M1514>>>" ++ check (runes_of_ascii "root packet o {
    repeat zchar[65535] o,
    repeat char[0] zchar,
    int64 x `
    `,// a // b
    string msg_type,
    // c
    @leftPad('\x00')
    repeat calculatedFrom A,
    string Header @lengthOf(a1) `crlf
    line`,
    repeat crc {
        f32 Pad,
        match charz as Logon {
            [
                ""1"", ""CRC32"", """ ++ [28040; 24687]%N ++ runes_of_ascii """, 00, ""1"",
                ""{,}"", """ ++ [28040; 24687]%N ++ runes_of_ascii """, ""{,}""
            ] : uint8x,
            [3, ""CRC32""] : lengthOf,
            42 : u128,
        },
        Z9_,
        float64 u128 `{ , }`,
    },
    u16 calculatedFrom,
    zchar[3] calculatedFrom,
    @tag(10)
    match charz as _x {
        ""abc"" : zchar,
        ""packet"" : roots,
        255 : options1,
        ""1"" : uint8x,
        // 50% %s
    },
}

MetaData len {
    uint8x len,
}

packet options1 {
    @tag(10)
    i8 roots @lengthOf(lengthOf),
    char[1] u128 `" ++ [28040; 24687; 31867; 22411]%N ++ runes_of_ascii "`,
    a1 tag `say ""hi""`,
    string asx `// not a comment`,
}

packet calculatedFrom {
    int64 a1,
    // a // b
    //x
}")).
Eval vm_compute in ("<<<M1891>>>" ++ check (runes_of_ascii "/// triple

  packet  falsey{ }packet
	Logon

    {
@tag(// @lengthOf(

	1	) // c
	body

a1
    ,
	repeat

    BodyLength ,repeat 
Foo
{ 
match	rootA	as x	{[ 
3 
] 
: 
//
	  i8i8 },
    match
    charz 
as  // a // b
  charz

    {  007
	: 
Packet ,	[ ""// no comment""
	] 	 // trailing space 

:	/// triple

  A,
[

    10]:  float
	,

    [	""`tick`"" ,  10]:
    int

    ,

    } 
, }

    ,  // " ++ [27880; 37322]%N ++ runes_of_ascii "

	repeat

    u8x
,asx

    { int32
    Packet
	@calculatedFrom( 

// 50% %s
// a // b
  ""// no comment"")
, }
	,
    @lengthOf(
leftPad )	int8
	float 
	    //

  // @lengthOf(
  	@calculatedFrom(  ""CRC32"" )

    ,
    lengthOf 	 // packet A { u8 x, }
  {
char[ 65535] string_@calculatedFrom(
"""" ) 	 // a // b
    ,
}
	, len@calculatedFrom(""" ++ [233]%N ++ runes_of_ascii "t" ++ [233]%N ++ runes_of_ascii """ )
,  @lengthOf(

    As
) 
char[
	1	]
    BodyLength// " ++ [27880; 37322]%N ++ runes_of_ascii "
  , }	// a // b
")).
Eval vm_compute in ("<<<M194>>>" ++ check (runes_of_ascii "
root
    packet u8x{
@calculatedFrom(	""it's""  )
    zchar[
    007 ]  Logon, @rightPad( ' ' ) @calculatedFrom(""\n"" ) @lengthOf( Header) repeat
zchar[0 ] options1	,
// " ++ [27880; 37322]%N ++ runes_of_ascii "
// `tick` ""quote"" 'q'
@lengthOf(i8i8
    ) @lengthOf(
repeatCount
) zchar[
65535  ] packetx
`doc`	,
    uint32 Foo	@calculatedFrom(
""1"" ) , matchKey ,  int16  Header	,  } options {
    x= 7 } MetaData
// " ++ [27880; 37322]%N ++ runes_of_ascii "
// `tick` ""quote"" 'q'
string_
    { trueish trueish  `it's`
, char[4294967296 ]
    x //x
,
    // a // b
    string u
    `100% of %d`, f32
stringy
    `// not a comment` ,
    // `tick` ""quote"" 'q'
    string
    BodyLength	,// a // b
}  options
    { // @lengthOf(
Logon = 10 roots = uint8 ;
float=
    ""a\\""  ; Header	=""CRC32"" ;
    }")).
Eval vm_compute in ("<<<M270>>>" ++ check (runes_of_ascii "packet crc
    {// a // b
@tag( 4294967296
) @leftPad ('\x00'  ) repeat zchar[
4294967296 // " ++ [128512]%N ++ runes_of_ascii " emoji
]Packet
, @leftPad ( '0')@tag( 3 ) @tag(
    7  )  repeat  matchKey { u32
u
,} , @lengthOf(chars ) /// triple
@calculatedFrom( ""a	b""
// 50% %s
// @lengthOf(
)
@tag( 0123456789 )zchar[255] Pad
,
repeat uint64 u128
// a // b
// trailing space 
`two words` , @calculatedFrom( ""abc"" ) i8 packetx , string	lengthOf
, // " ++ [27880; 37322]%N ++ runes_of_ascii "
} root packet stringy
{@leftPad (
    '0' ) matchKey //x
roots ,
// @lengthOf(
// trailing space 
@tag( 7) int8// c
A
@lengthOf(repeatCount )
    `{ , }` ,
    repeat u {// " ++ [27880; 37322]%N ++ runes_of_ascii "
int16 Foo `it's` , string u, }, } // @lengthOf(")).
Eval vm_compute in ("<<<M1857>>>" ++ check (runes_of_ascii "

  MetaData
pack

{ float32	Header  `two words`	//
    ,
	rootA
charz 
`" ++ [233]%N ++ runes_of_ascii "`,	//
  int32

falsey	`doc` 
,
	} 
packet

matchKey { i64_ {

float64 tag

    @lengthOf(	msg_type)
    ,
u8x

f32a
	,

    Pad{
	char[10] 
// trailing space 
    // @lengthOf(
  f32a

`// not a comment`
	,
}
    ,

int
	{

    repeat  packetx{
    char[]	T
	@calculatedFrom(""it's""
	),
}
	, }
,	}
,

    char[ 255]trueish
@lengthOf(calculatedFrom 	 // " ++ [128512]%N ++ runes_of_ascii " emoji
	) //	t

  ,repeat	rootA string_,} packet x_y_z {@lengthOf( i64_

)
BodyLength  `" ++ [233]%N ++ runes_of_ascii "` 
	    // @lengthOf(
  	//	t
, } ")).
Eval vm_compute in ("<<<M1447>>>" ++ check (runes_of_ascii "

  root

    packet
MetaDataX {u16	Logon

@lengthOf(body)  ,	match

    lengthOf as  As

    { 
    // " ++ [128512]%N ++ runes_of_ascii " emoji
	7

:
    As
    42
    : 
rootA ,
    0123456789
	:
repeatCount ,	""abc""
:
	Packet
, ""1"" 
:	trueish 
""a	b""	: 
    //x
// " ++ [128512]%N ++ runes_of_ascii " emoji
		leftPad
    ,

    }

,match	x as A // 50% %s
	  {""`tick`""

: trueish	, } , uint32	u8x  `tab	here`
, tag @calculatedFrom(
	""" ++ [28040; 24687]%N ++ runes_of_ascii """
) , repeat  body  //	t
	repeatCount
    ,	@calculatedFrom( ""x y"" )
asx

@calculatedFrom(// `tick` ""quote"" 'q'

	""a\""b""
	), } ")).
Eval vm_compute in ("<<<M315>>>" ++ check (runes_of_ascii "root packet float  {  repeat
calculatedFrom
metadata`say ""hi""` , Pad
{ // " ++ [27880; 37322]%N ++ runes_of_ascii "
repeat string o `" ++ [233]%N ++ runes_of_ascii "`
    ,
match string_ //	t
as	u8x{// trailing space 
[ ""abc""] :
pack ,  [
    ""a	b"" ]
: // `tick` ""quote"" 'q'
len 00
: x  [ ""packet""  ] : uint8x
    , [
    ""abc"" , """"
    //	t
    ,""{,}"", 0123456789,
""`tick`"", """ ++ [28040; 24687]%N ++ runes_of_ascii """
    ]://
Foo ,	}, f64
a1
    // c
    `doc`
, }
, char[]	Pad `{ , }`  , } root packet a1 { repeat i64_ stringy	, // 50% %s
}
MetaData Packet {int32 tag , }")).
Eval vm_compute in ("<<<M1956>>>" ++ check (runes_of_ascii "options {
    ArrayPrefixLenType = u64;
    FixedStringPadFromLeft = true;
    FixedStringPadChar = '0';
}

packet Order {
}

root packet Leg {
    char[] Ref,
    repeat Order,
    f32 Acct,
    @leftPad('0')
    char[10] venue,
    @rightPad('0')
    char[3] seqNo,
    repeat u64 Px,
    u8 Flags,
    u32 lastPx @lengthOf(Body),
    match Flags as Body {
        185 : Order,
    },
    u16 sym @calculatedFrom(""CR\
        C32""),
}")).
Eval vm_compute in ("<<<M1867>>>" ++ check (runes_of_ascii "packet NewOrder {
    u32 qty,
}

packet Cancel {
    u64 id,
}

packet Business {
    u8 Kind,
    match Kind as Detail {
        1 : NewOrder,
        2 : Cancel,
    },
}

packet TcpFrame {
    u8 T,
    match T as Body {
        1 : Business,
    },
}

packet UdpFrame {
    u8 U,
    match U as Body {
        1 : Business,
    },
    Business extra,
}

root packet Wire {
    TcpFrame,
    UdpFrame,
}")).
Eval vm_compute in ("<<<M1199>>>" ++ check (runes_of_ascii "// top
options
    // c0
{
    // c1
}
    // c2
options
    // c3
{
    // c4
MetaDataX
    // c5
=
    // c6
char
    // c7
;
    // c8
}
    // c9
MetaData
    // c10
Pad
    // c11
{
    // c12
i8
    // c13
metadata
    // c14
,
    // c15
string
    // c16
stringy
    // c17
,
    // c18
int8
    // c19
As
    // c20
`{ , }`
    // c21
,
    // c22
}
    // c23
")).
Eval vm_compute in ("<<<M1587>>>" ++ check (runes_of_ascii "MetaData o {
    MetaDataX As `crlf
        line`,
    string_ T,
    zchar[1] Header,//	t
}

packet packetx {
    // " ++ [128512]%N ++ runes_of_ascii " emoji
    repeat char[10] crc `a\`,
    @tag(42)
    repeat char[] asx `// not a comment`,
    zchar[007] len @lengthOf(u) `a\`,
    @leftPad('\x00')
    @tag(3)
    @calculatedFrom(""a\""b"")
    char[10] As `
        `,
}")).
Eval vm_compute in ("<<<M130>>>" ++ check (runes_of_ascii "root packet
    Z9_ { repeat /// triple
MetaDataX { stringy ,
    u32 pack , // @lengthOf(
}
    , } options
{
repeatCount =""it's"" metadata
=
""abc""
A = // `tick` ""quote"" 'q'
""CRC32"" ; x_y_z = // a // b
char[ 007	] ;
    } MetaData i8i8 {uint32  charz // a // b
`doc`
, //	t
}root packet trueish { }")).
Eval vm_compute in ("<<<M24>>>" ++ check (runes_of_ascii "packet float
// trailing space 
// c
{ @leftPad (' ')repeat char[] MetaDataX , @leftPad (
)
    i16 x_y_z @calculatedFrom( ""CRC32""
)
, }packet chars {
    } packet asx
{
@tag( 255)
@tag( 4294967296 ) @calculatedFrom(
""{,}""
    // c
    )
matchKey /// triple
o `
` ,}
")).
Eval vm_compute in ("<<<M536>>>" ++ check (runes_of_ascii "packet
    asx { @calculatedFrom(
""""  ) @tag( 255 )repeat
// packet A { u8 x, }
// trailing space 
int16 u8x
,
@tag(
    //
    007 )
    @tag( @lengthOf0
    /// triple
    ) @tag( 1) u
    @lengthOf( T ),
// `tick` ""quote"" 'q'
//x
} // " ++ [128512]%N ++ runes_of_ascii " emoji")).
Eval vm_compute in ("<<<M397>>>" ++ check (runes_of_ascii "packet
    asx { { @calculatedFrom(
""""  ) @tag( 255 )repeat
// packet A { u8 x, }
// trailing space 
int16 u8x
,
@tag(
    //
    007 )
    @tag( 0
    /// triple
    ) @tag( 1) u
    @lengthOf( T ),
// `tick` ""quote"" 'q'
//x
} // " ++ [128512]%N ++ runes_of_ascii " emoji")).
Eval vm_compute in ("<<<M393>>>" ++ check (runes_of_ascii "packet
    { asx @calculatedFrom(
""""  ) @tag( 255 )repeat
// packet A { u8 x, }
// trailing space 
int16 u8x
,
@tag(
    //
    007 )
    @tag( 0
    /// triple
    ) @tag( 1) u
    @lengthOf( T ),
// `tick` ""quote"" 'q'
//x
} // " ++ [128512]%N ++ runes_of_ascii " emoji")).
Eval vm_compute in ("<<<M519>>>" ++ check (runes_of_ascii "packet
    asx { @calculatedFrom(
""""  ) @tag( 255 )repeat
// packet A { u8 x, }
// trailing space 
int16 u8x
,
@tag(
    //
    007 )
    @tag( 0
    /// triple
    ) @tag( 1) u
    @lengthOf( T );
// `tick` ""quote"" 'q'
//x
} // " ++ [128512]%N ++ runes_of_ascii " emoji")).
Eval vm_compute in ("<<<M481>>>" ++ check (runes_of_ascii "packet
    asx { @calculatedFrom(
""""  ) @tag( 255 )repeat
// packet A { u8 x, }
// trailing space 
int16 u8x
,
@tag(
    //
    007 )
    @tag( 0
    /// triple
    )  1) u
    @lengthOf( T ),
// `tick` ""quote"" 'q'
//x
} // " ++ [128512]%N ++ runes_of_ascii " emoji")).
Eval vm_compute in ("<<<M1533>>>" ++ check (runes_of_ascii "MetaData repeatCount {
    u8 x `// not a comment`,// @lengthOf(
    char[] packetx,
    u8 float,
    float32 As `two words`,
    Z9_ crc `" ++ [233]%N ++ runes_of_ascii "`,
}

MetaData int {
    matchKey int,
    leftPad metadata `100% of %d`,
}")).
Eval vm_compute in ("<<<M1299>>>" ++ check (runes_of_ascii "// top
root
    // c0
packet // c1a
  // c1b
P
    // c2
{
    // c3
repeat string
    // c5
ss // c6
, // c7
repeat
    // c8
u16 // c9
ns
    // c10
, // c11a
  // c11b
} // c12a
  // c12b
")).
Eval vm_compute in ("<<<M228>>>" ++ check (runes_of_ascii "root packet
    //	t
    Logon {zchar[42// packet A { u8 x, }
]
// c
// 50% %s
uint8x `it's` ,
    //x
    @lengthOf( Z9_	) Pad{repeat// `tick` ""quote"" 'q'
i64_ `" ++ [28040; 24687; 31867; 22411]%N ++ runes_of_ascii "` ,
},	}

")).
Eval vm_compute in ("<<<M574>>>" ++ check (runes_of_ascii "MetaData u
    { } MetaData zchar[
{ float uint8x
`100% of %d` ,repeatCount u8x, string_ leftPad
, i32
    Foo , int64 x `two words` , calculatedFrom
stringy `a\` ,
}
")).
Eval vm_compute in ("<<<M652>>>" ++ check (runes_of_ascii "MetaData u
    { } MetaData o
{ float uint8x
`100% of %d` ,repeatCount u8x, string_ leftPad
, i32
    Foo , int64 x x `two words` , calculatedFrom
stringy `a\` ,
}
")).
Eval vm_compute in ("<<<M578>>>" ++ check (runes_of_ascii "MetaData u
    { } MetaData o
float { uint8x
`100% of %d` ,repeatCount u8x, string_ leftPad
, i32
    Foo , int64 x `two words` , calculatedFrom
stringy `a\` ,
}
")).
Eval vm_compute in ("<<<M576>>>" ++ check (runes_of_ascii "MetaData u
    { } MetaData o
 float uint8x
`100% of %d` ,repeatCount u8x, string_ leftPad
, i32
    Foo , int64 x `two words` , calculatedFrom
stringy `a\` ,
}
")).
Eval vm_compute in ("<<<M581>>>" ++ check (runes_of_ascii "MetaData u
    { } MetaData o
{  uint8x
`100% of %d` ,repeatCount u8x, string_ leftPad
, i32
    Foo , int64 x `two words` , calculatedFrom
stringy `a\` ,
}
")).
Eval vm_compute in ("<<<M591>>>" ++ check (runes_of_ascii "MetaData u
    { } MetaData o
{ float uint8x
 ,repeatCount u8x, string_ leftPad
, i32
    Foo , int64 x `two words` , calculatedFrom
stringy `a\` ,
}
")).
Eval vm_compute in ("<<<M1412>>>" ++ check (runes_of_ascii "packet lengthOf {
    len charz `it's`,
}

options {
}

packet metadata {
    string Pad @calculatedFrom(""" ++ [128512]%N ++ runes_of_ascii """) `crlf
        line`,
}// " ++ [128512]%N ++ runes_of_ascii " emoji")).
Eval vm_compute in ("<<<M1672>>>" ++ check (runes_of_ascii "root packet matchKey {
    Z9_ @calculatedFrom(""""),
}

MetaData pack {
    u32 leftPad,
    x zchar,
    uint32 i8i8,
    u16 zchar,
}")).
Eval vm_compute in ("<<<M1539>>>" ++ check (runes_of_ascii "options {
} options{ 
MetaDataX  = char	;
} MetaData
Pad {  // c

i8
    metadata 
,
string stringy 
, int8  As

`{ , }`

,}")).
Eval vm_compute in ("<<<M278>>>" ++ check (runes_of_ascii "options { A =
""\n""
    ; // @lengthOf(
len = ' ' ;body =
4294967296
    ;	int=3 charz ='0' }
// packet A { u8 x, }
")).
Eval vm_compute in ("<<<M1217>>>" ++ check (runes_of_ascii "options { } options { MetaDataX = char // c
; } MetaData Pad { i8 metadata , string stringy , int8 As `{ , }` , }")).
Eval vm_compute in ("<<<M1588>>>" ++ check (runes_of_ascii "

  packet	order_item

    {u8	a

    ,
	}
root

    packet 
new_order 
{
	order_item ,
u8
x

    , 
}
")).
Eval vm_compute in ("<<<M906>>>" ++ check (runes_of_ascii "packet A {
  match k as n {
    [1, ""bb"", 007, ""d"", 5, ""f"", 7, ""h"", 9, ""j"", 11, ""l""] : B,
    2 : C
  },
}")).
Eval vm_compute in ("<<<M887>>>" ++ check (runes_of_ascii "packet A {
  match k as n {
    [""a"", ""bb"", 007, ""d"", ""e"", 66, ""g"", ""h"", 9, ""j""] : B
    2 : C
  },
}")).
Eval vm_compute in ("<<<M902>>>" ++ check (runes_of_ascii "packet A {
  match k as n {
    [1, 22, 007, 4, 5, 66, 7, 8, 9, 10, 11, 12] : B,
    2 : C
  },
}")).
Eval vm_compute in ("<<<M1464>>>" ++ check (runes_of_ascii "
root packet SimpleMessage{	uint16 MsgType
    `" ++ [28040; 24687; 31867; 22411]%N ++ runes_of_ascii "`  ,  string
	JsonBody

`Json" ++ [23383; 31526; 20018; 28040; 24687; 20307]%N ++ runes_of_ascii "` 
,}")).
Eval vm_compute in ("<<<M848>>>" ++ check (runes_of_ascii "packet A {
  match k as n {
    [""a"", ""bb"", 007, ""d"", ""e"", 66, ""g""] : B
    2 : C
  },
}")).
Eval vm_compute in ("<<<M841>>>" ++ check (runes_of_ascii "packet A {
  match k as n {
    [1, ""bb"", 007, ""d"", 5, ""f"", 7] : B,
    2 : C
  },
}")).
Eval vm_compute in ("<<<M1578>>>" ++ check (runes_of_ascii "packet A {
    B b `
        `,
    B `
        `,
    repeat B bs `
        `,
}")).
Eval vm_compute in ("<<<M1139>>>" ++ check (runes_of_ascii "// top
root
    // c0
packet
    // c1
a1
    // c2
{
    // c3
}
    // c4
")).
Eval vm_compute in ("<<<M811>>>" ++ check (runes_of_ascii "packet A {
  match k as n {
    [1, 22, 007, 4, 5] : B,
    2 : C
  },
}")).
Eval vm_compute in ("<<<M171>>>" ++ check (runes_of_ascii "MetaData
//
// " ++ [128512]%N ++ runes_of_ascii " emoji
falsey { char[] f32a
, //	t
} packet
As{
}
")).
Eval vm_compute in ("<<<M780>>>" ++ check (runes_of_ascii "packet A {
  match k as n {
    [1, ""bb""] : B,
    2 : C
  },
}")).
Eval vm_compute in ("<<<M1521>>>" ++ check (runes_of_ascii "options {
}

packet Foo {
    // 50% %s
    // @lengthOf(
}")).
Eval vm_compute in ("<<<M230>>>" ++ check (runes_of_ascii "MetaData // " ++ [27880; 37322]%N ++ runes_of_ascii "
Foo {
rootA f32a
    //
    , }
//	t
")).
Eval vm_compute in ("<<<M1470>>>" ++ check (runes_of_ascii "root 
packet
A

{	u8 x `100% of %s %d %v`	, }

")).
Eval vm_compute in ("<<<M973>>>" ++ check (runes_of_ascii "MetaData M {
    u8 x `%`,
    T t `%`,
}")).
Eval vm_compute in ("<<<M1182>>>" ++ check (runes_of_ascii "
// c
options { A = ""// no comment"" }")).
Eval vm_compute in ("<<<M365>>>" ++ check (runes_of_ascii "
MetaData x_y_z {// c
Pad roots , }")).
Eval vm_compute in ("<<<M1062>>>" ++ check (runes_of_ascii "packet A {
 u8 x `d 	`, // c 	
}")).
Eval vm_compute in ("<<<M1037>>>" ++ check (runes_of_ascii "packet A {
 u8 x `d" ++ [8233]%N ++ runes_of_ascii "`, // c" ++ [8233]%N ++ runes_of_ascii "
}")).
Eval vm_compute in ("<<<M1084>>>" ++ check (runes_of_ascii "packet A {
}// a// b// c
")).
Eval vm_compute in ("<<<M1144>>>" ++ check (runes_of_ascii "root
// c
packet a1 { }")).
Eval vm_compute in ("<<<M150>>>" ++ check (runes_of_ascii "options //	t
{
    }")).
Eval vm_compute in ("<<<M1046>>>" ++ check (runes_of_ascii "// c" ++ [8287]%N ++ runes_of_ascii "
packet A {
}")).
Eval vm_compute in ("<<<M1043>>>" ++ check (runes_of_ascii "packet A {
}// c" ++ [8287]%N)).
Eval vm_compute in ("<<<M746>>>" ++ check (runes_of_ascii "uint64 int16 {")).
Eval vm_compute in ("<<<M1019>>>" ++ check (runes_of_ascii "// c" ++ [8192]%N)).
