From FP Require Import Lexer Parser ShowPT Digest.
From Coq Require Import String List NArith.
Import ListNotations.
Open Scope string_scope.
Set Printing Width 100000000.
Set Printing Depth 100000000.
Definition nl : string := String (Ascii.ascii_of_nat 10) EmptyString.
Definition model_lex (rs : list rune) : string := show_toks (lex rs).
Definition model_parse (rs : list rune) : string :=
  show_pt (match lex rs with Some ts => parse ts | None => None end).
(* coqc is slow at printing long strings: digests first (Digest.v), full texts on demand *)
Definition check (rs : list rune) : string :=
  digest (model_lex rs) ++ " " ++ digest (model_parse rs).
Definition full (rs : list rune) : string := model_lex rs ++ nl ++ model_parse rs.
Definition terms (ts : list tok) (t : pt) : string :=
  digest (show_toks (Some ts)) ++ " " ++ digest (show_pt (Some t)) ++ " " ++ digest (show_pt (parse ts)).
Definition terms_full (ts : list tok) (t : pt) : string :=
  show_toks (Some ts) ++ nl ++ show_pt (Some t) ++ nl ++ show_pt (parse ts).
Eval vm_compute in ("<<<M17>>>" ++ check (runes_of_ascii "packet Z9_// packet A { u8 x, }
{ @tag(
4294967296 )uint8x@calculatedFrom( ""abc"" ), }

")).
Eval vm_compute in ("<<<M49>>>" ++ check (runes_of_ascii "options
{ options1= uint64 ;	}
root packet /// triple
T {MetaDataX//x
`// not a comment` , } packet crc {}
")).
Eval vm_compute in ("<<<M81>>>" ++ check (runes_of_ascii "root packet Foo {i16 BodyLength `// not a comment`
    // c
    ,
    //x
    }options { // packet A { u8 x, }
} options
    {Z9_ = // trailing space 
false msg_type //
=
true f32a = ' ' zchar  =""`tick`"";}
")).
Eval vm_compute in ("<<<M113>>>" ++ check (runes_of_ascii "


")).
Eval vm_compute in ("<<<M145>>>" ++ check (runes_of_ascii "MetaData
packetx {  zchar[7
]u128 , }
")).
Eval vm_compute in ("<<<M177>>>" ++ check (runes_of_ascii "// " ++ [128512]%N ++ runes_of_ascii " emoji
packet i64_ { match repeatCount
as u8x{ // packet A { u8 x, }
7 : crc , },repeat uint32 roots ,
} packet options1{ match  MetaDataX as
chars
{ ""CRC32""
    :tag , 00 : lengthOf// a // b
,	""" ++ [233]%N ++ runes_of_ascii "t" ++ [233]%N ++ runes_of_ascii """ : _x , } , uint16 trueish	,
char[ 10 ] calculatedFrom	,
@calculatedFrom( ""a\\""  ) @tag(
65535 ) @rightPad (	'\x00' ) repeat int32 len , }
")).
Eval vm_compute in ("<<<M209>>>" ++ check (runes_of_ascii "root packet body{
@tag(
4294967296
    )
As @calculatedFrom(""" ++ [128512]%N ++ runes_of_ascii """ )
    `a\` , /// triple
} root packet
    uint8x
{ MetaDataX{ repeat
matchKey lengthOf , repeat u32 uint8x
// packet A { u8 x, }
// a // b
`doc`
    /// triple
    ,
} ,  } options { int // a // b
=
    ""abc"" } packet
    // trailing space 
    u8x {
} root
packet // " ++ [128512]%N ++ runes_of_ascii " emoji
falsey {repeat float32	u , repeat	char[]
// " ++ [128512]%N ++ runes_of_ascii " emoji
// packet A { u8 x, }
msg_type
    `
` , @leftPad ( ' ')
    @tag(255
)match Header as msg_type
    { 3 :uint8x
    ,
    255 :
x , // trailing space 
7 // " ++ [27880; 37322]%N ++ runes_of_ascii "
: leftPad
// c
// `tick` ""quote"" 'q'
""" ++ [28040; 24687]%N ++ runes_of_ascii """
// packet A { u8 x, }
// c
: Packet ,[ 4294967296
    ,""1"" ] :
    T , } ,
    //	t
    Logon @calculatedFrom( ""x y"")  `it's`
, string charz @calculatedFrom(
// " ++ [128512]%N ++ runes_of_ascii " emoji
//	t
""abc""
) ,
string options1	,
/// triple
/// triple
@lengthOf(
//
//x
As
    ) repeat zchar[ // `tick` ""quote"" 'q'
7 ]zchar , @lengthOf(
    crc)x_y_z
    @calculatedFrom(
""" ++ [28040; 24687]%N ++ runes_of_ascii """ ) ,
}
")).
Eval vm_compute in ("<<<T209>>>" ++ terms [mkTok 34 "root" 1 0 false; mkTok 35 "packet" 1 5 false; mkTok 42 "body" 1 12 false; mkTok 2 "{" 1 16 false; mkTok 9 "@tag(" 2 0 false; mkTok 30 "4294967296" 3 0 false; mkTok 6 ")" 4 4 false; mkTok 42 "As" 5 0 false; mkTok 5 "@calculatedFrom(" 5 3 false; mkTok 31 (string_of_bytes [34; 240; 159; 152; 128; 34]%N) 5 19 false; mkTok 6 ")" 5 23 false; mkTok 43 "`a\`" 6 4 false; mkTok 40 "," 6 9 false; mkTok 44 "/// triple" 6 11 true; mkTok 3 "}" 7 0 false; mkTok 34 "root" 7 2 false; mkTok 35 "packet" 7 7 false; mkTok 42 "uint8x" 8 4 false; mkTok 2 "{" 9 0 false; mkTok 42 "MetaDataX" 9 2 false; mkTok 2 "{" 9 11 false; mkTok 36 "repeat" 9 13 false; mkTok 42 "matchKey" 10 0 false; mkTok 42 "lengthOf" 10 9 false; mkTok 40 "," 10 18 false; mkTok 36 "repeat" 10 20 false; mkTok 22 "u32" 10 27 false; mkTok 42 "uint8x" 10 31 false; mkTok 44 "// packet A { u8 x, }" 11 0 true; mkTok 44 "// a // b" 12 0 true; mkTok 43 "`doc`" 13 0 false; mkTok 44 "/// triple" 14 4 true; mkTok 40 "," 15 4 false; mkTok 3 "}" 16 0 false; mkTok 40 "," 16 2 false; mkTok 3 "}" 16 5 false; mkTok 1 "options" 16 7 false; mkTok 2 "{" 16 15 false; mkTok 42 "int" 16 17 false; mkTok 44 "// a // b" 16 21 true; mkTok 4 "=" 17 0 false; mkTok 31 """abc""" 18 4 false; mkTok 3 "}" 18 10 false; mkTok 35 "packet" 18 12 false; mkTok 44 "// trailing space " 19 4 true; mkTok 42 "u8x" 20 4 false; mkTok 2 "{" 20 8 false; mkTok 3 "}" 21 0 false; mkTok 34 "root" 21 2 false; mkTok 35 "packet" 22 0 false; mkTok 44 (string_of_bytes [47; 47; 32; 240; 159; 152; 128; 32; 101; 109; 111; 106; 105]%N) 22 7 true; mkTok 42 "falsey" 23 0 false; mkTok 2 "{" 23 7 false; mkTok 36 "repeat" 23 8 false; mkTok 28 "float32" 23 15 false; mkTok 42 "u" 23 23 false; mkTok 40 "," 23 25 false; mkTok 36 "repeat" 23 27 false; mkTok 16 "char[]" 23 34 false; mkTok 44 (string_of_bytes [47; 47; 32; 240; 159; 152; 128; 32; 101; 109; 111; 106; 105]%N) 24 0 true; mkTok 44 "// packet A { u8 x, }" 25 0 true; mkTok 42 "msg_type" 26 0 false; mkTok 43 (string_of_bytes [96; 10; 96]%N) 27 4 false; mkTok 40 "," 28 2 false; mkTok 32 "@leftPad" 28 4 false; mkTok 8 "(" 28 13 false; mkTok 33 "' '" 28 15 false; mkTok 6 ")" 28 18 false; mkTok 9 "@tag(" 29 4 false; mkTok 30 "255" 29 9 false; mkTok 6 ")" 30 0 false; mkTok 38 "match" 30 1 false; mkTok 42 "Header" 30 7 false; mkTok 17 "as" 30 14 false; mkTok 42 "msg_type" 30 17 false; mkTok 2 "{" 31 4 false; mkTok 30 "3" 31 6 false; mkTok 39 ":" 31 8 false; mkTok 42 "uint8x" 31 9 false; mkTok 40 "," 32 4 false; mkTok 30 "255" 33 4 false; mkTok 39 ":" 33 8 false; mkTok 42 "x" 34 0 false; mkTok 40 "," 34 2 false; mkTok 44 "// trailing space " 34 4 true; mkTok 30 "7" 35 0 false; mkTok 44 (string_of_bytes [47; 47; 32; 230; 179; 168; 233; 135; 138]%N) 35 2 true; mkTok 39 ":" 36 0 false; mkTok 42 "leftPad" 36 2 false; mkTok 44 "// c" 37 0 true; mkTok 44 "// `tick` ""quote"" 'q'" 38 0 true; mkTok 31 (string_of_bytes [34; 230; 182; 136; 230; 129; 175; 34]%N) 39 0 false; mkTok 44 "// packet A { u8 x, }" 40 0 true; mkTok 44 "// c" 41 0 true; mkTok 39 ":" 42 0 false; mkTok 42 "Packet" 42 2 false; mkTok 40 "," 42 9 false; mkTok 18 "[" 42 10 false; mkTok 30 "4294967296" 42 12 false; mkTok 40 "," 43 4 false; mkTok 31 """1""" 43 5 false; mkTok 13 "]" 43 9 false; mkTok 39 ":" 43 11 false; mkTok 42 "T" 44 4 false; mkTok 40 "," 44 6 false; mkTok 3 "}" 44 8 false; mkTok 40 "," 44 10 false; mkTok 44 (string_of_bytes [47; 47; 9; 116]%N) 45 4 true; mkTok 42 "Logon" 46 4 false; mkTok 5 "@calculatedFrom(" 46 10 false; mkTok 31 """x y""" 46 27 false; mkTok 6 ")" 46 32 false; mkTok 43 "`it's`" 46 35 false; mkTok 40 "," 47 0 false; mkTok 15 "string" 47 2 false; mkTok 42 "charz" 47 9 false; mkTok 5 "@calculatedFrom(" 47 15 false; mkTok 44 (string_of_bytes [47; 47; 32; 240; 159; 152; 128; 32; 101; 109; 111; 106; 105]%N) 48 0 true; mkTok 44 (string_of_bytes [47; 47; 9; 116]%N) 49 0 true; mkTok 31 """abc""" 50 0 false; mkTok 6 ")" 51 0 false; mkTok 40 "," 51 2 false; mkTok 15 "string" 52 0 false; mkTok 42 "options1" 52 7 false; mkTok 40 "," 52 16 false; mkTok 44 "/// triple" 53 0 true; mkTok 44 "/// triple" 54 0 true; mkTok 7 "@lengthOf(" 55 0 false; mkTok 44 "//" 56 0 true; mkTok 44 "//x" 57 0 true; mkTok 42 "As" 58 0 false; mkTok 6 ")" 59 4 false; mkTok 36 "repeat" 59 6 false; mkTok 14 "zchar[" 59 13 false; mkTok 44 "// `tick` ""quote"" 'q'" 59 20 true; mkTok 30 "7" 60 0 false; mkTok 13 "]" 60 2 false; mkTok 42 "zchar" 60 3 false; mkTok 40 "," 60 9 false; mkTok 7 "@lengthOf(" 60 11 false; mkTok 42 "crc" 61 4 false; mkTok 6 ")" 61 7 false; mkTok 42 "x_y_z" 61 8 false; mkTok 5 "@calculatedFrom(" 62 4 false; mkTok 31 (string_of_bytes [34; 230; 182; 136; 230; 129; 175; 34]%N) 63 0 false; mkTok 6 ")" 63 5 false; mkTok 40 "," 63 7 false; mkTok 3 "}" 64 0 false; mkTok 0 "<EOF>" 65 0 false] (mkPacket (mkPtok 34 "root" 1 0 0) (Some (mkPtok 3 "}" 64 0 147)) [(DPacket (mkPacketDef (mkSpan (mkPtok 34 "root" 1 0 0) (mkPtok 3 "}" 7 0 14)) (Some (mkPtok 34 "root" 1 0 0)) (mkPtok 35 "packet" 1 5 1) (mkPtok 42 "body" 1 12 2) (mkPtok 2 "{" 1 16 3) [(mkFieldWithAttr (mkSpan (mkPtok 9 "@tag(" 2 0 4) (mkPtok 40 "," 6 9 12)) [(FATag (mkSpan (mkPtok 9 "@tag(" 2 0 4) (mkPtok 6 ")" 4 4 6)) (mkTagAttr (mkSpan (mkPtok 9 "@tag(" 2 0 4) (mkPtok 6 ")" 4 4 6)) (mkPtok 9 "@tag(" 2 0 4) (mkPtok 30 "4294967296" 3 0 5) (mkPtok 6 ")" 4 4 6)))] (CheckSumField (mkSpan (mkPtok 42 "As" 5 0 7) (mkPtok 40 "," 6 9 12)) (mkChecksumFieldDecl (mkSpan (mkPtok 42 "As" 5 0 7) (mkPtok 40 "," 6 9 12)) None (mkPtok 42 "As" 5 0 7) (mkCalculatedFrom (mkSpan (mkPtok 5 "@calculatedFrom(" 5 3 8) (mkPtok 6 ")" 5 23 10)) (mkPtok 5 "@calculatedFrom(" 5 3 8) (mkPtok 31 (string_of_bytes [34; 240; 159; 152; 128; 34]%N) 5 19 9) (mkPtok 6 ")" 5 23 10)) (Some (mkPtok 43 "`a\`" 6 4 11)) (mkPtok 40 "," 6 9 12))))] (mkPtok 3 "}" 7 0 14))); (DPacket (mkPacketDef (mkSpan (mkPtok 34 "root" 7 2 15) (mkPtok 3 "}" 16 5 35)) (Some (mkPtok 34 "root" 7 2 15)) (mkPtok 35 "packet" 7 7 16) (mkPtok 42 "uint8x" 8 4 17) (mkPtok 2 "{" 9 0 18) [(mkFieldWithAttr (mkSpan (mkPtok 42 "MetaDataX" 9 2 19) (mkPtok 40 "," 16 2 34)) [] (InerObjectField (mkSpan (mkPtok 42 "MetaDataX" 9 2 19) (mkPtok 40 "," 16 2 34)) None (InerObjectDecl (mkSpan (mkPtok 42 "MetaDataX" 9 2 19) (mkPtok 3 "}" 16 0 33)) (mkPtok 42 "MetaDataX" 9 2 19) (mkPtok 2 "{" 9 11 20) [(ObjectField (mkSpan (mkPtok 36 "repeat" 9 13 21) (mkPtok 40 "," 10 18 24)) (Some (mkPtok 36 "repeat" 9 13 21)) (mkPtok 42 "matchKey" 10 0 22) (Some (mkPtok 42 "lengthOf" 10 9 23)) None (mkPtok 40 "," 10 18 24)); (MetaField (mkSpan (mkPtok 36 "repeat" 10 20 25) (mkPtok 40 "," 15 4 32)) (Some (mkPtok 36 "repeat" 10 20 25)) (mkMetaDecl (mkSpan (mkPtok 22 "u32" 10 27 26) (mkPtok 40 "," 15 4 32)) (TyBasic (mkSpan (mkPtok 22 "u32" 10 27 26) (mkPtok 22 "u32" 10 27 26)) (mkBasicType (mkSpan (mkPtok 22 "u32" 10 27 26) (mkPtok 22 "u32" 10 27 26)) (mkPtok 22 "u32" 10 27 26))) (mkPtok 42 "uint8x" 10 31 27) (Some (mkPtok 43 "`doc`" 13 0 30)) (mkPtok 40 "," 15 4 32)))] (mkPtok 3 "}" 16 0 33)) (mkPtok 40 "," 16 2 34)))] (mkPtok 3 "}" 16 5 35))); (DOption (mkOptionDef (mkSpan (mkPtok 1 "options" 16 7 36) (mkPtok 3 "}" 18 10 42)) (mkPtok 1 "options" 16 7 36) (mkPtok 2 "{" 16 15 37) [(mkOptionDecl (mkSpan (mkPtok 42 "int" 16 17 38) (mkPtok 31 """abc""" 18 4 41)) (mkPtok 42 "int" 16 17 38) (mkPtok 4 "=" 17 0 40) (VString (mkSpan (mkPtok 31 """abc""" 18 4 41) (mkPtok 31 """abc""" 18 4 41)) (mkPtok 31 """abc""" 18 4 41)) None)] (mkPtok 3 "}" 18 10 42))); (DPacket (mkPacketDef (mkSpan (mkPtok 35 "packet" 18 12 43) (mkPtok 3 "}" 21 0 47)) None (mkPtok 35 "packet" 18 12 43) (mkPtok 42 "u8x" 20 4 45) (mkPtok 2 "{" 20 8 46) [] (mkPtok 3 "}" 21 0 47))); (DPacket (mkPacketDef (mkSpan (mkPtok 34 "root" 21 2 48) (mkPtok 3 "}" 64 0 147)) (Some (mkPtok 34 "root" 21 2 48)) (mkPtok 35 "packet" 22 0 49) (mkPtok 42 "falsey" 23 0 51) (mkPtok 2 "{" 23 7 52) [(mkFieldWithAttr (mkSpan (mkPtok 36 "repeat" 23 8 53) (mkPtok 40 "," 23 25 56)) [] (MetaField (mkSpan (mkPtok 36 "repeat" 23 8 53) (mkPtok 40 "," 23 25 56)) (Some (mkPtok 36 "repeat" 23 8 53)) (mkMetaDecl (mkSpan (mkPtok 28 "float32" 23 15 54) (mkPtok 40 "," 23 25 56)) (TyBasic (mkSpan (mkPtok 28 "float32" 23 15 54) (mkPtok 28 "float32" 23 15 54)) (mkBasicType (mkSpan (mkPtok 28 "float32" 23 15 54) (mkPtok 28 "float32" 23 15 54)) (mkPtok 28 "float32" 23 15 54))) (mkPtok 42 "u" 23 23 55) None (mkPtok 40 "," 23 25 56)))); (mkFieldWithAttr (mkSpan (mkPtok 36 "repeat" 23 27 57) (mkPtok 40 "," 28 2 63)) [] (MetaField (mkSpan (mkPtok 36 "repeat" 23 27 57) (mkPtok 40 "," 28 2 63)) (Some (mkPtok 36 "repeat" 23 27 57)) (mkMetaDecl (mkSpan (mkPtok 16 "char[]" 23 34 58) (mkPtok 40 "," 28 2 63)) (TyDynamic (mkSpan (mkPtok 16 "char[]" 23 34 58) (mkPtok 16 "char[]" 23 34 58)) (mkDynamicString (mkSpan (mkPtok 16 "char[]" 23 34 58) (mkPtok 16 "char[]" 23 34 58)) (mkPtok 16 "char[]" 23 34 58))) (mkPtok 42 "msg_type" 26 0 61) (Some (mkPtok 43 (string_of_bytes [96; 10; 96]%N) 27 4 62)) (mkPtok 40 "," 28 2 63)))); (mkFieldWithAttr (mkSpan (mkPtok 32 "@leftPad" 28 4 64) (mkPtok 40 "," 44 10 106)) [(FAPadding (mkSpan (mkPtok 32 "@leftPad" 28 4 64) (mkPtok 6 ")" 28 18 67)) (mkPaddingAttr (mkSpan (mkPtok 32 "@leftPad" 28 4 64) (mkPtok 6 ")" 28 18 67)) (mkPtok 32 "@leftPad" 28 4 64) (mkPtok 8 "(" 28 13 65) (Some (mkPtok 33 "' '" 28 15 66)) (mkPtok 6 ")" 28 18 67))); (FATag (mkSpan (mkPtok 9 "@tag(" 29 4 68) (mkPtok 6 ")" 30 0 70)) (mkTagAttr (mkSpan (mkPtok 9 "@tag(" 29 4 68) (mkPtok 6 ")" 30 0 70)) (mkPtok 9 "@tag(" 29 4 68) (mkPtok 30 "255" 29 9 69) (mkPtok 6 ")" 30 0 70)))] (MatchField (mkSpan (mkPtok 38 "match" 30 1 71) (mkPtok 40 "," 44 10 106)) (mkMatchFieldDecl (mkSpan (mkPtok 38 "match" 30 1 71) (mkPtok 3 "}" 44 8 105)) (mkPtok 38 "match" 30 1 71) (mkPtok 42 "Header" 30 7 72) (mkPtok 17 "as" 30 14 73) (mkPtok 42 "msg_type" 30 17 74) (mkPtok 2 "{" 31 4 75) [(mkMatchPair (mkSpan (mkPtok 30 "3" 31 6 76) (mkPtok 40 "," 32 4 79)) (MKDigits (mkPtok 30 "3" 31 6 76)) (mkPtok 39 ":" 31 8 77) (mkPtok 42 "uint8x" 31 9 78) (Some (mkPtok 40 "," 32 4 79))); (mkMatchPair (mkSpan (mkPtok 30 "255" 33 4 80) (mkPtok 40 "," 34 2 83)) (MKDigits (mkPtok 30 "255" 33 4 80)) (mkPtok 39 ":" 33 8 81) (mkPtok 42 "x" 34 0 82) (Some (mkPtok 40 "," 34 2 83))); (mkMatchPair (mkSpan (mkPtok 30 "7" 35 0 85) (mkPtok 42 "leftPad" 36 2 88)) (MKDigits (mkPtok 30 "7" 35 0 85)) (mkPtok 39 ":" 36 0 87) (mkPtok 42 "leftPad" 36 2 88) None); (mkMatchPair (mkSpan (mkPtok 31 (string_of_bytes [34; 230; 182; 136; 230; 129; 175; 34]%N) 39 0 91) (mkPtok 40 "," 42 9 96)) (MKString (mkPtok 31 (string_of_bytes [34; 230; 182; 136; 230; 129; 175; 34]%N) 39 0 91)) (mkPtok 39 ":" 42 0 94) (mkPtok 42 "Packet" 42 2 95) (Some (mkPtok 40 "," 42 9 96))); (mkMatchPair (mkSpan (mkPtok 18 "[" 42 10 97) (mkPtok 40 "," 44 6 104)) (MKList (mkKeyList (mkSpan (mkPtok 18 "[" 42 10 97) (mkPtok 13 "]" 43 9 101)) (mkPtok 18 "[" 42 10 97) (mkPtok 30 "4294967296" 42 12 98) [((mkPtok 40 "," 43 4 99), (mkPtok 31 """1""" 43 5 100))] (mkPtok 13 "]" 43 9 101))) (mkPtok 39 ":" 43 11 102) (mkPtok 42 "T" 44 4 103) (Some (mkPtok 40 "," 44 6 104)))] (mkPtok 3 "}" 44 8 105)) (mkPtok 40 "," 44 10 106))); (mkFieldWithAttr (mkSpan (mkPtok 42 "Logon" 46 4 108) (mkPtok 40 "," 47 0 113)) [] (CheckSumField (mkSpan (mkPtok 42 "Logon" 46 4 108) (mkPtok 40 "," 47 0 113)) (mkChecksumFieldDecl (mkSpan (mkPtok 42 "Logon" 46 4 108) (mkPtok 40 "," 47 0 113)) None (mkPtok 42 "Logon" 46 4 108) (mkCalculatedFrom (mkSpan (mkPtok 5 "@calculatedFrom(" 46 10 109) (mkPtok 6 ")" 46 32 111)) (mkPtok 5 "@calculatedFrom(" 46 10 109) (mkPtok 31 """x y""" 46 27 110) (mkPtok 6 ")" 46 32 111)) (Some (mkPtok 43 "`it's`" 46 35 112)) (mkPtok 40 "," 47 0 113)))); (mkFieldWithAttr (mkSpan (mkPtok 15 "string" 47 2 114) (mkPtok 40 "," 51 2 121)) [] (CheckSumField (mkSpan (mkPtok 15 "string" 47 2 114) (mkPtok 40 "," 51 2 121)) (mkChecksumFieldDecl (mkSpan (mkPtok 15 "string" 47 2 114) (mkPtok 40 "," 51 2 121)) (Some (TyDynamic (mkSpan (mkPtok 15 "string" 47 2 114) (mkPtok 15 "string" 47 2 114)) (mkDynamicString (mkSpan (mkPtok 15 "string" 47 2 114) (mkPtok 15 "string" 47 2 114)) (mkPtok 15 "string" 47 2 114)))) (mkPtok 42 "charz" 47 9 115) (mkCalculatedFrom (mkSpan (mkPtok 5 "@calculatedFrom(" 47 15 116) (mkPtok 6 ")" 51 0 120)) (mkPtok 5 "@calculatedFrom(" 47 15 116) (mkPtok 31 """abc""" 50 0 119) (mkPtok 6 ")" 51 0 120)) None (mkPtok 40 "," 51 2 121)))); (mkFieldWithAttr (mkSpan (mkPtok 15 "string" 52 0 122) (mkPtok 40 "," 52 16 124)) [] (MetaField (mkSpan (mkPtok 15 "string" 52 0 122) (mkPtok 40 "," 52 16 124)) None (mkMetaDecl (mkSpan (mkPtok 15 "string" 52 0 122) (mkPtok 40 "," 52 16 124)) (TyDynamic (mkSpan (mkPtok 15 "string" 52 0 122) (mkPtok 15 "string" 52 0 122)) (mkDynamicString (mkSpan (mkPtok 15 "string" 52 0 122) (mkPtok 15 "string" 52 0 122)) (mkPtok 15 "string" 52 0 122))) (mkPtok 42 "options1" 52 7 123) None (mkPtok 40 "," 52 16 124)))); (mkFieldWithAttr (mkSpan (mkPtok 7 "@lengthOf(" 55 0 127) (mkPtok 40 "," 60 9 138)) [(FALengthOf (mkSpan (mkPtok 7 "@lengthOf(" 55 0 127) (mkPtok 6 ")" 59 4 131)) (mkLengthOf (mkSpan (mkPtok 7 "@lengthOf(" 55 0 127) (mkPtok 6 ")" 59 4 131)) (mkPtok 7 "@lengthOf(" 55 0 127) (mkPtok 42 "As" 58 0 130) (mkPtok 6 ")" 59 4 131)))] (MetaField (mkSpan (mkPtok 36 "repeat" 59 6 132) (mkPtok 40 "," 60 9 138)) (Some (mkPtok 36 "repeat" 59 6 132)) (mkMetaDecl (mkSpan (mkPtok 14 "zchar[" 59 13 133) (mkPtok 40 "," 60 9 138)) (TyFixed (mkSpan (mkPtok 14 "zchar[" 59 13 133) (mkPtok 13 "]" 60 2 136)) (mkFixedString (mkSpan (mkPtok 14 "zchar[" 59 13 133) (mkPtok 13 "]" 60 2 136)) (mkPtok 14 "zchar[" 59 13 133) (mkPtok 30 "7" 60 0 135) (mkPtok 13 "]" 60 2 136))) (mkPtok 42 "zchar" 60 3 137) None (mkPtok 40 "," 60 9 138)))); (mkFieldWithAttr (mkSpan (mkPtok 7 "@lengthOf(" 60 11 139) (mkPtok 40 "," 63 7 146)) [(FALengthOf (mkSpan (mkPtok 7 "@lengthOf(" 60 11 139) (mkPtok 6 ")" 61 7 141)) (mkLengthOf (mkSpan (mkPtok 7 "@lengthOf(" 60 11 139) (mkPtok 6 ")" 61 7 141)) (mkPtok 7 "@lengthOf(" 60 11 139) (mkPtok 42 "crc" 61 4 140) (mkPtok 6 ")" 61 7 141)))] (CheckSumField (mkSpan (mkPtok 42 "x_y_z" 61 8 142) (mkPtok 40 "," 63 7 146)) (mkChecksumFieldDecl (mkSpan (mkPtok 42 "x_y_z" 61 8 142) (mkPtok 40 "," 63 7 146)) None (mkPtok 42 "x_y_z" 61 8 142) (mkCalculatedFrom (mkSpan (mkPtok 5 "@calculatedFrom(" 62 4 143) (mkPtok 6 ")" 63 5 145)) (mkPtok 5 "@calculatedFrom(" 62 4 143) (mkPtok 31 (string_of_bytes [34; 230; 182; 136; 230; 129; 175; 34]%N) 63 0 144) (mkPtok 6 ")" 63 5 145)) None (mkPtok 40 "," 63 7 146))))] (mkPtok 3 "}" 64 0 147)))])).
Eval vm_compute in ("<<<M241>>>" ++ check (runes_of_ascii "packet falsey { int64
BodyLength , @tag( 4294967296) // packet A { u8 x, }
@leftPad (
    )
match _x as Foo
//	t
// packet A { u8 x, }
{ ""\n"": asx
// `tick` ""quote"" 'q'
// `tick` ""quote"" 'q'
[ ""{,}""
,	4294967296, """ ++ [128512]%N ++ runes_of_ascii """//	t
, """ ++ [28040; 24687]%N ++ runes_of_ascii """,
""packet"", ""packet""
    // " ++ [27880; 37322]%N ++ runes_of_ascii "
    , ""x y"" ,
// trailing space 
// " ++ [128512]%N ++ runes_of_ascii " emoji
7 ]	: x_y_z	, } , // `tick` ""quote"" 'q'
A len`// not a comment`
    ,
    //
    repeat char[]
i64_ `crlf
line` ,
// trailing space 
// trailing space 
repeat char[] u `line1
line2`	, tag {string metadata ,
    } ,
// " ++ [27880; 37322]%N ++ runes_of_ascii "
// " ++ [128512]%N ++ runes_of_ascii " emoji
char[3
    ] falsey @lengthOf(
    leftPad ) `crlf
line`
,  } root	packet
MetaDataX {@lengthOf( //
u8x )
    match f32a as Header {[ ""a\""b""
//x
// `tick` ""quote"" 'q'
,255]:  u8x , ""packet""
:
uint8x
    ,""1""
:
_x , },
    Packet `doc` , zchar[
    3 // " ++ [128512]%N ++ runes_of_ascii " emoji
] u128 @lengthOf( asx  ) ,
    }  MetaData x/// triple
{
// `tick` ""quote"" 'q'
// `tick` ""quote"" 'q'
As  roots , char[
10	] crc
// " ++ [128512]%N ++ runes_of_ascii " emoji
/// triple
`{ , }` ,
    BodyLength
asx  `u8 x,` ,matchKey i8i8 , falsey pack `" ++ [233]%N ++ runes_of_ascii "`,leftPad metadata ,
    }
options { pack	= 0 tag
= f32 i64_ =""abc""	;
// " ++ [128512]%N ++ runes_of_ascii " emoji
// " ++ [128512]%N ++ runes_of_ascii " emoji
f32a=
    true ; } packet Foo { }
")).
Eval vm_compute in ("<<<M273>>>" ++ check (runes_of_ascii "MetaData u128 { uint8x msg_type `line1
line2`	, }")).
Eval vm_compute in ("<<<M305>>>" ++ check (runes_of_ascii "//	t
root
packet
packetx { @lengthOf( BodyLength )zchar[ // " ++ [27880; 37322]%N ++ runes_of_ascii "
00 ]	uint8x	@lengthOf(
    i8i8)`tab	here` , @lengthOf( x_y_z )@leftPad ( '0'
)
@lengthOf( Header )
f32 pack @calculatedFrom( ""a\\""),
@calculatedFrom(
""`tick`"")
//x
// " ++ [27880; 37322]%N ++ runes_of_ascii "
lengthOf// " ++ [128512]%N ++ runes_of_ascii " emoji
MetaDataX ,@lengthOf( Packet ) lengthOf @calculatedFrom(
""\n"" )
    `doc`
//	t
//	t
, @rightPad ( )	char[	0123456789	] float , @lengthOf(
    options1 )
//x
//	t
@tag(7
    ) @tag(
    007) crc int, chars @calculatedFrom(
""" ++ [233]%N ++ runes_of_ascii "t" ++ [233]%N ++ runes_of_ascii """ )//x
, @calculatedFrom(//x
""CRC32"" )
repeat char[] packetx `two words` , }
packet T { }
packet T {char[10
] u128 ,
    @lengthOf( calculatedFrom  )
    chars
    o
,
@calculatedFrom(""\n"" ) match// @lengthOf(
pack  as Logon  {
    [
""// no comment"" , 255 , 42 , ""CRC32"", ""// no comment"" ] : asx
""it's"" :msg_type	,
    // `tick` ""quote"" 'q'
    0123456789  : //	t
msg_type
    //	t
    ,
255  : //
len
,
}
    , match chars as int
    { [ 00
    , 42,42 ] : x
    4294967296	: i64_, [""a	b""  ,  007// c
, """ ++ [128512]%N ++ runes_of_ascii """ , ""// no comment""
// @lengthOf(
// trailing space 
] :f32a, 42 : packetx }
, /// triple
crc	{a1 `" ++ [233]%N ++ runes_of_ascii "` , } ,@tag(
3 )
    /// triple
    zchar[7 ]  o`
`
, }
    packet roots{u64 i64_ ``,
    }")).
Eval vm_compute in ("<<<M337>>>" ++ check (runes_of_ascii "
packet
metadata {
i8 BodyLength,
asx `two words`  ,char[ 0123456789] asx`" ++ [28040; 24687; 31867; 22411]%N ++ runes_of_ascii "`// " ++ [128512]%N ++ runes_of_ascii " emoji
, @tag(
42/// triple
)
    repeat	charz `crlf
line` ,
body ,@tag( 65535  ) match
    // " ++ [128512]%N ++ runes_of_ascii " emoji
    Pad as x_y_z  { ""{,}"" :
u , } ,
    repeat Foo
    {repeat pack {
// `tick` ""quote"" 'q'
// `tick` ""quote"" 'q'
f32 calculatedFrom
    @lengthOf( options1
    )
,
//x
// c
}
, int32 Header @calculatedFrom(""a	b"")
, char[]
zchar
    `
`
    ,
    zchar[00 ]a1 @calculatedFrom(
    // c
    ""{,}"") `crlf
line` , }
,
    body zchar ,i64_ @calculatedFrom( ""a\\""  )
, // " ++ [27880; 37322]%N ++ runes_of_ascii "
match
/// triple
// " ++ [27880; 37322]%N ++ runes_of_ascii "
zchar
as zchar {	1 : u128
    ,
255
: packetx, [""{,}"" ,""// no comment"",  0 , 65535 ,  3 ] :  u8x, 0123456789:  calculatedFrom // `tick` ""quote"" 'q'
, 10 : Header	,
}
    ,
}packet string_
{ @tag( 10 ) T, @calculatedFrom(""CRC32""//	t
)@lengthOf(charz )@lengthOf(
zchar) zchar[
42
    ] // a // b
a1 `" ++ [233]%N ++ runes_of_ascii "` , int32 x `two words` //
, float32 repeatCount ,
    //
    @lengthOf(
    Packet) @rightPad('0'	) // @lengthOf(
@calculatedFrom(""a\""b"") zchar[ 0 ]	repeatCount @lengthOf(
BodyLength  ) // trailing space 
, float,
repeat
zchar
// trailing space 
//x
,} root packet body
{  @lengthOf(msg_type) repeat
    u128 {// trailing space 
char[
// " ++ [128512]%N ++ runes_of_ascii " emoji
//
0123456789 ]options1
,
}	, //	t
f64
    u128`it's`	,// @lengthOf(
repeat  i64 charz ,
@calculatedFrom( """ ++ [128512]%N ++ runes_of_ascii """ )
    repeat char
    roots, } packet
metadata // @lengthOf(
{ // trailing space 
@lengthOf( // packet A { u8 x, }
BodyLength ) @tag( 4294967296  ) f32a
A
, } MetaData u128 { } //")).
Eval vm_compute in ("<<<M369>>>" ++ check (runes_of_ascii "packet lengthOf
    { @tag(007 )trueish
    // c
    {
    repeat string asx,
} , } options
    {roots=
    ""x y""	; }
")).
Eval vm_compute in ("<<<M401>>>" ++ check (runes_of_ascii "packet float { @leftPad ( ' ' )repeat
metadata falsey
,lengthOf matchKey , int32
roots , int16 Pad@calculatedFrom( // " ++ [128512]%N ++ runes_of_ascii " emoji
""\" ++ [233]%N ++ runes_of_ascii """)
, // a // b
lengthOf
    @calculatedFrom( ""`tick`"")// c
`" ++ [28040; 24687; 31867; 22411]%N ++ runes_of_ascii "` ,
@lengthOf( metadata) i8i8
,@rightPad(
// packet A { u8 x, }
//	t
'0'
) Foo ,
    // trailing space 
    @tag(
10 //
)chars	`
`
    , @tag( 7
)
    // " ++ [128512]%N ++ runes_of_ascii " emoji
    @leftPad ( ) repeat zchar[ 255 ]
u128
, // c
}
    options {//	t
msg_type =
0	; // @lengthOf(
u = ' ' x_y_z =65535 u128 // packet A { u8 x, }
= char[] ; zchar	= zchar[ 3
    ]
; }

")).
Eval vm_compute in ("<<<M433>>>" ++ check (runes_of_ascii "packet body{ @tag(42 )
rootA Logon `line1
line2`
, repeatCount{ repeat lengthOf x_y_z , Pad
    , repeat falsey packetx
    ,	string rootA`` /// triple
,} ,
@leftPad
    // a // b
    ('\x00' )char[
0
]
    roots , msg_type
,
u128 charz
    ,
    string crc`" ++ [28040; 24687; 31867; 22411]%N ++ runes_of_ascii "`
    , match Header as Packet
    {
10  :x , [
//x
// `tick` ""quote"" 'q'
""1""] : matchKey
, 10
: // @lengthOf(
i64_ 255// a // b
:T , } ,
} packet	o { }")).
Eval vm_compute in ("<<<T433>>>" ++ terms [mkTok 35 "packet" 1 0 false; mkTok 42 "body" 1 7 false; mkTok 2 "{" 1 11 false; mkTok 9 "@tag(" 1 13 false; mkTok 30 "42" 1 18 false; mkTok 6 ")" 1 21 false; mkTok 42 "rootA" 2 0 false; mkTok 42 "Logon" 2 6 false; mkTok 43 (string_of_bytes [96; 108; 105; 110; 101; 49; 10; 108; 105; 110; 101; 50; 96]%N) 2 12 false; mkTok 40 "," 4 0 false; mkTok 42 "repeatCount" 4 2 false; mkTok 2 "{" 4 13 false; mkTok 36 "repeat" 4 15 false; mkTok 42 "lengthOf" 4 22 false; mkTok 42 "x_y_z" 4 31 false; mkTok 40 "," 4 37 false; mkTok 42 "Pad" 4 39 false; mkTok 40 "," 5 4 false; mkTok 36 "repeat" 5 6 false; mkTok 42 "falsey" 5 13 false; mkTok 42 "packetx" 5 20 false; mkTok 40 "," 6 4 false; mkTok 15 "string" 6 6 false; mkTok 42 "rootA" 6 13 false; mkTok 43 "``" 6 18 false; mkTok 44 "/// triple" 6 21 true; mkTok 40 "," 7 0 false; mkTok 3 "}" 7 1 false; mkTok 40 "," 7 3 false; mkTok 32 "@leftPad" 8 0 false; mkTok 44 "// a // b" 9 4 true; mkTok 8 "(" 10 4 false; mkTok 33 "'\x00'" 10 5 false; mkTok 6 ")" 10 12 false; mkTok 12 "char[" 10 13 false; mkTok 30 "0" 11 0 false; mkTok 13 "]" 12 0 false; mkTok 42 "roots" 13 4 false; mkTok 40 "," 13 10 false; mkTok 42 "msg_type" 13 12 false; mkTok 40 "," 14 0 false; mkTok 42 "u128" 15 0 false; mkTok 42 "charz" 15 5 false; mkTok 40 "," 16 4 false; mkTok 15 "string" 17 4 false; mkTok 42 "crc" 17 11 false; mkTok 43 (string_of_bytes [96; 230; 182; 136; 230; 129; 175; 231; 177; 187; 229; 158; 139; 96]%N) 17 14 false; mkTok 40 "," 18 4 false; mkTok 38 "match" 18 6 false; mkTok 42 "Header" 18 12 false; mkTok 17 "as" 18 19 false; mkTok 42 "Packet" 18 22 false; mkTok 2 "{" 19 4 false; mkTok 30 "10" 20 0 false; mkTok 39 ":" 20 4 false; mkTok 42 "x" 20 5 false; mkTok 40 "," 20 7 false; mkTok 18 "[" 20 9 false; mkTok 44 "//x" 21 0 true; mkTok 44 "// `tick` ""quote"" 'q'" 22 0 true; mkTok 31 """1""" 23 0 false; mkTok 13 "]" 23 3 false; mkTok 39 ":" 23 5 false; mkTok 42 "matchKey" 23 7 false; mkTok 40 "," 24 0 false; mkTok 30 "10" 24 2 false; mkTok 39 ":" 25 0 false; mkTok 44 "// @lengthOf(" 25 2 true; mkTok 42 "i64_" 26 0 false; mkTok 30 "255" 26 5 false; mkTok 44 "// a // b" 26 8 true; mkTok 39 ":" 27 0 false; mkTok 42 "T" 27 1 false; mkTok 40 "," 27 3 false; mkTok 3 "}" 27 5 false; mkTok 40 "," 27 7 false; mkTok 3 "}" 28 0 false; mkTok 35 "packet" 28 2 false; mkTok 42 "o" 28 9 false; mkTok 2 "{" 28 11 false; mkTok 3 "}" 28 13 false; mkTok 0 "<EOF>" 28 14 false] (mkPacket (mkPtok 35 "packet" 1 0 0) (Some (mkPtok 3 "}" 28 13 80)) [(DPacket (mkPacketDef (mkSpan (mkPtok 35 "packet" 1 0 0) (mkPtok 3 "}" 28 0 76)) None (mkPtok 35 "packet" 1 0 0) (mkPtok 42 "body" 1 7 1) (mkPtok 2 "{" 1 11 2) [(mkFieldWithAttr (mkSpan (mkPtok 9 "@tag(" 1 13 3) (mkPtok 40 "," 4 0 9)) [(FATag (mkSpan (mkPtok 9 "@tag(" 1 13 3) (mkPtok 6 ")" 1 21 5)) (mkTagAttr (mkSpan (mkPtok 9 "@tag(" 1 13 3) (mkPtok 6 ")" 1 21 5)) (mkPtok 9 "@tag(" 1 13 3) (mkPtok 30 "42" 1 18 4) (mkPtok 6 ")" 1 21 5)))] (ObjectField (mkSpan (mkPtok 42 "rootA" 2 0 6) (mkPtok 40 "," 4 0 9)) None (mkPtok 42 "rootA" 2 0 6) (Some (mkPtok 42 "Logon" 2 6 7)) (Some (mkPtok 43 (string_of_bytes [96; 108; 105; 110; 101; 49; 10; 108; 105; 110; 101; 50; 96]%N) 2 12 8)) (mkPtok 40 "," 4 0 9))); (mkFieldWithAttr (mkSpan (mkPtok 42 "repeatCount" 4 2 10) (mkPtok 40 "," 7 3 28)) [] (InerObjectField (mkSpan (mkPtok 42 "repeatCount" 4 2 10) (mkPtok 40 "," 7 3 28)) None (InerObjectDecl (mkSpan (mkPtok 42 "repeatCount" 4 2 10) (mkPtok 3 "}" 7 1 27)) (mkPtok 42 "repeatCount" 4 2 10) (mkPtok 2 "{" 4 13 11) [(ObjectField (mkSpan (mkPtok 36 "repeat" 4 15 12) (mkPtok 40 "," 4 37 15)) (Some (mkPtok 36 "repeat" 4 15 12)) (mkPtok 42 "lengthOf" 4 22 13) (Some (mkPtok 42 "x_y_z" 4 31 14)) None (mkPtok 40 "," 4 37 15)); (ObjectField (mkSpan (mkPtok 42 "Pad" 4 39 16) (mkPtok 40 "," 5 4 17)) None (mkPtok 42 "Pad" 4 39 16) None None (mkPtok 40 "," 5 4 17)); (ObjectField (mkSpan (mkPtok 36 "repeat" 5 6 18) (mkPtok 40 "," 6 4 21)) (Some (mkPtok 36 "repeat" 5 6 18)) (mkPtok 42 "falsey" 5 13 19) (Some (mkPtok 42 "packetx" 5 20 20)) None (mkPtok 40 "," 6 4 21)); (MetaField (mkSpan (mkPtok 15 "string" 6 6 22) (mkPtok 40 "," 7 0 26)) None (mkMetaDecl (mkSpan (mkPtok 15 "string" 6 6 22) (mkPtok 40 "," 7 0 26)) (TyDynamic (mkSpan (mkPtok 15 "string" 6 6 22) (mkPtok 15 "string" 6 6 22)) (mkDynamicString (mkSpan (mkPtok 15 "string" 6 6 22) (mkPtok 15 "string" 6 6 22)) (mkPtok 15 "string" 6 6 22))) (mkPtok 42 "rootA" 6 13 23) (Some (mkPtok 43 "``" 6 18 24)) (mkPtok 40 "," 7 0 26)))] (mkPtok 3 "}" 7 1 27)) (mkPtok 40 "," 7 3 28))); (mkFieldWithAttr (mkSpan (mkPtok 32 "@leftPad" 8 0 29) (mkPtok 40 "," 13 10 38)) [(FAPadding (mkSpan (mkPtok 32 "@leftPad" 8 0 29) (mkPtok 6 ")" 10 12 33)) (mkPaddingAttr (mkSpan (mkPtok 32 "@leftPad" 8 0 29) (mkPtok 6 ")" 10 12 33)) (mkPtok 32 "@leftPad" 8 0 29) (mkPtok 8 "(" 10 4 31) (Some (mkPtok 33 "'\x00'" 10 5 32)) (mkPtok 6 ")" 10 12 33)))] (MetaField (mkSpan (mkPtok 12 "char[" 10 13 34) (mkPtok 40 "," 13 10 38)) None (mkMetaDecl (mkSpan (mkPtok 12 "char[" 10 13 34) (mkPtok 40 "," 13 10 38)) (TyFixed (mkSpan (mkPtok 12 "char[" 10 13 34) (mkPtok 13 "]" 12 0 36)) (mkFixedString (mkSpan (mkPtok 12 "char[" 10 13 34) (mkPtok 13 "]" 12 0 36)) (mkPtok 12 "char[" 10 13 34) (mkPtok 30 "0" 11 0 35) (mkPtok 13 "]" 12 0 36))) (mkPtok 42 "roots" 13 4 37) None (mkPtok 40 "," 13 10 38)))); (mkFieldWithAttr (mkSpan (mkPtok 42 "msg_type" 13 12 39) (mkPtok 40 "," 14 0 40)) [] (ObjectField (mkSpan (mkPtok 42 "msg_type" 13 12 39) (mkPtok 40 "," 14 0 40)) None (mkPtok 42 "msg_type" 13 12 39) None None (mkPtok 40 "," 14 0 40))); (mkFieldWithAttr (mkSpan (mkPtok 42 "u128" 15 0 41) (mkPtok 40 "," 16 4 43)) [] (ObjectField (mkSpan (mkPtok 42 "u128" 15 0 41) (mkPtok 40 "," 16 4 43)) None (mkPtok 42 "u128" 15 0 41) (Some (mkPtok 42 "charz" 15 5 42)) None (mkPtok 40 "," 16 4 43))); (mkFieldWithAttr (mkSpan (mkPtok 15 "string" 17 4 44) (mkPtok 40 "," 18 4 47)) [] (MetaField (mkSpan (mkPtok 15 "string" 17 4 44) (mkPtok 40 "," 18 4 47)) None (mkMetaDecl (mkSpan (mkPtok 15 "string" 17 4 44) (mkPtok 40 "," 18 4 47)) (TyDynamic (mkSpan (mkPtok 15 "string" 17 4 44) (mkPtok 15 "string" 17 4 44)) (mkDynamicString (mkSpan (mkPtok 15 "string" 17 4 44) (mkPtok 15 "string" 17 4 44)) (mkPtok 15 "string" 17 4 44))) (mkPtok 42 "crc" 17 11 45) (Some (mkPtok 43 (string_of_bytes [96; 230; 182; 136; 230; 129; 175; 231; 177; 187; 229; 158; 139; 96]%N) 17 14 46)) (mkPtok 40 "," 18 4 47)))); (mkFieldWithAttr (mkSpan (mkPtok 38 "match" 18 6 48) (mkPtok 40 "," 27 7 75)) [] (MatchField (mkSpan (mkPtok 38 "match" 18 6 48) (mkPtok 40 "," 27 7 75)) (mkMatchFieldDecl (mkSpan (mkPtok 38 "match" 18 6 48) (mkPtok 3 "}" 27 5 74)) (mkPtok 38 "match" 18 6 48) (mkPtok 42 "Header" 18 12 49) (mkPtok 17 "as" 18 19 50) (mkPtok 42 "Packet" 18 22 51) (mkPtok 2 "{" 19 4 52) [(mkMatchPair (mkSpan (mkPtok 30 "10" 20 0 53) (mkPtok 40 "," 20 7 56)) (MKDigits (mkPtok 30 "10" 20 0 53)) (mkPtok 39 ":" 20 4 54) (mkPtok 42 "x" 20 5 55) (Some (mkPtok 40 "," 20 7 56))); (mkMatchPair (mkSpan (mkPtok 18 "[" 20 9 57) (mkPtok 40 "," 24 0 64)) (MKList (mkKeyList (mkSpan (mkPtok 18 "[" 20 9 57) (mkPtok 13 "]" 23 3 61)) (mkPtok 18 "[" 20 9 57) (mkPtok 31 """1""" 23 0 60) [] (mkPtok 13 "]" 23 3 61))) (mkPtok 39 ":" 23 5 62) (mkPtok 42 "matchKey" 23 7 63) (Some (mkPtok 40 "," 24 0 64))); (mkMatchPair (mkSpan (mkPtok 30 "10" 24 2 65) (mkPtok 42 "i64_" 26 0 68)) (MKDigits (mkPtok 30 "10" 24 2 65)) (mkPtok 39 ":" 25 0 66) (mkPtok 42 "i64_" 26 0 68) None); (mkMatchPair (mkSpan (mkPtok 30 "255" 26 5 69) (mkPtok 40 "," 27 3 73)) (MKDigits (mkPtok 30 "255" 26 5 69)) (mkPtok 39 ":" 27 0 71) (mkPtok 42 "T" 27 1 72) (Some (mkPtok 40 "," 27 3 73)))] (mkPtok 3 "}" 27 5 74)) (mkPtok 40 "," 27 7 75)))] (mkPtok 3 "}" 28 0 76))); (DPacket (mkPacketDef (mkSpan (mkPtok 35 "packet" 28 2 77) (mkPtok 3 "}" 28 13 80)) None (mkPtok 35 "packet" 28 2 77) (mkPtok 42 "o" 28 9 78) (mkPtok 2 "{" 28 11 79) [] (mkPtok 3 "}" 28 13 80)))])).
Eval vm_compute in ("<<<M465>>>" ++ check (runes_of_ascii "packet Packet {
@calculatedFrom( ""a	b"" ) int16 int
    @lengthOf(
// @lengthOf(
// packet A { u8 x, }
rootA ) ,Foo{ repeat string int
    // `tick` ""quote"" 'q'
    ,
    rootA packetx
    ,match
    uint8x as Pad{ 1	:
    // packet A { u8 x, }
    Foo , 3	:
chars , 255
:
//
// `tick` ""quote"" 'q'
charz ""x y""
: lengthOf , [
    4294967296 ,	""" ++ [233]%N ++ runes_of_ascii "t" ++ [233]%N ++ runes_of_ascii """//x
] : crc } //x
,	} //	t
,
    string
msg_type , }

")).
Eval vm_compute in ("<<<M497>>>" ++ check (@nil rune)).
Eval vm_compute in ("<<<M529>>>" ++ check (runes_of_ascii "
")).
Eval vm_compute in ("<<<M561>>>" ++ check (runes_of_ascii "
")).
Eval vm_compute in ("<<<M593>>>" ++ check (@nil rune)).
Eval vm_compute in ("<<<M625>>>" ++ check (runes_of_ascii "options { len
=""x y""; } packet // @lengthOf(
repeatCount { zchar[ // a // b
7]
f32a ,
} packet
    asx { len @calculatedFrom( ""a\\"" ) `line1
line2`
// @lengthOf(
// " ++ [27880; 37322]%N ++ runes_of_ascii "
, @lengthOf(T
    ) u8x`a\` ,@tag(3 )
    char Pad `
` ,
    char[
    4294967296 //	t
]
    metadata
    @calculatedFrom( ""CRC32"") ,	@lengthOf( Header ) u64
    uint8x// `tick` ""quote"" 'q'
@calculatedFrom(""x y""
    ) , }
// " ++ [128512]%N ++ runes_of_ascii " emoji
")).
Eval vm_compute in ("<<<M657>>>" ++ check (runes_of_ascii "MetaData BodyLength {  zchar[ 00 ]a1 ,
i64 A
`" ++ [233]%N ++ runes_of_ascii "` , int8 i8i8
`doc`
,char[ 1 ]Header
``// " ++ [128512]%N ++ runes_of_ascii " emoji
, } options
    {asx
=
false;
    T=	""CRC32""u8x
= ' '
    float =
3 } packet o /// triple
{ @rightPad( '0'
    // a // b
    ) calculatedFrom `crlf
line` ,}")).
Eval vm_compute in ("<<<T657>>>" ++ terms [mkTok 37 "MetaData" 1 0 false; mkTok 42 "BodyLength" 1 9 false; mkTok 2 "{" 1 20 false; mkTok 14 "zchar[" 1 23 false; mkTok 30 "00" 1 30 false; mkTok 13 "]" 1 33 false; mkTok 42 "a1" 1 34 false; mkTok 40 "," 1 37 false; mkTok 27 "i64" 2 0 false; mkTok 42 "A" 2 4 false; mkTok 43 (string_of_bytes [96; 195; 169; 96]%N) 3 0 false; mkTok 40 "," 3 4 false; mkTok 24 "int8" 3 6 false; mkTok 42 "i8i8" 3 11 false; mkTok 43 "`doc`" 4 0 false; mkTok 40 "," 5 0 false; mkTok 12 "char[" 5 1 false; mkTok 30 "1" 5 7 false; mkTok 13 "]" 5 9 false; mkTok 42 "Header" 5 10 false; mkTok 43 "``" 6 0 false; mkTok 44 (string_of_bytes [47; 47; 32; 240; 159; 152; 128; 32; 101; 109; 111; 106; 105]%N) 6 2 true; mkTok 40 "," 7 0 false; mkTok 3 "}" 7 2 false; mkTok 1 "options" 7 4 false; mkTok 2 "{" 8 4 false; mkTok 42 "asx" 8 5 false; mkTok 4 "=" 9 0 false; mkTok 11 "false" 10 0 false; mkTok 41 ";" 10 5 false; mkTok 42 "T" 11 4 false; mkTok 4 "=" 11 5 false; mkTok 31 """CRC32""" 11 7 false; mkTok 42 "u8x" 11 14 false; mkTok 4 "=" 12 0 false; mkTok 33 "' '" 12 2 false; mkTok 42 "float" 13 4 false; mkTok 4 "=" 13 10 false; mkTok 30 "3" 14 0 false; mkTok 3 "}" 14 2 false; mkTok 35 "packet" 14 4 false; mkTok 42 "o" 14 11 false; mkTok 44 "/// triple" 14 13 true; mkTok 2 "{" 15 0 false; mkTok 32 "@rightPad" 15 2 false; mkTok 8 "(" 15 11 false; mkTok 33 "'0'" 15 13 false; mkTok 44 "// a // b" 16 4 true; mkTok 6 ")" 17 4 false; mkTok 42 "calculatedFrom" 17 6 false; mkTok 43 (string_of_bytes [96; 99; 114; 108; 102; 13; 10; 108; 105; 110; 101; 96]%N) 17 21 false; mkTok 40 "," 18 6 false; mkTok 3 "}" 18 7 false; mkTok 0 "<EOF>" 18 8 false] (mkPacket (mkPtok 37 "MetaData" 1 0 0) (Some (mkPtok 3 "}" 18 7 52)) [(DMeta (mkMetaDef (mkSpan (mkPtok 37 "MetaData" 1 0 0) (mkPtok 3 "}" 7 2 23)) (mkPtok 37 "MetaData" 1 0 0) (mkPtok 42 "BodyLength" 1 9 1) (mkPtok 2 "{" 1 20 2) [(MIDecl (mkMetaDecl (mkSpan (mkPtok 14 "zchar[" 1 23 3) (mkPtok 40 "," 1 37 7)) (TyFixed (mkSpan (mkPtok 14 "zchar[" 1 23 3) (mkPtok 13 "]" 1 33 5)) (mkFixedString (mkSpan (mkPtok 14 "zchar[" 1 23 3) (mkPtok 13 "]" 1 33 5)) (mkPtok 14 "zchar[" 1 23 3) (mkPtok 30 "00" 1 30 4) (mkPtok 13 "]" 1 33 5))) (mkPtok 42 "a1" 1 34 6) None (mkPtok 40 "," 1 37 7))); (MIDecl (mkMetaDecl (mkSpan (mkPtok 27 "i64" 2 0 8) (mkPtok 40 "," 3 4 11)) (TyBasic (mkSpan (mkPtok 27 "i64" 2 0 8) (mkPtok 27 "i64" 2 0 8)) (mkBasicType (mkSpan (mkPtok 27 "i64" 2 0 8) (mkPtok 27 "i64" 2 0 8)) (mkPtok 27 "i64" 2 0 8))) (mkPtok 42 "A" 2 4 9) (Some (mkPtok 43 (string_of_bytes [96; 195; 169; 96]%N) 3 0 10)) (mkPtok 40 "," 3 4 11))); (MIDecl (mkMetaDecl (mkSpan (mkPtok 24 "int8" 3 6 12) (mkPtok 40 "," 5 0 15)) (TyBasic (mkSpan (mkPtok 24 "int8" 3 6 12) (mkPtok 24 "int8" 3 6 12)) (mkBasicType (mkSpan (mkPtok 24 "int8" 3 6 12) (mkPtok 24 "int8" 3 6 12)) (mkPtok 24 "int8" 3 6 12))) (mkPtok 42 "i8i8" 3 11 13) (Some (mkPtok 43 "`doc`" 4 0 14)) (mkPtok 40 "," 5 0 15))); (MIDecl (mkMetaDecl (mkSpan (mkPtok 12 "char[" 5 1 16) (mkPtok 40 "," 7 0 22)) (TyFixed (mkSpan (mkPtok 12 "char[" 5 1 16) (mkPtok 13 "]" 5 9 18)) (mkFixedString (mkSpan (mkPtok 12 "char[" 5 1 16) (mkPtok 13 "]" 5 9 18)) (mkPtok 12 "char[" 5 1 16) (mkPtok 30 "1" 5 7 17) (mkPtok 13 "]" 5 9 18))) (mkPtok 42 "Header" 5 10 19) (Some (mkPtok 43 "``" 6 0 20)) (mkPtok 40 "," 7 0 22)))] (mkPtok 3 "}" 7 2 23))); (DOption (mkOptionDef (mkSpan (mkPtok 1 "options" 7 4 24) (mkPtok 3 "}" 14 2 39)) (mkPtok 1 "options" 7 4 24) (mkPtok 2 "{" 8 4 25) [(mkOptionDecl (mkSpan (mkPtok 42 "asx" 8 5 26) (mkPtok 41 ";" 10 5 29)) (mkPtok 42 "asx" 8 5 26) (mkPtok 4 "=" 9 0 27) (VFalse (mkSpan (mkPtok 11 "false" 10 0 28) (mkPtok 11 "false" 10 0 28)) (mkPtok 11 "false" 10 0 28)) (Some (mkPtok 41 ";" 10 5 29))); (mkOptionDecl (mkSpan (mkPtok 42 "T" 11 4 30) (mkPtok 31 """CRC32""" 11 7 32)) (mkPtok 42 "T" 11 4 30) (mkPtok 4 "=" 11 5 31) (VString (mkSpan (mkPtok 31 """CRC32""" 11 7 32) (mkPtok 31 """CRC32""" 11 7 32)) (mkPtok 31 """CRC32""" 11 7 32)) None); (mkOptionDecl (mkSpan (mkPtok 42 "u8x" 11 14 33) (mkPtok 33 "' '" 12 2 35)) (mkPtok 42 "u8x" 11 14 33) (mkPtok 4 "=" 12 0 34) (VPaddingChar (mkSpan (mkPtok 33 "' '" 12 2 35) (mkPtok 33 "' '" 12 2 35)) (mkPtok 33 "' '" 12 2 35)) None); (mkOptionDecl (mkSpan (mkPtok 42 "float" 13 4 36) (mkPtok 30 "3" 14 0 38)) (mkPtok 42 "float" 13 4 36) (mkPtok 4 "=" 13 10 37) (VDigits (mkSpan (mkPtok 30 "3" 14 0 38) (mkPtok 30 "3" 14 0 38)) (mkPtok 30 "3" 14 0 38)) None)] (mkPtok 3 "}" 14 2 39))); (DPacket (mkPacketDef (mkSpan (mkPtok 35 "packet" 14 4 40) (mkPtok 3 "}" 18 7 52)) None (mkPtok 35 "packet" 14 4 40) (mkPtok 42 "o" 14 11 41) (mkPtok 2 "{" 15 0 43) [(mkFieldWithAttr (mkSpan (mkPtok 32 "@rightPad" 15 2 44) (mkPtok 40 "," 18 6 51)) [(FAPadding (mkSpan (mkPtok 32 "@rightPad" 15 2 44) (mkPtok 6 ")" 17 4 48)) (mkPaddingAttr (mkSpan (mkPtok 32 "@rightPad" 15 2 44) (mkPtok 6 ")" 17 4 48)) (mkPtok 32 "@rightPad" 15 2 44) (mkPtok 8 "(" 15 11 45) (Some (mkPtok 33 "'0'" 15 13 46)) (mkPtok 6 ")" 17 4 48)))] (ObjectField (mkSpan (mkPtok 42 "calculatedFrom" 17 6 49) (mkPtok 40 "," 18 6 51)) None (mkPtok 42 "calculatedFrom" 17 6 49) None (Some (mkPtok 43 (string_of_bytes [96; 99; 114; 108; 102; 13; 10; 108; 105; 110; 101; 96]%N) 17 21 50)) (mkPtok 40 "," 18 6 51)))] (mkPtok 3 "}" 18 7 52)))])).
Eval vm_compute in ("<<<M689>>>" ++ check (runes_of_ascii "packet
falsey { uint64 calculatedFrom@lengthOf(//	t
msg_type )
/// triple
//	t
, i16
    zchar , f32	a1 ,
    // " ++ [27880; 37322]%N ++ runes_of_ascii "
    @calculatedFrom(
""// no comment"")a1 /// triple
`say ""hi""`,
As
// " ++ [128512]%N ++ runes_of_ascii " emoji
//x
Z9_ ,
    // packet A { u8 x, }
    repeatCount @lengthOf(uint8x ) , u8 o @calculatedFrom(	""`tick`"")`say ""hi""`
,
f32
    A @lengthOf(
    //
    packetx
    // `tick` ""quote"" 'q'
    )`line1
line2` ,}	MetaData len
    {As rootA
, zchar[ 10
]
BodyLength `it's` ,
int32	crc
`
` ,
zchar
u8x
, leftPad BodyLength ,
} MetaData zchar
{options1 calculatedFrom, zchar[ 7  ]trueish
    // c
    , } // " ++ [27880; 37322]%N ++ runes_of_ascii "
root
    packet Foo { @lengthOf( i8i8 )	repeat	zchar[  255 ] u `// not a comment`
,} MetaData // " ++ [27880; 37322]%N ++ runes_of_ascii "
int
    /// triple
    { uint16 matchKey  , int16 // `tick` ""quote"" 'q'
x_y_z//
`say ""hi""` ,
leftPad Logon ,}
")).
Eval vm_compute in ("<<<M721>>>" ++ check (runes_of_ascii "packet uint8x {@lengthOf( Z9_) match A as As { 3
    : float,""x y"" :
    pack
, 255  :
    roots
    ,
    [  ""\n""]	: int
    , // " ++ [27880; 37322]%N ++ runes_of_ascii "
[ // @lengthOf(
""CRC32"" , ""1""] :
    len , } ,char[] options1`{ , }` ,	@tag(
    255  )	f32a @calculatedFrom( """ ++ [28040; 24687]%N ++ runes_of_ascii """)`// not a comment` ,match
    x as pack{ ""// no comment"" : roots //
,
    """ ++ [233]%N ++ runes_of_ascii "t" ++ [233]%N ++ runes_of_ascii """ :	asx, [ ""1"",
""abc"" , 4294967296
    , """ ++ [128512]%N ++ runes_of_ascii """  ]
    // `tick` ""quote"" 'q'
    :crc , ""{,}"" :
    // a // b
    As
00 //
: string_
    ,
}
, Logon ,
    } packet tag { // " ++ [27880; 37322]%N ++ runes_of_ascii "
@tag(00
)a1 { u8
zchar
`` , }, @rightPad ( ' '
    )o i8i8 , f64 Logon @lengthOf(options1)
    , }
    packet pack{ }
// a // b
")).
Eval vm_compute in ("<<<M753>>>" ++ check (runes_of_ascii "
")).
Eval vm_compute in ("<<<M785>>>" ++ check (runes_of_ascii "  root packet Packet{ @lengthOf( u128 ) match Foo
    as metadata{[ """ ++ [28040; 24687]%N ++ runes_of_ascii """, ""a	b"" ] :Z9_ ""packet""
: metadata	,[
    0123456789 , 10 ,
    // @lengthOf(
    ""1"" , ""1""
    /// triple
    , 4294967296	,""it's"" ,
    ""`tick`"" , ""{,}""]:
As ,
0 : repeatCount } , match rootA	as  zchar { 7
    // `tick` ""quote"" 'q'
    : // `tick` ""quote"" 'q'
Logon
    ,""a\\"" :
body""" ++ [128512]%N ++ runes_of_ascii """
: T// a // b
, [ ""1""
,
""a\\"" , 65535
    ,
""" ++ [233]%N ++ runes_of_ascii "t" ++ [233]%N ++ runes_of_ascii """ ,	""x y"" // c
, 3 // c
]
// a // b
// trailing space 
:
/// triple
// trailing space 
len // trailing space 
,""" ++ [128512]%N ++ runes_of_ascii """
: o , }  ,  @lengthOf( options1 ) A @calculatedFrom(
""a\""b"" )`" ++ [233]%N ++ runes_of_ascii "`
, /// triple
@rightPad
    ( // c
)  u64 i8i8 @calculatedFrom(""{,}"" ) `// not a comment`, repeat pack
{ char[] MetaDataX
, } , @lengthOf(
// c
// " ++ [128512]%N ++ runes_of_ascii " emoji
roots ) // packet A { u8 x, }
@lengthOf(	msg_type )
@calculatedFrom( ""// no comment"" ) char[ 3 ]
string_@lengthOf(
    pack
    ) // " ++ [27880; 37322]%N ++ runes_of_ascii "
`doc` , }
// `tick` ""quote"" 'q'
")).
Eval vm_compute in ("<<<M817>>>" ++ check (runes_of_ascii "
packet Packet {
@tag( 10 // a // b
) match trueish as x_y_z
{ ""it's"" : i8i8 ,
// " ++ [27880; 37322]%N ++ runes_of_ascii "
// " ++ [27880; 37322]%N ++ runes_of_ascii "
00: asx } , zchar[ 007] u
@calculatedFrom( ""`tick`"")`line1
line2`  ,
    /// triple
    chars @calculatedFrom( """"),
    match
    zchar
as _x
{00 : rootA
""\" ++ [233]%N ++ runes_of_ascii """: metadata
// c
// trailing space 
,	}
// a // b
//
, body
    {
    u32 u128 @calculatedFrom( ""{,}"" ) , repeat char[
    //x
    4294967296	]u `say ""hi""` ,
} // c
,
    @lengthOf(stringy
    ) float
{string//x
leftPad, repeat	uint16 Pad ,char u // @lengthOf(
, // " ++ [128512]%N ++ runes_of_ascii " emoji
i8i8 u ,
    } ,	match o as
x
    {  [ ""`tick`"" ,
""1"" , 10 ,
//
// c
1 , 00, 0 , 255] :uint8x//
, 0 : T , //
1 :trueish 1
: rootA, } // @lengthOf(
, zchar[ //	t
255 ] T`line1
line2` , @leftPad ( '0' // c
) @leftPad
( '\x00')
@tag(	007 ) match T
as
    u8x{ [ 007
]
: A , 0 :x,[ 4294967296 ] :
charz,"""" : As //
, 7
    :// `tick` ""quote"" 'q'
int ,
65535: x_y_z
,
    }, // trailing space 
} options{ /// triple
x
= '\x00' ; // packet A { u8 x, }
}
    // " ++ [128512]%N ++ runes_of_ascii " emoji
    root packet i64_ {  @tag(4294967296  ) falsey options1// `tick` ""quote"" 'q'
, uint64 Pad `doc` , @tag(
65535 )
    char
// " ++ [128512]%N ++ runes_of_ascii " emoji
/// triple
Logon @calculatedFrom(
    """"
// @lengthOf(
// c
)
    ,char[ 0 // @lengthOf(
]MetaDataX `a\` /// triple
, //
metadata f32a `tab	here` , stringy Header ,
    @leftPad () //x
@calculatedFrom(// c
""\" ++ [233]%N ++ runes_of_ascii """ ) @calculatedFrom(""" ++ [128512]%N ++ runes_of_ascii """ )
    char[] body @calculatedFrom( ""a	b"" )	`a\` , }")).
Eval vm_compute in ("<<<M849>>>" ++ check (runes_of_ascii "//
MetaData  u{uint64	string_
`doc` ,A metadata`u8 x,`
, string Logon `u8 x,` , float64 float ,
    char[] T
`crlf
line` , u8 Logon, }
")).
Eval vm_compute in ("<<<M881>>>" ++ check (runes_of_ascii "packet As {// " ++ [27880; 37322]%N ++ runes_of_ascii "
@leftPad	( '0'
    /// triple
    ) @lengthOf( i64_ )
// @lengthOf(
/// triple
@leftPad (
    '\x00' )
    calculatedFrom  f32a,
match x	as x_y_z { """"
    // c
    : body ,
007
:
o
,
    [	""{,}"" ] :As, ""\n"" : stringy ,4294967296 : roots ,	}
,	calculatedFrom ,
match
Pad as asx
    { [ """ ++ [28040; 24687]%N ++ runes_of_ascii """ , ""1"" ,""a	b"" ,  3 ,""x y""
,00
    ,
10 , ""\" ++ [233]%N ++ runes_of_ascii """ ] :Pad 65535 :x 7
:x_y_z 3 : charz,""" ++ [233]%N ++ runes_of_ascii "t" ++ [233]%N ++ runes_of_ascii """
:lengthOf
} , @calculatedFrom(
    ""{,}"" )
@calculatedFrom( ""CRC32"" ) @calculatedFrom(""a	b"" )
/// triple
// trailing space 
crc As /// triple
,calculatedFrom{
char[]	x
    ``
    , } , @rightPad// `tick` ""quote"" 'q'
(
    '\x00' )
repeat char[]
    asx /// triple
`tab	here` ,f32a
{ repeat char u
,} // `tick` ""quote"" 'q'
,
}")).
Eval vm_compute in ("<<<T881>>>" ++ terms [mkTok 35 "packet" 1 0 false; mkTok 42 "As" 1 7 false; mkTok 2 "{" 1 10 false; mkTok 44 (string_of_bytes [47; 47; 32; 230; 179; 168; 233; 135; 138]%N) 1 11 true; mkTok 32 "@leftPad" 2 0 false; mkTok 8 "(" 2 9 false; mkTok 33 "'0'" 2 11 false; mkTok 44 "/// triple" 3 4 true; mkTok 6 ")" 4 4 false; mkTok 7 "@lengthOf(" 4 6 false; mkTok 42 "i64_" 4 17 false; mkTok 6 ")" 4 22 false; mkTok 44 "// @lengthOf(" 5 0 true; mkTok 44 "/// triple" 6 0 true; mkTok 32 "@leftPad" 7 0 false; mkTok 8 "(" 7 9 false; mkTok 33 "'\x00'" 8 4 false; mkTok 6 ")" 8 11 false; mkTok 42 "calculatedFrom" 9 4 false; mkTok 42 "f32a" 9 20 false; mkTok 40 "," 9 24 false; mkTok 38 "match" 10 0 false; mkTok 42 "x" 10 6 false; mkTok 17 "as" 10 8 false; mkTok 42 "x_y_z" 10 11 false; mkTok 2 "{" 10 17 false; mkTok 31 """""" 10 19 false; mkTok 44 "// c" 11 4 true; mkTok 39 ":" 12 4 false; mkTok 42 "body" 12 6 false; mkTok 40 "," 12 11 false; mkTok 30 "007" 13 0 false; mkTok 39 ":" 14 0 false; mkTok 42 "o" 15 0 false; mkTok 40 "," 16 0 false; mkTok 18 "[" 17 4 false; mkTok 31 """{,}""" 17 6 false; mkTok 13 "]" 17 12 false; mkTok 39 ":" 17 14 false; mkTok 42 "As" 17 15 false; mkTok 40 "," 17 17 false; mkTok 31 """\n""" 17 19 false; mkTok 39 ":" 17 24 false; mkTok 42 "stringy" 17 26 false; mkTok 40 "," 17 34 false; mkTok 30 "4294967296" 17 35 false; mkTok 39 ":" 17 46 false; mkTok 42 "roots" 17 48 false; mkTok 40 "," 17 54 false; mkTok 3 "}" 17 56 false; mkTok 40 "," 18 0 false; mkTok 42 "calculatedFrom" 18 2 false; mkTok 40 "," 18 17 false; mkTok 38 "match" 19 0 false; mkTok 42 "Pad" 20 0 false; mkTok 17 "as" 20 4 false; mkTok 42 "asx" 20 7 false; mkTok 2 "{" 21 4 false; mkTok 18 "[" 21 6 false; mkTok 31 (string_of_bytes [34; 230; 182; 136; 230; 129; 175; 34]%N) 21 8 false; mkTok 40 "," 21 13 false; mkTok 31 """1""" 21 15 false; mkTok 40 "," 21 19 false; mkTok 31 (string_of_bytes [34; 97; 9; 98; 34]%N) 21 20 false; mkTok 40 "," 21 26 false; mkTok 30 "3" 21 29 false; mkTok 40 "," 21 31 false; mkTok 31 """x y""" 21 32 false; mkTok 40 "," 22 0 false; mkTok 30 "00" 22 1 false; mkTok 40 "," 23 4 false; mkTok 30 "10" 24 0 false; mkTok 40 "," 24 3 false; mkTok 31 (string_of_bytes [34; 92; 195; 169; 34]%N) 24 5 false; mkTok 13 "]" 24 10 false; mkTok 39 ":" 24 12 false; mkTok 42 "Pad" 24 13 false; mkTok 30 "65535" 24 17 false; mkTok 39 ":" 24 23 false; mkTok 42 "x" 24 24 false; mkTok 30 "7" 24 26 false; mkTok 39 ":" 25 0 false; mkTok 42 "x_y_z" 25 1 false; mkTok 30 "3" 25 7 false; mkTok 39 ":" 25 9 false; mkTok 42 "charz" 25 11 false; mkTok 40 "," 25 16 false; mkTok 31 (string_of_bytes [34; 195; 169; 116; 195; 169; 34]%N) 25 17 false; mkTok 39 ":" 26 0 false; mkTok 42 "lengthOf" 26 1 false; mkTok 3 "}" 27 0 false; mkTok 40 "," 27 2 false; mkTok 5 "@calculatedFrom(" 27 4 false; mkTok 31 """{,}""" 28 4 false; mkTok 6 ")" 28 10 false; mkTok 5 "@calculatedFrom(" 29 0 false; mkTok 31 """CRC32""" 29 17 false; mkTok 6 ")" 29 25 false; mkTok 5 "@calculatedFrom(" 29 27 false; mkTok 31 (string_of_bytes [34; 97; 9; 98; 34]%N) 29 43 false; mkTok 6 ")" 29 49 false; mkTok 44 "/// triple" 30 0 true; mkTok 44 "// trailing space " 31 0 true; mkTok 42 "crc" 32 0 false; mkTok 42 "As" 32 4 false; mkTok 44 "/// triple" 32 7 true; mkTok 40 "," 33 0 false; mkTok 42 "calculatedFrom" 33 1 false; mkTok 2 "{" 33 15 false; mkTok 16 "char[]" 34 0 false; mkTok 42 "x" 34 7 false; mkTok 43 "``" 35 4 false; mkTok 40 "," 36 4 false; mkTok 3 "}" 36 6 false; mkTok 40 "," 36 8 false; mkTok 32 "@rightPad" 36 10 false; mkTok 44 "// `tick` ""quote"" 'q'" 36 19 true; mkTok 8 "(" 37 0 false; mkTok 33 "'\x00'" 38 4 false; mkTok 6 ")" 38 11 false; mkTok 36 "repeat" 39 0 false; mkTok 16 "char[]" 39 7 false; mkTok 42 "asx" 40 4 false; mkTok 44 "/// triple" 40 8 true; mkTok 43 (string_of_bytes [96; 116; 97; 98; 9; 104; 101; 114; 101; 96]%N) 41 0 false; mkTok 40 "," 41 11 false; mkTok 42 "f32a" 41 12 false; mkTok 2 "{" 42 0 false; mkTok 36 "repeat" 42 2 false; mkTok 19 "char" 42 9 false; mkTok 42 "u" 42 14 false; mkTok 40 "," 43 0 false; mkTok 3 "}" 43 1 false; mkTok 44 "// `tick` ""quote"" 'q'" 43 3 true; mkTok 40 "," 44 0 false; mkTok 3 "}" 45 0 false; mkTok 0 "<EOF>" 45 1 false] (mkPacket (mkPtok 35 "packet" 1 0 0) (Some (mkPtok 3 "}" 45 0 135)) [(DPacket (mkPacketDef (mkSpan (mkPtok 35 "packet" 1 0 0) (mkPtok 3 "}" 45 0 135)) None (mkPtok 35 "packet" 1 0 0) (mkPtok 42 "As" 1 7 1) (mkPtok 2 "{" 1 10 2) [(mkFieldWithAttr (mkSpan (mkPtok 32 "@leftPad" 2 0 4) (mkPtok 40 "," 9 24 20)) [(FAPadding (mkSpan (mkPtok 32 "@leftPad" 2 0 4) (mkPtok 6 ")" 4 4 8)) (mkPaddingAttr (mkSpan (mkPtok 32 "@leftPad" 2 0 4) (mkPtok 6 ")" 4 4 8)) (mkPtok 32 "@leftPad" 2 0 4) (mkPtok 8 "(" 2 9 5) (Some (mkPtok 33 "'0'" 2 11 6)) (mkPtok 6 ")" 4 4 8))); (FALengthOf (mkSpan (mkPtok 7 "@lengthOf(" 4 6 9) (mkPtok 6 ")" 4 22 11)) (mkLengthOf (mkSpan (mkPtok 7 "@lengthOf(" 4 6 9) (mkPtok 6 ")" 4 22 11)) (mkPtok 7 "@lengthOf(" 4 6 9) (mkPtok 42 "i64_" 4 17 10) (mkPtok 6 ")" 4 22 11))); (FAPadding (mkSpan (mkPtok 32 "@leftPad" 7 0 14) (mkPtok 6 ")" 8 11 17)) (mkPaddingAttr (mkSpan (mkPtok 32 "@leftPad" 7 0 14) (mkPtok 6 ")" 8 11 17)) (mkPtok 32 "@leftPad" 7 0 14) (mkPtok 8 "(" 7 9 15) (Some (mkPtok 33 "'\x00'" 8 4 16)) (mkPtok 6 ")" 8 11 17)))] (ObjectField (mkSpan (mkPtok 42 "calculatedFrom" 9 4 18) (mkPtok 40 "," 9 24 20)) None (mkPtok 42 "calculatedFrom" 9 4 18) (Some (mkPtok 42 "f32a" 9 20 19)) None (mkPtok 40 "," 9 24 20))); (mkFieldWithAttr (mkSpan (mkPtok 38 "match" 10 0 21) (mkPtok 40 "," 18 0 50)) [] (MatchField (mkSpan (mkPtok 38 "match" 10 0 21) (mkPtok 40 "," 18 0 50)) (mkMatchFieldDecl (mkSpan (mkPtok 38 "match" 10 0 21) (mkPtok 3 "}" 17 56 49)) (mkPtok 38 "match" 10 0 21) (mkPtok 42 "x" 10 6 22) (mkPtok 17 "as" 10 8 23) (mkPtok 42 "x_y_z" 10 11 24) (mkPtok 2 "{" 10 17 25) [(mkMatchPair (mkSpan (mkPtok 31 """""" 10 19 26) (mkPtok 40 "," 12 11 30)) (MKString (mkPtok 31 """""" 10 19 26)) (mkPtok 39 ":" 12 4 28) (mkPtok 42 "body" 12 6 29) (Some (mkPtok 40 "," 12 11 30))); (mkMatchPair (mkSpan (mkPtok 30 "007" 13 0 31) (mkPtok 40 "," 16 0 34)) (MKDigits (mkPtok 30 "007" 13 0 31)) (mkPtok 39 ":" 14 0 32) (mkPtok 42 "o" 15 0 33) (Some (mkPtok 40 "," 16 0 34))); (mkMatchPair (mkSpan (mkPtok 18 "[" 17 4 35) (mkPtok 40 "," 17 17 40)) (MKList (mkKeyList (mkSpan (mkPtok 18 "[" 17 4 35) (mkPtok 13 "]" 17 12 37)) (mkPtok 18 "[" 17 4 35) (mkPtok 31 """{,}""" 17 6 36) [] (mkPtok 13 "]" 17 12 37))) (mkPtok 39 ":" 17 14 38) (mkPtok 42 "As" 17 15 39) (Some (mkPtok 40 "," 17 17 40))); (mkMatchPair (mkSpan (mkPtok 31 """\n""" 17 19 41) (mkPtok 40 "," 17 34 44)) (MKString (mkPtok 31 """\n""" 17 19 41)) (mkPtok 39 ":" 17 24 42) (mkPtok 42 "stringy" 17 26 43) (Some (mkPtok 40 "," 17 34 44))); (mkMatchPair (mkSpan (mkPtok 30 "4294967296" 17 35 45) (mkPtok 40 "," 17 54 48)) (MKDigits (mkPtok 30 "4294967296" 17 35 45)) (mkPtok 39 ":" 17 46 46) (mkPtok 42 "roots" 17 48 47) (Some (mkPtok 40 "," 17 54 48)))] (mkPtok 3 "}" 17 56 49)) (mkPtok 40 "," 18 0 50))); (mkFieldWithAttr (mkSpan (mkPtok 42 "calculatedFrom" 18 2 51) (mkPtok 40 "," 18 17 52)) [] (ObjectField (mkSpan (mkPtok 42 "calculatedFrom" 18 2 51) (mkPtok 40 "," 18 17 52)) None (mkPtok 42 "calculatedFrom" 18 2 51) None None (mkPtok 40 "," 18 17 52))); (mkFieldWithAttr (mkSpan (mkPtok 38 "match" 19 0 53) (mkPtok 40 "," 27 2 91)) [] (MatchField (mkSpan (mkPtok 38 "match" 19 0 53) (mkPtok 40 "," 27 2 91)) (mkMatchFieldDecl (mkSpan (mkPtok 38 "match" 19 0 53) (mkPtok 3 "}" 27 0 90)) (mkPtok 38 "match" 19 0 53) (mkPtok 42 "Pad" 20 0 54) (mkPtok 17 "as" 20 4 55) (mkPtok 42 "asx" 20 7 56) (mkPtok 2 "{" 21 4 57) [(mkMatchPair (mkSpan (mkPtok 18 "[" 21 6 58) (mkPtok 42 "Pad" 24 13 76)) (MKList (mkKeyList (mkSpan (mkPtok 18 "[" 21 6 58) (mkPtok 13 "]" 24 10 74)) (mkPtok 18 "[" 21 6 58) (mkPtok 31 (string_of_bytes [34; 230; 182; 136; 230; 129; 175; 34]%N) 21 8 59) [((mkPtok 40 "," 21 13 60), (mkPtok 31 """1""" 21 15 61)); ((mkPtok 40 "," 21 19 62), (mkPtok 31 (string_of_bytes [34; 97; 9; 98; 34]%N) 21 20 63)); ((mkPtok 40 "," 21 26 64), (mkPtok 30 "3" 21 29 65)); ((mkPtok 40 "," 21 31 66), (mkPtok 31 """x y""" 21 32 67)); ((mkPtok 40 "," 22 0 68), (mkPtok 30 "00" 22 1 69)); ((mkPtok 40 "," 23 4 70), (mkPtok 30 "10" 24 0 71)); ((mkPtok 40 "," 24 3 72), (mkPtok 31 (string_of_bytes [34; 92; 195; 169; 34]%N) 24 5 73))] (mkPtok 13 "]" 24 10 74))) (mkPtok 39 ":" 24 12 75) (mkPtok 42 "Pad" 24 13 76) None); (mkMatchPair (mkSpan (mkPtok 30 "65535" 24 17 77) (mkPtok 42 "x" 24 24 79)) (MKDigits (mkPtok 30 "65535" 24 17 77)) (mkPtok 39 ":" 24 23 78) (mkPtok 42 "x" 24 24 79) None); (mkMatchPair (mkSpan (mkPtok 30 "7" 24 26 80) (mkPtok 42 "x_y_z" 25 1 82)) (MKDigits (mkPtok 30 "7" 24 26 80)) (mkPtok 39 ":" 25 0 81) (mkPtok 42 "x_y_z" 25 1 82) None); (mkMatchPair (mkSpan (mkPtok 30 "3" 25 7 83) (mkPtok 40 "," 25 16 86)) (MKDigits (mkPtok 30 "3" 25 7 83)) (mkPtok 39 ":" 25 9 84) (mkPtok 42 "charz" 25 11 85) (Some (mkPtok 40 "," 25 16 86))); (mkMatchPair (mkSpan (mkPtok 31 (string_of_bytes [34; 195; 169; 116; 195; 169; 34]%N) 25 17 87) (mkPtok 42 "lengthOf" 26 1 89)) (MKString (mkPtok 31 (string_of_bytes [34; 195; 169; 116; 195; 169; 34]%N) 25 17 87)) (mkPtok 39 ":" 26 0 88) (mkPtok 42 "lengthOf" 26 1 89) None)] (mkPtok 3 "}" 27 0 90)) (mkPtok 40 "," 27 2 91))); (mkFieldWithAttr (mkSpan (mkPtok 5 "@calculatedFrom(" 27 4 92) (mkPtok 40 "," 33 0 106)) [(FACalculatedFrom (mkSpan (mkPtok 5 "@calculatedFrom(" 27 4 92) (mkPtok 6 ")" 28 10 94)) (mkCalculatedFrom (mkSpan (mkPtok 5 "@calculatedFrom(" 27 4 92) (mkPtok 6 ")" 28 10 94)) (mkPtok 5 "@calculatedFrom(" 27 4 92) (mkPtok 31 """{,}""" 28 4 93) (mkPtok 6 ")" 28 10 94))); (FACalculatedFrom (mkSpan (mkPtok 5 "@calculatedFrom(" 29 0 95) (mkPtok 6 ")" 29 25 97)) (mkCalculatedFrom (mkSpan (mkPtok 5 "@calculatedFrom(" 29 0 95) (mkPtok 6 ")" 29 25 97)) (mkPtok 5 "@calculatedFrom(" 29 0 95) (mkPtok 31 """CRC32""" 29 17 96) (mkPtok 6 ")" 29 25 97))); (FACalculatedFrom (mkSpan (mkPtok 5 "@calculatedFrom(" 29 27 98) (mkPtok 6 ")" 29 49 100)) (mkCalculatedFrom (mkSpan (mkPtok 5 "@calculatedFrom(" 29 27 98) (mkPtok 6 ")" 29 49 100)) (mkPtok 5 "@calculatedFrom(" 29 27 98) (mkPtok 31 (string_of_bytes [34; 97; 9; 98; 34]%N) 29 43 99) (mkPtok 6 ")" 29 49 100)))] (ObjectField (mkSpan (mkPtok 42 "crc" 32 0 103) (mkPtok 40 "," 33 0 106)) None (mkPtok 42 "crc" 32 0 103) (Some (mkPtok 42 "As" 32 4 104)) None (mkPtok 40 "," 33 0 106))); (mkFieldWithAttr (mkSpan (mkPtok 42 "calculatedFrom" 33 1 107) (mkPtok 40 "," 36 8 114)) [] (InerObjectField (mkSpan (mkPtok 42 "calculatedFrom" 33 1 107) (mkPtok 40 "," 36 8 114)) None (InerObjectDecl (mkSpan (mkPtok 42 "calculatedFrom" 33 1 107) (mkPtok 3 "}" 36 6 113)) (mkPtok 42 "calculatedFrom" 33 1 107) (mkPtok 2 "{" 33 15 108) [(MetaField (mkSpan (mkPtok 16 "char[]" 34 0 109) (mkPtok 40 "," 36 4 112)) None (mkMetaDecl (mkSpan (mkPtok 16 "char[]" 34 0 109) (mkPtok 40 "," 36 4 112)) (TyDynamic (mkSpan (mkPtok 16 "char[]" 34 0 109) (mkPtok 16 "char[]" 34 0 109)) (mkDynamicString (mkSpan (mkPtok 16 "char[]" 34 0 109) (mkPtok 16 "char[]" 34 0 109)) (mkPtok 16 "char[]" 34 0 109))) (mkPtok 42 "x" 34 7 110) (Some (mkPtok 43 "``" 35 4 111)) (mkPtok 40 "," 36 4 112)))] (mkPtok 3 "}" 36 6 113)) (mkPtok 40 "," 36 8 114))); (mkFieldWithAttr (mkSpan (mkPtok 32 "@rightPad" 36 10 115) (mkPtok 40 "," 41 11 125)) [(FAPadding (mkSpan (mkPtok 32 "@rightPad" 36 10 115) (mkPtok 6 ")" 38 11 119)) (mkPaddingAttr (mkSpan (mkPtok 32 "@rightPad" 36 10 115) (mkPtok 6 ")" 38 11 119)) (mkPtok 32 "@rightPad" 36 10 115) (mkPtok 8 "(" 37 0 117) (Some (mkPtok 33 "'\x00'" 38 4 118)) (mkPtok 6 ")" 38 11 119)))] (MetaField (mkSpan (mkPtok 36 "repeat" 39 0 120) (mkPtok 40 "," 41 11 125)) (Some (mkPtok 36 "repeat" 39 0 120)) (mkMetaDecl (mkSpan (mkPtok 16 "char[]" 39 7 121) (mkPtok 40 "," 41 11 125)) (TyDynamic (mkSpan (mkPtok 16 "char[]" 39 7 121) (mkPtok 16 "char[]" 39 7 121)) (mkDynamicString (mkSpan (mkPtok 16 "char[]" 39 7 121) (mkPtok 16 "char[]" 39 7 121)) (mkPtok 16 "char[]" 39 7 121))) (mkPtok 42 "asx" 40 4 122) (Some (mkPtok 43 (string_of_bytes [96; 116; 97; 98; 9; 104; 101; 114; 101; 96]%N) 41 0 124)) (mkPtok 40 "," 41 11 125)))); (mkFieldWithAttr (mkSpan (mkPtok 42 "f32a" 41 12 126) (mkPtok 40 "," 44 0 134)) [] (InerObjectField (mkSpan (mkPtok 42 "f32a" 41 12 126) (mkPtok 40 "," 44 0 134)) None (InerObjectDecl (mkSpan (mkPtok 42 "f32a" 41 12 126) (mkPtok 3 "}" 43 1 132)) (mkPtok 42 "f32a" 41 12 126) (mkPtok 2 "{" 42 0 127) [(MetaField (mkSpan (mkPtok 36 "repeat" 42 2 128) (mkPtok 40 "," 43 0 131)) (Some (mkPtok 36 "repeat" 42 2 128)) (mkMetaDecl (mkSpan (mkPtok 19 "char" 42 9 129) (mkPtok 40 "," 43 0 131)) (TyBasic (mkSpan (mkPtok 19 "char" 42 9 129) (mkPtok 19 "char" 42 9 129)) (mkBasicType (mkSpan (mkPtok 19 "char" 42 9 129) (mkPtok 19 "char" 42 9 129)) (mkPtok 19 "char" 42 9 129))) (mkPtok 42 "u" 42 14 130) None (mkPtok 40 "," 43 0 131)))] (mkPtok 3 "}" 43 1 132)) (mkPtok 40 "," 44 0 134)))] (mkPtok 3 "}" 45 0 135)))])).
Eval vm_compute in ("<<<M913>>>" ++ check (runes_of_ascii "MetaData calculatedFrom{
// @lengthOf(
// a // b
string Packet // a // b
,
zchar[
    42
    ] msg_type , char[
    3] u128
, i16 f32a , }

")).
Eval vm_compute in ("<<<M945>>>" ++ check (runes_of_ascii "packet// " ++ [27880; 37322]%N ++ runes_of_ascii "
pack {
    //	t
    repeat zchar As
    , i16 roots ,
    }")).
Eval vm_compute in ("<<<M977>>>" ++ check (runes_of_ascii "
packet rootA
    {
}")).
Eval vm_compute in ("<<<M1009>>>" ++ check (runes_of_ascii "MetaData
Logon {
    string_ MetaDataX
`
` ,}root packet Pad
{ asx
@lengthOf(BodyLength )
,
}
    packet
Pad {
@calculatedFrom( ""a	b""
) zchar[ 7]x	`a\` , @lengthOf(msg_type
// " ++ [27880; 37322]%N ++ runes_of_ascii "
// trailing space 
) int32 Logon  @lengthOf(u128//	t
)
`two words`,	@lengthOf(asx)
match o
    as
    asx {1 : crc , 00:f32a, }
    ,
char[ 1
    ]
leftPad @lengthOf(
    string_ ) `
` , f32
    // a // b
    trueish @calculatedFrom(//x
"""" )``
    // " ++ [128512]%N ++ runes_of_ascii " emoji
    ,As ,
x_y_z
{ match	Packet as int { 007: x , // packet A { u8 x, }
""" ++ [28040; 24687]%N ++ runes_of_ascii """  :
    options1 , ""packet""
:// packet A { u8 x, }
repeatCount ""\n"" :
x
, }
    //
    ,char[]
    i8i8 @lengthOf( x_y_z )
`two words` ,match crc as
x_y_z{""CRC32"" : Z9_, } , packetx ,
} ,
repeat
    char[0
// packet A { u8 x, }
// `tick` ""quote"" 'q'
] asx , @calculatedFrom(
""1"" ) char[
00 ] float,repeat i32 msg_type	,
} packet x_y_z { // `tick` ""quote"" 'q'
@calculatedFrom(
    ""a\\"")
    @calculatedFrom( ""packet""  ) uint8x @calculatedFrom( """" ) ,
    //	t
    @lengthOf( x )	u8x x, @calculatedFrom(
    ""a	b"" ) int16 pack
// packet A { u8 x, }
//x
, match  Pad as
T
//	t
// @lengthOf(
{
    [ 00 ] : leftPad ,
    ""CRC32""
    : body	, //x
3 :
    zchar
1:  u8x  7 : options1	,
4294967296 :falsey
    /// triple
    , } , }
    packet T {
    zchar[
65535 ]//x
roots ,
    int x`crlf
line`
,@lengthOf( //	t
int)charz {	i64_
    `" ++ [28040; 24687; 31867; 22411]%N ++ runes_of_ascii "` ,zchar[
    // `tick` ""quote"" 'q'
    42 ]
    len
    // @lengthOf(
    @calculatedFrom( // " ++ [128512]%N ++ runes_of_ascii " emoji
""" ++ [233]%N ++ runes_of_ascii "t" ++ [233]%N ++ runes_of_ascii """ ),	repeat
i8 o , // " ++ [27880; 37322]%N ++ runes_of_ascii "
char[0 ] // a // b
options1`doc` , } ,
@lengthOf( roots ) string
Header, }")).
Eval vm_compute in ("<<<M1041>>>" ++ check (runes_of_ascii "options { }
")).
Eval vm_compute in ("<<<M1073>>>" ++ check (runes_of_ascii "options
{ Header
    // c
    =""a	b"" ;  } // a // b")).
Eval vm_compute in ("<<<M1105>>>" ++ check (runes_of_ascii "/// triple
packet string_{ repeat As
u128 ,
    @lengthOf( Header  ) i8i8@lengthOf(len )`" ++ [28040; 24687; 31867; 22411]%N ++ runes_of_ascii "` , uint8x { match i8i8
as// trailing space 
msg_type
{ 65535 :
    Foo	, [ ""abc"" ,	00 ,
    ""// no comment"" ,0 ,0123456789,
    ""// no comment"" ]
// `tick` ""quote"" 'q'
// " ++ [128512]%N ++ runes_of_ascii " emoji
:	int,
""" ++ [128512]%N ++ runes_of_ascii """ : u8x , ""x y"" :x_y_z , 7
    :
len , 42 : As // c
, } , } , @tag(
    4294967296
// packet A { u8 x, }
// packet A { u8 x, }
)zchar[
    255
] repeatCount , repeat int16 x ,u16 Foo `two words` ,repeat char[42 ] f32a ,string msg_type
    /// triple
    , @rightPad  (
    ' ' ) Z9_@calculatedFrom(//
""it's""	)  ,} packet stringy// packet A { u8 x, }
{
    // `tick` ""quote"" 'q'
    float32 metadata ,}
packet// @lengthOf(
body{match leftPad
as
falsey { """ ++ [233]%N ++ runes_of_ascii "t" ++ [233]%N ++ runes_of_ascii """ :	len  ,
} ,
    // trailing space 
    @calculatedFrom( ""CRC32""
    ) f32a { uint32 body @lengthOf(
    Z9_ ) /// triple
`line1
line2` ,
    // @lengthOf(
    f64 u `line1
line2`, trueish @lengthOf( rootA )
    ,char[ 255
    ]	u@calculatedFrom( ""a	b""
// `tick` ""quote"" 'q'
// @lengthOf(
) ,
} , @tag(  42 )
options1  a1
    //
    ,
    char[]	Z9_	@calculatedFrom( ""\n""// c
) , }
//
")).
Eval vm_compute in ("<<<T1105>>>" ++ terms [mkTok 44 "/// triple" 1 0 true; mkTok 35 "packet" 2 0 false; mkTok 42 "string_" 2 7 false; mkTok 2 "{" 2 14 false; mkTok 36 "repeat" 2 16 false; mkTok 42 "As" 2 23 false; mkTok 42 "u128" 3 0 false; mkTok 40 "," 3 5 false; mkTok 7 "@lengthOf(" 4 4 false; mkTok 42 "Header" 4 15 false; mkTok 6 ")" 4 23 false; mkTok 42 "i8i8" 4 25 false; mkTok 7 "@lengthOf(" 4 29 false; mkTok 42 "len" 4 39 false; mkTok 6 ")" 4 43 false; mkTok 43 (string_of_bytes [96; 230; 182; 136; 230; 129; 175; 231; 177; 187; 229; 158; 139; 96]%N) 4 44 false; mkTok 40 "," 4 51 false; mkTok 42 "uint8x" 4 53 false; mkTok 2 "{" 4 60 false; mkTok 38 "match" 4 62 false; mkTok 42 "i8i8" 4 68 false; mkTok 17 "as" 5 0 false; mkTok 44 "// trailing space " 5 2 true; mkTok 42 "msg_type" 6 0 false; mkTok 2 "{" 7 0 false; mkTok 30 "65535" 7 2 false; mkTok 39 ":" 7 8 false; mkTok 42 "Foo" 8 4 false; mkTok 40 "," 8 8 false; mkTok 18 "[" 8 10 false; mkTok 31 """abc""" 8 12 false; mkTok 40 "," 8 18 false; mkTok 30 "00" 8 20 false; mkTok 40 "," 8 23 false; mkTok 31 """// no comment""" 9 4 false; mkTok 40 "," 9 20 false; mkTok 30 "0" 9 21 false; mkTok 40 "," 9 23 false; mkTok 30 "0123456789" 9 24 false; mkTok 40 "," 9 34 false; mkTok 31 """// no comment""" 10 4 false; mkTok 13 "]" 10 20 false; mkTok 44 "// `tick` ""quote"" 'q'" 11 0 true; mkTok 44 (string_of_bytes [47; 47; 32; 240; 159; 152; 128; 32; 101; 109; 111; 106; 105]%N) 12 0 true; mkTok 39 ":" 13 0 false; mkTok 42 "int" 13 2 false; mkTok 40 "," 13 5 false; mkTok 31 (string_of_bytes [34; 240; 159; 152; 128; 34]%N) 14 0 false; mkTok 39 ":" 14 4 false; mkTok 42 "u8x" 14 6 false; mkTok 40 "," 14 10 false; mkTok 31 """x y""" 14 12 false; mkTok 39 ":" 14 18 false; mkTok 42 "x_y_z" 14 19 false; mkTok 40 "," 14 25 false; mkTok 30 "7" 14 27 false; mkTok 39 ":" 15 4 false; mkTok 42 "len" 16 0 false; mkTok 40 "," 16 4 false; mkTok 30 "42" 16 6 false; mkTok 39 ":" 16 9 false; mkTok 42 "As" 16 11 false; mkTok 44 "// c" 16 14 true; mkTok 40 "," 17 0 false; mkTok 3 "}" 17 2 false; mkTok 40 "," 17 4 false; mkTok 3 "}" 17 6 false; mkTok 40 "," 17 8 false; mkTok 9 "@tag(" 17 10 false; mkTok 30 "4294967296" 18 4 false; mkTok 44 "// packet A { u8 x, }" 19 0 true; mkTok 44 "// packet A { u8 x, }" 20 0 true; mkTok 6 ")" 21 0 false; mkTok 14 "zchar[" 21 1 false; mkTok 30 "255" 22 4 false; mkTok 13 "]" 23 0 false; mkTok 42 "repeatCount" 23 2 false; mkTok 40 "," 23 14 false; mkTok 36 "repeat" 23 16 false; mkTok 25 "int16" 23 23 false; mkTok 42 "x" 23 29 false; mkTok 40 "," 23 31 false; mkTok 21 "u16" 23 32 false; mkTok 42 "Foo" 23 36 false; mkTok 43 "`two words`" 23 40 false; mkTok 40 "," 23 52 false; mkTok 36 "repeat" 23 53 false; mkTok 12 "char[" 23 60 false; mkTok 30 "42" 23 65 false; mkTok 13 "]" 23 68 false; mkTok 42 "f32a" 23 70 false; mkTok 40 "," 23 75 false; mkTok 15 "string" 23 76 false; mkTok 42 "msg_type" 23 83 false; mkTok 44 "/// triple" 24 4 true; mkTok 40 "," 25 4 false; mkTok 32 "@rightPad" 25 6 false; mkTok 8 "(" 25 17 false; mkTok 33 "' '" 26 4 false; mkTok 6 ")" 26 8 false; mkTok 42 "Z9_" 26 10 false; mkTok 5 "@calculatedFrom(" 26 13 false; mkTok 44 "//" 26 29 true; mkTok 31 """it's""" 27 0 false; mkTok 6 ")" 27 7 false; mkTok 40 "," 27 10 false; mkTok 3 "}" 27 11 false; mkTok 35 "packet" 27 13 false; mkTok 42 "stringy" 27 20 false; mkTok 44 "// packet A { u8 x, }" 27 27 true; mkTok 2 "{" 28 0 false; mkTok 44 "// `tick` ""quote"" 'q'" 29 4 true; mkTok 28 "float32" 30 4 false; mkTok 42 "metadata" 30 12 false; mkTok 40 "," 30 21 false; mkTok 3 "}" 30 22 false; mkTok 35 "packet" 31 0 false; mkTok 44 "// @lengthOf(" 31 6 true; mkTok 42 "body" 32 0 false; mkTok 2 "{" 32 4 false; mkTok 38 "match" 32 5 false; mkTok 42 "leftPad" 32 11 false; mkTok 17 "as" 33 0 false; mkTok 42 "falsey" 34 0 false; mkTok 2 "{" 34 7 false; mkTok 31 (string_of_bytes [34; 195; 169; 116; 195; 169; 34]%N) 34 9 false; mkTok 39 ":" 34 15 false; mkTok 42 "len" 34 17 false; mkTok 40 "," 34 22 false; mkTok 3 "}" 35 0 false; mkTok 40 "," 35 2 false; mkTok 44 "// trailing space " 36 4 true; mkTok 5 "@calculatedFrom(" 37 4 false; mkTok 31 """CRC32""" 37 21 false; mkTok 6 ")" 38 4 false; mkTok 42 "f32a" 38 6 false; mkTok 2 "{" 38 11 false; mkTok 22 "uint32" 38 13 false; mkTok 42 "body" 38 20 false; mkTok 7 "@lengthOf(" 38 25 false; mkTok 42 "Z9_" 39 4 false; mkTok 6 ")" 39 8 false; mkTok 44 "/// triple" 39 10 true; mkTok 43 (string_of_bytes [96; 108; 105; 110; 101; 49; 10; 108; 105; 110; 101; 50; 96]%N) 40 0 false; mkTok 40 "," 41 7 false; mkTok 44 "// @lengthOf(" 42 4 true; mkTok 29 "f64" 43 4 false; mkTok 42 "u" 43 8 false; mkTok 43 (string_of_bytes [96; 108; 105; 110; 101; 49; 10; 108; 105; 110; 101; 50; 96]%N) 43 10 false; mkTok 40 "," 44 6 false; mkTok 42 "trueish" 44 8 false; mkTok 7 "@lengthOf(" 44 16 false; mkTok 42 "rootA" 44 27 false; mkTok 6 ")" 44 33 false; mkTok 40 "," 45 4 false; mkTok 12 "char[" 45 5 false; mkTok 30 "255" 45 11 false; mkTok 13 "]" 46 4 false; mkTok 42 "u" 46 6 false; mkTok 5 "@calculatedFrom(" 46 7 false; mkTok 31 (string_of_bytes [34; 97; 9; 98; 34]%N) 46 24 false; mkTok 44 "// `tick` ""quote"" 'q'" 47 0 true; mkTok 44 "// @lengthOf(" 48 0 true; mkTok 6 ")" 49 0 false; mkTok 40 "," 49 2 false; mkTok 3 "}" 50 0 false; mkTok 40 "," 50 2 false; mkTok 9 "@tag(" 50 4 false; mkTok 30 "42" 50 11 false; mkTok 6 ")" 50 14 false; mkTok 42 "options1" 51 0 false; mkTok 42 "a1" 51 10 false; mkTok 44 "//" 52 4 true; mkTok 40 "," 53 4 false; mkTok 16 "char[]" 54 4 false; mkTok 42 "Z9_" 54 11 false; mkTok 5 "@calculatedFrom(" 54 15 false; mkTok 31 """\n""" 54 32 false; mkTok 44 "// c" 54 36 true; mkTok 6 ")" 55 0 false; mkTok 40 "," 55 2 false; mkTok 3 "}" 55 4 false; mkTok 44 "//" 56 0 true; mkTok 0 "<EOF>" 57 0 false] (mkPacket (mkPtok 35 "packet" 2 0 1) (Some (mkPtok 3 "}" 55 4 181)) [(DPacket (mkPacketDef (mkSpan (mkPtok 35 "packet" 2 0 1) (mkPtok 3 "}" 27 11 106)) None (mkPtok 35 "packet" 2 0 1) (mkPtok 42 "string_" 2 7 2) (mkPtok 2 "{" 2 14 3) [(mkFieldWithAttr (mkSpan (mkPtok 36 "repeat" 2 16 4) (mkPtok 40 "," 3 5 7)) [] (ObjectField (mkSpan (mkPtok 36 "repeat" 2 16 4) (mkPtok 40 "," 3 5 7)) (Some (mkPtok 36 "repeat" 2 16 4)) (mkPtok 42 "As" 2 23 5) (Some (mkPtok 42 "u128" 3 0 6)) None (mkPtok 40 "," 3 5 7))); (mkFieldWithAttr (mkSpan (mkPtok 7 "@lengthOf(" 4 4 8) (mkPtok 40 "," 4 51 16)) [(FALengthOf (mkSpan (mkPtok 7 "@lengthOf(" 4 4 8) (mkPtok 6 ")" 4 23 10)) (mkLengthOf (mkSpan (mkPtok 7 "@lengthOf(" 4 4 8) (mkPtok 6 ")" 4 23 10)) (mkPtok 7 "@lengthOf(" 4 4 8) (mkPtok 42 "Header" 4 15 9) (mkPtok 6 ")" 4 23 10)))] (LengthField (mkSpan (mkPtok 42 "i8i8" 4 25 11) (mkPtok 40 "," 4 51 16)) (mkLengthFieldDecl (mkSpan (mkPtok 42 "i8i8" 4 25 11) (mkPtok 40 "," 4 51 16)) None (mkPtok 42 "i8i8" 4 25 11) (mkLengthOf (mkSpan (mkPtok 7 "@lengthOf(" 4 29 12) (mkPtok 6 ")" 4 43 14)) (mkPtok 7 "@lengthOf(" 4 29 12) (mkPtok 42 "len" 4 39 13) (mkPtok 6 ")" 4 43 14)) (Some (mkPtok 43 (string_of_bytes [96; 230; 182; 136; 230; 129; 175; 231; 177; 187; 229; 158; 139; 96]%N) 4 44 15)) (mkPtok 40 "," 4 51 16)))); (mkFieldWithAttr (mkSpan (mkPtok 42 "uint8x" 4 53 17) (mkPtok 40 "," 17 8 67)) [] (InerObjectField (mkSpan (mkPtok 42 "uint8x" 4 53 17) (mkPtok 40 "," 17 8 67)) None (InerObjectDecl (mkSpan (mkPtok 42 "uint8x" 4 53 17) (mkPtok 3 "}" 17 6 66)) (mkPtok 42 "uint8x" 4 53 17) (mkPtok 2 "{" 4 60 18) [(MatchField (mkSpan (mkPtok 38 "match" 4 62 19) (mkPtok 40 "," 17 4 65)) (mkMatchFieldDecl (mkSpan (mkPtok 38 "match" 4 62 19) (mkPtok 3 "}" 17 2 64)) (mkPtok 38 "match" 4 62 19) (mkPtok 42 "i8i8" 4 68 20) (mkPtok 17 "as" 5 0 21) (mkPtok 42 "msg_type" 6 0 23) (mkPtok 2 "{" 7 0 24) [(mkMatchPair (mkSpan (mkPtok 30 "65535" 7 2 25) (mkPtok 40 "," 8 8 28)) (MKDigits (mkPtok 30 "65535" 7 2 25)) (mkPtok 39 ":" 7 8 26) (mkPtok 42 "Foo" 8 4 27) (Some (mkPtok 40 "," 8 8 28))); (mkMatchPair (mkSpan (mkPtok 18 "[" 8 10 29) (mkPtok 40 "," 13 5 46)) (MKList (mkKeyList (mkSpan (mkPtok 18 "[" 8 10 29) (mkPtok 13 "]" 10 20 41)) (mkPtok 18 "[" 8 10 29) (mkPtok 31 """abc""" 8 12 30) [((mkPtok 40 "," 8 18 31), (mkPtok 30 "00" 8 20 32)); ((mkPtok 40 "," 8 23 33), (mkPtok 31 """// no comment""" 9 4 34)); ((mkPtok 40 "," 9 20 35), (mkPtok 30 "0" 9 21 36)); ((mkPtok 40 "," 9 23 37), (mkPtok 30 "0123456789" 9 24 38)); ((mkPtok 40 "," 9 34 39), (mkPtok 31 """// no comment""" 10 4 40))] (mkPtok 13 "]" 10 20 41))) (mkPtok 39 ":" 13 0 44) (mkPtok 42 "int" 13 2 45) (Some (mkPtok 40 "," 13 5 46))); (mkMatchPair (mkSpan (mkPtok 31 (string_of_bytes [34; 240; 159; 152; 128; 34]%N) 14 0 47) (mkPtok 40 "," 14 10 50)) (MKString (mkPtok 31 (string_of_bytes [34; 240; 159; 152; 128; 34]%N) 14 0 47)) (mkPtok 39 ":" 14 4 48) (mkPtok 42 "u8x" 14 6 49) (Some (mkPtok 40 "," 14 10 50))); (mkMatchPair (mkSpan (mkPtok 31 """x y""" 14 12 51) (mkPtok 40 "," 14 25 54)) (MKString (mkPtok 31 """x y""" 14 12 51)) (mkPtok 39 ":" 14 18 52) (mkPtok 42 "x_y_z" 14 19 53) (Some (mkPtok 40 "," 14 25 54))); (mkMatchPair (mkSpan (mkPtok 30 "7" 14 27 55) (mkPtok 40 "," 16 4 58)) (MKDigits (mkPtok 30 "7" 14 27 55)) (mkPtok 39 ":" 15 4 56) (mkPtok 42 "len" 16 0 57) (Some (mkPtok 40 "," 16 4 58))); (mkMatchPair (mkSpan (mkPtok 30 "42" 16 6 59) (mkPtok 40 "," 17 0 63)) (MKDigits (mkPtok 30 "42" 16 6 59)) (mkPtok 39 ":" 16 9 60) (mkPtok 42 "As" 16 11 61) (Some (mkPtok 40 "," 17 0 63)))] (mkPtok 3 "}" 17 2 64)) (mkPtok 40 "," 17 4 65))] (mkPtok 3 "}" 17 6 66)) (mkPtok 40 "," 17 8 67))); (mkFieldWithAttr (mkSpan (mkPtok 9 "@tag(" 17 10 68) (mkPtok 40 "," 23 14 77)) [(FATag (mkSpan (mkPtok 9 "@tag(" 17 10 68) (mkPtok 6 ")" 21 0 72)) (mkTagAttr (mkSpan (mkPtok 9 "@tag(" 17 10 68) (mkPtok 6 ")" 21 0 72)) (mkPtok 9 "@tag(" 17 10 68) (mkPtok 30 "4294967296" 18 4 69) (mkPtok 6 ")" 21 0 72)))] (MetaField (mkSpan (mkPtok 14 "zchar[" 21 1 73) (mkPtok 40 "," 23 14 77)) None (mkMetaDecl (mkSpan (mkPtok 14 "zchar[" 21 1 73) (mkPtok 40 "," 23 14 77)) (TyFixed (mkSpan (mkPtok 14 "zchar[" 21 1 73) (mkPtok 13 "]" 23 0 75)) (mkFixedString (mkSpan (mkPtok 14 "zchar[" 21 1 73) (mkPtok 13 "]" 23 0 75)) (mkPtok 14 "zchar[" 21 1 73) (mkPtok 30 "255" 22 4 74) (mkPtok 13 "]" 23 0 75))) (mkPtok 42 "repeatCount" 23 2 76) None (mkPtok 40 "," 23 14 77)))); (mkFieldWithAttr (mkSpan (mkPtok 36 "repeat" 23 16 78) (mkPtok 40 "," 23 31 81)) [] (MetaField (mkSpan (mkPtok 36 "repeat" 23 16 78) (mkPtok 40 "," 23 31 81)) (Some (mkPtok 36 "repeat" 23 16 78)) (mkMetaDecl (mkSpan (mkPtok 25 "int16" 23 23 79) (mkPtok 40 "," 23 31 81)) (TyBasic (mkSpan (mkPtok 25 "int16" 23 23 79) (mkPtok 25 "int16" 23 23 79)) (mkBasicType (mkSpan (mkPtok 25 "int16" 23 23 79) (mkPtok 25 "int16" 23 23 79)) (mkPtok 25 "int16" 23 23 79))) (mkPtok 42 "x" 23 29 80) None (mkPtok 40 "," 23 31 81)))); (mkFieldWithAttr (mkSpan (mkPtok 21 "u16" 23 32 82) (mkPtok 40 "," 23 52 85)) [] (MetaField (mkSpan (mkPtok 21 "u16" 23 32 82) (mkPtok 40 "," 23 52 85)) None (mkMetaDecl (mkSpan (mkPtok 21 "u16" 23 32 82) (mkPtok 40 "," 23 52 85)) (TyBasic (mkSpan (mkPtok 21 "u16" 23 32 82) (mkPtok 21 "u16" 23 32 82)) (mkBasicType (mkSpan (mkPtok 21 "u16" 23 32 82) (mkPtok 21 "u16" 23 32 82)) (mkPtok 21 "u16" 23 32 82))) (mkPtok 42 "Foo" 23 36 83) (Some (mkPtok 43 "`two words`" 23 40 84)) (mkPtok 40 "," 23 52 85)))); (mkFieldWithAttr (mkSpan (mkPtok 36 "repeat" 23 53 86) (mkPtok 40 "," 23 75 91)) [] (MetaField (mkSpan (mkPtok 36 "repeat" 23 53 86) (mkPtok 40 "," 23 75 91)) (Some (mkPtok 36 "repeat" 23 53 86)) (mkMetaDecl (mkSpan (mkPtok 12 "char[" 23 60 87) (mkPtok 40 "," 23 75 91)) (TyFixed (mkSpan (mkPtok 12 "char[" 23 60 87) (mkPtok 13 "]" 23 68 89)) (mkFixedString (mkSpan (mkPtok 12 "char[" 23 60 87) (mkPtok 13 "]" 23 68 89)) (mkPtok 12 "char[" 23 60 87) (mkPtok 30 "42" 23 65 88) (mkPtok 13 "]" 23 68 89))) (mkPtok 42 "f32a" 23 70 90) None (mkPtok 40 "," 23 75 91)))); (mkFieldWithAttr (mkSpan (mkPtok 15 "string" 23 76 92) (mkPtok 40 "," 25 4 95)) [] (MetaField (mkSpan (mkPtok 15 "string" 23 76 92) (mkPtok 40 "," 25 4 95)) None (mkMetaDecl (mkSpan (mkPtok 15 "string" 23 76 92) (mkPtok 40 "," 25 4 95)) (TyDynamic (mkSpan (mkPtok 15 "string" 23 76 92) (mkPtok 15 "string" 23 76 92)) (mkDynamicString (mkSpan (mkPtok 15 "string" 23 76 92) (mkPtok 15 "string" 23 76 92)) (mkPtok 15 "string" 23 76 92))) (mkPtok 42 "msg_type" 23 83 93) None (mkPtok 40 "," 25 4 95)))); (mkFieldWithAttr (mkSpan (mkPtok 32 "@rightPad" 25 6 96) (mkPtok 40 "," 27 10 105)) [(FAPadding (mkSpan (mkPtok 32 "@rightPad" 25 6 96) (mkPtok 6 ")" 26 8 99)) (mkPaddingAttr (mkSpan (mkPtok 32 "@rightPad" 25 6 96) (mkPtok 6 ")" 26 8 99)) (mkPtok 32 "@rightPad" 25 6 96) (mkPtok 8 "(" 25 17 97) (Some (mkPtok 33 "' '" 26 4 98)) (mkPtok 6 ")" 26 8 99)))] (CheckSumField (mkSpan (mkPtok 42 "Z9_" 26 10 100) (mkPtok 40 "," 27 10 105)) (mkChecksumFieldDecl (mkSpan (mkPtok 42 "Z9_" 26 10 100) (mkPtok 40 "," 27 10 105)) None (mkPtok 42 "Z9_" 26 10 100) (mkCalculatedFrom (mkSpan (mkPtok 5 "@calculatedFrom(" 26 13 101) (mkPtok 6 ")" 27 7 104)) (mkPtok 5 "@calculatedFrom(" 26 13 101) (mkPtok 31 """it's""" 27 0 103) (mkPtok 6 ")" 27 7 104)) None (mkPtok 40 "," 27 10 105))))] (mkPtok 3 "}" 27 11 106))); (DPacket (mkPacketDef (mkSpan (mkPtok 35 "packet" 27 13 107) (mkPtok 3 "}" 30 22 115)) None (mkPtok 35 "packet" 27 13 107) (mkPtok 42 "stringy" 27 20 108) (mkPtok 2 "{" 28 0 110) [(mkFieldWithAttr (mkSpan (mkPtok 28 "float32" 30 4 112) (mkPtok 40 "," 30 21 114)) [] (MetaField (mkSpan (mkPtok 28 "float32" 30 4 112) (mkPtok 40 "," 30 21 114)) None (mkMetaDecl (mkSpan (mkPtok 28 "float32" 30 4 112) (mkPtok 40 "," 30 21 114)) (TyBasic (mkSpan (mkPtok 28 "float32" 30 4 112) (mkPtok 28 "float32" 30 4 112)) (mkBasicType (mkSpan (mkPtok 28 "float32" 30 4 112) (mkPtok 28 "float32" 30 4 112)) (mkPtok 28 "float32" 30 4 112))) (mkPtok 42 "metadata" 30 12 113) None (mkPtok 40 "," 30 21 114))))] (mkPtok 3 "}" 30 22 115))); (DPacket (mkPacketDef (mkSpan (mkPtok 35 "packet" 31 0 116) (mkPtok 3 "}" 55 4 181)) None (mkPtok 35 "packet" 31 0 116) (mkPtok 42 "body" 32 0 118) (mkPtok 2 "{" 32 4 119) [(mkFieldWithAttr (mkSpan (mkPtok 38 "match" 32 5 120) (mkPtok 40 "," 35 2 130)) [] (MatchField (mkSpan (mkPtok 38 "match" 32 5 120) (mkPtok 40 "," 35 2 130)) (mkMatchFieldDecl (mkSpan (mkPtok 38 "match" 32 5 120) (mkPtok 3 "}" 35 0 129)) (mkPtok 38 "match" 32 5 120) (mkPtok 42 "leftPad" 32 11 121) (mkPtok 17 "as" 33 0 122) (mkPtok 42 "falsey" 34 0 123) (mkPtok 2 "{" 34 7 124) [(mkMatchPair (mkSpan (mkPtok 31 (string_of_bytes [34; 195; 169; 116; 195; 169; 34]%N) 34 9 125) (mkPtok 40 "," 34 22 128)) (MKString (mkPtok 31 (string_of_bytes [34; 195; 169; 116; 195; 169; 34]%N) 34 9 125)) (mkPtok 39 ":" 34 15 126) (mkPtok 42 "len" 34 17 127) (Some (mkPtok 40 "," 34 22 128)))] (mkPtok 3 "}" 35 0 129)) (mkPtok 40 "," 35 2 130))); (mkFieldWithAttr (mkSpan (mkPtok 5 "@calculatedFrom(" 37 4 132) (mkPtok 40 "," 50 2 166)) [(FACalculatedFrom (mkSpan (mkPtok 5 "@calculatedFrom(" 37 4 132) (mkPtok 6 ")" 38 4 134)) (mkCalculatedFrom (mkSpan (mkPtok 5 "@calculatedFrom(" 37 4 132) (mkPtok 6 ")" 38 4 134)) (mkPtok 5 "@calculatedFrom(" 37 4 132) (mkPtok 31 """CRC32""" 37 21 133) (mkPtok 6 ")" 38 4 134)))] (InerObjectField (mkSpan (mkPtok 42 "f32a" 38 6 135) (mkPtok 40 "," 50 2 166)) None (InerObjectDecl (mkSpan (mkPtok 42 "f32a" 38 6 135) (mkPtok 3 "}" 50 0 165)) (mkPtok 42 "f32a" 38 6 135) (mkPtok 2 "{" 38 11 136) [(LengthField (mkSpan (mkPtok 22 "uint32" 38 13 137) (mkPtok 40 "," 41 7 144)) (mkLengthFieldDecl (mkSpan (mkPtok 22 "uint32" 38 13 137) (mkPtok 40 "," 41 7 144)) (Some (TyBasic (mkSpan (mkPtok 22 "uint32" 38 13 137) (mkPtok 22 "uint32" 38 13 137)) (mkBasicType (mkSpan (mkPtok 22 "uint32" 38 13 137) (mkPtok 22 "uint32" 38 13 137)) (mkPtok 22 "uint32" 38 13 137)))) (mkPtok 42 "body" 38 20 138) (mkLengthOf (mkSpan (mkPtok 7 "@lengthOf(" 38 25 139) (mkPtok 6 ")" 39 8 141)) (mkPtok 7 "@lengthOf(" 38 25 139) (mkPtok 42 "Z9_" 39 4 140) (mkPtok 6 ")" 39 8 141)) (Some (mkPtok 43 (string_of_bytes [96; 108; 105; 110; 101; 49; 10; 108; 105; 110; 101; 50; 96]%N) 40 0 143)) (mkPtok 40 "," 41 7 144))); (MetaField (mkSpan (mkPtok 29 "f64" 43 4 146) (mkPtok 40 "," 44 6 149)) None (mkMetaDecl (mkSpan (mkPtok 29 "f64" 43 4 146) (mkPtok 40 "," 44 6 149)) (TyBasic (mkSpan (mkPtok 29 "f64" 43 4 146) (mkPtok 29 "f64" 43 4 146)) (mkBasicType (mkSpan (mkPtok 29 "f64" 43 4 146) (mkPtok 29 "f64" 43 4 146)) (mkPtok 29 "f64" 43 4 146))) (mkPtok 42 "u" 43 8 147) (Some (mkPtok 43 (string_of_bytes [96; 108; 105; 110; 101; 49; 10; 108; 105; 110; 101; 50; 96]%N) 43 10 148)) (mkPtok 40 "," 44 6 149))); (LengthField (mkSpan (mkPtok 42 "trueish" 44 8 150) (mkPtok 40 "," 45 4 154)) (mkLengthFieldDecl (mkSpan (mkPtok 42 "trueish" 44 8 150) (mkPtok 40 "," 45 4 154)) None (mkPtok 42 "trueish" 44 8 150) (mkLengthOf (mkSpan (mkPtok 7 "@lengthOf(" 44 16 151) (mkPtok 6 ")" 44 33 153)) (mkPtok 7 "@lengthOf(" 44 16 151) (mkPtok 42 "rootA" 44 27 152) (mkPtok 6 ")" 44 33 153)) None (mkPtok 40 "," 45 4 154))); (CheckSumField (mkSpan (mkPtok 12 "char[" 45 5 155) (mkPtok 40 "," 49 2 164)) (mkChecksumFieldDecl (mkSpan (mkPtok 12 "char[" 45 5 155) (mkPtok 40 "," 49 2 164)) (Some (TyFixed (mkSpan (mkPtok 12 "char[" 45 5 155) (mkPtok 13 "]" 46 4 157)) (mkFixedString (mkSpan (mkPtok 12 "char[" 45 5 155) (mkPtok 13 "]" 46 4 157)) (mkPtok 12 "char[" 45 5 155) (mkPtok 30 "255" 45 11 156) (mkPtok 13 "]" 46 4 157)))) (mkPtok 42 "u" 46 6 158) (mkCalculatedFrom (mkSpan (mkPtok 5 "@calculatedFrom(" 46 7 159) (mkPtok 6 ")" 49 0 163)) (mkPtok 5 "@calculatedFrom(" 46 7 159) (mkPtok 31 (string_of_bytes [34; 97; 9; 98; 34]%N) 46 24 160) (mkPtok 6 ")" 49 0 163)) None (mkPtok 40 "," 49 2 164)))] (mkPtok 3 "}" 50 0 165)) (mkPtok 40 "," 50 2 166))); (mkFieldWithAttr (mkSpan (mkPtok 9 "@tag(" 50 4 167) (mkPtok 40 "," 53 4 173)) [(FATag (mkSpan (mkPtok 9 "@tag(" 50 4 167) (mkPtok 6 ")" 50 14 169)) (mkTagAttr (mkSpan (mkPtok 9 "@tag(" 50 4 167) (mkPtok 6 ")" 50 14 169)) (mkPtok 9 "@tag(" 50 4 167) (mkPtok 30 "42" 50 11 168) (mkPtok 6 ")" 50 14 169)))] (ObjectField (mkSpan (mkPtok 42 "options1" 51 0 170) (mkPtok 40 "," 53 4 173)) None (mkPtok 42 "options1" 51 0 170) (Some (mkPtok 42 "a1" 51 10 171)) None (mkPtok 40 "," 53 4 173))); (mkFieldWithAttr (mkSpan (mkPtok 16 "char[]" 54 4 174) (mkPtok 40 "," 55 2 180)) [] (CheckSumField (mkSpan (mkPtok 16 "char[]" 54 4 174) (mkPtok 40 "," 55 2 180)) (mkChecksumFieldDecl (mkSpan (mkPtok 16 "char[]" 54 4 174) (mkPtok 40 "," 55 2 180)) (Some (TyDynamic (mkSpan (mkPtok 16 "char[]" 54 4 174) (mkPtok 16 "char[]" 54 4 174)) (mkDynamicString (mkSpan (mkPtok 16 "char[]" 54 4 174) (mkPtok 16 "char[]" 54 4 174)) (mkPtok 16 "char[]" 54 4 174)))) (mkPtok 42 "Z9_" 54 11 175) (mkCalculatedFrom (mkSpan (mkPtok 5 "@calculatedFrom(" 54 15 176) (mkPtok 6 ")" 55 0 179)) (mkPtok 5 "@calculatedFrom(" 54 15 176) (mkPtok 31 """\n""" 54 32 177) (mkPtok 6 ")" 55 0 179)) None (mkPtok 40 "," 55 2 180))))] (mkPtok 3 "}" 55 4 181)))])).
Eval vm_compute in ("<<<M1137>>>" ++ check (runes_of_ascii "options { }")).
Eval vm_compute in ("<<<M1169>>>" ++ check (runes_of_ascii "// c
options
    //	t
    {
// `tick` ""quote"" 'q'
/// triple
repeatCount =
    00 tag
= ""{,}""MetaDataX = '0'o=
""`tick`""
//x
// `tick` ""quote"" 'q'
a1 = ""abc""
}
")).
Eval vm_compute in ("<<<M1201>>>" ++ check (runes_of_ascii "packet  metadata { f64 float
    //
    `crlf
line` , i32 asx @calculatedFrom(
""`tick`"" ) ,
/// triple
// c
A ,}
root packet zchar  {
// trailing space 
// packet A { u8 x, }
match matchKey
    as
    roots//x
{
""a\""b"" :	zchar ,""`tick`""
:
    int
    ,""\n"" : packetx ,
0// " ++ [27880; 37322]%N ++ runes_of_ascii "
: Z9_ , }, int32 a1
, @tag(42 ) // " ++ [128512]%N ++ runes_of_ascii " emoji
@rightPad ('0') @tag( 65535 )char[ 00 ] calculatedFrom
,packetx@lengthOf( options1 )
    , }
root
packet body{ match
    f32a as msg_type {[ 42 ]: matchKey // a // b
, 3 :
rootA
    // @lengthOf(
    , [
    // c
    00]
    : packetx 10 : falsey	, }	,}options {
}
")).
Eval vm_compute in ("<<<M1233>>>" ++ check (runes_of_ascii "root
    packet Foo	{@rightPad ( '\x00' ) Header
    // " ++ [27880; 37322]%N ++ runes_of_ascii "
    Pad
`tab	here`,@rightPad  (
'\x00'
) zchar[ 1	]x_y_z , }
")).
Eval vm_compute in ("<<<M1265>>>" ++ check (runes_of_ascii "
MetaData T
{ leftPad msg_type, float Foo `doc`
,
uint64 charz `two words` ,
    crc Pad `" ++ [28040; 24687; 31867; 22411]%N ++ runes_of_ascii "` ,  } root packet zchar
{
    @tag(  0123456789
)
    zchar[
    42  ]
lengthOf `" ++ [233]%N ++ runes_of_ascii "`
    ,
@tag(  0123456789)
i64_
i8i8	`say ""hi""`
, Header
    , @lengthOf(i64_
)uint16 T
// " ++ [128512]%N ++ runes_of_ascii " emoji
// c
@calculatedFrom(
    ""x y"" ) , @lengthOf(/// triple
u)
    // a // b
    As {int64 // `tick` ""quote"" 'q'
options1
@lengthOf( leftPad
) `u8 x,` ,char[1	]
falsey @lengthOf( Pad ) `u8 x,`
    ,  char[]
charz
@lengthOf( Packet // c
), repeat
//x
// " ++ [128512]%N ++ runes_of_ascii " emoji
zchar { zchar[00
    ]chars ,
    msg_type @lengthOf(u128  )
, } // " ++ [27880; 37322]%N ++ runes_of_ascii "
,} , @leftPad ( '\x00' ) Foo @lengthOf(
    Logon)
, @lengthOf(Packet
) repeat int {
// @lengthOf(
// trailing space 
repeat char zchar , repeat
string	stringy , string
matchKey @calculatedFrom(""a	b"" ) `u8 x,`, }, match Logon as calculatedFrom { [ 42 ]
:
    x
,""`tick`""
:
    x, 65535
: Packet , },
    char[ 7 ]trueish ``,
match roots
as
    float { 007	: u8x// packet A { u8 x, }
""\" ++ [233]%N ++ runes_of_ascii """ :MetaDataX // " ++ [27880; 37322]%N ++ runes_of_ascii "
, //x
[ 255 , ""{,}"",
    """" , 255 ]// c
:
x_y_z , ""// no comment"" : Header // " ++ [27880; 37322]%N ++ runes_of_ascii "
,} // " ++ [128512]%N ++ runes_of_ascii " emoji
, }")).
Eval vm_compute in ("<<<M1297>>>" ++ check (runes_of_ascii "root packet msg_type{
repeat
char[ 7 ]
    o  `doc`,
    @calculatedFrom( // packet A { u8 x, }
""x y""
    )repeat packetx tag ,
char[]A
    `doc`,
    repeat
// " ++ [128512]%N ++ runes_of_ascii " emoji
// trailing space 
BodyLength {
//
//
int8
As , i16 stringy , x_y_z {
zchar[ 65535 ] matchKey
@lengthOf( zchar ) ,}
, }, } //")).
Eval vm_compute in ("<<<M1329>>>" ++ check (@nil rune)).
Eval vm_compute in ("<<<T1329>>>" ++ terms [mkTok 0 "<EOF>" 1 0 false] (mkPacket (mkPtok 0 "<EOF>" 1 0 0) None [])).
Eval vm_compute in ("<<<M1361>>>" ++ check (runes_of_ascii "root packet falsey {
repeat char[] leftPad	, repeat
f64 // " ++ [128512]%N ++ runes_of_ascii " emoji
_x `{ , }` , @tag(  0)
    // `tick` ""quote"" 'q'
    uint64 float
    @calculatedFrom(""{,}"") , }
")).
Eval vm_compute in ("<<<M1393>>>" ++ check (runes_of_ascii "root	packet rootA
/// triple
//	t
{
    @lengthOf( A) zchar[
    65535 ]len	`a\` ,  } root packet
packetx
{ uint8 i8i8 , }
// c
")).
Eval vm_compute in ("<<<M1425>>>" ++ check (runes_of_ascii "packet As
{stringy i8i8
,} // c")).
Eval vm_compute in ("<<<M1457>>>" ++ check (runes_of_ascii "options { tag = 0;} packet u8x
    { // trailing space 
u Z9_ , @tag(
    00 )@rightPad ( '\x00'
    )  @calculatedFrom(
""CRC32"" ) //	t
crc, metadata	@calculatedFrom(
""a	b""
    ) // c
, @tag( 4294967296  ) u64 rootA
    `tab	here`, // @lengthOf(
@calculatedFrom( ""\n""
    )char[]	pack
    @lengthOf( chars) `" ++ [28040; 24687; 31867; 22411]%N ++ runes_of_ascii "` ,zchar[ 255 ]Foo @lengthOf( f32a ) , @leftPad
(	) @lengthOf( string_ )
@rightPad(
' '
    )
    match
msg_type
as // " ++ [128512]%N ++ runes_of_ascii " emoji
falsey  {
    // a // b
    ""a	b"" :
x ,} , @calculatedFrom( ""{,}"" )
match
body as MetaDataX {42 // " ++ [27880; 37322]%N ++ runes_of_ascii "
: u8x 0123456789
: options1 , // c
[ 3 ]: As , [ 00 ] :// c
A ,
""CRC32""
: zchar , [	""it's"" ,
""" ++ [233]%N ++ runes_of_ascii "t" ++ [233]%N ++ runes_of_ascii """  ,	""1"", 3, ""a	b""
    , 1
    //x
    ,  0123456789, //	t
4294967296
] :
    packetx
    , // " ++ [27880; 37322]%N ++ runes_of_ascii "
}, repeat uint8 o`{ , }`
    ,
//	t
//
} packet leftPad {
u32
// packet A { u8 x, }
//x
packetx
`a\` ,@calculatedFrom( ""// no comment""	) @rightPad ( ) @lengthOf(
    asx
    )
// c
// trailing space 
char[ 42
    ] calculatedFrom @lengthOf( packetx ), @tag(
    00
)stringy  msg_type , u128 i64_ `it's` ,@rightPad
    ('\x00') u8x
, @calculatedFrom( """ ++ [28040; 24687]%N ++ runes_of_ascii """
) len msg_type , // packet A { u8 x, }
MetaDataX pack
    // c
    ,@calculatedFrom( """ ++ [28040; 24687]%N ++ runes_of_ascii """ ) string MetaDataX//	t
`
` , }
")).
Eval vm_compute in ("<<<M1489>>>" ++ check (runes_of_ascii "options{
    A = ""\n"" ; matchKey = 4294967296 } root packet repeatCount
{ rootA `{ , }`
    , @tag(0 )	@tag(  007 )
    string
    packetx
    ,  repeat // c
u128
u128	`u8 x,`	, @leftPad
    ( ' '	)
    i64_ @calculatedFrom(""`tick`""	)
    // @lengthOf(
    `it's`
, char[ 00 ] lengthOf `it's` , Foo`u8 x,`, zchar[
65535] i64_ , char[
    // c
    0	]_x
    ,
    repeat zchar[0123456789]	u
,  @tag(
    10 // trailing space 
)
/// triple
// packet A { u8 x, }
int64 pack
@calculatedFrom( ""packet""
    )
`u8 x,`
// a // b
// trailing space 
, } packet
    float
// a // b
//x
{@tag(
0
    // " ++ [27880; 37322]%N ++ runes_of_ascii "
    )
char[0
]
stringy `" ++ [28040; 24687; 31867; 22411]%N ++ runes_of_ascii "`	, } /// triple")).
Eval vm_compute in ("<<<M1521>>>" ++ check (runes_of_ascii "// " ++ [27880; 37322]%N ++ runes_of_ascii "

// packet A { u8 x, }
")).
Eval vm_compute in ("<<<M1553>>>" ++ check (runes_of_ascii "packet // `tick` ""quote"" 'q'
MetaDataX// c
{ } packet calculatedFrom{ float32 metadata `u8 x,`, }
    // packet A { u8 x, }
    packet // a // b
metadata //x
{ char[
3
    ]
As
    `tab	here` , @tag( 10 ) @lengthOf(	As ) @tag( 00
// @lengthOf(
//
)repeat options1
    `say ""hi""` // " ++ [128512]%N ++ runes_of_ascii " emoji
,@calculatedFrom(	""\" ++ [233]%N ++ runes_of_ascii """  )
    o A `" ++ [233]%N ++ runes_of_ascii "` , @lengthOf( // c
body
    ) zchar[  255
] len
    `it's` ,// packet A { u8 x, }
@lengthOf(
metadata ) @calculatedFrom( ""x y"")
// " ++ [27880; 37322]%N ++ runes_of_ascii "
// `tick` ""quote"" 'q'
float32 /// triple
f32a `tab	here`
    , chars ,} packet body { pack
    /// triple
    , i64 zchar
@lengthOf( roots
)	`doc`
    ,uint8 falsey @calculatedFrom( ""`tick`"" )	,
    @lengthOf( int) @tag(
    255 ) @leftPad(
    )
repeat
    i8 uint8x`` , } packet pack
    { @calculatedFrom( ""it's""
) Foo
    { char[]calculatedFrom ``
, repeat char[ 3
]Header,}  , @calculatedFrom( ""`tick`"" ) @calculatedFrom(
    ""packet"" ) // a // b
@leftPad
()
char[] repeatCount @calculatedFrom(// c
""packet"")
`u8 x,`
// trailing space 
// `tick` ""quote"" 'q'
, u8 crc `a\`
,
}
")).
Eval vm_compute in ("<<<T1553>>>" ++ terms [mkTok 35 "packet" 1 0 false; mkTok 44 "// `tick` ""quote"" 'q'" 1 7 true; mkTok 42 "MetaDataX" 2 0 false; mkTok 44 "// c" 2 9 true; mkTok 2 "{" 3 0 false; mkTok 3 "}" 3 2 false; mkTok 35 "packet" 3 4 false; mkTok 42 "calculatedFrom" 3 11 false; mkTok 2 "{" 3 25 false; mkTok 28 "float32" 3 27 false; mkTok 42 "metadata" 3 35 false; mkTok 43 "`u8 x,`" 3 44 false; mkTok 40 "," 3 51 false; mkTok 3 "}" 3 53 false; mkTok 44 "// packet A { u8 x, }" 4 4 true; mkTok 35 "packet" 5 4 false; mkTok 44 "// a // b" 5 11 true; mkTok 42 "metadata" 6 0 false; mkTok 44 "//x" 6 9 true; mkTok 2 "{" 7 0 false; mkTok 12 "char[" 7 2 false; mkTok 30 "3" 8 0 false; mkTok 13 "]" 9 4 false; mkTok 42 "As" 10 0 false; mkTok 43 (string_of_bytes [96; 116; 97; 98; 9; 104; 101; 114; 101; 96]%N) 11 4 false; mkTok 40 "," 11 15 false; mkTok 9 "@tag(" 11 17 false; mkTok 30 "10" 11 23 false; mkTok 6 ")" 11 26 false; mkTok 7 "@lengthOf(" 11 28 false; mkTok 42 "As" 11 39 false; mkTok 6 ")" 11 42 false; mkTok 9 "@tag(" 11 44 false; mkTok 30 "00" 11 50 false; mkTok 44 "// @lengthOf(" 12 0 true; mkTok 44 "//" 13 0 true; mkTok 6 ")" 14 0 false; mkTok 36 "repeat" 14 1 false; mkTok 42 "options1" 14 8 false; mkTok 43 "`say ""hi""`" 15 4 false; mkTok 44 (string_of_bytes [47; 47; 32; 240; 159; 152; 128; 32; 101; 109; 111; 106; 105]%N) 15 15 true; mkTok 40 "," 16 0 false; mkTok 5 "@calculatedFrom(" 16 1 false; mkTok 31 (string_of_bytes [34; 92; 195; 169; 34]%N) 16 18 false; mkTok 6 ")" 16 24 false; mkTok 42 "o" 17 4 false; mkTok 42 "A" 17 6 false; mkTok 43 (string_of_bytes [96; 195; 169; 96]%N) 17 8 false; mkTok 40 "," 17 12 false; mkTok 7 "@lengthOf(" 17 14 false; mkTok 44 "// c" 17 25 true; mkTok 42 "body" 18 0 false; mkTok 6 ")" 19 4 false; mkTok 14 "zchar[" 19 6 false; mkTok 30 "255" 19 14 false; mkTok 13 "]" 20 0 false; mkTok 42 "len" 20 2 false; mkTok 43 "`it's`" 21 4 false; mkTok 40 "," 21 11 false; mkTok 44 "// packet A { u8 x, }" 21 12 true; mkTok 7 "@lengthOf(" 22 0 false; mkTok 42 "metadata" 23 0 false; mkTok 6 ")" 23 9 false; mkTok 5 "@calculatedFrom(" 23 11 false; mkTok 31 """x y""" 23 28 false; mkTok 6 ")" 23 33 false; mkTok 44 (string_of_bytes [47; 47; 32; 230; 179; 168; 233; 135; 138]%N) 24 0 true; mkTok 44 "// `tick` ""quote"" 'q'" 25 0 true; mkTok 28 "float32" 26 0 false; mkTok 44 "/// triple" 26 8 true; mkTok 42 "f32a" 27 0 false; mkTok 43 (string_of_bytes [96; 116; 97; 98; 9; 104; 101; 114; 101; 96]%N) 27 5 false; mkTok 40 "," 28 4 false; mkTok 42 "chars" 28 6 false; mkTok 40 "," 28 12 false; mkTok 3 "}" 28 13 false; mkTok 35 "packet" 28 15 false; mkTok 42 "body" 28 22 false; mkTok 2 "{" 28 27 false; mkTok 42 "pack" 28 29 false; mkTok 44 "/// triple" 29 4 true; mkTok 40 "," 30 4 false; mkTok 27 "i64" 30 6 false; mkTok 42 "zchar" 30 10 false; mkTok 7 "@lengthOf(" 31 0 false; mkTok 42 "roots" 31 11 false; mkTok 6 ")" 32 0 false; mkTok 43 "`doc`" 32 2 false; mkTok 40 "," 33 4 false; mkTok 20 "uint8" 33 5 false; mkTok 42 "falsey" 33 11 false; mkTok 5 "@calculatedFrom(" 33 18 false; mkTok 31 """`tick`""" 33 35 false; mkTok 6 ")" 33 44 false; mkTok 40 "," 33 46 false; mkTok 7 "@lengthOf(" 34 4 false; mkTok 42 "int" 34 15 false; mkTok 6 ")" 34 18 false; mkTok 9 "@tag(" 34 20 false; mkTok 30 "255" 35 4 false; mkTok 6 ")" 35 8 false; mkTok 32 "@leftPad" 35 10 false; mkTok 8 "(" 35 18 false; mkTok 6 ")" 36 4 false; mkTok 36 "repeat" 37 0 false; mkTok 24 "i8" 38 4 false; mkTok 42 "uint8x" 38 7 false; mkTok 43 "``" 38 13 false; mkTok 40 "," 38 16 false; mkTok 3 "}" 38 18 false; mkTok 35 "packet" 38 20 false; mkTok 42 "pack" 38 27 false; mkTok 2 "{" 39 4 false; mkTok 5 "@calculatedFrom(" 39 6 false; mkTok 31 """it's""" 39 23 false; mkTok 6 ")" 40 0 false; mkTok 42 "Foo" 40 2 false; mkTok 2 "{" 41 4 false; mkTok 16 "char[]" 41 6 false; mkTok 42 "calculatedFrom" 41 12 false; mkTok 43 "``" 41 27 false; mkTok 40 "," 42 0 false; mkTok 36 "repeat" 42 2 false; mkTok 12 "char[" 42 9 false; mkTok 30 "3" 42 15 false; mkTok 13 "]" 43 0 false; mkTok 42 "Header" 43 1 false; mkTok 40 "," 43 7 false; mkTok 3 "}" 43 8 false; mkTok 40 "," 43 11 false; mkTok 5 "@calculatedFrom(" 43 13 false; mkTok 31 """`tick`""" 43 30 false; mkTok 6 ")" 43 39 false; mkTok 5 "@calculatedFrom(" 43 41 false; mkTok 31 """packet""" 44 4 false; mkTok 6 ")" 44 13 false; mkTok 44 "// a // b" 44 15 true; mkTok 32 "@leftPad" 45 0 false; mkTok 8 "(" 46 0 false; mkTok 6 ")" 46 1 false; mkTok 16 "char[]" 47 0 false; mkTok 42 "repeatCount" 47 7 false; mkTok 5 "@calculatedFrom(" 47 19 false; mkTok 44 "// c" 47 35 true; mkTok 31 """packet""" 48 0 false; mkTok 6 ")" 48 8 false; mkTok 43 "`u8 x,`" 49 0 false; mkTok 44 "// trailing space " 50 0 true; mkTok 44 "// `tick` ""quote"" 'q'" 51 0 true; mkTok 40 "," 52 0 false; mkTok 20 "u8" 52 2 false; mkTok 42 "crc" 52 5 false; mkTok 43 "`a\`" 52 9 false; mkTok 40 "," 53 0 false; mkTok 3 "}" 54 0 false; mkTok 0 "<EOF>" 55 0 false] (mkPacket (mkPtok 35 "packet" 1 0 0) (Some (mkPtok 3 "}" 54 0 154)) [(DPacket (mkPacketDef (mkSpan (mkPtok 35 "packet" 1 0 0) (mkPtok 3 "}" 3 2 5)) None (mkPtok 35 "packet" 1 0 0) (mkPtok 42 "MetaDataX" 2 0 2) (mkPtok 2 "{" 3 0 4) [] (mkPtok 3 "}" 3 2 5))); (DPacket (mkPacketDef (mkSpan (mkPtok 35 "packet" 3 4 6) (mkPtok 3 "}" 3 53 13)) None (mkPtok 35 "packet" 3 4 6) (mkPtok 42 "calculatedFrom" 3 11 7) (mkPtok 2 "{" 3 25 8) [(mkFieldWithAttr (mkSpan (mkPtok 28 "float32" 3 27 9) (mkPtok 40 "," 3 51 12)) [] (MetaField (mkSpan (mkPtok 28 "float32" 3 27 9) (mkPtok 40 "," 3 51 12)) None (mkMetaDecl (mkSpan (mkPtok 28 "float32" 3 27 9) (mkPtok 40 "," 3 51 12)) (TyBasic (mkSpan (mkPtok 28 "float32" 3 27 9) (mkPtok 28 "float32" 3 27 9)) (mkBasicType (mkSpan (mkPtok 28 "float32" 3 27 9) (mkPtok 28 "float32" 3 27 9)) (mkPtok 28 "float32" 3 27 9))) (mkPtok 42 "metadata" 3 35 10) (Some (mkPtok 43 "`u8 x,`" 3 44 11)) (mkPtok 40 "," 3 51 12))))] (mkPtok 3 "}" 3 53 13))); (DPacket (mkPacketDef (mkSpan (mkPtok 35 "packet" 5 4 15) (mkPtok 3 "}" 28 13 75)) None (mkPtok 35 "packet" 5 4 15) (mkPtok 42 "metadata" 6 0 17) (mkPtok 2 "{" 7 0 19) [(mkFieldWithAttr (mkSpan (mkPtok 12 "char[" 7 2 20) (mkPtok 40 "," 11 15 25)) [] (MetaField (mkSpan (mkPtok 12 "char[" 7 2 20) (mkPtok 40 "," 11 15 25)) None (mkMetaDecl (mkSpan (mkPtok 12 "char[" 7 2 20) (mkPtok 40 "," 11 15 25)) (TyFixed (mkSpan (mkPtok 12 "char[" 7 2 20) (mkPtok 13 "]" 9 4 22)) (mkFixedString (mkSpan (mkPtok 12 "char[" 7 2 20) (mkPtok 13 "]" 9 4 22)) (mkPtok 12 "char[" 7 2 20) (mkPtok 30 "3" 8 0 21) (mkPtok 13 "]" 9 4 22))) (mkPtok 42 "As" 10 0 23) (Some (mkPtok 43 (string_of_bytes [96; 116; 97; 98; 9; 104; 101; 114; 101; 96]%N) 11 4 24)) (mkPtok 40 "," 11 15 25)))); (mkFieldWithAttr (mkSpan (mkPtok 9 "@tag(" 11 17 26) (mkPtok 40 "," 16 0 41)) [(FATag (mkSpan (mkPtok 9 "@tag(" 11 17 26) (mkPtok 6 ")" 11 26 28)) (mkTagAttr (mkSpan (mkPtok 9 "@tag(" 11 17 26) (mkPtok 6 ")" 11 26 28)) (mkPtok 9 "@tag(" 11 17 26) (mkPtok 30 "10" 11 23 27) (mkPtok 6 ")" 11 26 28))); (FALengthOf (mkSpan (mkPtok 7 "@lengthOf(" 11 28 29) (mkPtok 6 ")" 11 42 31)) (mkLengthOf (mkSpan (mkPtok 7 "@lengthOf(" 11 28 29) (mkPtok 6 ")" 11 42 31)) (mkPtok 7 "@lengthOf(" 11 28 29) (mkPtok 42 "As" 11 39 30) (mkPtok 6 ")" 11 42 31))); (FATag (mkSpan (mkPtok 9 "@tag(" 11 44 32) (mkPtok 6 ")" 14 0 36)) (mkTagAttr (mkSpan (mkPtok 9 "@tag(" 11 44 32) (mkPtok 6 ")" 14 0 36)) (mkPtok 9 "@tag(" 11 44 32) (mkPtok 30 "00" 11 50 33) (mkPtok 6 ")" 14 0 36)))] (ObjectField (mkSpan (mkPtok 36 "repeat" 14 1 37) (mkPtok 40 "," 16 0 41)) (Some (mkPtok 36 "repeat" 14 1 37)) (mkPtok 42 "options1" 14 8 38) None (Some (mkPtok 43 "`say ""hi""`" 15 4 39)) (mkPtok 40 "," 16 0 41))); (mkFieldWithAttr (mkSpan (mkPtok 5 "@calculatedFrom(" 16 1 42) (mkPtok 40 "," 17 12 48)) [(FACalculatedFrom (mkSpan (mkPtok 5 "@calculatedFrom(" 16 1 42) (mkPtok 6 ")" 16 24 44)) (mkCalculatedFrom (mkSpan (mkPtok 5 "@calculatedFrom(" 16 1 42) (mkPtok 6 ")" 16 24 44)) (mkPtok 5 "@calculatedFrom(" 16 1 42) (mkPtok 31 (string_of_bytes [34; 92; 195; 169; 34]%N) 16 18 43) (mkPtok 6 ")" 16 24 44)))] (ObjectField (mkSpan (mkPtok 42 "o" 17 4 45) (mkPtok 40 "," 17 12 48)) None (mkPtok 42 "o" 17 4 45) (Some (mkPtok 42 "A" 17 6 46)) (Some (mkPtok 43 (string_of_bytes [96; 195; 169; 96]%N) 17 8 47)) (mkPtok 40 "," 17 12 48))); (mkFieldWithAttr (mkSpan (mkPtok 7 "@lengthOf(" 17 14 49) (mkPtok 40 "," 21 11 58)) [(FALengthOf (mkSpan (mkPtok 7 "@lengthOf(" 17 14 49) (mkPtok 6 ")" 19 4 52)) (mkLengthOf (mkSpan (mkPtok 7 "@lengthOf(" 17 14 49) (mkPtok 6 ")" 19 4 52)) (mkPtok 7 "@lengthOf(" 17 14 49) (mkPtok 42 "body" 18 0 51) (mkPtok 6 ")" 19 4 52)))] (MetaField (mkSpan (mkPtok 14 "zchar[" 19 6 53) (mkPtok 40 "," 21 11 58)) None (mkMetaDecl (mkSpan (mkPtok 14 "zchar[" 19 6 53) (mkPtok 40 "," 21 11 58)) (TyFixed (mkSpan (mkPtok 14 "zchar[" 19 6 53) (mkPtok 13 "]" 20 0 55)) (mkFixedString (mkSpan (mkPtok 14 "zchar[" 19 6 53) (mkPtok 13 "]" 20 0 55)) (mkPtok 14 "zchar[" 19 6 53) (mkPtok 30 "255" 19 14 54) (mkPtok 13 "]" 20 0 55))) (mkPtok 42 "len" 20 2 56) (Some (mkPtok 43 "`it's`" 21 4 57)) (mkPtok 40 "," 21 11 58)))); (mkFieldWithAttr (mkSpan (mkPtok 7 "@lengthOf(" 22 0 60) (mkPtok 40 "," 28 4 72)) [(FALengthOf (mkSpan (mkPtok 7 "@lengthOf(" 22 0 60) (mkPtok 6 ")" 23 9 62)) (mkLengthOf (mkSpan (mkPtok 7 "@lengthOf(" 22 0 60) (mkPtok 6 ")" 23 9 62)) (mkPtok 7 "@lengthOf(" 22 0 60) (mkPtok 42 "metadata" 23 0 61) (mkPtok 6 ")" 23 9 62))); (FACalculatedFrom (mkSpan (mkPtok 5 "@calculatedFrom(" 23 11 63) (mkPtok 6 ")" 23 33 65)) (mkCalculatedFrom (mkSpan (mkPtok 5 "@calculatedFrom(" 23 11 63) (mkPtok 6 ")" 23 33 65)) (mkPtok 5 "@calculatedFrom(" 23 11 63) (mkPtok 31 """x y""" 23 28 64) (mkPtok 6 ")" 23 33 65)))] (MetaField (mkSpan (mkPtok 28 "float32" 26 0 68) (mkPtok 40 "," 28 4 72)) None (mkMetaDecl (mkSpan (mkPtok 28 "float32" 26 0 68) (mkPtok 40 "," 28 4 72)) (TyBasic (mkSpan (mkPtok 28 "float32" 26 0 68) (mkPtok 28 "float32" 26 0 68)) (mkBasicType (mkSpan (mkPtok 28 "float32" 26 0 68) (mkPtok 28 "float32" 26 0 68)) (mkPtok 28 "float32" 26 0 68))) (mkPtok 42 "f32a" 27 0 70) (Some (mkPtok 43 (string_of_bytes [96; 116; 97; 98; 9; 104; 101; 114; 101; 96]%N) 27 5 71)) (mkPtok 40 "," 28 4 72)))); (mkFieldWithAttr (mkSpan (mkPtok 42 "chars" 28 6 73) (mkPtok 40 "," 28 12 74)) [] (ObjectField (mkSpan (mkPtok 42 "chars" 28 6 73) (mkPtok 40 "," 28 12 74)) None (mkPtok 42 "chars" 28 6 73) None None (mkPtok 40 "," 28 12 74)))] (mkPtok 3 "}" 28 13 75))); (DPacket (mkPacketDef (mkSpan (mkPtok 35 "packet" 28 15 76) (mkPtok 3 "}" 38 18 109)) None (mkPtok 35 "packet" 28 15 76) (mkPtok 42 "body" 28 22 77) (mkPtok 2 "{" 28 27 78) [(mkFieldWithAttr (mkSpan (mkPtok 42 "pack" 28 29 79) (mkPtok 40 "," 30 4 81)) [] (ObjectField (mkSpan (mkPtok 42 "pack" 28 29 79) (mkPtok 40 "," 30 4 81)) None (mkPtok 42 "pack" 28 29 79) None None (mkPtok 40 "," 30 4 81))); (mkFieldWithAttr (mkSpan (mkPtok 27 "i64" 30 6 82) (mkPtok 40 "," 33 4 88)) [] (LengthField (mkSpan (mkPtok 27 "i64" 30 6 82) (mkPtok 40 "," 33 4 88)) (mkLengthFieldDecl (mkSpan (mkPtok 27 "i64" 30 6 82) (mkPtok 40 "," 33 4 88)) (Some (TyBasic (mkSpan (mkPtok 27 "i64" 30 6 82) (mkPtok 27 "i64" 30 6 82)) (mkBasicType (mkSpan (mkPtok 27 "i64" 30 6 82) (mkPtok 27 "i64" 30 6 82)) (mkPtok 27 "i64" 30 6 82)))) (mkPtok 42 "zchar" 30 10 83) (mkLengthOf (mkSpan (mkPtok 7 "@lengthOf(" 31 0 84) (mkPtok 6 ")" 32 0 86)) (mkPtok 7 "@lengthOf(" 31 0 84) (mkPtok 42 "roots" 31 11 85) (mkPtok 6 ")" 32 0 86)) (Some (mkPtok 43 "`doc`" 32 2 87)) (mkPtok 40 "," 33 4 88)))); (mkFieldWithAttr (mkSpan (mkPtok 20 "uint8" 33 5 89) (mkPtok 40 "," 33 46 94)) [] (CheckSumField (mkSpan (mkPtok 20 "uint8" 33 5 89) (mkPtok 40 "," 33 46 94)) (mkChecksumFieldDecl (mkSpan (mkPtok 20 "uint8" 33 5 89) (mkPtok 40 "," 33 46 94)) (Some (TyBasic (mkSpan (mkPtok 20 "uint8" 33 5 89) (mkPtok 20 "uint8" 33 5 89)) (mkBasicType (mkSpan (mkPtok 20 "uint8" 33 5 89) (mkPtok 20 "uint8" 33 5 89)) (mkPtok 20 "uint8" 33 5 89)))) (mkPtok 42 "falsey" 33 11 90) (mkCalculatedFrom (mkSpan (mkPtok 5 "@calculatedFrom(" 33 18 91) (mkPtok 6 ")" 33 44 93)) (mkPtok 5 "@calculatedFrom(" 33 18 91) (mkPtok 31 """`tick`""" 33 35 92) (mkPtok 6 ")" 33 44 93)) None (mkPtok 40 "," 33 46 94)))); (mkFieldWithAttr (mkSpan (mkPtok 7 "@lengthOf(" 34 4 95) (mkPtok 40 "," 38 16 108)) [(FALengthOf (mkSpan (mkPtok 7 "@lengthOf(" 34 4 95) (mkPtok 6 ")" 34 18 97)) (mkLengthOf (mkSpan (mkPtok 7 "@lengthOf(" 34 4 95) (mkPtok 6 ")" 34 18 97)) (mkPtok 7 "@lengthOf(" 34 4 95) (mkPtok 42 "int" 34 15 96) (mkPtok 6 ")" 34 18 97))); (FATag (mkSpan (mkPtok 9 "@tag(" 34 20 98) (mkPtok 6 ")" 35 8 100)) (mkTagAttr (mkSpan (mkPtok 9 "@tag(" 34 20 98) (mkPtok 6 ")" 35 8 100)) (mkPtok 9 "@tag(" 34 20 98) (mkPtok 30 "255" 35 4 99) (mkPtok 6 ")" 35 8 100))); (FAPadding (mkSpan (mkPtok 32 "@leftPad" 35 10 101) (mkPtok 6 ")" 36 4 103)) (mkPaddingAttr (mkSpan (mkPtok 32 "@leftPad" 35 10 101) (mkPtok 6 ")" 36 4 103)) (mkPtok 32 "@leftPad" 35 10 101) (mkPtok 8 "(" 35 18 102) None (mkPtok 6 ")" 36 4 103)))] (MetaField (mkSpan (mkPtok 36 "repeat" 37 0 104) (mkPtok 40 "," 38 16 108)) (Some (mkPtok 36 "repeat" 37 0 104)) (mkMetaDecl (mkSpan (mkPtok 24 "i8" 38 4 105) (mkPtok 40 "," 38 16 108)) (TyBasic (mkSpan (mkPtok 24 "i8" 38 4 105) (mkPtok 24 "i8" 38 4 105)) (mkBasicType (mkSpan (mkPtok 24 "i8" 38 4 105) (mkPtok 24 "i8" 38 4 105)) (mkPtok 24 "i8" 38 4 105))) (mkPtok 42 "uint8x" 38 7 106) (Some (mkPtok 43 "``" 38 13 107)) (mkPtok 40 "," 38 16 108))))] (mkPtok 3 "}" 38 18 109))); (DPacket (mkPacketDef (mkSpan (mkPtok 35 "packet" 38 20 110) (mkPtok 3 "}" 54 0 154)) None (mkPtok 35 "packet" 38 20 110) (mkPtok 42 "pack" 38 27 111) (mkPtok 2 "{" 39 4 112) [(mkFieldWithAttr (mkSpan (mkPtok 5 "@calculatedFrom(" 39 6 113) (mkPtok 40 "," 43 11 129)) [(FACalculatedFrom (mkSpan (mkPtok 5 "@calculatedFrom(" 39 6 113) (mkPtok 6 ")" 40 0 115)) (mkCalculatedFrom (mkSpan (mkPtok 5 "@calculatedFrom(" 39 6 113) (mkPtok 6 ")" 40 0 115)) (mkPtok 5 "@calculatedFrom(" 39 6 113) (mkPtok 31 """it's""" 39 23 114) (mkPtok 6 ")" 40 0 115)))] (InerObjectField (mkSpan (mkPtok 42 "Foo" 40 2 116) (mkPtok 40 "," 43 11 129)) None (InerObjectDecl (mkSpan (mkPtok 42 "Foo" 40 2 116) (mkPtok 3 "}" 43 8 128)) (mkPtok 42 "Foo" 40 2 116) (mkPtok 2 "{" 41 4 117) [(MetaField (mkSpan (mkPtok 16 "char[]" 41 6 118) (mkPtok 40 "," 42 0 121)) None (mkMetaDecl (mkSpan (mkPtok 16 "char[]" 41 6 118) (mkPtok 40 "," 42 0 121)) (TyDynamic (mkSpan (mkPtok 16 "char[]" 41 6 118) (mkPtok 16 "char[]" 41 6 118)) (mkDynamicString (mkSpan (mkPtok 16 "char[]" 41 6 118) (mkPtok 16 "char[]" 41 6 118)) (mkPtok 16 "char[]" 41 6 118))) (mkPtok 42 "calculatedFrom" 41 12 119) (Some (mkPtok 43 "``" 41 27 120)) (mkPtok 40 "," 42 0 121))); (MetaField (mkSpan (mkPtok 36 "repeat" 42 2 122) (mkPtok 40 "," 43 7 127)) (Some (mkPtok 36 "repeat" 42 2 122)) (mkMetaDecl (mkSpan (mkPtok 12 "char[" 42 9 123) (mkPtok 40 "," 43 7 127)) (TyFixed (mkSpan (mkPtok 12 "char[" 42 9 123) (mkPtok 13 "]" 43 0 125)) (mkFixedString (mkSpan (mkPtok 12 "char[" 42 9 123) (mkPtok 13 "]" 43 0 125)) (mkPtok 12 "char[" 42 9 123) (mkPtok 30 "3" 42 15 124) (mkPtok 13 "]" 43 0 125))) (mkPtok 42 "Header" 43 1 126) None (mkPtok 40 "," 43 7 127)))] (mkPtok 3 "}" 43 8 128)) (mkPtok 40 "," 43 11 129))); (mkFieldWithAttr (mkSpan (mkPtok 5 "@calculatedFrom(" 43 13 130) (mkPtok 40 "," 52 0 149)) [(FACalculatedFrom (mkSpan (mkPtok 5 "@calculatedFrom(" 43 13 130) (mkPtok 6 ")" 43 39 132)) (mkCalculatedFrom (mkSpan (mkPtok 5 "@calculatedFrom(" 43 13 130) (mkPtok 6 ")" 43 39 132)) (mkPtok 5 "@calculatedFrom(" 43 13 130) (mkPtok 31 """`tick`""" 43 30 131) (mkPtok 6 ")" 43 39 132))); (FACalculatedFrom (mkSpan (mkPtok 5 "@calculatedFrom(" 43 41 133) (mkPtok 6 ")" 44 13 135)) (mkCalculatedFrom (mkSpan (mkPtok 5 "@calculatedFrom(" 43 41 133) (mkPtok 6 ")" 44 13 135)) (mkPtok 5 "@calculatedFrom(" 43 41 133) (mkPtok 31 """packet""" 44 4 134) (mkPtok 6 ")" 44 13 135))); (FAPadding (mkSpan (mkPtok 32 "@leftPad" 45 0 137) (mkPtok 6 ")" 46 1 139)) (mkPaddingAttr (mkSpan (mkPtok 32 "@leftPad" 45 0 137) (mkPtok 6 ")" 46 1 139)) (mkPtok 32 "@leftPad" 45 0 137) (mkPtok 8 "(" 46 0 138) None (mkPtok 6 ")" 46 1 139)))] (CheckSumField (mkSpan (mkPtok 16 "char[]" 47 0 140) (mkPtok 40 "," 52 0 149)) (mkChecksumFieldDecl (mkSpan (mkPtok 16 "char[]" 47 0 140) (mkPtok 40 "," 52 0 149)) (Some (TyDynamic (mkSpan (mkPtok 16 "char[]" 47 0 140) (mkPtok 16 "char[]" 47 0 140)) (mkDynamicString (mkSpan (mkPtok 16 "char[]" 47 0 140) (mkPtok 16 "char[]" 47 0 140)) (mkPtok 16 "char[]" 47 0 140)))) (mkPtok 42 "repeatCount" 47 7 141) (mkCalculatedFrom (mkSpan (mkPtok 5 "@calculatedFrom(" 47 19 142) (mkPtok 6 ")" 48 8 145)) (mkPtok 5 "@calculatedFrom(" 47 19 142) (mkPtok 31 """packet""" 48 0 144) (mkPtok 6 ")" 48 8 145)) (Some (mkPtok 43 "`u8 x,`" 49 0 146)) (mkPtok 40 "," 52 0 149)))); (mkFieldWithAttr (mkSpan (mkPtok 20 "u8" 52 2 150) (mkPtok 40 "," 53 0 153)) [] (MetaField (mkSpan (mkPtok 20 "u8" 52 2 150) (mkPtok 40 "," 53 0 153)) None (mkMetaDecl (mkSpan (mkPtok 20 "u8" 52 2 150) (mkPtok 40 "," 53 0 153)) (TyBasic (mkSpan (mkPtok 20 "u8" 52 2 150) (mkPtok 20 "u8" 52 2 150)) (mkBasicType (mkSpan (mkPtok 20 "u8" 52 2 150) (mkPtok 20 "u8" 52 2 150)) (mkPtok 20 "u8" 52 2 150))) (mkPtok 42 "crc" 52 5 151) (Some (mkPtok 43 "`a\`" 52 9 152)) (mkPtok 40 "," 53 0 153))))] (mkPtok 3 "}" 54 0 154)))])).
Eval vm_compute in ("<<<M1585>>>" ++ check (runes_of_ascii "packet falsey
    {MetaDataX, } root
packet A { @rightPad('\x00' )
x_y_z string_ `tab	here` ,
@tag( 10) match	Foo as
    uint8x {
    ""// no comment"": // " ++ [27880; 37322]%N ++ runes_of_ascii "
repeatCount 3 // `tick` ""quote"" 'q'
:	lengthOf
    [	10 , ""a	b"" ,
""a\""b""	] :	len
    00//
:len ,}
    ,@calculatedFrom(
""" ++ [233]%N ++ runes_of_ascii "t" ++ [233]%N ++ runes_of_ascii """  )char[]Z9_
    ,	repeat stringy
`tab	here`
, match MetaDataX	as T { ""// no comment""	: Packet , 42
: int ,	} , char[ 7
] MetaDataX`a\` , msg_type chars ,
    int8 msg_type`doc`
,char[]
    msg_type @calculatedFrom(
""\n"" )
, }packet x_y_z {
}	root//
packet float { @tag(65535 ) repeat char[] x_y_z
, match asx as // c
As
{
    4294967296 :u
, 0 // " ++ [27880; 37322]%N ++ runes_of_ascii "
:
Foo""" ++ [128512]%N ++ runes_of_ascii """ : u
    ,  00 :f32a ,255 : u
    , }, len {
    repeat pack { float32	len `tab	here` , char[ 10
    ]
u
,Packet ,repeat i8 int
    ,} , } ,@leftPad /// triple
( ) @calculatedFrom( // `tick` ""quote"" 'q'
""{,}""
    ) repeat //x
string
    int, // a // b
@tag( 0 ) i64 float // @lengthOf(
@lengthOf( asx)
// `tick` ""quote"" 'q'
// " ++ [27880; 37322]%N ++ runes_of_ascii "
`// not a comment` ,
    @calculatedFrom( ""packet""  )
@leftPad ( )
repeat	uint64 o ,o
    //x
    { i8
    Z9_ @calculatedFrom(
    ""a	b""),	roots // `tick` ""quote"" 'q'
`it's`  ,  i8i8 crc , } , @tag( 10 ) @lengthOf(
    trueish ) @lengthOf( u128 )char[	42
] falsey @lengthOf( crc ) , }")).
Eval vm_compute in ("<<<M1617>>>" ++ check (runes_of_ascii "packet u128
{
    //	t
    MetaDataX float
`// not a comment` ,
@tag( 7) match
calculatedFrom as
    pack {
    0
    :	int , 65535 //x
: body , [	1
    , 255 , 0123456789 ,
    """ ++ [28040; 24687]%N ++ runes_of_ascii """ ,	0 ,  7 , """" ,
""\" ++ [233]%N ++ runes_of_ascii """	]	: MetaDataX ,//	t
""a	b""
    : leftPad ,
""x y""
:
    Logon
    // trailing space 
    """ ++ [233]%N ++ runes_of_ascii "t" ++ [233]%N ++ runes_of_ascii """ : Header	, }
,
    match len as packetx
//x
// `tick` ""quote"" 'q'
{0 :
// @lengthOf(
// `tick` ""quote"" 'q'
o , [""" ++ [128512]%N ++ runes_of_ascii """,
""x y"" ] : crc /// triple
,	10:options1 ,[ 42,
//
// " ++ [128512]%N ++ runes_of_ascii " emoji
""a\""b""
    /// triple
    , 42 ,
    7 ]
:
// @lengthOf(
// a // b
stringy
// @lengthOf(
/// triple
,  } , @lengthOf(packetx  )
i16 msg_type ,	} MetaData crc	{ float64 // packet A { u8 x, }
stringy ,	char[]
    chars `two words` ,u8x i64_
,zchar[ 10 ]falsey, }
packet msg_type{ }
")).
Eval vm_compute in ("<<<M1649>>>" ++ check (runes_of_ascii "packet roots { @calculatedFrom(	""\n""
) f32
crc@lengthOf( MetaDataX )
`line1
line2` ,
    uint8
    stringy  , }
")).
Eval vm_compute in ("<<<M1681>>>" ++ check (runes_of_ascii "options
/// triple
/// triple
{  lengthOf// trailing space 
= 255
; x=	'0' ; crc=
    '\x00' ;
roots
    = ""1"" ;}")).
Eval vm_compute in ("<<<M1713>>>" ++ check (runes_of_ascii "MetaData
    calculatedFrom
    // a // b
    {
    // @lengthOf(
    T
int ,string i8i8 `// not a comment` ,i16
charz
/// triple
/// triple
`" ++ [28040; 24687; 31867; 22411]%N ++ runes_of_ascii "`
    ,	u32 roots ,
    } packet As
{ @tag(
10) @calculatedFrom( ""1"" ) len BodyLength `two words`, repeat
char[] options1 `tab	here`, }  packet x_y_z // trailing space 
{
string
    metadata	@lengthOf(
    Pad	) ,
@rightPad ( ) // " ++ [27880; 37322]%N ++ runes_of_ascii "
@tag(10 //	t
) u8x As, // a // b
}
")).
Eval vm_compute in ("<<<M1745>>>" ++ check (runes_of_ascii "root
packet charz{ u8 As@lengthOf(
Header
), }")).
Eval vm_compute in ("<<<M1777>>>" ++ check (runes_of_ascii "options {  lengthOf	=
    false ;
    // c
    calculatedFrom = 7
    ; u8x /// triple
=u8
;msg_type
= char[7]  } /// triple")).
Eval vm_compute in ("<<<T1777>>>" ++ terms [mkTok 1 "options" 1 0 false; mkTok 2 "{" 1 8 false; mkTok 42 "lengthOf" 1 11 false; mkTok 4 "=" 1 20 false; mkTok 11 "false" 2 4 false; mkTok 41 ";" 2 10 false; mkTok 44 "// c" 3 4 true; mkTok 42 "calculatedFrom" 4 4 false; mkTok 4 "=" 4 19 false; mkTok 30 "7" 4 21 false; mkTok 41 ";" 5 4 false; mkTok 42 "u8x" 5 6 false; mkTok 44 "/// triple" 5 10 true; mkTok 4 "=" 6 0 false; mkTok 20 "u8" 6 1 false; mkTok 41 ";" 7 0 false; mkTok 42 "msg_type" 7 1 false; mkTok 4 "=" 8 0 false; mkTok 12 "char[" 8 2 false; mkTok 30 "7" 8 7 false; mkTok 13 "]" 8 8 false; mkTok 3 "}" 8 11 false; mkTok 44 "/// triple" 8 13 true; mkTok 0 "<EOF>" 8 23 false] (mkPacket (mkPtok 1 "options" 1 0 0) (Some (mkPtok 3 "}" 8 11 21)) [(DOption (mkOptionDef (mkSpan (mkPtok 1 "options" 1 0 0) (mkPtok 3 "}" 8 11 21)) (mkPtok 1 "options" 1 0 0) (mkPtok 2 "{" 1 8 1) [(mkOptionDecl (mkSpan (mkPtok 42 "lengthOf" 1 11 2) (mkPtok 41 ";" 2 10 5)) (mkPtok 42 "lengthOf" 1 11 2) (mkPtok 4 "=" 1 20 3) (VFalse (mkSpan (mkPtok 11 "false" 2 4 4) (mkPtok 11 "false" 2 4 4)) (mkPtok 11 "false" 2 4 4)) (Some (mkPtok 41 ";" 2 10 5))); (mkOptionDecl (mkSpan (mkPtok 42 "calculatedFrom" 4 4 7) (mkPtok 41 ";" 5 4 10)) (mkPtok 42 "calculatedFrom" 4 4 7) (mkPtok 4 "=" 4 19 8) (VDigits (mkSpan (mkPtok 30 "7" 4 21 9) (mkPtok 30 "7" 4 21 9)) (mkPtok 30 "7" 4 21 9)) (Some (mkPtok 41 ";" 5 4 10))); (mkOptionDecl (mkSpan (mkPtok 42 "u8x" 5 6 11) (mkPtok 41 ";" 7 0 15)) (mkPtok 42 "u8x" 5 6 11) (mkPtok 4 "=" 6 0 13) (VType (mkSpan (mkPtok 20 "u8" 6 1 14) (mkPtok 20 "u8" 6 1 14)) (TyBasic (mkSpan (mkPtok 20 "u8" 6 1 14) (mkPtok 20 "u8" 6 1 14)) (mkBasicType (mkSpan (mkPtok 20 "u8" 6 1 14) (mkPtok 20 "u8" 6 1 14)) (mkPtok 20 "u8" 6 1 14)))) (Some (mkPtok 41 ";" 7 0 15))); (mkOptionDecl (mkSpan (mkPtok 42 "msg_type" 7 1 16) (mkPtok 13 "]" 8 8 20)) (mkPtok 42 "msg_type" 7 1 16) (mkPtok 4 "=" 8 0 17) (VType (mkSpan (mkPtok 12 "char[" 8 2 18) (mkPtok 13 "]" 8 8 20)) (TyFixed (mkSpan (mkPtok 12 "char[" 8 2 18) (mkPtok 13 "]" 8 8 20)) (mkFixedString (mkSpan (mkPtok 12 "char[" 8 2 18) (mkPtok 13 "]" 8 8 20)) (mkPtok 12 "char[" 8 2 18) (mkPtok 30 "7" 8 7 19) (mkPtok 13 "]" 8 8 20)))) None)] (mkPtok 3 "}" 8 11 21)))])).
Eval vm_compute in ("<<<M1809>>>" ++ check (runes_of_ascii "packet rootA
    // trailing space 
    { @tag(
007
    )	u32 x_y_z
    `say ""hi""` , uint8 string_ , @calculatedFrom( ""1"") @calculatedFrom(
    ""a\\"" // trailing space 
) @tag( 4294967296 )repeat
    string matchKey
`crlf
line` ,  }
")).
Eval vm_compute in ("<<<M1841>>>" ++ check (runes_of_ascii "
options // trailing space 
{stringy =
10 int=
    string
; }
")).
Eval vm_compute in ("<<<M1873>>>" ++ check (runes_of_ascii "packet
    //	t
    f32a {
    A`` ,
f64 As @lengthOf(
trueish )
,
u64 u128
    @lengthOf( len
    ), @tag( 10 ) char[ 10 ] zchar
    //	t
    @lengthOf(
    o /// triple
) `" ++ [28040; 24687; 31867; 22411]%N ++ runes_of_ascii "` ,  match pack as trueish {	255 :
Logon, [	""" ++ [28040; 24687]%N ++ runes_of_ascii """ ,65535, """ ++ [233]%N ++ runes_of_ascii "t" ++ [233]%N ++ runes_of_ascii """ ,"""" //x
, ""it's"" ] :
body , 65535 // trailing space 
:u , 1 : x
, } , repeat
//
// a // b
zchar[
007 ]
    Pad ,  }
")).
Eval vm_compute in ("<<<M1905>>>" ++ check (runes_of_ascii "packet  pack
{ @calculatedFrom(
""x y""
// packet A { u8 x, }
// packet A { u8 x, }
)char[ 0 ]
o ,
    // trailing space 
    } //	t
root
    packet
    // `tick` ""quote"" 'q'
    u128{
    i32 u@lengthOf(
    Pad
    // packet A { u8 x, }
    ) , char Logon @calculatedFrom( ""x y""	) , }")).
Eval vm_compute in ("<<<M1937>>>" ++ check (runes_of_ascii "packet int{ }
")).
Eval vm_compute in ("<<<M1969>>>" ++ check (runes_of_ascii "
root packet chars { u128 @calculatedFrom(
    // packet A { u8 x, }
    ""\n""
) `
` ,  char[]	metadata ,
@leftPad
( ) u8x
    u8x  , match lengthOf as
    Foo {	0123456789
: len , 4294967296 :As ,
    // trailing space 
    65535: roots	, ""`tick`"" :
Header }
, @tag(
    0123456789
    //	t
    ) @tag(// `tick` ""quote"" 'q'
255 ) @lengthOf( u) repeat// " ++ [27880; 37322]%N ++ runes_of_ascii "
chars `u8 x,`
    , char[] packetx , @rightPad( '0'
    )
@tag(
0123456789 ) @calculatedFrom( ""// no comment"")
int8 calculatedFrom	@lengthOf(u8x ) `it's`
,
    repeat u32 asx ,  }MetaData options1 {  i32 stringy
,leftPad packetx `crlf
line` , } root packet u {@tag( // `tick` ""quote"" 'q'
42 ) //	t
@lengthOf( metadata ) repeat uint8x `" ++ [28040; 24687; 31867; 22411]%N ++ runes_of_ascii "`, }")).
Eval vm_compute in ("<<<M2001>>>" ++ check (runes_of_ascii "options {
	StringPrefixLenType = u16;
	ArrayPrefixLenType = u16;
}

packet SampleBinary {
    uint16 MsgType `" ++ [28040; 24687; 31867; 22411]%N ++ runes_of_ascii "`,
    u16 BodyLenght @lengthOf(Body) `" ++ [28040; 24687; 20307; 38271; 24230]%N ++ runes_of_ascii "`,
    match MsgType as Body {
        1 : Logon,
        2 : Logout,
        3 : Heartbeat,
        4 : RiskControlRequest,
        5 : RiskControlResponse,
    },
        @calculatedFrom(""CRC32"")
    u32 Ckecksum `" ++ [26657; 39564; 21644]%N ++ runes_of_ascii "`,
}

packet Logon {
     @leftPad('0')
    char[10] UserName `" ++ [29992; 25143; 21517]%N ++ runes_of_ascii "`,
    string Password `" ++ [23494; 30721]%N ++ runes_of_ascii "`,
    uint64 ClientId `" ++ [23458; 25143; 31471]%N ++ runes_of_ascii "ID`,
    u16 HeartbeatInterval `" ++ [24515; 36339; 38388; 38548]%N ++ runes_of_ascii "`,
}

packet Logout {
      @rightPad('0')
    char[10] UserName `" ++ [29992; 25143; 21517]%N ++ runes_of_ascii "`,
    uint64 ClientId `" ++ [23458; 25143; 31471]%N ++ runes_of_ascii "ID`,
}

packet Heartbeat {
}

packet RiskControlRequest {
    string UniqueOrderId `" ++ [21807; 19968; 35746; 21333; 21495]%N ++ runes_of_ascii "`,
    char[16] ClOrdID `" ++ [23458; 25143; 35746; 21333; 21495]%N ++ runes_of_ascii "`,
    char[3] MarketID `" ++ [24066; 22330]%N ++ runes_of_ascii "id`,
    char[12] SecurityID `" ++ [35777; 21048; 20195; 30721]%N ++ runes_of_ascii "`,
    char Side `" ++ [20080; 21334; 26041; 21521]%N ++ runes_of_ascii "`,
    char OrderType `" ++ [35746; 21333; 31867; 22411]%N ++ runes_of_ascii "`,
    u64 Price `" ++ [20215; 26684]%N ++ runes_of_ascii "`,
    u32 Qty `" ++ [25968; 37327]%N ++ runes_of_ascii "`,
    repeat string ExtraInfo `" ++ [38468; 21152; 20449; 24687]%N ++ runes_of_ascii "`,
    repeat SubOrder {
    		char[16] ClOrdID `" ++ [23376; 35746; 21333; 21495]%N ++ runes_of_ascii "`,
    		u64 Price `" ++ [23376; 35746; 21333; 20215; 26684]%N ++ runes_of_ascii "`,
    		u32 Qty `" ++ [23376; 35746; 21333; 25968; 37327]%N ++ runes_of_ascii "`,
    	},
}

packet RiskControlResponse {
    string UniqueOrderId `" ++ [21807; 19968; 35746; 21333; 21495]%N ++ runes_of_ascii "`,
    i32 Status `" ++ [29366; 24577]%N ++ runes_of_ascii "`,
    string Msg `" ++ [32467; 26524; 20449; 24687]%N ++ runes_of_ascii "`,
    repeat Detail,
}

packet Detail {
    string RuleName `" ++ [35268; 21017; 21517; 31216]%N ++ runes_of_ascii "`,
    u16 Code `" ++ [21407; 22240; 20195; 30721]%N ++ runes_of_ascii "`,
}")).
Eval vm_compute in ("<<<T2001>>>" ++ terms [mkTok 1 "options" 1 0 false; mkTok 2 "{" 1 8 false; mkTok 42 "StringPrefixLenType" 2 1 false; mkTok 4 "=" 2 21 false; mkTok 21 "u16" 2 23 false; mkTok 41 ";" 2 26 false; mkTok 42 "ArrayPrefixLenType" 3 1 false; mkTok 4 "=" 3 20 false; mkTok 21 "u16" 3 22 false; mkTok 41 ";" 3 25 false; mkTok 3 "}" 4 0 false; mkTok 35 "packet" 6 0 false; mkTok 42 "SampleBinary" 6 7 false; mkTok 2 "{" 6 20 false; mkTok 21 "uint16" 7 4 false; mkTok 42 "MsgType" 7 11 false; mkTok 43 (string_of_bytes [96; 230; 182; 136; 230; 129; 175; 231; 177; 187; 229; 158; 139; 96]%N) 7 19 false; mkTok 40 "," 7 25 false; mkTok 21 "u16" 8 4 false; mkTok 42 "BodyLenght" 8 8 false; mkTok 7 "@lengthOf(" 8 19 false; mkTok 42 "Body" 8 29 false; mkTok 6 ")" 8 33 false; mkTok 43 (string_of_bytes [96; 230; 182; 136; 230; 129; 175; 228; 189; 147; 233; 149; 191; 229; 186; 166; 96]%N) 8 35 false; mkTok 40 "," 8 42 false; mkTok 38 "match" 9 4 false; mkTok 42 "MsgType" 9 10 false; mkTok 17 "as" 9 18 false; mkTok 42 "Body" 9 21 false; mkTok 2 "{" 9 26 false; mkTok 30 "1" 10 8 false; mkTok 39 ":" 10 10 false; mkTok 42 "Logon" 10 12 false; mkTok 40 "," 10 17 false; mkTok 30 "2" 11 8 false; mkTok 39 ":" 11 10 false; mkTok 42 "Logout" 11 12 false; mkTok 40 "," 11 18 false; mkTok 30 "3" 12 8 false; mkTok 39 ":" 12 10 false; mkTok 42 "Heartbeat" 12 12 false; mkTok 40 "," 12 21 false; mkTok 30 "4" 13 8 false; mkTok 39 ":" 13 10 false; mkTok 42 "RiskControlRequest" 13 12 false; mkTok 40 "," 13 30 false; mkTok 30 "5" 14 8 false; mkTok 39 ":" 14 10 false; mkTok 42 "RiskControlResponse" 14 12 false; mkTok 40 "," 14 31 false; mkTok 3 "}" 15 4 false; mkTok 40 "," 15 5 false; mkTok 5 "@calculatedFrom(" 16 8 false; mkTok 31 """CRC32""" 16 24 false; mkTok 6 ")" 16 31 false; mkTok 22 "u32" 17 4 false; mkTok 42 "Ckecksum" 17 8 false; mkTok 43 (string_of_bytes [96; 230; 160; 161; 233; 170; 140; 229; 146; 140; 96]%N) 17 17 false; mkTok 40 "," 17 22 false; mkTok 3 "}" 18 0 false; mkTok 35 "packet" 20 0 false; mkTok 42 "Logon" 20 7 false; mkTok 2 "{" 20 13 false; mkTok 32 "@leftPad" 21 5 false; mkTok 8 "(" 21 13 false; mkTok 33 "'0'" 21 14 false; mkTok 6 ")" 21 17 false; mkTok 12 "char[" 22 4 false; mkTok 30 "10" 22 9 false; mkTok 13 "]" 22 11 false; mkTok 42 "UserName" 22 13 false; mkTok 43 (string_of_bytes [96; 231; 148; 168; 230; 136; 183; 229; 144; 141; 96]%N) 22 22 false; mkTok 40 "," 22 27 false; mkTok 15 "string" 23 4 false; mkTok 42 "Password" 23 11 false; mkTok 43 (string_of_bytes [96; 229; 175; 134; 231; 160; 129; 96]%N) 23 20 false; mkTok 40 "," 23 24 false; mkTok 23 "uint64" 24 4 false; mkTok 42 "ClientId" 24 11 false; mkTok 43 (string_of_bytes [96; 229; 174; 162; 230; 136; 183; 231; 171; 175; 73; 68; 96]%N) 24 20 false; mkTok 40 "," 24 27 false; mkTok 21 "u16" 25 4 false; mkTok 42 "HeartbeatInterval" 25 8 false; mkTok 43 (string_of_bytes [96; 229; 191; 131; 232; 183; 179; 233; 151; 180; 233; 154; 148; 96]%N) 25 26 false; mkTok 40 "," 25 32 false; mkTok 3 "}" 26 0 false; mkTok 35 "packet" 28 0 false; mkTok 42 "Logout" 28 7 false; mkTok 2 "{" 28 14 false; mkTok 32 "@rightPad" 29 6 false; mkTok 8 "(" 29 15 false; mkTok 33 "'0'" 29 16 false; mkTok 6 ")" 29 19 false; mkTok 12 "char[" 30 4 false; mkTok 30 "10" 30 9 false; mkTok 13 "]" 30 11 false; mkTok 42 "UserName" 30 13 false; mkTok 43 (string_of_bytes [96; 231; 148; 168; 230; 136; 183; 229; 144; 141; 96]%N) 30 22 false; mkTok 40 "," 30 27 false; mkTok 23 "uint64" 31 4 false; mkTok 42 "ClientId" 31 11 false; mkTok 43 (string_of_bytes [96; 229; 174; 162; 230; 136; 183; 231; 171; 175; 73; 68; 96]%N) 31 20 false; mkTok 40 "," 31 27 false; mkTok 3 "}" 32 0 false; mkTok 35 "packet" 34 0 false; mkTok 42 "Heartbeat" 34 7 false; mkTok 2 "{" 34 17 false; mkTok 3 "}" 35 0 false; mkTok 35 "packet" 37 0 false; mkTok 42 "RiskControlRequest" 37 7 false; mkTok 2 "{" 37 26 false; mkTok 15 "string" 38 4 false; mkTok 42 "UniqueOrderId" 38 11 false; mkTok 43 (string_of_bytes [96; 229; 148; 175; 228; 184; 128; 232; 174; 162; 229; 141; 149; 229; 143; 183; 96]%N) 38 25 false; mkTok 40 "," 38 32 false; mkTok 12 "char[" 39 4 false; mkTok 30 "16" 39 9 false; mkTok 13 "]" 39 11 false; mkTok 42 "ClOrdID" 39 13 false; mkTok 43 (string_of_bytes [96; 229; 174; 162; 230; 136; 183; 232; 174; 162; 229; 141; 149; 229; 143; 183; 96]%N) 39 21 false; mkTok 40 "," 39 28 false; mkTok 12 "char[" 40 4 false; mkTok 30 "3" 40 9 false; mkTok 13 "]" 40 10 false; mkTok 42 "MarketID" 40 12 false; mkTok 43 (string_of_bytes [96; 229; 184; 130; 229; 156; 186; 105; 100; 96]%N) 40 21 false; mkTok 40 "," 40 27 false; mkTok 12 "char[" 41 4 false; mkTok 30 "12" 41 9 false; mkTok 13 "]" 41 11 false; mkTok 42 "SecurityID" 41 13 false; mkTok 43 (string_of_bytes [96; 232; 175; 129; 229; 136; 184; 228; 187; 163; 231; 160; 129; 96]%N) 41 24 false; mkTok 40 "," 41 30 false; mkTok 19 "char" 42 4 false; mkTok 42 "Side" 42 9 false; mkTok 43 (string_of_bytes [96; 228; 185; 176; 229; 141; 150; 230; 150; 185; 229; 144; 145; 96]%N) 42 14 false; mkTok 40 "," 42 20 false; mkTok 19 "char" 43 4 false; mkTok 42 "OrderType" 43 9 false; mkTok 43 (string_of_bytes [96; 232; 174; 162; 229; 141; 149; 231; 177; 187; 229; 158; 139; 96]%N) 43 19 false; mkTok 40 "," 43 25 false; mkTok 23 "u64" 44 4 false; mkTok 42 "Price" 44 8 false; mkTok 43 (string_of_bytes [96; 228; 187; 183; 230; 160; 188; 96]%N) 44 14 false; mkTok 40 "," 44 18 false; mkTok 22 "u32" 45 4 false; mkTok 42 "Qty" 45 8 false; mkTok 43 (string_of_bytes [96; 230; 149; 176; 233; 135; 143; 96]%N) 45 12 false; mkTok 40 "," 45 16 false; mkTok 36 "repeat" 46 4 false; mkTok 15 "string" 46 11 false; mkTok 42 "ExtraInfo" 46 18 false; mkTok 43 (string_of_bytes [96; 233; 153; 132; 229; 138; 160; 228; 191; 161; 230; 129; 175; 96]%N) 46 28 false; mkTok 40 "," 46 34 false; mkTok 36 "repeat" 47 4 false; mkTok 42 "SubOrder" 47 11 false; mkTok 2 "{" 47 20 false; mkTok 12 "char[" 48 6 false; mkTok 30 "16" 48 11 false; mkTok 13 "]" 48 13 false; mkTok 42 "ClOrdID" 48 15 false; mkTok 43 (string_of_bytes [96; 229; 173; 144; 232; 174; 162; 229; 141; 149; 229; 143; 183; 96]%N) 48 23 false; mkTok 40 "," 48 29 false; mkTok 23 "u64" 49 6 false; mkTok 42 "Price" 49 10 false; mkTok 43 (string_of_bytes [96; 229; 173; 144; 232; 174; 162; 229; 141; 149; 228; 187; 183; 230; 160; 188; 96]%N) 49 16 false; mkTok 40 "," 49 23 false; mkTok 22 "u32" 50 6 false; mkTok 42 "Qty" 50 10 false; mkTok 43 (string_of_bytes [96; 229; 173; 144; 232; 174; 162; 229; 141; 149; 230; 149; 176; 233; 135; 143; 96]%N) 50 14 false; mkTok 40 "," 50 21 false; mkTok 3 "}" 51 5 false; mkTok 40 "," 51 6 false; mkTok 3 "}" 52 0 false; mkTok 35 "packet" 54 0 false; mkTok 42 "RiskControlResponse" 54 7 false; mkTok 2 "{" 54 27 false; mkTok 15 "string" 55 4 false; mkTok 42 "UniqueOrderId" 55 11 false; mkTok 43 (string_of_bytes [96; 229; 148; 175; 228; 184; 128; 232; 174; 162; 229; 141; 149; 229; 143; 183; 96]%N) 55 25 false; mkTok 40 "," 55 32 false; mkTok 26 "i32" 56 4 false; mkTok 42 "Status" 56 8 false; mkTok 43 (string_of_bytes [96; 231; 138; 182; 230; 128; 129; 96]%N) 56 15 false; mkTok 40 "," 56 19 false; mkTok 15 "string" 57 4 false; mkTok 42 "Msg" 57 11 false; mkTok 43 (string_of_bytes [96; 231; 187; 147; 230; 158; 156; 228; 191; 161; 230; 129; 175; 96]%N) 57 15 false; mkTok 40 "," 57 21 false; mkTok 36 "repeat" 58 4 false; mkTok 42 "Detail" 58 11 false; mkTok 40 "," 58 17 false; mkTok 3 "}" 59 0 false; mkTok 35 "packet" 61 0 false; mkTok 42 "Detail" 61 7 false; mkTok 2 "{" 61 14 false; mkTok 15 "string" 62 4 false; mkTok 42 "RuleName" 62 11 false; mkTok 43 (string_of_bytes [96; 232; 167; 132; 229; 136; 153; 229; 144; 141; 231; 167; 176; 96]%N) 62 20 false; mkTok 40 "," 62 26 false; mkTok 21 "u16" 63 4 false; mkTok 42 "Code" 63 8 false; mkTok 43 (string_of_bytes [96; 229; 142; 159; 229; 155; 160; 228; 187; 163; 231; 160; 129; 96]%N) 63 13 false; mkTok 40 "," 63 19 false; mkTok 3 "}" 64 0 false; mkTok 0 "<EOF>" 64 1 false] (mkPacket (mkPtok 1 "options" 1 0 0) (Some (mkPtok 3 "}" 64 0 204)) [(DOption (mkOptionDef (mkSpan (mkPtok 1 "options" 1 0 0) (mkPtok 3 "}" 4 0 10)) (mkPtok 1 "options" 1 0 0) (mkPtok 2 "{" 1 8 1) [(mkOptionDecl (mkSpan (mkPtok 42 "StringPrefixLenType" 2 1 2) (mkPtok 41 ";" 2 26 5)) (mkPtok 42 "StringPrefixLenType" 2 1 2) (mkPtok 4 "=" 2 21 3) (VType (mkSpan (mkPtok 21 "u16" 2 23 4) (mkPtok 21 "u16" 2 23 4)) (TyBasic (mkSpan (mkPtok 21 "u16" 2 23 4) (mkPtok 21 "u16" 2 23 4)) (mkBasicType (mkSpan (mkPtok 21 "u16" 2 23 4) (mkPtok 21 "u16" 2 23 4)) (mkPtok 21 "u16" 2 23 4)))) (Some (mkPtok 41 ";" 2 26 5))); (mkOptionDecl (mkSpan (mkPtok 42 "ArrayPrefixLenType" 3 1 6) (mkPtok 41 ";" 3 25 9)) (mkPtok 42 "ArrayPrefixLenType" 3 1 6) (mkPtok 4 "=" 3 20 7) (VType (mkSpan (mkPtok 21 "u16" 3 22 8) (mkPtok 21 "u16" 3 22 8)) (TyBasic (mkSpan (mkPtok 21 "u16" 3 22 8) (mkPtok 21 "u16" 3 22 8)) (mkBasicType (mkSpan (mkPtok 21 "u16" 3 22 8) (mkPtok 21 "u16" 3 22 8)) (mkPtok 21 "u16" 3 22 8)))) (Some (mkPtok 41 ";" 3 25 9)))] (mkPtok 3 "}" 4 0 10))); (DPacket (mkPacketDef (mkSpan (mkPtok 35 "packet" 6 0 11) (mkPtok 3 "}" 18 0 59)) None (mkPtok 35 "packet" 6 0 11) (mkPtok 42 "SampleBinary" 6 7 12) (mkPtok 2 "{" 6 20 13) [(mkFieldWithAttr (mkSpan (mkPtok 21 "uint16" 7 4 14) (mkPtok 40 "," 7 25 17)) [] (MetaField (mkSpan (mkPtok 21 "uint16" 7 4 14) (mkPtok 40 "," 7 25 17)) None (mkMetaDecl (mkSpan (mkPtok 21 "uint16" 7 4 14) (mkPtok 40 "," 7 25 17)) (TyBasic (mkSpan (mkPtok 21 "uint16" 7 4 14) (mkPtok 21 "uint16" 7 4 14)) (mkBasicType (mkSpan (mkPtok 21 "uint16" 7 4 14) (mkPtok 21 "uint16" 7 4 14)) (mkPtok 21 "uint16" 7 4 14))) (mkPtok 42 "MsgType" 7 11 15) (Some (mkPtok 43 (string_of_bytes [96; 230; 182; 136; 230; 129; 175; 231; 177; 187; 229; 158; 139; 96]%N) 7 19 16)) (mkPtok 40 "," 7 25 17)))); (mkFieldWithAttr (mkSpan (mkPtok 21 "u16" 8 4 18) (mkPtok 40 "," 8 42 24)) [] (LengthField (mkSpan (mkPtok 21 "u16" 8 4 18) (mkPtok 40 "," 8 42 24)) (mkLengthFieldDecl (mkSpan (mkPtok 21 "u16" 8 4 18) (mkPtok 40 "," 8 42 24)) (Some (TyBasic (mkSpan (mkPtok 21 "u16" 8 4 18) (mkPtok 21 "u16" 8 4 18)) (mkBasicType (mkSpan (mkPtok 21 "u16" 8 4 18) (mkPtok 21 "u16" 8 4 18)) (mkPtok 21 "u16" 8 4 18)))) (mkPtok 42 "BodyLenght" 8 8 19) (mkLengthOf (mkSpan (mkPtok 7 "@lengthOf(" 8 19 20) (mkPtok 6 ")" 8 33 22)) (mkPtok 7 "@lengthOf(" 8 19 20) (mkPtok 42 "Body" 8 29 21) (mkPtok 6 ")" 8 33 22)) (Some (mkPtok 43 (string_of_bytes [96; 230; 182; 136; 230; 129; 175; 228; 189; 147; 233; 149; 191; 229; 186; 166; 96]%N) 8 35 23)) (mkPtok 40 "," 8 42 24)))); (mkFieldWithAttr (mkSpan (mkPtok 38 "match" 9 4 25) (mkPtok 40 "," 15 5 51)) [] (MatchField (mkSpan (mkPtok 38 "match" 9 4 25) (mkPtok 40 "," 15 5 51)) (mkMatchFieldDecl (mkSpan (mkPtok 38 "match" 9 4 25) (mkPtok 3 "}" 15 4 50)) (mkPtok 38 "match" 9 4 25) (mkPtok 42 "MsgType" 9 10 26) (mkPtok 17 "as" 9 18 27) (mkPtok 42 "Body" 9 21 28) (mkPtok 2 "{" 9 26 29) [(mkMatchPair (mkSpan (mkPtok 30 "1" 10 8 30) (mkPtok 40 "," 10 17 33)) (MKDigits (mkPtok 30 "1" 10 8 30)) (mkPtok 39 ":" 10 10 31) (mkPtok 42 "Logon" 10 12 32) (Some (mkPtok 40 "," 10 17 33))); (mkMatchPair (mkSpan (mkPtok 30 "2" 11 8 34) (mkPtok 40 "," 11 18 37)) (MKDigits (mkPtok 30 "2" 11 8 34)) (mkPtok 39 ":" 11 10 35) (mkPtok 42 "Logout" 11 12 36) (Some (mkPtok 40 "," 11 18 37))); (mkMatchPair (mkSpan (mkPtok 30 "3" 12 8 38) (mkPtok 40 "," 12 21 41)) (MKDigits (mkPtok 30 "3" 12 8 38)) (mkPtok 39 ":" 12 10 39) (mkPtok 42 "Heartbeat" 12 12 40) (Some (mkPtok 40 "," 12 21 41))); (mkMatchPair (mkSpan (mkPtok 30 "4" 13 8 42) (mkPtok 40 "," 13 30 45)) (MKDigits (mkPtok 30 "4" 13 8 42)) (mkPtok 39 ":" 13 10 43) (mkPtok 42 "RiskControlRequest" 13 12 44) (Some (mkPtok 40 "," 13 30 45))); (mkMatchPair (mkSpan (mkPtok 30 "5" 14 8 46) (mkPtok 40 "," 14 31 49)) (MKDigits (mkPtok 30 "5" 14 8 46)) (mkPtok 39 ":" 14 10 47) (mkPtok 42 "RiskControlResponse" 14 12 48) (Some (mkPtok 40 "," 14 31 49)))] (mkPtok 3 "}" 15 4 50)) (mkPtok 40 "," 15 5 51))); (mkFieldWithAttr (mkSpan (mkPtok 5 "@calculatedFrom(" 16 8 52) (mkPtok 40 "," 17 22 58)) [(FACalculatedFrom (mkSpan (mkPtok 5 "@calculatedFrom(" 16 8 52) (mkPtok 6 ")" 16 31 54)) (mkCalculatedFrom (mkSpan (mkPtok 5 "@calculatedFrom(" 16 8 52) (mkPtok 6 ")" 16 31 54)) (mkPtok 5 "@calculatedFrom(" 16 8 52) (mkPtok 31 """CRC32""" 16 24 53) (mkPtok 6 ")" 16 31 54)))] (MetaField (mkSpan (mkPtok 22 "u32" 17 4 55) (mkPtok 40 "," 17 22 58)) None (mkMetaDecl (mkSpan (mkPtok 22 "u32" 17 4 55) (mkPtok 40 "," 17 22 58)) (TyBasic (mkSpan (mkPtok 22 "u32" 17 4 55) (mkPtok 22 "u32" 17 4 55)) (mkBasicType (mkSpan (mkPtok 22 "u32" 17 4 55) (mkPtok 22 "u32" 17 4 55)) (mkPtok 22 "u32" 17 4 55))) (mkPtok 42 "Ckecksum" 17 8 56) (Some (mkPtok 43 (string_of_bytes [96; 230; 160; 161; 233; 170; 140; 229; 146; 140; 96]%N) 17 17 57)) (mkPtok 40 "," 17 22 58))))] (mkPtok 3 "}" 18 0 59))); (DPacket (mkPacketDef (mkSpan (mkPtok 35 "packet" 20 0 60) (mkPtok 3 "}" 26 0 85)) None (mkPtok 35 "packet" 20 0 60) (mkPtok 42 "Logon" 20 7 61) (mkPtok 2 "{" 20 13 62) [(mkFieldWithAttr (mkSpan (mkPtok 32 "@leftPad" 21 5 63) (mkPtok 40 "," 22 27 72)) [(FAPadding (mkSpan (mkPtok 32 "@leftPad" 21 5 63) (mkPtok 6 ")" 21 17 66)) (mkPaddingAttr (mkSpan (mkPtok 32 "@leftPad" 21 5 63) (mkPtok 6 ")" 21 17 66)) (mkPtok 32 "@leftPad" 21 5 63) (mkPtok 8 "(" 21 13 64) (Some (mkPtok 33 "'0'" 21 14 65)) (mkPtok 6 ")" 21 17 66)))] (MetaField (mkSpan (mkPtok 12 "char[" 22 4 67) (mkPtok 40 "," 22 27 72)) None (mkMetaDecl (mkSpan (mkPtok 12 "char[" 22 4 67) (mkPtok 40 "," 22 27 72)) (TyFixed (mkSpan (mkPtok 12 "char[" 22 4 67) (mkPtok 13 "]" 22 11 69)) (mkFixedString (mkSpan (mkPtok 12 "char[" 22 4 67) (mkPtok 13 "]" 22 11 69)) (mkPtok 12 "char[" 22 4 67) (mkPtok 30 "10" 22 9 68) (mkPtok 13 "]" 22 11 69))) (mkPtok 42 "UserName" 22 13 70) (Some (mkPtok 43 (string_of_bytes [96; 231; 148; 168; 230; 136; 183; 229; 144; 141; 96]%N) 22 22 71)) (mkPtok 40 "," 22 27 72)))); (mkFieldWithAttr (mkSpan (mkPtok 15 "string" 23 4 73) (mkPtok 40 "," 23 24 76)) [] (MetaField (mkSpan (mkPtok 15 "string" 23 4 73) (mkPtok 40 "," 23 24 76)) None (mkMetaDecl (mkSpan (mkPtok 15 "string" 23 4 73) (mkPtok 40 "," 23 24 76)) (TyDynamic (mkSpan (mkPtok 15 "string" 23 4 73) (mkPtok 15 "string" 23 4 73)) (mkDynamicString (mkSpan (mkPtok 15 "string" 23 4 73) (mkPtok 15 "string" 23 4 73)) (mkPtok 15 "string" 23 4 73))) (mkPtok 42 "Password" 23 11 74) (Some (mkPtok 43 (string_of_bytes [96; 229; 175; 134; 231; 160; 129; 96]%N) 23 20 75)) (mkPtok 40 "," 23 24 76)))); (mkFieldWithAttr (mkSpan (mkPtok 23 "uint64" 24 4 77) (mkPtok 40 "," 24 27 80)) [] (MetaField (mkSpan (mkPtok 23 "uint64" 24 4 77) (mkPtok 40 "," 24 27 80)) None (mkMetaDecl (mkSpan (mkPtok 23 "uint64" 24 4 77) (mkPtok 40 "," 24 27 80)) (TyBasic (mkSpan (mkPtok 23 "uint64" 24 4 77) (mkPtok 23 "uint64" 24 4 77)) (mkBasicType (mkSpan (mkPtok 23 "uint64" 24 4 77) (mkPtok 23 "uint64" 24 4 77)) (mkPtok 23 "uint64" 24 4 77))) (mkPtok 42 "ClientId" 24 11 78) (Some (mkPtok 43 (string_of_bytes [96; 229; 174; 162; 230; 136; 183; 231; 171; 175; 73; 68; 96]%N) 24 20 79)) (mkPtok 40 "," 24 27 80)))); (mkFieldWithAttr (mkSpan (mkPtok 21 "u16" 25 4 81) (mkPtok 40 "," 25 32 84)) [] (MetaField (mkSpan (mkPtok 21 "u16" 25 4 81) (mkPtok 40 "," 25 32 84)) None (mkMetaDecl (mkSpan (mkPtok 21 "u16" 25 4 81) (mkPtok 40 "," 25 32 84)) (TyBasic (mkSpan (mkPtok 21 "u16" 25 4 81) (mkPtok 21 "u16" 25 4 81)) (mkBasicType (mkSpan (mkPtok 21 "u16" 25 4 81) (mkPtok 21 "u16" 25 4 81)) (mkPtok 21 "u16" 25 4 81))) (mkPtok 42 "HeartbeatInterval" 25 8 82) (Some (mkPtok 43 (string_of_bytes [96; 229; 191; 131; 232; 183; 179; 233; 151; 180; 233; 154; 148; 96]%N) 25 26 83)) (mkPtok 40 "," 25 32 84))))] (mkPtok 3 "}" 26 0 85))); (DPacket (mkPacketDef (mkSpan (mkPtok 35 "packet" 28 0 86) (mkPtok 3 "}" 32 0 103)) None (mkPtok 35 "packet" 28 0 86) (mkPtok 42 "Logout" 28 7 87) (mkPtok 2 "{" 28 14 88) [(mkFieldWithAttr (mkSpan (mkPtok 32 "@rightPad" 29 6 89) (mkPtok 40 "," 30 27 98)) [(FAPadding (mkSpan (mkPtok 32 "@rightPad" 29 6 89) (mkPtok 6 ")" 29 19 92)) (mkPaddingAttr (mkSpan (mkPtok 32 "@rightPad" 29 6 89) (mkPtok 6 ")" 29 19 92)) (mkPtok 32 "@rightPad" 29 6 89) (mkPtok 8 "(" 29 15 90) (Some (mkPtok 33 "'0'" 29 16 91)) (mkPtok 6 ")" 29 19 92)))] (MetaField (mkSpan (mkPtok 12 "char[" 30 4 93) (mkPtok 40 "," 30 27 98)) None (mkMetaDecl (mkSpan (mkPtok 12 "char[" 30 4 93) (mkPtok 40 "," 30 27 98)) (TyFixed (mkSpan (mkPtok 12 "char[" 30 4 93) (mkPtok 13 "]" 30 11 95)) (mkFixedString (mkSpan (mkPtok 12 "char[" 30 4 93) (mkPtok 13 "]" 30 11 95)) (mkPtok 12 "char[" 30 4 93) (mkPtok 30 "10" 30 9 94) (mkPtok 13 "]" 30 11 95))) (mkPtok 42 "UserName" 30 13 96) (Some (mkPtok 43 (string_of_bytes [96; 231; 148; 168; 230; 136; 183; 229; 144; 141; 96]%N) 30 22 97)) (mkPtok 40 "," 30 27 98)))); (mkFieldWithAttr (mkSpan (mkPtok 23 "uint64" 31 4 99) (mkPtok 40 "," 31 27 102)) [] (MetaField (mkSpan (mkPtok 23 "uint64" 31 4 99) (mkPtok 40 "," 31 27 102)) None (mkMetaDecl (mkSpan (mkPtok 23 "uint64" 31 4 99) (mkPtok 40 "," 31 27 102)) (TyBasic (mkSpan (mkPtok 23 "uint64" 31 4 99) (mkPtok 23 "uint64" 31 4 99)) (mkBasicType (mkSpan (mkPtok 23 "uint64" 31 4 99) (mkPtok 23 "uint64" 31 4 99)) (mkPtok 23 "uint64" 31 4 99))) (mkPtok 42 "ClientId" 31 11 100) (Some (mkPtok 43 (string_of_bytes [96; 229; 174; 162; 230; 136; 183; 231; 171; 175; 73; 68; 96]%N) 31 20 101)) (mkPtok 40 "," 31 27 102))))] (mkPtok 3 "}" 32 0 103))); (DPacket (mkPacketDef (mkSpan (mkPtok 35 "packet" 34 0 104) (mkPtok 3 "}" 35 0 107)) None (mkPtok 35 "packet" 34 0 104) (mkPtok 42 "Heartbeat" 34 7 105) (mkPtok 2 "{" 34 17 106) [] (mkPtok 3 "}" 35 0 107))); (DPacket (mkPacketDef (mkSpan (mkPtok 35 "packet" 37 0 108) (mkPtok 3 "}" 52 0 173)) None (mkPtok 35 "packet" 37 0 108) (mkPtok 42 "RiskControlRequest" 37 7 109) (mkPtok 2 "{" 37 26 110) [(mkFieldWithAttr (mkSpan (mkPtok 15 "string" 38 4 111) (mkPtok 40 "," 38 32 114)) [] (MetaField (mkSpan (mkPtok 15 "string" 38 4 111) (mkPtok 40 "," 38 32 114)) None (mkMetaDecl (mkSpan (mkPtok 15 "string" 38 4 111) (mkPtok 40 "," 38 32 114)) (TyDynamic (mkSpan (mkPtok 15 "string" 38 4 111) (mkPtok 15 "string" 38 4 111)) (mkDynamicString (mkSpan (mkPtok 15 "string" 38 4 111) (mkPtok 15 "string" 38 4 111)) (mkPtok 15 "string" 38 4 111))) (mkPtok 42 "UniqueOrderId" 38 11 112) (Some (mkPtok 43 (string_of_bytes [96; 229; 148; 175; 228; 184; 128; 232; 174; 162; 229; 141; 149; 229; 143; 183; 96]%N) 38 25 113)) (mkPtok 40 "," 38 32 114)))); (mkFieldWithAttr (mkSpan (mkPtok 12 "char[" 39 4 115) (mkPtok 40 "," 39 28 120)) [] (MetaField (mkSpan (mkPtok 12 "char[" 39 4 115) (mkPtok 40 "," 39 28 120)) None (mkMetaDecl (mkSpan (mkPtok 12 "char[" 39 4 115) (mkPtok 40 "," 39 28 120)) (TyFixed (mkSpan (mkPtok 12 "char[" 39 4 115) (mkPtok 13 "]" 39 11 117)) (mkFixedString (mkSpan (mkPtok 12 "char[" 39 4 115) (mkPtok 13 "]" 39 11 117)) (mkPtok 12 "char[" 39 4 115) (mkPtok 30 "16" 39 9 116) (mkPtok 13 "]" 39 11 117))) (mkPtok 42 "ClOrdID" 39 13 118) (Some (mkPtok 43 (string_of_bytes [96; 229; 174; 162; 230; 136; 183; 232; 174; 162; 229; 141; 149; 229; 143; 183; 96]%N) 39 21 119)) (mkPtok 40 "," 39 28 120)))); (mkFieldWithAttr (mkSpan (mkPtok 12 "char[" 40 4 121) (mkPtok 40 "," 40 27 126)) [] (MetaField (mkSpan (mkPtok 12 "char[" 40 4 121) (mkPtok 40 "," 40 27 126)) None (mkMetaDecl (mkSpan (mkPtok 12 "char[" 40 4 121) (mkPtok 40 "," 40 27 126)) (TyFixed (mkSpan (mkPtok 12 "char[" 40 4 121) (mkPtok 13 "]" 40 10 123)) (mkFixedString (mkSpan (mkPtok 12 "char[" 40 4 121) (mkPtok 13 "]" 40 10 123)) (mkPtok 12 "char[" 40 4 121) (mkPtok 30 "3" 40 9 122) (mkPtok 13 "]" 40 10 123))) (mkPtok 42 "MarketID" 40 12 124) (Some (mkPtok 43 (string_of_bytes [96; 229; 184; 130; 229; 156; 186; 105; 100; 96]%N) 40 21 125)) (mkPtok 40 "," 40 27 126)))); (mkFieldWithAttr (mkSpan (mkPtok 12 "char[" 41 4 127) (mkPtok 40 "," 41 30 132)) [] (MetaField (mkSpan (mkPtok 12 "char[" 41 4 127) (mkPtok 40 "," 41 30 132)) None (mkMetaDecl (mkSpan (mkPtok 12 "char[" 41 4 127) (mkPtok 40 "," 41 30 132)) (TyFixed (mkSpan (mkPtok 12 "char[" 41 4 127) (mkPtok 13 "]" 41 11 129)) (mkFixedString (mkSpan (mkPtok 12 "char[" 41 4 127) (mkPtok 13 "]" 41 11 129)) (mkPtok 12 "char[" 41 4 127) (mkPtok 30 "12" 41 9 128) (mkPtok 13 "]" 41 11 129))) (mkPtok 42 "SecurityID" 41 13 130) (Some (mkPtok 43 (string_of_bytes [96; 232; 175; 129; 229; 136; 184; 228; 187; 163; 231; 160; 129; 96]%N) 41 24 131)) (mkPtok 40 "," 41 30 132)))); (mkFieldWithAttr (mkSpan (mkPtok 19 "char" 42 4 133) (mkPtok 40 "," 42 20 136)) [] (MetaField (mkSpan (mkPtok 19 "char" 42 4 133) (mkPtok 40 "," 42 20 136)) None (mkMetaDecl (mkSpan (mkPtok 19 "char" 42 4 133) (mkPtok 40 "," 42 20 136)) (TyBasic (mkSpan (mkPtok 19 "char" 42 4 133) (mkPtok 19 "char" 42 4 133)) (mkBasicType (mkSpan (mkPtok 19 "char" 42 4 133) (mkPtok 19 "char" 42 4 133)) (mkPtok 19 "char" 42 4 133))) (mkPtok 42 "Side" 42 9 134) (Some (mkPtok 43 (string_of_bytes [96; 228; 185; 176; 229; 141; 150; 230; 150; 185; 229; 144; 145; 96]%N) 42 14 135)) (mkPtok 40 "," 42 20 136)))); (mkFieldWithAttr (mkSpan (mkPtok 19 "char" 43 4 137) (mkPtok 40 "," 43 25 140)) [] (MetaField (mkSpan (mkPtok 19 "char" 43 4 137) (mkPtok 40 "," 43 25 140)) None (mkMetaDecl (mkSpan (mkPtok 19 "char" 43 4 137) (mkPtok 40 "," 43 25 140)) (TyBasic (mkSpan (mkPtok 19 "char" 43 4 137) (mkPtok 19 "char" 43 4 137)) (mkBasicType (mkSpan (mkPtok 19 "char" 43 4 137) (mkPtok 19 "char" 43 4 137)) (mkPtok 19 "char" 43 4 137))) (mkPtok 42 "OrderType" 43 9 138) (Some (mkPtok 43 (string_of_bytes [96; 232; 174; 162; 229; 141; 149; 231; 177; 187; 229; 158; 139; 96]%N) 43 19 139)) (mkPtok 40 "," 43 25 140)))); (mkFieldWithAttr (mkSpan (mkPtok 23 "u64" 44 4 141) (mkPtok 40 "," 44 18 144)) [] (MetaField (mkSpan (mkPtok 23 "u64" 44 4 141) (mkPtok 40 "," 44 18 144)) None (mkMetaDecl (mkSpan (mkPtok 23 "u64" 44 4 141) (mkPtok 40 "," 44 18 144)) (TyBasic (mkSpan (mkPtok 23 "u64" 44 4 141) (mkPtok 23 "u64" 44 4 141)) (mkBasicType (mkSpan (mkPtok 23 "u64" 44 4 141) (mkPtok 23 "u64" 44 4 141)) (mkPtok 23 "u64" 44 4 141))) (mkPtok 42 "Price" 44 8 142) (Some (mkPtok 43 (string_of_bytes [96; 228; 187; 183; 230; 160; 188; 96]%N) 44 14 143)) (mkPtok 40 "," 44 18 144)))); (mkFieldWithAttr (mkSpan (mkPtok 22 "u32" 45 4 145) (mkPtok 40 "," 45 16 148)) [] (MetaField (mkSpan (mkPtok 22 "u32" 45 4 145) (mkPtok 40 "," 45 16 148)) None (mkMetaDecl (mkSpan (mkPtok 22 "u32" 45 4 145) (mkPtok 40 "," 45 16 148)) (TyBasic (mkSpan (mkPtok 22 "u32" 45 4 145) (mkPtok 22 "u32" 45 4 145)) (mkBasicType (mkSpan (mkPtok 22 "u32" 45 4 145) (mkPtok 22 "u32" 45 4 145)) (mkPtok 22 "u32" 45 4 145))) (mkPtok 42 "Qty" 45 8 146) (Some (mkPtok 43 (string_of_bytes [96; 230; 149; 176; 233; 135; 143; 96]%N) 45 12 147)) (mkPtok 40 "," 45 16 148)))); (mkFieldWithAttr (mkSpan (mkPtok 36 "repeat" 46 4 149) (mkPtok 40 "," 46 34 153)) [] (MetaField (mkSpan (mkPtok 36 "repeat" 46 4 149) (mkPtok 40 "," 46 34 153)) (Some (mkPtok 36 "repeat" 46 4 149)) (mkMetaDecl (mkSpan (mkPtok 15 "string" 46 11 150) (mkPtok 40 "," 46 34 153)) (TyDynamic (mkSpan (mkPtok 15 "string" 46 11 150) (mkPtok 15 "string" 46 11 150)) (mkDynamicString (mkSpan (mkPtok 15 "string" 46 11 150) (mkPtok 15 "string" 46 11 150)) (mkPtok 15 "string" 46 11 150))) (mkPtok 42 "ExtraInfo" 46 18 151) (Some (mkPtok 43 (string_of_bytes [96; 233; 153; 132; 229; 138; 160; 228; 191; 161; 230; 129; 175; 96]%N) 46 28 152)) (mkPtok 40 "," 46 34 153)))); (mkFieldWithAttr (mkSpan (mkPtok 36 "repeat" 47 4 154) (mkPtok 40 "," 51 6 172)) [] (InerObjectField (mkSpan (mkPtok 36 "repeat" 47 4 154) (mkPtok 40 "," 51 6 172)) (Some (mkPtok 36 "repeat" 47 4 154)) (InerObjectDecl (mkSpan (mkPtok 42 "SubOrder" 47 11 155) (mkPtok 3 "}" 51 5 171)) (mkPtok 42 "SubOrder" 47 11 155) (mkPtok 2 "{" 47 20 156) [(MetaField (mkSpan (mkPtok 12 "char[" 48 6 157) (mkPtok 40 "," 48 29 162)) None (mkMetaDecl (mkSpan (mkPtok 12 "char[" 48 6 157) (mkPtok 40 "," 48 29 162)) (TyFixed (mkSpan (mkPtok 12 "char[" 48 6 157) (mkPtok 13 "]" 48 13 159)) (mkFixedString (mkSpan (mkPtok 12 "char[" 48 6 157) (mkPtok 13 "]" 48 13 159)) (mkPtok 12 "char[" 48 6 157) (mkPtok 30 "16" 48 11 158) (mkPtok 13 "]" 48 13 159))) (mkPtok 42 "ClOrdID" 48 15 160) (Some (mkPtok 43 (string_of_bytes [96; 229; 173; 144; 232; 174; 162; 229; 141; 149; 229; 143; 183; 96]%N) 48 23 161)) (mkPtok 40 "," 48 29 162))); (MetaField (mkSpan (mkPtok 23 "u64" 49 6 163) (mkPtok 40 "," 49 23 166)) None (mkMetaDecl (mkSpan (mkPtok 23 "u64" 49 6 163) (mkPtok 40 "," 49 23 166)) (TyBasic (mkSpan (mkPtok 23 "u64" 49 6 163) (mkPtok 23 "u64" 49 6 163)) (mkBasicType (mkSpan (mkPtok 23 "u64" 49 6 163) (mkPtok 23 "u64" 49 6 163)) (mkPtok 23 "u64" 49 6 163))) (mkPtok 42 "Price" 49 10 164) (Some (mkPtok 43 (string_of_bytes [96; 229; 173; 144; 232; 174; 162; 229; 141; 149; 228; 187; 183; 230; 160; 188; 96]%N) 49 16 165)) (mkPtok 40 "," 49 23 166))); (MetaField (mkSpan (mkPtok 22 "u32" 50 6 167) (mkPtok 40 "," 50 21 170)) None (mkMetaDecl (mkSpan (mkPtok 22 "u32" 50 6 167) (mkPtok 40 "," 50 21 170)) (TyBasic (mkSpan (mkPtok 22 "u32" 50 6 167) (mkPtok 22 "u32" 50 6 167)) (mkBasicType (mkSpan (mkPtok 22 "u32" 50 6 167) (mkPtok 22 "u32" 50 6 167)) (mkPtok 22 "u32" 50 6 167))) (mkPtok 42 "Qty" 50 10 168) (Some (mkPtok 43 (string_of_bytes [96; 229; 173; 144; 232; 174; 162; 229; 141; 149; 230; 149; 176; 233; 135; 143; 96]%N) 50 14 169)) (mkPtok 40 "," 50 21 170)))] (mkPtok 3 "}" 51 5 171)) (mkPtok 40 "," 51 6 172)))] (mkPtok 3 "}" 52 0 173))); (DPacket (mkPacketDef (mkSpan (mkPtok 35 "packet" 54 0 174) (mkPtok 3 "}" 59 0 192)) None (mkPtok 35 "packet" 54 0 174) (mkPtok 42 "RiskControlResponse" 54 7 175) (mkPtok 2 "{" 54 27 176) [(mkFieldWithAttr (mkSpan (mkPtok 15 "string" 55 4 177) (mkPtok 40 "," 55 32 180)) [] (MetaField (mkSpan (mkPtok 15 "string" 55 4 177) (mkPtok 40 "," 55 32 180)) None (mkMetaDecl (mkSpan (mkPtok 15 "string" 55 4 177) (mkPtok 40 "," 55 32 180)) (TyDynamic (mkSpan (mkPtok 15 "string" 55 4 177) (mkPtok 15 "string" 55 4 177)) (mkDynamicString (mkSpan (mkPtok 15 "string" 55 4 177) (mkPtok 15 "string" 55 4 177)) (mkPtok 15 "string" 55 4 177))) (mkPtok 42 "UniqueOrderId" 55 11 178) (Some (mkPtok 43 (string_of_bytes [96; 229; 148; 175; 228; 184; 128; 232; 174; 162; 229; 141; 149; 229; 143; 183; 96]%N) 55 25 179)) (mkPtok 40 "," 55 32 180)))); (mkFieldWithAttr (mkSpan (mkPtok 26 "i32" 56 4 181) (mkPtok 40 "," 56 19 184)) [] (MetaField (mkSpan (mkPtok 26 "i32" 56 4 181) (mkPtok 40 "," 56 19 184)) None (mkMetaDecl (mkSpan (mkPtok 26 "i32" 56 4 181) (mkPtok 40 "," 56 19 184)) (TyBasic (mkSpan (mkPtok 26 "i32" 56 4 181) (mkPtok 26 "i32" 56 4 181)) (mkBasicType (mkSpan (mkPtok 26 "i32" 56 4 181) (mkPtok 26 "i32" 56 4 181)) (mkPtok 26 "i32" 56 4 181))) (mkPtok 42 "Status" 56 8 182) (Some (mkPtok 43 (string_of_bytes [96; 231; 138; 182; 230; 128; 129; 96]%N) 56 15 183)) (mkPtok 40 "," 56 19 184)))); (mkFieldWithAttr (mkSpan (mkPtok 15 "string" 57 4 185) (mkPtok 40 "," 57 21 188)) [] (MetaField (mkSpan (mkPtok 15 "string" 57 4 185) (mkPtok 40 "," 57 21 188)) None (mkMetaDecl (mkSpan (mkPtok 15 "string" 57 4 185) (mkPtok 40 "," 57 21 188)) (TyDynamic (mkSpan (mkPtok 15 "string" 57 4 185) (mkPtok 15 "string" 57 4 185)) (mkDynamicString (mkSpan (mkPtok 15 "string" 57 4 185) (mkPtok 15 "string" 57 4 185)) (mkPtok 15 "string" 57 4 185))) (mkPtok 42 "Msg" 57 11 186) (Some (mkPtok 43 (string_of_bytes [96; 231; 187; 147; 230; 158; 156; 228; 191; 161; 230; 129; 175; 96]%N) 57 15 187)) (mkPtok 40 "," 57 21 188)))); (mkFieldWithAttr (mkSpan (mkPtok 36 "repeat" 58 4 189) (mkPtok 40 "," 58 17 191)) [] (ObjectField (mkSpan (mkPtok 36 "repeat" 58 4 189) (mkPtok 40 "," 58 17 191)) (Some (mkPtok 36 "repeat" 58 4 189)) (mkPtok 42 "Detail" 58 11 190) None None (mkPtok 40 "," 58 17 191)))] (mkPtok 3 "}" 59 0 192))); (DPacket (mkPacketDef (mkSpan (mkPtok 35 "packet" 61 0 193) (mkPtok 3 "}" 64 0 204)) None (mkPtok 35 "packet" 61 0 193) (mkPtok 42 "Detail" 61 7 194) (mkPtok 2 "{" 61 14 195) [(mkFieldWithAttr (mkSpan (mkPtok 15 "string" 62 4 196) (mkPtok 40 "," 62 26 199)) [] (MetaField (mkSpan (mkPtok 15 "string" 62 4 196) (mkPtok 40 "," 62 26 199)) None (mkMetaDecl (mkSpan (mkPtok 15 "string" 62 4 196) (mkPtok 40 "," 62 26 199)) (TyDynamic (mkSpan (mkPtok 15 "string" 62 4 196) (mkPtok 15 "string" 62 4 196)) (mkDynamicString (mkSpan (mkPtok 15 "string" 62 4 196) (mkPtok 15 "string" 62 4 196)) (mkPtok 15 "string" 62 4 196))) (mkPtok 42 "RuleName" 62 11 197) (Some (mkPtok 43 (string_of_bytes [96; 232; 167; 132; 229; 136; 153; 229; 144; 141; 231; 167; 176; 96]%N) 62 20 198)) (mkPtok 40 "," 62 26 199)))); (mkFieldWithAttr (mkSpan (mkPtok 21 "u16" 63 4 200) (mkPtok 40 "," 63 19 203)) [] (MetaField (mkSpan (mkPtok 21 "u16" 63 4 200) (mkPtok 40 "," 63 19 203)) None (mkMetaDecl (mkSpan (mkPtok 21 "u16" 63 4 200) (mkPtok 40 "," 63 19 203)) (TyBasic (mkSpan (mkPtok 21 "u16" 63 4 200) (mkPtok 21 "u16" 63 4 200)) (mkBasicType (mkSpan (mkPtok 21 "u16" 63 4 200) (mkPtok 21 "u16" 63 4 200)) (mkPtok 21 "u16" 63 4 200))) (mkPtok 42 "Code" 63 8 201) (Some (mkPtok 43 (string_of_bytes [96; 229; 142; 159; 229; 155; 160; 228; 187; 163; 231; 160; 129; 96]%N) 63 13 202)) (mkPtok 40 "," 63 19 203))))] (mkPtok 3 "}" 64 0 204)))])).
Eval vm_compute in ("<<<M2033>>>" ++ check (runes_of_ascii "options{ i64_ =")).
Eval vm_compute in ("<<<M2065>>>" ++ check (runes_of_ascii "options{ i64_ = string ; trueish =
    '\x00'
    leftPad = ""a\\"" ""a\\"" /// triple
; crc
    = 255; uint8x
=
""abc""
    ;}")).
Eval vm_compute in ("<<<M2097>>>" ++ check (runes_of_ascii "options{ i64_ = string ; trueish =
    '\x00'
    leftPad = ""a\\"" /// triple
; crc
    = 255; (
=
""abc""
    ;}")).
Eval vm_compute in ("<<<M2129>>>" ++ check (runes_of_ascii "options{ i64_ = string ; trueish \ =
    '\x00'
    leftPad = ""a\\"" /// triple
; crc
    = 255; uint8x
=
""abc""
    ;}")).
Eval vm_compute in ("<<<M2161>>>" ++ check (runes_of_ascii "  packet
asx
{
/// triple
// @lengthOf(
u32 stringy stringy
`" ++ [28040; 24687; 31867; 22411]%N ++ runes_of_ascii "` ,} MetaData
    A {string  _x, zchar Header `a\`
// @lengthOf(
// packet A { u8 x, }
, char[] MetaDataX
,zchar[ 1 ]
    matchKey
    , char[] //
u,	char[0123456789 ]
    matchKey
    `{ , }`, }
")).
Eval vm_compute in ("<<<M2193>>>" ++ check (runes_of_ascii "  packet
asx
{
/// triple
// @lengthOf(
u32 stringy
`" ++ [28040; 24687; 31867; 22411]%N ++ runes_of_ascii "` ,} MetaData
    A @rightPad string  _x, zchar Header `a\`
// @lengthOf(
// packet A { u8 x, }
, char[] MetaDataX
,zchar[ 1 ]
    matchKey
    , char[] //
u,	char[0123456789 ]
    matchKey
    `{ , }`, }
")).
Eval vm_compute in ("<<<M2225>>>" ++ check (runes_of_ascii "  packet
asx
{
/// triple
// @lengthOf(
u32 stringy
`" ++ [28040; 24687; 31867; 22411]%N ++ runes_of_ascii "` ,} MetaData
    A {string  _x, zchar Header `a\`
// @lengthOf(
// packet A { u8 x, }
 char[] MetaDataX
,zchar[ 1 ]
    matchKey
    , char[] //
u,	char[0123456789 ]
    matchKey
    `{ , }`, }
")).
Eval vm_compute in ("<<<M2257>>>" ++ check (runes_of_ascii "  packet
asx
{
/// triple
// @lengthOf(
u32 stringy
`" ++ [28040; 24687; 31867; 22411]%N ++ runes_of_ascii "` ,} MetaData
    A {string  _x, zchar Header `a\`
// @lengthOf(
// packet A { u8 x, }
, char[] MetaDataX
,zchar[ 1 matchKey
    ]
    , char[] //
u,	char[0123456789 ]
    matchKey
    `{ , }`, }
")).
Eval vm_compute in ("<<<M2289>>>" ++ check (runes_of_ascii "  packet
asx
{
/// triple
// @lengthOf(
u32 stringy
`" ++ [28040; 24687; 31867; 22411]%N ++ runes_of_ascii "` ,} MetaData
    A {string  _x, zchar Header `a\`
// @lengthOf(
// packet A { u8 x, }
, char[] MetaDataX
,zchar[ 1 ]
    matchKey
    , char[] //
u,")).
Eval vm_compute in ("<<<M2321>>>" ++ check (runes_of_ascii "  packet
asx
{
/// triple
// @lengthOf(
u32 stringy
`" ++ [28040; 24687; 31867; 22411]%N ++ runes_of_ascii "` ,} MetaData
    A {string  _x, zchar Header `a\`
// @lengthOf(
// packet A { u8 x, }
, char[] MetaDataX
,zchar[ 1 ]
    matchKey
    , char[] //
u,	char[0123456789 ]
    matchKey
 ")).
Eval vm_compute in ("<<<M2353>>>" ++ check (runes_of_ascii "root
    packet
{
Packet // trailing space 
matchKey `tab	here` ,}")).
Eval vm_compute in ("<<<M2385>>>" ++ check (runes_of_ascii "root
    packet
Packet
{ // trailing space 
matchKey `tab	here` " ++ [8232]%N ++ runes_of_ascii ",}")).
Eval vm_compute in ("<<<M2417>>>" ++ check (runes_of_ascii "options{ falsey // a // b

    '0' } options { repeatCount =
true ; string_// a // b
=
// c
// " ++ [27880; 37322]%N ++ runes_of_ascii "
int64
// trailing space 
/// triple
; } // @lengthOf(")).
Eval vm_compute in ("<<<M2449>>>" ++ check (runes_of_ascii "options{ falsey // a // b
=
    '0' } options { repeatCount true
= ; string_// a // b
=
// c
// " ++ [27880; 37322]%N ++ runes_of_ascii "
int64
// trailing space 
/// triple
; } // @lengthOf(")).
Eval vm_compute in ("<<<M2481>>>" ++ check (runes_of_ascii "options{ falsey // a // b
=
    '0' } options { repeatCount =
true ; string_// a // b
=
// c
// " ++ [27880; 37322]%N ++ runes_of_ascii "
int64")).
Eval vm_compute in ("<<<M2513>>>" ++ check (runes_of_ascii "options}root packet
metadata {
@lengthOf(x ) float32
body ``, }
    MetaData
Z9_
    {
    string string_ , Logon x
,
uint32
    // packet A { u8 x, }
    Z9_,asx
_x
    `tab	here` , }
")).
Eval vm_compute in ("<<<M2545>>>" ++ check (runes_of_ascii "options{}root packet
metadata {
x@lengthOf( ) float32
body ``, }
    MetaData
Z9_
    {
    string string_ , Logon x
,
uint32
    // packet A { u8 x, }
    Z9_,asx
_x
    `tab	here` , }
")).
Eval vm_compute in ("<<<M2577>>>" ++ check (runes_of_ascii "options{}root packet
metadata {
@lengthOf(x ) float32
body ``")).
Eval vm_compute in ("<<<M2609>>>" ++ check (runes_of_ascii "options{}root packet
metadata {
@lengthOf(x ) float32
body ``, }
    MetaData
Z9_
    {
    string string_ , , Logon x
,
uint32
    // packet A { u8 x, }
    Z9_,asx
_x
    `tab	here` , }
")).
Eval vm_compute in ("<<<M2641>>>" ++ check (runes_of_ascii "options{}root packet
metadata {
@lengthOf(x ) float32
body ``, }
    MetaData
Z9_
    {
    string string_ , Logon x
,
uint32
    // packet A { u8 x, }
    Z9_:asx
_x
    `tab	here` , }
")).
Eval vm_compute in ("<<<M2673>>>" ++ check (runes_of_ascii "options{}root packet
metadata {
@lengthOf(x ) float32
body ``, }
    M|etaData
Z9_
    {
    string string_ , Logon x
,
uint32
    // packet A { u8 x, }
    Z9_,asx
_x
    `tab	here` , }
")).
Eval vm_compute in ("<<<M2705>>>" ++ check (runes_of_ascii "options {
    falsey= =
""a\\"" ; }")).
Eval vm_compute in ("<<<M2737>>>" ++ check (runes_of_ascii "options {
    fal""sey=
""a\\"" ; }")).
Eval vm_compute in ("<<<M2769>>>" ++ check (runes_of_ascii "MetaData f32a
{
    //	t
    }")).
Eval vm_compute in ("<<<M2801>>>" ++ check (runes_of_ascii "MetaData f32a
{
    //	t
    }root
    pa~cket tag  {
}
")).
Eval vm_compute in ("<<<M2833>>>" ++ check (runes_of_ascii "
options
    {msg_type =
    }  float32 root
packet Z9_{ char /// triple
crc @lengthOf(
options1 ) //
,} MetaData a1{}
")).
Eval vm_compute in ("<<<M2865>>>" ++ check (runes_of_ascii "
options
    {msg_type =
    float32  }root
packet Z9_{")).
Eval vm_compute in ("<<<M2897>>>" ++ check (runes_of_ascii "
options
    {msg_type =
    float32  }root
packet Z9_{ char /// triple
crc @lengthOf(
options1 ) //
,} MetaData MetaData a1{}
")).
Eval vm_compute in ("<<<M2929>>>" ++ check (runes_of_ascii "
options
    {msg_type =
    float32  }root
packet Z9_{ char /// triple
crc @lengthOf(
options1 ) //
,} MetaDat`a a1{}
")).
Eval vm_compute in ("<<<M2961>>>" ++ check (runes_of_ascii "packet crc{ // " ++ [128512]%N ++ runes_of_ascii " emoji
repeat")).
Eval vm_compute in ("<<<M2993>>>" ++ check (runes_of_ascii "packet crc{ // " ++ [128512]%N ++ runes_of_ascii " emoji
repeat string i8i8
`a\`, }
|")).
Eval vm_compute in ("<<<M3025>>>" ++ check (runes_of_ascii "packet BodyLength {} zchar MetaData{ zchar[// @lengthOf(
42 ]
    pack , string_
A , char[]crc , _x trueish ,
// " ++ [27880; 37322]%N ++ runes_of_ascii "
// " ++ [128512]%N ++ runes_of_ascii " emoji
zchar[
    3 ]	T // trailing space 
, } packet body
{
    }
")).
Eval vm_compute in ("<<<M3057>>>" ++ check (runes_of_ascii "packet BodyLength {} MetaData zchar{ zchar[// @lengthOf(
42 ]")).
Eval vm_compute in ("<<<M3089>>>" ++ check (runes_of_ascii "packet BodyLength {} MetaData zchar{ zchar[// @lengthOf(
42 ]
    pack , string_
A , char[]crc , , _x trueish ,
// " ++ [27880; 37322]%N ++ runes_of_ascii "
// " ++ [128512]%N ++ runes_of_ascii " emoji
zchar[
    3 ]	T // trailing space 
, } packet body
{
    }
")).
Eval vm_compute in ("<<<M3121>>>" ++ check (runes_of_ascii "packet BodyLength {} MetaData zchar{ zchar[// @lengthOf(
42 ]
    pack , string_
A , char[]crc , _x trueish ,
// " ++ [27880; 37322]%N ++ runes_of_ascii "
// " ++ [128512]%N ++ runes_of_ascii " emoji
zchar[
    3 @calculatedFrom(	T // trailing space 
, } packet body
{
    }
")).
Eval vm_compute in ("<<<M3153>>>" ++ check (runes_of_ascii "packet BodyLength {} MetaData zchar{ zchar[// @lengthOf(
42 ]
    pack , string_
A , char[]crc , _x trueish ,
// " ++ [27880; 37322]%N ++ runes_of_ascii "
// " ++ [128512]%N ++ runes_of_ascii " emoji
zchar[
    3 ]	T // trailing space 
, } packet body
{
    
")).
Eval vm_compute in ("<<<M3185>>>" ++ check (runes_of_ascii "packet
string_ string_ {@lengthOf( int ) match packetx as f32a {
    1 :	calculatedFrom , }  ,
    } packet len
    //	t
    { @calculatedFrom( """ ++ [233]%N ++ runes_of_ascii "t" ++ [233]%N ++ runes_of_ascii """ ) body Header , char[] lengthOf  `two words` ,chars{repeat string_ matchKey ,
    } ,
    }
")).
Eval vm_compute in ("<<<M3217>>>" ++ check (runes_of_ascii "packet
string_ {@lengthOf( int ) match @rightPad as f32a {
    1 :	calculatedFrom , }  ,
    } packet len
    //	t
    { @calculatedFrom( """ ++ [233]%N ++ runes_of_ascii "t" ++ [233]%N ++ runes_of_ascii """ ) body Header , char[] lengthOf  `two words` ,chars{repeat string_ matchKey ,
    } ,
    }
")).
Eval vm_compute in ("<<<M3249>>>" ++ check (runes_of_ascii "packet
string_ {@lengthOf( int ) match packetx as f32a {
    1 :	calculatedFrom  }  ,
    } packet len
    //	t
    { @calculatedFrom( """ ++ [233]%N ++ runes_of_ascii "t" ++ [233]%N ++ runes_of_ascii """ ) body Header , char[] lengthOf  `two words` ,chars{repeat string_ matchKey ,
    } ,
    }
")).
Eval vm_compute in ("<<<M3281>>>" ++ check (runes_of_ascii "packet
string_ {@lengthOf( int ) match packetx as f32a {
    1 :	calculatedFrom , }  ,
    } packet len
    //	t
    @calculatedFrom( { """ ++ [233]%N ++ runes_of_ascii "t" ++ [233]%N ++ runes_of_ascii """ ) body Header , char[] lengthOf  `two words` ,chars{repeat string_ matchKey ,
    } ,
    }
")).
Eval vm_compute in ("<<<M3313>>>" ++ check (runes_of_ascii "packet
string_ {@lengthOf( int ) match packetx as f32a {
    1 :	calculatedFrom , }  ,
    } packet len
    //	t
    { @calculatedFrom( """ ++ [233]%N ++ runes_of_ascii "t" ++ [233]%N ++ runes_of_ascii """ ) body Header")).
Eval vm_compute in ("<<<M3345>>>" ++ check (runes_of_ascii "packet
string_ {@lengthOf( int ) match packetx as f32a {
    1 :	calculatedFrom , }  ,
    } packet len
    //	t
    { @calculatedFrom( """ ++ [233]%N ++ runes_of_ascii "t" ++ [233]%N ++ runes_of_ascii """ ) body Header , char[] lengthOf  `two words` ,chars{repeat repeat string_ matchKey ,
    } ,
    }
")).
Eval vm_compute in ("<<<M3377>>>" ++ check (runes_of_ascii "packet
string_ {@lengthOf( int ) match packetx as f32a {
    1 :	calculatedFrom , }  ,
    } packet len
    //	t
    { @calculatedFrom( """ ++ [233]%N ++ runes_of_ascii "t" ++ [233]%N ++ runes_of_ascii """ ) body Header , char[] lengthOf  `two words` ,chars{repeat string_ matchKey ,
    } ,")).
Eval vm_compute in ("<<<M3409>>>" ++ check (runes_of_ascii "/// triple
root
packet // packet A { u8 x, }
chars { @lengthOf() charz
stringy,  @tag(  0 ) // a // b
asx
    As
,
// trailing space 
// trailing space 
x_y_z {
repeat i16 charz , } ,	int16  crc ,}
")).
Eval vm_compute in ("<<<M3441>>>" ++ check (runes_of_ascii "/// triple
root
packet // packet A { u8 x, }
chars { @lengthOf(charz )
stringy,  @tag(  0 ) ) // a // b
asx
    As
,
// trailing space 
// trailing space 
x_y_z {
repeat i16 charz , } ,	int16  crc ,}
")).
Eval vm_compute in ("<<<M3473>>>" ++ check (runes_of_ascii "/// triple
root
packet // packet A { u8 x, }
chars { @lengthOf(charz )
stringy,  @tag(  0 ) // a // b
asx
    As
,
// trailing space 
// trailing space 
x_y_z {
repeat i16 charz ,  ,	int16  crc ,}
")).
Eval vm_compute in ("<<<M3505>>>" ++ check (runes_of_ascii "uint88")).
Eval vm_compute in ("<<<M3537>>>" ++ check (runes_of_ascii "'0'")).
Eval vm_compute in ("<<<M3569>>>" ++ check (runes_of_ascii "//x")).
Eval vm_compute in ("<<<M3601>>>" ++ check (runes_of_ascii "_")).
Eval vm_compute in ("<<<M3633>>>" ++ check (runes_of_ascii "packet A { u8 }")).
Eval vm_compute in ("<<<M3665>>>" ++ check (runes_of_ascii "packet A { B { u8 x, } C, }")).
Eval vm_compute in ("<<<M3697>>>" ++ check (runes_of_ascii "packet A { } ;")).
Eval vm_compute in ("<<<M3729>>>" ++ check (runes_of_ascii "options { a 1; }")).
Eval vm_compute in ("<<<M3761>>>" ++ check ([65279]%N)).
Eval vm_compute in ("<<<M3793>>>" ++ check (runes_of_ascii "P?I_o8^pTv>JgR2'&=tR9h^b39Uo\Zqt4vj+X6")).
Eval vm_compute in ("<<<M3825>>>" ++ check (runes_of_ascii "a;#""|IsnltjpaR)")).
Eval vm_compute in ("<<<M3857>>>" ++ check (runes_of_ascii "5~gSA-")).
Eval vm_compute in ("<<<M3889>>>" ++ check (runes_of_ascii "2%%!(C+fku2,$qS#Fv\L")).
Eval vm_compute in ("<<<M3921>>>" ++ check (runes_of_ascii "[J=X@9EiY<Sn8xxL+0G@6&jzS~^")).
Eval vm_compute in ("<<<M3953>>>" ++ check (runes_of_ascii "-yk:)""sx^BC1O(FDb9")).
Eval vm_compute in ("<<<M3985>>>" ++ check (runes_of_ascii "ENk~:b zSsN:y=2/X:u5Y$ f v")).
