From FP Require Import Lexer Parser ShowPT Digest.
From Coq Require Import String List NArith.
Import ListNotations.
Open Scope string_scope.
Set Printing Width 100000000.
Set Printing Depth 100000000.
Definition nl : string := String (Ascii.ascii_of_nat 10) EmptyString.
Definition model_lex (rs : list rune) : string := show_toks (lex rs).
Definition model_parse (rs : list rune) : string :=
  show_pt (match lex rs with Some ts => parse ts | None => None end).
(* coqc is slow at printing long strings: digests first (Digest.v), full texts on demand *)
Definition check (rs : list rune) : string :=
  digest (model_lex rs) ++ " " ++ digest (model_parse rs).
Definition full (rs : list rune) : string := model_lex rs ++ nl ++ model_parse rs.
Definition terms (ts : list tok) (t : pt) : string :=
  digest (show_toks (Some ts)) ++ " " ++ digest (show_pt (Some t)) ++ " " ++ digest (show_pt (parse ts)).
Definition terms_full (ts : list tok) (t : pt) : string :=
  show_toks (Some ts) ++ nl ++ show_pt (Some t) ++ nl ++ show_pt (parse ts).
Eval vm_compute in ("<<<M17>>>" ++ check (runes_of_ascii "MetaData
matchKey
    { trueish Packet `// not a comment` , stringy calculatedFrom`tab	here`
    //
    , matchKey  o `doc` , } // 50% %s")).
Eval vm_compute in ("<<<M49>>>" ++ check (runes_of_ascii "packet uint8x // 50% %s
{ char[]
crc`" ++ [233]%N ++ runes_of_ascii "`
,
u8 //x
BodyLength`crlf
line` , @tag(65535 )
@calculatedFrom( ""packet"" ) uint8x {
lengthOf
{ match
u8x as msg_type  {
    ""{,}"" : metadata
, 4294967296 : float ,10 :
a1 ,	65535 : len, """ ++ [128512]%N ++ runes_of_ascii """
: zchar ,[
""" ++ [128512]%N ++ runes_of_ascii """ ]
    :
Pad	,} , zchar[ 42 ] leftPad , f64/// triple
crc ,
    u64
A@calculatedFrom( ""CRC32"" ) , }
    , }
, @lengthOf(
crc) repeat
u128 Pad
    , stringy
    trueish`say ""hi""`
,
As matchKey  ,@tag( 10 )
    charz @calculatedFrom( ""it's"") // trailing space 
, // " ++ [128512]%N ++ runes_of_ascii " emoji
@rightPad (
' ' ) a1 float	,
}
")).
Eval vm_compute in ("<<<M81>>>" ++ check (runes_of_ascii "options {	Z9_ // packet A { u8 x, }
=	'0'charz
= 10 T =
// `tick` ""quote"" 'q'
//
""// no comment"" ; }
")).
Eval vm_compute in ("<<<M113>>>" ++ check (runes_of_ascii "options {
body ='\x00' u128 =
    i16 ; float = // packet A { u8 x, }
zchar[
65535 ]
; Z9_ =
""// no comment"" trueish
=// packet A { u8 x, }
false } // packet A { u8 x, }")).
Eval vm_compute in ("<<<M145>>>" ++ check (runes_of_ascii "root packet
chars{ @rightPad
    ( )o { roots `100% of %d` ,repeat uint64 pack
`` ,} // " ++ [128512]%N ++ runes_of_ascii " emoji
, }
")).
Eval vm_compute in ("<<<M177>>>" ++ check (runes_of_ascii "options{
    metadata = '0'}
options{u =
1 ;msg_type = string;	As = ""{,}"";
i8i8 = string; crc// `tick` ""quote"" 'q'
=
char[ 4294967296
] }")).
Eval vm_compute in ("<<<M209>>>" ++ check (runes_of_ascii "MetaData i64_
    { lengthOf tag ,
char[] falsey `a\`
/// triple
//	t
,}
")).
Eval vm_compute in ("<<<T209>>>" ++ terms [mkTok 37 "MetaData" 1 0 false; mkTok 42 "i64_" 1 9 false; mkTok 2 "{" 2 4 false; mkTok 42 "lengthOf" 2 6 false; mkTok 42 "tag" 2 15 false; mkTok 40 "," 2 19 false; mkTok 16 "char[]" 3 0 false; mkTok 42 "falsey" 3 7 false; mkTok 43 "`a\`" 3 14 false; mkTok 44 "/// triple" 4 0 true; mkTok 44 (string_of_bytes [47; 47; 9; 116]%N) 5 0 true; mkTok 40 "," 6 0 false; mkTok 3 "}" 6 1 false; mkTok 0 "<EOF>" 7 0 false] (mkPacket (mkPtok 37 "MetaData" 1 0 0) (Some (mkPtok 3 "}" 6 1 12)) [(DMeta (mkMetaDef (mkSpan (mkPtok 37 "MetaData" 1 0 0) (mkPtok 3 "}" 6 1 12)) (mkPtok 37 "MetaData" 1 0 0) (mkPtok 42 "i64_" 1 9 1) (mkPtok 2 "{" 2 4 2) [(MIRef (mkRefMetaDecl (mkSpan (mkPtok 42 "lengthOf" 2 6 3) (mkPtok 40 "," 2 19 5)) (mkPtok 42 "lengthOf" 2 6 3) (mkPtok 42 "tag" 2 15 4) None (mkPtok 40 "," 2 19 5))); (MIDecl (mkMetaDecl (mkSpan (mkPtok 16 "char[]" 3 0 6) (mkPtok 40 "," 6 0 11)) (TyDynamic (mkSpan (mkPtok 16 "char[]" 3 0 6) (mkPtok 16 "char[]" 3 0 6)) (mkDynamicString (mkSpan (mkPtok 16 "char[]" 3 0 6) (mkPtok 16 "char[]" 3 0 6)) (mkPtok 16 "char[]" 3 0 6))) (mkPtok 42 "falsey" 3 7 7) (Some (mkPtok 43 "`a\`" 3 14 8)) (mkPtok 40 "," 6 0 11)))] (mkPtok 3 "}" 6 1 12)))])).
Eval vm_compute in ("<<<M241>>>" ++ check (runes_of_ascii "
packet msg_type
{ match
    x_y_z as i8i8  { 0:As
// `tick` ""quote"" 'q'
//
,""packet"":
    // " ++ [27880; 37322]%N ++ runes_of_ascii "
    T
    , [
65535 , ""1"" ,00 , """ ++ [128512]%N ++ runes_of_ascii """
,  4294967296,
// " ++ [27880; 37322]%N ++ runes_of_ascii "
//	t
4294967296 ] : Logon// `tick` ""quote"" 'q'
,
[  ""\n"" ,// @lengthOf(
""packet"" ,
""// no comment""  ,1 , 1 ,
    ""`tick`""]  : rootA ,0123456789:falsey , } , As o , char[0 ]  float `// not a comment` , @calculatedFrom(""abc"")	@tag( 4294967296 ) repeat float32 BodyLength`crlf
line`
, msg_type @calculatedFrom(
""" ++ [128512]%N ++ runes_of_ascii """ )
// " ++ [27880; 37322]%N ++ runes_of_ascii "
// @lengthOf(
`a\` // `tick` ""quote"" 'q'
,
repeat int64 body , int16 a1 // trailing space 
@calculatedFrom( ""it's""
    // @lengthOf(
    ) , i16 //x
float `u8 x,`
    ,
    @leftPad // " ++ [27880; 37322]%N ++ runes_of_ascii "
(	'\x00' // " ++ [27880; 37322]%N ++ runes_of_ascii "
)// c
uint32 roots ,
    } packet Header { @calculatedFrom( ""`tick`"" ) char[
    00 ] packetx , @lengthOf( matchKey ) repeatCount
x_y_z
`{ , }` ,
}")).
Eval vm_compute in ("<<<M273>>>" ++ check (runes_of_ascii "
")).
Eval vm_compute in ("<<<M305>>>" ++ check (runes_of_ascii "packet // " ++ [128512]%N ++ runes_of_ascii " emoji
a1 {
@rightPad (
    //	t
    '\x00' )repeat string
x `" ++ [28040; 24687; 31867; 22411]%N ++ runes_of_ascii "` // a // b
,
    }packet i8i8 {zchar[  42 ] matchKey @calculatedFrom(""CRC32"")`it's` ,_x
    @calculatedFrom( ""x y""	),float32 Logon @lengthOf( matchKey
    ) , }
MetaData Foo { //x
Foo
T, }root packet pack	{ //
@calculatedFrom( ""1"" )Foo `" ++ [28040; 24687; 31867; 22411]%N ++ runes_of_ascii "`,
    @tag( //
00)u64 trueish ,repeat leftPad float `say ""hi""`
, i64 u @calculatedFrom( """" ) , }	MetaData o {
char[]i64_ ,body
    BodyLength
    `" ++ [233]%N ++ runes_of_ascii "`	,
string
Pad
`100% of %d`
    , calculatedFrom BodyLength`say ""hi""` , zchar[10 ] x , i64 falsey, }
")).
Eval vm_compute in ("<<<M337>>>" ++ check (runes_of_ascii "  root packet matchKey {zchar[1//x
]
i64_//x
@lengthOf(Pad ) ,  char[ 0123456789
    ] BodyLength`crlf
line`,@calculatedFrom(""" ++ [128512]%N ++ runes_of_ascii """)//x
o @calculatedFrom( ""1""
    ) `two words` ,
    char pack// " ++ [128512]%N ++ runes_of_ascii " emoji
@calculatedFrom(""it's"" ) ,} packet string_ { } root packet Z9_// " ++ [27880; 37322]%N ++ runes_of_ascii "
{ char[ 10] a1 , @tag(00) match
    metadata as tag  { ""it's"" : A ""{,}"" :body, }, @calculatedFrom(  ""a\""b""
    ) @rightPad( '0' ) i16 msg_type
@lengthOf( zchar) ``
,
float64// @lengthOf(
matchKey @lengthOf(  roots )`two words` ,
    @calculatedFrom( ""CRC32"" //x
)
    // " ++ [128512]%N ++ runes_of_ascii " emoji
    @tag( // packet A { u8 x, }
0
)@rightPad ( ' ' ) Foo @lengthOf( int
    //x
    ) `" ++ [28040; 24687; 31867; 22411]%N ++ runes_of_ascii "` ,
    @lengthOf(  o )	@tag( 42 )@tag( 1 //	t
) char[] Logon ,
@calculatedFrom(
// `tick` ""quote"" 'q'
// 50% %s
""a	b"" ) repeat
    u8  options1 , zchar[ 0 ] i64_ , } MetaData o// packet A { u8 x, }
{ body Header , i64 matchKey , pack body ,
}	MetaData crc
    // trailing space 
    { }")).
Eval vm_compute in ("<<<M369>>>" ++ check (runes_of_ascii "options { Z9_
=0 ; }
")).
Eval vm_compute in ("<<<M401>>>" ++ check (runes_of_ascii "
options
    {
    Foo= 00;zchar= 65535
    }
    root packet  tag { } // " ++ [27880; 37322]%N ++ runes_of_ascii "
MetaData
    MetaDataX { zchar[10
/// triple
//	t
] metadata  ,
uint16
    // packet A { u8 x, }
    Z9_
    //	t
    `line1
line2` , x_y_z lengthOf // " ++ [128512]%N ++ runes_of_ascii " emoji
`
`,uint16 BodyLength, char[] BodyLength	`// not a comment` ,}
packet uint8x{
    stringy , }
    // `tick` ""quote"" 'q'
    root
    packet u128 {repeat
    f32	Packet,
}
")).
Eval vm_compute in ("<<<M433>>>" ++ check (runes_of_ascii "
options { i64_
=
i32 ;
    msg_type
    =i64 msg_type
    = 007 ; } root
    packet
string_  {@tag( 00 )
//x
// `tick` ""quote"" 'q'
repeatCount i64_ , repeat
uint32 calculatedFrom
, // @lengthOf(
@tag( 4294967296// a // b
)@calculatedFrom( """" ) repeat
char[] calculatedFrom	, } options { roots =""// no comment"";	metadata
= int64 f32a =' ' ;
    i64_	= ""\" ++ [233]%N ++ runes_of_ascii """} packet // @lengthOf(
metadata//	t
{ match
Logon as Logon { 00 :BodyLength 10 : body 255
: //x
trueish , [	42, ""packet"",
""packet"", """ ++ [233]%N ++ runes_of_ascii "t" ++ [233]%N ++ runes_of_ascii """] :
lengthOf
,
} // `tick` ""quote"" 'q'
, } 	 ")).
Eval vm_compute in ("<<<T433>>>" ++ terms [mkTok 1 "options" 2 0 false; mkTok 2 "{" 2 8 false; mkTok 42 "i64_" 2 10 false; mkTok 4 "=" 3 0 false; mkTok 26 "i32" 4 0 false; mkTok 41 ";" 4 4 false; mkTok 42 "msg_type" 5 4 false; mkTok 4 "=" 6 4 false; mkTok 27 "i64" 6 5 false; mkTok 42 "msg_type" 6 9 false; mkTok 4 "=" 7 4 false; mkTok 30 "007" 7 6 false; mkTok 41 ";" 7 10 false; mkTok 3 "}" 7 12 false; mkTok 34 "root" 7 14 false; mkTok 35 "packet" 8 4 false; mkTok 42 "string_" 9 0 false; mkTok 2 "{" 9 9 false; mkTok 9 "@tag(" 9 10 false; mkTok 30 "00" 9 16 false; mkTok 6 ")" 9 19 false; mkTok 44 "//x" 10 0 true; mkTok 44 "// `tick` ""quote"" 'q'" 11 0 true; mkTok 42 "repeatCount" 12 0 false; mkTok 42 "i64_" 12 12 false; mkTok 40 "," 12 17 false; mkTok 36 "repeat" 12 19 false; mkTok 22 "uint32" 13 0 false; mkTok 42 "calculatedFrom" 13 7 false; mkTok 40 "," 14 0 false; mkTok 44 "// @lengthOf(" 14 2 true; mkTok 9 "@tag(" 15 0 false; mkTok 30 "4294967296" 15 6 false; mkTok 44 "// a // b" 15 16 true; mkTok 6 ")" 16 0 false; mkTok 5 "@calculatedFrom(" 16 1 false; mkTok 31 """""" 16 18 false; mkTok 6 ")" 16 21 false; mkTok 36 "repeat" 16 23 false; mkTok 16 "char[]" 17 0 false; mkTok 42 "calculatedFrom" 17 7 false; mkTok 40 "," 17 22 false; mkTok 3 "}" 17 24 false; mkTok 1 "options" 17 26 false; mkTok 2 "{" 17 34 false; mkTok 42 "roots" 17 36 false; mkTok 4 "=" 17 42 false; mkTok 31 """// no comment""" 17 43 false; mkTok 41 ";" 17 58 false; mkTok 42 "metadata" 17 60 false; mkTok 4 "=" 18 0 false; mkTok 27 "int64" 18 2 false; mkTok 42 "f32a" 18 8 false; mkTok 4 "=" 18 13 false; mkTok 33 "' '" 18 14 false; mkTok 41 ";" 18 18 false; mkTok 42 "i64_" 19 4 false; mkTok 4 "=" 19 9 false; mkTok 31 (string_of_bytes [34; 92; 195; 169; 34]%N) 19 11 false; mkTok 3 "}" 19 15 false; mkTok 35 "packet" 19 17 false; mkTok 44 "// @lengthOf(" 19 24 true; mkTok 42 "metadata" 20 0 false; mkTok 44 (string_of_bytes [47; 47; 9; 116]%N) 20 8 true; mkTok 2 "{" 21 0 false; mkTok 38 "match" 21 2 false; mkTok 42 "Logon" 22 0 false; mkTok 17 "as" 22 6 false; mkTok 42 "Logon" 22 9 false; mkTok 2 "{" 22 15 false; mkTok 30 "00" 22 17 false; mkTok 39 ":" 22 20 false; mkTok 42 "BodyLength" 22 21 false; mkTok 30 "10" 22 32 false; mkTok 39 ":" 22 35 false; mkTok 42 "body" 22 37 false; mkTok 30 "255" 22 42 false; mkTok 39 ":" 23 0 false; mkTok 44 "//x" 23 2 true; mkTok 42 "trueish" 24 0 false; mkTok 40 "," 24 8 false; mkTok 18 "[" 24 10 false; mkTok 30 "42" 24 12 false; mkTok 40 "," 24 14 false; mkTok 31 """packet""" 24 16 false; mkTok 40 "," 24 24 false; mkTok 31 """packet""" 25 0 false; mkTok 40 "," 25 8 false; mkTok 31 (string_of_bytes [34; 195; 169; 116; 195; 169; 34]%N) 25 10 false; mkTok 13 "]" 25 15 false; mkTok 39 ":" 25 17 false; mkTok 42 "lengthOf" 26 0 false; mkTok 40 "," 27 0 false; mkTok 3 "}" 28 0 false; mkTok 44 "// `tick` ""quote"" 'q'" 28 2 true; mkTok 40 "," 29 0 false; mkTok 3 "}" 29 2 false; mkTok 0 "<EOF>" 29 6 false] (mkPacket (mkPtok 1 "options" 2 0 0) (Some (mkPtok 3 "}" 29 2 96)) [(DOption (mkOptionDef (mkSpan (mkPtok 1 "options" 2 0 0) (mkPtok 3 "}" 7 12 13)) (mkPtok 1 "options" 2 0 0) (mkPtok 2 "{" 2 8 1) [(mkOptionDecl (mkSpan (mkPtok 42 "i64_" 2 10 2) (mkPtok 41 ";" 4 4 5)) (mkPtok 42 "i64_" 2 10 2) (mkPtok 4 "=" 3 0 3) (VType (mkSpan (mkPtok 26 "i32" 4 0 4) (mkPtok 26 "i32" 4 0 4)) (TyBasic (mkSpan (mkPtok 26 "i32" 4 0 4) (mkPtok 26 "i32" 4 0 4)) (mkBasicType (mkSpan (mkPtok 26 "i32" 4 0 4) (mkPtok 26 "i32" 4 0 4)) (mkPtok 26 "i32" 4 0 4)))) (Some (mkPtok 41 ";" 4 4 5))); (mkOptionDecl (mkSpan (mkPtok 42 "msg_type" 5 4 6) (mkPtok 27 "i64" 6 5 8)) (mkPtok 42 "msg_type" 5 4 6) (mkPtok 4 "=" 6 4 7) (VType (mkSpan (mkPtok 27 "i64" 6 5 8) (mkPtok 27 "i64" 6 5 8)) (TyBasic (mkSpan (mkPtok 27 "i64" 6 5 8) (mkPtok 27 "i64" 6 5 8)) (mkBasicType (mkSpan (mkPtok 27 "i64" 6 5 8) (mkPtok 27 "i64" 6 5 8)) (mkPtok 27 "i64" 6 5 8)))) None); (mkOptionDecl (mkSpan (mkPtok 42 "msg_type" 6 9 9) (mkPtok 41 ";" 7 10 12)) (mkPtok 42 "msg_type" 6 9 9) (mkPtok 4 "=" 7 4 10) (VDigits (mkSpan (mkPtok 30 "007" 7 6 11) (mkPtok 30 "007" 7 6 11)) (mkPtok 30 "007" 7 6 11)) (Some (mkPtok 41 ";" 7 10 12)))] (mkPtok 3 "}" 7 12 13))); (DPacket (mkPacketDef (mkSpan (mkPtok 34 "root" 7 14 14) (mkPtok 3 "}" 17 24 42)) (Some (mkPtok 34 "root" 7 14 14)) (mkPtok 35 "packet" 8 4 15) (mkPtok 42 "string_" 9 0 16) (mkPtok 2 "{" 9 9 17) [(mkFieldWithAttr (mkSpan (mkPtok 9 "@tag(" 9 10 18) (mkPtok 40 "," 12 17 25)) [(FATag (mkSpan (mkPtok 9 "@tag(" 9 10 18) (mkPtok 6 ")" 9 19 20)) (mkTagAttr (mkSpan (mkPtok 9 "@tag(" 9 10 18) (mkPtok 6 ")" 9 19 20)) (mkPtok 9 "@tag(" 9 10 18) (mkPtok 30 "00" 9 16 19) (mkPtok 6 ")" 9 19 20)))] (ObjectField (mkSpan (mkPtok 42 "repeatCount" 12 0 23) (mkPtok 40 "," 12 17 25)) None (mkPtok 42 "repeatCount" 12 0 23) (Some (mkPtok 42 "i64_" 12 12 24)) None (mkPtok 40 "," 12 17 25))); (mkFieldWithAttr (mkSpan (mkPtok 36 "repeat" 12 19 26) (mkPtok 40 "," 14 0 29)) [] (MetaField (mkSpan (mkPtok 36 "repeat" 12 19 26) (mkPtok 40 "," 14 0 29)) (Some (mkPtok 36 "repeat" 12 19 26)) (mkMetaDecl (mkSpan (mkPtok 22 "uint32" 13 0 27) (mkPtok 40 "," 14 0 29)) (TyBasic (mkSpan (mkPtok 22 "uint32" 13 0 27) (mkPtok 22 "uint32" 13 0 27)) (mkBasicType (mkSpan (mkPtok 22 "uint32" 13 0 27) (mkPtok 22 "uint32" 13 0 27)) (mkPtok 22 "uint32" 13 0 27))) (mkPtok 42 "calculatedFrom" 13 7 28) None (mkPtok 40 "," 14 0 29)))); (mkFieldWithAttr (mkSpan (mkPtok 9 "@tag(" 15 0 31) (mkPtok 40 "," 17 22 41)) [(FATag (mkSpan (mkPtok 9 "@tag(" 15 0 31) (mkPtok 6 ")" 16 0 34)) (mkTagAttr (mkSpan (mkPtok 9 "@tag(" 15 0 31) (mkPtok 6 ")" 16 0 34)) (mkPtok 9 "@tag(" 15 0 31) (mkPtok 30 "4294967296" 15 6 32) (mkPtok 6 ")" 16 0 34))); (FACalculatedFrom (mkSpan (mkPtok 5 "@calculatedFrom(" 16 1 35) (mkPtok 6 ")" 16 21 37)) (mkCalculatedFrom (mkSpan (mkPtok 5 "@calculatedFrom(" 16 1 35) (mkPtok 6 ")" 16 21 37)) (mkPtok 5 "@calculatedFrom(" 16 1 35) (mkPtok 31 """""" 16 18 36) (mkPtok 6 ")" 16 21 37)))] (MetaField (mkSpan (mkPtok 36 "repeat" 16 23 38) (mkPtok 40 "," 17 22 41)) (Some (mkPtok 36 "repeat" 16 23 38)) (mkMetaDecl (mkSpan (mkPtok 16 "char[]" 17 0 39) (mkPtok 40 "," 17 22 41)) (TyDynamic (mkSpan (mkPtok 16 "char[]" 17 0 39) (mkPtok 16 "char[]" 17 0 39)) (mkDynamicString (mkSpan (mkPtok 16 "char[]" 17 0 39) (mkPtok 16 "char[]" 17 0 39)) (mkPtok 16 "char[]" 17 0 39))) (mkPtok 42 "calculatedFrom" 17 7 40) None (mkPtok 40 "," 17 22 41))))] (mkPtok 3 "}" 17 24 42))); (DOption (mkOptionDef (mkSpan (mkPtok 1 "options" 17 26 43) (mkPtok 3 "}" 19 15 59)) (mkPtok 1 "options" 17 26 43) (mkPtok 2 "{" 17 34 44) [(mkOptionDecl (mkSpan (mkPtok 42 "roots" 17 36 45) (mkPtok 41 ";" 17 58 48)) (mkPtok 42 "roots" 17 36 45) (mkPtok 4 "=" 17 42 46) (VString (mkSpan (mkPtok 31 """// no comment""" 17 43 47) (mkPtok 31 """// no comment""" 17 43 47)) (mkPtok 31 """// no comment""" 17 43 47)) (Some (mkPtok 41 ";" 17 58 48))); (mkOptionDecl (mkSpan (mkPtok 42 "metadata" 17 60 49) (mkPtok 27 "int64" 18 2 51)) (mkPtok 42 "metadata" 17 60 49) (mkPtok 4 "=" 18 0 50) (VType (mkSpan (mkPtok 27 "int64" 18 2 51) (mkPtok 27 "int64" 18 2 51)) (TyBasic (mkSpan (mkPtok 27 "int64" 18 2 51) (mkPtok 27 "int64" 18 2 51)) (mkBasicType (mkSpan (mkPtok 27 "int64" 18 2 51) (mkPtok 27 "int64" 18 2 51)) (mkPtok 27 "int64" 18 2 51)))) None); (mkOptionDecl (mkSpan (mkPtok 42 "f32a" 18 8 52) (mkPtok 41 ";" 18 18 55)) (mkPtok 42 "f32a" 18 8 52) (mkPtok 4 "=" 18 13 53) (VPaddingChar (mkSpan (mkPtok 33 "' '" 18 14 54) (mkPtok 33 "' '" 18 14 54)) (mkPtok 33 "' '" 18 14 54)) (Some (mkPtok 41 ";" 18 18 55))); (mkOptionDecl (mkSpan (mkPtok 42 "i64_" 19 4 56) (mkPtok 31 (string_of_bytes [34; 92; 195; 169; 34]%N) 19 11 58)) (mkPtok 42 "i64_" 19 4 56) (mkPtok 4 "=" 19 9 57) (VString (mkSpan (mkPtok 31 (string_of_bytes [34; 92; 195; 169; 34]%N) 19 11 58) (mkPtok 31 (string_of_bytes [34; 92; 195; 169; 34]%N) 19 11 58)) (mkPtok 31 (string_of_bytes [34; 92; 195; 169; 34]%N) 19 11 58)) None)] (mkPtok 3 "}" 19 15 59))); (DPacket (mkPacketDef (mkSpan (mkPtok 35 "packet" 19 17 60) (mkPtok 3 "}" 29 2 96)) None (mkPtok 35 "packet" 19 17 60) (mkPtok 42 "metadata" 20 0 62) (mkPtok 2 "{" 21 0 64) [(mkFieldWithAttr (mkSpan (mkPtok 38 "match" 21 2 65) (mkPtok 40 "," 29 0 95)) [] (MatchField (mkSpan (mkPtok 38 "match" 21 2 65) (mkPtok 40 "," 29 0 95)) (mkMatchFieldDecl (mkSpan (mkPtok 38 "match" 21 2 65) (mkPtok 3 "}" 28 0 93)) (mkPtok 38 "match" 21 2 65) (mkPtok 42 "Logon" 22 0 66) (mkPtok 17 "as" 22 6 67) (mkPtok 42 "Logon" 22 9 68) (mkPtok 2 "{" 22 15 69) [(mkMatchPair (mkSpan (mkPtok 30 "00" 22 17 70) (mkPtok 42 "BodyLength" 22 21 72)) (MKDigits (mkPtok 30 "00" 22 17 70)) (mkPtok 39 ":" 22 20 71) (mkPtok 42 "BodyLength" 22 21 72) None); (mkMatchPair (mkSpan (mkPtok 30 "10" 22 32 73) (mkPtok 42 "body" 22 37 75)) (MKDigits (mkPtok 30 "10" 22 32 73)) (mkPtok 39 ":" 22 35 74) (mkPtok 42 "body" 22 37 75) None); (mkMatchPair (mkSpan (mkPtok 30 "255" 22 42 76) (mkPtok 40 "," 24 8 80)) (MKDigits (mkPtok 30 "255" 22 42 76)) (mkPtok 39 ":" 23 0 77) (mkPtok 42 "trueish" 24 0 79) (Some (mkPtok 40 "," 24 8 80))); (mkMatchPair (mkSpan (mkPtok 18 "[" 24 10 81) (mkPtok 40 "," 27 0 92)) (MKList (mkKeyList (mkSpan (mkPtok 18 "[" 24 10 81) (mkPtok 13 "]" 25 15 89)) (mkPtok 18 "[" 24 10 81) (mkPtok 30 "42" 24 12 82) [((mkPtok 40 "," 24 14 83), (mkPtok 31 """packet""" 24 16 84)); ((mkPtok 40 "," 24 24 85), (mkPtok 31 """packet""" 25 0 86)); ((mkPtok 40 "," 25 8 87), (mkPtok 31 (string_of_bytes [34; 195; 169; 116; 195; 169; 34]%N) 25 10 88))] (mkPtok 13 "]" 25 15 89))) (mkPtok 39 ":" 25 17 90) (mkPtok 42 "lengthOf" 26 0 91) (Some (mkPtok 40 "," 27 0 92)))] (mkPtok 3 "}" 28 0 93)) (mkPtok 40 "," 29 0 95)))] (mkPtok 3 "}" 29 2 96)))])).
Eval vm_compute in ("<<<M465>>>" ++ check (runes_of_ascii "
MetaData  roots{ } packet chars{
@tag( 255 ) char[ 1// 50% %s
]Packet ,
@lengthOf(calculatedFrom
    /// triple
    )
Packet{ uint32 len, uint64
uint8x
    @lengthOf(stringy ) , } , x@lengthOf(trueish)
`100% of %d`  , }packet len { zchar[3
    // 50% %s
    ] pack `crlf
line`, float
    @lengthOf(//
calculatedFrom
//	t
// a // b
) ,char[ 3	]rootA @lengthOf(body )
    , @calculatedFrom(""{,}"")
// c
// c
match _x as Header // c
{  00 : _x , [ ""packet""
,10, 0123456789 ,	255 ]: a1 ,	42  : falsey
,007
    : msg_type },
}
// packet A { u8 x, }
")).
Eval vm_compute in ("<<<M497>>>" ++ check (runes_of_ascii "// packet A { u8 x, }
options// @lengthOf(
{ chars = ""// no comment"" }
")).
Eval vm_compute in ("<<<M529>>>" ++ check (runes_of_ascii "MetaData int { int zchar  , }packet
    string_	{ }
packet len { float@lengthOf( Z9_
    ),
    } root packet int {
    uint64 i64_
    , @lengthOf( Logon ) string
float ,
Header
o ,
@tag( 7 ) match Pad as  u128
    // " ++ [27880; 37322]%N ++ runes_of_ascii "
    { 0: BodyLength
,},
    int64 float
    @lengthOf(i64_
)	,	repeat
//x
// 50% %s
string// " ++ [128512]%N ++ runes_of_ascii " emoji
packetx
, @leftPad (  ' ' ) @lengthOf(
stringy ) @calculatedFrom( ""CRC32"") repeat metadata pack ,
    // c
    @lengthOf( Foo
    ) a1
    //	t
    , } packet pack {	@tag(// " ++ [128512]%N ++ runes_of_ascii " emoji
7 )
zchar[ 255 ] body @calculatedFrom( ""// no comment"" ), repeat zchar[ 255 ]
    metadata, char[ 42
] i8i8
@calculatedFrom(
    ""packet"" )`two words` , Foo@calculatedFrom( """ ++ [28040; 24687]%N ++ runes_of_ascii """) `tab	here`
, }
")).
Eval vm_compute in ("<<<M561>>>" ++ check (runes_of_ascii "packet
    len	{ uint8
matchKey	,
    repeat body
,
    float32 int @lengthOf(T),} packet _x { @lengthOf(
crc ) float64 msg_type
// c
// packet A { u8 x, }
@lengthOf(rootA) `a\`// trailing space 
,}	root packet
    packetx// " ++ [128512]%N ++ runes_of_ascii " emoji
{ A Header
, repeat u8x {
    char[// " ++ [27880; 37322]%N ++ runes_of_ascii "
0
]
    leftPad @calculatedFrom( ""{,}""
) ,
    float32 calculatedFrom
    `say ""hi""` ,
    Logon string_ , } ,
// 50% %s
// @lengthOf(
zchar[  65535 ]	pack ,
    }")).
Eval vm_compute in ("<<<M593>>>" ++ check (runes_of_ascii "  packet crc{ repeat  i32
    metadata	,}root
packet // @lengthOf(
len { uint32 lengthOf `" ++ [28040; 24687; 31867; 22411]%N ++ runes_of_ascii "` // @lengthOf(
,
    // `tick` ""quote"" 'q'
    Header  crc`u8 x,`	, @calculatedFrom( """ ++ [28040; 24687]%N ++ runes_of_ascii """ )
// packet A { u8 x, }
// @lengthOf(
@calculatedFrom(""abc"" ) uint16
body@calculatedFrom( """ ++ [128512]%N ++ runes_of_ascii """ ),repeat trueish `{ , }` // 50% %s
,  @lengthOf( i64_  ) @calculatedFrom(
// a // b
// " ++ [27880; 37322]%N ++ runes_of_ascii "
""{,}""
// c
// packet A { u8 x, }
) // 50% %s
char[
42]u8x `say ""hi""` ,} packet As
{ calculatedFrom crc//	t
, } packet
calculatedFrom{
    @tag( 7
) @calculatedFrom( ""CRC32"" )  @calculatedFrom(""" ++ [128512]%N ++ runes_of_ascii """) repeat asx u `u8 x,` ,
//x
// @lengthOf(
int16 float
`it's`, Packet {	repeat	uint8 MetaDataX , Z9_ // @lengthOf(
`" ++ [233]%N ++ runes_of_ascii "` , }
    ,
@tag( 4294967296 ) repeat
    metadata , match rootA
    as Foo{ ""CRC32""	: crc	,
}, @lengthOf(Logon //
) float64 Pad // c
@calculatedFrom( ""it's""
)
, tag
, }
")).
Eval vm_compute in ("<<<M625>>>" ++ check (runes_of_ascii "packet
_x  { char Packet ,
// `tick` ""quote"" 'q'
// a // b
}
MetaData string_
{ char[] string_ , string T , char u
, metadata stringy
    , zchar[ 42 ]u8x
    , } MetaData
calculatedFrom {
}
MetaData pack { i16 u128 `{ , }`	, float64 metadata `a\`,
}	options {
    } 	 ")).
Eval vm_compute in ("<<<M657>>>" ++ check (runes_of_ascii "options {  }")).
Eval vm_compute in ("<<<T657>>>" ++ terms [mkTok 1 "options" 1 0 false; mkTok 2 "{" 1 8 false; mkTok 3 "}" 1 11 false; mkTok 0 "<EOF>" 1 12 false] (mkPacket (mkPtok 1 "options" 1 0 0) (Some (mkPtok 3 "}" 1 11 2)) [(DOption (mkOptionDef (mkSpan (mkPtok 1 "options" 1 0 0) (mkPtok 3 "}" 1 11 2)) (mkPtok 1 "options" 1 0 0) (mkPtok 2 "{" 1 8 1) [] (mkPtok 3 "}" 1 11 2)))])).
Eval vm_compute in ("<<<M689>>>" ++ check (runes_of_ascii "/// triple
root packet leftPad //
{
    repeat metadata Logon ,
    i32 crc
@lengthOf( f32a
),@lengthOf( packetx ) @rightPad	(' ' )
//
// @lengthOf(
@tag( 3
)
match falsey as leftPad {
    [ """ ++ [233]%N ++ runes_of_ascii "t" ++ [233]%N ++ runes_of_ascii """ ] :
crc ,
1
    : Packet //
,	[
""CRC32"" ,
    00 ,
    7 ]: A
, ""x y"" :
falsey ,[  007, ""x y"" ]: Logon
0123456789  :leftPad }
,repeat leftPad ,
@lengthOf(
int )	i8 o @lengthOf(
    i64_ )`two words`
, u128 {
tag{
repeat lengthOf zchar `{ , }` , } , } ,
    }")).
Eval vm_compute in ("<<<M721>>>" ++ check (runes_of_ascii "
packet
body {
@calculatedFrom( ""x y"" ) charz `100% of %d`
, @tag( 007 // " ++ [128512]%N ++ runes_of_ascii " emoji
)
repeat packetx
//x
// " ++ [128512]%N ++ runes_of_ascii " emoji
,
@calculatedFrom( ""\" ++ [233]%N ++ runes_of_ascii """) int8 charz@calculatedFrom( ""`tick`"" ),
@lengthOf( trueish ) @rightPad
( ' '
    )	repeat u lengthOf`// not a comment` // 50% %s
, @rightPad
    (
    '0' )@rightPad( ' '	) @tag(  4294967296
) x trueish
, charz @lengthOf( _x )
, @calculatedFrom(
    // packet A { u8 x, }
    ""// no comment"") @rightPad
() @calculatedFrom(""\" ++ [233]%N ++ runes_of_ascii """ //	t
) match x as chars {	10
    :
    // `tick` ""quote"" 'q'
    u128
    ,
007
//x
// `tick` ""quote"" 'q'
: chars
, ""it's"": u128 , 255
: trueish
,
} ,
    match falsey
// @lengthOf(
// packet A { u8 x, }
as roots { ""// no comment""	: lengthOf ,
""" ++ [233]%N ++ runes_of_ascii "t" ++ [233]%N ++ runes_of_ascii """
    : len , ""1""
    // 50% %s
    : i8i8,
    [
0
, """ ++ [28040; 24687]%N ++ runes_of_ascii """,  255 ] :
// @lengthOf(
// packet A { u8 x, }
uint8x
// a // b
// packet A { u8 x, }
, 10 :
T
    ""x y""
:
    u128, } ,  }")).
Eval vm_compute in ("<<<M753>>>" ++ check (runes_of_ascii "root	packet
stringy// c
{} MetaData msg_type
{ } // c")).
Eval vm_compute in ("<<<M785>>>" ++ check (runes_of_ascii "//x
MetaData // `tick` ""quote"" 'q'
Pad  {string_ x,
} packet x_y_z
{ repeat rootA zchar  `crlf
line` , @tag(
7
) tag tag,}")).
Eval vm_compute in ("<<<M817>>>" ++ check (runes_of_ascii "  root//x
packet
Packet {match x_y_z as
    Header {[""abc"" ,
    65535, 3] :tag , 10
:
    msg_type
    ""`tick`""
: stringy 4294967296 : Pad , } ,@calculatedFrom(
""x y""
    )
    @tag(
255 ) @lengthOf(body	) zchar[ 65535 ] Pad `say ""hi""` ,@calculatedFrom(""abc"" ) char[]leftPad @calculatedFrom(""`tick`"" // `tick` ""quote"" 'q'
)`" ++ [233]%N ++ runes_of_ascii "` , }// trailing space 
packet  x_y_z { i64_ , u32 As
    @lengthOf( string_ // " ++ [128512]%N ++ runes_of_ascii " emoji
) ,@tag( 0) x_y_z
As
, @lengthOf( falsey )@calculatedFrom( ""\" ++ [233]%N ++ runes_of_ascii """)u8
    string_ , char[
    7]_x `crlf
line` ,i8 trueish
@lengthOf( x)
,
// packet A { u8 x, }
// packet A { u8 x, }
} MetaData
int { } packet As
{ @leftPad ('\x00'
)f64
trueish
    // `tick` ""quote"" 'q'
    @calculatedFrom( """ ++ [28040; 24687]%N ++ runes_of_ascii """ ) , repeat string roots /// triple
,repeat leftPad
    // @lengthOf(
    As
`" ++ [28040; 24687; 31867; 22411]%N ++ runes_of_ascii "` ,
repeat int32 As
    `// not a comment`
    ,
    @rightPad (
' ' ) @rightPad //
( ' ' )
/// triple
// @lengthOf(
char[	10] Z9_ ,}
")).
Eval vm_compute in ("<<<M849>>>" ++ check (runes_of_ascii "packet As{ } options { T =true;crc = f64
//
//	t
x =
    """"	;
    }options { //	t
repeatCount// packet A { u8 x, }
= // @lengthOf(
char ;
leftPad=
// a // b
/// triple
""`tick`"" ; }
")).
Eval vm_compute in ("<<<M881>>>" ++ check (runes_of_ascii "root
packet MetaDataX {
    @lengthOf(
    u128 )@rightPad
(' ') @calculatedFrom(""" ++ [233]%N ++ runes_of_ascii "t" ++ [233]%N ++ runes_of_ascii """ ) T @lengthOf(
Foo
) ,
calculatedFrom pack,
@tag( 65535
// `tick` ""quote"" 'q'
//	t
)Header`100% of %d` , @rightPad ( ' '
    )
    tag
T`tab	here`  ,
    @tag( 65535) crc	@lengthOf(BodyLength)  `// not a comment`, @calculatedFrom( ""CRC32""
    // packet A { u8 x, }
    ) repeat i16	i64_
,
@calculatedFrom( ""// no comment"" // " ++ [27880; 37322]%N ++ runes_of_ascii "
)@calculatedFrom(
    // trailing space 
    ""CRC32"" ) zchar[007
] u
    `say ""hi""`
    ,
@tag(3
) // a // b
i8 pack @calculatedFrom(""\n""
    //x
    )// `tick` ""quote"" 'q'
`doc` // @lengthOf(
,
    } root packet
    Logon { @lengthOf(	len
)  x_y_z @lengthOf( MetaDataX
),
    // 50% %s
    }
// @lengthOf(
// " ++ [27880; 37322]%N ++ runes_of_ascii "
packet
u128 { /// triple
@tag( 0
    ) A
rootA `" ++ [28040; 24687; 31867; 22411]%N ++ runes_of_ascii "`
, @calculatedFrom( ""it's"" // " ++ [128512]%N ++ runes_of_ascii " emoji
)  match
calculatedFrom as crc
    { 4294967296: charz [ // trailing space 
4294967296
// c
/// triple
]	:As
    ,
4294967296:metadata // " ++ [128512]%N ++ runes_of_ascii " emoji
[ ""{,}"" , 255 , 65535 ,""x y"" ,  """ ++ [28040; 24687]%N ++ runes_of_ascii """ ] :_x
, ""1""  : i8i8 //
,007 // " ++ [128512]%N ++ runes_of_ascii " emoji
: len , } , @lengthOf( lengthOf )
match  chars
// trailing space 
// @lengthOf(
as Pad	{
10
// c
//	t
: string_
    007:
chars
}	, body { float64
uint8x
`crlf
line` , i64
    a1 `crlf
line`
    , // c
}
, @calculatedFrom(
""a\\"" ) repeat // @lengthOf(
char[ 1 ] len `doc`
, repeat zchar[ 42
    ] Foo `// not a comment` , } packet leftPad
{
    char[
42  ] leftPad
// packet A { u8 x, }
//x
@calculatedFrom("""")
`{ , }`
, falsey
    repeatCount,int8 float
    // a // b
    @lengthOf( matchKey ) `doc` ,@tag(
10
    )
match
roots as
As{
[
00 , ""a\""b"", 7 ,
""\n"", 255 , ""abc"" , """" ,
    """ ++ [128512]%N ++ runes_of_ascii """ ] :
body , 007 : Header
[
""" ++ [233]%N ++ runes_of_ascii "t" ++ [233]%N ++ runes_of_ascii """
,42 // " ++ [27880; 37322]%N ++ runes_of_ascii "
, 255]:	Pad,[ 65535 ,
    ""{,}"" , 1 ]
// a // b
// a // b
:falsey ,7
: u8x
,
} ,
@calculatedFrom(
""abc"" )
@tag(00
    ) char[ 7 ]len // " ++ [27880; 37322]%N ++ runes_of_ascii "
,// trailing space 
repeat
    u32 leftPad ,
} 	 ")).
Eval vm_compute in ("<<<T881>>>" ++ terms [mkTok 34 "root" 1 0 false; mkTok 35 "packet" 2 0 false; mkTok 42 "MetaDataX" 2 7 false; mkTok 2 "{" 2 17 false; mkTok 7 "@lengthOf(" 3 4 false; mkTok 42 "u128" 4 4 false; mkTok 6 ")" 4 9 false; mkTok 32 "@rightPad" 4 10 false; mkTok 8 "(" 5 0 false; mkTok 33 "' '" 5 1 false; mkTok 6 ")" 5 4 false; mkTok 5 "@calculatedFrom(" 5 6 false; mkTok 31 (string_of_bytes [34; 195; 169; 116; 195; 169; 34]%N) 5 22 false; mkTok 6 ")" 5 28 false; mkTok 42 "T" 5 30 false; mkTok 7 "@lengthOf(" 5 32 false; mkTok 42 "Foo" 6 0 false; mkTok 6 ")" 7 0 false; mkTok 40 "," 7 2 false; mkTok 42 "calculatedFrom" 8 0 false; mkTok 42 "pack" 8 15 false; mkTok 40 "," 8 19 false; mkTok 9 "@tag(" 9 0 false; mkTok 30 "65535" 9 6 false; mkTok 44 "// `tick` ""quote"" 'q'" 10 0 true; mkTok 44 (string_of_bytes [47; 47; 9; 116]%N) 11 0 true; mkTok 6 ")" 12 0 false; mkTok 42 "Header" 12 1 false; mkTok 43 "`100% of %d`" 12 7 false; mkTok 40 "," 12 20 false; mkTok 32 "@rightPad" 12 22 false; mkTok 8 "(" 12 32 false; mkTok 33 "' '" 12 34 false; mkTok 6 ")" 13 4 false; mkTok 42 "tag" 14 4 false; mkTok 42 "T" 15 0 false; mkTok 43 (string_of_bytes [96; 116; 97; 98; 9; 104; 101; 114; 101; 96]%N) 15 1 false; mkTok 40 "," 15 13 false; mkTok 9 "@tag(" 16 4 false; mkTok 30 "65535" 16 10 false; mkTok 6 ")" 16 15 false; mkTok 42 "crc" 16 17 false; mkTok 7 "@lengthOf(" 16 21 false; mkTok 42 "BodyLength" 16 31 false; mkTok 6 ")" 16 41 false; mkTok 43 "`// not a comment`" 16 44 false; mkTok 40 "," 16 62 false; mkTok 5 "@calculatedFrom(" 16 64 false; mkTok 31 """CRC32""" 16 81 false; mkTok 44 "// packet A { u8 x, }" 17 4 true; mkTok 6 ")" 18 4 false; mkTok 36 "repeat" 18 6 false; mkTok 25 "i16" 18 13 false; mkTok 42 "i64_" 18 17 false; mkTok 40 "," 19 0 false; mkTok 5 "@calculatedFrom(" 20 0 false; mkTok 31 """// no comment""" 20 17 false; mkTok 44 (string_of_bytes [47; 47; 32; 230; 179; 168; 233; 135; 138]%N) 20 33 true; mkTok 6 ")" 21 0 false; mkTok 5 "@calculatedFrom(" 21 1 false; mkTok 44 "// trailing space " 22 4 true; mkTok 31 """CRC32""" 23 4 false; mkTok 6 ")" 23 12 false; mkTok 14 "zchar[" 23 14 false; mkTok 30 "007" 23 20 false; mkTok 13 "]" 24 0 false; mkTok 42 "u" 24 2 false; mkTok 43 "`say ""hi""`" 25 4 false; mkTok 40 "," 26 4 false; mkTok 9 "@tag(" 27 0 false; mkTok 30 "3" 27 5 false; mkTok 6 ")" 28 0 false; mkTok 44 "// a // b" 28 2 true; mkTok 24 "i8" 29 0 false; mkTok 42 "pack" 29 3 false; mkTok 5 "@calculatedFrom(" 29 8 false; mkTok 31 """\n""" 29 24 false; mkTok 44 "//x" 30 4 true; mkTok 6 ")" 31 4 false; mkTok 44 "// `tick` ""quote"" 'q'" 31 5 true; mkTok 43 "`doc`" 32 0 false; mkTok 44 "// @lengthOf(" 32 6 true; mkTok 40 "," 33 0 false; mkTok 3 "}" 34 4 false; mkTok 34 "root" 34 6 false; mkTok 35 "packet" 34 11 false; mkTok 42 "Logon" 35 4 false; mkTok 2 "{" 35 10 false; mkTok 7 "@lengthOf(" 35 12 false; mkTok 42 "len" 35 23 false; mkTok 6 ")" 36 0 false; mkTok 42 "x_y_z" 36 3 false; mkTok 7 "@lengthOf(" 36 9 false; mkTok 42 "MetaDataX" 36 20 false; mkTok 6 ")" 37 0 false; mkTok 40 "," 37 1 false; mkTok 44 "// 50% %s" 38 4 true; mkTok 3 "}" 39 4 false; mkTok 44 "// @lengthOf(" 40 0 true; mkTok 44 (string_of_bytes [47; 47; 32; 230; 179; 168; 233; 135; 138]%N) 41 0 true; mkTok 35 "packet" 42 0 false; mkTok 42 "u128" 43 0 false; mkTok 2 "{" 43 5 false; mkTok 44 "/// triple" 43 7 true; mkTok 9 "@tag(" 44 0 false; mkTok 30 "0" 44 6 false; mkTok 6 ")" 45 4 false; mkTok 42 "A" 45 6 false; mkTok 42 "rootA" 46 0 false; mkTok 43 (string_of_bytes [96; 230; 182; 136; 230; 129; 175; 231; 177; 187; 229; 158; 139; 96]%N) 46 6 false; mkTok 40 "," 47 0 false; mkTok 5 "@calculatedFrom(" 47 2 false; mkTok 31 """it's""" 47 19 false; mkTok 44 (string_of_bytes [47; 47; 32; 240; 159; 152; 128; 32; 101; 109; 111; 106; 105]%N) 47 26 true; mkTok 6 ")" 48 0 false; mkTok 38 "match" 48 3 false; mkTok 42 "calculatedFrom" 49 0 false; mkTok 17 "as" 49 15 false; mkTok 42 "crc" 49 18 false; mkTok 2 "{" 50 4 false; mkTok 30 "4294967296" 50 6 false; mkTok 39 ":" 50 16 false; mkTok 42 "charz" 50 18 false; mkTok 18 "[" 50 24 false; mkTok 44 "// trailing space " 50 26 true; mkTok 30 "4294967296" 51 0 false; mkTok 44 "// c" 52 0 true; mkTok 44 "/// triple" 53 0 true; mkTok 13 "]" 54 0 false; mkTok 39 ":" 54 2 false; mkTok 42 "As" 54 3 false; mkTok 40 "," 55 4 false; mkTok 30 "4294967296" 56 0 false; mkTok 39 ":" 56 10 false; mkTok 42 "metadata" 56 11 false; mkTok 44 (string_of_bytes [47; 47; 32; 240; 159; 152; 128; 32; 101; 109; 111; 106; 105]%N) 56 20 true; mkTok 18 "[" 57 0 false; mkTok 31 """{,}""" 57 2 false; mkTok 40 "," 57 8 false; mkTok 30 "255" 57 10 false; mkTok 40 "," 57 14 false; mkTok 30 "65535" 57 16 false; mkTok 40 "," 57 22 false; mkTok 31 """x y""" 57 23 false; mkTok 40 "," 57 29 false; mkTok 31 (string_of_bytes [34; 230; 182; 136; 230; 129; 175; 34]%N) 57 32 false; mkTok 13 "]" 57 37 false; mkTok 39 ":" 57 39 false; mkTok 42 "_x" 57 40 false; mkTok 40 "," 58 0 false; mkTok 31 """1""" 58 2 false; mkTok 39 ":" 58 7 false; mkTok 42 "i8i8" 58 9 false; mkTok 44 "//" 58 14 true; mkTok 40 "," 59 0 false; mkTok 30 "007" 59 1 false; mkTok 44 (string_of_bytes [47; 47; 32; 240; 159; 152; 128; 32; 101; 109; 111; 106; 105]%N) 59 5 true; mkTok 39 ":" 60 0 false; mkTok 42 "len" 60 2 false; mkTok 40 "," 60 6 false; mkTok 3 "}" 60 8 false; mkTok 40 "," 60 10 false; mkTok 7 "@lengthOf(" 60 12 false; mkTok 42 "lengthOf" 60 23 false; mkTok 6 ")" 60 32 false; mkTok 38 "match" 61 0 false; mkTok 42 "chars" 61 7 false; mkTok 44 "// trailing space " 62 0 true; mkTok 44 "// @lengthOf(" 63 0 true; mkTok 17 "as" 64 0 false; mkTok 42 "Pad" 64 3 false; mkTok 2 "{" 64 7 false; mkTok 30 "10" 65 0 false; mkTok 44 "// c" 66 0 true; mkTok 44 (string_of_bytes [47; 47; 9; 116]%N) 67 0 true; mkTok 39 ":" 68 0 false; mkTok 42 "string_" 68 2 false; mkTok 30 "007" 69 4 false; mkTok 39 ":" 69 7 false; mkTok 42 "chars" 70 0 false; mkTok 3 "}" 71 0 false; mkTok 40 "," 71 2 false; mkTok 42 "body" 71 4 false; mkTok 2 "{" 71 9 false; mkTok 29 "float64" 71 11 false; mkTok 42 "uint8x" 72 0 false; mkTok 43 (string_of_bytes [96; 99; 114; 108; 102; 13; 10; 108; 105; 110; 101; 96]%N) 73 0 false; mkTok 40 "," 74 6 false; mkTok 27 "i64" 74 8 false; mkTok 42 "a1" 75 4 false; mkTok 43 (string_of_bytes [96; 99; 114; 108; 102; 13; 10; 108; 105; 110; 101; 96]%N) 75 7 false; mkTok 40 "," 77 4 false; mkTok 44 "// c" 77 6 true; mkTok 3 "}" 78 0 false; mkTok 40 "," 79 0 false; mkTok 5 "@calculatedFrom(" 79 2 false; mkTok 31 """a\\""" 80 0 false; mkTok 6 ")" 80 6 false; mkTok 36 "repeat" 80 8 false; mkTok 44 "// @lengthOf(" 80 15 true; mkTok 12 "char[" 81 0 false; mkTok 30 "1" 81 6 false; mkTok 13 "]" 81 8 false; mkTok 42 "len" 81 10 false; mkTok 43 "`doc`" 81 14 false; mkTok 40 "," 82 0 false; mkTok 36 "repeat" 82 2 false; mkTok 14 "zchar[" 82 9 false; mkTok 30 "42" 82 16 false; mkTok 13 "]" 83 4 false; mkTok 42 "Foo" 83 6 false; mkTok 43 "`// not a comment`" 83 10 false; mkTok 40 "," 83 29 false; mkTok 3 "}" 83 31 false; mkTok 35 "packet" 83 33 false; mkTok 42 "leftPad" 83 40 false; mkTok 2 "{" 84 0 false; mkTok 12 "char[" 85 4 false; mkTok 30 "42" 86 0 false; mkTok 13 "]" 86 4 false; mkTok 42 "leftPad" 86 6 false; mkTok 44 "// packet A { u8 x, }" 87 0 true; mkTok 44 "//x" 88 0 true; mkTok 5 "@calculatedFrom(" 89 0 false; mkTok 31 """""" 89 16 false; mkTok 6 ")" 89 18 false; mkTok 43 "`{ , }`" 90 0 false; mkTok 40 "," 91 0 false; mkTok 42 "falsey" 91 2 false; mkTok 42 "repeatCount" 92 4 false; mkTok 40 "," 92 15 false; mkTok 24 "int8" 92 16 false; mkTok 42 "float" 92 21 false; mkTok 44 "// a // b" 93 4 true; mkTok 7 "@lengthOf(" 94 4 false; mkTok 42 "matchKey" 94 15 false; mkTok 6 ")" 94 24 false; mkTok 43 "`doc`" 94 26 false; mkTok 40 "," 94 32 false; mkTok 9 "@tag(" 94 33 false; mkTok 30 "10" 95 0 false; mkTok 6 ")" 96 4 false; mkTok 38 "match" 97 0 false; mkTok 42 "roots" 98 0 false; mkTok 17 "as" 98 6 false; mkTok 42 "As" 99 0 false; mkTok 2 "{" 99 2 false; mkTok 18 "[" 100 0 false; mkTok 30 "00" 101 0 false; mkTok 40 "," 101 3 false; mkTok 31 """a\""b""" 101 5 false; mkTok 40 "," 101 11 false; mkTok 30 "7" 101 13 false; mkTok 40 "," 101 15 false; mkTok 31 """\n""" 102 0 false; mkTok 40 "," 102 4 false; mkTok 30 "255" 102 6 false; mkTok 40 "," 102 10 false; mkTok 31 """abc""" 102 12 false; mkTok 40 "," 102 18 false; mkTok 31 """""" 102 20 false; mkTok 40 "," 102 23 false; mkTok 31 (string_of_bytes [34; 240; 159; 152; 128; 34]%N) 103 4 false; mkTok 13 "]" 103 8 false; mkTok 39 ":" 103 10 false; mkTok 42 "body" 104 0 false; mkTok 40 "," 104 5 false; mkTok 30 "007" 104 7 false; mkTok 39 ":" 104 11 false; mkTok 42 "Header" 104 13 false; mkTok 18 "[" 105 0 false; mkTok 31 (string_of_bytes [34; 195; 169; 116; 195; 169; 34]%N) 106 0 false; mkTok 40 "," 107 0 false; mkTok 30 "42" 107 1 false; mkTok 44 (string_of_bytes [47; 47; 32; 230; 179; 168; 233; 135; 138]%N) 107 4 true; mkTok 40 "," 108 0 false; mkTok 30 "255" 108 2 false; mkTok 13 "]" 108 5 false; mkTok 39 ":" 108 6 false; mkTok 42 "Pad" 108 8 false; mkTok 40 "," 108 11 false; mkTok 18 "[" 108 12 false; mkTok 30 "65535" 108 14 false; mkTok 40 "," 108 20 false; mkTok 31 """{,}""" 109 4 false; mkTok 40 "," 109 10 false; mkTok 30 "1" 109 12 false; mkTok 13 "]" 109 14 false; mkTok 44 "// a // b" 110 0 true; mkTok 44 "// a // b" 111 0 true; mkTok 39 ":" 112 0 false; mkTok 42 "falsey" 112 1 false; mkTok 40 "," 112 8 false; mkTok 30 "7" 112 9 false; mkTok 39 ":" 113 0 false; mkTok 42 "u8x" 113 2 false; mkTok 40 "," 114 0 false; mkTok 3 "}" 115 0 false; mkTok 40 "," 115 2 false; mkTok 5 "@calculatedFrom(" 116 0 false; mkTok 31 """abc""" 117 0 false; mkTok 6 ")" 117 6 false; mkTok 9 "@tag(" 118 0 false; mkTok 30 "00" 118 5 false; mkTok 6 ")" 119 4 false; mkTok 12 "char[" 119 6 false; mkTok 30 "7" 119 12 false; mkTok 13 "]" 119 14 false; mkTok 42 "len" 119 15 false; mkTok 44 (string_of_bytes [47; 47; 32; 230; 179; 168; 233; 135; 138]%N) 119 19 true; mkTok 40 "," 120 0 false; mkTok 44 "// trailing space " 120 1 true; mkTok 36 "repeat" 121 0 false; mkTok 22 "u32" 122 4 false; mkTok 42 "leftPad" 122 8 false; mkTok 40 "," 122 16 false; mkTok 3 "}" 123 0 false; mkTok 0 "<EOF>" 123 4 false] (mkPacket (mkPtok 34 "root" 1 0 0) (Some (mkPtok 3 "}" 123 0 316)) [(DPacket (mkPacketDef (mkSpan (mkPtok 34 "root" 1 0 0) (mkPtok 3 "}" 34 4 83)) (Some (mkPtok 34 "root" 1 0 0)) (mkPtok 35 "packet" 2 0 1) (mkPtok 42 "MetaDataX" 2 7 2) (mkPtok 2 "{" 2 17 3) [(mkFieldWithAttr (mkSpan (mkPtok 7 "@lengthOf(" 3 4 4) (mkPtok 40 "," 7 2 18)) [(FALengthOf (mkSpan (mkPtok 7 "@lengthOf(" 3 4 4) (mkPtok 6 ")" 4 9 6)) (mkLengthOf (mkSpan (mkPtok 7 "@lengthOf(" 3 4 4) (mkPtok 6 ")" 4 9 6)) (mkPtok 7 "@lengthOf(" 3 4 4) (mkPtok 42 "u128" 4 4 5) (mkPtok 6 ")" 4 9 6))); (FAPadding (mkSpan (mkPtok 32 "@rightPad" 4 10 7) (mkPtok 6 ")" 5 4 10)) (mkPaddingAttr (mkSpan (mkPtok 32 "@rightPad" 4 10 7) (mkPtok 6 ")" 5 4 10)) (mkPtok 32 "@rightPad" 4 10 7) (mkPtok 8 "(" 5 0 8) (Some (mkPtok 33 "' '" 5 1 9)) (mkPtok 6 ")" 5 4 10))); (FACalculatedFrom (mkSpan (mkPtok 5 "@calculatedFrom(" 5 6 11) (mkPtok 6 ")" 5 28 13)) (mkCalculatedFrom (mkSpan (mkPtok 5 "@calculatedFrom(" 5 6 11) (mkPtok 6 ")" 5 28 13)) (mkPtok 5 "@calculatedFrom(" 5 6 11) (mkPtok 31 (string_of_bytes [34; 195; 169; 116; 195; 169; 34]%N) 5 22 12) (mkPtok 6 ")" 5 28 13)))] (LengthField (mkSpan (mkPtok 42 "T" 5 30 14) (mkPtok 40 "," 7 2 18)) (mkLengthFieldDecl (mkSpan (mkPtok 42 "T" 5 30 14) (mkPtok 40 "," 7 2 18)) None (mkPtok 42 "T" 5 30 14) (mkLengthOf (mkSpan (mkPtok 7 "@lengthOf(" 5 32 15) (mkPtok 6 ")" 7 0 17)) (mkPtok 7 "@lengthOf(" 5 32 15) (mkPtok 42 "Foo" 6 0 16) (mkPtok 6 ")" 7 0 17)) None (mkPtok 40 "," 7 2 18)))); (mkFieldWithAttr (mkSpan (mkPtok 42 "calculatedFrom" 8 0 19) (mkPtok 40 "," 8 19 21)) [] (ObjectField (mkSpan (mkPtok 42 "calculatedFrom" 8 0 19) (mkPtok 40 "," 8 19 21)) None (mkPtok 42 "calculatedFrom" 8 0 19) (Some (mkPtok 42 "pack" 8 15 20)) None (mkPtok 40 "," 8 19 21))); (mkFieldWithAttr (mkSpan (mkPtok 9 "@tag(" 9 0 22) (mkPtok 40 "," 12 20 29)) [(FATag (mkSpan (mkPtok 9 "@tag(" 9 0 22) (mkPtok 6 ")" 12 0 26)) (mkTagAttr (mkSpan (mkPtok 9 "@tag(" 9 0 22) (mkPtok 6 ")" 12 0 26)) (mkPtok 9 "@tag(" 9 0 22) (mkPtok 30 "65535" 9 6 23) (mkPtok 6 ")" 12 0 26)))] (ObjectField (mkSpan (mkPtok 42 "Header" 12 1 27) (mkPtok 40 "," 12 20 29)) None (mkPtok 42 "Header" 12 1 27) None (Some (mkPtok 43 "`100% of %d`" 12 7 28)) (mkPtok 40 "," 12 20 29))); (mkFieldWithAttr (mkSpan (mkPtok 32 "@rightPad" 12 22 30) (mkPtok 40 "," 15 13 37)) [(FAPadding (mkSpan (mkPtok 32 "@rightPad" 12 22 30) (mkPtok 6 ")" 13 4 33)) (mkPaddingAttr (mkSpan (mkPtok 32 "@rightPad" 12 22 30) (mkPtok 6 ")" 13 4 33)) (mkPtok 32 "@rightPad" 12 22 30) (mkPtok 8 "(" 12 32 31) (Some (mkPtok 33 "' '" 12 34 32)) (mkPtok 6 ")" 13 4 33)))] (ObjectField (mkSpan (mkPtok 42 "tag" 14 4 34) (mkPtok 40 "," 15 13 37)) None (mkPtok 42 "tag" 14 4 34) (Some (mkPtok 42 "T" 15 0 35)) (Some (mkPtok 43 (string_of_bytes [96; 116; 97; 98; 9; 104; 101; 114; 101; 96]%N) 15 1 36)) (mkPtok 40 "," 15 13 37))); (mkFieldWithAttr (mkSpan (mkPtok 9 "@tag(" 16 4 38) (mkPtok 40 "," 16 62 46)) [(FATag (mkSpan (mkPtok 9 "@tag(" 16 4 38) (mkPtok 6 ")" 16 15 40)) (mkTagAttr (mkSpan (mkPtok 9 "@tag(" 16 4 38) (mkPtok 6 ")" 16 15 40)) (mkPtok 9 "@tag(" 16 4 38) (mkPtok 30 "65535" 16 10 39) (mkPtok 6 ")" 16 15 40)))] (LengthField (mkSpan (mkPtok 42 "crc" 16 17 41) (mkPtok 40 "," 16 62 46)) (mkLengthFieldDecl (mkSpan (mkPtok 42 "crc" 16 17 41) (mkPtok 40 "," 16 62 46)) None (mkPtok 42 "crc" 16 17 41) (mkLengthOf (mkSpan (mkPtok 7 "@lengthOf(" 16 21 42) (mkPtok 6 ")" 16 41 44)) (mkPtok 7 "@lengthOf(" 16 21 42) (mkPtok 42 "BodyLength" 16 31 43) (mkPtok 6 ")" 16 41 44)) (Some (mkPtok 43 "`// not a comment`" 16 44 45)) (mkPtok 40 "," 16 62 46)))); (mkFieldWithAttr (mkSpan (mkPtok 5 "@calculatedFrom(" 16 64 47) (mkPtok 40 "," 19 0 54)) [(FACalculatedFrom (mkSpan (mkPtok 5 "@calculatedFrom(" 16 64 47) (mkPtok 6 ")" 18 4 50)) (mkCalculatedFrom (mkSpan (mkPtok 5 "@calculatedFrom(" 16 64 47) (mkPtok 6 ")" 18 4 50)) (mkPtok 5 "@calculatedFrom(" 16 64 47) (mkPtok 31 """CRC32""" 16 81 48) (mkPtok 6 ")" 18 4 50)))] (MetaField (mkSpan (mkPtok 36 "repeat" 18 6 51) (mkPtok 40 "," 19 0 54)) (Some (mkPtok 36 "repeat" 18 6 51)) (mkMetaDecl (mkSpan (mkPtok 25 "i16" 18 13 52) (mkPtok 40 "," 19 0 54)) (TyBasic (mkSpan (mkPtok 25 "i16" 18 13 52) (mkPtok 25 "i16" 18 13 52)) (mkBasicType (mkSpan (mkPtok 25 "i16" 18 13 52) (mkPtok 25 "i16" 18 13 52)) (mkPtok 25 "i16" 18 13 52))) (mkPtok 42 "i64_" 18 17 53) None (mkPtok 40 "," 19 0 54)))); (mkFieldWithAttr (mkSpan (mkPtok 5 "@calculatedFrom(" 20 0 55) (mkPtok 40 "," 26 4 68)) [(FACalculatedFrom (mkSpan (mkPtok 5 "@calculatedFrom(" 20 0 55) (mkPtok 6 ")" 21 0 58)) (mkCalculatedFrom (mkSpan (mkPtok 5 "@calculatedFrom(" 20 0 55) (mkPtok 6 ")" 21 0 58)) (mkPtok 5 "@calculatedFrom(" 20 0 55) (mkPtok 31 """// no comment""" 20 17 56) (mkPtok 6 ")" 21 0 58))); (FACalculatedFrom (mkSpan (mkPtok 5 "@calculatedFrom(" 21 1 59) (mkPtok 6 ")" 23 12 62)) (mkCalculatedFrom (mkSpan (mkPtok 5 "@calculatedFrom(" 21 1 59) (mkPtok 6 ")" 23 12 62)) (mkPtok 5 "@calculatedFrom(" 21 1 59) (mkPtok 31 """CRC32""" 23 4 61) (mkPtok 6 ")" 23 12 62)))] (MetaField (mkSpan (mkPtok 14 "zchar[" 23 14 63) (mkPtok 40 "," 26 4 68)) None (mkMetaDecl (mkSpan (mkPtok 14 "zchar[" 23 14 63) (mkPtok 40 "," 26 4 68)) (TyFixed (mkSpan (mkPtok 14 "zchar[" 23 14 63) (mkPtok 13 "]" 24 0 65)) (mkFixedString (mkSpan (mkPtok 14 "zchar[" 23 14 63) (mkPtok 13 "]" 24 0 65)) (mkPtok 14 "zchar[" 23 14 63) (mkPtok 30 "007" 23 20 64) (mkPtok 13 "]" 24 0 65))) (mkPtok 42 "u" 24 2 66) (Some (mkPtok 43 "`say ""hi""`" 25 4 67)) (mkPtok 40 "," 26 4 68)))); (mkFieldWithAttr (mkSpan (mkPtok 9 "@tag(" 27 0 69) (mkPtok 40 "," 33 0 82)) [(FATag (mkSpan (mkPtok 9 "@tag(" 27 0 69) (mkPtok 6 ")" 28 0 71)) (mkTagAttr (mkSpan (mkPtok 9 "@tag(" 27 0 69) (mkPtok 6 ")" 28 0 71)) (mkPtok 9 "@tag(" 27 0 69) (mkPtok 30 "3" 27 5 70) (mkPtok 6 ")" 28 0 71)))] (CheckSumField (mkSpan (mkPtok 24 "i8" 29 0 73) (mkPtok 40 "," 33 0 82)) (mkChecksumFieldDecl (mkSpan (mkPtok 24 "i8" 29 0 73) (mkPtok 40 "," 33 0 82)) (Some (TyBasic (mkSpan (mkPtok 24 "i8" 29 0 73) (mkPtok 24 "i8" 29 0 73)) (mkBasicType (mkSpan (mkPtok 24 "i8" 29 0 73) (mkPtok 24 "i8" 29 0 73)) (mkPtok 24 "i8" 29 0 73)))) (mkPtok 42 "pack" 29 3 74) (mkCalculatedFrom (mkSpan (mkPtok 5 "@calculatedFrom(" 29 8 75) (mkPtok 6 ")" 31 4 78)) (mkPtok 5 "@calculatedFrom(" 29 8 75) (mkPtok 31 """\n""" 29 24 76) (mkPtok 6 ")" 31 4 78)) (Some (mkPtok 43 "`doc`" 32 0 80)) (mkPtok 40 "," 33 0 82))))] (mkPtok 3 "}" 34 4 83))); (DPacket (mkPacketDef (mkSpan (mkPtok 34 "root" 34 6 84) (mkPtok 3 "}" 39 4 97)) (Some (mkPtok 34 "root" 34 6 84)) (mkPtok 35 "packet" 34 11 85) (mkPtok 42 "Logon" 35 4 86) (mkPtok 2 "{" 35 10 87) [(mkFieldWithAttr (mkSpan (mkPtok 7 "@lengthOf(" 35 12 88) (mkPtok 40 "," 37 1 95)) [(FALengthOf (mkSpan (mkPtok 7 "@lengthOf(" 35 12 88) (mkPtok 6 ")" 36 0 90)) (mkLengthOf (mkSpan (mkPtok 7 "@lengthOf(" 35 12 88) (mkPtok 6 ")" 36 0 90)) (mkPtok 7 "@lengthOf(" 35 12 88) (mkPtok 42 "len" 35 23 89) (mkPtok 6 ")" 36 0 90)))] (LengthField (mkSpan (mkPtok 42 "x_y_z" 36 3 91) (mkPtok 40 "," 37 1 95)) (mkLengthFieldDecl (mkSpan (mkPtok 42 "x_y_z" 36 3 91) (mkPtok 40 "," 37 1 95)) None (mkPtok 42 "x_y_z" 36 3 91) (mkLengthOf (mkSpan (mkPtok 7 "@lengthOf(" 36 9 92) (mkPtok 6 ")" 37 0 94)) (mkPtok 7 "@lengthOf(" 36 9 92) (mkPtok 42 "MetaDataX" 36 20 93) (mkPtok 6 ")" 37 0 94)) None (mkPtok 40 "," 37 1 95))))] (mkPtok 3 "}" 39 4 97))); (DPacket (mkPacketDef (mkSpan (mkPtok 35 "packet" 42 0 100) (mkPtok 3 "}" 83 31 213)) None (mkPtok 35 "packet" 42 0 100) (mkPtok 42 "u128" 43 0 101) (mkPtok 2 "{" 43 5 102) [(mkFieldWithAttr (mkSpan (mkPtok 9 "@tag(" 44 0 104) (mkPtok 40 "," 47 0 110)) [(FATag (mkSpan (mkPtok 9 "@tag(" 44 0 104) (mkPtok 6 ")" 45 4 106)) (mkTagAttr (mkSpan (mkPtok 9 "@tag(" 44 0 104) (mkPtok 6 ")" 45 4 106)) (mkPtok 9 "@tag(" 44 0 104) (mkPtok 30 "0" 44 6 105) (mkPtok 6 ")" 45 4 106)))] (ObjectField (mkSpan (mkPtok 42 "A" 45 6 107) (mkPtok 40 "," 47 0 110)) None (mkPtok 42 "A" 45 6 107) (Some (mkPtok 42 "rootA" 46 0 108)) (Some (mkPtok 43 (string_of_bytes [96; 230; 182; 136; 230; 129; 175; 231; 177; 187; 229; 158; 139; 96]%N) 46 6 109)) (mkPtok 40 "," 47 0 110))); (mkFieldWithAttr (mkSpan (mkPtok 5 "@calculatedFrom(" 47 2 111) (mkPtok 40 "," 60 10 161)) [(FACalculatedFrom (mkSpan (mkPtok 5 "@calculatedFrom(" 47 2 111) (mkPtok 6 ")" 48 0 114)) (mkCalculatedFrom (mkSpan (mkPtok 5 "@calculatedFrom(" 47 2 111) (mkPtok 6 ")" 48 0 114)) (mkPtok 5 "@calculatedFrom(" 47 2 111) (mkPtok 31 """it's""" 47 19 112) (mkPtok 6 ")" 48 0 114)))] (MatchField (mkSpan (mkPtok 38 "match" 48 3 115) (mkPtok 40 "," 60 10 161)) (mkMatchFieldDecl (mkSpan (mkPtok 38 "match" 48 3 115) (mkPtok 3 "}" 60 8 160)) (mkPtok 38 "match" 48 3 115) (mkPtok 42 "calculatedFrom" 49 0 116) (mkPtok 17 "as" 49 15 117) (mkPtok 42 "crc" 49 18 118) (mkPtok 2 "{" 50 4 119) [(mkMatchPair (mkSpan (mkPtok 30 "4294967296" 50 6 120) (mkPtok 42 "charz" 50 18 122)) (MKDigits (mkPtok 30 "4294967296" 50 6 120)) (mkPtok 39 ":" 50 16 121) (mkPtok 42 "charz" 50 18 122) None); (mkMatchPair (mkSpan (mkPtok 18 "[" 50 24 123) (mkPtok 40 "," 55 4 131)) (MKList (mkKeyList (mkSpan (mkPtok 18 "[" 50 24 123) (mkPtok 13 "]" 54 0 128)) (mkPtok 18 "[" 50 24 123) (mkPtok 30 "4294967296" 51 0 125) [] (mkPtok 13 "]" 54 0 128))) (mkPtok 39 ":" 54 2 129) (mkPtok 42 "As" 54 3 130) (Some (mkPtok 40 "," 55 4 131))); (mkMatchPair (mkSpan (mkPtok 30 "4294967296" 56 0 132) (mkPtok 42 "metadata" 56 11 134)) (MKDigits (mkPtok 30 "4294967296" 56 0 132)) (mkPtok 39 ":" 56 10 133) (mkPtok 42 "metadata" 56 11 134) None); (mkMatchPair (mkSpan (mkPtok 18 "[" 57 0 136) (mkPtok 40 "," 58 0 149)) (MKList (mkKeyList (mkSpan (mkPtok 18 "[" 57 0 136) (mkPtok 13 "]" 57 37 146)) (mkPtok 18 "[" 57 0 136) (mkPtok 31 """{,}""" 57 2 137) [((mkPtok 40 "," 57 8 138), (mkPtok 30 "255" 57 10 139)); ((mkPtok 40 "," 57 14 140), (mkPtok 30 "65535" 57 16 141)); ((mkPtok 40 "," 57 22 142), (mkPtok 31 """x y""" 57 23 143)); ((mkPtok 40 "," 57 29 144), (mkPtok 31 (string_of_bytes [34; 230; 182; 136; 230; 129; 175; 34]%N) 57 32 145))] (mkPtok 13 "]" 57 37 146))) (mkPtok 39 ":" 57 39 147) (mkPtok 42 "_x" 57 40 148) (Some (mkPtok 40 "," 58 0 149))); (mkMatchPair (mkSpan (mkPtok 31 """1""" 58 2 150) (mkPtok 40 "," 59 0 154)) (MKString (mkPtok 31 """1""" 58 2 150)) (mkPtok 39 ":" 58 7 151) (mkPtok 42 "i8i8" 58 9 152) (Some (mkPtok 40 "," 59 0 154))); (mkMatchPair (mkSpan (mkPtok 30 "007" 59 1 155) (mkPtok 40 "," 60 6 159)) (MKDigits (mkPtok 30 "007" 59 1 155)) (mkPtok 39 ":" 60 0 157) (mkPtok 42 "len" 60 2 158) (Some (mkPtok 40 "," 60 6 159)))] (mkPtok 3 "}" 60 8 160)) (mkPtok 40 "," 60 10 161))); (mkFieldWithAttr (mkSpan (mkPtok 7 "@lengthOf(" 60 12 162) (mkPtok 40 "," 71 2 181)) [(FALengthOf (mkSpan (mkPtok 7 "@lengthOf(" 60 12 162) (mkPtok 6 ")" 60 32 164)) (mkLengthOf (mkSpan (mkPtok 7 "@lengthOf(" 60 12 162) (mkPtok 6 ")" 60 32 164)) (mkPtok 7 "@lengthOf(" 60 12 162) (mkPtok 42 "lengthOf" 60 23 163) (mkPtok 6 ")" 60 32 164)))] (MatchField (mkSpan (mkPtok 38 "match" 61 0 165) (mkPtok 40 "," 71 2 181)) (mkMatchFieldDecl (mkSpan (mkPtok 38 "match" 61 0 165) (mkPtok 3 "}" 71 0 180)) (mkPtok 38 "match" 61 0 165) (mkPtok 42 "chars" 61 7 166) (mkPtok 17 "as" 64 0 169) (mkPtok 42 "Pad" 64 3 170) (mkPtok 2 "{" 64 7 171) [(mkMatchPair (mkSpan (mkPtok 30 "10" 65 0 172) (mkPtok 42 "string_" 68 2 176)) (MKDigits (mkPtok 30 "10" 65 0 172)) (mkPtok 39 ":" 68 0 175) (mkPtok 42 "string_" 68 2 176) None); (mkMatchPair (mkSpan (mkPtok 30 "007" 69 4 177) (mkPtok 42 "chars" 70 0 179)) (MKDigits (mkPtok 30 "007" 69 4 177)) (mkPtok 39 ":" 69 7 178) (mkPtok 42 "chars" 70 0 179) None)] (mkPtok 3 "}" 71 0 180)) (mkPtok 40 "," 71 2 181))); (mkFieldWithAttr (mkSpan (mkPtok 42 "body" 71 4 182) (mkPtok 40 "," 79 0 194)) [] (InerObjectField (mkSpan (mkPtok 42 "body" 71 4 182) (mkPtok 40 "," 79 0 194)) None (InerObjectDecl (mkSpan (mkPtok 42 "body" 71 4 182) (mkPtok 3 "}" 78 0 193)) (mkPtok 42 "body" 71 4 182) (mkPtok 2 "{" 71 9 183) [(MetaField (mkSpan (mkPtok 29 "float64" 71 11 184) (mkPtok 40 "," 74 6 187)) None (mkMetaDecl (mkSpan (mkPtok 29 "float64" 71 11 184) (mkPtok 40 "," 74 6 187)) (TyBasic (mkSpan (mkPtok 29 "float64" 71 11 184) (mkPtok 29 "float64" 71 11 184)) (mkBasicType (mkSpan (mkPtok 29 "float64" 71 11 184) (mkPtok 29 "float64" 71 11 184)) (mkPtok 29 "float64" 71 11 184))) (mkPtok 42 "uint8x" 72 0 185) (Some (mkPtok 43 (string_of_bytes [96; 99; 114; 108; 102; 13; 10; 108; 105; 110; 101; 96]%N) 73 0 186)) (mkPtok 40 "," 74 6 187))); (MetaField (mkSpan (mkPtok 27 "i64" 74 8 188) (mkPtok 40 "," 77 4 191)) None (mkMetaDecl (mkSpan (mkPtok 27 "i64" 74 8 188) (mkPtok 40 "," 77 4 191)) (TyBasic (mkSpan (mkPtok 27 "i64" 74 8 188) (mkPtok 27 "i64" 74 8 188)) (mkBasicType (mkSpan (mkPtok 27 "i64" 74 8 188) (mkPtok 27 "i64" 74 8 188)) (mkPtok 27 "i64" 74 8 188))) (mkPtok 42 "a1" 75 4 189) (Some (mkPtok 43 (string_of_bytes [96; 99; 114; 108; 102; 13; 10; 108; 105; 110; 101; 96]%N) 75 7 190)) (mkPtok 40 "," 77 4 191)))] (mkPtok 3 "}" 78 0 193)) (mkPtok 40 "," 79 0 194))); (mkFieldWithAttr (mkSpan (mkPtok 5 "@calculatedFrom(" 79 2 195) (mkPtok 40 "," 82 0 205)) [(FACalculatedFrom (mkSpan (mkPtok 5 "@calculatedFrom(" 79 2 195) (mkPtok 6 ")" 80 6 197)) (mkCalculatedFrom (mkSpan (mkPtok 5 "@calculatedFrom(" 79 2 195) (mkPtok 6 ")" 80 6 197)) (mkPtok 5 "@calculatedFrom(" 79 2 195) (mkPtok 31 """a\\""" 80 0 196) (mkPtok 6 ")" 80 6 197)))] (MetaField (mkSpan (mkPtok 36 "repeat" 80 8 198) (mkPtok 40 "," 82 0 205)) (Some (mkPtok 36 "repeat" 80 8 198)) (mkMetaDecl (mkSpan (mkPtok 12 "char[" 81 0 200) (mkPtok 40 "," 82 0 205)) (TyFixed (mkSpan (mkPtok 12 "char[" 81 0 200) (mkPtok 13 "]" 81 8 202)) (mkFixedString (mkSpan (mkPtok 12 "char[" 81 0 200) (mkPtok 13 "]" 81 8 202)) (mkPtok 12 "char[" 81 0 200) (mkPtok 30 "1" 81 6 201) (mkPtok 13 "]" 81 8 202))) (mkPtok 42 "len" 81 10 203) (Some (mkPtok 43 "`doc`" 81 14 204)) (mkPtok 40 "," 82 0 205)))); (mkFieldWithAttr (mkSpan (mkPtok 36 "repeat" 82 2 206) (mkPtok 40 "," 83 29 212)) [] (MetaField (mkSpan (mkPtok 36 "repeat" 82 2 206) (mkPtok 40 "," 83 29 212)) (Some (mkPtok 36 "repeat" 82 2 206)) (mkMetaDecl (mkSpan (mkPtok 14 "zchar[" 82 9 207) (mkPtok 40 "," 83 29 212)) (TyFixed (mkSpan (mkPtok 14 "zchar[" 82 9 207) (mkPtok 13 "]" 83 4 209)) (mkFixedString (mkSpan (mkPtok 14 "zchar[" 82 9 207) (mkPtok 13 "]" 83 4 209)) (mkPtok 14 "zchar[" 82 9 207) (mkPtok 30 "42" 82 16 208) (mkPtok 13 "]" 83 4 209))) (mkPtok 42 "Foo" 83 6 210) (Some (mkPtok 43 "`// not a comment`" 83 10 211)) (mkPtok 40 "," 83 29 212))))] (mkPtok 3 "}" 83 31 213))); (DPacket (mkPacketDef (mkSpan (mkPtok 35 "packet" 83 33 214) (mkPtok 3 "}" 123 0 316)) None (mkPtok 35 "packet" 83 33 214) (mkPtok 42 "leftPad" 83 40 215) (mkPtok 2 "{" 84 0 216) [(mkFieldWithAttr (mkSpan (mkPtok 12 "char[" 85 4 217) (mkPtok 40 "," 91 0 227)) [] (CheckSumField (mkSpan (mkPtok 12 "char[" 85 4 217) (mkPtok 40 "," 91 0 227)) (mkChecksumFieldDecl (mkSpan (mkPtok 12 "char[" 85 4 217) (mkPtok 40 "," 91 0 227)) (Some (TyFixed (mkSpan (mkPtok 12 "char[" 85 4 217) (mkPtok 13 "]" 86 4 219)) (mkFixedString (mkSpan (mkPtok 12 "char[" 85 4 217) (mkPtok 13 "]" 86 4 219)) (mkPtok 12 "char[" 85 4 217) (mkPtok 30 "42" 86 0 218) (mkPtok 13 "]" 86 4 219)))) (mkPtok 42 "leftPad" 86 6 220) (mkCalculatedFrom (mkSpan (mkPtok 5 "@calculatedFrom(" 89 0 223) (mkPtok 6 ")" 89 18 225)) (mkPtok 5 "@calculatedFrom(" 89 0 223) (mkPtok 31 """""" 89 16 224) (mkPtok 6 ")" 89 18 225)) (Some (mkPtok 43 "`{ , }`" 90 0 226)) (mkPtok 40 "," 91 0 227)))); (mkFieldWithAttr (mkSpan (mkPtok 42 "falsey" 91 2 228) (mkPtok 40 "," 92 15 230)) [] (ObjectField (mkSpan (mkPtok 42 "falsey" 91 2 228) (mkPtok 40 "," 92 15 230)) None (mkPtok 42 "falsey" 91 2 228) (Some (mkPtok 42 "repeatCount" 92 4 229)) None (mkPtok 40 "," 92 15 230))); (mkFieldWithAttr (mkSpan (mkPtok 24 "int8" 92 16 231) (mkPtok 40 "," 94 32 238)) [] (LengthField (mkSpan (mkPtok 24 "int8" 92 16 231) (mkPtok 40 "," 94 32 238)) (mkLengthFieldDecl (mkSpan (mkPtok 24 "int8" 92 16 231) (mkPtok 40 "," 94 32 238)) (Some (TyBasic (mkSpan (mkPtok 24 "int8" 92 16 231) (mkPtok 24 "int8" 92 16 231)) (mkBasicType (mkSpan (mkPtok 24 "int8" 92 16 231) (mkPtok 24 "int8" 92 16 231)) (mkPtok 24 "int8" 92 16 231)))) (mkPtok 42 "float" 92 21 232) (mkLengthOf (mkSpan (mkPtok 7 "@lengthOf(" 94 4 234) (mkPtok 6 ")" 94 24 236)) (mkPtok 7 "@lengthOf(" 94 4 234) (mkPtok 42 "matchKey" 94 15 235) (mkPtok 6 ")" 94 24 236)) (Some (mkPtok 43 "`doc`" 94 26 237)) (mkPtok 40 "," 94 32 238)))); (mkFieldWithAttr (mkSpan (mkPtok 9 "@tag(" 94 33 239) (mkPtok 40 "," 115 2 298)) [(FATag (mkSpan (mkPtok 9 "@tag(" 94 33 239) (mkPtok 6 ")" 96 4 241)) (mkTagAttr (mkSpan (mkPtok 9 "@tag(" 94 33 239) (mkPtok 6 ")" 96 4 241)) (mkPtok 9 "@tag(" 94 33 239) (mkPtok 30 "10" 95 0 240) (mkPtok 6 ")" 96 4 241)))] (MatchField (mkSpan (mkPtok 38 "match" 97 0 242) (mkPtok 40 "," 115 2 298)) (mkMatchFieldDecl (mkSpan (mkPtok 38 "match" 97 0 242) (mkPtok 3 "}" 115 0 297)) (mkPtok 38 "match" 97 0 242) (mkPtok 42 "roots" 98 0 243) (mkPtok 17 "as" 98 6 244) (mkPtok 42 "As" 99 0 245) (mkPtok 2 "{" 99 2 246) [(mkMatchPair (mkSpan (mkPtok 18 "[" 100 0 247) (mkPtok 40 "," 104 5 266)) (MKList (mkKeyList (mkSpan (mkPtok 18 "[" 100 0 247) (mkPtok 13 "]" 103 8 263)) (mkPtok 18 "[" 100 0 247) (mkPtok 30 "00" 101 0 248) [((mkPtok 40 "," 101 3 249), (mkPtok 31 """a\""b""" 101 5 250)); ((mkPtok 40 "," 101 11 251), (mkPtok 30 "7" 101 13 252)); ((mkPtok 40 "," 101 15 253), (mkPtok 31 """\n""" 102 0 254)); ((mkPtok 40 "," 102 4 255), (mkPtok 30 "255" 102 6 256)); ((mkPtok 40 "," 102 10 257), (mkPtok 31 """abc""" 102 12 258)); ((mkPtok 40 "," 102 18 259), (mkPtok 31 """""" 102 20 260)); ((mkPtok 40 "," 102 23 261), (mkPtok 31 (string_of_bytes [34; 240; 159; 152; 128; 34]%N) 103 4 262))] (mkPtok 13 "]" 103 8 263))) (mkPtok 39 ":" 103 10 264) (mkPtok 42 "body" 104 0 265) (Some (mkPtok 40 "," 104 5 266))); (mkMatchPair (mkSpan (mkPtok 30 "007" 104 7 267) (mkPtok 42 "Header" 104 13 269)) (MKDigits (mkPtok 30 "007" 104 7 267)) (mkPtok 39 ":" 104 11 268) (mkPtok 42 "Header" 104 13 269) None); (mkMatchPair (mkSpan (mkPtok 18 "[" 105 0 270) (mkPtok 40 "," 108 11 280)) (MKList (mkKeyList (mkSpan (mkPtok 18 "[" 105 0 270) (mkPtok 13 "]" 108 5 277)) (mkPtok 18 "[" 105 0 270) (mkPtok 31 (string_of_bytes [34; 195; 169; 116; 195; 169; 34]%N) 106 0 271) [((mkPtok 40 "," 107 0 272), (mkPtok 30 "42" 107 1 273)); ((mkPtok 40 "," 108 0 275), (mkPtok 30 "255" 108 2 276))] (mkPtok 13 "]" 108 5 277))) (mkPtok 39 ":" 108 6 278) (mkPtok 42 "Pad" 108 8 279) (Some (mkPtok 40 "," 108 11 280))); (mkMatchPair (mkSpan (mkPtok 18 "[" 108 12 281) (mkPtok 40 "," 112 8 292)) (MKList (mkKeyList (mkSpan (mkPtok 18 "[" 108 12 281) (mkPtok 13 "]" 109 14 287)) (mkPtok 18 "[" 108 12 281) (mkPtok 30 "65535" 108 14 282) [((mkPtok 40 "," 108 20 283), (mkPtok 31 """{,}""" 109 4 284)); ((mkPtok 40 "," 109 10 285), (mkPtok 30 "1" 109 12 286))] (mkPtok 13 "]" 109 14 287))) (mkPtok 39 ":" 112 0 290) (mkPtok 42 "falsey" 112 1 291) (Some (mkPtok 40 "," 112 8 292))); (mkMatchPair (mkSpan (mkPtok 30 "7" 112 9 293) (mkPtok 40 "," 114 0 296)) (MKDigits (mkPtok 30 "7" 112 9 293)) (mkPtok 39 ":" 113 0 294) (mkPtok 42 "u8x" 113 2 295) (Some (mkPtok 40 "," 114 0 296)))] (mkPtok 3 "}" 115 0 297)) (mkPtok 40 "," 115 2 298))); (mkFieldWithAttr (mkSpan (mkPtok 5 "@calculatedFrom(" 116 0 299) (mkPtok 40 "," 120 0 310)) [(FACalculatedFrom (mkSpan (mkPtok 5 "@calculatedFrom(" 116 0 299) (mkPtok 6 ")" 117 6 301)) (mkCalculatedFrom (mkSpan (mkPtok 5 "@calculatedFrom(" 116 0 299) (mkPtok 6 ")" 117 6 301)) (mkPtok 5 "@calculatedFrom(" 116 0 299) (mkPtok 31 """abc""" 117 0 300) (mkPtok 6 ")" 117 6 301))); (FATag (mkSpan (mkPtok 9 "@tag(" 118 0 302) (mkPtok 6 ")" 119 4 304)) (mkTagAttr (mkSpan (mkPtok 9 "@tag(" 118 0 302) (mkPtok 6 ")" 119 4 304)) (mkPtok 9 "@tag(" 118 0 302) (mkPtok 30 "00" 118 5 303) (mkPtok 6 ")" 119 4 304)))] (MetaField (mkSpan (mkPtok 12 "char[" 119 6 305) (mkPtok 40 "," 120 0 310)) None (mkMetaDecl (mkSpan (mkPtok 12 "char[" 119 6 305) (mkPtok 40 "," 120 0 310)) (TyFixed (mkSpan (mkPtok 12 "char[" 119 6 305) (mkPtok 13 "]" 119 14 307)) (mkFixedString (mkSpan (mkPtok 12 "char[" 119 6 305) (mkPtok 13 "]" 119 14 307)) (mkPtok 12 "char[" 119 6 305) (mkPtok 30 "7" 119 12 306) (mkPtok 13 "]" 119 14 307))) (mkPtok 42 "len" 119 15 308) None (mkPtok 40 "," 120 0 310)))); (mkFieldWithAttr (mkSpan (mkPtok 36 "repeat" 121 0 312) (mkPtok 40 "," 122 16 315)) [] (MetaField (mkSpan (mkPtok 36 "repeat" 121 0 312) (mkPtok 40 "," 122 16 315)) (Some (mkPtok 36 "repeat" 121 0 312)) (mkMetaDecl (mkSpan (mkPtok 22 "u32" 122 4 313) (mkPtok 40 "," 122 16 315)) (TyBasic (mkSpan (mkPtok 22 "u32" 122 4 313) (mkPtok 22 "u32" 122 4 313)) (mkBasicType (mkSpan (mkPtok 22 "u32" 122 4 313) (mkPtok 22 "u32" 122 4 313)) (mkPtok 22 "u32" 122 4 313))) (mkPtok 42 "leftPad" 122 8 314) None (mkPtok 40 "," 122 16 315))))] (mkPtok 3 "}" 123 0 316)))])).
Eval vm_compute in ("<<<M913>>>" ++ check (runes_of_ascii "packet len
    // @lengthOf(
    { tag { match
_x	as // packet A { u8 x, }
len { 255 : zchar ,
} , }  , @calculatedFrom(
""// no comment"" ) T@lengthOf(Z9_) ,repeat a1 { repeat string
    leftPad `" ++ [233]%N ++ runes_of_ascii "` ,
//	t
//x
char[]
matchKey @lengthOf(
    x_y_z )	`line1
line2` , // " ++ [128512]%N ++ runes_of_ascii " emoji
repeat char[0123456789	]
matchKey ,} ,i64 calculatedFrom	@calculatedFrom(
""\" ++ [233]%N ++ runes_of_ascii """ ) ,} packet BodyLength{ @calculatedFrom(""CRC32"" )
@lengthOf( i8i8 )f32a @calculatedFrom( ""abc"")
    ,	zchar[ // 50% %s
42] body@lengthOf( uint8x) `" ++ [28040; 24687; 31867; 22411]%N ++ runes_of_ascii "` ,
    float@lengthOf(trueish ) ,
repeat zchar[ 255 ] u8x	`it's` , //
}")).
Eval vm_compute in ("<<<M945>>>" ++ check (@nil rune)).
Eval vm_compute in ("<<<M977>>>" ++ check (runes_of_ascii "
packet i8i8 {
repeat
    char
MetaDataX `u8 x,` , }packet
MetaDataX{} root// " ++ [128512]%N ++ runes_of_ascii " emoji
packet zchar{ @tag(
4294967296
    ) char[]
falsey @lengthOf( tag ) , f64	T	,  } options {
Packet	=	u32 ;
    u128 = u8 trueish = string ; }
root	packet body{ } 	 ")).
Eval vm_compute in ("<<<M1009>>>" ++ check (runes_of_ascii "packet
    //	t
    tag{ @tag( // trailing space 
1
    ) @calculatedFrom( ""abc"" ) char[]
Logon  ,char[] Logon@calculatedFrom(
""a\\""), uint8x {
// a // b
//
char[] float ,repeat char[] zchar
, match f32a as f32a
{
    ""abc"" : options1
,007 : _x 10
// c
// packet A { u8 x, }
:
BodyLength ,
} ,
},@lengthOf( f32a )
@lengthOf( Header
    )
    @lengthOf(msg_type
) repeat Logon i64_ , @calculatedFrom(
""" ++ [28040; 24687]%N ++ runes_of_ascii """) repeat int roots , /// triple
@lengthOf( zchar ) i16
    stringy
@calculatedFrom( ""it's"")
    `u8 x,`
,	@calculatedFrom(// @lengthOf(
""{,}"" ) match string_
as MetaDataX{
[
""// no comment"" //x
,
    007 ]	: i8i8, [ 1 // c
, ""packet""]: trueish , } ,
//
/// triple
}")).
Eval vm_compute in ("<<<M1041>>>" ++ check (runes_of_ascii "// " ++ [27880; 37322]%N ++ runes_of_ascii "
packet rootA{string
    // 50% %s
    Pad `{ , }` , } root
packet// trailing space 
repeatCount { @lengthOf( Header //x
)int64 As
    `{ , }` ,}
options
    { charz =false } /// triple")).
Eval vm_compute in ("<<<M1073>>>" ++ check (runes_of_ascii "// " ++ [128512]%N ++ runes_of_ascii " emoji
packet
tag { @leftPad(
) repeat
u64 metadata ,  }
")).
Eval vm_compute in ("<<<M1105>>>" ++ check (runes_of_ascii "
packet packetx
{ packetx	asx ,  }
")).
Eval vm_compute in ("<<<T1105>>>" ++ terms [mkTok 35 "packet" 2 0 false; mkTok 42 "packetx" 2 7 false; mkTok 2 "{" 3 0 false; mkTok 42 "packetx" 3 2 false; mkTok 42 "asx" 3 10 false; mkTok 40 "," 3 14 false; mkTok 3 "}" 3 17 false; mkTok 0 "<EOF>" 4 0 false] (mkPacket (mkPtok 35 "packet" 2 0 0) (Some (mkPtok 3 "}" 3 17 6)) [(DPacket (mkPacketDef (mkSpan (mkPtok 35 "packet" 2 0 0) (mkPtok 3 "}" 3 17 6)) None (mkPtok 35 "packet" 2 0 0) (mkPtok 42 "packetx" 2 7 1) (mkPtok 2 "{" 3 0 2) [(mkFieldWithAttr (mkSpan (mkPtok 42 "packetx" 3 2 3) (mkPtok 40 "," 3 14 5)) [] (ObjectField (mkSpan (mkPtok 42 "packetx" 3 2 3) (mkPtok 40 "," 3 14 5)) None (mkPtok 42 "packetx" 3 2 3) (Some (mkPtok 42 "asx" 3 10 4)) None (mkPtok 40 "," 3 14 5)))] (mkPtok 3 "}" 3 17 6)))])).
Eval vm_compute in ("<<<M1137>>>" ++ check (runes_of_ascii "MetaData matchKey
{ body len , } //x")).
Eval vm_compute in ("<<<M1169>>>" ++ check (runes_of_ascii "MetaData packetx { i64_
    f32a ``,} options// packet A { u8 x, }
{  u8x = """ ++ [233]%N ++ runes_of_ascii "t" ++ [233]%N ++ runes_of_ascii """ } options
    { Foo =true x_y_z = 10
}
")).
Eval vm_compute in ("<<<M1201>>>" ++ check (runes_of_ascii "packet repeatCount{ @tag( 7	)@lengthOf(crc
)@lengthOf(
    u
)// trailing space 
repeat i64_ matchKey
,
match
    pack
    as _x{ // " ++ [128512]%N ++ runes_of_ascii " emoji
""a\\"":
x_y_z , """ ++ [233]%N ++ runes_of_ascii "t" ++ [233]%N ++ runes_of_ascii """
:	packetx , },  @calculatedFrom( ""a\""b"" )
    char[]
    // packet A { u8 x, }
    tag , repeat
//
// " ++ [128512]%N ++ runes_of_ascii " emoji
crc f32a , repeat	chars metadata `say ""hi""` , }
")).
Eval vm_compute in ("<<<M1233>>>" ++ check (runes_of_ascii "// " ++ [128512]%N ++ runes_of_ascii " emoji
MetaData
    T {	i64_ crc `" ++ [233]%N ++ runes_of_ascii "`
    , // " ++ [27880; 37322]%N ++ runes_of_ascii "
rootA metadata , }
    MetaData falsey {
}
options{ _x	=""a\\"" zchar=
    // " ++ [128512]%N ++ runes_of_ascii " emoji
    int16 ; Logon=""a\""b""; options1 = char[ 10 ]; pack = // @lengthOf(
1 ;  }
")).
Eval vm_compute in ("<<<M1265>>>" ++ check (runes_of_ascii "packet f32a {
    }	packet lengthOf { } packet asx {@calculatedFrom( """"
    )
    @calculatedFrom( ""\" ++ [233]%N ++ runes_of_ascii """) @calculatedFrom( // 50% %s
""x y"" ) repeat lengthOf , repeat uint64	_x
// 50% %s
// 50% %s
`a\`
    , trueish { float32 u  ,repeat string_ rootA `100% of %d` ,/// triple
} , i64_ ,match chars
as
    As {[
    """ ++ [128512]%N ++ runes_of_ascii """
,""a	b"" ] :
u8x
    , ""abc"" :T
    00	:
// " ++ [27880; 37322]%N ++ runes_of_ascii "
// @lengthOf(
chars , ""a\""b""// c
: //x
len	,
    0 : Pad ,	} // `tick` ""quote"" 'q'
, match charz as leftPad {
""\" ++ [233]%N ++ runes_of_ascii """: T , 007: tag , 007 :	crc
    ,
/// triple
// packet A { u8 x, }
007: a1  , 1:
    asx
, }	,
repeat
    uint16 o ,
} root	packet x_y_z
{  }root packet asx { stringy //	t
,
    // a // b
    }
")).
Eval vm_compute in ("<<<M1297>>>" ++ check (runes_of_ascii "// 50% %s
packet rootA { @lengthOf( //	t
x_y_z)
repeat
    charz
matchKey	,	}
")).
Eval vm_compute in ("<<<M1329>>>" ++ check (runes_of_ascii "packet x_y_z{ int len `" ++ [233]%N ++ runes_of_ascii "`
// " ++ [128512]%N ++ runes_of_ascii " emoji
/// triple
,
}MetaData Logon {
    //x
    char
    int // " ++ [27880; 37322]%N ++ runes_of_ascii "
, f64 body
, i64 falsey ,
}")).
Eval vm_compute in ("<<<T1329>>>" ++ terms [mkTok 35 "packet" 1 0 false; mkTok 42 "x_y_z" 1 7 false; mkTok 2 "{" 1 12 false; mkTok 42 "int" 1 14 false; mkTok 42 "len" 1 18 false; mkTok 43 (string_of_bytes [96; 195; 169; 96]%N) 1 22 false; mkTok 44 (string_of_bytes [47; 47; 32; 240; 159; 152; 128; 32; 101; 109; 111; 106; 105]%N) 2 0 true; mkTok 44 "/// triple" 3 0 true; mkTok 40 "," 4 0 false; mkTok 3 "}" 5 0 false; mkTok 37 "MetaData" 5 1 false; mkTok 42 "Logon" 5 10 false; mkTok 2 "{" 5 16 false; mkTok 44 "//x" 6 4 true; mkTok 19 "char" 7 4 false; mkTok 42 "int" 8 4 false; mkTok 44 (string_of_bytes [47; 47; 32; 230; 179; 168; 233; 135; 138]%N) 8 8 true; mkTok 40 "," 9 0 false; mkTok 29 "f64" 9 2 false; mkTok 42 "body" 9 6 false; mkTok 40 "," 10 0 false; mkTok 27 "i64" 10 2 false; mkTok 42 "falsey" 10 6 false; mkTok 40 "," 10 13 false; mkTok 3 "}" 11 0 false; mkTok 0 "<EOF>" 11 1 false] (mkPacket (mkPtok 35 "packet" 1 0 0) (Some (mkPtok 3 "}" 11 0 24)) [(DPacket (mkPacketDef (mkSpan (mkPtok 35 "packet" 1 0 0) (mkPtok 3 "}" 5 0 9)) None (mkPtok 35 "packet" 1 0 0) (mkPtok 42 "x_y_z" 1 7 1) (mkPtok 2 "{" 1 12 2) [(mkFieldWithAttr (mkSpan (mkPtok 42 "int" 1 14 3) (mkPtok 40 "," 4 0 8)) [] (ObjectField (mkSpan (mkPtok 42 "int" 1 14 3) (mkPtok 40 "," 4 0 8)) None (mkPtok 42 "int" 1 14 3) (Some (mkPtok 42 "len" 1 18 4)) (Some (mkPtok 43 (string_of_bytes [96; 195; 169; 96]%N) 1 22 5)) (mkPtok 40 "," 4 0 8)))] (mkPtok 3 "}" 5 0 9))); (DMeta (mkMetaDef (mkSpan (mkPtok 37 "MetaData" 5 1 10) (mkPtok 3 "}" 11 0 24)) (mkPtok 37 "MetaData" 5 1 10) (mkPtok 42 "Logon" 5 10 11) (mkPtok 2 "{" 5 16 12) [(MIDecl (mkMetaDecl (mkSpan (mkPtok 19 "char" 7 4 14) (mkPtok 40 "," 9 0 17)) (TyBasic (mkSpan (mkPtok 19 "char" 7 4 14) (mkPtok 19 "char" 7 4 14)) (mkBasicType (mkSpan (mkPtok 19 "char" 7 4 14) (mkPtok 19 "char" 7 4 14)) (mkPtok 19 "char" 7 4 14))) (mkPtok 42 "int" 8 4 15) None (mkPtok 40 "," 9 0 17))); (MIDecl (mkMetaDecl (mkSpan (mkPtok 29 "f64" 9 2 18) (mkPtok 40 "," 10 0 20)) (TyBasic (mkSpan (mkPtok 29 "f64" 9 2 18) (mkPtok 29 "f64" 9 2 18)) (mkBasicType (mkSpan (mkPtok 29 "f64" 9 2 18) (mkPtok 29 "f64" 9 2 18)) (mkPtok 29 "f64" 9 2 18))) (mkPtok 42 "body" 9 6 19) None (mkPtok 40 "," 10 0 20))); (MIDecl (mkMetaDecl (mkSpan (mkPtok 27 "i64" 10 2 21) (mkPtok 40 "," 10 13 23)) (TyBasic (mkSpan (mkPtok 27 "i64" 10 2 21) (mkPtok 27 "i64" 10 2 21)) (mkBasicType (mkSpan (mkPtok 27 "i64" 10 2 21) (mkPtok 27 "i64" 10 2 21)) (mkPtok 27 "i64" 10 2 21))) (mkPtok 42 "falsey" 10 6 22) None (mkPtok 40 "," 10 13 23)))] (mkPtok 3 "}" 11 0 24)))])).
Eval vm_compute in ("<<<M1361>>>" ++ check (runes_of_ascii "options { asx = 00 ; string_ =	7 ;x_y_z
= // trailing space 
0123456789 ; }
")).
Eval vm_compute in ("<<<M1393>>>" ++ check (runes_of_ascii "// " ++ [128512]%N ++ runes_of_ascii " emoji
packet int// 50% %s
{ //x
options1 ,
    } root packet
uint8x {
@tag( 1 ) zchar`say ""hi""`
    ,  @tag(  255
) u64
matchKey ,
/// triple
//	t
} 	 ")).
Eval vm_compute in ("<<<M1425>>>" ++ check (runes_of_ascii "packet
    x	{ @lengthOf( x
    // " ++ [128512]%N ++ runes_of_ascii " emoji
    ) // `tick` ""quote"" 'q'
match _x as
    o { """ ++ [28040; 24687]%N ++ runes_of_ascii """ :
    crc, ""a	b""
    :tag, 007 : // " ++ [128512]%N ++ runes_of_ascii " emoji
packetx , [ // " ++ [128512]%N ++ runes_of_ascii " emoji
""x y"" ] : options1
,}	,
    @calculatedFrom(  ""a	b""
    )match string_  as tag  {007
//
//x
:  uint8x ""// no comment""
:
i64_
    , 007: uint8x
    ,
}
, }
packet calculatedFrom { repeat
    pack {charz options1 `" ++ [233]%N ++ runes_of_ascii "` ,	} ,
    // `tick` ""quote"" 'q'
    msg_type
{ // @lengthOf(
char[] crc
    //x
    , options1`" ++ [233]%N ++ runes_of_ascii "`,metadata body `100% of %d` ,} ,}

")).
Eval vm_compute in ("<<<M1457>>>" ++ check (runes_of_ascii "root
packet tag { T{
//	t
//
zchar[
4294967296
]calculatedFrom , repeat// trailing space 
charz{ repeat  i64_ stringy
    ,falsey , } ,
}
, @tag( 65535)@lengthOf(options1 ) repeat
string packetx
`say ""hi""` , match
Header // c
as
    charz {	65535:
pack
, } , i32 trueish @calculatedFrom( ""it's""	)
    `u8 x,` ,
    // c
    @calculatedFrom(
    ""x y"")	string len @lengthOf(
    metadata ) ,zchar[ 255
]  i64_
// " ++ [27880; 37322]%N ++ runes_of_ascii "
//	t
@lengthOf(	A ) , @lengthOf(float ) pack @calculatedFrom("""") ,
    rootA{repeat
    i64 As // a // b
, u8	Foo, char[
// 50% %s
// trailing space 
00 ]trueish `` , match	string_ as
calculatedFrom
{ 255 : //	t
T // " ++ [27880; 37322]%N ++ runes_of_ascii "
,}	,
}
,  repeat // `tick` ""quote"" 'q'
len
`doc`, char[ /// triple
3 ] pack`a\`//	t
, }")).
Eval vm_compute in ("<<<M1489>>>" ++ check (runes_of_ascii "// " ++ [128512]%N ++ runes_of_ascii " emoji
root packet	asx { @lengthOf( a1 ) uint32 string_
    @lengthOf( u
) `// not a comment` ,  @lengthOf(
Header )  @calculatedFrom(""CRC32""// " ++ [27880; 37322]%N ++ runes_of_ascii "
) //
@lengthOf( u8x) zchar[1 ] repeatCount
, lengthOf len, @lengthOf(MetaDataX  )  @calculatedFrom(
    ""// no comment"")
match
    u as pack // `tick` ""quote"" 'q'
{ 0 //x
:
    T , // " ++ [27880; 37322]%N ++ runes_of_ascii "
0 : falsey [
    """ ++ [128512]%N ++ runes_of_ascii """
    , 10
    ]: // " ++ [27880; 37322]%N ++ runes_of_ascii "
u8x """" :roots
,
    255	: lengthOf , """"
: roots} ,u32
    // trailing space 
    x @calculatedFrom( ""a\\""
    ),
    @lengthOf( rootA ) @lengthOf( charz) f32 MetaDataX
    //x
    , @calculatedFrom( """ ++ [128512]%N ++ runes_of_ascii """ ) // trailing space 
int64
string_ , o @lengthOf( crc ) ,
    } root
packet i64_  {
body x `doc` ,
}	packet	Packet {  } packet  float{ @leftPad ()match falsey as matchKey{// packet A { u8 x, }
""a\\"" : options1 ,// a // b
[	""\" ++ [233]%N ++ runes_of_ascii """ ,""packet"", ""it's"" ,""1"", ""abc"" ,10 , ""a	b"" ]
:
    u
,[ 4294967296
    ]:  calculatedFrom , 10 : Pad
, ""abc""  : a1,
42 : Foo , }
,@calculatedFrom(// `tick` ""quote"" 'q'
""a	b"") repeat	leftPad
    `{ , }` ,repeat //x
Pad{ x x ,
    zchar[ 007
] charz , uint32 len `two words`
    , _x@lengthOf( zchar),} , repeat _x { u128  matchKey
    , } , char[ // trailing space 
10]  charz@lengthOf( pack ) ,
@calculatedFrom( ""`tick`""
) string_
, calculatedFrom @calculatedFrom(
"""" /// triple
)
    , }
")).
Eval vm_compute in ("<<<M1521>>>" ++ check (runes_of_ascii "  root packet charz {
    } packet
a1
{ @tag( 0 ) string// " ++ [27880; 37322]%N ++ runes_of_ascii "
u
    ,
    } packet tag
{ a1 Foo `100% of %d` , }")).
Eval vm_compute in ("<<<M1553>>>" ++ check (@nil rune)).
Eval vm_compute in ("<<<T1553>>>" ++ terms [mkTok 0 "<EOF>" 1 0 false] (mkPacket (mkPtok 0 "<EOF>" 1 0 0) None [])).
Eval vm_compute in ("<<<M1585>>>" ++ check (runes_of_ascii "options {	trueish =
    4294967296
tag= u32// packet A { u8 x, }
; trueish = char[]	;
}  MetaData options1 { }
root packet
float {@lengthOf( o /// triple
) zchar[0 ]
BodyLength @calculatedFrom(// packet A { u8 x, }
""" ++ [28040; 24687]%N ++ runes_of_ascii """ ) `crlf
line` , } MetaData body
    { zchar[007 ]  i8i8
, u16 repeatCount// a // b
, }
")).
Eval vm_compute in ("<<<M1617>>>" ++ check (runes_of_ascii "/// triple
packet
body { // " ++ [27880; 37322]%N ++ runes_of_ascii "
As,
    repeat zchar[ 1 ]
u128 ,@rightPad
    //	t
    ( )
    char[ 65535 ]
lengthOf, } //x
packet len
    {Pad	, @lengthOf( x )  asx { i64
    chars
, match o
    //	t
    as calculatedFrom	{ ""x y""
:
//x
// `tick` ""quote"" 'q'
i8i8
    , } , } , //x
} // trailing space ")).
Eval vm_compute in ("<<<M1649>>>" ++ check (runes_of_ascii "
packet o {@tag( 4294967296 // 50% %s
)
uint64
uint8x , repeat int8  leftPad
    `a\`
, char[3
    ]
    /// triple
    string_ , @tag( 0)
f64 u @lengthOf( As
// c
//x
) `" ++ [28040; 24687; 31867; 22411]%N ++ runes_of_ascii "`
    , @lengthOf( pack )match As as x_y_z { 255	: trueish }
    , uint8
    Header ,
uint8x int , tag ,// a // b
u8x
, @leftPad
// c
// 50% %s
( '\x00'
) body i8i8 `// not a comment`
/// triple
// 50% %s
,
}

")).
Eval vm_compute in ("<<<M1681>>>" ++ check (runes_of_ascii "MetaData Packet
//x
/// triple
{ //x
a1 asx `` ,
} packet packetx{ } MetaData trueish { u32
u`line1
line2`
//x
//x
,	i8
o , //	t
int32
    Z9_ `doc` , char[0 ]
    _x`` , u8
    repeatCount
, u8	stringy `tab	here`
    , }
options {
calculatedFrom
//	t
// `tick` ""quote"" 'q'
=false options1	= false
;
a1 = false body
    =""" ++ [233]%N ++ runes_of_ascii "t" ++ [233]%N ++ runes_of_ascii """; }
MetaData tag { zchar[ 3
] As
    // c
    , zchar[	7	] float, char roots, u16 f32a ,
    i16
T , x_y_z x `doc` ,	}
")).
Eval vm_compute in ("<<<M1713>>>" ++ check (runes_of_ascii "
options
// " ++ [128512]%N ++ runes_of_ascii " emoji
/// triple
{ stringy = ""x y""Pad
    // c
    = false
;len = ""a\""b"" ;
} options {charz
    = 0 } options { calculatedFrom	=0123456789 ; a1 =	42
}
")).
Eval vm_compute in ("<<<M1745>>>" ++ check (runes_of_ascii "options {_x	= ""x y"" A /// triple
= """ ++ [233]%N ++ runes_of_ascii "t" ++ [233]%N ++ runes_of_ascii """ ; u8x	=
    // @lengthOf(
    true ;
}")).
Eval vm_compute in ("<<<M1777>>>" ++ check (runes_of_ascii "packet Z9_
{
    match x_y_z as stringy
{ [65535 ] :
    // a // b
    BodyLength, } ,  repeat  zchar[ 255 ]
i64_,
/// triple
// 50% %s
}
")).
Eval vm_compute in ("<<<T1777>>>" ++ terms [mkTok 35 "packet" 1 0 false; mkTok 42 "Z9_" 1 7 false; mkTok 2 "{" 2 0 false; mkTok 38 "match" 3 4 false; mkTok 42 "x_y_z" 3 10 false; mkTok 17 "as" 3 16 false; mkTok 42 "stringy" 3 19 false; mkTok 2 "{" 4 0 false; mkTok 18 "[" 4 2 false; mkTok 30 "65535" 4 3 false; mkTok 13 "]" 4 9 false; mkTok 39 ":" 4 11 false; mkTok 44 "// a // b" 5 4 true; mkTok 42 "BodyLength" 6 4 false; mkTok 40 "," 6 14 false; mkTok 3 "}" 6 16 false; mkTok 40 "," 6 18 false; mkTok 36 "repeat" 6 21 false; mkTok 14 "zchar[" 6 29 false; mkTok 30 "255" 6 36 false; mkTok 13 "]" 6 40 false; mkTok 42 "i64_" 7 0 false; mkTok 40 "," 7 4 false; mkTok 44 "/// triple" 8 0 true; mkTok 44 "// 50% %s" 9 0 true; mkTok 3 "}" 10 0 false; mkTok 0 "<EOF>" 11 0 false] (mkPacket (mkPtok 35 "packet" 1 0 0) (Some (mkPtok 3 "}" 10 0 25)) [(DPacket (mkPacketDef (mkSpan (mkPtok 35 "packet" 1 0 0) (mkPtok 3 "}" 10 0 25)) None (mkPtok 35 "packet" 1 0 0) (mkPtok 42 "Z9_" 1 7 1) (mkPtok 2 "{" 2 0 2) [(mkFieldWithAttr (mkSpan (mkPtok 38 "match" 3 4 3) (mkPtok 40 "," 6 18 16)) [] (MatchField (mkSpan (mkPtok 38 "match" 3 4 3) (mkPtok 40 "," 6 18 16)) (mkMatchFieldDecl (mkSpan (mkPtok 38 "match" 3 4 3) (mkPtok 3 "}" 6 16 15)) (mkPtok 38 "match" 3 4 3) (mkPtok 42 "x_y_z" 3 10 4) (mkPtok 17 "as" 3 16 5) (mkPtok 42 "stringy" 3 19 6) (mkPtok 2 "{" 4 0 7) [(mkMatchPair (mkSpan (mkPtok 18 "[" 4 2 8) (mkPtok 40 "," 6 14 14)) (MKList (mkKeyList (mkSpan (mkPtok 18 "[" 4 2 8) (mkPtok 13 "]" 4 9 10)) (mkPtok 18 "[" 4 2 8) (mkPtok 30 "65535" 4 3 9) [] (mkPtok 13 "]" 4 9 10))) (mkPtok 39 ":" 4 11 11) (mkPtok 42 "BodyLength" 6 4 13) (Some (mkPtok 40 "," 6 14 14)))] (mkPtok 3 "}" 6 16 15)) (mkPtok 40 "," 6 18 16))); (mkFieldWithAttr (mkSpan (mkPtok 36 "repeat" 6 21 17) (mkPtok 40 "," 7 4 22)) [] (MetaField (mkSpan (mkPtok 36 "repeat" 6 21 17) (mkPtok 40 "," 7 4 22)) (Some (mkPtok 36 "repeat" 6 21 17)) (mkMetaDecl (mkSpan (mkPtok 14 "zchar[" 6 29 18) (mkPtok 40 "," 7 4 22)) (TyFixed (mkSpan (mkPtok 14 "zchar[" 6 29 18) (mkPtok 13 "]" 6 40 20)) (mkFixedString (mkSpan (mkPtok 14 "zchar[" 6 29 18) (mkPtok 13 "]" 6 40 20)) (mkPtok 14 "zchar[" 6 29 18) (mkPtok 30 "255" 6 36 19) (mkPtok 13 "]" 6 40 20))) (mkPtok 42 "i64_" 7 0 21) None (mkPtok 40 "," 7 4 22))))] (mkPtok 3 "}" 10 0 25)))])).
Eval vm_compute in ("<<<M1809>>>" ++ check (runes_of_ascii "packet
// trailing space 
// " ++ [27880; 37322]%N ++ runes_of_ascii "
T
{ @calculatedFrom("""" )repeat // " ++ [27880; 37322]%N ++ runes_of_ascii "
Pad	{
match stringy as float { ""\n"" // 50% %s
:repeatCount	, }, /// triple
} ,
match packetx
    as float
    { 007
:metadata , 0123456789 : falsey ,
0123456789 :
zchar, }
, @rightPad (
    ' ' )//x
msg_type
trueish `{ , }` , match f32a  as
_x
{ 4294967296 :	o	,""\n"" : x, 3
    : x ,  255
:
    Packet
// 50% %s
// 50% %s
}, } options
{ a1 = true
// " ++ [128512]%N ++ runes_of_ascii " emoji
// `tick` ""quote"" 'q'
; u128
    = string;	}")).
Eval vm_compute in ("<<<M1841>>>" ++ check (runes_of_ascii "options {
    pack =true
Pad = 255 falsey=
// a // b
// trailing space 
""it's""
    }
MetaData _x
    //
    {}packet// 50% %s
Z9_{
    match MetaDataX as body { 42 : a1 ,
// " ++ [27880; 37322]%N ++ runes_of_ascii "
//x
4294967296 :
lengthOf
    // `tick` ""quote"" 'q'
    , } , //	t
@tag(1  ) @tag(  7) // @lengthOf(
@tag( 0123456789
)	uint8x u
`crlf
line`,Z9_
    Pad
`say ""hi""` ,// packet A { u8 x, }
repeat zchar[  255 ]
    string_, }  packet Foo{  @lengthOf(	i64_	) metadata @calculatedFrom( ""\" ++ [233]%N ++ runes_of_ascii """ ) `" ++ [233]%N ++ runes_of_ascii "`
, @calculatedFrom( """ ++ [28040; 24687]%N ++ runes_of_ascii """ ) char[ 3 ]
Foo , repeat
//
// packet A { u8 x, }
As repeatCount, // packet A { u8 x, }
@leftPad
()
u32 a1 // " ++ [27880; 37322]%N ++ runes_of_ascii "
@calculatedFrom(
""\n""
    //
    ) , char[]
trueish @calculatedFrom(// " ++ [27880; 37322]%N ++ runes_of_ascii "
""\" ++ [233]%N ++ runes_of_ascii """ )// c
, }")).
Eval vm_compute in ("<<<M1873>>>" ++ check (runes_of_ascii "packet
    pack//x
{
float64 u
@lengthOf( u8x ) `say ""hi""`,char[]crc @calculatedFrom(
    // packet A { u8 x, }
    ""abc""
    )
,  repeat
int16 Header , string // 50% %s
chars , @tag( 4294967296
    ) f32 trueish
    @calculatedFrom(""{,}"" )
`100% of %d`// `tick` ""quote"" 'q'
, u128 pack ,
@leftPad
() uint32 matchKey  , @rightPad ( '\x00' )
repeat Z9_ falsey  `crlf
line` ,
@rightPad ( ' ' ) char[ 7
//	t
//
]packetx
,
match u8x as Z9_ {[0123456789
// " ++ [27880; 37322]%N ++ runes_of_ascii "
// @lengthOf(
,
// trailing space 
// trailing space 
""packet""  ] :
lengthOf [ 0 , ""abc"" , 0 ]	:  len	,
    007
    :
    i8i8 , ""it's""
    : T , 255  : crc,
1
    :f32a } , }
options{ i8i8=
zchar[
    007 ] u=
""\n""}MetaData // " ++ [128512]%N ++ runes_of_ascii " emoji
string_ {
    // " ++ [27880; 37322]%N ++ runes_of_ascii "
    f32	i8i8 ,}")).
Eval vm_compute in ("<<<M1905>>>" ++ check (runes_of_ascii "packet
    As{ @rightPad//	t
(
'0' ) int
MetaDataX,
@tag(10 ) float64 float
@lengthOf( stringy) , repeat u , } // " ++ [27880; 37322]%N)).
Eval vm_compute in ("<<<M1937>>>" ++ check (runes_of_ascii "packet Foo{
@calculatedFrom(// a // b
""{,}"")	match packetx as T	{ ""\n"" : options1
, [3 ,
0123456789
    // trailing space 
    ]:
    chars
[
    ""a	b""
// `tick` ""quote"" 'q'
// trailing space 
]
:zchar ,} ,	float32 options1 ,@calculatedFrom(""" ++ [128512]%N ++ runes_of_ascii """)
match repeatCount as T{ [ """" ,
007 ]:
// " ++ [27880; 37322]%N ++ runes_of_ascii "
//
int
,
    """ ++ [128512]%N ++ runes_of_ascii """
:
u8x ,	""a\\"" : len 3
: a1,4294967296 :	int ,""1""// trailing space 
: float
    ,} ,a1 // `tick` ""quote"" 'q'
repeatCount , @lengthOf(
string_ ) @lengthOf( chars ) //
repeat zchar pack // trailing space 
,	} // " ++ [27880; 37322]%N ++ runes_of_ascii "
MetaData
lengthOf  {falsey u8x`two words` , x_y_z i64_ , leftPad
    stringy , zchar[
255
    /// triple
    ]
    Packet	`" ++ [28040; 24687; 31867; 22411]%N ++ runes_of_ascii "` , char u128 `a\`// trailing space 
, }
    packet
Header	{@tag( 42 ) a1	crc , match
a1 as MetaDataX { [""// no comment"" ]
: Packet, }	, }
")).
Eval vm_compute in ("<<<M1969>>>" ++ check (runes_of_ascii "
")).
Eval vm_compute in ("<<<M2001>>>" ++ check (runes_of_ascii "options {
	StringPrefixLenType = u16;
	ArrayPrefixLenType = u16;
}

packet SampleBinary {
    uint16 MsgType `" ++ [28040; 24687; 31867; 22411]%N ++ runes_of_ascii "`,
    u16 BodyLenght @lengthOf(Body) `" ++ [28040; 24687; 20307; 38271; 24230]%N ++ runes_of_ascii "`,
    match MsgType as Body {
        1 : Logon,
        2 : Logout,
        3 : Heartbeat,
        4 : RiskControlRequest,
        5 : RiskControlResponse,
    },
        @calculatedFrom(""CRC32"")
    u32 Ckecksum `" ++ [26657; 39564; 21644]%N ++ runes_of_ascii "`,
}

packet Logon {
     @leftPad('0')
    char[10] UserName `" ++ [29992; 25143; 21517]%N ++ runes_of_ascii "`,
    string Password `" ++ [23494; 30721]%N ++ runes_of_ascii "`,
    uint64 ClientId `" ++ [23458; 25143; 31471]%N ++ runes_of_ascii "ID`,
    u16 HeartbeatInterval `" ++ [24515; 36339; 38388; 38548]%N ++ runes_of_ascii "`,
}

packet Logout {
      @rightPad('0')
    char[10] UserName `" ++ [29992; 25143; 21517]%N ++ runes_of_ascii "`,
    uint64 ClientId `" ++ [23458; 25143; 31471]%N ++ runes_of_ascii "ID`,
}

packet Heartbeat {
}

packet RiskControlRequest {
    string UniqueOrderId `" ++ [21807; 19968; 35746; 21333; 21495]%N ++ runes_of_ascii "`,
    char[16] ClOrdID `" ++ [23458; 25143; 35746; 21333; 21495]%N ++ runes_of_ascii "`,
    char[3] MarketID `" ++ [24066; 22330]%N ++ runes_of_ascii "id`,
    char[12] SecurityID `" ++ [35777; 21048; 20195; 30721]%N ++ runes_of_ascii "`,
    char Side `" ++ [20080; 21334; 26041; 21521]%N ++ runes_of_ascii "`,
    char OrderType `" ++ [35746; 21333; 31867; 22411]%N ++ runes_of_ascii "`,
    u64 Price `" ++ [20215; 26684]%N ++ runes_of_ascii "`,
    u32 Qty `" ++ [25968; 37327]%N ++ runes_of_ascii "`,
    repeat string ExtraInfo `" ++ [38468; 21152; 20449; 24687]%N ++ runes_of_ascii "`,
    repeat SubOrder {
    		char[16] ClOrdID `" ++ [23376; 35746; 21333; 21495]%N ++ runes_of_ascii "`,
    		u64 Price `" ++ [23376; 35746; 21333; 20215; 26684]%N ++ runes_of_ascii "`,
    		u32 Qty `" ++ [23376; 35746; 21333; 25968; 37327]%N ++ runes_of_ascii "`,
    	},
}

packet RiskControlResponse {
    string UniqueOrderId `" ++ [21807; 19968; 35746; 21333; 21495]%N ++ runes_of_ascii "`,
    i32 Status `" ++ [29366; 24577]%N ++ runes_of_ascii "`,
    string Msg `" ++ [32467; 26524; 20449; 24687]%N ++ runes_of_ascii "`,
    repeat Detail,
}

packet Detail {
    string RuleName `" ++ [35268; 21017; 21517; 31216]%N ++ runes_of_ascii "`,
    u16 Code `" ++ [21407; 22240; 20195; 30721]%N ++ runes_of_ascii "`,
}")).
Eval vm_compute in ("<<<T2001>>>" ++ terms [mkTok 1 "options" 1 0 false; mkTok 2 "{" 1 8 false; mkTok 42 "StringPrefixLenType" 2 1 false; mkTok 4 "=" 2 21 false; mkTok 21 "u16" 2 23 false; mkTok 41 ";" 2 26 false; mkTok 42 "ArrayPrefixLenType" 3 1 false; mkTok 4 "=" 3 20 false; mkTok 21 "u16" 3 22 false; mkTok 41 ";" 3 25 false; mkTok 3 "}" 4 0 false; mkTok 35 "packet" 6 0 false; mkTok 42 "SampleBinary" 6 7 false; mkTok 2 "{" 6 20 false; mkTok 21 "uint16" 7 4 false; mkTok 42 "MsgType" 7 11 false; mkTok 43 (string_of_bytes [96; 230; 182; 136; 230; 129; 175; 231; 177; 187; 229; 158; 139; 96]%N) 7 19 false; mkTok 40 "," 7 25 false; mkTok 21 "u16" 8 4 false; mkTok 42 "BodyLenght" 8 8 false; mkTok 7 "@lengthOf(" 8 19 false; mkTok 42 "Body" 8 29 false; mkTok 6 ")" 8 33 false; mkTok 43 (string_of_bytes [96; 230; 182; 136; 230; 129; 175; 228; 189; 147; 233; 149; 191; 229; 186; 166; 96]%N) 8 35 false; mkTok 40 "," 8 42 false; mkTok 38 "match" 9 4 false; mkTok 42 "MsgType" 9 10 false; mkTok 17 "as" 9 18 false; mkTok 42 "Body" 9 21 false; mkTok 2 "{" 9 26 false; mkTok 30 "1" 10 8 false; mkTok 39 ":" 10 10 false; mkTok 42 "Logon" 10 12 false; mkTok 40 "," 10 17 false; mkTok 30 "2" 11 8 false; mkTok 39 ":" 11 10 false; mkTok 42 "Logout" 11 12 false; mkTok 40 "," 11 18 false; mkTok 30 "3" 12 8 false; mkTok 39 ":" 12 10 false; mkTok 42 "Heartbeat" 12 12 false; mkTok 40 "," 12 21 false; mkTok 30 "4" 13 8 false; mkTok 39 ":" 13 10 false; mkTok 42 "RiskControlRequest" 13 12 false; mkTok 40 "," 13 30 false; mkTok 30 "5" 14 8 false; mkTok 39 ":" 14 10 false; mkTok 42 "RiskControlResponse" 14 12 false; mkTok 40 "," 14 31 false; mkTok 3 "}" 15 4 false; mkTok 40 "," 15 5 false; mkTok 5 "@calculatedFrom(" 16 8 false; mkTok 31 """CRC32""" 16 24 false; mkTok 6 ")" 16 31 false; mkTok 22 "u32" 17 4 false; mkTok 42 "Ckecksum" 17 8 false; mkTok 43 (string_of_bytes [96; 230; 160; 161; 233; 170; 140; 229; 146; 140; 96]%N) 17 17 false; mkTok 40 "," 17 22 false; mkTok 3 "}" 18 0 false; mkTok 35 "packet" 20 0 false; mkTok 42 "Logon" 20 7 false; mkTok 2 "{" 20 13 false; mkTok 32 "@leftPad" 21 5 false; mkTok 8 "(" 21 13 false; mkTok 33 "'0'" 21 14 false; mkTok 6 ")" 21 17 false; mkTok 12 "char[" 22 4 false; mkTok 30 "10" 22 9 false; mkTok 13 "]" 22 11 false; mkTok 42 "UserName" 22 13 false; mkTok 43 (string_of_bytes [96; 231; 148; 168; 230; 136; 183; 229; 144; 141; 96]%N) 22 22 false; mkTok 40 "," 22 27 false; mkTok 15 "string" 23 4 false; mkTok 42 "Password" 23 11 false; mkTok 43 (string_of_bytes [96; 229; 175; 134; 231; 160; 129; 96]%N) 23 20 false; mkTok 40 "," 23 24 false; mkTok 23 "uint64" 24 4 false; mkTok 42 "ClientId" 24 11 false; mkTok 43 (string_of_bytes [96; 229; 174; 162; 230; 136; 183; 231; 171; 175; 73; 68; 96]%N) 24 20 false; mkTok 40 "," 24 27 false; mkTok 21 "u16" 25 4 false; mkTok 42 "HeartbeatInterval" 25 8 false; mkTok 43 (string_of_bytes [96; 229; 191; 131; 232; 183; 179; 233; 151; 180; 233; 154; 148; 96]%N) 25 26 false; mkTok 40 "," 25 32 false; mkTok 3 "}" 26 0 false; mkTok 35 "packet" 28 0 false; mkTok 42 "Logout" 28 7 false; mkTok 2 "{" 28 14 false; mkTok 32 "@rightPad" 29 6 false; mkTok 8 "(" 29 15 false; mkTok 33 "'0'" 29 16 false; mkTok 6 ")" 29 19 false; mkTok 12 "char[" 30 4 false; mkTok 30 "10" 30 9 false; mkTok 13 "]" 30 11 false; mkTok 42 "UserName" 30 13 false; mkTok 43 (string_of_bytes [96; 231; 148; 168; 230; 136; 183; 229; 144; 141; 96]%N) 30 22 false; mkTok 40 "," 30 27 false; mkTok 23 "uint64" 31 4 false; mkTok 42 "ClientId" 31 11 false; mkTok 43 (string_of_bytes [96; 229; 174; 162; 230; 136; 183; 231; 171; 175; 73; 68; 96]%N) 31 20 false; mkTok 40 "," 31 27 false; mkTok 3 "}" 32 0 false; mkTok 35 "packet" 34 0 false; mkTok 42 "Heartbeat" 34 7 false; mkTok 2 "{" 34 17 false; mkTok 3 "}" 35 0 false; mkTok 35 "packet" 37 0 false; mkTok 42 "RiskControlRequest" 37 7 false; mkTok 2 "{" 37 26 false; mkTok 15 "string" 38 4 false; mkTok 42 "UniqueOrderId" 38 11 false; mkTok 43 (string_of_bytes [96; 229; 148; 175; 228; 184; 128; 232; 174; 162; 229; 141; 149; 229; 143; 183; 96]%N) 38 25 false; mkTok 40 "," 38 32 false; mkTok 12 "char[" 39 4 false; mkTok 30 "16" 39 9 false; mkTok 13 "]" 39 11 false; mkTok 42 "ClOrdID" 39 13 false; mkTok 43 (string_of_bytes [96; 229; 174; 162; 230; 136; 183; 232; 174; 162; 229; 141; 149; 229; 143; 183; 96]%N) 39 21 false; mkTok 40 "," 39 28 false; mkTok 12 "char[" 40 4 false; mkTok 30 "3" 40 9 false; mkTok 13 "]" 40 10 false; mkTok 42 "MarketID" 40 12 false; mkTok 43 (string_of_bytes [96; 229; 184; 130; 229; 156; 186; 105; 100; 96]%N) 40 21 false; mkTok 40 "," 40 27 false; mkTok 12 "char[" 41 4 false; mkTok 30 "12" 41 9 false; mkTok 13 "]" 41 11 false; mkTok 42 "SecurityID" 41 13 false; mkTok 43 (string_of_bytes [96; 232; 175; 129; 229; 136; 184; 228; 187; 163; 231; 160; 129; 96]%N) 41 24 false; mkTok 40 "," 41 30 false; mkTok 19 "char" 42 4 false; mkTok 42 "Side" 42 9 false; mkTok 43 (string_of_bytes [96; 228; 185; 176; 229; 141; 150; 230; 150; 185; 229; 144; 145; 96]%N) 42 14 false; mkTok 40 "," 42 20 false; mkTok 19 "char" 43 4 false; mkTok 42 "OrderType" 43 9 false; mkTok 43 (string_of_bytes [96; 232; 174; 162; 229; 141; 149; 231; 177; 187; 229; 158; 139; 96]%N) 43 19 false; mkTok 40 "," 43 25 false; mkTok 23 "u64" 44 4 false; mkTok 42 "Price" 44 8 false; mkTok 43 (string_of_bytes [96; 228; 187; 183; 230; 160; 188; 96]%N) 44 14 false; mkTok 40 "," 44 18 false; mkTok 22 "u32" 45 4 false; mkTok 42 "Qty" 45 8 false; mkTok 43 (string_of_bytes [96; 230; 149; 176; 233; 135; 143; 96]%N) 45 12 false; mkTok 40 "," 45 16 false; mkTok 36 "repeat" 46 4 false; mkTok 15 "string" 46 11 false; mkTok 42 "ExtraInfo" 46 18 false; mkTok 43 (string_of_bytes [96; 233; 153; 132; 229; 138; 160; 228; 191; 161; 230; 129; 175; 96]%N) 46 28 false; mkTok 40 "," 46 34 false; mkTok 36 "repeat" 47 4 false; mkTok 42 "SubOrder" 47 11 false; mkTok 2 "{" 47 20 false; mkTok 12 "char[" 48 6 false; mkTok 30 "16" 48 11 false; mkTok 13 "]" 48 13 false; mkTok 42 "ClOrdID" 48 15 false; mkTok 43 (string_of_bytes [96; 229; 173; 144; 232; 174; 162; 229; 141; 149; 229; 143; 183; 96]%N) 48 23 false; mkTok 40 "," 48 29 false; mkTok 23 "u64" 49 6 false; mkTok 42 "Price" 49 10 false; mkTok 43 (string_of_bytes [96; 229; 173; 144; 232; 174; 162; 229; 141; 149; 228; 187; 183; 230; 160; 188; 96]%N) 49 16 false; mkTok 40 "," 49 23 false; mkTok 22 "u32" 50 6 false; mkTok 42 "Qty" 50 10 false; mkTok 43 (string_of_bytes [96; 229; 173; 144; 232; 174; 162; 229; 141; 149; 230; 149; 176; 233; 135; 143; 96]%N) 50 14 false; mkTok 40 "," 50 21 false; mkTok 3 "}" 51 5 false; mkTok 40 "," 51 6 false; mkTok 3 "}" 52 0 false; mkTok 35 "packet" 54 0 false; mkTok 42 "RiskControlResponse" 54 7 false; mkTok 2 "{" 54 27 false; mkTok 15 "string" 55 4 false; mkTok 42 "UniqueOrderId" 55 11 false; mkTok 43 (string_of_bytes [96; 229; 148; 175; 228; 184; 128; 232; 174; 162; 229; 141; 149; 229; 143; 183; 96]%N) 55 25 false; mkTok 40 "," 55 32 false; mkTok 26 "i32" 56 4 false; mkTok 42 "Status" 56 8 false; mkTok 43 (string_of_bytes [96; 231; 138; 182; 230; 128; 129; 96]%N) 56 15 false; mkTok 40 "," 56 19 false; mkTok 15 "string" 57 4 false; mkTok 42 "Msg" 57 11 false; mkTok 43 (string_of_bytes [96; 231; 187; 147; 230; 158; 156; 228; 191; 161; 230; 129; 175; 96]%N) 57 15 false; mkTok 40 "," 57 21 false; mkTok 36 "repeat" 58 4 false; mkTok 42 "Detail" 58 11 false; mkTok 40 "," 58 17 false; mkTok 3 "}" 59 0 false; mkTok 35 "packet" 61 0 false; mkTok 42 "Detail" 61 7 false; mkTok 2 "{" 61 14 false; mkTok 15 "string" 62 4 false; mkTok 42 "RuleName" 62 11 false; mkTok 43 (string_of_bytes [96; 232; 167; 132; 229; 136; 153; 229; 144; 141; 231; 167; 176; 96]%N) 62 20 false; mkTok 40 "," 62 26 false; mkTok 21 "u16" 63 4 false; mkTok 42 "Code" 63 8 false; mkTok 43 (string_of_bytes [96; 229; 142; 159; 229; 155; 160; 228; 187; 163; 231; 160; 129; 96]%N) 63 13 false; mkTok 40 "," 63 19 false; mkTok 3 "}" 64 0 false; mkTok 0 "<EOF>" 64 1 false] (mkPacket (mkPtok 1 "options" 1 0 0) (Some (mkPtok 3 "}" 64 0 204)) [(DOption (mkOptionDef (mkSpan (mkPtok 1 "options" 1 0 0) (mkPtok 3 "}" 4 0 10)) (mkPtok 1 "options" 1 0 0) (mkPtok 2 "{" 1 8 1) [(mkOptionDecl (mkSpan (mkPtok 42 "StringPrefixLenType" 2 1 2) (mkPtok 41 ";" 2 26 5)) (mkPtok 42 "StringPrefixLenType" 2 1 2) (mkPtok 4 "=" 2 21 3) (VType (mkSpan (mkPtok 21 "u16" 2 23 4) (mkPtok 21 "u16" 2 23 4)) (TyBasic (mkSpan (mkPtok 21 "u16" 2 23 4) (mkPtok 21 "u16" 2 23 4)) (mkBasicType (mkSpan (mkPtok 21 "u16" 2 23 4) (mkPtok 21 "u16" 2 23 4)) (mkPtok 21 "u16" 2 23 4)))) (Some (mkPtok 41 ";" 2 26 5))); (mkOptionDecl (mkSpan (mkPtok 42 "ArrayPrefixLenType" 3 1 6) (mkPtok 41 ";" 3 25 9)) (mkPtok 42 "ArrayPrefixLenType" 3 1 6) (mkPtok 4 "=" 3 20 7) (VType (mkSpan (mkPtok 21 "u16" 3 22 8) (mkPtok 21 "u16" 3 22 8)) (TyBasic (mkSpan (mkPtok 21 "u16" 3 22 8) (mkPtok 21 "u16" 3 22 8)) (mkBasicType (mkSpan (mkPtok 21 "u16" 3 22 8) (mkPtok 21 "u16" 3 22 8)) (mkPtok 21 "u16" 3 22 8)))) (Some (mkPtok 41 ";" 3 25 9)))] (mkPtok 3 "}" 4 0 10))); (DPacket (mkPacketDef (mkSpan (mkPtok 35 "packet" 6 0 11) (mkPtok 3 "}" 18 0 59)) None (mkPtok 35 "packet" 6 0 11) (mkPtok 42 "SampleBinary" 6 7 12) (mkPtok 2 "{" 6 20 13) [(mkFieldWithAttr (mkSpan (mkPtok 21 "uint16" 7 4 14) (mkPtok 40 "," 7 25 17)) [] (MetaField (mkSpan (mkPtok 21 "uint16" 7 4 14) (mkPtok 40 "," 7 25 17)) None (mkMetaDecl (mkSpan (mkPtok 21 "uint16" 7 4 14) (mkPtok 40 "," 7 25 17)) (TyBasic (mkSpan (mkPtok 21 "uint16" 7 4 14) (mkPtok 21 "uint16" 7 4 14)) (mkBasicType (mkSpan (mkPtok 21 "uint16" 7 4 14) (mkPtok 21 "uint16" 7 4 14)) (mkPtok 21 "uint16" 7 4 14))) (mkPtok 42 "MsgType" 7 11 15) (Some (mkPtok 43 (string_of_bytes [96; 230; 182; 136; 230; 129; 175; 231; 177; 187; 229; 158; 139; 96]%N) 7 19 16)) (mkPtok 40 "," 7 25 17)))); (mkFieldWithAttr (mkSpan (mkPtok 21 "u16" 8 4 18) (mkPtok 40 "," 8 42 24)) [] (LengthField (mkSpan (mkPtok 21 "u16" 8 4 18) (mkPtok 40 "," 8 42 24)) (mkLengthFieldDecl (mkSpan (mkPtok 21 "u16" 8 4 18) (mkPtok 40 "," 8 42 24)) (Some (TyBasic (mkSpan (mkPtok 21 "u16" 8 4 18) (mkPtok 21 "u16" 8 4 18)) (mkBasicType (mkSpan (mkPtok 21 "u16" 8 4 18) (mkPtok 21 "u16" 8 4 18)) (mkPtok 21 "u16" 8 4 18)))) (mkPtok 42 "BodyLenght" 8 8 19) (mkLengthOf (mkSpan (mkPtok 7 "@lengthOf(" 8 19 20) (mkPtok 6 ")" 8 33 22)) (mkPtok 7 "@lengthOf(" 8 19 20) (mkPtok 42 "Body" 8 29 21) (mkPtok 6 ")" 8 33 22)) (Some (mkPtok 43 (string_of_bytes [96; 230; 182; 136; 230; 129; 175; 228; 189; 147; 233; 149; 191; 229; 186; 166; 96]%N) 8 35 23)) (mkPtok 40 "," 8 42 24)))); (mkFieldWithAttr (mkSpan (mkPtok 38 "match" 9 4 25) (mkPtok 40 "," 15 5 51)) [] (MatchField (mkSpan (mkPtok 38 "match" 9 4 25) (mkPtok 40 "," 15 5 51)) (mkMatchFieldDecl (mkSpan (mkPtok 38 "match" 9 4 25) (mkPtok 3 "}" 15 4 50)) (mkPtok 38 "match" 9 4 25) (mkPtok 42 "MsgType" 9 10 26) (mkPtok 17 "as" 9 18 27) (mkPtok 42 "Body" 9 21 28) (mkPtok 2 "{" 9 26 29) [(mkMatchPair (mkSpan (mkPtok 30 "1" 10 8 30) (mkPtok 40 "," 10 17 33)) (MKDigits (mkPtok 30 "1" 10 8 30)) (mkPtok 39 ":" 10 10 31) (mkPtok 42 "Logon" 10 12 32) (Some (mkPtok 40 "," 10 17 33))); (mkMatchPair (mkSpan (mkPtok 30 "2" 11 8 34) (mkPtok 40 "," 11 18 37)) (MKDigits (mkPtok 30 "2" 11 8 34)) (mkPtok 39 ":" 11 10 35) (mkPtok 42 "Logout" 11 12 36) (Some (mkPtok 40 "," 11 18 37))); (mkMatchPair (mkSpan (mkPtok 30 "3" 12 8 38) (mkPtok 40 "," 12 21 41)) (MKDigits (mkPtok 30 "3" 12 8 38)) (mkPtok 39 ":" 12 10 39) (mkPtok 42 "Heartbeat" 12 12 40) (Some (mkPtok 40 "," 12 21 41))); (mkMatchPair (mkSpan (mkPtok 30 "4" 13 8 42) (mkPtok 40 "," 13 30 45)) (MKDigits (mkPtok 30 "4" 13 8 42)) (mkPtok 39 ":" 13 10 43) (mkPtok 42 "RiskControlRequest" 13 12 44) (Some (mkPtok 40 "," 13 30 45))); (mkMatchPair (mkSpan (mkPtok 30 "5" 14 8 46) (mkPtok 40 "," 14 31 49)) (MKDigits (mkPtok 30 "5" 14 8 46)) (mkPtok 39 ":" 14 10 47) (mkPtok 42 "RiskControlResponse" 14 12 48) (Some (mkPtok 40 "," 14 31 49)))] (mkPtok 3 "}" 15 4 50)) (mkPtok 40 "," 15 5 51))); (mkFieldWithAttr (mkSpan (mkPtok 5 "@calculatedFrom(" 16 8 52) (mkPtok 40 "," 17 22 58)) [(FACalculatedFrom (mkSpan (mkPtok 5 "@calculatedFrom(" 16 8 52) (mkPtok 6 ")" 16 31 54)) (mkCalculatedFrom (mkSpan (mkPtok 5 "@calculatedFrom(" 16 8 52) (mkPtok 6 ")" 16 31 54)) (mkPtok 5 "@calculatedFrom(" 16 8 52) (mkPtok 31 """CRC32""" 16 24 53) (mkPtok 6 ")" 16 31 54)))] (MetaField (mkSpan (mkPtok 22 "u32" 17 4 55) (mkPtok 40 "," 17 22 58)) None (mkMetaDecl (mkSpan (mkPtok 22 "u32" 17 4 55) (mkPtok 40 "," 17 22 58)) (TyBasic (mkSpan (mkPtok 22 "u32" 17 4 55) (mkPtok 22 "u32" 17 4 55)) (mkBasicType (mkSpan (mkPtok 22 "u32" 17 4 55) (mkPtok 22 "u32" 17 4 55)) (mkPtok 22 "u32" 17 4 55))) (mkPtok 42 "Ckecksum" 17 8 56) (Some (mkPtok 43 (string_of_bytes [96; 230; 160; 161; 233; 170; 140; 229; 146; 140; 96]%N) 17 17 57)) (mkPtok 40 "," 17 22 58))))] (mkPtok 3 "}" 18 0 59))); (DPacket (mkPacketDef (mkSpan (mkPtok 35 "packet" 20 0 60) (mkPtok 3 "}" 26 0 85)) None (mkPtok 35 "packet" 20 0 60) (mkPtok 42 "Logon" 20 7 61) (mkPtok 2 "{" 20 13 62) [(mkFieldWithAttr (mkSpan (mkPtok 32 "@leftPad" 21 5 63) (mkPtok 40 "," 22 27 72)) [(FAPadding (mkSpan (mkPtok 32 "@leftPad" 21 5 63) (mkPtok 6 ")" 21 17 66)) (mkPaddingAttr (mkSpan (mkPtok 32 "@leftPad" 21 5 63) (mkPtok 6 ")" 21 17 66)) (mkPtok 32 "@leftPad" 21 5 63) (mkPtok 8 "(" 21 13 64) (Some (mkPtok 33 "'0'" 21 14 65)) (mkPtok 6 ")" 21 17 66)))] (MetaField (mkSpan (mkPtok 12 "char[" 22 4 67) (mkPtok 40 "," 22 27 72)) None (mkMetaDecl (mkSpan (mkPtok 12 "char[" 22 4 67) (mkPtok 40 "," 22 27 72)) (TyFixed (mkSpan (mkPtok 12 "char[" 22 4 67) (mkPtok 13 "]" 22 11 69)) (mkFixedString (mkSpan (mkPtok 12 "char[" 22 4 67) (mkPtok 13 "]" 22 11 69)) (mkPtok 12 "char[" 22 4 67) (mkPtok 30 "10" 22 9 68) (mkPtok 13 "]" 22 11 69))) (mkPtok 42 "UserName" 22 13 70) (Some (mkPtok 43 (string_of_bytes [96; 231; 148; 168; 230; 136; 183; 229; 144; 141; 96]%N) 22 22 71)) (mkPtok 40 "," 22 27 72)))); (mkFieldWithAttr (mkSpan (mkPtok 15 "string" 23 4 73) (mkPtok 40 "," 23 24 76)) [] (MetaField (mkSpan (mkPtok 15 "string" 23 4 73) (mkPtok 40 "," 23 24 76)) None (mkMetaDecl (mkSpan (mkPtok 15 "string" 23 4 73) (mkPtok 40 "," 23 24 76)) (TyDynamic (mkSpan (mkPtok 15 "string" 23 4 73) (mkPtok 15 "string" 23 4 73)) (mkDynamicString (mkSpan (mkPtok 15 "string" 23 4 73) (mkPtok 15 "string" 23 4 73)) (mkPtok 15 "string" 23 4 73))) (mkPtok 42 "Password" 23 11 74) (Some (mkPtok 43 (string_of_bytes [96; 229; 175; 134; 231; 160; 129; 96]%N) 23 20 75)) (mkPtok 40 "," 23 24 76)))); (mkFieldWithAttr (mkSpan (mkPtok 23 "uint64" 24 4 77) (mkPtok 40 "," 24 27 80)) [] (MetaField (mkSpan (mkPtok 23 "uint64" 24 4 77) (mkPtok 40 "," 24 27 80)) None (mkMetaDecl (mkSpan (mkPtok 23 "uint64" 24 4 77) (mkPtok 40 "," 24 27 80)) (TyBasic (mkSpan (mkPtok 23 "uint64" 24 4 77) (mkPtok 23 "uint64" 24 4 77)) (mkBasicType (mkSpan (mkPtok 23 "uint64" 24 4 77) (mkPtok 23 "uint64" 24 4 77)) (mkPtok 23 "uint64" 24 4 77))) (mkPtok 42 "ClientId" 24 11 78) (Some (mkPtok 43 (string_of_bytes [96; 229; 174; 162; 230; 136; 183; 231; 171; 175; 73; 68; 96]%N) 24 20 79)) (mkPtok 40 "," 24 27 80)))); (mkFieldWithAttr (mkSpan (mkPtok 21 "u16" 25 4 81) (mkPtok 40 "," 25 32 84)) [] (MetaField (mkSpan (mkPtok 21 "u16" 25 4 81) (mkPtok 40 "," 25 32 84)) None (mkMetaDecl (mkSpan (mkPtok 21 "u16" 25 4 81) (mkPtok 40 "," 25 32 84)) (TyBasic (mkSpan (mkPtok 21 "u16" 25 4 81) (mkPtok 21 "u16" 25 4 81)) (mkBasicType (mkSpan (mkPtok 21 "u16" 25 4 81) (mkPtok 21 "u16" 25 4 81)) (mkPtok 21 "u16" 25 4 81))) (mkPtok 42 "HeartbeatInterval" 25 8 82) (Some (mkPtok 43 (string_of_bytes [96; 229; 191; 131; 232; 183; 179; 233; 151; 180; 233; 154; 148; 96]%N) 25 26 83)) (mkPtok 40 "," 25 32 84))))] (mkPtok 3 "}" 26 0 85))); (DPacket (mkPacketDef (mkSpan (mkPtok 35 "packet" 28 0 86) (mkPtok 3 "}" 32 0 103)) None (mkPtok 35 "packet" 28 0 86) (mkPtok 42 "Logout" 28 7 87) (mkPtok 2 "{" 28 14 88) [(mkFieldWithAttr (mkSpan (mkPtok 32 "@rightPad" 29 6 89) (mkPtok 40 "," 30 27 98)) [(FAPadding (mkSpan (mkPtok 32 "@rightPad" 29 6 89) (mkPtok 6 ")" 29 19 92)) (mkPaddingAttr (mkSpan (mkPtok 32 "@rightPad" 29 6 89) (mkPtok 6 ")" 29 19 92)) (mkPtok 32 "@rightPad" 29 6 89) (mkPtok 8 "(" 29 15 90) (Some (mkPtok 33 "'0'" 29 16 91)) (mkPtok 6 ")" 29 19 92)))] (MetaField (mkSpan (mkPtok 12 "char[" 30 4 93) (mkPtok 40 "," 30 27 98)) None (mkMetaDecl (mkSpan (mkPtok 12 "char[" 30 4 93) (mkPtok 40 "," 30 27 98)) (TyFixed (mkSpan (mkPtok 12 "char[" 30 4 93) (mkPtok 13 "]" 30 11 95)) (mkFixedString (mkSpan (mkPtok 12 "char[" 30 4 93) (mkPtok 13 "]" 30 11 95)) (mkPtok 12 "char[" 30 4 93) (mkPtok 30 "10" 30 9 94) (mkPtok 13 "]" 30 11 95))) (mkPtok 42 "UserName" 30 13 96) (Some (mkPtok 43 (string_of_bytes [96; 231; 148; 168; 230; 136; 183; 229; 144; 141; 96]%N) 30 22 97)) (mkPtok 40 "," 30 27 98)))); (mkFieldWithAttr (mkSpan (mkPtok 23 "uint64" 31 4 99) (mkPtok 40 "," 31 27 102)) [] (MetaField (mkSpan (mkPtok 23 "uint64" 31 4 99) (mkPtok 40 "," 31 27 102)) None (mkMetaDecl (mkSpan (mkPtok 23 "uint64" 31 4 99) (mkPtok 40 "," 31 27 102)) (TyBasic (mkSpan (mkPtok 23 "uint64" 31 4 99) (mkPtok 23 "uint64" 31 4 99)) (mkBasicType (mkSpan (mkPtok 23 "uint64" 31 4 99) (mkPtok 23 "uint64" 31 4 99)) (mkPtok 23 "uint64" 31 4 99))) (mkPtok 42 "ClientId" 31 11 100) (Some (mkPtok 43 (string_of_bytes [96; 229; 174; 162; 230; 136; 183; 231; 171; 175; 73; 68; 96]%N) 31 20 101)) (mkPtok 40 "," 31 27 102))))] (mkPtok 3 "}" 32 0 103))); (DPacket (mkPacketDef (mkSpan (mkPtok 35 "packet" 34 0 104) (mkPtok 3 "}" 35 0 107)) None (mkPtok 35 "packet" 34 0 104) (mkPtok 42 "Heartbeat" 34 7 105) (mkPtok 2 "{" 34 17 106) [] (mkPtok 3 "}" 35 0 107))); (DPacket (mkPacketDef (mkSpan (mkPtok 35 "packet" 37 0 108) (mkPtok 3 "}" 52 0 173)) None (mkPtok 35 "packet" 37 0 108) (mkPtok 42 "RiskControlRequest" 37 7 109) (mkPtok 2 "{" 37 26 110) [(mkFieldWithAttr (mkSpan (mkPtok 15 "string" 38 4 111) (mkPtok 40 "," 38 32 114)) [] (MetaField (mkSpan (mkPtok 15 "string" 38 4 111) (mkPtok 40 "," 38 32 114)) None (mkMetaDecl (mkSpan (mkPtok 15 "string" 38 4 111) (mkPtok 40 "," 38 32 114)) (TyDynamic (mkSpan (mkPtok 15 "string" 38 4 111) (mkPtok 15 "string" 38 4 111)) (mkDynamicString (mkSpan (mkPtok 15 "string" 38 4 111) (mkPtok 15 "string" 38 4 111)) (mkPtok 15 "string" 38 4 111))) (mkPtok 42 "UniqueOrderId" 38 11 112) (Some (mkPtok 43 (string_of_bytes [96; 229; 148; 175; 228; 184; 128; 232; 174; 162; 229; 141; 149; 229; 143; 183; 96]%N) 38 25 113)) (mkPtok 40 "," 38 32 114)))); (mkFieldWithAttr (mkSpan (mkPtok 12 "char[" 39 4 115) (mkPtok 40 "," 39 28 120)) [] (MetaField (mkSpan (mkPtok 12 "char[" 39 4 115) (mkPtok 40 "," 39 28 120)) None (mkMetaDecl (mkSpan (mkPtok 12 "char[" 39 4 115) (mkPtok 40 "," 39 28 120)) (TyFixed (mkSpan (mkPtok 12 "char[" 39 4 115) (mkPtok 13 "]" 39 11 117)) (mkFixedString (mkSpan (mkPtok 12 "char[" 39 4 115) (mkPtok 13 "]" 39 11 117)) (mkPtok 12 "char[" 39 4 115) (mkPtok 30 "16" 39 9 116) (mkPtok 13 "]" 39 11 117))) (mkPtok 42 "ClOrdID" 39 13 118) (Some (mkPtok 43 (string_of_bytes [96; 229; 174; 162; 230; 136; 183; 232; 174; 162; 229; 141; 149; 229; 143; 183; 96]%N) 39 21 119)) (mkPtok 40 "," 39 28 120)))); (mkFieldWithAttr (mkSpan (mkPtok 12 "char[" 40 4 121) (mkPtok 40 "," 40 27 126)) [] (MetaField (mkSpan (mkPtok 12 "char[" 40 4 121) (mkPtok 40 "," 40 27 126)) None (mkMetaDecl (mkSpan (mkPtok 12 "char[" 40 4 121) (mkPtok 40 "," 40 27 126)) (TyFixed (mkSpan (mkPtok 12 "char[" 40 4 121) (mkPtok 13 "]" 40 10 123)) (mkFixedString (mkSpan (mkPtok 12 "char[" 40 4 121) (mkPtok 13 "]" 40 10 123)) (mkPtok 12 "char[" 40 4 121) (mkPtok 30 "3" 40 9 122) (mkPtok 13 "]" 40 10 123))) (mkPtok 42 "MarketID" 40 12 124) (Some (mkPtok 43 (string_of_bytes [96; 229; 184; 130; 229; 156; 186; 105; 100; 96]%N) 40 21 125)) (mkPtok 40 "," 40 27 126)))); (mkFieldWithAttr (mkSpan (mkPtok 12 "char[" 41 4 127) (mkPtok 40 "," 41 30 132)) [] (MetaField (mkSpan (mkPtok 12 "char[" 41 4 127) (mkPtok 40 "," 41 30 132)) None (mkMetaDecl (mkSpan (mkPtok 12 "char[" 41 4 127) (mkPtok 40 "," 41 30 132)) (TyFixed (mkSpan (mkPtok 12 "char[" 41 4 127) (mkPtok 13 "]" 41 11 129)) (mkFixedString (mkSpan (mkPtok 12 "char[" 41 4 127) (mkPtok 13 "]" 41 11 129)) (mkPtok 12 "char[" 41 4 127) (mkPtok 30 "12" 41 9 128) (mkPtok 13 "]" 41 11 129))) (mkPtok 42 "SecurityID" 41 13 130) (Some (mkPtok 43 (string_of_bytes [96; 232; 175; 129; 229; 136; 184; 228; 187; 163; 231; 160; 129; 96]%N) 41 24 131)) (mkPtok 40 "," 41 30 132)))); (mkFieldWithAttr (mkSpan (mkPtok 19 "char" 42 4 133) (mkPtok 40 "," 42 20 136)) [] (MetaField (mkSpan (mkPtok 19 "char" 42 4 133) (mkPtok 40 "," 42 20 136)) None (mkMetaDecl (mkSpan (mkPtok 19 "char" 42 4 133) (mkPtok 40 "," 42 20 136)) (TyBasic (mkSpan (mkPtok 19 "char" 42 4 133) (mkPtok 19 "char" 42 4 133)) (mkBasicType (mkSpan (mkPtok 19 "char" 42 4 133) (mkPtok 19 "char" 42 4 133)) (mkPtok 19 "char" 42 4 133))) (mkPtok 42 "Side" 42 9 134) (Some (mkPtok 43 (string_of_bytes [96; 228; 185; 176; 229; 141; 150; 230; 150; 185; 229; 144; 145; 96]%N) 42 14 135)) (mkPtok 40 "," 42 20 136)))); (mkFieldWithAttr (mkSpan (mkPtok 19 "char" 43 4 137) (mkPtok 40 "," 43 25 140)) [] (MetaField (mkSpan (mkPtok 19 "char" 43 4 137) (mkPtok 40 "," 43 25 140)) None (mkMetaDecl (mkSpan (mkPtok 19 "char" 43 4 137) (mkPtok 40 "," 43 25 140)) (TyBasic (mkSpan (mkPtok 19 "char" 43 4 137) (mkPtok 19 "char" 43 4 137)) (mkBasicType (mkSpan (mkPtok 19 "char" 43 4 137) (mkPtok 19 "char" 43 4 137)) (mkPtok 19 "char" 43 4 137))) (mkPtok 42 "OrderType" 43 9 138) (Some (mkPtok 43 (string_of_bytes [96; 232; 174; 162; 229; 141; 149; 231; 177; 187; 229; 158; 139; 96]%N) 43 19 139)) (mkPtok 40 "," 43 25 140)))); (mkFieldWithAttr (mkSpan (mkPtok 23 "u64" 44 4 141) (mkPtok 40 "," 44 18 144)) [] (MetaField (mkSpan (mkPtok 23 "u64" 44 4 141) (mkPtok 40 "," 44 18 144)) None (mkMetaDecl (mkSpan (mkPtok 23 "u64" 44 4 141) (mkPtok 40 "," 44 18 144)) (TyBasic (mkSpan (mkPtok 23 "u64" 44 4 141) (mkPtok 23 "u64" 44 4 141)) (mkBasicType (mkSpan (mkPtok 23 "u64" 44 4 141) (mkPtok 23 "u64" 44 4 141)) (mkPtok 23 "u64" 44 4 141))) (mkPtok 42 "Price" 44 8 142) (Some (mkPtok 43 (string_of_bytes [96; 228; 187; 183; 230; 160; 188; 96]%N) 44 14 143)) (mkPtok 40 "," 44 18 144)))); (mkFieldWithAttr (mkSpan (mkPtok 22 "u32" 45 4 145) (mkPtok 40 "," 45 16 148)) [] (MetaField (mkSpan (mkPtok 22 "u32" 45 4 145) (mkPtok 40 "," 45 16 148)) None (mkMetaDecl (mkSpan (mkPtok 22 "u32" 45 4 145) (mkPtok 40 "," 45 16 148)) (TyBasic (mkSpan (mkPtok 22 "u32" 45 4 145) (mkPtok 22 "u32" 45 4 145)) (mkBasicType (mkSpan (mkPtok 22 "u32" 45 4 145) (mkPtok 22 "u32" 45 4 145)) (mkPtok 22 "u32" 45 4 145))) (mkPtok 42 "Qty" 45 8 146) (Some (mkPtok 43 (string_of_bytes [96; 230; 149; 176; 233; 135; 143; 96]%N) 45 12 147)) (mkPtok 40 "," 45 16 148)))); (mkFieldWithAttr (mkSpan (mkPtok 36 "repeat" 46 4 149) (mkPtok 40 "," 46 34 153)) [] (MetaField (mkSpan (mkPtok 36 "repeat" 46 4 149) (mkPtok 40 "," 46 34 153)) (Some (mkPtok 36 "repeat" 46 4 149)) (mkMetaDecl (mkSpan (mkPtok 15 "string" 46 11 150) (mkPtok 40 "," 46 34 153)) (TyDynamic (mkSpan (mkPtok 15 "string" 46 11 150) (mkPtok 15 "string" 46 11 150)) (mkDynamicString (mkSpan (mkPtok 15 "string" 46 11 150) (mkPtok 15 "string" 46 11 150)) (mkPtok 15 "string" 46 11 150))) (mkPtok 42 "ExtraInfo" 46 18 151) (Some (mkPtok 43 (string_of_bytes [96; 233; 153; 132; 229; 138; 160; 228; 191; 161; 230; 129; 175; 96]%N) 46 28 152)) (mkPtok 40 "," 46 34 153)))); (mkFieldWithAttr (mkSpan (mkPtok 36 "repeat" 47 4 154) (mkPtok 40 "," 51 6 172)) [] (InerObjectField (mkSpan (mkPtok 36 "repeat" 47 4 154) (mkPtok 40 "," 51 6 172)) (Some (mkPtok 36 "repeat" 47 4 154)) (InerObjectDecl (mkSpan (mkPtok 42 "SubOrder" 47 11 155) (mkPtok 3 "}" 51 5 171)) (mkPtok 42 "SubOrder" 47 11 155) (mkPtok 2 "{" 47 20 156) [(MetaField (mkSpan (mkPtok 12 "char[" 48 6 157) (mkPtok 40 "," 48 29 162)) None (mkMetaDecl (mkSpan (mkPtok 12 "char[" 48 6 157) (mkPtok 40 "," 48 29 162)) (TyFixed (mkSpan (mkPtok 12 "char[" 48 6 157) (mkPtok 13 "]" 48 13 159)) (mkFixedString (mkSpan (mkPtok 12 "char[" 48 6 157) (mkPtok 13 "]" 48 13 159)) (mkPtok 12 "char[" 48 6 157) (mkPtok 30 "16" 48 11 158) (mkPtok 13 "]" 48 13 159))) (mkPtok 42 "ClOrdID" 48 15 160) (Some (mkPtok 43 (string_of_bytes [96; 229; 173; 144; 232; 174; 162; 229; 141; 149; 229; 143; 183; 96]%N) 48 23 161)) (mkPtok 40 "," 48 29 162))); (MetaField (mkSpan (mkPtok 23 "u64" 49 6 163) (mkPtok 40 "," 49 23 166)) None (mkMetaDecl (mkSpan (mkPtok 23 "u64" 49 6 163) (mkPtok 40 "," 49 23 166)) (TyBasic (mkSpan (mkPtok 23 "u64" 49 6 163) (mkPtok 23 "u64" 49 6 163)) (mkBasicType (mkSpan (mkPtok 23 "u64" 49 6 163) (mkPtok 23 "u64" 49 6 163)) (mkPtok 23 "u64" 49 6 163))) (mkPtok 42 "Price" 49 10 164) (Some (mkPtok 43 (string_of_bytes [96; 229; 173; 144; 232; 174; 162; 229; 141; 149; 228; 187; 183; 230; 160; 188; 96]%N) 49 16 165)) (mkPtok 40 "," 49 23 166))); (MetaField (mkSpan (mkPtok 22 "u32" 50 6 167) (mkPtok 40 "," 50 21 170)) None (mkMetaDecl (mkSpan (mkPtok 22 "u32" 50 6 167) (mkPtok 40 "," 50 21 170)) (TyBasic (mkSpan (mkPtok 22 "u32" 50 6 167) (mkPtok 22 "u32" 50 6 167)) (mkBasicType (mkSpan (mkPtok 22 "u32" 50 6 167) (mkPtok 22 "u32" 50 6 167)) (mkPtok 22 "u32" 50 6 167))) (mkPtok 42 "Qty" 50 10 168) (Some (mkPtok 43 (string_of_bytes [96; 229; 173; 144; 232; 174; 162; 229; 141; 149; 230; 149; 176; 233; 135; 143; 96]%N) 50 14 169)) (mkPtok 40 "," 50 21 170)))] (mkPtok 3 "}" 51 5 171)) (mkPtok 40 "," 51 6 172)))] (mkPtok 3 "}" 52 0 173))); (DPacket (mkPacketDef (mkSpan (mkPtok 35 "packet" 54 0 174) (mkPtok 3 "}" 59 0 192)) None (mkPtok 35 "packet" 54 0 174) (mkPtok 42 "RiskControlResponse" 54 7 175) (mkPtok 2 "{" 54 27 176) [(mkFieldWithAttr (mkSpan (mkPtok 15 "string" 55 4 177) (mkPtok 40 "," 55 32 180)) [] (MetaField (mkSpan (mkPtok 15 "string" 55 4 177) (mkPtok 40 "," 55 32 180)) None (mkMetaDecl (mkSpan (mkPtok 15 "string" 55 4 177) (mkPtok 40 "," 55 32 180)) (TyDynamic (mkSpan (mkPtok 15 "string" 55 4 177) (mkPtok 15 "string" 55 4 177)) (mkDynamicString (mkSpan (mkPtok 15 "string" 55 4 177) (mkPtok 15 "string" 55 4 177)) (mkPtok 15 "string" 55 4 177))) (mkPtok 42 "UniqueOrderId" 55 11 178) (Some (mkPtok 43 (string_of_bytes [96; 229; 148; 175; 228; 184; 128; 232; 174; 162; 229; 141; 149; 229; 143; 183; 96]%N) 55 25 179)) (mkPtok 40 "," 55 32 180)))); (mkFieldWithAttr (mkSpan (mkPtok 26 "i32" 56 4 181) (mkPtok 40 "," 56 19 184)) [] (MetaField (mkSpan (mkPtok 26 "i32" 56 4 181) (mkPtok 40 "," 56 19 184)) None (mkMetaDecl (mkSpan (mkPtok 26 "i32" 56 4 181) (mkPtok 40 "," 56 19 184)) (TyBasic (mkSpan (mkPtok 26 "i32" 56 4 181) (mkPtok 26 "i32" 56 4 181)) (mkBasicType (mkSpan (mkPtok 26 "i32" 56 4 181) (mkPtok 26 "i32" 56 4 181)) (mkPtok 26 "i32" 56 4 181))) (mkPtok 42 "Status" 56 8 182) (Some (mkPtok 43 (string_of_bytes [96; 231; 138; 182; 230; 128; 129; 96]%N) 56 15 183)) (mkPtok 40 "," 56 19 184)))); (mkFieldWithAttr (mkSpan (mkPtok 15 "string" 57 4 185) (mkPtok 40 "," 57 21 188)) [] (MetaField (mkSpan (mkPtok 15 "string" 57 4 185) (mkPtok 40 "," 57 21 188)) None (mkMetaDecl (mkSpan (mkPtok 15 "string" 57 4 185) (mkPtok 40 "," 57 21 188)) (TyDynamic (mkSpan (mkPtok 15 "string" 57 4 185) (mkPtok 15 "string" 57 4 185)) (mkDynamicString (mkSpan (mkPtok 15 "string" 57 4 185) (mkPtok 15 "string" 57 4 185)) (mkPtok 15 "string" 57 4 185))) (mkPtok 42 "Msg" 57 11 186) (Some (mkPtok 43 (string_of_bytes [96; 231; 187; 147; 230; 158; 156; 228; 191; 161; 230; 129; 175; 96]%N) 57 15 187)) (mkPtok 40 "," 57 21 188)))); (mkFieldWithAttr (mkSpan (mkPtok 36 "repeat" 58 4 189) (mkPtok 40 "," 58 17 191)) [] (ObjectField (mkSpan (mkPtok 36 "repeat" 58 4 189) (mkPtok 40 "," 58 17 191)) (Some (mkPtok 36 "repeat" 58 4 189)) (mkPtok 42 "Detail" 58 11 190) None None (mkPtok 40 "," 58 17 191)))] (mkPtok 3 "}" 59 0 192))); (DPacket (mkPacketDef (mkSpan (mkPtok 35 "packet" 61 0 193) (mkPtok 3 "}" 64 0 204)) None (mkPtok 35 "packet" 61 0 193) (mkPtok 42 "Detail" 61 7 194) (mkPtok 2 "{" 61 14 195) [(mkFieldWithAttr (mkSpan (mkPtok 15 "string" 62 4 196) (mkPtok 40 "," 62 26 199)) [] (MetaField (mkSpan (mkPtok 15 "string" 62 4 196) (mkPtok 40 "," 62 26 199)) None (mkMetaDecl (mkSpan (mkPtok 15 "string" 62 4 196) (mkPtok 40 "," 62 26 199)) (TyDynamic (mkSpan (mkPtok 15 "string" 62 4 196) (mkPtok 15 "string" 62 4 196)) (mkDynamicString (mkSpan (mkPtok 15 "string" 62 4 196) (mkPtok 15 "string" 62 4 196)) (mkPtok 15 "string" 62 4 196))) (mkPtok 42 "RuleName" 62 11 197) (Some (mkPtok 43 (string_of_bytes [96; 232; 167; 132; 229; 136; 153; 229; 144; 141; 231; 167; 176; 96]%N) 62 20 198)) (mkPtok 40 "," 62 26 199)))); (mkFieldWithAttr (mkSpan (mkPtok 21 "u16" 63 4 200) (mkPtok 40 "," 63 19 203)) [] (MetaField (mkSpan (mkPtok 21 "u16" 63 4 200) (mkPtok 40 "," 63 19 203)) None (mkMetaDecl (mkSpan (mkPtok 21 "u16" 63 4 200) (mkPtok 40 "," 63 19 203)) (TyBasic (mkSpan (mkPtok 21 "u16" 63 4 200) (mkPtok 21 "u16" 63 4 200)) (mkBasicType (mkSpan (mkPtok 21 "u16" 63 4 200) (mkPtok 21 "u16" 63 4 200)) (mkPtok 21 "u16" 63 4 200))) (mkPtok 42 "Code" 63 8 201) (Some (mkPtok 43 (string_of_bytes [96; 229; 142; 159; 229; 155; 160; 228; 187; 163; 231; 160; 129; 96]%N) 63 13 202)) (mkPtok 40 "," 63 19 203))))] (mkPtok 3 "}" 64 0 204)))])).
Eval vm_compute in ("<<<M2033>>>" ++ check (runes_of_ascii "MetaData repeatCount { float64")).
Eval vm_compute in ("<<<M2065>>>" ++ check (runes_of_ascii "MetaData repeatCount { float64 packetx,
} root packet  metadata {
char char _x @lengthOf( trueish ), @leftPad
( ' '// " ++ [27880; 37322]%N ++ runes_of_ascii "
)/// triple
char[] len`doc` , // packet A { u8 x, }
repeatCount , }
")).
Eval vm_compute in ("<<<M2097>>>" ++ check (runes_of_ascii "MetaData repeatCount { float64 packetx,
} root packet  metadata {
char _x @lengthOf( trueish ), packet
( ' '// " ++ [27880; 37322]%N ++ runes_of_ascii "
)/// triple
char[] len`doc` , // packet A { u8 x, }
repeatCount , }
")).
Eval vm_compute in ("<<<M2129>>>" ++ check (runes_of_ascii "MetaData repeatCount { float64 packetx,
} root packet  metadata {
char _x @lengthOf( trueish ), @leftPad
( ' '// " ++ [27880; 37322]%N ++ runes_of_ascii "
)/// triple
char[] len`doc`  // packet A { u8 x, }
repeatCount , }
")).
Eval vm_compute in ("<<<M2161>>>" ++ check (runes_of_ascii "MetaData repeatCount { float64 packetx,
} root packet  metadata {
char _x @lengthOf( trueish ), @leftPad
( ' '// " ++ [27880; 37322]%N ++ runes_of_ascii "
)/// triple
char[] len`doc` , // packet A { u8 x, }
" ++ [127]%N ++ runes_of_ascii " repeatCount , }
")).
Eval vm_compute in ("<<<M2193>>>" ++ check (runes_of_ascii "options{
leftPad
    =""" ++ [233]%N ++ runes_of_ascii "t" ++ [233]%N ++ runes_of_ascii """
;
a1 = true ; packetx=  '\x00' ; packetx
=  """ ++ [28040; 24687]%N ++ runes_of_ascii """MetaDataX= // " ++ [27880; 37322]%N ++ runes_of_ascii "
false }root // c
packet // packet A { u8 x, }
Pad { repeat
u8 Header
// packet A { u8 x, }
//	t
`{ , }`
// a // b
//x
, }
")).
Eval vm_compute in ("<<<M2225>>>" ++ check (runes_of_ascii "options{
leftPad
    =65535
;
a1 = true ; packetx  '\x00' ; packetx
=  """ ++ [28040; 24687]%N ++ runes_of_ascii """MetaDataX= // " ++ [27880; 37322]%N ++ runes_of_ascii "
false }root // c
packet // packet A { u8 x, }
Pad { repeat
u8 Header
// packet A { u8 x, }
//	t
`{ , }`
// a // b
//x
, }
")).
Eval vm_compute in ("<<<M2257>>>" ++ check (runes_of_ascii "options{
leftPad
    =65535
;
a1 = true ; packetx=  '\x00' ; packetx
=  """ ++ [28040; 24687]%N ++ runes_of_ascii """=MetaDataX // " ++ [27880; 37322]%N ++ runes_of_ascii "
false }root // c
packet // packet A { u8 x, }
Pad { repeat
u8 Header
// packet A { u8 x, }
//	t
`{ , }`
// a // b
//x
, }
")).
Eval vm_compute in ("<<<M2289>>>" ++ check (runes_of_ascii "options{
leftPad
    =65535
;
a1 = true ; packetx=  '\x00' ; packetx
=  """ ++ [28040; 24687]%N ++ runes_of_ascii """MetaDataX= // " ++ [27880; 37322]%N ++ runes_of_ascii "
false }root // c
packet")).
Eval vm_compute in ("<<<M2321>>>" ++ check (runes_of_ascii "options{
leftPad
    =65535
;
a1 = true ; packetx=  '\x00' ; packetx
=  """ ++ [28040; 24687]%N ++ runes_of_ascii """MetaDataX= // " ++ [27880; 37322]%N ++ runes_of_ascii "
false }root // c
packet // packet A { u8 x, }
Pad { repeat
u8 Header
// packet A { u8 x, }
//	t
`{ , }`
// a // b
//x
, } }
")).
Eval vm_compute in ("<<<M2353>>>" ++ check (runes_of_ascii "
packet {
float	@calculatedFrom( """ ++ [233]%N ++ runes_of_ascii "t" ++ [233]%N ++ runes_of_ascii """ )
@rightPad ( '\x00' )
    @calculatedFrom( ""x y"" ) string chars  ,
    // a // b
    char[0 ]
    u	@lengthOf( i8i8 ) `{ , }` ,repeat char[] o //x
`// not a comment`, } // c")).
Eval vm_compute in ("<<<M2385>>>" ++ check (runes_of_ascii "
packet float
{	@calculatedFrom( """ ++ [233]%N ++ runes_of_ascii "t" ++ [233]%N ++ runes_of_ascii """ )
@rightPad")).
Eval vm_compute in ("<<<M2417>>>" ++ check (runes_of_ascii "
packet float
{	@calculatedFrom( """ ++ [233]%N ++ runes_of_ascii "t" ++ [233]%N ++ runes_of_ascii """ )
@rightPad ( '\x00' )
    @calculatedFrom( ""x y"" ) string chars chars  ,
    // a // b
    char[0 ]
    u	@lengthOf( i8i8 ) `{ , }` ,repeat char[] o //x
`// not a comment`, } // c")).
Eval vm_compute in ("<<<M2449>>>" ++ check (runes_of_ascii "
packet float
{	@calculatedFrom( """ ++ [233]%N ++ runes_of_ascii "t" ++ [233]%N ++ runes_of_ascii """ )
@rightPad ( '\x00' )
    @calculatedFrom( ""x y"" ) string chars  ,
    // a // b
    char[0 ]
    u	repeat i8i8 ) `{ , }` ,repeat char[] o //x
`// not a comment`, } // c")).
Eval vm_compute in ("<<<M2481>>>" ++ check (runes_of_ascii "
packet float
{	@calculatedFrom( """ ++ [233]%N ++ runes_of_ascii "t" ++ [233]%N ++ runes_of_ascii """ )
@rightPad ( '\x00' )
    @calculatedFrom( ""x y"" ) string chars  ,
    // a // b
    char[0 ]
    u	@lengthOf( i8i8 ) `{ , }` ,repeat char[]  //x
`// not a comment`, } // c")).
Eval vm_compute in ("<<<M2513>>>" ++ check (runes_of_ascii "
packet float
{	@calculatedFrom( """ ++ [233]%N ++ runes_of_ascii "t" ++ [233]%N ++ runes_of_ascii """ )
@leftpad@rightPad ( '\x00' )
    @calculatedFrom( ""x y"" ) string chars  ,
    // a // b
    char[0 ]
    u	@lengthOf( i8i8 ) `{ , }` ,repeat char[] o //x
`// not a comment`, } // c")).
Eval vm_compute in ("<<<M2545>>>" ++ check (runes_of_ascii "root packet u128{
    }
    zchar[ 65535 ] u `" ++ [28040; 24687; 31867; 22411]%N ++ runes_of_ascii "` ,// `tick` ""quote"" 'q'
} packet i64_ {repeatCount
    `
` ,	} // " ++ [128512]%N ++ runes_of_ascii " emoji")).
Eval vm_compute in ("<<<M2577>>>" ++ check (runes_of_ascii "root packet u128{
    repeat
    zchar[ 65535 ] u `" ++ [28040; 24687; 31867; 22411]%N ++ runes_of_ascii "` ,// `tick` ""quote"" 'q'
 packet i64_ {repeatCount
    `
` ,	} // " ++ [128512]%N ++ runes_of_ascii " emoji")).
Eval vm_compute in ("<<<M2609>>>" ++ check (runes_of_ascii "root packet u128{
    repeat
    zchar[ 65535 ] u `" ++ [28040; 24687; 31867; 22411]%N ++ runes_of_ascii "` ,// `tick` ""quote"" 'q'
} packet i64_ {repeatCount
    `
` }	, // " ++ [128512]%N ++ runes_of_ascii " emoji")).
Eval vm_compute in ("<<<M2641>>>" ++ check (runes_of_ascii "
char[
roots { int8
    BodyLength ,//	t
}
")).
Eval vm_compute in ("<<<M2673>>>" ++ check (runes_of_ascii "
MetaData
roots { int8
    BodyLength")).
Eval vm_compute in ("<<<M2705>>>" ++ check (runes_of_ascii "options {Packet Packet = ""CRC32""i8i8 = false; leftPad =
    '\x00'
    // `tick` ""quote"" 'q'
    ; o=255  ;
    // packet A { u8 x, }
    }")).
Eval vm_compute in ("<<<M2737>>>" ++ check (runes_of_ascii "options {Packet = ""CRC32""i8i8 = false[ leftPad =
    '\x00'
    // `tick` ""quote"" 'q'
    ; o=255  ;
    // packet A { u8 x, }
    }")).
Eval vm_compute in ("<<<M2769>>>" ++ check (runes_of_ascii "options {Packet = ""CRC32""i8i8 = false; leftPad =
    '\x00'
    // `tick` ""quote"" 'q'
    ; o=  ;
    // packet A { u8 x, }
    }")).
Eval vm_compute in ("<<<M2801>>>" ++ check (runes_of_ascii "options {Packet = ""CRC32""i8i8 = false; leftPad'\x01' =
    '\x00'
    // `tick` ""quote"" 'q'
    ; o=255  ;
    // packet A { u8 x, }
    }")).
Eval vm_compute in ("<<<M2833>>>" ++ check (runes_of_ascii "
packet metadata { @rightPad (
    // packet A { u8 x, }
    repeat ) repeat u32	A
,matchKey ,
    @lengthOf( string_ ) @lengthOf( body )
    // a // b
    @lengthOf(float  )	repeat
int32 u8x
    // c
    `tab	here`
, } // a // b")).
Eval vm_compute in ("<<<M2865>>>" ++ check (runes_of_ascii "
packet metadata { @rightPad (
    // packet A { u8 x, }
    ' ' ) repeat u32	A
,matchKey 
    @lengthOf( string_ ) @lengthOf( body )
    // a // b
    @lengthOf(float  )	repeat
int32 u8x
    // c
    `tab	here`
, } // a // b")).
Eval vm_compute in ("<<<M2897>>>" ++ check (runes_of_ascii "
packet metadata { @rightPad (
    // packet A { u8 x, }
    ' ' ) repeat u32	A
,matchKey ,
    @lengthOf( string_ ) @lengthOf( body @lengthOf(
    // a // b
    )float  )	repeat
int32 u8x
    // c
    `tab	here`
, } // a // b")).
Eval vm_compute in ("<<<M2929>>>" ++ check (runes_of_ascii "
packet metadata { @rightPad (
    // packet A { u8 x, }
    ' ' ) repeat u32	A
,matchKey ,
    @lengthOf( string_ ) @lengthOf( body )
    // a // b
    @lengthOf(float  )	repeat
int32")).
Eval vm_compute in ("<<<M2961>>>" ++ check (runes_of_ascii "
packet metadata { @rightPad (
    // packet A { u8 x, }
    ' ' ) repeat u32	A
,matchKey ,
    @lengthOf( string_ ) @lengthOf( body )
    // a // b
    @lengthOf(float  )	repeat
int32 u8x
    // c
    `tab	here`
, } // a // b@x ")).
Eval vm_compute in ("<<<M2993>>>" ++ check (runes_of_ascii "packet x{
string
zchar } //	t
,
")).
Eval vm_compute in ("<<<M3025>>>" ++ check (runes_of_ascii "
] Logon
{ // c
}root packet
    Pad {
    } options
{
u
    =
    ""CRC32""
    // " ++ [128512]%N ++ runes_of_ascii " emoji
    i64_ = u16;
T =65535 x = ' '
    ; u128
= true ; }")).
Eval vm_compute in ("<<<M3057>>>" ++ check (runes_of_ascii "
MetaData Logon
{ // c
}root packet
    Pad 
    } options
{
u
    =
    ""CRC32""
    // " ++ [128512]%N ++ runes_of_ascii " emoji
    i64_ = u16;
T =65535 x = ' '
    ; u128
= true ; }")).
Eval vm_compute in ("<<<M3089>>>" ++ check (runes_of_ascii "
MetaData Logon
{ // c
}root packet
    Pad {
    } options
{
u
    =
    i64_
    // " ++ [128512]%N ++ runes_of_ascii " emoji
    ""CRC32"" = u16;
T =65535 x = ' '
    ; u128
= true ; }")).
Eval vm_compute in ("<<<M3121>>>" ++ check (runes_of_ascii "
MetaData Logon
{ // c
}root packet
    Pad {
    } options
{
u
    =
    ""CRC32""
    // " ++ [128512]%N ++ runes_of_ascii " emoji
    i64_ = u16;
T")).
Eval vm_compute in ("<<<M3153>>>" ++ check (runes_of_ascii "
MetaData Logon
{ // c
}root packet
    Pad {
    } options
{
u
    =
    ""CRC32""
    // " ++ [128512]%N ++ runes_of_ascii " emoji
    i64_ = u16;
T =65535 x = ' '
    ; u128
= = true ; }")).
Eval vm_compute in ("<<<M3185>>>" ++ check (runes_of_ascii "
MetaData Logon
{ // c
}root packet
    Pad {
    } op@leftpadtions
{
u
    =
    ""CRC32""
    // " ++ [128512]%N ++ runes_of_ascii " emoji
    i64_ = u16;
T =65535 x = ' '
    ; u128
= true ; }")).
Eval vm_compute in ("<<<M3217>>>" ++ check (runes_of_ascii "MetaData body{}")).
Eval vm_compute in ("<<<M3249>>>" ++ check (runes_of_ascii "MetaData body{}
packet	Packet { x_y_z @calculatedFrom(  ""a\\"")// `tick` ""quote"" 'q'
, , }
")).
Eval vm_compute in ("<<<M3281>>>" ++ check (runes_of_ascii "f32a packet {} root packet len {repeat u // " ++ [128512]%N ++ runes_of_ascii " emoji
`{ , }` , }
")).
Eval vm_compute in ("<<<M3313>>>" ++ check (runes_of_ascii "packet f32a {} root packet")).
Eval vm_compute in ("<<<M3345>>>" ++ check (runes_of_ascii "packet f32a {} root pac")).
Eval vm_compute in ("<<<M3377>>>" ++ check (runes_of_ascii "options{ _x=""\" ++ [233]%N ++ runes_of_ascii """;
    Logon = 10	; Foo= ;
i64_= char[]} options {
matchKey = ""// no comment"" // a // b
falsey = string
; trueish =
    4294967296
options1=
    ""it's"" string_	= true } options {
    /// triple
    }")).
Eval vm_compute in ("<<<M3409>>>" ++ check (runes_of_ascii "options{ _x=;""\" ++ [233]%N ++ runes_of_ascii """
    Logon = 10	; Foo= 7;
i64_= char[]} options {
matchKey = ""// no comment"" // a // b
falsey = string
; trueish =
    4294967296
options1=
    ""it's"" string_	= true } options {
    /// triple
    }")).
Eval vm_compute in ("<<<M3441>>>" ++ check (runes_of_ascii "options{ _x=""\" ++ [233]%N ++ runes_of_ascii """;
    Logon } 10	; Foo= 7;
i64_= char[]} options {
matchKey = ""// no comment"" // a // b
falsey = string
; trueish =
    4294967296
options1=
    ""it's"" string_	= true } options {
    /// triple
    }")).
Eval vm_compute in ("<<<M3473>>>" ++ check (runes_of_ascii "options{ _x=""\" ++ [233]%N ++ runes_of_ascii """;
    Logon = 10	; Foo= 7;
;= char[]} options {
matchKey = ""// no comment"" // a // b
falsey = string
; trueish =
    4294967296
options1=
    ""it's"" string_	= true } options {
    /// triple
    }")).
Eval vm_compute in ("<<<M3505>>>" ++ check (runes_of_ascii "uint88")).
Eval vm_compute in ("<<<M3537>>>" ++ check (runes_of_ascii "'0'")).
Eval vm_compute in ("<<<M3569>>>" ++ check (runes_of_ascii "//x")).
Eval vm_compute in ("<<<M3601>>>" ++ check (runes_of_ascii "_")).
Eval vm_compute in ("<<<M3633>>>" ++ check (runes_of_ascii "packet A { u8 }")).
Eval vm_compute in ("<<<M3665>>>" ++ check (runes_of_ascii "packet A { B { u8 x, } C, }")).
Eval vm_compute in ("<<<M3697>>>" ++ check (runes_of_ascii "packet A { } ;")).
Eval vm_compute in ("<<<M3729>>>" ++ check (runes_of_ascii "options { a 1; }")).
Eval vm_compute in ("<<<M3761>>>" ++ check ([65279]%N)).
Eval vm_compute in ("<<<M3793>>>" ++ check (runes_of_ascii "ggR""-UYZ=E_[,]3Rnmhdcmvf_FI\>mp+")).
Eval vm_compute in ("<<<M3825>>>" ++ check (runes_of_ascii "4G")).
Eval vm_compute in ("<<<M3857>>>" ++ check (runes_of_ascii "4&PSOT|i?)22nvS9n9L3hDE>{>[")).
Eval vm_compute in ("<<<M3889>>>" ++ check (runes_of_ascii ";K8w~")).
Eval vm_compute in ("<<<M3921>>>" ++ check (runes_of_ascii "wX[!^R@26n2EkG8Vr]H&Yfjp`H:{yU/KlLz")).
Eval vm_compute in ("<<<M3953>>>" ++ check (runes_of_ascii "`0i(AQ-WHPEB_qz&p{2~W(jP;<(c=%")).
Eval vm_compute in ("<<<M3985>>>" ++ check (runes_of_ascii "=1Bqz|")).
