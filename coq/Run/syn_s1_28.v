From FP Require Import Lexer Parser ShowPT Digest.
From Coq Require Import String List NArith.
Import ListNotations.
Open Scope string_scope.
Set Printing Width 100000000.
Set Printing Depth 100000000.
Definition nl : string := String (Ascii.ascii_of_nat 10) EmptyString.
Definition model_lex (rs : list rune) : string := show_toks (lex rs).
Definition model_parse (rs : list rune) : string :=
  show_pt (match lex rs with Some ts => parse ts | None => None end).
(* coqc is slow at printing long strings: digests first (Digest.v), full texts on demand *)
Definition check (rs : list rune) : string :=
  digest (model_lex rs) ++ " " ++ digest (model_parse rs).
Definition full (rs : list rune) : string := model_lex rs ++ nl ++ model_parse rs.
Definition terms (ts : list tok) (t : pt) : string :=
  digest (show_toks (Some ts)) ++ " " ++ digest (show_pt (Some t)) ++ " " ++ digest (show_pt (parse ts)).
Definition terms_full (ts : list tok) (t : pt) : string :=
  show_toks (Some ts) ++ nl ++ show_pt (Some t) ++ nl ++ show_pt (parse ts).
Eval vm_compute in ("<<<M28>>>" ++ check (runes_of_ascii "options {
    i8i8 = ""1"" u=
    ""a	b"" //x
;a1=zchar[ 00
    // @lengthOf(
    ] ;
    // c
    o= ""a	b""
;  float
= char[]// a // b
;
} root packet chars{
}packet body // `tick` ""quote"" 'q'
{ repeat u8x {int16 zchar ,char[
1
] o `" ++ [233]%N ++ runes_of_ascii "`	,
    },}
    packet  BodyLength {
    // c
    @rightPad
    ('0' )u16 u8x@calculatedFrom( ""// no comment"" ),
    @tag(
1 )
// a // b
// " ++ [128512]%N ++ runes_of_ascii " emoji
match i8i8 as
u128 { 007 : len ,	""" ++ [128512]%N ++ runes_of_ascii """: u128
    ,
    } , repeat
    repeatCount// " ++ [128512]%N ++ runes_of_ascii " emoji
`u8 x,` , @calculatedFrom( // c
""x y""
)falsey {
char[ 255]  crc , Logon
`two words`  ,
roots options1
    , }	,
} root packet
calculatedFrom
    { }
")).
Eval vm_compute in ("<<<M60>>>" ++ check (runes_of_ascii "packet
chars {
match
    A as stringy
    { ""CRC32""
    // `tick` ""quote"" 'q'
    : len
    ,
    [	""x y""] : BodyLength	, // packet A { u8 x, }
}	,}
    options
{ // @lengthOf(
string_= '\x00'
; /// triple
} packet
/// triple
// " ++ [27880; 37322]%N ++ runes_of_ascii "
crc { @rightPad ( '\x00'
) match
    Header  as rootA{
[ 255	, 42
    ,""1""
, ""{,}"" ,
// 50% %s
// 50% %s
10	, ""CRC32"" , 7 ]: leftPad ,}, uint32 crc,// packet A { u8 x, }
u8x@lengthOf(MetaDataX
/// triple
/// triple
) , i32 o
    // `tick` ""quote"" 'q'
    `crlf
line` , } // packet A { u8 x, }")).
Eval vm_compute in ("<<<M92>>>" ++ check (runes_of_ascii "MetaData rootA
    {}
options{ rootA= '\x00' zchar
    ='0' rootA= float64 ;  trueish	= 3 i64_
= float64 ; } options{
    body
= '0'
    ;T= ""CRC32"";matchKey = char[] ; }	packet
rootA {
    // " ++ [128512]%N ++ runes_of_ascii " emoji
    @lengthOf( //
Z9_)
    @rightPad('0' ) Packet calculatedFrom , }packet
body
    { match metadata
as asx {
    3 : Header 3: packetx	, [  10]
:	Packet, """"
// 50% %s
// " ++ [27880; 37322]%N ++ runes_of_ascii "
:
pack
//x
// packet A { u8 x, }
, 10  : // `tick` ""quote"" 'q'
pack // `tick` ""quote"" 'q'
[
    255 , // a // b
"""",00 ,
""it's"" ] :
x }
// c
/// triple
,
    }
")).
Eval vm_compute in ("<<<M124>>>" ++ check (runes_of_ascii "root packet
A
// packet A { u8 x, }
// `tick` ""quote"" 'q'
{
    int64
    //	t
    Header@calculatedFrom(
""packet"" ) , f32 o `it's` ,
@calculatedFrom(// @lengthOf(
"""" )zchar[
0123456789 ] A @calculatedFrom(
    ""\" ++ [233]%N ++ runes_of_ascii """ )
    ,@calculatedFrom( ""abc""
// a // b
//	t
) repeat
    // `tick` ""quote"" 'q'
    char[] a1,
    repeat int trueish ,@rightPad
(
'\x00'
) zchar[4294967296] _x , } root packet Z9_ {
    } packet calculatedFrom { @lengthOf( int )repeat chars // trailing space 
body, options1// " ++ [27880; 37322]%N ++ runes_of_ascii "
@lengthOf(int) ,@lengthOf(a1 ) repeat char[
    //x
    1 ]  Pad `" ++ [28040; 24687; 31867; 22411]%N ++ runes_of_ascii "` , @calculatedFrom( """" )rootA u
// " ++ [27880; 37322]%N ++ runes_of_ascii "
//
`doc`,
int8 matchKey @calculatedFrom( ""CRC32""	) , @lengthOf( packetx ) @lengthOf(  msg_type ) u16 Foo	,	packetx crc `u8 x,`, zchar[ 255  ] A	,}")).
Eval vm_compute in ("<<<M156>>>" ++ check (runes_of_ascii "// " ++ [128512]%N ++ runes_of_ascii " emoji
packet tag { @lengthOf( matchKey //	t
)	zchar[
    7
    ] i8i8 ,@rightPad
( //
'0'	)
    // " ++ [128512]%N ++ runes_of_ascii " emoji
    int64//x
i8i8
,
    zchar[	255 ] float ,
}
")).
Eval vm_compute in ("<<<M188>>>" ++ check (runes_of_ascii "MetaData  len {	trueish int ,  i64 charz
    // " ++ [128512]%N ++ runes_of_ascii " emoji
    ,	int32 chars , u16
    Logon `100% of %d`
, zchar[00
] zchar
    ,/// triple
}")).
Eval vm_compute in ("<<<T188>>>" ++ terms [mkTok 37 "MetaData" 1 0 false; mkTok 42 "len" 1 10 false; mkTok 2 "{" 1 14 false; mkTok 42 "trueish" 1 16 false; mkTok 42 "int" 1 24 false; mkTok 40 "," 1 28 false; mkTok 27 "i64" 1 31 false; mkTok 42 "charz" 1 35 false; mkTok 44 (string_of_bytes [47; 47; 32; 240; 159; 152; 128; 32; 101; 109; 111; 106; 105]%N) 2 4 true; mkTok 40 "," 3 4 false; mkTok 26 "int32" 3 6 false; mkTok 42 "chars" 3 12 false; mkTok 40 "," 3 18 false; mkTok 21 "u16" 3 20 false; mkTok 42 "Logon" 4 4 false; mkTok 43 "`100% of %d`" 4 10 false; mkTok 40 "," 5 0 false; mkTok 14 "zchar[" 5 2 false; mkTok 30 "00" 5 8 false; mkTok 13 "]" 6 0 false; mkTok 42 "zchar" 6 2 false; mkTok 40 "," 7 4 false; mkTok 44 "/// triple" 7 5 true; mkTok 3 "}" 8 0 false; mkTok 0 "<EOF>" 8 1 false] (mkPacket (mkPtok 37 "MetaData" 1 0 0) (Some (mkPtok 3 "}" 8 0 23)) [(DMeta (mkMetaDef (mkSpan (mkPtok 37 "MetaData" 1 0 0) (mkPtok 3 "}" 8 0 23)) (mkPtok 37 "MetaData" 1 0 0) (mkPtok 42 "len" 1 10 1) (mkPtok 2 "{" 1 14 2) [(MIRef (mkRefMetaDecl (mkSpan (mkPtok 42 "trueish" 1 16 3) (mkPtok 40 "," 1 28 5)) (mkPtok 42 "trueish" 1 16 3) (mkPtok 42 "int" 1 24 4) None (mkPtok 40 "," 1 28 5))); (MIDecl (mkMetaDecl (mkSpan (mkPtok 27 "i64" 1 31 6) (mkPtok 40 "," 3 4 9)) (TyBasic (mkSpan (mkPtok 27 "i64" 1 31 6) (mkPtok 27 "i64" 1 31 6)) (mkBasicType (mkSpan (mkPtok 27 "i64" 1 31 6) (mkPtok 27 "i64" 1 31 6)) (mkPtok 27 "i64" 1 31 6))) (mkPtok 42 "charz" 1 35 7) None (mkPtok 40 "," 3 4 9))); (MIDecl (mkMetaDecl (mkSpan (mkPtok 26 "int32" 3 6 10) (mkPtok 40 "," 3 18 12)) (TyBasic (mkSpan (mkPtok 26 "int32" 3 6 10) (mkPtok 26 "int32" 3 6 10)) (mkBasicType (mkSpan (mkPtok 26 "int32" 3 6 10) (mkPtok 26 "int32" 3 6 10)) (mkPtok 26 "int32" 3 6 10))) (mkPtok 42 "chars" 3 12 11) None (mkPtok 40 "," 3 18 12))); (MIDecl (mkMetaDecl (mkSpan (mkPtok 21 "u16" 3 20 13) (mkPtok 40 "," 5 0 16)) (TyBasic (mkSpan (mkPtok 21 "u16" 3 20 13) (mkPtok 21 "u16" 3 20 13)) (mkBasicType (mkSpan (mkPtok 21 "u16" 3 20 13) (mkPtok 21 "u16" 3 20 13)) (mkPtok 21 "u16" 3 20 13))) (mkPtok 42 "Logon" 4 4 14) (Some (mkPtok 43 "`100% of %d`" 4 10 15)) (mkPtok 40 "," 5 0 16))); (MIDecl (mkMetaDecl (mkSpan (mkPtok 14 "zchar[" 5 2 17) (mkPtok 40 "," 7 4 21)) (TyFixed (mkSpan (mkPtok 14 "zchar[" 5 2 17) (mkPtok 13 "]" 6 0 19)) (mkFixedString (mkSpan (mkPtok 14 "zchar[" 5 2 17) (mkPtok 13 "]" 6 0 19)) (mkPtok 14 "zchar[" 5 2 17) (mkPtok 30 "00" 5 8 18) (mkPtok 13 "]" 6 0 19))) (mkPtok 42 "zchar" 6 2 20) None (mkPtok 40 "," 7 4 21)))] (mkPtok 3 "}" 8 0 23)))])).
Eval vm_compute in ("<<<M220>>>" ++ check (runes_of_ascii "packet
    // " ++ [27880; 37322]%N ++ runes_of_ascii "
    string_
    // " ++ [128512]%N ++ runes_of_ascii " emoji
    { f32 string_
    @calculatedFrom(
""" ++ [128512]%N ++ runes_of_ascii """),} packet int { }
root packet
    // trailing space 
    Header	{repeat
lengthOf {
    repeat int
{body Foo ,	}
    // trailing space 
    ,
match i8i8	as
Pad { [ 10 ]
    : options1
, ""abc"" :u8x
, """ ++ [128512]%N ++ runes_of_ascii """ // 50% %s
: f32a// 50% %s
00  :  metadata , },
// a // b
// " ++ [128512]%N ++ runes_of_ascii " emoji
lengthOf BodyLength ,
},
    }
")).
Eval vm_compute in ("<<<M252>>>" ++ check (runes_of_ascii "MetaData _x{ }
options{ //	t
A
    = """ ++ [28040; 24687]%N ++ runes_of_ascii """; }")).
Eval vm_compute in ("<<<M284>>>" ++ check (runes_of_ascii "
")).
Eval vm_compute in ("<<<M316>>>" ++ check (runes_of_ascii "packet
u8x { //
}root // " ++ [128512]%N ++ runes_of_ascii " emoji
packet // a // b
As	{ } 	 ")).
Eval vm_compute in ("<<<M348>>>" ++ check (runes_of_ascii "
 // 50% %s")).
Eval vm_compute in ("<<<M380>>>" ++ check (runes_of_ascii "
root packet Pad { options1
@lengthOf(	f32a/// triple
), }
")).
Eval vm_compute in ("<<<M412>>>" ++ check (runes_of_ascii "packet tag {
// a // b
// " ++ [27880; 37322]%N ++ runes_of_ascii "
u64	body @calculatedFrom(""x y"" ) `crlf
line` ,}
    root  packet As  {
    @tag(
4294967296 )  i8 int ,  f64  u128
@lengthOf(
packetx ), @calculatedFrom(
""" ++ [233]%N ++ runes_of_ascii "t" ++ [233]%N ++ runes_of_ascii """ )@tag( 0
    )
@lengthOf( falsey)
    lengthOf { uint32 f32a// 50% %s
,repeat roots //
{ char MetaDataX  ,
    i32 pack ,string metadata
    // 50% %s
    , } , }  , int8 T
,
/// triple
// c
@tag(
007
) @lengthOf( metadata ) repeat uint8x { char[]
As`" ++ [28040; 24687; 31867; 22411]%N ++ runes_of_ascii "` //
,match Logon as calculatedFrom
{
    [4294967296
    ] : metadata
""1"" : len
    0 : Logon ,
    ""x y""
:
    // trailing space 
    stringy
    ,
    ""it's""  : falsey // trailing space 
, ""1"" : string_
    , } ,//
Foo
    MetaDataX`crlf
line`,	} ,
    @rightPad ( ) float32 tag // c
@lengthOf( charz) ,
char[ 255// packet A { u8 x, }
]
    x_y_z
    , @calculatedFrom( // a // b
""it's""// @lengthOf(
)
    // " ++ [27880; 37322]%N ++ runes_of_ascii "
    x_y_z, } options{msg_type
    // " ++ [128512]%N ++ runes_of_ascii " emoji
    =
'0' ;
}
")).
Eval vm_compute in ("<<<T412>>>" ++ terms [mkTok 35 "packet" 1 0 false; mkTok 42 "tag" 1 7 false; mkTok 2 "{" 1 11 false; mkTok 44 "// a // b" 2 0 true; mkTok 44 (string_of_bytes [47; 47; 32; 230; 179; 168; 233; 135; 138]%N) 3 0 true; mkTok 23 "u64" 4 0 false; mkTok 42 "body" 4 4 false; mkTok 5 "@calculatedFrom(" 4 9 false; mkTok 31 """x y""" 4 25 false; mkTok 6 ")" 4 31 false; mkTok 43 (string_of_bytes [96; 99; 114; 108; 102; 13; 10; 108; 105; 110; 101; 96]%N) 4 33 false; mkTok 40 "," 5 6 false; mkTok 3 "}" 5 7 false; mkTok 34 "root" 6 4 false; mkTok 35 "packet" 6 10 false; mkTok 42 "As" 6 17 false; mkTok 2 "{" 6 21 false; mkTok 9 "@tag(" 7 4 false; mkTok 30 "4294967296" 8 0 false; mkTok 6 ")" 8 11 false; mkTok 24 "i8" 8 14 false; mkTok 42 "int" 8 17 false; mkTok 40 "," 8 21 false; mkTok 29 "f64" 8 24 false; mkTok 42 "u128" 8 29 false; mkTok 7 "@lengthOf(" 9 0 false; mkTok 42 "packetx" 10 0 false; mkTok 6 ")" 10 8 false; mkTok 40 "," 10 9 false; mkTok 5 "@calculatedFrom(" 10 11 false; mkTok 31 (string_of_bytes [34; 195; 169; 116; 195; 169; 34]%N) 11 0 false; mkTok 6 ")" 11 6 false; mkTok 9 "@tag(" 11 7 false; mkTok 30 "0" 11 13 false; mkTok 6 ")" 12 4 false; mkTok 7 "@lengthOf(" 13 0 false; mkTok 42 "falsey" 13 11 false; mkTok 6 ")" 13 17 false; mkTok 42 "lengthOf" 14 4 false; mkTok 2 "{" 14 13 false; mkTok 22 "uint32" 14 15 false; mkTok 42 "f32a" 14 22 false; mkTok 44 "// 50% %s" 14 26 true; mkTok 40 "," 15 0 false; mkTok 36 "repeat" 15 1 false; mkTok 42 "roots" 15 8 false; mkTok 44 "//" 15 14 true; mkTok 2 "{" 16 0 false; mkTok 19 "char" 16 2 false; mkTok 42 "MetaDataX" 16 7 false; mkTok 40 "," 16 18 false; mkTok 26 "i32" 17 4 false; mkTok 42 "pack" 17 8 false; mkTok 40 "," 17 13 false; mkTok 15 "string" 17 14 false; mkTok 42 "metadata" 17 21 false; mkTok 44 "// 50% %s" 18 4 true; mkTok 40 "," 19 4 false; mkTok 3 "}" 19 6 false; mkTok 40 "," 19 8 false; mkTok 3 "}" 19 10 false; mkTok 40 "," 19 13 false; mkTok 24 "int8" 19 15 false; mkTok 42 "T" 19 20 false; mkTok 40 "," 20 0 false; mkTok 44 "/// triple" 21 0 true; mkTok 44 "// c" 22 0 true; mkTok 9 "@tag(" 23 0 false; mkTok 30 "007" 24 0 false; mkTok 6 ")" 25 0 false; mkTok 7 "@lengthOf(" 25 2 false; mkTok 42 "metadata" 25 13 false; mkTok 6 ")" 25 22 false; mkTok 36 "repeat" 25 24 false; mkTok 42 "uint8x" 25 31 false; mkTok 2 "{" 25 38 false; mkTok 16 "char[]" 25 40 false; mkTok 42 "As" 26 0 false; mkTok 43 (string_of_bytes [96; 230; 182; 136; 230; 129; 175; 231; 177; 187; 229; 158; 139; 96]%N) 26 2 false; mkTok 44 "//" 26 9 true; mkTok 40 "," 27 0 false; mkTok 38 "match" 27 1 false; mkTok 42 "Logon" 27 7 false; mkTok 17 "as" 27 13 false; mkTok 42 "calculatedFrom" 27 16 false; mkTok 2 "{" 28 0 false; mkTok 18 "[" 29 4 false; mkTok 30 "4294967296" 29 5 false; mkTok 13 "]" 30 4 false; mkTok 39 ":" 30 6 false; mkTok 42 "metadata" 30 8 false; mkTok 31 """1""" 31 0 false; mkTok 39 ":" 31 4 false; mkTok 42 "len" 31 6 false; mkTok 30 "0" 32 4 false; mkTok 39 ":" 32 6 false; mkTok 42 "Logon" 32 8 false; mkTok 40 "," 32 14 false; mkTok 31 """x y""" 33 4 false; mkTok 39 ":" 34 0 false; mkTok 44 "// trailing space " 35 4 true; mkTok 42 "stringy" 36 4 false; mkTok 40 "," 37 4 false; mkTok 31 """it's""" 38 4 false; mkTok 39 ":" 38 12 false; mkTok 42 "falsey" 38 14 false; mkTok 44 "// trailing space " 38 21 true; mkTok 40 "," 39 0 false; mkTok 31 """1""" 39 2 false; mkTok 39 ":" 39 6 false; mkTok 42 "string_" 39 8 false; mkTok 40 "," 40 4 false; mkTok 3 "}" 40 6 false; mkTok 40 "," 40 8 false; mkTok 44 "//" 40 9 true; mkTok 42 "Foo" 41 0 false; mkTok 42 "MetaDataX" 42 4 false; mkTok 43 (string_of_bytes [96; 99; 114; 108; 102; 13; 10; 108; 105; 110; 101; 96]%N) 42 13 false; mkTok 40 "," 43 5 false; mkTok 3 "}" 43 7 false; mkTok 40 "," 43 9 false; mkTok 32 "@rightPad" 44 4 false; mkTok 8 "(" 44 14 false; mkTok 6 ")" 44 16 false; mkTok 28 "float32" 44 18 false; mkTok 42 "tag" 44 26 false; mkTok 44 "// c" 44 30 true; mkTok 7 "@lengthOf(" 45 0 false; mkTok 42 "charz" 45 11 false; mkTok 6 ")" 45 16 false; mkTok 40 "," 45 18 false; mkTok 12 "char[" 46 0 false; mkTok 30 "255" 46 6 false; mkTok 44 "// packet A { u8 x, }" 46 9 true; mkTok 13 "]" 47 0 false; mkTok 42 "x_y_z" 48 4 false; mkTok 40 "," 49 4 false; mkTok 5 "@calculatedFrom(" 49 6 false; mkTok 44 "// a // b" 49 23 true; mkTok 31 """it's""" 50 0 false; mkTok 44 "// @lengthOf(" 50 6 true; mkTok 6 ")" 51 0 false; mkTok 44 (string_of_bytes [47; 47; 32; 230; 179; 168; 233; 135; 138]%N) 52 4 true; mkTok 42 "x_y_z" 53 4 false; mkTok 40 "," 53 9 false; mkTok 3 "}" 53 11 false; mkTok 1 "options" 53 13 false; mkTok 2 "{" 53 20 false; mkTok 42 "msg_type" 53 21 false; mkTok 44 (string_of_bytes [47; 47; 32; 240; 159; 152; 128; 32; 101; 109; 111; 106; 105]%N) 54 4 true; mkTok 4 "=" 55 4 false; mkTok 33 "'0'" 56 0 false; mkTok 41 ";" 56 4 false; mkTok 3 "}" 57 0 false; mkTok 0 "<EOF>" 58 0 false] (mkPacket (mkPtok 35 "packet" 1 0 0) (Some (mkPtok 3 "}" 57 0 153)) [(DPacket (mkPacketDef (mkSpan (mkPtok 35 "packet" 1 0 0) (mkPtok 3 "}" 5 7 12)) None (mkPtok 35 "packet" 1 0 0) (mkPtok 42 "tag" 1 7 1) (mkPtok 2 "{" 1 11 2) [(mkFieldWithAttr (mkSpan (mkPtok 23 "u64" 4 0 5) (mkPtok 40 "," 5 6 11)) [] (CheckSumField (mkSpan (mkPtok 23 "u64" 4 0 5) (mkPtok 40 "," 5 6 11)) (mkChecksumFieldDecl (mkSpan (mkPtok 23 "u64" 4 0 5) (mkPtok 40 "," 5 6 11)) (Some (TyBasic (mkSpan (mkPtok 23 "u64" 4 0 5) (mkPtok 23 "u64" 4 0 5)) (mkBasicType (mkSpan (mkPtok 23 "u64" 4 0 5) (mkPtok 23 "u64" 4 0 5)) (mkPtok 23 "u64" 4 0 5)))) (mkPtok 42 "body" 4 4 6) (mkCalculatedFrom (mkSpan (mkPtok 5 "@calculatedFrom(" 4 9 7) (mkPtok 6 ")" 4 31 9)) (mkPtok 5 "@calculatedFrom(" 4 9 7) (mkPtok 31 """x y""" 4 25 8) (mkPtok 6 ")" 4 31 9)) (Some (mkPtok 43 (string_of_bytes [96; 99; 114; 108; 102; 13; 10; 108; 105; 110; 101; 96]%N) 4 33 10)) (mkPtok 40 "," 5 6 11))))] (mkPtok 3 "}" 5 7 12))); (DPacket (mkPacketDef (mkSpan (mkPtok 34 "root" 6 4 13) (mkPtok 3 "}" 53 11 145)) (Some (mkPtok 34 "root" 6 4 13)) (mkPtok 35 "packet" 6 10 14) (mkPtok 42 "As" 6 17 15) (mkPtok 2 "{" 6 21 16) [(mkFieldWithAttr (mkSpan (mkPtok 9 "@tag(" 7 4 17) (mkPtok 40 "," 8 21 22)) [(FATag (mkSpan (mkPtok 9 "@tag(" 7 4 17) (mkPtok 6 ")" 8 11 19)) (mkTagAttr (mkSpan (mkPtok 9 "@tag(" 7 4 17) (mkPtok 6 ")" 8 11 19)) (mkPtok 9 "@tag(" 7 4 17) (mkPtok 30 "4294967296" 8 0 18) (mkPtok 6 ")" 8 11 19)))] (MetaField (mkSpan (mkPtok 24 "i8" 8 14 20) (mkPtok 40 "," 8 21 22)) None (mkMetaDecl (mkSpan (mkPtok 24 "i8" 8 14 20) (mkPtok 40 "," 8 21 22)) (TyBasic (mkSpan (mkPtok 24 "i8" 8 14 20) (mkPtok 24 "i8" 8 14 20)) (mkBasicType (mkSpan (mkPtok 24 "i8" 8 14 20) (mkPtok 24 "i8" 8 14 20)) (mkPtok 24 "i8" 8 14 20))) (mkPtok 42 "int" 8 17 21) None (mkPtok 40 "," 8 21 22)))); (mkFieldWithAttr (mkSpan (mkPtok 29 "f64" 8 24 23) (mkPtok 40 "," 10 9 28)) [] (LengthField (mkSpan (mkPtok 29 "f64" 8 24 23) (mkPtok 40 "," 10 9 28)) (mkLengthFieldDecl (mkSpan (mkPtok 29 "f64" 8 24 23) (mkPtok 40 "," 10 9 28)) (Some (TyBasic (mkSpan (mkPtok 29 "f64" 8 24 23) (mkPtok 29 "f64" 8 24 23)) (mkBasicType (mkSpan (mkPtok 29 "f64" 8 24 23) (mkPtok 29 "f64" 8 24 23)) (mkPtok 29 "f64" 8 24 23)))) (mkPtok 42 "u128" 8 29 24) (mkLengthOf (mkSpan (mkPtok 7 "@lengthOf(" 9 0 25) (mkPtok 6 ")" 10 8 27)) (mkPtok 7 "@lengthOf(" 9 0 25) (mkPtok 42 "packetx" 10 0 26) (mkPtok 6 ")" 10 8 27)) None (mkPtok 40 "," 10 9 28)))); (mkFieldWithAttr (mkSpan (mkPtok 5 "@calculatedFrom(" 10 11 29) (mkPtok 40 "," 19 13 61)) [(FACalculatedFrom (mkSpan (mkPtok 5 "@calculatedFrom(" 10 11 29) (mkPtok 6 ")" 11 6 31)) (mkCalculatedFrom (mkSpan (mkPtok 5 "@calculatedFrom(" 10 11 29) (mkPtok 6 ")" 11 6 31)) (mkPtok 5 "@calculatedFrom(" 10 11 29) (mkPtok 31 (string_of_bytes [34; 195; 169; 116; 195; 169; 34]%N) 11 0 30) (mkPtok 6 ")" 11 6 31))); (FATag (mkSpan (mkPtok 9 "@tag(" 11 7 32) (mkPtok 6 ")" 12 4 34)) (mkTagAttr (mkSpan (mkPtok 9 "@tag(" 11 7 32) (mkPtok 6 ")" 12 4 34)) (mkPtok 9 "@tag(" 11 7 32) (mkPtok 30 "0" 11 13 33) (mkPtok 6 ")" 12 4 34))); (FALengthOf (mkSpan (mkPtok 7 "@lengthOf(" 13 0 35) (mkPtok 6 ")" 13 17 37)) (mkLengthOf (mkSpan (mkPtok 7 "@lengthOf(" 13 0 35) (mkPtok 6 ")" 13 17 37)) (mkPtok 7 "@lengthOf(" 13 0 35) (mkPtok 42 "falsey" 13 11 36) (mkPtok 6 ")" 13 17 37)))] (InerObjectField (mkSpan (mkPtok 42 "lengthOf" 14 4 38) (mkPtok 40 "," 19 13 61)) None (InerObjectDecl (mkSpan (mkPtok 42 "lengthOf" 14 4 38) (mkPtok 3 "}" 19 10 60)) (mkPtok 42 "lengthOf" 14 4 38) (mkPtok 2 "{" 14 13 39) [(MetaField (mkSpan (mkPtok 22 "uint32" 14 15 40) (mkPtok 40 "," 15 0 43)) None (mkMetaDecl (mkSpan (mkPtok 22 "uint32" 14 15 40) (mkPtok 40 "," 15 0 43)) (TyBasic (mkSpan (mkPtok 22 "uint32" 14 15 40) (mkPtok 22 "uint32" 14 15 40)) (mkBasicType (mkSpan (mkPtok 22 "uint32" 14 15 40) (mkPtok 22 "uint32" 14 15 40)) (mkPtok 22 "uint32" 14 15 40))) (mkPtok 42 "f32a" 14 22 41) None (mkPtok 40 "," 15 0 43))); (InerObjectField (mkSpan (mkPtok 36 "repeat" 15 1 44) (mkPtok 40 "," 19 8 59)) (Some (mkPtok 36 "repeat" 15 1 44)) (InerObjectDecl (mkSpan (mkPtok 42 "roots" 15 8 45) (mkPtok 3 "}" 19 6 58)) (mkPtok 42 "roots" 15 8 45) (mkPtok 2 "{" 16 0 47) [(MetaField (mkSpan (mkPtok 19 "char" 16 2 48) (mkPtok 40 "," 16 18 50)) None (mkMetaDecl (mkSpan (mkPtok 19 "char" 16 2 48) (mkPtok 40 "," 16 18 50)) (TyBasic (mkSpan (mkPtok 19 "char" 16 2 48) (mkPtok 19 "char" 16 2 48)) (mkBasicType (mkSpan (mkPtok 19 "char" 16 2 48) (mkPtok 19 "char" 16 2 48)) (mkPtok 19 "char" 16 2 48))) (mkPtok 42 "MetaDataX" 16 7 49) None (mkPtok 40 "," 16 18 50))); (MetaField (mkSpan (mkPtok 26 "i32" 17 4 51) (mkPtok 40 "," 17 13 53)) None (mkMetaDecl (mkSpan (mkPtok 26 "i32" 17 4 51) (mkPtok 40 "," 17 13 53)) (TyBasic (mkSpan (mkPtok 26 "i32" 17 4 51) (mkPtok 26 "i32" 17 4 51)) (mkBasicType (mkSpan (mkPtok 26 "i32" 17 4 51) (mkPtok 26 "i32" 17 4 51)) (mkPtok 26 "i32" 17 4 51))) (mkPtok 42 "pack" 17 8 52) None (mkPtok 40 "," 17 13 53))); (MetaField (mkSpan (mkPtok 15 "string" 17 14 54) (mkPtok 40 "," 19 4 57)) None (mkMetaDecl (mkSpan (mkPtok 15 "string" 17 14 54) (mkPtok 40 "," 19 4 57)) (TyDynamic (mkSpan (mkPtok 15 "string" 17 14 54) (mkPtok 15 "string" 17 14 54)) (mkDynamicString (mkSpan (mkPtok 15 "string" 17 14 54) (mkPtok 15 "string" 17 14 54)) (mkPtok 15 "string" 17 14 54))) (mkPtok 42 "metadata" 17 21 55) None (mkPtok 40 "," 19 4 57)))] (mkPtok 3 "}" 19 6 58)) (mkPtok 40 "," 19 8 59))] (mkPtok 3 "}" 19 10 60)) (mkPtok 40 "," 19 13 61))); (mkFieldWithAttr (mkSpan (mkPtok 24 "int8" 19 15 62) (mkPtok 40 "," 20 0 64)) [] (MetaField (mkSpan (mkPtok 24 "int8" 19 15 62) (mkPtok 40 "," 20 0 64)) None (mkMetaDecl (mkSpan (mkPtok 24 "int8" 19 15 62) (mkPtok 40 "," 20 0 64)) (TyBasic (mkSpan (mkPtok 24 "int8" 19 15 62) (mkPtok 24 "int8" 19 15 62)) (mkBasicType (mkSpan (mkPtok 24 "int8" 19 15 62) (mkPtok 24 "int8" 19 15 62)) (mkPtok 24 "int8" 19 15 62))) (mkPtok 42 "T" 19 20 63) None (mkPtok 40 "," 20 0 64)))); (mkFieldWithAttr (mkSpan (mkPtok 9 "@tag(" 23 0 67) (mkPtok 40 "," 43 9 120)) [(FATag (mkSpan (mkPtok 9 "@tag(" 23 0 67) (mkPtok 6 ")" 25 0 69)) (mkTagAttr (mkSpan (mkPtok 9 "@tag(" 23 0 67) (mkPtok 6 ")" 25 0 69)) (mkPtok 9 "@tag(" 23 0 67) (mkPtok 30 "007" 24 0 68) (mkPtok 6 ")" 25 0 69))); (FALengthOf (mkSpan (mkPtok 7 "@lengthOf(" 25 2 70) (mkPtok 6 ")" 25 22 72)) (mkLengthOf (mkSpan (mkPtok 7 "@lengthOf(" 25 2 70) (mkPtok 6 ")" 25 22 72)) (mkPtok 7 "@lengthOf(" 25 2 70) (mkPtok 42 "metadata" 25 13 71) (mkPtok 6 ")" 25 22 72)))] (InerObjectField (mkSpan (mkPtok 36 "repeat" 25 24 73) (mkPtok 40 "," 43 9 120)) (Some (mkPtok 36 "repeat" 25 24 73)) (InerObjectDecl (mkSpan (mkPtok 42 "uint8x" 25 31 74) (mkPtok 3 "}" 43 7 119)) (mkPtok 42 "uint8x" 25 31 74) (mkPtok 2 "{" 25 38 75) [(MetaField (mkSpan (mkPtok 16 "char[]" 25 40 76) (mkPtok 40 "," 27 0 80)) None (mkMetaDecl (mkSpan (mkPtok 16 "char[]" 25 40 76) (mkPtok 40 "," 27 0 80)) (TyDynamic (mkSpan (mkPtok 16 "char[]" 25 40 76) (mkPtok 16 "char[]" 25 40 76)) (mkDynamicString (mkSpan (mkPtok 16 "char[]" 25 40 76) (mkPtok 16 "char[]" 25 40 76)) (mkPtok 16 "char[]" 25 40 76))) (mkPtok 42 "As" 26 0 77) (Some (mkPtok 43 (string_of_bytes [96; 230; 182; 136; 230; 129; 175; 231; 177; 187; 229; 158; 139; 96]%N) 26 2 78)) (mkPtok 40 "," 27 0 80))); (MatchField (mkSpan (mkPtok 38 "match" 27 1 81) (mkPtok 40 "," 40 8 113)) (mkMatchFieldDecl (mkSpan (mkPtok 38 "match" 27 1 81) (mkPtok 3 "}" 40 6 112)) (mkPtok 38 "match" 27 1 81) (mkPtok 42 "Logon" 27 7 82) (mkPtok 17 "as" 27 13 83) (mkPtok 42 "calculatedFrom" 27 16 84) (mkPtok 2 "{" 28 0 85) [(mkMatchPair (mkSpan (mkPtok 18 "[" 29 4 86) (mkPtok 42 "metadata" 30 8 90)) (MKList (mkKeyList (mkSpan (mkPtok 18 "[" 29 4 86) (mkPtok 13 "]" 30 4 88)) (mkPtok 18 "[" 29 4 86) (mkPtok 30 "4294967296" 29 5 87) [] (mkPtok 13 "]" 30 4 88))) (mkPtok 39 ":" 30 6 89) (mkPtok 42 "metadata" 30 8 90) None); (mkMatchPair (mkSpan (mkPtok 31 """1""" 31 0 91) (mkPtok 42 "len" 31 6 93)) (MKString (mkPtok 31 """1""" 31 0 91)) (mkPtok 39 ":" 31 4 92) (mkPtok 42 "len" 31 6 93) None); (mkMatchPair (mkSpan (mkPtok 30 "0" 32 4 94) (mkPtok 40 "," 32 14 97)) (MKDigits (mkPtok 30 "0" 32 4 94)) (mkPtok 39 ":" 32 6 95) (mkPtok 42 "Logon" 32 8 96) (Some (mkPtok 40 "," 32 14 97))); (mkMatchPair (mkSpan (mkPtok 31 """x y""" 33 4 98) (mkPtok 40 "," 37 4 102)) (MKString (mkPtok 31 """x y""" 33 4 98)) (mkPtok 39 ":" 34 0 99) (mkPtok 42 "stringy" 36 4 101) (Some (mkPtok 40 "," 37 4 102))); (mkMatchPair (mkSpan (mkPtok 31 """it's""" 38 4 103) (mkPtok 40 "," 39 0 107)) (MKString (mkPtok 31 """it's""" 38 4 103)) (mkPtok 39 ":" 38 12 104) (mkPtok 42 "falsey" 38 14 105) (Some (mkPtok 40 "," 39 0 107))); (mkMatchPair (mkSpan (mkPtok 31 """1""" 39 2 108) (mkPtok 40 "," 40 4 111)) (MKString (mkPtok 31 """1""" 39 2 108)) (mkPtok 39 ":" 39 6 109) (mkPtok 42 "string_" 39 8 110) (Some (mkPtok 40 "," 40 4 111)))] (mkPtok 3 "}" 40 6 112)) (mkPtok 40 "," 40 8 113)); (ObjectField (mkSpan (mkPtok 42 "Foo" 41 0 115) (mkPtok 40 "," 43 5 118)) None (mkPtok 42 "Foo" 41 0 115) (Some (mkPtok 42 "MetaDataX" 42 4 116)) (Some (mkPtok 43 (string_of_bytes [96; 99; 114; 108; 102; 13; 10; 108; 105; 110; 101; 96]%N) 42 13 117)) (mkPtok 40 "," 43 5 118))] (mkPtok 3 "}" 43 7 119)) (mkPtok 40 "," 43 9 120))); (mkFieldWithAttr (mkSpan (mkPtok 32 "@rightPad" 44 4 121) (mkPtok 40 "," 45 18 130)) [(FAPadding (mkSpan (mkPtok 32 "@rightPad" 44 4 121) (mkPtok 6 ")" 44 16 123)) (mkPaddingAttr (mkSpan (mkPtok 32 "@rightPad" 44 4 121) (mkPtok 6 ")" 44 16 123)) (mkPtok 32 "@rightPad" 44 4 121) (mkPtok 8 "(" 44 14 122) None (mkPtok 6 ")" 44 16 123)))] (LengthField (mkSpan (mkPtok 28 "float32" 44 18 124) (mkPtok 40 "," 45 18 130)) (mkLengthFieldDecl (mkSpan (mkPtok 28 "float32" 44 18 124) (mkPtok 40 "," 45 18 130)) (Some (TyBasic (mkSpan (mkPtok 28 "float32" 44 18 124) (mkPtok 28 "float32" 44 18 124)) (mkBasicType (mkSpan (mkPtok 28 "float32" 44 18 124) (mkPtok 28 "float32" 44 18 124)) (mkPtok 28 "float32" 44 18 124)))) (mkPtok 42 "tag" 44 26 125) (mkLengthOf (mkSpan (mkPtok 7 "@lengthOf(" 45 0 127) (mkPtok 6 ")" 45 16 129)) (mkPtok 7 "@lengthOf(" 45 0 127) (mkPtok 42 "charz" 45 11 128) (mkPtok 6 ")" 45 16 129)) None (mkPtok 40 "," 45 18 130)))); (mkFieldWithAttr (mkSpan (mkPtok 12 "char[" 46 0 131) (mkPtok 40 "," 49 4 136)) [] (MetaField (mkSpan (mkPtok 12 "char[" 46 0 131) (mkPtok 40 "," 49 4 136)) None (mkMetaDecl (mkSpan (mkPtok 12 "char[" 46 0 131) (mkPtok 40 "," 49 4 136)) (TyFixed (mkSpan (mkPtok 12 "char[" 46 0 131) (mkPtok 13 "]" 47 0 134)) (mkFixedString (mkSpan (mkPtok 12 "char[" 46 0 131) (mkPtok 13 "]" 47 0 134)) (mkPtok 12 "char[" 46 0 131) (mkPtok 30 "255" 46 6 132) (mkPtok 13 "]" 47 0 134))) (mkPtok 42 "x_y_z" 48 4 135) None (mkPtok 40 "," 49 4 136)))); (mkFieldWithAttr (mkSpan (mkPtok 5 "@calculatedFrom(" 49 6 137) (mkPtok 40 "," 53 9 144)) [(FACalculatedFrom (mkSpan (mkPtok 5 "@calculatedFrom(" 49 6 137) (mkPtok 6 ")" 51 0 141)) (mkCalculatedFrom (mkSpan (mkPtok 5 "@calculatedFrom(" 49 6 137) (mkPtok 6 ")" 51 0 141)) (mkPtok 5 "@calculatedFrom(" 49 6 137) (mkPtok 31 """it's""" 50 0 139) (mkPtok 6 ")" 51 0 141)))] (ObjectField (mkSpan (mkPtok 42 "x_y_z" 53 4 143) (mkPtok 40 "," 53 9 144)) None (mkPtok 42 "x_y_z" 53 4 143) None None (mkPtok 40 "," 53 9 144)))] (mkPtok 3 "}" 53 11 145))); (DOption (mkOptionDef (mkSpan (mkPtok 1 "options" 53 13 146) (mkPtok 3 "}" 57 0 153)) (mkPtok 1 "options" 53 13 146) (mkPtok 2 "{" 53 20 147) [(mkOptionDecl (mkSpan (mkPtok 42 "msg_type" 53 21 148) (mkPtok 41 ";" 56 4 152)) (mkPtok 42 "msg_type" 53 21 148) (mkPtok 4 "=" 55 4 150) (VPaddingChar (mkSpan (mkPtok 33 "'0'" 56 0 151) (mkPtok 33 "'0'" 56 0 151)) (mkPtok 33 "'0'" 56 0 151)) (Some (mkPtok 41 ";" 56 4 152)))] (mkPtok 3 "}" 57 0 153)))])).
Eval vm_compute in ("<<<M444>>>" ++ check (runes_of_ascii "
")).
Eval vm_compute in ("<<<M476>>>" ++ check (runes_of_ascii "packet BodyLength //
{  repeat BodyLength { x
@lengthOf( asx ), } , int
{MetaDataX
    @calculatedFrom(""x y""
// c
// " ++ [128512]%N ++ runes_of_ascii " emoji
), },  @calculatedFrom( // packet A { u8 x, }
""`tick`"")
int64 Z9_,repeat zchar[ 10 ]
BodyLength
    // `tick` ""quote"" 'q'
    ,  string
falsey
    `" ++ [28040; 24687; 31867; 22411]%N ++ runes_of_ascii "` , u16
// trailing space 
//
crc @lengthOf(u128 ) , char[ 7 ] i64_ ,
    falsey`u8 x,`, // trailing space 
repeat MetaDataX { repeat uint64 i8i8 `tab	here`
    , _x , } ,
@lengthOf(  x_y_z
) body { zchar[ 10 ] int `crlf
line`	, zchar[
4294967296 ]uint8x @calculatedFrom(""a\""b"")
    `
`
    // c
    ,
} , }options {
    Pad
= int32 T = ""x y""	; }MetaData asx { falsey packetx, }
")).
Eval vm_compute in ("<<<M508>>>" ++ check (runes_of_ascii "root packet packetx {	} root packet u8x// " ++ [27880; 37322]%N ++ runes_of_ascii "
{
u
repeatCount `u8 x,` ,repeat
    uint16
crc,@tag( 7 ) char[] i8i8
@lengthOf( packetx )
`{ , }`, @lengthOf( Logon// @lengthOf(
)
// `tick` ""quote"" 'q'
//x
char[] pack @calculatedFrom( ""a\""b"" )
    , repeat metadata Foo ,
u8x // " ++ [27880; 37322]%N ++ runes_of_ascii "
lengthOf	,  A Header , }
")).
Eval vm_compute in ("<<<M540>>>" ++ check (runes_of_ascii "root
    packet Z9_ {uint32 matchKey `{ , }` ,
    // " ++ [128512]%N ++ runes_of_ascii " emoji
    len @lengthOf(T ) , char[
1 ]
A, }
    //x
    packet
// a // b
// trailing space 
u128 { @calculatedFrom(
    ""\n"" )	repeat Pad
A , } root// c
packet u
    {
@leftPad (  '0' )
    char[ 65535]
    leftPad
    @calculatedFrom(
// trailing space 
// a // b
""{,}"") ,
u16
    msg_type ,// " ++ [128512]%N ++ runes_of_ascii " emoji
}
")).
Eval vm_compute in ("<<<M572>>>" ++ check (runes_of_ascii "MetaData
    a1
// @lengthOf(
// " ++ [27880; 37322]%N ++ runes_of_ascii "
{ int32 i64_ // " ++ [128512]%N ++ runes_of_ascii " emoji
,
char[] trueish `doc`
    , char[] lengthOf
`100% of %d` , // 50% %s
int8 Header , char[] chars, } // trailing space ")).
Eval vm_compute in ("<<<M604>>>" ++ check (runes_of_ascii "MetaData
    calculatedFrom {
} //x
options { stringy =
    ' ' ;	} packet
    tag	{ @tag(// a // b
65535 ) repeat x_y_z i8i8 // 50% %s
,  pack,
    // " ++ [27880; 37322]%N ++ runes_of_ascii "
    float @lengthOf(
trueish )
,match  metadata
    as o// 50% %s
{ 7 :charz , [ ""\n"" ,
    ""// no comment"" , ""`tick`"", 7,
    ""x y""
    ] : body ,//x
[""a\""b""
// " ++ [128512]%N ++ runes_of_ascii " emoji
//	t
, 0123456789 , 0123456789
    ,
""\n"" , 10, ""it's""
    ,
""{,}"" , """ ++ [28040; 24687]%N ++ runes_of_ascii """ ] : Header ,
// a // b
//x
4294967296 :
i64_,""""
:
    /// triple
    stringy, }
, match rootA as zchar{	0 : a1 0
: len
,  [ 1
    , 0123456789 , ""a\\"" , ""abc"" ,
""" ++ [128512]%N ++ runes_of_ascii """ ]:matchKey  ,
    ""CRC32""
    :
    Z9_
    , }
,@tag(
    // trailing space 
    7 )string pack
    @calculatedFrom( ""x y""	)
`say ""hi""` , // " ++ [27880; 37322]%N ++ runes_of_ascii "
@lengthOf(packetx )
    //	t
    i8i8
, char[
//
// @lengthOf(
42
]
u8x,
    } root packet // @lengthOf(
a1{@rightPad ( '0' ) repeat  i16 body //
, }")).
Eval vm_compute in ("<<<M636>>>" ++ check (runes_of_ascii "packet
    x { string
// packet A { u8 x, }
// " ++ [128512]%N ++ runes_of_ascii " emoji
As , char[	65535 ]	leftPad `crlf
line` , i16 rootA
@lengthOf( packetx )
//x
// " ++ [27880; 37322]%N ++ runes_of_ascii "
`
` , repeat zchar
    T`" ++ [28040; 24687; 31867; 22411]%N ++ runes_of_ascii "` , }packet
// 50% %s
/// triple
options1 {// @lengthOf(
o ``,
    // packet A { u8 x, }
    }
")).
Eval vm_compute in ("<<<T636>>>" ++ terms [mkTok 35 "packet" 1 0 false; mkTok 42 "x" 2 4 false; mkTok 2 "{" 2 6 false; mkTok 15 "string" 2 8 false; mkTok 44 "// packet A { u8 x, }" 3 0 true; mkTok 44 (string_of_bytes [47; 47; 32; 240; 159; 152; 128; 32; 101; 109; 111; 106; 105]%N) 4 0 true; mkTok 42 "As" 5 0 false; mkTok 40 "," 5 3 false; mkTok 12 "char[" 5 5 false; mkTok 30 "65535" 5 11 false; mkTok 13 "]" 5 17 false; mkTok 42 "leftPad" 5 19 false; mkTok 43 (string_of_bytes [96; 99; 114; 108; 102; 13; 10; 108; 105; 110; 101; 96]%N) 5 27 false; mkTok 40 "," 6 6 false; mkTok 25 "i16" 6 8 false; mkTok 42 "rootA" 6 12 false; mkTok 7 "@lengthOf(" 7 0 false; mkTok 42 "packetx" 7 11 false; mkTok 6 ")" 7 19 false; mkTok 44 "//x" 8 0 true; mkTok 44 (string_of_bytes [47; 47; 32; 230; 179; 168; 233; 135; 138]%N) 9 0 true; mkTok 43 (string_of_bytes [96; 10; 96]%N) 10 0 false; mkTok 40 "," 11 2 false; mkTok 36 "repeat" 11 4 false; mkTok 42 "zchar" 11 11 false; mkTok 42 "T" 12 4 false; mkTok 43 (string_of_bytes [96; 230; 182; 136; 230; 129; 175; 231; 177; 187; 229; 158; 139; 96]%N) 12 5 false; mkTok 40 "," 12 12 false; mkTok 3 "}" 12 14 false; mkTok 35 "packet" 12 15 false; mkTok 44 "// 50% %s" 13 0 true; mkTok 44 "/// triple" 14 0 true; mkTok 42 "options1" 15 0 false; mkTok 2 "{" 15 9 false; mkTok 44 "// @lengthOf(" 15 10 true; mkTok 42 "o" 16 0 false; mkTok 43 "``" 16 2 false; mkTok 40 "," 16 4 false; mkTok 44 "// packet A { u8 x, }" 17 4 true; mkTok 3 "}" 18 4 false; mkTok 0 "<EOF>" 19 0 false] (mkPacket (mkPtok 35 "packet" 1 0 0) (Some (mkPtok 3 "}" 18 4 39)) [(DPacket (mkPacketDef (mkSpan (mkPtok 35 "packet" 1 0 0) (mkPtok 3 "}" 12 14 28)) None (mkPtok 35 "packet" 1 0 0) (mkPtok 42 "x" 2 4 1) (mkPtok 2 "{" 2 6 2) [(mkFieldWithAttr (mkSpan (mkPtok 15 "string" 2 8 3) (mkPtok 40 "," 5 3 7)) [] (MetaField (mkSpan (mkPtok 15 "string" 2 8 3) (mkPtok 40 "," 5 3 7)) None (mkMetaDecl (mkSpan (mkPtok 15 "string" 2 8 3) (mkPtok 40 "," 5 3 7)) (TyDynamic (mkSpan (mkPtok 15 "string" 2 8 3) (mkPtok 15 "string" 2 8 3)) (mkDynamicString (mkSpan (mkPtok 15 "string" 2 8 3) (mkPtok 15 "string" 2 8 3)) (mkPtok 15 "string" 2 8 3))) (mkPtok 42 "As" 5 0 6) None (mkPtok 40 "," 5 3 7)))); (mkFieldWithAttr (mkSpan (mkPtok 12 "char[" 5 5 8) (mkPtok 40 "," 6 6 13)) [] (MetaField (mkSpan (mkPtok 12 "char[" 5 5 8) (mkPtok 40 "," 6 6 13)) None (mkMetaDecl (mkSpan (mkPtok 12 "char[" 5 5 8) (mkPtok 40 "," 6 6 13)) (TyFixed (mkSpan (mkPtok 12 "char[" 5 5 8) (mkPtok 13 "]" 5 17 10)) (mkFixedString (mkSpan (mkPtok 12 "char[" 5 5 8) (mkPtok 13 "]" 5 17 10)) (mkPtok 12 "char[" 5 5 8) (mkPtok 30 "65535" 5 11 9) (mkPtok 13 "]" 5 17 10))) (mkPtok 42 "leftPad" 5 19 11) (Some (mkPtok 43 (string_of_bytes [96; 99; 114; 108; 102; 13; 10; 108; 105; 110; 101; 96]%N) 5 27 12)) (mkPtok 40 "," 6 6 13)))); (mkFieldWithAttr (mkSpan (mkPtok 25 "i16" 6 8 14) (mkPtok 40 "," 11 2 22)) [] (LengthField (mkSpan (mkPtok 25 "i16" 6 8 14) (mkPtok 40 "," 11 2 22)) (mkLengthFieldDecl (mkSpan (mkPtok 25 "i16" 6 8 14) (mkPtok 40 "," 11 2 22)) (Some (TyBasic (mkSpan (mkPtok 25 "i16" 6 8 14) (mkPtok 25 "i16" 6 8 14)) (mkBasicType (mkSpan (mkPtok 25 "i16" 6 8 14) (mkPtok 25 "i16" 6 8 14)) (mkPtok 25 "i16" 6 8 14)))) (mkPtok 42 "rootA" 6 12 15) (mkLengthOf (mkSpan (mkPtok 7 "@lengthOf(" 7 0 16) (mkPtok 6 ")" 7 19 18)) (mkPtok 7 "@lengthOf(" 7 0 16) (mkPtok 42 "packetx" 7 11 17) (mkPtok 6 ")" 7 19 18)) (Some (mkPtok 43 (string_of_bytes [96; 10; 96]%N) 10 0 21)) (mkPtok 40 "," 11 2 22)))); (mkFieldWithAttr (mkSpan (mkPtok 36 "repeat" 11 4 23) (mkPtok 40 "," 12 12 27)) [] (ObjectField (mkSpan (mkPtok 36 "repeat" 11 4 23) (mkPtok 40 "," 12 12 27)) (Some (mkPtok 36 "repeat" 11 4 23)) (mkPtok 42 "zchar" 11 11 24) (Some (mkPtok 42 "T" 12 4 25)) (Some (mkPtok 43 (string_of_bytes [96; 230; 182; 136; 230; 129; 175; 231; 177; 187; 229; 158; 139; 96]%N) 12 5 26)) (mkPtok 40 "," 12 12 27)))] (mkPtok 3 "}" 12 14 28))); (DPacket (mkPacketDef (mkSpan (mkPtok 35 "packet" 12 15 29) (mkPtok 3 "}" 18 4 39)) None (mkPtok 35 "packet" 12 15 29) (mkPtok 42 "options1" 15 0 32) (mkPtok 2 "{" 15 9 33) [(mkFieldWithAttr (mkSpan (mkPtok 42 "o" 16 0 35) (mkPtok 40 "," 16 4 37)) [] (ObjectField (mkSpan (mkPtok 42 "o" 16 0 35) (mkPtok 40 "," 16 4 37)) None (mkPtok 42 "o" 16 0 35) None (Some (mkPtok 43 "``" 16 2 36)) (mkPtok 40 "," 16 4 37)))] (mkPtok 3 "}" 18 4 39)))])).
Eval vm_compute in ("<<<M668>>>" ++ check (runes_of_ascii "root packet leftPad
    { repeat zchar[ 1 ]Foo	`crlf
line` ,i8 lengthOf  , @tag( 3) repeat repeatCount`say ""hi""` // @lengthOf(
,
    match repeatCount as BodyLength { // 50% %s
""1"" : metadata , ""1""  :
i64_ ,
[  7
    ,	""\n"" ,
""{,}"" ,	1, ""a\""b"" ]	:
i64_ , 7
: i8i8 , } , @calculatedFrom( """"
    ) u8 string_
// trailing space 
// " ++ [128512]%N ++ runes_of_ascii " emoji
@calculatedFrom( """ ++ [28040; 24687]%N ++ runes_of_ascii """) ,
float64
// @lengthOf(
//	t
Z9_ ,x {
repeat packetx
    //	t
    , int8 As// a // b
`line1
line2` ,
    u128  { //	t
char[] BodyLength @calculatedFrom(
""a\""b""  )
,
repeat x_y_z {
match options1 as charz { /// triple
42
    : int , 007 :
    float , ""x y""
: leftPad
    , [ ""\" ++ [233]%N ++ runes_of_ascii """ ,
1 ]
// packet A { u8 x, }
// `tick` ""quote"" 'q'
: lengthOf, //	t
}	,
    } ,
} ,
    uint8x `{ , }` , } , lengthOf
@lengthOf( zchar ) ,
char[]
    crc`// not a comment`  , } // @lengthOf(")).
Eval vm_compute in ("<<<M700>>>" ++ check (runes_of_ascii "MetaData
    chars { As Packet ,T	crc ,
// `tick` ""quote"" 'q'
// 50% %s
char[]
    _x, len packetx `line1
line2`, } packet T
    {int64 f32a@lengthOf( x ) `say ""hi""`,
    // trailing space 
    zchar[ 65535
    ]asx
`say ""hi""` , i16
    roots`" ++ [28040; 24687; 31867; 22411]%N ++ runes_of_ascii "` ,  @rightPad (// " ++ [27880; 37322]%N ++ runes_of_ascii "
'\x00' ) string uint8x
,
    rootA  @lengthOf( roots
    // a // b
    ) `two words` ,repeat
u32 u128 , @tag( 255 )
    //x
    charz pack
    // a // b
    , }
// @lengthOf(
// " ++ [27880; 37322]%N ++ runes_of_ascii "
packet Header {
// " ++ [128512]%N ++ runes_of_ascii " emoji
//
@leftPad ( '0'	) repeat
    f32a
    metadata `" ++ [233]%N ++ runes_of_ascii "` ,
    } packet //
msg_type { char A`two words`, @tag( 255	)
    @rightPad ()	body @calculatedFrom( ""\" ++ [233]%N ++ runes_of_ascii """) // 50% %s
, }options { Z9_ = ""packet""
;
    }
")).
Eval vm_compute in ("<<<M732>>>" ++ check (runes_of_ascii "root
packet MetaDataX	{ zchar  Foo ,} options// packet A { u8 x, }
{ Logon =  ""1"" T = string ; leftPad =
' '
    // trailing space 
    ;  }
")).
Eval vm_compute in ("<<<M764>>>" ++ check (runes_of_ascii " // packet A { u8 x, }")).
Eval vm_compute in ("<<<M796>>>" ++ check (runes_of_ascii "
root packet Z9_ { char[]falsey
`a\`, repeat char[] x_y_z `" ++ [233]%N ++ runes_of_ascii "`
    , rootA@calculatedFrom(""a\""b"" ) ,
    f32a , char[] packetx // packet A { u8 x, }
@lengthOf( msg_type) ,	} packet MetaDataX
    // " ++ [27880; 37322]%N ++ runes_of_ascii "
    { i16
//
// " ++ [27880; 37322]%N ++ runes_of_ascii "
pack@lengthOf(// @lengthOf(
Z9_) ,
@calculatedFrom(""\n"" )@lengthOf( a1
)f32a
//x
//
@calculatedFrom( ""1"" )
    ,
// c
/// triple
@leftPad ( '0' ) Pad
@calculatedFrom( """ ++ [233]%N ++ runes_of_ascii "t" ++ [233]%N ++ runes_of_ascii """ ) `100% of %d` ,	uint64 u `crlf
line` , @calculatedFrom(
""a	b"" )
@leftPad (
    ) @tag(00 ) repeat Packet
Packet
,
float64 a1 `" ++ [28040; 24687; 31867; 22411]%N ++ runes_of_ascii "`	,	} packet
string_ {T	{ char[] u `crlf
line`
,} , @tag(
// packet A { u8 x, }
//
42
)
    repeat char[ 255	]Foo ,@lengthOf( _x ) @calculatedFrom( ""abc"" )	_x // " ++ [128512]%N ++ runes_of_ascii " emoji
`" ++ [28040; 24687; 31867; 22411]%N ++ runes_of_ascii "` ,char[ // @lengthOf(
00] // @lengthOf(
Packet `line1
line2` , @lengthOf( calculatedFrom) repeat// @lengthOf(
Pad matchKey
,  @calculatedFrom( """ ++ [28040; 24687]%N ++ runes_of_ascii """ )uint16//
rootA
, f64 msg_type
// `tick` ""quote"" 'q'
// @lengthOf(
, } packet int {
    @lengthOf( A ) repeat Foo // c
{ uint32	crc// 50% %s
@calculatedFrom( ""\n"" ), }
,	}  options {Z9_ =
'\x00'
; Pad  = '\x00'
    ; options1  ='\x00'
    //x
    ;matchKey =
3
asx
    = ""// no comment""	}
")).
Eval vm_compute in ("<<<M828>>>" ++ check (runes_of_ascii "MetaData uint8x { leftPad Pad
    `crlf
line` , char[3
    ]
    falsey , zchar[	0123456789
// trailing space 
// a // b
]
    // `tick` ""quote"" 'q'
    a1	, string float `{ , }` , }")).
Eval vm_compute in ("<<<M860>>>" ++ check (runes_of_ascii "packet
Foo
{
@lengthOf(
    u128	) char[ 007]u128 `// not a comment` , @calculatedFrom( """ ++ [233]%N ++ runes_of_ascii "t" ++ [233]%N ++ runes_of_ascii """) char[ 4294967296 ]	i8i8
@calculatedFrom(	""" ++ [28040; 24687]%N ++ runes_of_ascii """ )
,
zchar[ 1]
    repeatCount , } packet body {u32 A  , @lengthOf(trueish
)@lengthOf(
    u8x
) @rightPad ( '0' )Foo @calculatedFrom( ""a	b"") ,
char[007 ] charz `" ++ [28040; 24687; 31867; 22411]%N ++ runes_of_ascii "`,@lengthOf(
int)
packetx @lengthOf( rootA
    ) `u8 x,`
, @rightPad ( '\x00') char[
/// triple
// trailing space 
255] /// triple
repeatCount`line1
line2`,
f32	trueish
    ,
    @leftPad ( ' ' )// `tick` ""quote"" 'q'
@lengthOf(
    MetaDataX )
@lengthOf( leftPad
    ) /// triple
Pad {match
Logon as i64_ {
[255 // `tick` ""quote"" 'q'
,
""it's"" , """ ++ [28040; 24687]%N ++ runes_of_ascii """ ,""x y"" ] :
// `tick` ""quote"" 'q'
// `tick` ""quote"" 'q'
pack , [ 10 ,
    //x
    ""a\""b"" ,  ""x y"" ,
// packet A { u8 x, }
//	t
""\" ++ [233]%N ++ runes_of_ascii """
,0,
    // " ++ [27880; 37322]%N ++ runes_of_ascii "
    10 , 0,
255 ] : charz 0
: string_ ,	[""x y"" ,
1]: asx""a	b"": asx ,
    ""a	b"" // " ++ [27880; 37322]%N ++ runes_of_ascii "
:Header ,	} , } , } packet// 50% %s
A
{ }options {
    len =
true ;f32a ='0' o
= char[7 ]
;  body =
    ' ' o
    = 3  } packet	As  {
@tag( 007 ) @rightPad  ('\x00'
)
    @rightPad (' ' ) match roots// `tick` ""quote"" 'q'
as _x{ 0123456789 : string_ ,
[ """ ++ [28040; 24687]%N ++ runes_of_ascii """ , ""1"" ,
""a	b"" , 3
    , ""x y""
    ,
00 , 10 , ""\" ++ [233]%N ++ runes_of_ascii """
// c
// `tick` ""quote"" 'q'
] :Pad
65535 :	x 7 : x_y_z 3 :
charz ,
    }
,
@rightPad (	' ' ) repeat f64 //
u128 ,i8 calculatedFrom// @lengthOf(
@calculatedFrom( ""it's"" ) , @tag( 0
    /// triple
    )
    repeat
//
// 50% %s
zchar[65535
    ] lengthOf `" ++ [233]%N ++ runes_of_ascii "` ,
asx
{msg_type f32a
`a\` ,
} ,
@lengthOf( A)	@rightPad ( )
@calculatedFrom(
""packet"")
char Logon @calculatedFrom( """ ++ [128512]%N ++ runes_of_ascii """ ) , @lengthOf( f32a// 50% %s
) zchar[
1
    ]i8i8`it's`, //	t
u16 As@calculatedFrom( ""packet"" )  `
` , }
")).
Eval vm_compute in ("<<<T860>>>" ++ terms [mkTok 35 "packet" 1 0 false; mkTok 42 "Foo" 2 0 false; mkTok 2 "{" 3 0 false; mkTok 7 "@lengthOf(" 4 0 false; mkTok 42 "u128" 5 4 false; mkTok 6 ")" 5 9 false; mkTok 12 "char[" 5 11 false; mkTok 30 "007" 5 17 false; mkTok 13 "]" 5 20 false; mkTok 42 "u128" 5 21 false; mkTok 43 "`// not a comment`" 5 26 false; mkTok 40 "," 5 45 false; mkTok 5 "@calculatedFrom(" 5 47 false; mkTok 31 (string_of_bytes [34; 195; 169; 116; 195; 169; 34]%N) 5 64 false; mkTok 6 ")" 5 69 false; mkTok 12 "char[" 5 71 false; mkTok 30 "4294967296" 5 77 false; mkTok 13 "]" 5 88 false; mkTok 42 "i8i8" 5 90 false; mkTok 5 "@calculatedFrom(" 6 0 false; mkTok 31 (string_of_bytes [34; 230; 182; 136; 230; 129; 175; 34]%N) 6 17 false; mkTok 6 ")" 6 22 false; mkTok 40 "," 7 0 false; mkTok 14 "zchar[" 8 0 false; mkTok 30 "1" 8 7 false; mkTok 13 "]" 8 8 false; mkTok 42 "repeatCount" 9 4 false; mkTok 40 "," 9 16 false; mkTok 3 "}" 9 18 false; mkTok 35 "packet" 9 20 false; mkTok 42 "body" 9 27 false; mkTok 2 "{" 9 32 false; mkTok 22 "u32" 9 33 false; mkTok 42 "A" 9 37 false; mkTok 40 "," 9 40 false; mkTok 7 "@lengthOf(" 9 42 false; mkTok 42 "trueish" 9 52 false; mkTok 6 ")" 10 0 false; mkTok 7 "@lengthOf(" 10 1 false; mkTok 42 "u8x" 11 4 false; mkTok 6 ")" 12 0 false; mkTok 32 "@rightPad" 12 2 false; mkTok 8 "(" 12 12 false; mkTok 33 "'0'" 12 14 false; mkTok 6 ")" 12 18 false; mkTok 42 "Foo" 12 19 false; mkTok 5 "@calculatedFrom(" 12 23 false; mkTok 31 (string_of_bytes [34; 97; 9; 98; 34]%N) 12 40 false; mkTok 6 ")" 12 45 false; mkTok 40 "," 12 47 false; mkTok 12 "char[" 13 0 false; mkTok 30 "007" 13 5 false; mkTok 13 "]" 13 9 false; mkTok 42 "charz" 13 11 false; mkTok 43 (string_of_bytes [96; 230; 182; 136; 230; 129; 175; 231; 177; 187; 229; 158; 139; 96]%N) 13 17 false; mkTok 40 "," 13 23 false; mkTok 7 "@lengthOf(" 13 24 false; mkTok 42 "int" 14 0 false; mkTok 6 ")" 14 3 false; mkTok 42 "packetx" 15 0 false; mkTok 7 "@lengthOf(" 15 8 false; mkTok 42 "rootA" 15 19 false; mkTok 6 ")" 16 4 false; mkTok 43 "`u8 x,`" 16 6 false; mkTok 40 "," 17 0 false; mkTok 32 "@rightPad" 17 2 false; mkTok 8 "(" 17 12 false; mkTok 33 "'\x00'" 17 14 false; mkTok 6 ")" 17 20 false; mkTok 12 "char[" 17 22 false; mkTok 44 "/// triple" 18 0 true; mkTok 44 "// trailing space " 19 0 true; mkTok 30 "255" 20 0 false; mkTok 13 "]" 20 3 false; mkTok 44 "/// triple" 20 5 true; mkTok 42 "repeatCount" 21 0 false; mkTok 43 (string_of_bytes [96; 108; 105; 110; 101; 49; 10; 108; 105; 110; 101; 50; 96]%N) 21 11 false; mkTok 40 "," 22 6 false; mkTok 28 "f32" 23 0 false; mkTok 42 "trueish" 23 4 false; mkTok 40 "," 24 4 false; mkTok 32 "@leftPad" 25 4 false; mkTok 8 "(" 25 13 false; mkTok 33 "' '" 25 15 false; mkTok 6 ")" 25 19 false; mkTok 44 "// `tick` ""quote"" 'q'" 25 20 true; mkTok 7 "@lengthOf(" 26 0 false; mkTok 42 "MetaDataX" 27 4 false; mkTok 6 ")" 27 14 false; mkTok 7 "@lengthOf(" 28 0 false; mkTok 42 "leftPad" 28 11 false; mkTok 6 ")" 29 4 false; mkTok 44 "/// triple" 29 6 true; mkTok 42 "Pad" 30 0 false; mkTok 2 "{" 30 4 false; mkTok 38 "match" 30 5 false; mkTok 42 "Logon" 31 0 false; mkTok 17 "as" 31 6 false; mkTok 42 "i64_" 31 9 false; mkTok 2 "{" 31 14 false; mkTok 18 "[" 32 0 false; mkTok 30 "255" 32 1 false; mkTok 44 "// `tick` ""quote"" 'q'" 32 5 true; mkTok 40 "," 33 0 false; mkTok 31 """it's""" 34 0 false; mkTok 40 "," 34 7 false; mkTok 31 (string_of_bytes [34; 230; 182; 136; 230; 129; 175; 34]%N) 34 9 false; mkTok 40 "," 34 14 false; mkTok 31 """x y""" 34 15 false; mkTok 13 "]" 34 21 false; mkTok 39 ":" 34 23 false; mkTok 44 "// `tick` ""quote"" 'q'" 35 0 true; mkTok 44 "// `tick` ""quote"" 'q'" 36 0 true; mkTok 42 "pack" 37 0 false; mkTok 40 "," 37 5 false; mkTok 18 "[" 37 7 false; mkTok 30 "10" 37 9 false; mkTok 40 "," 37 12 false; mkTok 44 "//x" 38 4 true; mkTok 31 """a\""b""" 39 4 false; mkTok 40 "," 39 11 false; mkTok 31 """x y""" 39 14 false; mkTok 40 "," 39 20 false; mkTok 44 "// packet A { u8 x, }" 40 0 true; mkTok 44 (string_of_bytes [47; 47; 9; 116]%N) 41 0 true; mkTok 31 (string_of_bytes [34; 92; 195; 169; 34]%N) 42 0 false; mkTok 40 "," 43 0 false; mkTok 30 "0" 43 1 false; mkTok 40 "," 43 2 false; mkTok 44 (string_of_bytes [47; 47; 32; 230; 179; 168; 233; 135; 138]%N) 44 4 true; mkTok 30 "10" 45 4 false; mkTok 40 "," 45 7 false; mkTok 30 "0" 45 9 false; mkTok 40 "," 45 10 false; mkTok 30 "255" 46 0 false; mkTok 13 "]" 46 4 false; mkTok 39 ":" 46 6 false; mkTok 42 "charz" 46 8 false; mkTok 30 "0" 46 14 false; mkTok 39 ":" 47 0 false; mkTok 42 "string_" 47 2 false; mkTok 40 "," 47 10 false; mkTok 18 "[" 47 12 false; mkTok 31 """x y""" 47 13 false; mkTok 40 "," 47 19 false; mkTok 30 "1" 48 0 false; mkTok 13 "]" 48 1 false; mkTok 39 ":" 48 2 false; mkTok 42 "asx" 48 4 false; mkTok 31 (string_of_bytes [34; 97; 9; 98; 34]%N) 48 7 false; mkTok 39 ":" 48 12 false; mkTok 42 "asx" 48 14 false; mkTok 40 "," 48 18 false; mkTok 31 (string_of_bytes [34; 97; 9; 98; 34]%N) 49 4 false; mkTok 44 (string_of_bytes [47; 47; 32; 230; 179; 168; 233; 135; 138]%N) 49 10 true; mkTok 39 ":" 50 0 false; mkTok 42 "Header" 50 1 false; mkTok 40 "," 50 8 false; mkTok 3 "}" 50 10 false; mkTok 40 "," 50 12 false; mkTok 3 "}" 50 14 false; mkTok 40 "," 50 16 false; mkTok 3 "}" 50 18 false; mkTok 35 "packet" 50 20 false; mkTok 44 "// 50% %s" 50 26 true; mkTok 42 "A" 51 0 false; mkTok 2 "{" 52 0 false; mkTok 3 "}" 52 2 false; mkTok 1 "options" 52 3 false; mkTok 2 "{" 52 11 false; mkTok 42 "len" 53 4 false; mkTok 4 "=" 53 8 false; mkTok 10 "true" 54 0 false; mkTok 41 ";" 54 5 false; mkTok 42 "f32a" 54 6 false; mkTok 4 "=" 54 11 false; mkTok 33 "'0'" 54 12 false; mkTok 42 "o" 54 16 false; mkTok 4 "=" 55 0 false; mkTok 12 "char[" 55 2 false; mkTok 30 "7" 55 7 false; mkTok 13 "]" 55 9 false; mkTok 41 ";" 56 0 false; mkTok 42 "body" 56 3 false; mkTok 4 "=" 56 8 false; mkTok 33 "' '" 57 4 false; mkTok 42 "o" 57 8 false; mkTok 4 "=" 58 4 false; mkTok 30 "3" 58 6 false; mkTok 3 "}" 58 9 false; mkTok 35 "packet" 58 11 false; mkTok 42 "As" 58 18 false; mkTok 2 "{" 58 22 false; mkTok 9 "@tag(" 59 0 false; mkTok 30 "007" 59 6 false; mkTok 6 ")" 59 10 false; mkTok 32 "@rightPad" 59 12 false; mkTok 8 "(" 59 23 false; mkTok 33 "'\x00'" 59 24 false; mkTok 6 ")" 60 0 false; mkTok 32 "@rightPad" 61 4 false; mkTok 8 "(" 61 14 false; mkTok 33 "' '" 61 15 false; mkTok 6 ")" 61 19 false; mkTok 38 "match" 61 21 false; mkTok 42 "roots" 61 27 false; mkTok 44 "// `tick` ""quote"" 'q'" 61 32 true; mkTok 17 "as" 62 0 false; mkTok 42 "_x" 62 3 false; mkTok 2 "{" 62 5 false; mkTok 30 "0123456789" 62 7 false; mkTok 39 ":" 62 18 false; mkTok 42 "string_" 62 20 false; mkTok 40 "," 62 28 false; mkTok 18 "[" 63 0 false; mkTok 31 (string_of_bytes [34; 230; 182; 136; 230; 129; 175; 34]%N) 63 2 false; mkTok 40 "," 63 7 false; mkTok 31 """1""" 63 9 false; mkTok 40 "," 63 13 false; mkTok 31 (string_of_bytes [34; 97; 9; 98; 34]%N) 64 0 false; mkTok 40 "," 64 6 false; mkTok 30 "3" 64 8 false; mkTok 40 "," 65 4 false; mkTok 31 """x y""" 65 6 false; mkTok 40 "," 66 4 false; mkTok 30 "00" 67 0 false; mkTok 40 "," 67 3 false; mkTok 30 "10" 67 5 false; mkTok 40 "," 67 8 false; mkTok 31 (string_of_bytes [34; 92; 195; 169; 34]%N) 67 10 false; mkTok 44 "// c" 68 0 true; mkTok 44 "// `tick` ""quote"" 'q'" 69 0 true; mkTok 13 "]" 70 0 false; mkTok 39 ":" 70 2 false; mkTok 42 "Pad" 70 3 false; mkTok 30 "65535" 71 0 false; mkTok 39 ":" 71 6 false; mkTok 42 "x" 71 8 false; mkTok 30 "7" 71 10 false; mkTok 39 ":" 71 12 false; mkTok 42 "x_y_z" 71 14 false; mkTok 30 "3" 71 20 false; mkTok 39 ":" 71 22 false; mkTok 42 "charz" 72 0 false; mkTok 40 "," 72 6 false; mkTok 3 "}" 73 4 false; mkTok 40 "," 74 0 false; mkTok 32 "@rightPad" 75 0 false; mkTok 8 "(" 75 10 false; mkTok 33 "' '" 75 12 false; mkTok 6 ")" 75 16 false; mkTok 36 "repeat" 75 18 false; mkTok 29 "f64" 75 25 false; mkTok 44 "//" 75 29 true; mkTok 42 "u128" 76 0 false; mkTok 40 "," 76 5 false; mkTok 24 "i8" 76 6 false; mkTok 42 "calculatedFrom" 76 9 false; mkTok 44 "// @lengthOf(" 76 23 true; mkTok 5 "@calculatedFrom(" 77 0 false; mkTok 31 """it's""" 77 17 false; mkTok 6 ")" 77 24 false; mkTok 40 "," 77 26 false; mkTok 9 "@tag(" 77 28 false; mkTok 30 "0" 77 34 false; mkTok 44 "/// triple" 78 4 true; mkTok 6 ")" 79 4 false; mkTok 36 "repeat" 80 4 false; mkTok 44 "//" 81 0 true; mkTok 44 "// 50% %s" 82 0 true; mkTok 14 "zchar[" 83 0 false; mkTok 30 "65535" 83 6 false; mkTok 13 "]" 84 4 false; mkTok 42 "lengthOf" 84 6 false; mkTok 43 (string_of_bytes [96; 195; 169; 96]%N) 84 15 false; mkTok 40 "," 84 19 false; mkTok 42 "asx" 85 0 false; mkTok 2 "{" 86 0 false; mkTok 42 "msg_type" 86 1 false; mkTok 42 "f32a" 86 10 false; mkTok 43 "`a\`" 87 0 false; mkTok 40 "," 87 5 false; mkTok 3 "}" 88 0 false; mkTok 40 "," 88 2 false; mkTok 7 "@lengthOf(" 89 0 false; mkTok 42 "A" 89 11 false; mkTok 6 ")" 89 12 false; mkTok 32 "@rightPad" 89 14 false; mkTok 8 "(" 89 24 false; mkTok 6 ")" 89 26 false; mkTok 5 "@calculatedFrom(" 90 0 false; mkTok 31 """packet""" 91 0 false; mkTok 6 ")" 91 8 false; mkTok 19 "char" 92 0 false; mkTok 42 "Logon" 92 5 false; mkTok 5 "@calculatedFrom(" 92 11 false; mkTok 31 (string_of_bytes [34; 240; 159; 152; 128; 34]%N) 92 28 false; mkTok 6 ")" 92 32 false; mkTok 40 "," 92 34 false; mkTok 7 "@lengthOf(" 92 36 false; mkTok 42 "f32a" 92 47 false; mkTok 44 "// 50% %s" 92 51 true; mkTok 6 ")" 93 0 false; mkTok 14 "zchar[" 93 2 false; mkTok 30 "1" 94 0 false; mkTok 13 "]" 95 4 false; mkTok 42 "i8i8" 95 5 false; mkTok 43 "`it's`" 95 9 false; mkTok 40 "," 95 15 false; mkTok 44 (string_of_bytes [47; 47; 9; 116]%N) 95 17 true; mkTok 21 "u16" 96 0 false; mkTok 42 "As" 96 4 false; mkTok 5 "@calculatedFrom(" 96 6 false; mkTok 31 """packet""" 96 23 false; mkTok 6 ")" 96 32 false; mkTok 43 (string_of_bytes [96; 10; 96]%N) 96 35 false; mkTok 40 "," 97 2 false; mkTok 3 "}" 97 4 false; mkTok 0 "<EOF>" 98 0 false] (mkPacket (mkPtok 35 "packet" 1 0 0) (Some (mkPtok 3 "}" 97 4 317)) [(DPacket (mkPacketDef (mkSpan (mkPtok 35 "packet" 1 0 0) (mkPtok 3 "}" 9 18 28)) None (mkPtok 35 "packet" 1 0 0) (mkPtok 42 "Foo" 2 0 1) (mkPtok 2 "{" 3 0 2) [(mkFieldWithAttr (mkSpan (mkPtok 7 "@lengthOf(" 4 0 3) (mkPtok 40 "," 5 45 11)) [(FALengthOf (mkSpan (mkPtok 7 "@lengthOf(" 4 0 3) (mkPtok 6 ")" 5 9 5)) (mkLengthOf (mkSpan (mkPtok 7 "@lengthOf(" 4 0 3) (mkPtok 6 ")" 5 9 5)) (mkPtok 7 "@lengthOf(" 4 0 3) (mkPtok 42 "u128" 5 4 4) (mkPtok 6 ")" 5 9 5)))] (MetaField (mkSpan (mkPtok 12 "char[" 5 11 6) (mkPtok 40 "," 5 45 11)) None (mkMetaDecl (mkSpan (mkPtok 12 "char[" 5 11 6) (mkPtok 40 "," 5 45 11)) (TyFixed (mkSpan (mkPtok 12 "char[" 5 11 6) (mkPtok 13 "]" 5 20 8)) (mkFixedString (mkSpan (mkPtok 12 "char[" 5 11 6) (mkPtok 13 "]" 5 20 8)) (mkPtok 12 "char[" 5 11 6) (mkPtok 30 "007" 5 17 7) (mkPtok 13 "]" 5 20 8))) (mkPtok 42 "u128" 5 21 9) (Some (mkPtok 43 "`// not a comment`" 5 26 10)) (mkPtok 40 "," 5 45 11)))); (mkFieldWithAttr (mkSpan (mkPtok 5 "@calculatedFrom(" 5 47 12) (mkPtok 40 "," 7 0 22)) [(FACalculatedFrom (mkSpan (mkPtok 5 "@calculatedFrom(" 5 47 12) (mkPtok 6 ")" 5 69 14)) (mkCalculatedFrom (mkSpan (mkPtok 5 "@calculatedFrom(" 5 47 12) (mkPtok 6 ")" 5 69 14)) (mkPtok 5 "@calculatedFrom(" 5 47 12) (mkPtok 31 (string_of_bytes [34; 195; 169; 116; 195; 169; 34]%N) 5 64 13) (mkPtok 6 ")" 5 69 14)))] (CheckSumField (mkSpan (mkPtok 12 "char[" 5 71 15) (mkPtok 40 "," 7 0 22)) (mkChecksumFieldDecl (mkSpan (mkPtok 12 "char[" 5 71 15) (mkPtok 40 "," 7 0 22)) (Some (TyFixed (mkSpan (mkPtok 12 "char[" 5 71 15) (mkPtok 13 "]" 5 88 17)) (mkFixedString (mkSpan (mkPtok 12 "char[" 5 71 15) (mkPtok 13 "]" 5 88 17)) (mkPtok 12 "char[" 5 71 15) (mkPtok 30 "4294967296" 5 77 16) (mkPtok 13 "]" 5 88 17)))) (mkPtok 42 "i8i8" 5 90 18) (mkCalculatedFrom (mkSpan (mkPtok 5 "@calculatedFrom(" 6 0 19) (mkPtok 6 ")" 6 22 21)) (mkPtok 5 "@calculatedFrom(" 6 0 19) (mkPtok 31 (string_of_bytes [34; 230; 182; 136; 230; 129; 175; 34]%N) 6 17 20) (mkPtok 6 ")" 6 22 21)) None (mkPtok 40 "," 7 0 22)))); (mkFieldWithAttr (mkSpan (mkPtok 14 "zchar[" 8 0 23) (mkPtok 40 "," 9 16 27)) [] (MetaField (mkSpan (mkPtok 14 "zchar[" 8 0 23) (mkPtok 40 "," 9 16 27)) None (mkMetaDecl (mkSpan (mkPtok 14 "zchar[" 8 0 23) (mkPtok 40 "," 9 16 27)) (TyFixed (mkSpan (mkPtok 14 "zchar[" 8 0 23) (mkPtok 13 "]" 8 8 25)) (mkFixedString (mkSpan (mkPtok 14 "zchar[" 8 0 23) (mkPtok 13 "]" 8 8 25)) (mkPtok 14 "zchar[" 8 0 23) (mkPtok 30 "1" 8 7 24) (mkPtok 13 "]" 8 8 25))) (mkPtok 42 "repeatCount" 9 4 26) None (mkPtok 40 "," 9 16 27))))] (mkPtok 3 "}" 9 18 28))); (DPacket (mkPacketDef (mkSpan (mkPtok 35 "packet" 9 20 29) (mkPtok 3 "}" 50 18 162)) None (mkPtok 35 "packet" 9 20 29) (mkPtok 42 "body" 9 27 30) (mkPtok 2 "{" 9 32 31) [(mkFieldWithAttr (mkSpan (mkPtok 22 "u32" 9 33 32) (mkPtok 40 "," 9 40 34)) [] (MetaField (mkSpan (mkPtok 22 "u32" 9 33 32) (mkPtok 40 "," 9 40 34)) None (mkMetaDecl (mkSpan (mkPtok 22 "u32" 9 33 32) (mkPtok 40 "," 9 40 34)) (TyBasic (mkSpan (mkPtok 22 "u32" 9 33 32) (mkPtok 22 "u32" 9 33 32)) (mkBasicType (mkSpan (mkPtok 22 "u32" 9 33 32) (mkPtok 22 "u32" 9 33 32)) (mkPtok 22 "u32" 9 33 32))) (mkPtok 42 "A" 9 37 33) None (mkPtok 40 "," 9 40 34)))); (mkFieldWithAttr (mkSpan (mkPtok 7 "@lengthOf(" 9 42 35) (mkPtok 40 "," 12 47 49)) [(FALengthOf (mkSpan (mkPtok 7 "@lengthOf(" 9 42 35) (mkPtok 6 ")" 10 0 37)) (mkLengthOf (mkSpan (mkPtok 7 "@lengthOf(" 9 42 35) (mkPtok 6 ")" 10 0 37)) (mkPtok 7 "@lengthOf(" 9 42 35) (mkPtok 42 "trueish" 9 52 36) (mkPtok 6 ")" 10 0 37))); (FALengthOf (mkSpan (mkPtok 7 "@lengthOf(" 10 1 38) (mkPtok 6 ")" 12 0 40)) (mkLengthOf (mkSpan (mkPtok 7 "@lengthOf(" 10 1 38) (mkPtok 6 ")" 12 0 40)) (mkPtok 7 "@lengthOf(" 10 1 38) (mkPtok 42 "u8x" 11 4 39) (mkPtok 6 ")" 12 0 40))); (FAPadding (mkSpan (mkPtok 32 "@rightPad" 12 2 41) (mkPtok 6 ")" 12 18 44)) (mkPaddingAttr (mkSpan (mkPtok 32 "@rightPad" 12 2 41) (mkPtok 6 ")" 12 18 44)) (mkPtok 32 "@rightPad" 12 2 41) (mkPtok 8 "(" 12 12 42) (Some (mkPtok 33 "'0'" 12 14 43)) (mkPtok 6 ")" 12 18 44)))] (CheckSumField (mkSpan (mkPtok 42 "Foo" 12 19 45) (mkPtok 40 "," 12 47 49)) (mkChecksumFieldDecl (mkSpan (mkPtok 42 "Foo" 12 19 45) (mkPtok 40 "," 12 47 49)) None (mkPtok 42 "Foo" 12 19 45) (mkCalculatedFrom (mkSpan (mkPtok 5 "@calculatedFrom(" 12 23 46) (mkPtok 6 ")" 12 45 48)) (mkPtok 5 "@calculatedFrom(" 12 23 46) (mkPtok 31 (string_of_bytes [34; 97; 9; 98; 34]%N) 12 40 47) (mkPtok 6 ")" 12 45 48)) None (mkPtok 40 "," 12 47 49)))); (mkFieldWithAttr (mkSpan (mkPtok 12 "char[" 13 0 50) (mkPtok 40 "," 13 23 55)) [] (MetaField (mkSpan (mkPtok 12 "char[" 13 0 50) (mkPtok 40 "," 13 23 55)) None (mkMetaDecl (mkSpan (mkPtok 12 "char[" 13 0 50) (mkPtok 40 "," 13 23 55)) (TyFixed (mkSpan (mkPtok 12 "char[" 13 0 50) (mkPtok 13 "]" 13 9 52)) (mkFixedString (mkSpan (mkPtok 12 "char[" 13 0 50) (mkPtok 13 "]" 13 9 52)) (mkPtok 12 "char[" 13 0 50) (mkPtok 30 "007" 13 5 51) (mkPtok 13 "]" 13 9 52))) (mkPtok 42 "charz" 13 11 53) (Some (mkPtok 43 (string_of_bytes [96; 230; 182; 136; 230; 129; 175; 231; 177; 187; 229; 158; 139; 96]%N) 13 17 54)) (mkPtok 40 "," 13 23 55)))); (mkFieldWithAttr (mkSpan (mkPtok 7 "@lengthOf(" 13 24 56) (mkPtok 40 "," 17 0 64)) [(FALengthOf (mkSpan (mkPtok 7 "@lengthOf(" 13 24 56) (mkPtok 6 ")" 14 3 58)) (mkLengthOf (mkSpan (mkPtok 7 "@lengthOf(" 13 24 56) (mkPtok 6 ")" 14 3 58)) (mkPtok 7 "@lengthOf(" 13 24 56) (mkPtok 42 "int" 14 0 57) (mkPtok 6 ")" 14 3 58)))] (LengthField (mkSpan (mkPtok 42 "packetx" 15 0 59) (mkPtok 40 "," 17 0 64)) (mkLengthFieldDecl (mkSpan (mkPtok 42 "packetx" 15 0 59) (mkPtok 40 "," 17 0 64)) None (mkPtok 42 "packetx" 15 0 59) (mkLengthOf (mkSpan (mkPtok 7 "@lengthOf(" 15 8 60) (mkPtok 6 ")" 16 4 62)) (mkPtok 7 "@lengthOf(" 15 8 60) (mkPtok 42 "rootA" 15 19 61) (mkPtok 6 ")" 16 4 62)) (Some (mkPtok 43 "`u8 x,`" 16 6 63)) (mkPtok 40 "," 17 0 64)))); (mkFieldWithAttr (mkSpan (mkPtok 32 "@rightPad" 17 2 65) (mkPtok 40 "," 22 6 77)) [(FAPadding (mkSpan (mkPtok 32 "@rightPad" 17 2 65) (mkPtok 6 ")" 17 20 68)) (mkPaddingAttr (mkSpan (mkPtok 32 "@rightPad" 17 2 65) (mkPtok 6 ")" 17 20 68)) (mkPtok 32 "@rightPad" 17 2 65) (mkPtok 8 "(" 17 12 66) (Some (mkPtok 33 "'\x00'" 17 14 67)) (mkPtok 6 ")" 17 20 68)))] (MetaField (mkSpan (mkPtok 12 "char[" 17 22 69) (mkPtok 40 "," 22 6 77)) None (mkMetaDecl (mkSpan (mkPtok 12 "char[" 17 22 69) (mkPtok 40 "," 22 6 77)) (TyFixed (mkSpan (mkPtok 12 "char[" 17 22 69) (mkPtok 13 "]" 20 3 73)) (mkFixedString (mkSpan (mkPtok 12 "char[" 17 22 69) (mkPtok 13 "]" 20 3 73)) (mkPtok 12 "char[" 17 22 69) (mkPtok 30 "255" 20 0 72) (mkPtok 13 "]" 20 3 73))) (mkPtok 42 "repeatCount" 21 0 75) (Some (mkPtok 43 (string_of_bytes [96; 108; 105; 110; 101; 49; 10; 108; 105; 110; 101; 50; 96]%N) 21 11 76)) (mkPtok 40 "," 22 6 77)))); (mkFieldWithAttr (mkSpan (mkPtok 28 "f32" 23 0 78) (mkPtok 40 "," 24 4 80)) [] (MetaField (mkSpan (mkPtok 28 "f32" 23 0 78) (mkPtok 40 "," 24 4 80)) None (mkMetaDecl (mkSpan (mkPtok 28 "f32" 23 0 78) (mkPtok 40 "," 24 4 80)) (TyBasic (mkSpan (mkPtok 28 "f32" 23 0 78) (mkPtok 28 "f32" 23 0 78)) (mkBasicType (mkSpan (mkPtok 28 "f32" 23 0 78) (mkPtok 28 "f32" 23 0 78)) (mkPtok 28 "f32" 23 0 78))) (mkPtok 42 "trueish" 23 4 79) None (mkPtok 40 "," 24 4 80)))); (mkFieldWithAttr (mkSpan (mkPtok 32 "@leftPad" 25 4 81) (mkPtok 40 "," 50 16 161)) [(FAPadding (mkSpan (mkPtok 32 "@leftPad" 25 4 81) (mkPtok 6 ")" 25 19 84)) (mkPaddingAttr (mkSpan (mkPtok 32 "@leftPad" 25 4 81) (mkPtok 6 ")" 25 19 84)) (mkPtok 32 "@leftPad" 25 4 81) (mkPtok 8 "(" 25 13 82) (Some (mkPtok 33 "' '" 25 15 83)) (mkPtok 6 ")" 25 19 84))); (FALengthOf (mkSpan (mkPtok 7 "@lengthOf(" 26 0 86) (mkPtok 6 ")" 27 14 88)) (mkLengthOf (mkSpan (mkPtok 7 "@lengthOf(" 26 0 86) (mkPtok 6 ")" 27 14 88)) (mkPtok 7 "@lengthOf(" 26 0 86) (mkPtok 42 "MetaDataX" 27 4 87) (mkPtok 6 ")" 27 14 88))); (FALengthOf (mkSpan (mkPtok 7 "@lengthOf(" 28 0 89) (mkPtok 6 ")" 29 4 91)) (mkLengthOf (mkSpan (mkPtok 7 "@lengthOf(" 28 0 89) (mkPtok 6 ")" 29 4 91)) (mkPtok 7 "@lengthOf(" 28 0 89) (mkPtok 42 "leftPad" 28 11 90) (mkPtok 6 ")" 29 4 91)))] (InerObjectField (mkSpan (mkPtok 42 "Pad" 30 0 93) (mkPtok 40 "," 50 16 161)) None (InerObjectDecl (mkSpan (mkPtok 42 "Pad" 30 0 93) (mkPtok 3 "}" 50 14 160)) (mkPtok 42 "Pad" 30 0 93) (mkPtok 2 "{" 30 4 94) [(MatchField (mkSpan (mkPtok 38 "match" 30 5 95) (mkPtok 40 "," 50 12 159)) (mkMatchFieldDecl (mkSpan (mkPtok 38 "match" 30 5 95) (mkPtok 3 "}" 50 10 158)) (mkPtok 38 "match" 30 5 95) (mkPtok 42 "Logon" 31 0 96) (mkPtok 17 "as" 31 6 97) (mkPtok 42 "i64_" 31 9 98) (mkPtok 2 "{" 31 14 99) [(mkMatchPair (mkSpan (mkPtok 18 "[" 32 0 100) (mkPtok 40 "," 37 5 114)) (MKList (mkKeyList (mkSpan (mkPtok 18 "[" 32 0 100) (mkPtok 13 "]" 34 21 109)) (mkPtok 18 "[" 32 0 100) (mkPtok 30 "255" 32 1 101) [((mkPtok 40 "," 33 0 103), (mkPtok 31 """it's""" 34 0 104)); ((mkPtok 40 "," 34 7 105), (mkPtok 31 (string_of_bytes [34; 230; 182; 136; 230; 129; 175; 34]%N) 34 9 106)); ((mkPtok 40 "," 34 14 107), (mkPtok 31 """x y""" 34 15 108))] (mkPtok 13 "]" 34 21 109))) (mkPtok 39 ":" 34 23 110) (mkPtok 42 "pack" 37 0 113) (Some (mkPtok 40 "," 37 5 114))); (mkMatchPair (mkSpan (mkPtok 18 "[" 37 7 115) (mkPtok 42 "charz" 46 8 137)) (MKList (mkKeyList (mkSpan (mkPtok 18 "[" 37 7 115) (mkPtok 13 "]" 46 4 135)) (mkPtok 18 "[" 37 7 115) (mkPtok 30 "10" 37 9 116) [((mkPtok 40 "," 37 12 117), (mkPtok 31 """a\""b""" 39 4 119)); ((mkPtok 40 "," 39 11 120), (mkPtok 31 """x y""" 39 14 121)); ((mkPtok 40 "," 39 20 122), (mkPtok 31 (string_of_bytes [34; 92; 195; 169; 34]%N) 42 0 125)); ((mkPtok 40 "," 43 0 126), (mkPtok 30 "0" 43 1 127)); ((mkPtok 40 "," 43 2 128), (mkPtok 30 "10" 45 4 130)); ((mkPtok 40 "," 45 7 131), (mkPtok 30 "0" 45 9 132)); ((mkPtok 40 "," 45 10 133), (mkPtok 30 "255" 46 0 134))] (mkPtok 13 "]" 46 4 135))) (mkPtok 39 ":" 46 6 136) (mkPtok 42 "charz" 46 8 137) None); (mkMatchPair (mkSpan (mkPtok 30 "0" 46 14 138) (mkPtok 40 "," 47 10 141)) (MKDigits (mkPtok 30 "0" 46 14 138)) (mkPtok 39 ":" 47 0 139) (mkPtok 42 "string_" 47 2 140) (Some (mkPtok 40 "," 47 10 141))); (mkMatchPair (mkSpan (mkPtok 18 "[" 47 12 142) (mkPtok 42 "asx" 48 4 148)) (MKList (mkKeyList (mkSpan (mkPtok 18 "[" 47 12 142) (mkPtok 13 "]" 48 1 146)) (mkPtok 18 "[" 47 12 142) (mkPtok 31 """x y""" 47 13 143) [((mkPtok 40 "," 47 19 144), (mkPtok 30 "1" 48 0 145))] (mkPtok 13 "]" 48 1 146))) (mkPtok 39 ":" 48 2 147) (mkPtok 42 "asx" 48 4 148) None); (mkMatchPair (mkSpan (mkPtok 31 (string_of_bytes [34; 97; 9; 98; 34]%N) 48 7 149) (mkPtok 40 "," 48 18 152)) (MKString (mkPtok 31 (string_of_bytes [34; 97; 9; 98; 34]%N) 48 7 149)) (mkPtok 39 ":" 48 12 150) (mkPtok 42 "asx" 48 14 151) (Some (mkPtok 40 "," 48 18 152))); (mkMatchPair (mkSpan (mkPtok 31 (string_of_bytes [34; 97; 9; 98; 34]%N) 49 4 153) (mkPtok 40 "," 50 8 157)) (MKString (mkPtok 31 (string_of_bytes [34; 97; 9; 98; 34]%N) 49 4 153)) (mkPtok 39 ":" 50 0 155) (mkPtok 42 "Header" 50 1 156) (Some (mkPtok 40 "," 50 8 157)))] (mkPtok 3 "}" 50 10 158)) (mkPtok 40 "," 50 12 159))] (mkPtok 3 "}" 50 14 160)) (mkPtok 40 "," 50 16 161)))] (mkPtok 3 "}" 50 18 162))); (DPacket (mkPacketDef (mkSpan (mkPtok 35 "packet" 50 20 163) (mkPtok 3 "}" 52 2 167)) None (mkPtok 35 "packet" 50 20 163) (mkPtok 42 "A" 51 0 165) (mkPtok 2 "{" 52 0 166) [] (mkPtok 3 "}" 52 2 167))); (DOption (mkOptionDef (mkSpan (mkPtok 1 "options" 52 3 168) (mkPtok 3 "}" 58 9 189)) (mkPtok 1 "options" 52 3 168) (mkPtok 2 "{" 52 11 169) [(mkOptionDecl (mkSpan (mkPtok 42 "len" 53 4 170) (mkPtok 41 ";" 54 5 173)) (mkPtok 42 "len" 53 4 170) (mkPtok 4 "=" 53 8 171) (VTrue (mkSpan (mkPtok 10 "true" 54 0 172) (mkPtok 10 "true" 54 0 172)) (mkPtok 10 "true" 54 0 172)) (Some (mkPtok 41 ";" 54 5 173))); (mkOptionDecl (mkSpan (mkPtok 42 "f32a" 54 6 174) (mkPtok 33 "'0'" 54 12 176)) (mkPtok 42 "f32a" 54 6 174) (mkPtok 4 "=" 54 11 175) (VPaddingChar (mkSpan (mkPtok 33 "'0'" 54 12 176) (mkPtok 33 "'0'" 54 12 176)) (mkPtok 33 "'0'" 54 12 176)) None); (mkOptionDecl (mkSpan (mkPtok 42 "o" 54 16 177) (mkPtok 41 ";" 56 0 182)) (mkPtok 42 "o" 54 16 177) (mkPtok 4 "=" 55 0 178) (VType (mkSpan (mkPtok 12 "char[" 55 2 179) (mkPtok 13 "]" 55 9 181)) (TyFixed (mkSpan (mkPtok 12 "char[" 55 2 179) (mkPtok 13 "]" 55 9 181)) (mkFixedString (mkSpan (mkPtok 12 "char[" 55 2 179) (mkPtok 13 "]" 55 9 181)) (mkPtok 12 "char[" 55 2 179) (mkPtok 30 "7" 55 7 180) (mkPtok 13 "]" 55 9 181)))) (Some (mkPtok 41 ";" 56 0 182))); (mkOptionDecl (mkSpan (mkPtok 42 "body" 56 3 183) (mkPtok 33 "' '" 57 4 185)) (mkPtok 42 "body" 56 3 183) (mkPtok 4 "=" 56 8 184) (VPaddingChar (mkSpan (mkPtok 33 "' '" 57 4 185) (mkPtok 33 "' '" 57 4 185)) (mkPtok 33 "' '" 57 4 185)) None); (mkOptionDecl (mkSpan (mkPtok 42 "o" 57 8 186) (mkPtok 30 "3" 58 6 188)) (mkPtok 42 "o" 57 8 186) (mkPtok 4 "=" 58 4 187) (VDigits (mkSpan (mkPtok 30 "3" 58 6 188) (mkPtok 30 "3" 58 6 188)) (mkPtok 30 "3" 58 6 188)) None)] (mkPtok 3 "}" 58 9 189))); (DPacket (mkPacketDef (mkSpan (mkPtok 35 "packet" 58 11 190) (mkPtok 3 "}" 97 4 317)) None (mkPtok 35 "packet" 58 11 190) (mkPtok 42 "As" 58 18 191) (mkPtok 2 "{" 58 22 192) [(mkFieldWithAttr (mkSpan (mkPtok 9 "@tag(" 59 0 193) (mkPtok 40 "," 74 0 246)) [(FATag (mkSpan (mkPtok 9 "@tag(" 59 0 193) (mkPtok 6 ")" 59 10 195)) (mkTagAttr (mkSpan (mkPtok 9 "@tag(" 59 0 193) (mkPtok 6 ")" 59 10 195)) (mkPtok 9 "@tag(" 59 0 193) (mkPtok 30 "007" 59 6 194) (mkPtok 6 ")" 59 10 195))); (FAPadding (mkSpan (mkPtok 32 "@rightPad" 59 12 196) (mkPtok 6 ")" 60 0 199)) (mkPaddingAttr (mkSpan (mkPtok 32 "@rightPad" 59 12 196) (mkPtok 6 ")" 60 0 199)) (mkPtok 32 "@rightPad" 59 12 196) (mkPtok 8 "(" 59 23 197) (Some (mkPtok 33 "'\x00'" 59 24 198)) (mkPtok 6 ")" 60 0 199))); (FAPadding (mkSpan (mkPtok 32 "@rightPad" 61 4 200) (mkPtok 6 ")" 61 19 203)) (mkPaddingAttr (mkSpan (mkPtok 32 "@rightPad" 61 4 200) (mkPtok 6 ")" 61 19 203)) (mkPtok 32 "@rightPad" 61 4 200) (mkPtok 8 "(" 61 14 201) (Some (mkPtok 33 "' '" 61 15 202)) (mkPtok 6 ")" 61 19 203)))] (MatchField (mkSpan (mkPtok 38 "match" 61 21 204) (mkPtok 40 "," 74 0 246)) (mkMatchFieldDecl (mkSpan (mkPtok 38 "match" 61 21 204) (mkPtok 3 "}" 73 4 245)) (mkPtok 38 "match" 61 21 204) (mkPtok 42 "roots" 61 27 205) (mkPtok 17 "as" 62 0 207) (mkPtok 42 "_x" 62 3 208) (mkPtok 2 "{" 62 5 209) [(mkMatchPair (mkSpan (mkPtok 30 "0123456789" 62 7 210) (mkPtok 40 "," 62 28 213)) (MKDigits (mkPtok 30 "0123456789" 62 7 210)) (mkPtok 39 ":" 62 18 211) (mkPtok 42 "string_" 62 20 212) (Some (mkPtok 40 "," 62 28 213))); (mkMatchPair (mkSpan (mkPtok 18 "[" 63 0 214) (mkPtok 42 "Pad" 70 3 234)) (MKList (mkKeyList (mkSpan (mkPtok 18 "[" 63 0 214) (mkPtok 13 "]" 70 0 232)) (mkPtok 18 "[" 63 0 214) (mkPtok 31 (string_of_bytes [34; 230; 182; 136; 230; 129; 175; 34]%N) 63 2 215) [((mkPtok 40 "," 63 7 216), (mkPtok 31 """1""" 63 9 217)); ((mkPtok 40 "," 63 13 218), (mkPtok 31 (string_of_bytes [34; 97; 9; 98; 34]%N) 64 0 219)); ((mkPtok 40 "," 64 6 220), (mkPtok 30 "3" 64 8 221)); ((mkPtok 40 "," 65 4 222), (mkPtok 31 """x y""" 65 6 223)); ((mkPtok 40 "," 66 4 224), (mkPtok 30 "00" 67 0 225)); ((mkPtok 40 "," 67 3 226), (mkPtok 30 "10" 67 5 227)); ((mkPtok 40 "," 67 8 228), (mkPtok 31 (string_of_bytes [34; 92; 195; 169; 34]%N) 67 10 229))] (mkPtok 13 "]" 70 0 232))) (mkPtok 39 ":" 70 2 233) (mkPtok 42 "Pad" 70 3 234) None); (mkMatchPair (mkSpan (mkPtok 30 "65535" 71 0 235) (mkPtok 42 "x" 71 8 237)) (MKDigits (mkPtok 30 "65535" 71 0 235)) (mkPtok 39 ":" 71 6 236) (mkPtok 42 "x" 71 8 237) None); (mkMatchPair (mkSpan (mkPtok 30 "7" 71 10 238) (mkPtok 42 "x_y_z" 71 14 240)) (MKDigits (mkPtok 30 "7" 71 10 238)) (mkPtok 39 ":" 71 12 239) (mkPtok 42 "x_y_z" 71 14 240) None); (mkMatchPair (mkSpan (mkPtok 30 "3" 71 20 241) (mkPtok 40 "," 72 6 244)) (MKDigits (mkPtok 30 "3" 71 20 241)) (mkPtok 39 ":" 71 22 242) (mkPtok 42 "charz" 72 0 243) (Some (mkPtok 40 "," 72 6 244)))] (mkPtok 3 "}" 73 4 245)) (mkPtok 40 "," 74 0 246))); (mkFieldWithAttr (mkSpan (mkPtok 32 "@rightPad" 75 0 247) (mkPtok 40 "," 76 5 255)) [(FAPadding (mkSpan (mkPtok 32 "@rightPad" 75 0 247) (mkPtok 6 ")" 75 16 250)) (mkPaddingAttr (mkSpan (mkPtok 32 "@rightPad" 75 0 247) (mkPtok 6 ")" 75 16 250)) (mkPtok 32 "@rightPad" 75 0 247) (mkPtok 8 "(" 75 10 248) (Some (mkPtok 33 "' '" 75 12 249)) (mkPtok 6 ")" 75 16 250)))] (MetaField (mkSpan (mkPtok 36 "repeat" 75 18 251) (mkPtok 40 "," 76 5 255)) (Some (mkPtok 36 "repeat" 75 18 251)) (mkMetaDecl (mkSpan (mkPtok 29 "f64" 75 25 252) (mkPtok 40 "," 76 5 255)) (TyBasic (mkSpan (mkPtok 29 "f64" 75 25 252) (mkPtok 29 "f64" 75 25 252)) (mkBasicType (mkSpan (mkPtok 29 "f64" 75 25 252) (mkPtok 29 "f64" 75 25 252)) (mkPtok 29 "f64" 75 25 252))) (mkPtok 42 "u128" 76 0 254) None (mkPtok 40 "," 76 5 255)))); (mkFieldWithAttr (mkSpan (mkPtok 24 "i8" 76 6 256) (mkPtok 40 "," 77 26 262)) [] (CheckSumField (mkSpan (mkPtok 24 "i8" 76 6 256) (mkPtok 40 "," 77 26 262)) (mkChecksumFieldDecl (mkSpan (mkPtok 24 "i8" 76 6 256) (mkPtok 40 "," 77 26 262)) (Some (TyBasic (mkSpan (mkPtok 24 "i8" 76 6 256) (mkPtok 24 "i8" 76 6 256)) (mkBasicType (mkSpan (mkPtok 24 "i8" 76 6 256) (mkPtok 24 "i8" 76 6 256)) (mkPtok 24 "i8" 76 6 256)))) (mkPtok 42 "calculatedFrom" 76 9 257) (mkCalculatedFrom (mkSpan (mkPtok 5 "@calculatedFrom(" 77 0 259) (mkPtok 6 ")" 77 24 261)) (mkPtok 5 "@calculatedFrom(" 77 0 259) (mkPtok 31 """it's""" 77 17 260) (mkPtok 6 ")" 77 24 261)) None (mkPtok 40 "," 77 26 262)))); (mkFieldWithAttr (mkSpan (mkPtok 9 "@tag(" 77 28 263) (mkPtok 40 "," 84 19 275)) [(FATag (mkSpan (mkPtok 9 "@tag(" 77 28 263) (mkPtok 6 ")" 79 4 266)) (mkTagAttr (mkSpan (mkPtok 9 "@tag(" 77 28 263) (mkPtok 6 ")" 79 4 266)) (mkPtok 9 "@tag(" 77 28 263) (mkPtok 30 "0" 77 34 264) (mkPtok 6 ")" 79 4 266)))] (MetaField (mkSpan (mkPtok 36 "repeat" 80 4 267) (mkPtok 40 "," 84 19 275)) (Some (mkPtok 36 "repeat" 80 4 267)) (mkMetaDecl (mkSpan (mkPtok 14 "zchar[" 83 0 270) (mkPtok 40 "," 84 19 275)) (TyFixed (mkSpan (mkPtok 14 "zchar[" 83 0 270) (mkPtok 13 "]" 84 4 272)) (mkFixedString (mkSpan (mkPtok 14 "zchar[" 83 0 270) (mkPtok 13 "]" 84 4 272)) (mkPtok 14 "zchar[" 83 0 270) (mkPtok 30 "65535" 83 6 271) (mkPtok 13 "]" 84 4 272))) (mkPtok 42 "lengthOf" 84 6 273) (Some (mkPtok 43 (string_of_bytes [96; 195; 169; 96]%N) 84 15 274)) (mkPtok 40 "," 84 19 275)))); (mkFieldWithAttr (mkSpan (mkPtok 42 "asx" 85 0 276) (mkPtok 40 "," 88 2 283)) [] (InerObjectField (mkSpan (mkPtok 42 "asx" 85 0 276) (mkPtok 40 "," 88 2 283)) None (InerObjectDecl (mkSpan (mkPtok 42 "asx" 85 0 276) (mkPtok 3 "}" 88 0 282)) (mkPtok 42 "asx" 85 0 276) (mkPtok 2 "{" 86 0 277) [(ObjectField (mkSpan (mkPtok 42 "msg_type" 86 1 278) (mkPtok 40 "," 87 5 281)) None (mkPtok 42 "msg_type" 86 1 278) (Some (mkPtok 42 "f32a" 86 10 279)) (Some (mkPtok 43 "`a\`" 87 0 280)) (mkPtok 40 "," 87 5 281))] (mkPtok 3 "}" 88 0 282)) (mkPtok 40 "," 88 2 283))); (mkFieldWithAttr (mkSpan (mkPtok 7 "@lengthOf(" 89 0 284) (mkPtok 40 "," 92 34 298)) [(FALengthOf (mkSpan (mkPtok 7 "@lengthOf(" 89 0 284) (mkPtok 6 ")" 89 12 286)) (mkLengthOf (mkSpan (mkPtok 7 "@lengthOf(" 89 0 284) (mkPtok 6 ")" 89 12 286)) (mkPtok 7 "@lengthOf(" 89 0 284) (mkPtok 42 "A" 89 11 285) (mkPtok 6 ")" 89 12 286))); (FAPadding (mkSpan (mkPtok 32 "@rightPad" 89 14 287) (mkPtok 6 ")" 89 26 289)) (mkPaddingAttr (mkSpan (mkPtok 32 "@rightPad" 89 14 287) (mkPtok 6 ")" 89 26 289)) (mkPtok 32 "@rightPad" 89 14 287) (mkPtok 8 "(" 89 24 288) None (mkPtok 6 ")" 89 26 289))); (FACalculatedFrom (mkSpan (mkPtok 5 "@calculatedFrom(" 90 0 290) (mkPtok 6 ")" 91 8 292)) (mkCalculatedFrom (mkSpan (mkPtok 5 "@calculatedFrom(" 90 0 290) (mkPtok 6 ")" 91 8 292)) (mkPtok 5 "@calculatedFrom(" 90 0 290) (mkPtok 31 """packet""" 91 0 291) (mkPtok 6 ")" 91 8 292)))] (CheckSumField (mkSpan (mkPtok 19 "char" 92 0 293) (mkPtok 40 "," 92 34 298)) (mkChecksumFieldDecl (mkSpan (mkPtok 19 "char" 92 0 293) (mkPtok 40 "," 92 34 298)) (Some (TyBasic (mkSpan (mkPtok 19 "char" 92 0 293) (mkPtok 19 "char" 92 0 293)) (mkBasicType (mkSpan (mkPtok 19 "char" 92 0 293) (mkPtok 19 "char" 92 0 293)) (mkPtok 19 "char" 92 0 293)))) (mkPtok 42 "Logon" 92 5 294) (mkCalculatedFrom (mkSpan (mkPtok 5 "@calculatedFrom(" 92 11 295) (mkPtok 6 ")" 92 32 297)) (mkPtok 5 "@calculatedFrom(" 92 11 295) (mkPtok 31 (string_of_bytes [34; 240; 159; 152; 128; 34]%N) 92 28 296) (mkPtok 6 ")" 92 32 297)) None (mkPtok 40 "," 92 34 298)))); (mkFieldWithAttr (mkSpan (mkPtok 7 "@lengthOf(" 92 36 299) (mkPtok 40 "," 95 15 308)) [(FALengthOf (mkSpan (mkPtok 7 "@lengthOf(" 92 36 299) (mkPtok 6 ")" 93 0 302)) (mkLengthOf (mkSpan (mkPtok 7 "@lengthOf(" 92 36 299) (mkPtok 6 ")" 93 0 302)) (mkPtok 7 "@lengthOf(" 92 36 299) (mkPtok 42 "f32a" 92 47 300) (mkPtok 6 ")" 93 0 302)))] (MetaField (mkSpan (mkPtok 14 "zchar[" 93 2 303) (mkPtok 40 "," 95 15 308)) None (mkMetaDecl (mkSpan (mkPtok 14 "zchar[" 93 2 303) (mkPtok 40 "," 95 15 308)) (TyFixed (mkSpan (mkPtok 14 "zchar[" 93 2 303) (mkPtok 13 "]" 95 4 305)) (mkFixedString (mkSpan (mkPtok 14 "zchar[" 93 2 303) (mkPtok 13 "]" 95 4 305)) (mkPtok 14 "zchar[" 93 2 303) (mkPtok 30 "1" 94 0 304) (mkPtok 13 "]" 95 4 305))) (mkPtok 42 "i8i8" 95 5 306) (Some (mkPtok 43 "`it's`" 95 9 307)) (mkPtok 40 "," 95 15 308)))); (mkFieldWithAttr (mkSpan (mkPtok 21 "u16" 96 0 310) (mkPtok 40 "," 97 2 316)) [] (CheckSumField (mkSpan (mkPtok 21 "u16" 96 0 310) (mkPtok 40 "," 97 2 316)) (mkChecksumFieldDecl (mkSpan (mkPtok 21 "u16" 96 0 310) (mkPtok 40 "," 97 2 316)) (Some (TyBasic (mkSpan (mkPtok 21 "u16" 96 0 310) (mkPtok 21 "u16" 96 0 310)) (mkBasicType (mkSpan (mkPtok 21 "u16" 96 0 310) (mkPtok 21 "u16" 96 0 310)) (mkPtok 21 "u16" 96 0 310)))) (mkPtok 42 "As" 96 4 311) (mkCalculatedFrom (mkSpan (mkPtok 5 "@calculatedFrom(" 96 6 312) (mkPtok 6 ")" 96 32 314)) (mkPtok 5 "@calculatedFrom(" 96 6 312) (mkPtok 31 """packet""" 96 23 313) (mkPtok 6 ")" 96 32 314)) (Some (mkPtok 43 (string_of_bytes [96; 10; 96]%N) 96 35 315)) (mkPtok 40 "," 97 2 316))))] (mkPtok 3 "}" 97 4 317)))])).
Eval vm_compute in ("<<<M892>>>" ++ check (runes_of_ascii "options { stringy = ""a\""b"" ;	Foo
=true
; crc// 50% %s
=
true
    } MetaData float{i16 options1 `100% of %d` // trailing space 
,  As
// packet A { u8 x, }
// @lengthOf(
Header`
`, } root	packet crc {  char[
    00 ]	i8i8
    `u8 x,`,match body as f32a { 0 // packet A { u8 x, }
: packetx
, ""a\\"" :
    a1 ,42 : crc , ""{,}""	: options1
    , [
""" ++ [28040; 24687]%N ++ runes_of_ascii """, 3//x
, ""a\""b""
] :options1
    ,[00
, 3,// a // b
""" ++ [28040; 24687]%N ++ runes_of_ascii """ ] // packet A { u8 x, }
: f32a ,	}, @lengthOf( crc ) @rightPad( ' ')
@calculatedFrom(
""packet""
) body	`" ++ [233]%N ++ runes_of_ascii "`
, // " ++ [128512]%N ++ runes_of_ascii " emoji
@calculatedFrom(// packet A { u8 x, }
""1"" )@lengthOf(	msg_type ) @tag(
//	t
//
7 ) repeat zchar[3]  rootA
, As @calculatedFrom(
""{,}"" ) , char[] o	@lengthOf(//x
float
    //
    ) `say ""hi""`//	t
,
    }options { }
")).
Eval vm_compute in ("<<<M924>>>" ++ check (runes_of_ascii "packet T { i64_ `say ""hi""` , match charz as /// triple
repeatCount { ""{,}""
// a // b
// 50% %s
:
len ,//x
[ // trailing space 
""" ++ [128512]%N ++ runes_of_ascii """ ]  : matchKey ,4294967296  : Packet
,
255	:
// " ++ [128512]%N ++ runes_of_ascii " emoji
// " ++ [27880; 37322]%N ++ runes_of_ascii "
x , 007
    : body 10
: body ,
    /// triple
    } ,
    } MetaData Pad { float64 // 50% %s
metadata, uint64 Z9_ , string o `doc` ,int32 float`a\`
    // " ++ [27880; 37322]%N ++ runes_of_ascii "
    , }

")).
Eval vm_compute in ("<<<M956>>>" ++ check (runes_of_ascii "
root packet
// c
// c
packetx { @tag(1) T uint8x
,}	packet crc
{ @calculatedFrom(
    ""abc""
) msg_type  charz `line1
line2` ,} packet	Pad { }root packet x{
@tag( 0 ) zchar[
10 ] metadata ,_x charz ,
x
`// not a comment`
    ,int16 roots,	string // " ++ [27880; 37322]%N ++ runes_of_ascii "
i64_`line1
line2` ,
repeat
lengthOf
`` ,
    zchar[
42 // c
] int , }")).
Eval vm_compute in ("<<<M988>>>" ++ check (runes_of_ascii "
packet float
{
}
")).
Eval vm_compute in ("<<<M1020>>>" ++ check (runes_of_ascii "options {}")).
Eval vm_compute in ("<<<M1052>>>" ++ check (runes_of_ascii " // packet A { u8 x, }")).
Eval vm_compute in ("<<<M1084>>>" ++ check (runes_of_ascii "/// triple
MetaData len
    {
    i32// " ++ [128512]%N ++ runes_of_ascii " emoji
o,
//x
/// triple
}")).
Eval vm_compute in ("<<<T1084>>>" ++ terms [mkTok 44 "/// triple" 1 0 true; mkTok 37 "MetaData" 2 0 false; mkTok 42 "len" 2 9 false; mkTok 2 "{" 3 4 false; mkTok 26 "i32" 4 4 false; mkTok 44 (string_of_bytes [47; 47; 32; 240; 159; 152; 128; 32; 101; 109; 111; 106; 105]%N) 4 7 true; mkTok 42 "o" 5 0 false; mkTok 40 "," 5 1 false; mkTok 44 "//x" 6 0 true; mkTok 44 "/// triple" 7 0 true; mkTok 3 "}" 8 0 false; mkTok 0 "<EOF>" 8 1 false] (mkPacket (mkPtok 37 "MetaData" 2 0 1) (Some (mkPtok 3 "}" 8 0 10)) [(DMeta (mkMetaDef (mkSpan (mkPtok 37 "MetaData" 2 0 1) (mkPtok 3 "}" 8 0 10)) (mkPtok 37 "MetaData" 2 0 1) (mkPtok 42 "len" 2 9 2) (mkPtok 2 "{" 3 4 3) [(MIDecl (mkMetaDecl (mkSpan (mkPtok 26 "i32" 4 4 4) (mkPtok 40 "," 5 1 7)) (TyBasic (mkSpan (mkPtok 26 "i32" 4 4 4) (mkPtok 26 "i32" 4 4 4)) (mkBasicType (mkSpan (mkPtok 26 "i32" 4 4 4) (mkPtok 26 "i32" 4 4 4)) (mkPtok 26 "i32" 4 4 4))) (mkPtok 42 "o" 5 0 6) None (mkPtok 40 "," 5 1 7)))] (mkPtok 3 "}" 8 0 10)))])).
Eval vm_compute in ("<<<M1116>>>" ++ check (runes_of_ascii "
packet msg_type
    { match
a1 as x_y_z{[ """ ++ [233]%N ++ runes_of_ascii "t" ++ [233]%N ++ runes_of_ascii """
    ,
// " ++ [128512]%N ++ runes_of_ascii " emoji
// " ++ [128512]%N ++ runes_of_ascii " emoji
"""" ,
    """ ++ [128512]%N ++ runes_of_ascii """ // 50% %s
, ""`tick`"" ,
""x y"" , ""abc"", ""\" ++ [233]%N ++ runes_of_ascii """, ""packet""
] :
    int, }// " ++ [128512]%N ++ runes_of_ascii " emoji
, repeat
uint16 f32a
`it's`
    , } root packet rootA{ As crc ,
@rightPad ( //	t
'\x00'
// `tick` ""quote"" 'q'
// " ++ [27880; 37322]%N ++ runes_of_ascii "
)
    @lengthOf( u)repeat	i16 matchKey
,
    @calculatedFrom(	""x y""
//
// c
) char[]	u128 @calculatedFrom( ""`tick`"" )
    , Z9_ @lengthOf( matchKey )
    ,
    //	t
    } options {
}
")).
Eval vm_compute in ("<<<M1148>>>" ++ check (runes_of_ascii "options {	} root
packet float {
    // 50% %s
    @tag( 3
) repeat char[
// " ++ [128512]%N ++ runes_of_ascii " emoji
// @lengthOf(
65535
]  Logon `" ++ [28040; 24687; 31867; 22411]%N ++ runes_of_ascii "`	,
int8
    asx ,uint64
matchKey // @lengthOf(
, repeat zchar[ 0123456789
] charz ,@rightPad( ) match
    rootA as o { ""abc"" : Header, ""a	b"" :BodyLength""a	b"" :/// triple
repeatCount """ ++ [28040; 24687]%N ++ runes_of_ascii """ :
// packet A { u8 x, }
// `tick` ""quote"" 'q'
_x ,  }, @lengthOf( body  )  match u8x
    as u128{0123456789
    // @lengthOf(
    : lengthOf/// triple
,
    ""abc"": A	"""": Pad , 42	: i8i8 ,""a\""b"":  uint8x	4294967296: u128 , } , @lengthOf( int ) char[] matchKey
    , uint16
// " ++ [27880; 37322]%N ++ runes_of_ascii "
// @lengthOf(
pack`two words`, // trailing space 
} options {
    body =//	t
string ; repeatCount
=
""it's""
BodyLength = i64 Foo = ""packet"" ;
lengthOf=
    u16 }MetaData Pad { MetaDataX o
    `a\` , char u,
    zchar[
255 ] o
, }// c
options //x
{trueish=
'0' ;
    rootA	= int64 ;
// trailing space 
// " ++ [128512]%N ++ runes_of_ascii " emoji
u =""\n"" }")).
Eval vm_compute in ("<<<M1180>>>" ++ check (runes_of_ascii "  root  packet
    BodyLength {
@calculatedFrom(""\n"" )int8 a1
    //	t
    @lengthOf( falsey ), @calculatedFrom(
    ""\" ++ [233]%N ++ runes_of_ascii """ ) @tag( 0123456789	) lengthOf ,  @tag(//x
007) match
Logon as	f32a { 0:zchar,
} // trailing space 
,	@lengthOf(	i8i8)
    match
    options1  as string_ { // a // b
[
""a\""b"",00,
// trailing space 
/// triple
4294967296
,4294967296 ,""a	b"" , 1 // " ++ [27880; 37322]%N ++ runes_of_ascii "
]
:
A
},  }  root packet
Logon {
    @calculatedFrom(
""x y""
    )@calculatedFrom(
    // " ++ [27880; 37322]%N ++ runes_of_ascii "
    ""abc""
) A ,} MetaData leftPad {uint32 msg_type
`" ++ [233]%N ++ runes_of_ascii "` ,  string
Packet`" ++ [233]%N ++ runes_of_ascii "`
    , Packet  _x `100% of %d` ,
}")).
Eval vm_compute in ("<<<M1212>>>" ++ check (runes_of_ascii "options
{ }
// packet A { u8 x, }
")).
Eval vm_compute in ("<<<M1244>>>" ++ check (runes_of_ascii "packet metadata  {
    // 50% %s
    i64_  options1
    ,i64 x `" ++ [233]%N ++ runes_of_ascii "` , zchar[ 0 ]body , }packet
    charz// a // b
{
    repeat float64 options1`" ++ [233]%N ++ runes_of_ascii "` , @lengthOf(
Z9_ )
// c
// @lengthOf(
As ,  repeat uint8	Foo
, u32 string_
,
i32 calculatedFrom @lengthOf( msg_type
)
    // @lengthOf(
    `two words`
    ,repeat Header charz	`// not a comment`, @calculatedFrom(	""x y"" )
//x
// trailing space 
char[
0123456789	] stringy@calculatedFrom(""x y"" )
    , repeat
lengthOf o
`a\` , match u
as
A
    // @lengthOf(
    { ""`tick`"" : // 50% %s
uint8x , ""abc"" : charz , 7:
    crc  ,
// @lengthOf(
// packet A { u8 x, }
""`tick`"" : asx , ""a\\"" :
// `tick` ""quote"" 'q'
/// triple
i64_} ,
Header calculatedFrom
    `" ++ [233]%N ++ runes_of_ascii "`
    ,
// c
//
} packet a1{// trailing space 
} MetaData
u128{ matchKey falsey `line1
line2` , }
")).
Eval vm_compute in ("<<<M1276>>>" ++ check (runes_of_ascii "packet len
{
    repeat zchar[ 4294967296 ] roots
`tab	here` , @tag(
    // @lengthOf(
    1 //
)
char[0123456789 ] MetaDataX ,
} MetaData
    stringy
{
    // " ++ [128512]%N ++ runes_of_ascii " emoji
    packetx
    falsey,
string
    a1 `u8 x,`
, int64 matchKey ,
string_ matchKey `" ++ [233]%N ++ runes_of_ascii "` ,chars Logon
    `100% of %d` , // " ++ [128512]%N ++ runes_of_ascii " emoji
}
packet
//
/// triple
int
{u32 float `" ++ [233]%N ++ runes_of_ascii "` , @calculatedFrom(
    // @lengthOf(
    ""a\""b"" ) match u128 as packetx{
// 50% %s
// `tick` ""quote"" 'q'
[ 3 ,
""\" ++ [233]%N ++ runes_of_ascii """] :
i8i8 ,007 :
    chars, [
    ""x y"" ,	""packet""
, 10 // trailing space 
]: rootA , [ 00 , 0 ] : x
,
} ,// trailing space 
tag {	int8
trueish @lengthOf( Header
) , repeatCount
@calculatedFrom( ""{,}"")
, } , @tag( 007 )
    repeat MetaDataX  metadata , @tag(42
/// triple
//x
) char[ 00 ]string_@calculatedFrom(
""// no comment"")// `tick` ""quote"" 'q'
,
    char[]Pad`doc` ,repeat
char[
    7 ] Logon , }
MetaData _x
{Foo
packetx `" ++ [28040; 24687; 31867; 22411]%N ++ runes_of_ascii "`, i32 Logon,
matchKey // c
uint8x
    , zchar[ 1
    // packet A { u8 x, }
    ]
Foo, metadata
falsey// `tick` ""quote"" 'q'
`a\` ,}
")).
Eval vm_compute in ("<<<M1308>>>" ++ check (runes_of_ascii "
MetaData asx{
float32 charz
    `u8 x,` ,	}	MetaData /// triple
tag { char[
0 ]falsey , }
")).
Eval vm_compute in ("<<<T1308>>>" ++ terms [mkTok 37 "MetaData" 2 0 false; mkTok 42 "asx" 2 9 false; mkTok 2 "{" 2 12 false; mkTok 28 "float32" 3 0 false; mkTok 42 "charz" 3 8 false; mkTok 43 "`u8 x,`" 4 4 false; mkTok 40 "," 4 12 false; mkTok 3 "}" 4 14 false; mkTok 37 "MetaData" 4 16 false; mkTok 44 "/// triple" 4 25 true; mkTok 42 "tag" 5 0 false; mkTok 2 "{" 5 4 false; mkTok 12 "char[" 5 6 false; mkTok 30 "0" 6 0 false; mkTok 13 "]" 6 2 false; mkTok 42 "falsey" 6 3 false; mkTok 40 "," 6 10 false; mkTok 3 "}" 6 12 false; mkTok 0 "<EOF>" 7 0 false] (mkPacket (mkPtok 37 "MetaData" 2 0 0) (Some (mkPtok 3 "}" 6 12 17)) [(DMeta (mkMetaDef (mkSpan (mkPtok 37 "MetaData" 2 0 0) (mkPtok 3 "}" 4 14 7)) (mkPtok 37 "MetaData" 2 0 0) (mkPtok 42 "asx" 2 9 1) (mkPtok 2 "{" 2 12 2) [(MIDecl (mkMetaDecl (mkSpan (mkPtok 28 "float32" 3 0 3) (mkPtok 40 "," 4 12 6)) (TyBasic (mkSpan (mkPtok 28 "float32" 3 0 3) (mkPtok 28 "float32" 3 0 3)) (mkBasicType (mkSpan (mkPtok 28 "float32" 3 0 3) (mkPtok 28 "float32" 3 0 3)) (mkPtok 28 "float32" 3 0 3))) (mkPtok 42 "charz" 3 8 4) (Some (mkPtok 43 "`u8 x,`" 4 4 5)) (mkPtok 40 "," 4 12 6)))] (mkPtok 3 "}" 4 14 7))); (DMeta (mkMetaDef (mkSpan (mkPtok 37 "MetaData" 4 16 8) (mkPtok 3 "}" 6 12 17)) (mkPtok 37 "MetaData" 4 16 8) (mkPtok 42 "tag" 5 0 10) (mkPtok 2 "{" 5 4 11) [(MIDecl (mkMetaDecl (mkSpan (mkPtok 12 "char[" 5 6 12) (mkPtok 40 "," 6 10 16)) (TyFixed (mkSpan (mkPtok 12 "char[" 5 6 12) (mkPtok 13 "]" 6 2 14)) (mkFixedString (mkSpan (mkPtok 12 "char[" 5 6 12) (mkPtok 13 "]" 6 2 14)) (mkPtok 12 "char[" 5 6 12) (mkPtok 30 "0" 6 0 13) (mkPtok 13 "]" 6 2 14))) (mkPtok 42 "falsey" 6 3 15) None (mkPtok 40 "," 6 10 16)))] (mkPtok 3 "}" 6 12 17)))])).
Eval vm_compute in ("<<<M1340>>>" ++ check (runes_of_ascii "/// triple
packet MetaDataX {@lengthOf(	u8x	) @lengthOf(	BodyLength
    // " ++ [128512]%N ++ runes_of_ascii " emoji
    ) @leftPad
( ' ') repeat
    uint64 metadata
`" ++ [28040; 24687; 31867; 22411]%N ++ runes_of_ascii "` ,  u32 rootA
`100% of %d`,
} MetaData A {uint8 Packet `doc` , } options
    // `tick` ""quote"" 'q'
    { }
")).
Eval vm_compute in ("<<<M1372>>>" ++ check (runes_of_ascii "packet T  {  @rightPad
// `tick` ""quote"" 'q'
//
() match
    o
    as
asx {[1
    ]	:
zchar
    }
, T	{
char[] calculatedFrom // @lengthOf(
`" ++ [28040; 24687; 31867; 22411]%N ++ runes_of_ascii "`, Pad	BodyLength , // 50% %s
char[  255] body `100% of %d` , u,} , //
MetaDataX
    // `tick` ""quote"" 'q'
    @calculatedFrom( ""CRC32"" ) ,
}
packet As
    // " ++ [128512]%N ++ runes_of_ascii " emoji
    { string
o,//
repeat
i32
    // @lengthOf(
    msg_type`line1
line2`,repeat zchar[
    3
] Header `line1
line2` ,	f32a, u32 u
`say ""hi""`  ,  @leftPad (	'0' ) repeat
tag matchKey , @tag(
    1) repeat f32a
    `
` //
,
    //x
    @lengthOf(	Header )
Z9_ ,int8 i64_ @calculatedFrom(
    //	t
    ""1"" ), } //	t")).
Eval vm_compute in ("<<<M1404>>>" ++ check (runes_of_ascii "options  {} packet o { @tag( 007 ) a1 /// triple
`two words` , @lengthOf(BodyLength)trueish // 50% %s
{	i64 x_y_z@calculatedFrom( ""`tick`""
    )
    //x
    ,
T
    { int8 rootA // c
@lengthOf( MetaDataX
) , zchar[
    0123456789 ]	trueish `" ++ [28040; 24687; 31867; 22411]%N ++ runes_of_ascii "`
    ,
chars
body ,
// @lengthOf(
//	t
} , uint16 Pad `{ , }` ,
char[ // " ++ [27880; 37322]%N ++ runes_of_ascii "
1// " ++ [128512]%N ++ runes_of_ascii " emoji
] matchKey
, } , repeat i64_
T, @lengthOf( charz )	repeat	int8
    i8i8, }
")).
Eval vm_compute in ("<<<M1436>>>" ++ check (runes_of_ascii "packet
T
// packet A { u8 x, }
// c
{ repeat string float `a\` ,}
options {
uint8x =
f64 }
")).
Eval vm_compute in ("<<<M1468>>>" ++ check (runes_of_ascii "packet leftPad {repeat  matchKey // @lengthOf(
Pad , char[]	x_y_z @calculatedFrom(
    ""CRC32""
)
`100% of %d`
, repeat char[]
    // " ++ [128512]%N ++ runes_of_ascii " emoji
    Logon ,
@calculatedFrom(""`tick`""
) uint32 x
    // @lengthOf(
    , i8 u `// not a comment` ,
// c
// a // b
uint64 a1
,As
@lengthOf(
a1) `{ , }`, char[ 7 ]	o , repeat
// " ++ [27880; 37322]%N ++ runes_of_ascii "
// packet A { u8 x, }
len , body
    Logon , }  root	packet uint8x {
}
")).
Eval vm_compute in ("<<<M1500>>>" ++ check (runes_of_ascii "packet
T
{ match repeatCount as	calculatedFrom
{ [65535 ]	: As	,
} ,}
// trailing space 
")).
Eval vm_compute in ("<<<M1532>>>" ++ check (runes_of_ascii "packet uint8x { T Foo
, } root packet A {
repeat  As
    //
    falsey ,@calculatedFrom( ""a\""b""
)  match zchar as
    // a // b
    Foo {0123456789 :
    T , 00 : x
, //	t
} ,
rootA @calculatedFrom(""a\""b"") `line1
line2`	, match f32a  as	msg_type { ""// no comment""	:x_y_z ,
""packet"" // c
:
    calculatedFrom, // a // b
""{,}""	: //x
Pad
    , 42
:
    zchar [""a	b"" , ""a	b"" , ""1""
,  ""\" ++ [233]%N ++ runes_of_ascii """
//
//	t
, ""\" ++ [233]%N ++ runes_of_ascii """// @lengthOf(
]
// a // b
// `tick` ""quote"" 'q'
: zchar	, 65535:lengthOf }  , repeat i8 Z9_ `tab	here` ,// a // b
uint8x{ options1  {
char[ // 50% %s
10 ]
    // a // b
    packetx @lengthOf( body
    ) , //
zchar { repeat u128 `tab	here` ,int32 trueish@lengthOf( repeatCount ) ,  repeat f64 calculatedFrom
    ,i32 u
, },
repeat
matchKey , falsey  float `two words` ,
} , repeat Header ,u8 rootA @lengthOf( x) , // @lengthOf(
}, }
")).
Eval vm_compute in ("<<<T1532>>>" ++ terms [mkTok 35 "packet" 1 0 false; mkTok 42 "uint8x" 1 7 false; mkTok 2 "{" 1 14 false; mkTok 42 "T" 1 16 false; mkTok 42 "Foo" 1 18 false; mkTok 40 "," 2 0 false; mkTok 3 "}" 2 2 false; mkTok 34 "root" 2 4 false; mkTok 35 "packet" 2 9 false; mkTok 42 "A" 2 16 false; mkTok 2 "{" 2 18 false; mkTok 36 "repeat" 3 0 false; mkTok 42 "As" 3 8 false; mkTok 44 "//" 4 4 true; mkTok 42 "falsey" 5 4 false; mkTok 40 "," 5 11 false; mkTok 5 "@calculatedFrom(" 5 12 false; mkTok 31 """a\""b""" 5 29 false; mkTok 6 ")" 6 0 false; mkTok 38 "match" 6 3 false; mkTok 42 "zchar" 6 9 false; mkTok 17 "as" 6 15 false; mkTok 44 "// a // b" 7 4 true; mkTok 42 "Foo" 8 4 false; mkTok 2 "{" 8 8 false; mkTok 30 "0123456789" 8 9 false; mkTok 39 ":" 8 20 false; mkTok 42 "T" 9 4 false; mkTok 40 "," 9 6 false; mkTok 30 "00" 9 8 false; mkTok 39 ":" 9 11 false; mkTok 42 "x" 9 13 false; mkTok 40 "," 10 0 false; mkTok 44 (string_of_bytes [47; 47; 9; 116]%N) 10 2 true; mkTok 3 "}" 11 0 false; mkTok 40 "," 11 2 false; mkTok 42 "rootA" 12 0 false; mkTok 5 "@calculatedFrom(" 12 6 false; mkTok 31 """a\""b""" 12 22 false; mkTok 6 ")" 12 28 false; mkTok 43 (string_of_bytes [96; 108; 105; 110; 101; 49; 10; 108; 105; 110; 101; 50; 96]%N) 12 30 false; mkTok 40 "," 13 7 false; mkTok 38 "match" 13 9 false; mkTok 42 "f32a" 13 15 false; mkTok 17 "as" 13 21 false; mkTok 42 "msg_type" 13 24 false; mkTok 2 "{" 13 33 false; mkTok 31 """// no comment""" 13 35 false; mkTok 39 ":" 13 51 false; mkTok 42 "x_y_z" 13 52 false; mkTok 40 "," 13 58 false; mkTok 31 """packet""" 14 0 false; mkTok 44 "// c" 14 9 true; mkTok 39 ":" 15 0 false; mkTok 42 "calculatedFrom" 16 4 false; mkTok 40 "," 16 18 false; mkTok 44 "// a // b" 16 20 true; mkTok 31 """{,}""" 17 0 false; mkTok 39 ":" 17 6 false; mkTok 44 "//x" 17 8 true; mkTok 42 "Pad" 18 0 false; mkTok 40 "," 19 4 false; mkTok 30 "42" 19 6 false; mkTok 39 ":" 20 0 false; mkTok 42 "zchar" 21 4 false; mkTok 18 "[" 21 10 false; mkTok 31 (string_of_bytes [34; 97; 9; 98; 34]%N) 21 11 false; mkTok 40 "," 21 17 false; mkTok 31 (string_of_bytes [34; 97; 9; 98; 34]%N) 21 19 false; mkTok 40 "," 21 25 false; mkTok 31 """1""" 21 27 false; mkTok 40 "," 22 0 false; mkTok 31 (string_of_bytes [34; 92; 195; 169; 34]%N) 22 3 false; mkTok 44 "//" 23 0 true; mkTok 44 (string_of_bytes [47; 47; 9; 116]%N) 24 0 true; mkTok 40 "," 25 0 false; mkTok 31 (string_of_bytes [34; 92; 195; 169; 34]%N) 25 2 false; mkTok 44 "// @lengthOf(" 25 6 true; mkTok 13 "]" 26 0 false; mkTok 44 "// a // b" 27 0 true; mkTok 44 "// `tick` ""quote"" 'q'" 28 0 true; mkTok 39 ":" 29 0 false; mkTok 42 "zchar" 29 2 false; mkTok 40 "," 29 8 false; mkTok 30 "65535" 29 10 false; mkTok 39 ":" 29 15 false; mkTok 42 "lengthOf" 29 16 false; mkTok 3 "}" 29 25 false; mkTok 40 "," 29 28 false; mkTok 36 "repeat" 29 30 false; mkTok 24 "i8" 29 37 false; mkTok 42 "Z9_" 29 40 false; mkTok 43 (string_of_bytes [96; 116; 97; 98; 9; 104; 101; 114; 101; 96]%N) 29 44 false; mkTok 40 "," 29 55 false; mkTok 44 "// a // b" 29 56 true; mkTok 42 "uint8x" 30 0 false; mkTok 2 "{" 30 6 false; mkTok 42 "options1" 30 8 false; mkTok 2 "{" 30 18 false; mkTok 12 "char[" 31 0 false; mkTok 44 "// 50% %s" 31 6 true; mkTok 30 "10" 32 0 false; mkTok 13 "]" 32 3 false; mkTok 44 "// a // b" 33 4 true; mkTok 42 "packetx" 34 4 false; mkTok 7 "@lengthOf(" 34 12 false; mkTok 42 "body" 34 23 false; mkTok 6 ")" 35 4 false; mkTok 40 "," 35 6 false; mkTok 44 "//" 35 8 true; mkTok 42 "zchar" 36 0 false; mkTok 2 "{" 36 6 false; mkTok 36 "repeat" 36 8 false; mkTok 42 "u128" 36 15 false; mkTok 43 (string_of_bytes [96; 116; 97; 98; 9; 104; 101; 114; 101; 96]%N) 36 20 false; mkTok 40 "," 36 31 false; mkTok 26 "int32" 36 32 false; mkTok 42 "trueish" 36 38 false; mkTok 7 "@lengthOf(" 36 45 false; mkTok 42 "repeatCount" 36 56 false; mkTok 6 ")" 36 68 false; mkTok 40 "," 36 70 false; mkTok 36 "repeat" 36 73 false; mkTok 29 "f64" 36 80 false; mkTok 42 "calculatedFrom" 36 84 false; mkTok 40 "," 37 4 false; mkTok 26 "i32" 37 5 false; mkTok 42 "u" 37 9 false; mkTok 40 "," 38 0 false; mkTok 3 "}" 38 2 false; mkTok 40 "," 38 3 false; mkTok 36 "repeat" 39 0 false; mkTok 42 "matchKey" 40 0 false; mkTok 40 "," 40 9 false; mkTok 42 "falsey" 40 11 false; mkTok 42 "float" 40 19 false; mkTok 43 "`two words`" 40 25 false; mkTok 40 "," 40 37 false; mkTok 3 "}" 41 0 false; mkTok 40 "," 41 2 false; mkTok 36 "repeat" 41 4 false; mkTok 42 "Header" 41 11 false; mkTok 40 "," 41 18 false; mkTok 20 "u8" 41 19 false; mkTok 42 "rootA" 41 22 false; mkTok 7 "@lengthOf(" 41 28 false; mkTok 42 "x" 41 39 false; mkTok 6 ")" 41 40 false; mkTok 40 "," 41 42 false; mkTok 44 "// @lengthOf(" 41 44 true; mkTok 3 "}" 42 0 false; mkTok 40 "," 42 1 false; mkTok 3 "}" 42 3 false; mkTok 0 "<EOF>" 43 0 false] (mkPacket (mkPtok 35 "packet" 1 0 0) (Some (mkPtok 3 "}" 42 3 152)) [(DPacket (mkPacketDef (mkSpan (mkPtok 35 "packet" 1 0 0) (mkPtok 3 "}" 2 2 6)) None (mkPtok 35 "packet" 1 0 0) (mkPtok 42 "uint8x" 1 7 1) (mkPtok 2 "{" 1 14 2) [(mkFieldWithAttr (mkSpan (mkPtok 42 "T" 1 16 3) (mkPtok 40 "," 2 0 5)) [] (ObjectField (mkSpan (mkPtok 42 "T" 1 16 3) (mkPtok 40 "," 2 0 5)) None (mkPtok 42 "T" 1 16 3) (Some (mkPtok 42 "Foo" 1 18 4)) None (mkPtok 40 "," 2 0 5)))] (mkPtok 3 "}" 2 2 6))); (DPacket (mkPacketDef (mkSpan (mkPtok 34 "root" 2 4 7) (mkPtok 3 "}" 42 3 152)) (Some (mkPtok 34 "root" 2 4 7)) (mkPtok 35 "packet" 2 9 8) (mkPtok 42 "A" 2 16 9) (mkPtok 2 "{" 2 18 10) [(mkFieldWithAttr (mkSpan (mkPtok 36 "repeat" 3 0 11) (mkPtok 40 "," 5 11 15)) [] (ObjectField (mkSpan (mkPtok 36 "repeat" 3 0 11) (mkPtok 40 "," 5 11 15)) (Some (mkPtok 36 "repeat" 3 0 11)) (mkPtok 42 "As" 3 8 12) (Some (mkPtok 42 "falsey" 5 4 14)) None (mkPtok 40 "," 5 11 15))); (mkFieldWithAttr (mkSpan (mkPtok 5 "@calculatedFrom(" 5 12 16) (mkPtok 40 "," 11 2 35)) [(FACalculatedFrom (mkSpan (mkPtok 5 "@calculatedFrom(" 5 12 16) (mkPtok 6 ")" 6 0 18)) (mkCalculatedFrom (mkSpan (mkPtok 5 "@calculatedFrom(" 5 12 16) (mkPtok 6 ")" 6 0 18)) (mkPtok 5 "@calculatedFrom(" 5 12 16) (mkPtok 31 """a\""b""" 5 29 17) (mkPtok 6 ")" 6 0 18)))] (MatchField (mkSpan (mkPtok 38 "match" 6 3 19) (mkPtok 40 "," 11 2 35)) (mkMatchFieldDecl (mkSpan (mkPtok 38 "match" 6 3 19) (mkPtok 3 "}" 11 0 34)) (mkPtok 38 "match" 6 3 19) (mkPtok 42 "zchar" 6 9 20) (mkPtok 17 "as" 6 15 21) (mkPtok 42 "Foo" 8 4 23) (mkPtok 2 "{" 8 8 24) [(mkMatchPair (mkSpan (mkPtok 30 "0123456789" 8 9 25) (mkPtok 40 "," 9 6 28)) (MKDigits (mkPtok 30 "0123456789" 8 9 25)) (mkPtok 39 ":" 8 20 26) (mkPtok 42 "T" 9 4 27) (Some (mkPtok 40 "," 9 6 28))); (mkMatchPair (mkSpan (mkPtok 30 "00" 9 8 29) (mkPtok 40 "," 10 0 32)) (MKDigits (mkPtok 30 "00" 9 8 29)) (mkPtok 39 ":" 9 11 30) (mkPtok 42 "x" 9 13 31) (Some (mkPtok 40 "," 10 0 32)))] (mkPtok 3 "}" 11 0 34)) (mkPtok 40 "," 11 2 35))); (mkFieldWithAttr (mkSpan (mkPtok 42 "rootA" 12 0 36) (mkPtok 40 "," 13 7 41)) [] (CheckSumField (mkSpan (mkPtok 42 "rootA" 12 0 36) (mkPtok 40 "," 13 7 41)) (mkChecksumFieldDecl (mkSpan (mkPtok 42 "rootA" 12 0 36) (mkPtok 40 "," 13 7 41)) None (mkPtok 42 "rootA" 12 0 36) (mkCalculatedFrom (mkSpan (mkPtok 5 "@calculatedFrom(" 12 6 37) (mkPtok 6 ")" 12 28 39)) (mkPtok 5 "@calculatedFrom(" 12 6 37) (mkPtok 31 """a\""b""" 12 22 38) (mkPtok 6 ")" 12 28 39)) (Some (mkPtok 43 (string_of_bytes [96; 108; 105; 110; 101; 49; 10; 108; 105; 110; 101; 50; 96]%N) 12 30 40)) (mkPtok 40 "," 13 7 41)))); (mkFieldWithAttr (mkSpan (mkPtok 38 "match" 13 9 42) (mkPtok 40 "," 29 28 88)) [] (MatchField (mkSpan (mkPtok 38 "match" 13 9 42) (mkPtok 40 "," 29 28 88)) (mkMatchFieldDecl (mkSpan (mkPtok 38 "match" 13 9 42) (mkPtok 3 "}" 29 25 87)) (mkPtok 38 "match" 13 9 42) (mkPtok 42 "f32a" 13 15 43) (mkPtok 17 "as" 13 21 44) (mkPtok 42 "msg_type" 13 24 45) (mkPtok 2 "{" 13 33 46) [(mkMatchPair (mkSpan (mkPtok 31 """// no comment""" 13 35 47) (mkPtok 40 "," 13 58 50)) (MKString (mkPtok 31 """// no comment""" 13 35 47)) (mkPtok 39 ":" 13 51 48) (mkPtok 42 "x_y_z" 13 52 49) (Some (mkPtok 40 "," 13 58 50))); (mkMatchPair (mkSpan (mkPtok 31 """packet""" 14 0 51) (mkPtok 40 "," 16 18 55)) (MKString (mkPtok 31 """packet""" 14 0 51)) (mkPtok 39 ":" 15 0 53) (mkPtok 42 "calculatedFrom" 16 4 54) (Some (mkPtok 40 "," 16 18 55))); (mkMatchPair (mkSpan (mkPtok 31 """{,}""" 17 0 57) (mkPtok 40 "," 19 4 61)) (MKString (mkPtok 31 """{,}""" 17 0 57)) (mkPtok 39 ":" 17 6 58) (mkPtok 42 "Pad" 18 0 60) (Some (mkPtok 40 "," 19 4 61))); (mkMatchPair (mkSpan (mkPtok 30 "42" 19 6 62) (mkPtok 42 "zchar" 21 4 64)) (MKDigits (mkPtok 30 "42" 19 6 62)) (mkPtok 39 ":" 20 0 63) (mkPtok 42 "zchar" 21 4 64) None); (mkMatchPair (mkSpan (mkPtok 18 "[" 21 10 65) (mkPtok 40 "," 29 8 83)) (MKList (mkKeyList (mkSpan (mkPtok 18 "[" 21 10 65) (mkPtok 13 "]" 26 0 78)) (mkPtok 18 "[" 21 10 65) (mkPtok 31 (string_of_bytes [34; 97; 9; 98; 34]%N) 21 11 66) [((mkPtok 40 "," 21 17 67), (mkPtok 31 (string_of_bytes [34; 97; 9; 98; 34]%N) 21 19 68)); ((mkPtok 40 "," 21 25 69), (mkPtok 31 """1""" 21 27 70)); ((mkPtok 40 "," 22 0 71), (mkPtok 31 (string_of_bytes [34; 92; 195; 169; 34]%N) 22 3 72)); ((mkPtok 40 "," 25 0 75), (mkPtok 31 (string_of_bytes [34; 92; 195; 169; 34]%N) 25 2 76))] (mkPtok 13 "]" 26 0 78))) (mkPtok 39 ":" 29 0 81) (mkPtok 42 "zchar" 29 2 82) (Some (mkPtok 40 "," 29 8 83))); (mkMatchPair (mkSpan (mkPtok 30 "65535" 29 10 84) (mkPtok 42 "lengthOf" 29 16 86)) (MKDigits (mkPtok 30 "65535" 29 10 84)) (mkPtok 39 ":" 29 15 85) (mkPtok 42 "lengthOf" 29 16 86) None)] (mkPtok 3 "}" 29 25 87)) (mkPtok 40 "," 29 28 88))); (mkFieldWithAttr (mkSpan (mkPtok 36 "repeat" 29 30 89) (mkPtok 40 "," 29 55 93)) [] (MetaField (mkSpan (mkPtok 36 "repeat" 29 30 89) (mkPtok 40 "," 29 55 93)) (Some (mkPtok 36 "repeat" 29 30 89)) (mkMetaDecl (mkSpan (mkPtok 24 "i8" 29 37 90) (mkPtok 40 "," 29 55 93)) (TyBasic (mkSpan (mkPtok 24 "i8" 29 37 90) (mkPtok 24 "i8" 29 37 90)) (mkBasicType (mkSpan (mkPtok 24 "i8" 29 37 90) (mkPtok 24 "i8" 29 37 90)) (mkPtok 24 "i8" 29 37 90))) (mkPtok 42 "Z9_" 29 40 91) (Some (mkPtok 43 (string_of_bytes [96; 116; 97; 98; 9; 104; 101; 114; 101; 96]%N) 29 44 92)) (mkPtok 40 "," 29 55 93)))); (mkFieldWithAttr (mkSpan (mkPtok 42 "uint8x" 30 0 95) (mkPtok 40 "," 42 1 151)) [] (InerObjectField (mkSpan (mkPtok 42 "uint8x" 30 0 95) (mkPtok 40 "," 42 1 151)) None (InerObjectDecl (mkSpan (mkPtok 42 "uint8x" 30 0 95) (mkPtok 3 "}" 42 0 150)) (mkPtok 42 "uint8x" 30 0 95) (mkPtok 2 "{" 30 6 96) [(InerObjectField (mkSpan (mkPtok 42 "options1" 30 8 97) (mkPtok 40 "," 41 2 139)) None (InerObjectDecl (mkSpan (mkPtok 42 "options1" 30 8 97) (mkPtok 3 "}" 41 0 138)) (mkPtok 42 "options1" 30 8 97) (mkPtok 2 "{" 30 18 98) [(LengthField (mkSpan (mkPtok 12 "char[" 31 0 99) (mkPtok 40 "," 35 6 108)) (mkLengthFieldDecl (mkSpan (mkPtok 12 "char[" 31 0 99) (mkPtok 40 "," 35 6 108)) (Some (TyFixed (mkSpan (mkPtok 12 "char[" 31 0 99) (mkPtok 13 "]" 32 3 102)) (mkFixedString (mkSpan (mkPtok 12 "char[" 31 0 99) (mkPtok 13 "]" 32 3 102)) (mkPtok 12 "char[" 31 0 99) (mkPtok 30 "10" 32 0 101) (mkPtok 13 "]" 32 3 102)))) (mkPtok 42 "packetx" 34 4 104) (mkLengthOf (mkSpan (mkPtok 7 "@lengthOf(" 34 12 105) (mkPtok 6 ")" 35 4 107)) (mkPtok 7 "@lengthOf(" 34 12 105) (mkPtok 42 "body" 34 23 106) (mkPtok 6 ")" 35 4 107)) None (mkPtok 40 "," 35 6 108))); (InerObjectField (mkSpan (mkPtok 42 "zchar" 36 0 110) (mkPtok 40 "," 38 3 130)) None (InerObjectDecl (mkSpan (mkPtok 42 "zchar" 36 0 110) (mkPtok 3 "}" 38 2 129)) (mkPtok 42 "zchar" 36 0 110) (mkPtok 2 "{" 36 6 111) [(ObjectField (mkSpan (mkPtok 36 "repeat" 36 8 112) (mkPtok 40 "," 36 31 115)) (Some (mkPtok 36 "repeat" 36 8 112)) (mkPtok 42 "u128" 36 15 113) None (Some (mkPtok 43 (string_of_bytes [96; 116; 97; 98; 9; 104; 101; 114; 101; 96]%N) 36 20 114)) (mkPtok 40 "," 36 31 115)); (LengthField (mkSpan (mkPtok 26 "int32" 36 32 116) (mkPtok 40 "," 36 70 121)) (mkLengthFieldDecl (mkSpan (mkPtok 26 "int32" 36 32 116) (mkPtok 40 "," 36 70 121)) (Some (TyBasic (mkSpan (mkPtok 26 "int32" 36 32 116) (mkPtok 26 "int32" 36 32 116)) (mkBasicType (mkSpan (mkPtok 26 "int32" 36 32 116) (mkPtok 26 "int32" 36 32 116)) (mkPtok 26 "int32" 36 32 116)))) (mkPtok 42 "trueish" 36 38 117) (mkLengthOf (mkSpan (mkPtok 7 "@lengthOf(" 36 45 118) (mkPtok 6 ")" 36 68 120)) (mkPtok 7 "@lengthOf(" 36 45 118) (mkPtok 42 "repeatCount" 36 56 119) (mkPtok 6 ")" 36 68 120)) None (mkPtok 40 "," 36 70 121))); (MetaField (mkSpan (mkPtok 36 "repeat" 36 73 122) (mkPtok 40 "," 37 4 125)) (Some (mkPtok 36 "repeat" 36 73 122)) (mkMetaDecl (mkSpan (mkPtok 29 "f64" 36 80 123) (mkPtok 40 "," 37 4 125)) (TyBasic (mkSpan (mkPtok 29 "f64" 36 80 123) (mkPtok 29 "f64" 36 80 123)) (mkBasicType (mkSpan (mkPtok 29 "f64" 36 80 123) (mkPtok 29 "f64" 36 80 123)) (mkPtok 29 "f64" 36 80 123))) (mkPtok 42 "calculatedFrom" 36 84 124) None (mkPtok 40 "," 37 4 125))); (MetaField (mkSpan (mkPtok 26 "i32" 37 5 126) (mkPtok 40 "," 38 0 128)) None (mkMetaDecl (mkSpan (mkPtok 26 "i32" 37 5 126) (mkPtok 40 "," 38 0 128)) (TyBasic (mkSpan (mkPtok 26 "i32" 37 5 126) (mkPtok 26 "i32" 37 5 126)) (mkBasicType (mkSpan (mkPtok 26 "i32" 37 5 126) (mkPtok 26 "i32" 37 5 126)) (mkPtok 26 "i32" 37 5 126))) (mkPtok 42 "u" 37 9 127) None (mkPtok 40 "," 38 0 128)))] (mkPtok 3 "}" 38 2 129)) (mkPtok 40 "," 38 3 130)); (ObjectField (mkSpan (mkPtok 36 "repeat" 39 0 131) (mkPtok 40 "," 40 9 133)) (Some (mkPtok 36 "repeat" 39 0 131)) (mkPtok 42 "matchKey" 40 0 132) None None (mkPtok 40 "," 40 9 133)); (ObjectField (mkSpan (mkPtok 42 "falsey" 40 11 134) (mkPtok 40 "," 40 37 137)) None (mkPtok 42 "falsey" 40 11 134) (Some (mkPtok 42 "float" 40 19 135)) (Some (mkPtok 43 "`two words`" 40 25 136)) (mkPtok 40 "," 40 37 137))] (mkPtok 3 "}" 41 0 138)) (mkPtok 40 "," 41 2 139)); (ObjectField (mkSpan (mkPtok 36 "repeat" 41 4 140) (mkPtok 40 "," 41 18 142)) (Some (mkPtok 36 "repeat" 41 4 140)) (mkPtok 42 "Header" 41 11 141) None None (mkPtok 40 "," 41 18 142)); (LengthField (mkSpan (mkPtok 20 "u8" 41 19 143) (mkPtok 40 "," 41 42 148)) (mkLengthFieldDecl (mkSpan (mkPtok 20 "u8" 41 19 143) (mkPtok 40 "," 41 42 148)) (Some (TyBasic (mkSpan (mkPtok 20 "u8" 41 19 143) (mkPtok 20 "u8" 41 19 143)) (mkBasicType (mkSpan (mkPtok 20 "u8" 41 19 143) (mkPtok 20 "u8" 41 19 143)) (mkPtok 20 "u8" 41 19 143)))) (mkPtok 42 "rootA" 41 22 144) (mkLengthOf (mkSpan (mkPtok 7 "@lengthOf(" 41 28 145) (mkPtok 6 ")" 41 40 147)) (mkPtok 7 "@lengthOf(" 41 28 145) (mkPtok 42 "x" 41 39 146) (mkPtok 6 ")" 41 40 147)) None (mkPtok 40 "," 41 42 148)))] (mkPtok 3 "}" 42 0 150)) (mkPtok 40 "," 42 1 151)))] (mkPtok 3 "}" 42 3 152)))])).
Eval vm_compute in ("<<<M1564>>>" ++ check (runes_of_ascii "packet matchKey  {rootA{ crc // 50% %s
,
match//
o as
asx {""\" ++ [233]%N ++ runes_of_ascii """// " ++ [128512]%N ++ runes_of_ascii " emoji
:len
,
    // 50% %s
    ""CRC32"" :
int // packet A { u8 x, }
,
1 : calculatedFrom
, [ """"
] : uint8x } ,
repeat float32 // @lengthOf(
lengthOf ,
// 50% %s
// a // b
} ,
    @tag( 65535 )//
@tag(
3
    // @lengthOf(
    ) @leftPad
( '0'
)
    char[]	T `two words`
    //x
    , @calculatedFrom(
""\n"" ) // packet A { u8 x, }
BodyLength
, }
")).
Eval vm_compute in ("<<<M1596>>>" ++ check (runes_of_ascii "//x
options
    { lengthOf
    = ""1""  ;
}
")).
Eval vm_compute in ("<<<M1628>>>" ++ check (runes_of_ascii "
packet body {zchar[ 65535
    ]Z9_ `` , } root
//	t
// c
packet
    charz
    { @calculatedFrom(
""CRC32""
) match
BodyLength
as string_
{  42 : calculatedFrom
, }, @leftPad  ( '\x00' )
repeat u ,
    string A ,repeat
    zchar[ 00// c
]
a1 , match packetx as
    uint8x
{0123456789:stringy }
,
match rootA as
falsey {// packet A { u8 x, }
""\n"" : Header } , } packet len{ }
packet	Foo
    {
@calculatedFrom( ""it's"") crc
/// triple
// a // b
{ tag Z9_`a\`
// @lengthOf(
// trailing space 
,
}  , }")).
Eval vm_compute in ("<<<M1660>>>" ++ check (runes_of_ascii "// @lengthOf(
MetaData
a1{
string zchar , } options {int
= ""// no comment"" ;f32a =	false body
=// " ++ [128512]%N ++ runes_of_ascii " emoji
false ; asx= 00;
}")).
Eval vm_compute in ("<<<M1692>>>" ++ check (runes_of_ascii "MetaData crc
{i8i8 i8i8 `" ++ [233]%N ++ runes_of_ascii "`
    ,
    u8 string_
, uint8x MetaDataX ,	zchar[ 7 ] _x`` , zchar lengthOf// " ++ [27880; 37322]%N ++ runes_of_ascii "
,	int8 Pad
``
//x
// @lengthOf(
, } packet A {
i16 i8i8
// `tick` ""quote"" 'q'
//	t
, @calculatedFrom(""CRC32"")
@lengthOf( i8i8) int16 chars @calculatedFrom(""" ++ [233]%N ++ runes_of_ascii "t" ++ [233]%N ++ runes_of_ascii """  )	,
roots , @rightPad( '0' )@tag( 0
)@leftPad (	' ' ) i64_ `line1
line2` // " ++ [128512]%N ++ runes_of_ascii " emoji
,}

")).
Eval vm_compute in ("<<<M1724>>>" ++ check (runes_of_ascii "
packet asx{@leftPad(// 50% %s
'\x00'
)
@tag(
3) calculatedFrom int ,
    } packet o { uint64 MetaDataX
// c
// 50% %s
, }")).
Eval vm_compute in ("<<<M1756>>>" ++ check (runes_of_ascii "MetaData i8i8	{
    a1 Header
    , f32 tag `" ++ [233]%N ++ runes_of_ascii "`
    , a1
uint8x, packetx pack ,
}
packet options1  {	@calculatedFrom( ""packet"" )	repeat char
asx	`" ++ [233]%N ++ runes_of_ascii "`
    , // packet A { u8 x, }
char[
4294967296
    ] falsey,}
")).
Eval vm_compute in ("<<<T1756>>>" ++ terms [mkTok 37 "MetaData" 1 0 false; mkTok 42 "i8i8" 1 9 false; mkTok 2 "{" 1 14 false; mkTok 42 "a1" 2 4 false; mkTok 42 "Header" 2 7 false; mkTok 40 "," 3 4 false; mkTok 28 "f32" 3 6 false; mkTok 42 "tag" 3 10 false; mkTok 43 (string_of_bytes [96; 195; 169; 96]%N) 3 14 false; mkTok 40 "," 4 4 false; mkTok 42 "a1" 4 6 false; mkTok 42 "uint8x" 5 0 false; mkTok 40 "," 5 6 false; mkTok 42 "packetx" 5 8 false; mkTok 42 "pack" 5 16 false; mkTok 40 "," 5 21 false; mkTok 3 "}" 6 0 false; mkTok 35 "packet" 7 0 false; mkTok 42 "options1" 7 7 false; mkTok 2 "{" 7 17 false; mkTok 5 "@calculatedFrom(" 7 19 false; mkTok 31 """packet""" 7 36 false; mkTok 6 ")" 7 45 false; mkTok 36 "repeat" 7 47 false; mkTok 19 "char" 7 54 false; mkTok 42 "asx" 8 0 false; mkTok 43 (string_of_bytes [96; 195; 169; 96]%N) 8 4 false; mkTok 40 "," 9 4 false; mkTok 44 "// packet A { u8 x, }" 9 6 true; mkTok 12 "char[" 10 0 false; mkTok 30 "4294967296" 11 0 false; mkTok 13 "]" 12 4 false; mkTok 42 "falsey" 12 6 false; mkTok 40 "," 12 12 false; mkTok 3 "}" 12 13 false; mkTok 0 "<EOF>" 13 0 false] (mkPacket (mkPtok 37 "MetaData" 1 0 0) (Some (mkPtok 3 "}" 12 13 34)) [(DMeta (mkMetaDef (mkSpan (mkPtok 37 "MetaData" 1 0 0) (mkPtok 3 "}" 6 0 16)) (mkPtok 37 "MetaData" 1 0 0) (mkPtok 42 "i8i8" 1 9 1) (mkPtok 2 "{" 1 14 2) [(MIRef (mkRefMetaDecl (mkSpan (mkPtok 42 "a1" 2 4 3) (mkPtok 40 "," 3 4 5)) (mkPtok 42 "a1" 2 4 3) (mkPtok 42 "Header" 2 7 4) None (mkPtok 40 "," 3 4 5))); (MIDecl (mkMetaDecl (mkSpan (mkPtok 28 "f32" 3 6 6) (mkPtok 40 "," 4 4 9)) (TyBasic (mkSpan (mkPtok 28 "f32" 3 6 6) (mkPtok 28 "f32" 3 6 6)) (mkBasicType (mkSpan (mkPtok 28 "f32" 3 6 6) (mkPtok 28 "f32" 3 6 6)) (mkPtok 28 "f32" 3 6 6))) (mkPtok 42 "tag" 3 10 7) (Some (mkPtok 43 (string_of_bytes [96; 195; 169; 96]%N) 3 14 8)) (mkPtok 40 "," 4 4 9))); (MIRef (mkRefMetaDecl (mkSpan (mkPtok 42 "a1" 4 6 10) (mkPtok 40 "," 5 6 12)) (mkPtok 42 "a1" 4 6 10) (mkPtok 42 "uint8x" 5 0 11) None (mkPtok 40 "," 5 6 12))); (MIRef (mkRefMetaDecl (mkSpan (mkPtok 42 "packetx" 5 8 13) (mkPtok 40 "," 5 21 15)) (mkPtok 42 "packetx" 5 8 13) (mkPtok 42 "pack" 5 16 14) None (mkPtok 40 "," 5 21 15)))] (mkPtok 3 "}" 6 0 16))); (DPacket (mkPacketDef (mkSpan (mkPtok 35 "packet" 7 0 17) (mkPtok 3 "}" 12 13 34)) None (mkPtok 35 "packet" 7 0 17) (mkPtok 42 "options1" 7 7 18) (mkPtok 2 "{" 7 17 19) [(mkFieldWithAttr (mkSpan (mkPtok 5 "@calculatedFrom(" 7 19 20) (mkPtok 40 "," 9 4 27)) [(FACalculatedFrom (mkSpan (mkPtok 5 "@calculatedFrom(" 7 19 20) (mkPtok 6 ")" 7 45 22)) (mkCalculatedFrom (mkSpan (mkPtok 5 "@calculatedFrom(" 7 19 20) (mkPtok 6 ")" 7 45 22)) (mkPtok 5 "@calculatedFrom(" 7 19 20) (mkPtok 31 """packet""" 7 36 21) (mkPtok 6 ")" 7 45 22)))] (MetaField (mkSpan (mkPtok 36 "repeat" 7 47 23) (mkPtok 40 "," 9 4 27)) (Some (mkPtok 36 "repeat" 7 47 23)) (mkMetaDecl (mkSpan (mkPtok 19 "char" 7 54 24) (mkPtok 40 "," 9 4 27)) (TyBasic (mkSpan (mkPtok 19 "char" 7 54 24) (mkPtok 19 "char" 7 54 24)) (mkBasicType (mkSpan (mkPtok 19 "char" 7 54 24) (mkPtok 19 "char" 7 54 24)) (mkPtok 19 "char" 7 54 24))) (mkPtok 42 "asx" 8 0 25) (Some (mkPtok 43 (string_of_bytes [96; 195; 169; 96]%N) 8 4 26)) (mkPtok 40 "," 9 4 27)))); (mkFieldWithAttr (mkSpan (mkPtok 12 "char[" 10 0 29) (mkPtok 40 "," 12 12 33)) [] (MetaField (mkSpan (mkPtok 12 "char[" 10 0 29) (mkPtok 40 "," 12 12 33)) None (mkMetaDecl (mkSpan (mkPtok 12 "char[" 10 0 29) (mkPtok 40 "," 12 12 33)) (TyFixed (mkSpan (mkPtok 12 "char[" 10 0 29) (mkPtok 13 "]" 12 4 31)) (mkFixedString (mkSpan (mkPtok 12 "char[" 10 0 29) (mkPtok 13 "]" 12 4 31)) (mkPtok 12 "char[" 10 0 29) (mkPtok 30 "4294967296" 11 0 30) (mkPtok 13 "]" 12 4 31))) (mkPtok 42 "falsey" 12 6 32) None (mkPtok 40 "," 12 12 33))))] (mkPtok 3 "}" 12 13 34)))])).
Eval vm_compute in ("<<<M1788>>>" ++ check (runes_of_ascii "root  packet
    u128 {
    @tag( 65535 ) // trailing space 
repeat repeatCount ,
    @tag(  0123456789 ) repeat Pad
{ u8x T, _x {match
    // trailing space 
    crc as u { 00 :  stringy 42:
    // 50% %s
    metadata,
7	: Z9_
, } ,repeat float64
metadata `line1
line2`  , roots
    @calculatedFrom(	""a\\"" )
`{ , }` ,  }
,uint64
lengthOf, chars `{ , }`,
}	, @leftPad (
'\x00') u16 leftPad ,i32 // trailing space 
x
, }
    options { chars
    // c
    =string  ;
}")).
Eval vm_compute in ("<<<M1820>>>" ++ check (runes_of_ascii "options
    { }
")).
Eval vm_compute in ("<<<M1852>>>" ++ check (runes_of_ascii "packet msg_type
{ match
charz as
Z9_  {[
    007, """" ,0123456789, ""`tick`"" , ""CRC32"" , 00 ,""// no comment""]
// trailing space 
// trailing space 
: asx
//	t
//	t
},
@calculatedFrom( """ ++ [233]%N ++ runes_of_ascii "t" ++ [233]%N ++ runes_of_ascii """
    )
    repeat i8i8 pack , match u128 as charz {1 : stringy ,
    ""it's"" :calculatedFrom """ ++ [28040; 24687]%N ++ runes_of_ascii """ : string_ , ""it's""
: // 50% %s
u8x ""CRC32"": _x
} , zchar @lengthOf( repeatCount ), string msg_type
    @lengthOf(
    //	t
    i64_) ,	i16 BodyLength , @rightPad ( ) repeat int16
matchKey `crlf
line` ,
    stringy
@lengthOf(options1)`a\` , @leftPad ( )@calculatedFrom(""CRC32"" // 50% %s
)  @rightPad ( )
    // 50% %s
    repeat
// " ++ [128512]%N ++ runes_of_ascii " emoji
// 50% %s
char[] _x , } // a // b")).
Eval vm_compute in ("<<<M1884>>>" ++ check (runes_of_ascii "packet T{ // " ++ [128512]%N ++ runes_of_ascii " emoji
}")).
Eval vm_compute in ("<<<M1916>>>" ++ check (runes_of_ascii "// 50% %s
packet matchKey
    //
    { repeat
    Logon f32a
`u8 x,`, } packet tag{ @rightPad ('0')
len { zchar[7 ] o
    `" ++ [28040; 24687; 31867; 22411]%N ++ runes_of_ascii "`
,}
,} options	{ } options {body
    = // " ++ [27880; 37322]%N ++ runes_of_ascii "
""" ++ [128512]%N ++ runes_of_ascii """ leftPad =
    """ ++ [128512]%N ++ runes_of_ascii """ chars =int64 ; u128 = string // packet A { u8 x, }
; _x	= '\x00' ; }
")).
Eval vm_compute in ("<<<M1948>>>" ++ check (runes_of_ascii "
packet uint8x{ packetx @lengthOf(
falsey )
    , @rightPad (' '
) @leftPad
    ( ' ' ) @leftPad  ('\x00'
) MetaDataX  @calculatedFrom( ""CRC32"" )
, stringy
    /// triple
    matchKey
    // packet A { u8 x, }
    , match float as x { 00 :
matchKey[ 3// packet A { u8 x, }
]	:body  , [  """ ++ [28040; 24687]%N ++ runes_of_ascii """ , 10]: float ,""\" ++ [233]%N ++ runes_of_ascii """ : tag, ""// no comment""
:  Header	,} ,@tag( 10 ) f64 o , A zchar
    `line1
line2` , }")).
Eval vm_compute in ("<<<M1980>>>" ++ check (runes_of_ascii "MetaData
    // packet A { u8 x, }
    msg_type { // trailing space 
string_ len `tab	here`  ,roots calculatedFrom ,
i32 Pad ,char[
255 ]
u `u8 x,`	, // " ++ [27880; 37322]%N ++ runes_of_ascii "
}options
{}")).
Eval vm_compute in ("<<<T1980>>>" ++ terms [mkTok 37 "MetaData" 1 0 false; mkTok 44 "// packet A { u8 x, }" 2 4 true; mkTok 42 "msg_type" 3 4 false; mkTok 2 "{" 3 13 false; mkTok 44 "// trailing space " 3 15 true; mkTok 42 "string_" 4 0 false; mkTok 42 "len" 4 8 false; mkTok 43 (string_of_bytes [96; 116; 97; 98; 9; 104; 101; 114; 101; 96]%N) 4 12 false; mkTok 40 "," 4 24 false; mkTok 42 "roots" 4 25 false; mkTok 42 "calculatedFrom" 4 31 false; mkTok 40 "," 4 46 false; mkTok 26 "i32" 5 0 false; mkTok 42 "Pad" 5 4 false; mkTok 40 "," 5 8 false; mkTok 12 "char[" 5 9 false; mkTok 30 "255" 6 0 false; mkTok 13 "]" 6 4 false; mkTok 42 "u" 7 0 false; mkTok 43 "`u8 x,`" 7 2 false; mkTok 40 "," 7 10 false; mkTok 44 (string_of_bytes [47; 47; 32; 230; 179; 168; 233; 135; 138]%N) 7 12 true; mkTok 3 "}" 8 0 false; mkTok 1 "options" 8 1 false; mkTok 2 "{" 9 0 false; mkTok 3 "}" 9 1 false; mkTok 0 "<EOF>" 9 2 false] (mkPacket (mkPtok 37 "MetaData" 1 0 0) (Some (mkPtok 3 "}" 9 1 25)) [(DMeta (mkMetaDef (mkSpan (mkPtok 37 "MetaData" 1 0 0) (mkPtok 3 "}" 8 0 22)) (mkPtok 37 "MetaData" 1 0 0) (mkPtok 42 "msg_type" 3 4 2) (mkPtok 2 "{" 3 13 3) [(MIRef (mkRefMetaDecl (mkSpan (mkPtok 42 "string_" 4 0 5) (mkPtok 40 "," 4 24 8)) (mkPtok 42 "string_" 4 0 5) (mkPtok 42 "len" 4 8 6) (Some (mkPtok 43 (string_of_bytes [96; 116; 97; 98; 9; 104; 101; 114; 101; 96]%N) 4 12 7)) (mkPtok 40 "," 4 24 8))); (MIRef (mkRefMetaDecl (mkSpan (mkPtok 42 "roots" 4 25 9) (mkPtok 40 "," 4 46 11)) (mkPtok 42 "roots" 4 25 9) (mkPtok 42 "calculatedFrom" 4 31 10) None (mkPtok 40 "," 4 46 11))); (MIDecl (mkMetaDecl (mkSpan (mkPtok 26 "i32" 5 0 12) (mkPtok 40 "," 5 8 14)) (TyBasic (mkSpan (mkPtok 26 "i32" 5 0 12) (mkPtok 26 "i32" 5 0 12)) (mkBasicType (mkSpan (mkPtok 26 "i32" 5 0 12) (mkPtok 26 "i32" 5 0 12)) (mkPtok 26 "i32" 5 0 12))) (mkPtok 42 "Pad" 5 4 13) None (mkPtok 40 "," 5 8 14))); (MIDecl (mkMetaDecl (mkSpan (mkPtok 12 "char[" 5 9 15) (mkPtok 40 "," 7 10 20)) (TyFixed (mkSpan (mkPtok 12 "char[" 5 9 15) (mkPtok 13 "]" 6 4 17)) (mkFixedString (mkSpan (mkPtok 12 "char[" 5 9 15) (mkPtok 13 "]" 6 4 17)) (mkPtok 12 "char[" 5 9 15) (mkPtok 30 "255" 6 0 16) (mkPtok 13 "]" 6 4 17))) (mkPtok 42 "u" 7 0 18) (Some (mkPtok 43 "`u8 x,`" 7 2 19)) (mkPtok 40 "," 7 10 20)))] (mkPtok 3 "}" 8 0 22))); (DOption (mkOptionDef (mkSpan (mkPtok 1 "options" 8 1 23) (mkPtok 3 "}" 9 1 25)) (mkPtok 1 "options" 8 1 23) (mkPtok 2 "{" 9 0 24) [] (mkPtok 3 "}" 9 1 25)))])).
Eval vm_compute in ("<<<M2012>>>" ++ check (runes_of_ascii "int64 repeatCount { float64 packetx,
} root packet  metadata {
char _x @lengthOf( trueish ), @leftPad
( ' '// " ++ [27880; 37322]%N ++ runes_of_ascii "
)/// triple
char[] len`doc` , // packet A { u8 x, }
repeatCount , }
")).
Eval vm_compute in ("<<<M2044>>>" ++ check (runes_of_ascii "MetaData repeatCount { float64 packetx,
}  packet  metadata {
char _x @lengthOf( trueish ), @leftPad
( ' '// " ++ [27880; 37322]%N ++ runes_of_ascii "
)/// triple
char[] len`doc` , // packet A { u8 x, }
repeatCount , }
")).
Eval vm_compute in ("<<<M2076>>>" ++ check (runes_of_ascii "MetaData repeatCount { float64 packetx,
} root packet  metadata {
char _x trueish @lengthOf( ), @leftPad
( ' '// " ++ [27880; 37322]%N ++ runes_of_ascii "
)/// triple
char[] len`doc` , // packet A { u8 x, }
repeatCount , }
")).
Eval vm_compute in ("<<<M2108>>>" ++ check (runes_of_ascii "MetaData repeatCount { float64 packetx,
} root packet  metadata {
char _x @lengthOf( trueish ), @leftPad
(")).
Eval vm_compute in ("<<<M2140>>>" ++ check (runes_of_ascii "MetaData repeatCount { float64 packetx,
} root packet  metadata {
char _x @lengthOf( trueish ), @leftPad
( ' '// " ++ [27880; 37322]%N ++ runes_of_ascii "
)/// triple
char[] len`doc` , // packet A { u8 x, }
repeatCount , , }
")).
Eval vm_compute in ("<<<M2172>>>" ++ check (runes_of_ascii "{options
leftPad
    =65535
;
a1 = true ; packetx=  '\x00' ; packetx
=  """ ++ [28040; 24687]%N ++ runes_of_ascii """MetaDataX= // " ++ [27880; 37322]%N ++ runes_of_ascii "
false }root // c
packet // packet A { u8 x, }
Pad { repeat
u8 Header
// packet A { u8 x, }
//	t
`{ , }`
// a // b
//x
, }
")).
Eval vm_compute in ("<<<M2204>>>" ++ check (runes_of_ascii "options{
leftPad
    =65535
;")).
Eval vm_compute in ("<<<M2236>>>" ++ check (runes_of_ascii "options{
leftPad
    =65535
;
a1 = true ; packetx=  '\x00' ; ; packetx
=  """ ++ [28040; 24687]%N ++ runes_of_ascii """MetaDataX= // " ++ [27880; 37322]%N ++ runes_of_ascii "
false }root // c
packet // packet A { u8 x, }
Pad { repeat
u8 Header
// packet A { u8 x, }
//	t
`{ , }`
// a // b
//x
, }
")).
Eval vm_compute in ("<<<M2268>>>" ++ check (runes_of_ascii "options{
leftPad
    =65535
;
a1 = true ; packetx=  '\x00' ; packetx
=  """ ++ [28040; 24687]%N ++ runes_of_ascii """MetaDataX= // " ++ [27880; 37322]%N ++ runes_of_ascii "
repeat }root // c
packet // packet A { u8 x, }
Pad { repeat
u8 Header
// packet A { u8 x, }
//	t
`{ , }`
// a // b
//x
, }
")).
Eval vm_compute in ("<<<M2300>>>" ++ check (runes_of_ascii "options{
leftPad
    =65535
;
a1 = true ; packetx=  '\x00' ; packetx
=  """ ++ [28040; 24687]%N ++ runes_of_ascii """MetaDataX= // " ++ [27880; 37322]%N ++ runes_of_ascii "
false }root // c
packet // packet A { u8 x, }
Pad { repeat
 Header
// packet A { u8 x, }
//	t
`{ , }`
// a // b
//x
, }
")).
Eval vm_compute in ("<<<M2332>>>" ++ check (runes_of_ascii "options{
leftPad
    =65535
;
a1 = true ; packetx=  '\x00' ; packetx
=  """ ++ [28040; 24687]%N ++ runes_of_ascii """MetaDataX= // " ++ [27880; 37322]%N ++ runes_of_ascii "
false }root // c
packet // packet A { '1'u8 x, }
Pad { repeat
u8 Header
// packet A { u8 x, }
//	t
`{ , }`
// a // b
//x
, }
")).
Eval vm_compute in ("<<<T2332>>>" ++ terms [mkTok 1 "options" 1 0 false; mkTok 2 "{" 1 7 false; mkTok 42 "leftPad" 2 0 false; mkTok 4 "=" 3 4 false; mkTok 30 "65535" 3 5 false; mkTok 41 ";" 4 0 false; mkTok 42 "a1" 5 0 false; mkTok 4 "=" 5 3 false; mkTok 10 "true" 5 5 false; mkTok 41 ";" 5 10 false; mkTok 42 "packetx" 5 12 false; mkTok 4 "=" 5 19 false; mkTok 33 "'\x00'" 5 22 false; mkTok 41 ";" 5 29 false; mkTok 42 "packetx" 5 31 false; mkTok 4 "=" 6 0 false; mkTok 31 (string_of_bytes [34; 230; 182; 136; 230; 129; 175; 34]%N) 6 3 false; mkTok 42 "MetaDataX" 6 7 false; mkTok 4 "=" 6 16 false; mkTok 44 (string_of_bytes [47; 47; 32; 230; 179; 168; 233; 135; 138]%N) 6 18 true; mkTok 11 "false" 7 0 false; mkTok 3 "}" 7 6 false; mkTok 34 "root" 7 7 false; mkTok 44 "// c" 7 12 true; mkTok 35 "packet" 8 0 false; mkTok 44 "// packet A { '1'u8 x, }" 8 7 true; mkTok 42 "Pad" 9 0 false; mkTok 2 "{" 9 4 false; mkTok 36 "repeat" 9 6 false; mkTok 20 "u8" 10 0 false; mkTok 42 "Header" 10 3 false; mkTok 44 "// packet A { u8 x, }" 11 0 true; mkTok 44 (string_of_bytes [47; 47; 9; 116]%N) 12 0 true; mkTok 43 "`{ , }`" 13 0 false; mkTok 44 "// a // b" 14 0 true; mkTok 44 "//x" 15 0 true; mkTok 40 "," 16 0 false; mkTok 3 "}" 16 2 false; mkTok 0 "<EOF>" 17 0 false] (mkPacket (mkPtok 1 "options" 1 0 0) (Some (mkPtok 3 "}" 16 2 37)) [(DOption (mkOptionDef (mkSpan (mkPtok 1 "options" 1 0 0) (mkPtok 3 "}" 7 6 21)) (mkPtok 1 "options" 1 0 0) (mkPtok 2 "{" 1 7 1) [(mkOptionDecl (mkSpan (mkPtok 42 "leftPad" 2 0 2) (mkPtok 41 ";" 4 0 5)) (mkPtok 42 "leftPad" 2 0 2) (mkPtok 4 "=" 3 4 3) (VDigits (mkSpan (mkPtok 30 "65535" 3 5 4) (mkPtok 30 "65535" 3 5 4)) (mkPtok 30 "65535" 3 5 4)) (Some (mkPtok 41 ";" 4 0 5))); (mkOptionDecl (mkSpan (mkPtok 42 "a1" 5 0 6) (mkPtok 41 ";" 5 10 9)) (mkPtok 42 "a1" 5 0 6) (mkPtok 4 "=" 5 3 7) (VTrue (mkSpan (mkPtok 10 "true" 5 5 8) (mkPtok 10 "true" 5 5 8)) (mkPtok 10 "true" 5 5 8)) (Some (mkPtok 41 ";" 5 10 9))); (mkOptionDecl (mkSpan (mkPtok 42 "packetx" 5 12 10) (mkPtok 41 ";" 5 29 13)) (mkPtok 42 "packetx" 5 12 10) (mkPtok 4 "=" 5 19 11) (VPaddingChar (mkSpan (mkPtok 33 "'\x00'" 5 22 12) (mkPtok 33 "'\x00'" 5 22 12)) (mkPtok 33 "'\x00'" 5 22 12)) (Some (mkPtok 41 ";" 5 29 13))); (mkOptionDecl (mkSpan (mkPtok 42 "packetx" 5 31 14) (mkPtok 31 (string_of_bytes [34; 230; 182; 136; 230; 129; 175; 34]%N) 6 3 16)) (mkPtok 42 "packetx" 5 31 14) (mkPtok 4 "=" 6 0 15) (VString (mkSpan (mkPtok 31 (string_of_bytes [34; 230; 182; 136; 230; 129; 175; 34]%N) 6 3 16) (mkPtok 31 (string_of_bytes [34; 230; 182; 136; 230; 129; 175; 34]%N) 6 3 16)) (mkPtok 31 (string_of_bytes [34; 230; 182; 136; 230; 129; 175; 34]%N) 6 3 16)) None); (mkOptionDecl (mkSpan (mkPtok 42 "MetaDataX" 6 7 17) (mkPtok 11 "false" 7 0 20)) (mkPtok 42 "MetaDataX" 6 7 17) (mkPtok 4 "=" 6 16 18) (VFalse (mkSpan (mkPtok 11 "false" 7 0 20) (mkPtok 11 "false" 7 0 20)) (mkPtok 11 "false" 7 0 20)) None)] (mkPtok 3 "}" 7 6 21))); (DPacket (mkPacketDef (mkSpan (mkPtok 34 "root" 7 7 22) (mkPtok 3 "}" 16 2 37)) (Some (mkPtok 34 "root" 7 7 22)) (mkPtok 35 "packet" 8 0 24) (mkPtok 42 "Pad" 9 0 26) (mkPtok 2 "{" 9 4 27) [(mkFieldWithAttr (mkSpan (mkPtok 36 "repeat" 9 6 28) (mkPtok 40 "," 16 0 36)) [] (MetaField (mkSpan (mkPtok 36 "repeat" 9 6 28) (mkPtok 40 "," 16 0 36)) (Some (mkPtok 36 "repeat" 9 6 28)) (mkMetaDecl (mkSpan (mkPtok 20 "u8" 10 0 29) (mkPtok 40 "," 16 0 36)) (TyBasic (mkSpan (mkPtok 20 "u8" 10 0 29) (mkPtok 20 "u8" 10 0 29)) (mkBasicType (mkSpan (mkPtok 20 "u8" 10 0 29) (mkPtok 20 "u8" 10 0 29)) (mkPtok 20 "u8" 10 0 29))) (mkPtok 42 "Header" 10 3 30) (Some (mkPtok 43 "`{ , }`" 13 0 33)) (mkPtok 40 "," 16 0 36))))] (mkPtok 3 "}" 16 2 37)))])).
Eval vm_compute in ("<<<M2364>>>" ++ check (runes_of_ascii "
packet float
{	char[] """ ++ [233]%N ++ runes_of_ascii "t" ++ [233]%N ++ runes_of_ascii """ )
@rightPad ( '\x00' )
    @calculatedFrom( ""x y"" ) string chars  ,
    // a // b
    char[0 ]
    u	@lengthOf( i8i8 ) `{ , }` ,repeat char[] o //x
`// not a comment`, } // c")).
Eval vm_compute in ("<<<M2396>>>" ++ check (runes_of_ascii "
packet float
{	@calculatedFrom( """ ++ [233]%N ++ runes_of_ascii "t" ++ [233]%N ++ runes_of_ascii """ )
@rightPad ( '\x00' )
     ""x y"" ) string chars  ,
    // a // b
    char[0 ]
    u	@lengthOf( i8i8 ) `{ , }` ,repeat char[] o //x
`// not a comment`, } // c")).
Eval vm_compute in ("<<<M2428>>>" ++ check (runes_of_ascii "
packet float
{	@calculatedFrom( """ ++ [233]%N ++ runes_of_ascii "t" ++ [233]%N ++ runes_of_ascii """ )
@rightPad ( '\x00' )
    @calculatedFrom( ""x y"" ) string chars  ,
    // a // b
    0 char[ ]
    u	@lengthOf( i8i8 ) `{ , }` ,repeat char[] o //x
`// not a comment`, } // c")).
Eval vm_compute in ("<<<M2460>>>" ++ check (runes_of_ascii "
packet float
{	@calculatedFrom( """ ++ [233]%N ++ runes_of_ascii "t" ++ [233]%N ++ runes_of_ascii """ )
@rightPad ( '\x00' )
    @calculatedFrom( ""x y"" ) string chars  ,
    // a // b
    char[0 ]
    u	@lengthOf( i8i8")).
Eval vm_compute in ("<<<M2492>>>" ++ check (runes_of_ascii "
packet float
{	@calculatedFrom( """ ++ [233]%N ++ runes_of_ascii "t" ++ [233]%N ++ runes_of_ascii """ )
@rightPad ( '\x00' )
    @calculatedFrom( ""x y"" ) string chars  ,
    // a // b
    char[0 ]
    u	@lengthOf( i8i8 ) `{ , }` ,repeat char[] o //x
`// not a comment`, , } // c")).
Eval vm_compute in ("<<<M2524>>>" ++ check (runes_of_ascii "packet root u128{
    repeat
    zchar[ 65535 ] u `" ++ [28040; 24687; 31867; 22411]%N ++ runes_of_ascii "` ,// `tick` ""quote"" 'q'
} packet i64_ {repeatCount
    `
` ,	} // " ++ [128512]%N ++ runes_of_ascii " emoji")).
Eval vm_compute in ("<<<M2556>>>" ++ check (runes_of_ascii "root packet u128{
    repeat
    zchar[")).
Eval vm_compute in ("<<<M2588>>>" ++ check (runes_of_ascii "root packet u128{
    repeat
    zchar[ 65535 ] u `" ++ [28040; 24687; 31867; 22411]%N ++ runes_of_ascii "` ,// `tick` ""quote"" 'q'
} packet i64_ i64_ {repeatCount
    `
` ,	} // " ++ [128512]%N ++ runes_of_ascii " emoji")).
Eval vm_compute in ("<<<M2620>>>" ++ check (runes_of_ascii "root packet u128{
    repeat
    zchar[ 65535 ] u `" ++ [28040; 24687; 31867; 22411]%N ++ runes_of_ascii "` ,// `tick` ""quote"" 'q'
} packet i64_ ")).
Eval vm_compute in ("<<<M2652>>>" ++ check (runes_of_ascii "
MetaData
roots")).
Eval vm_compute in ("<<<M2684>>>" ++ check (runes_of_ascii "
MetaData
roots { int8
  |  BodyLength ,//	t
}
")).
Eval vm_compute in ("<<<M2716>>>" ++ check (runes_of_ascii "options {Packet = i8i8""CRC32"" = false; leftPad =
    '\x00'
    // `tick` ""quote"" 'q'
    ; o=255  ;
    // packet A { u8 x, }
    }")).
Eval vm_compute in ("<<<M2748>>>" ++ check (runes_of_ascii "options {Packet = ""CRC32""i8i8 = false; leftPad")).
Eval vm_compute in ("<<<M2780>>>" ++ check (runes_of_ascii "options {Packet = ""CRC32""i8i8 = false; leftPad =
    '\x00'
    // `tick` ""quote"" 'q'
    ; o=255  ;
    // packet A { u8 x, }
    } }")).
Eval vm_compute in ("<<<M2812>>>" ++ check (runes_of_ascii "
packet { metadata @rightPad (
    // packet A { u8 x, }
    ' ' ) repeat u32	A
,matchKey ,
    @lengthOf( string_ ) @lengthOf( body )
    // a // b
    @lengthOf(float  )	repeat
int32 u8x
    // c
    `tab	here`
, } // a // b")).
Eval vm_compute in ("<<<M2844>>>" ++ check (runes_of_ascii "
packet metadata { @rightPad (
    // packet A { u8 x, }
    ' ' )")).
Eval vm_compute in ("<<<M2876>>>" ++ check (runes_of_ascii "
packet metadata { @rightPad (
    // packet A { u8 x, }
    ' ' ) repeat u32	A
,matchKey ,
    @lengthOf( string_ string_ ) @lengthOf( body )
    // a // b
    @lengthOf(float  )	repeat
int32 u8x
    // c
    `tab	here`
, } // a // b")).
Eval vm_compute in ("<<<M2908>>>" ++ check (runes_of_ascii "
packet metadata { @rightPad (
    // packet A { u8 x, }
    ' ' ) repeat u32	A
,matchKey ,
    @lengthOf( string_ ) @lengthOf( body )
    // a // b
    @lengthOf(u64  )	repeat
int32 u8x
    // c
    `tab	here`
, } // a // b")).
Eval vm_compute in ("<<<M2940>>>" ++ check (runes_of_ascii "
packet metadata { @rightPad (
    // packet A { u8 x, }
    ' ' ) repeat u32	A
,matchKey ,
    @lengthOf( string_ ) @lengthOf( body )
    // a // b
    @lengthOf(float  )	repeat
int32 u8x
    // c
    `tab	here`
,  // a // b")).
Eval vm_compute in ("<<<M2972>>>" ++ check (runes_of_ascii "packet x x{
string
zchar , //	t
}
")).
Eval vm_compute in ("<<<M3004>>>" ++ check (runes_of_ascii "packet x{
string
zch")).
Eval vm_compute in ("<<<M3036>>>" ++ check (runes_of_ascii "
MetaData Logon")).
Eval vm_compute in ("<<<M3068>>>" ++ check (runes_of_ascii "
MetaData Logon
{ // c
}root packet
    Pad {
    } options options
{
u
    =
    ""CRC32""
    // " ++ [128512]%N ++ runes_of_ascii " emoji
    i64_ = u16;
T =65535 x = ' '
    ; u128
= true ; }")).
Eval vm_compute in ("<<<M3100>>>" ++ check (runes_of_ascii "
MetaData Logon
{ // c
}root packet
    Pad {
    } options
{
u
    =
    ""CRC32""
    // " ++ [128512]%N ++ runes_of_ascii " emoji
    i64_ } u16;
T =65535 x = ' '
    ; u128
= true ; }")).
Eval vm_compute in ("<<<M3132>>>" ++ check (runes_of_ascii "
MetaData Logon
{ // c
}root packet
    Pad {
    } options
{
u
    =
    ""CRC32""
    // " ++ [128512]%N ++ runes_of_ascii " emoji
    i64_ = u16;
T =65535 x  ' '
    ; u128
= true ; }")).
Eval vm_compute in ("<<<M3164>>>" ++ check (runes_of_ascii "
MetaData Logon
{ // c
}root packet
    Pad {
    } options
{
u
    =
    ""CRC32""
    // " ++ [128512]%N ++ runes_of_ascii " emoji
    i64_ = u16;
T =65535 x = ' '
    ; u128
= true } ;")).
Eval vm_compute in ("<<<M3196>>>" ++ check (runes_of_ascii "u32 body{}
packet	Packet { x_y_z @calculatedFrom(  ""a\\"")// `tick` ""quote"" 'q'
, }
")).
Eval vm_compute in ("<<<M3228>>>" ++ check (runes_of_ascii "MetaData body{}
packet	Packet {  @calculatedFrom(  ""a\\"")// `tick` ""quote"" 'q'
, }
")).
Eval vm_compute in ("<<<M3260>>>" ++ check (runes_of_ascii "MetaData body")).
Eval vm_compute in ("<<<M3292>>>" ++ check (runes_of_ascii "packet f32a f64} root packet len {repeat u // " ++ [128512]%N ++ runes_of_ascii " emoji
`{ , }` , }
")).
Eval vm_compute in ("<<<M3324>>>" ++ check (runes_of_ascii "packet f32a {} root packet len {repeat  // " ++ [128512]%N ++ runes_of_ascii " emoji
`{ , }` , }
")).
Eval vm_compute in ("<<<M3356>>>" ++ check (runes_of_ascii "packet f32a {} root packet ~len {repeat u // " ++ [128512]%N ++ runes_of_ascii " emoji
`{ , }` , }
")).
Eval vm_compute in ("<<<M3388>>>" ++ check (runes_of_ascii "options{ _x=""\" ++ [233]%N ++ runes_of_ascii """;
    Logon = 10	; Foo= 7;
i64_= char[]} options {
matchKey = ""// no comment"" // a // b
falsey = string
; trueish =
    4294967296
options1=
    ""it's"" string_	@rightPad true } options {
    /// triple
    }")).
Eval vm_compute in ("<<<M3420>>>" ++ check (runes_of_ascii "options{ _x=""\" ++ [233]%N ++ runes_of_ascii """;
    Logon = 10	; Foo= 7;
i64_= char[]} options {
matchKey = ""// no comment"" // a // b
falsey = string
; trueish =
    :
options1=
    ""it's"" string_	= true } options {
    /// triple
    }")).
Eval vm_compute in ("<<<M3452>>>" ++ check (runes_of_ascii "options{ _x=""\" ++ [233]%N ++ runes_of_ascii """;
    Logon = 10	; Foo= 7;
i64_= char[]} options {
matchKey = ""// no comment"" // a // b
falsey string =
; trueish =
    4294967296
options1=
    ""it's"" string_	= true } options {
    /// triple
    }")).
Eval vm_compute in ("<<<M3484>>>" ++ check (runes_of_ascii "options{ _x=""\" ++ [233]%N ++ runes_of_ascii """?;
    Logon = 10	; Foo= 7;
i64_= char[]} options {
matchKey = ""// no comment"" // a // b
falsey = string
; trueish =
    4294967296
options1=
    ""it's"" string_	= true } options {
    /// triple
    }")).
Eval vm_compute in ("<<<M3516>>>" ++ check (runes_of_ascii "as")).
Eval vm_compute in ("<<<M3548>>>" ++ check (runes_of_ascii "@leftPad(")).
Eval vm_compute in ("<<<M3580>>>" ++ check (runes_of_ascii """ab""")).
Eval vm_compute in ("<<<M3612>>>" ++ check (runes_of_ascii "a
b")).
Eval vm_compute in ("<<<M3644>>>" ++ check (runes_of_ascii "packet A { u8 x `d` `e`, }")).
Eval vm_compute in ("<<<M3676>>>" ++ check (runes_of_ascii "packet A { match k as n { [1 2] : B }, }")).
Eval vm_compute in ("<<<M3708>>>" ++ check (runes_of_ascii "root MetaData M { }")).
Eval vm_compute in ("<<<M3740>>>" ++ check (runes_of_ascii "options A { }")).
Eval vm_compute in ("<<<M3772>>>" ++ check ([1; 65533]%N ++ runes_of_ascii "FS" ++ [65533]%N ++ runes_of_ascii "8" ++ [1]%N ++ runes_of_ascii "Fv" ++ [65533]%N)).
Eval vm_compute in ("<<<M3804>>>" ++ check (runes_of_ascii "YL" ++ [1]%N ++ runes_of_ascii "I" ++ [65533; 6]%N ++ runes_of_ascii "r" ++ [65533]%N)).
Eval vm_compute in ("<<<M3836>>>" ++ check ([8]%N ++ runes_of_ascii "H" ++ [11; 65533; 65533]%N ++ runes_of_ascii "o/" ++ [65533]%N ++ runes_of_ascii "F" ++ [65533; 65533]%N ++ runes_of_ascii "BLE" ++ [65533; 65533; 65533]%N ++ runes_of_ascii "%c" ++ [65533]%N ++ runes_of_ascii "y" ++ [65533; 11]%N ++ runes_of_ascii "(" ++ [65533]%N ++ runes_of_ascii "y" ++ [65533]%N)).
Eval vm_compute in ("<<<M3868>>>" ++ check ([65533]%N ++ runes_of_ascii "z" ++ [65533; 65533; 65533; 65533; 65533]%N ++ runes_of_ascii "c" ++ [65533; 495]%N ++ runes_of_ascii "1n%" ++ [65533]%N ++ runes_of_ascii "dHD" ++ [65533; 65533; 65533]%N ++ runes_of_ascii "1" ++ [65533; 65533]%N ++ runes_of_ascii "6" ++ [65533]%N ++ runes_of_ascii "`" ++ [65533]%N ++ runes_of_ascii "Zx" ++ [65533; 6]%N ++ runes_of_ascii "?" ++ [65533]%N ++ runes_of_ascii "	3&!5" ++ [65533]%N)).
Eval vm_compute in ("<<<M3900>>>" ++ check ([65533; 65533]%N ++ runes_of_ascii "?0p" ++ [65533; 65533; 65533; 65533; 1283]%N ++ runes_of_ascii "_0f<" ++ [1815]%N ++ runes_of_ascii "]" ++ [65533]%N ++ runes_of_ascii "g" ++ [65533; 65533]%N ++ runes_of_ascii "d" ++ [65533; 7; 31]%N)).
Eval vm_compute in ("<<<M3932>>>" ++ check (runes_of_ascii "E" ++ [65533; 65533]%N ++ runes_of_ascii "$P{" ++ [12]%N ++ runes_of_ascii "," ++ [65533; 65533]%N ++ runes_of_ascii "~" ++ [65533; 0]%N ++ runes_of_ascii "g" ++ [23; 65533; 65533]%N ++ runes_of_ascii "[" ++ [65533; 65533; 65533; 65533; 65533]%N ++ runes_of_ascii "m")).
Eval vm_compute in ("<<<M3964>>>" ++ check ([127]%N ++ runes_of_ascii "*" ++ [65533; 65533]%N)).
Eval vm_compute in ("<<<M3996>>>" ++ check ([65533; 65533; 65533; 65533; 65533; 65533; 65533; 5; 65533; 1627; 65533]%N)).
