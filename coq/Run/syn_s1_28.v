From FP Require Import Lexer Parser ShowPT Digest.
From Coq Require Import String List NArith.
Import ListNotations.
Open Scope string_scope.
Set Printing Width 100000000.
Set Printing Depth 100000000.
Definition nl : string := String (Ascii.ascii_of_nat 10) EmptyString.
Definition model_lex (rs : list rune) : string := show_toks (lex rs).
Definition model_parse (rs : list rune) : string :=
  show_pt (match lex rs with Some ts => parse ts | None => None end).
(* coqc is slow at printing long strings: digests first (Digest.v), full texts on demand *)
Definition check (rs : list rune) : string :=
  digest (model_lex rs) ++ " " ++ digest (model_parse rs).
Definition full (rs : list rune) : string := model_lex rs ++ nl ++ model_parse rs.
Definition terms (ts : list tok) (t : pt) : string :=
  digest (show_toks (Some ts)) ++ " " ++ digest (show_pt (Some t)) ++ " " ++ digest (show_pt (parse ts)).
Definition terms_full (ts : list tok) (t : pt) : string :=
  show_toks (Some ts) ++ nl ++ show_pt (Some t) ++ nl ++ show_pt (parse ts).
Eval vm_compute in ("<<<M28>>>" ++ check (runes_of_ascii "root packet Packet{ char[]
    msg_type @calculatedFrom(""a\\"" ) , repeat
    u16 a1
`say ""hi""`
,f32a
stringy
`u8 x,` ,
    uint16 int	, @calculatedFrom( ""// no comment""
) repeat
// a // b
// c
u8 T, zchar[
// packet A { u8 x, }
// " ++ [27880; 37322]%N ++ runes_of_ascii "
65535
//x
//
]  T , // `tick` ""quote"" 'q'
repeat chars	{ char[] tag //x
`" ++ [233]%N ++ runes_of_ascii "`,int64 A	@calculatedFrom(	""\n"" )`// not a comment`
, match trueish as i8i8 {[ ""a\""b""]	: MetaDataX, } , len {zchar[ 65535 ]o
    @lengthOf( body  ) `a\`//
, string options1`two words`
    , tag
    // `tick` ""quote"" 'q'
    { T `{ , }`
    , charz
    ,i8 // trailing space 
uint8x ,} ,char[]packetx// @lengthOf(
@lengthOf(// c
roots ) ,} ,
    }
,//
string  x, } // trailing space ")).
Eval vm_compute in ("<<<M60>>>" ++ check (runes_of_ascii "root packet chars { /// triple
int16 trueish	@lengthOf( MetaDataX)
`tab	here`,} MetaData
T
// a // b
// c
{
    int64 packetx `doc`
    // @lengthOf(
    ,}")).
Eval vm_compute in ("<<<M92>>>" ++ check (runes_of_ascii "// trailing space 
packet tag {
    @rightPad
    // @lengthOf(
    ( '0' )
    u128 ,
@lengthOf(MetaDataX
    )
    // c
    leftPad, // packet A { u8 x, }
@tag( 1
    )calculatedFrom
    @lengthOf( Logon )  , }
packet string_	{ } packet u128 {char[	0 // packet A { u8 x, }
]
chars `say ""hi""`
,
int , @leftPad ( '0'
// @lengthOf(
//x
)T { repeat zchar[ 255]
int
,zchar  stringy	, }
    ,repeat zchar{ match leftPad as packetx
{ [
""`tick`""
    ] :
    lengthOf //x
,  [  7,""" ++ [128512]%N ++ runes_of_ascii """
    ,
00 , ""x y"" , ""packet"" ] :
    stringy // @lengthOf(
, [
42 ,""\n""
, ""it's"" ,// " ++ [128512]%N ++ runes_of_ascii " emoji
65535, 1	]
: msg_type ""packet"" :	a1 ,} , u16 int
,
repeat x_y_z float,
repeat//x
u64 A `a\` ,
} , }
")).
Eval vm_compute in ("<<<M124>>>" ++ check (runes_of_ascii "packet
Pad {
@lengthOf(stringy)MetaDataX  @calculatedFrom(""" ++ [28040; 24687]%N ++ runes_of_ascii """ ) `{ , }` ,
//x
/// triple
char[ 0123456789 ]leftPad @lengthOf( float
), asx leftPad `u8 x,` ,
    @calculatedFrom(""\" ++ [233]%N ++ runes_of_ascii """ )
    repeat  rootA
    matchKey `" ++ [28040; 24687; 31867; 22411]%N ++ runes_of_ascii "`, @lengthOf( stringy
    ) /// triple
uint8x msg_type `u8 x,`, // c
char[ 3
]
stringy `tab	here`  ,
}
MetaData metadata{ string_ zchar , float32 u128	,
char[]
    //	t
    u128//x
,} options
    // trailing space 
    { zchar =""" ++ [28040; 24687]%N ++ runes_of_ascii """ ;
msg_type = 007 ;	repeatCount = '\x00' ;	} packet
_x { }  options
{
    asx
=
true;
lengthOf =
'0'  i8i8= '0'  crc =
""abc""
    /// triple
    ; Packet
// " ++ [128512]%N ++ runes_of_ascii " emoji
// trailing space 
= ' ' } // a // b")).
Eval vm_compute in ("<<<M156>>>" ++ check (runes_of_ascii "packet	crc
    { }")).
Eval vm_compute in ("<<<M188>>>" ++ check (runes_of_ascii "MetaData a1 { Foo body
`{ , }`
    , int32
int`` ,i32 a1 `" ++ [28040; 24687; 31867; 22411]%N ++ runes_of_ascii "`
, int8 msg_type `` , }

")).
Eval vm_compute in ("<<<T188>>>" ++ terms [mkTok 37 "MetaData" 1 0 false; mkTok 42 "a1" 1 9 false; mkTok 2 "{" 1 12 false; mkTok 42 "Foo" 1 14 false; mkTok 42 "body" 1 18 false; mkTok 43 "`{ , }`" 2 0 false; mkTok 40 "," 3 4 false; mkTok 26 "int32" 3 6 false; mkTok 42 "int" 4 0 false; mkTok 43 "``" 4 3 false; mkTok 40 "," 4 6 false; mkTok 26 "i32" 4 7 false; mkTok 42 "a1" 4 11 false; mkTok 43 (string_of_bytes [96; 230; 182; 136; 230; 129; 175; 231; 177; 187; 229; 158; 139; 96]%N) 4 14 false; mkTok 40 "," 5 0 false; mkTok 24 "int8" 5 2 false; mkTok 42 "msg_type" 5 7 false; mkTok 43 "``" 5 16 false; mkTok 40 "," 5 19 false; mkTok 3 "}" 5 21 false; mkTok 0 "<EOF>" 7 0 false] (mkPacket (mkPtok 37 "MetaData" 1 0 0) (Some (mkPtok 3 "}" 5 21 19)) [(DMeta (mkMetaDef (mkSpan (mkPtok 37 "MetaData" 1 0 0) (mkPtok 3 "}" 5 21 19)) (mkPtok 37 "MetaData" 1 0 0) (mkPtok 42 "a1" 1 9 1) (mkPtok 2 "{" 1 12 2) [(MIRef (mkRefMetaDecl (mkSpan (mkPtok 42 "Foo" 1 14 3) (mkPtok 40 "," 3 4 6)) (mkPtok 42 "Foo" 1 14 3) (mkPtok 42 "body" 1 18 4) (Some (mkPtok 43 "`{ , }`" 2 0 5)) (mkPtok 40 "," 3 4 6))); (MIDecl (mkMetaDecl (mkSpan (mkPtok 26 "int32" 3 6 7) (mkPtok 40 "," 4 6 10)) (TyBasic (mkSpan (mkPtok 26 "int32" 3 6 7) (mkPtok 26 "int32" 3 6 7)) (mkBasicType (mkSpan (mkPtok 26 "int32" 3 6 7) (mkPtok 26 "int32" 3 6 7)) (mkPtok 26 "int32" 3 6 7))) (mkPtok 42 "int" 4 0 8) (Some (mkPtok 43 "``" 4 3 9)) (mkPtok 40 "," 4 6 10))); (MIDecl (mkMetaDecl (mkSpan (mkPtok 26 "i32" 4 7 11) (mkPtok 40 "," 5 0 14)) (TyBasic (mkSpan (mkPtok 26 "i32" 4 7 11) (mkPtok 26 "i32" 4 7 11)) (mkBasicType (mkSpan (mkPtok 26 "i32" 4 7 11) (mkPtok 26 "i32" 4 7 11)) (mkPtok 26 "i32" 4 7 11))) (mkPtok 42 "a1" 4 11 12) (Some (mkPtok 43 (string_of_bytes [96; 230; 182; 136; 230; 129; 175; 231; 177; 187; 229; 158; 139; 96]%N) 4 14 13)) (mkPtok 40 "," 5 0 14))); (MIDecl (mkMetaDecl (mkSpan (mkPtok 24 "int8" 5 2 15) (mkPtok 40 "," 5 19 18)) (TyBasic (mkSpan (mkPtok 24 "int8" 5 2 15) (mkPtok 24 "int8" 5 2 15)) (mkBasicType (mkSpan (mkPtok 24 "int8" 5 2 15) (mkPtok 24 "int8" 5 2 15)) (mkPtok 24 "int8" 5 2 15))) (mkPtok 42 "msg_type" 5 7 16) (Some (mkPtok 43 "``" 5 16 17)) (mkPtok 40 "," 5 19 18)))] (mkPtok 3 "}" 5 21 19)))])).
Eval vm_compute in ("<<<M220>>>" ++ check (runes_of_ascii "packet f32a
    { @calculatedFrom(""1"" )
_x { string
/// triple
//	t
metadata@calculatedFrom( ""`tick`""	) `// not a comment` ,  match // packet A { u8 x, }
Foo as  len { 42//
:Z9_ , //x
}  , }
,} packet /// triple
options1{ @lengthOf(A )roots
@lengthOf(// packet A { u8 x, }
msg_type ) `line1
line2` , int32/// triple
a1 `it's` , @calculatedFrom( ""packet""
    )repeat string T , @lengthOf( i64_ ) @calculatedFrom(
""packet""
) @tag( 007
) int16 asx@calculatedFrom(
""it's""
    )//	t
`doc` , repeat i32
charz, metadata // packet A { u8 x, }
`// not a comment` , }  packet
Logon{ }
options {
}
root
packet tag  { @lengthOf(
    Logon
)
charz { string stringy`// not a comment`	,
uint64 int,char
    i64_ `it's`
// packet A { u8 x, }
// a // b
, } ,
//	t
//
u8
i64_ , zchar[ 1 ] float
, } /// triple")).
Eval vm_compute in ("<<<M252>>>" ++ check (runes_of_ascii "// c
root packet
calculatedFrom { }
")).
Eval vm_compute in ("<<<M284>>>" ++ check (runes_of_ascii "// " ++ [27880; 37322]%N ++ runes_of_ascii "
options
    {
zchar // a // b
= ""x y""
; options1 = u16
;} packet
Pad{ Z9_@calculatedFrom(
"""")`
` , @tag( 42
    ) //
@tag( 00 ) @lengthOf( zchar	) match _x// packet A { u8 x, }
as metadata	{
007: As ""`tick`""// packet A { u8 x, }
: lengthOf,255 :lengthOf ""a	b""
// trailing space 
// " ++ [27880; 37322]%N ++ runes_of_ascii "
:
Packet 255: a1
    , // c
[ 00 ,
    0 , 10 ,	""a\\"" , ""it's"" ,
10, 7	]
: Foo , }
    , match Header
as  o{
[// packet A { u8 x, }
255 ]
    : zchar ,0123456789 :leftPad
    [	007	, 3 ] : leftPad , // c
0: packetx
, } , } MetaData
    Pad { // packet A { u8 x, }
} packet T
    // packet A { u8 x, }
    {
    // " ++ [27880; 37322]%N ++ runes_of_ascii "
    charz
    @lengthOf(asx) `` , }
packet
matchKey
{  @tag( 3
) @calculatedFrom( ""a	b""
/// triple
// c
)
@calculatedFrom("""" ) pack	rootA
    ,  repeat //	t
leftPad `` , repeat uint32 Foo `u8 x,` , @calculatedFrom(
""" ++ [233]%N ++ runes_of_ascii "t" ++ [233]%N ++ runes_of_ascii """) repeat char[ 65535 ] u , @lengthOf( _x )@lengthOf( u8x ) repeat zchar[ 0123456789 ] x
, match i64_ // " ++ [27880; 37322]%N ++ runes_of_ascii "
as falsey{ // trailing space 
255 :
f32a , ""{,}"" : x ,""\" ++ [233]%N ++ runes_of_ascii """	: matchKey
,
[	"""",
    // trailing space 
    ""{,}"" ,
    10 , """ ++ [128512]%N ++ runes_of_ascii """
// a // b
// packet A { u8 x, }
, ""a	b"", 0
,
""1"",65535
]: len , ""\" ++ [233]%N ++ runes_of_ascii """ :
    T
, [ ""CRC32"" ,
    // " ++ [128512]%N ++ runes_of_ascii " emoji
    1 , ""// no comment""
, 007,1 ,	""`tick`"", """ ++ [128512]%N ++ runes_of_ascii """
]// packet A { u8 x, }
: a1  },match
x as
As
{
    ""a	b"":	o , 007
:MetaDataX  ,  [
""a	b""
]:
falsey , ""// no comment""
    : Z9_""packet"":
    _x
    // " ++ [128512]%N ++ runes_of_ascii " emoji
    , },repeat rootA {	uint8 MetaDataX
    @calculatedFrom(
    ""abc""
    ) ,
    match // `tick` ""quote"" 'q'
int as// a // b
asx {	[10	,
10 , ""`tick`""  , 00 , 4294967296 ]
    :
    o ,
    ""CRC32"" :
string_ , [ 0
]
:	roots 65535 :
// " ++ [27880; 37322]%N ++ runes_of_ascii "
// trailing space 
_x //
, ""it's"" : Pad, 4294967296 : Pad , }
,	u16	chars
`line1
line2`
, //x
}
    ,
}")).
Eval vm_compute in ("<<<M316>>>" ++ check (runes_of_ascii "
packet
    // a // b
    matchKey{ @tag(//
0 ) repeat u ,}

")).
Eval vm_compute in ("<<<M348>>>" ++ check (runes_of_ascii "// packet A { u8 x, }
options{
    T
=""packet"" ; } MetaData x_y_z
{
char roots ,
    T f32a `{ , }`, } root packet // " ++ [128512]%N ++ runes_of_ascii " emoji
uint8x
{ @calculatedFrom( ""// no comment"") repeat As
{rootA
@calculatedFrom(
""" ++ [28040; 24687]%N ++ runes_of_ascii """ ) `{ , }` , u16 zchar`{ , }` ,  char[	7
]o `" ++ [233]%N ++ runes_of_ascii "` ,
} ,}
")).
Eval vm_compute in ("<<<M380>>>" ++ check (@nil rune)).
Eval vm_compute in ("<<<M412>>>" ++ check (runes_of_ascii "packet
    // @lengthOf(
    x
{ int8// packet A { u8 x, }
T
, }
options	{
    } packet Z9_
{
@lengthOf(
    //	t
    A
    ) As
@calculatedFrom(
""x y"" )	,
} MetaData
//
// " ++ [128512]%N ++ runes_of_ascii " emoji
Logon
    {
//x
//x
pack
    trueish
, /// triple
rootA charz ,
    leftPad leftPad ,char[]Logon ,
// a // b
// " ++ [27880; 37322]%N ++ runes_of_ascii "
f64	matchKey ,falsey falsey `two words` ,}")).
Eval vm_compute in ("<<<T412>>>" ++ terms [mkTok 35 "packet" 1 0 false; mkTok 44 "// @lengthOf(" 2 4 true; mkTok 42 "x" 3 4 false; mkTok 2 "{" 4 0 false; mkTok 24 "int8" 4 2 false; mkTok 44 "// packet A { u8 x, }" 4 6 true; mkTok 42 "T" 5 0 false; mkTok 40 "," 6 0 false; mkTok 3 "}" 6 2 false; mkTok 1 "options" 7 0 false; mkTok 2 "{" 7 8 false; mkTok 3 "}" 8 4 false; mkTok 35 "packet" 8 6 false; mkTok 42 "Z9_" 8 13 false; mkTok 2 "{" 9 0 false; mkTok 7 "@lengthOf(" 10 0 false; mkTok 44 (string_of_bytes [47; 47; 9; 116]%N) 11 4 true; mkTok 42 "A" 12 4 false; mkTok 6 ")" 13 4 false; mkTok 42 "As" 13 6 false; mkTok 5 "@calculatedFrom(" 14 0 false; mkTok 31 """x y""" 15 0 false; mkTok 6 ")" 15 6 false; mkTok 40 "," 15 8 false; mkTok 3 "}" 16 0 false; mkTok 37 "MetaData" 16 2 false; mkTok 44 "//" 17 0 true; mkTok 44 (string_of_bytes [47; 47; 32; 240; 159; 152; 128; 32; 101; 109; 111; 106; 105]%N) 18 0 true; mkTok 42 "Logon" 19 0 false; mkTok 2 "{" 20 4 false; mkTok 44 "//x" 21 0 true; mkTok 44 "//x" 22 0 true; mkTok 42 "pack" 23 0 false; mkTok 42 "trueish" 24 4 false; mkTok 40 "," 25 0 false; mkTok 44 "/// triple" 25 2 true; mkTok 42 "rootA" 26 0 false; mkTok 42 "charz" 26 6 false; mkTok 40 "," 26 12 false; mkTok 42 "leftPad" 27 4 false; mkTok 42 "leftPad" 27 12 false; mkTok 40 "," 27 20 false; mkTok 16 "char[]" 27 21 false; mkTok 42 "Logon" 27 27 false; mkTok 40 "," 27 33 false; mkTok 44 "// a // b" 28 0 true; mkTok 44 (string_of_bytes [47; 47; 32; 230; 179; 168; 233; 135; 138]%N) 29 0 true; mkTok 29 "f64" 30 0 false; mkTok 42 "matchKey" 30 4 false; mkTok 40 "," 30 13 false; mkTok 42 "falsey" 30 14 false; mkTok 42 "falsey" 30 21 false; mkTok 43 "`two words`" 30 28 false; mkTok 40 "," 30 40 false; mkTok 3 "}" 30 41 false; mkTok 0 "<EOF>" 30 42 false] (mkPacket (mkPtok 35 "packet" 1 0 0) (Some (mkPtok 3 "}" 30 41 54)) [(DPacket (mkPacketDef (mkSpan (mkPtok 35 "packet" 1 0 0) (mkPtok 3 "}" 6 2 8)) None (mkPtok 35 "packet" 1 0 0) (mkPtok 42 "x" 3 4 2) (mkPtok 2 "{" 4 0 3) [(mkFieldWithAttr (mkSpan (mkPtok 24 "int8" 4 2 4) (mkPtok 40 "," 6 0 7)) [] (MetaField (mkSpan (mkPtok 24 "int8" 4 2 4) (mkPtok 40 "," 6 0 7)) None (mkMetaDecl (mkSpan (mkPtok 24 "int8" 4 2 4) (mkPtok 40 "," 6 0 7)) (TyBasic (mkSpan (mkPtok 24 "int8" 4 2 4) (mkPtok 24 "int8" 4 2 4)) (mkBasicType (mkSpan (mkPtok 24 "int8" 4 2 4) (mkPtok 24 "int8" 4 2 4)) (mkPtok 24 "int8" 4 2 4))) (mkPtok 42 "T" 5 0 6) None (mkPtok 40 "," 6 0 7))))] (mkPtok 3 "}" 6 2 8))); (DOption (mkOptionDef (mkSpan (mkPtok 1 "options" 7 0 9) (mkPtok 3 "}" 8 4 11)) (mkPtok 1 "options" 7 0 9) (mkPtok 2 "{" 7 8 10) [] (mkPtok 3 "}" 8 4 11))); (DPacket (mkPacketDef (mkSpan (mkPtok 35 "packet" 8 6 12) (mkPtok 3 "}" 16 0 24)) None (mkPtok 35 "packet" 8 6 12) (mkPtok 42 "Z9_" 8 13 13) (mkPtok 2 "{" 9 0 14) [(mkFieldWithAttr (mkSpan (mkPtok 7 "@lengthOf(" 10 0 15) (mkPtok 40 "," 15 8 23)) [(FALengthOf (mkSpan (mkPtok 7 "@lengthOf(" 10 0 15) (mkPtok 6 ")" 13 4 18)) (mkLengthOf (mkSpan (mkPtok 7 "@lengthOf(" 10 0 15) (mkPtok 6 ")" 13 4 18)) (mkPtok 7 "@lengthOf(" 10 0 15) (mkPtok 42 "A" 12 4 17) (mkPtok 6 ")" 13 4 18)))] (CheckSumField (mkSpan (mkPtok 42 "As" 13 6 19) (mkPtok 40 "," 15 8 23)) (mkChecksumFieldDecl (mkSpan (mkPtok 42 "As" 13 6 19) (mkPtok 40 "," 15 8 23)) None (mkPtok 42 "As" 13 6 19) (mkCalculatedFrom (mkSpan (mkPtok 5 "@calculatedFrom(" 14 0 20) (mkPtok 6 ")" 15 6 22)) (mkPtok 5 "@calculatedFrom(" 14 0 20) (mkPtok 31 """x y""" 15 0 21) (mkPtok 6 ")" 15 6 22)) None (mkPtok 40 "," 15 8 23))))] (mkPtok 3 "}" 16 0 24))); (DMeta (mkMetaDef (mkSpan (mkPtok 37 "MetaData" 16 2 25) (mkPtok 3 "}" 30 41 54)) (mkPtok 37 "MetaData" 16 2 25) (mkPtok 42 "Logon" 19 0 28) (mkPtok 2 "{" 20 4 29) [(MIRef (mkRefMetaDecl (mkSpan (mkPtok 42 "pack" 23 0 32) (mkPtok 40 "," 25 0 34)) (mkPtok 42 "pack" 23 0 32) (mkPtok 42 "trueish" 24 4 33) None (mkPtok 40 "," 25 0 34))); (MIRef (mkRefMetaDecl (mkSpan (mkPtok 42 "rootA" 26 0 36) (mkPtok 40 "," 26 12 38)) (mkPtok 42 "rootA" 26 0 36) (mkPtok 42 "charz" 26 6 37) None (mkPtok 40 "," 26 12 38))); (MIRef (mkRefMetaDecl (mkSpan (mkPtok 42 "leftPad" 27 4 39) (mkPtok 40 "," 27 20 41)) (mkPtok 42 "leftPad" 27 4 39) (mkPtok 42 "leftPad" 27 12 40) None (mkPtok 40 "," 27 20 41))); (MIDecl (mkMetaDecl (mkSpan (mkPtok 16 "char[]" 27 21 42) (mkPtok 40 "," 27 33 44)) (TyDynamic (mkSpan (mkPtok 16 "char[]" 27 21 42) (mkPtok 16 "char[]" 27 21 42)) (mkDynamicString (mkSpan (mkPtok 16 "char[]" 27 21 42) (mkPtok 16 "char[]" 27 21 42)) (mkPtok 16 "char[]" 27 21 42))) (mkPtok 42 "Logon" 27 27 43) None (mkPtok 40 "," 27 33 44))); (MIDecl (mkMetaDecl (mkSpan (mkPtok 29 "f64" 30 0 47) (mkPtok 40 "," 30 13 49)) (TyBasic (mkSpan (mkPtok 29 "f64" 30 0 47) (mkPtok 29 "f64" 30 0 47)) (mkBasicType (mkSpan (mkPtok 29 "f64" 30 0 47) (mkPtok 29 "f64" 30 0 47)) (mkPtok 29 "f64" 30 0 47))) (mkPtok 42 "matchKey" 30 4 48) None (mkPtok 40 "," 30 13 49))); (MIRef (mkRefMetaDecl (mkSpan (mkPtok 42 "falsey" 30 14 50) (mkPtok 40 "," 30 40 53)) (mkPtok 42 "falsey" 30 14 50) (mkPtok 42 "falsey" 30 21 51) (Some (mkPtok 43 "`two words`" 30 28 52)) (mkPtok 40 "," 30 40 53)))] (mkPtok 3 "}" 30 41 54)))])).
Eval vm_compute in ("<<<M444>>>" ++ check (runes_of_ascii "/// triple
MetaData
x {uint64 u `doc`	, }
root
packet
i8i8
    {uint32
    zchar @lengthOf( chars ) , string rootA@calculatedFrom(
    ""\n""
) , } packet	MetaDataX
//	t
/// triple
{ i32 A
    @lengthOf( string_ )
`` , @calculatedFrom( ""a\\"" ) @lengthOf( roots ) msg_type asx  `crlf
line` ,@lengthOf(//
metadata ) @calculatedFrom( """ ++ [28040; 24687]%N ++ runes_of_ascii """) @leftPad
(
) repeat string o `// not a comment`
    , } //x")).
Eval vm_compute in ("<<<M476>>>" ++ check (runes_of_ascii "packet roots { @tag(  255) zchar[ 00] lengthOf	`" ++ [233]%N ++ runes_of_ascii "`
    , zchar[ 7
// @lengthOf(
//
] u `say ""hi""`// " ++ [27880; 37322]%N ++ runes_of_ascii "
, }  options { } options { calculatedFrom
= 4294967296 // " ++ [128512]%N ++ runes_of_ascii " emoji
i64_ = '\x00' ; i64_
= ""abc"" ; }  MetaData roots{
    char[]
    BodyLength`two words`
, i16 Header `// not a comment`, }")).
Eval vm_compute in ("<<<M508>>>" ++ check (runes_of_ascii "
")).
Eval vm_compute in ("<<<M540>>>" ++ check (runes_of_ascii "packet packetx
    {
// trailing space 
/// triple
@calculatedFrom( """" ) Z9_ , }
")).
Eval vm_compute in ("<<<M572>>>" ++ check (@nil rune)).
Eval vm_compute in ("<<<M604>>>" ++ check (runes_of_ascii "packet
    o{  stringy
@calculatedFrom( ""a	b"" // packet A { u8 x, }
),
}")).
Eval vm_compute in ("<<<M636>>>" ++ check (runes_of_ascii "packet
i8i8 {int32 As, options1{
    repeat
int{
    //
    uint16
u, // a // b
zchar`say ""hi""`
// " ++ [128512]%N ++ runes_of_ascii " emoji
//	t
,
char[] trueish , }, } ,
}")).
Eval vm_compute in ("<<<T636>>>" ++ terms [mkTok 35 "packet" 1 0 false; mkTok 42 "i8i8" 2 0 false; mkTok 2 "{" 2 5 false; mkTok 26 "int32" 2 6 false; mkTok 42 "As" 2 12 false; mkTok 40 "," 2 14 false; mkTok 42 "options1" 2 16 false; mkTok 2 "{" 2 24 false; mkTok 36 "repeat" 3 4 false; mkTok 42 "int" 4 0 false; mkTok 2 "{" 4 3 false; mkTok 44 "//" 5 4 true; mkTok 21 "uint16" 6 4 false; mkTok 42 "u" 7 0 false; mkTok 40 "," 7 1 false; mkTok 44 "// a // b" 7 3 true; mkTok 42 "zchar" 8 0 false; mkTok 43 "`say ""hi""`" 8 5 false; mkTok 44 (string_of_bytes [47; 47; 32; 240; 159; 152; 128; 32; 101; 109; 111; 106; 105]%N) 9 0 true; mkTok 44 (string_of_bytes [47; 47; 9; 116]%N) 10 0 true; mkTok 40 "," 11 0 false; mkTok 16 "char[]" 12 0 false; mkTok 42 "trueish" 12 7 false; mkTok 40 "," 12 15 false; mkTok 3 "}" 12 17 false; mkTok 40 "," 12 18 false; mkTok 3 "}" 12 20 false; mkTok 40 "," 12 22 false; mkTok 3 "}" 13 0 false; mkTok 0 "<EOF>" 13 1 false] (mkPacket (mkPtok 35 "packet" 1 0 0) (Some (mkPtok 3 "}" 13 0 28)) [(DPacket (mkPacketDef (mkSpan (mkPtok 35 "packet" 1 0 0) (mkPtok 3 "}" 13 0 28)) None (mkPtok 35 "packet" 1 0 0) (mkPtok 42 "i8i8" 2 0 1) (mkPtok 2 "{" 2 5 2) [(mkFieldWithAttr (mkSpan (mkPtok 26 "int32" 2 6 3) (mkPtok 40 "," 2 14 5)) [] (MetaField (mkSpan (mkPtok 26 "int32" 2 6 3) (mkPtok 40 "," 2 14 5)) None (mkMetaDecl (mkSpan (mkPtok 26 "int32" 2 6 3) (mkPtok 40 "," 2 14 5)) (TyBasic (mkSpan (mkPtok 26 "int32" 2 6 3) (mkPtok 26 "int32" 2 6 3)) (mkBasicType (mkSpan (mkPtok 26 "int32" 2 6 3) (mkPtok 26 "int32" 2 6 3)) (mkPtok 26 "int32" 2 6 3))) (mkPtok 42 "As" 2 12 4) None (mkPtok 40 "," 2 14 5)))); (mkFieldWithAttr (mkSpan (mkPtok 42 "options1" 2 16 6) (mkPtok 40 "," 12 22 27)) [] (InerObjectField (mkSpan (mkPtok 42 "options1" 2 16 6) (mkPtok 40 "," 12 22 27)) None (InerObjectDecl (mkSpan (mkPtok 42 "options1" 2 16 6) (mkPtok 3 "}" 12 20 26)) (mkPtok 42 "options1" 2 16 6) (mkPtok 2 "{" 2 24 7) [(InerObjectField (mkSpan (mkPtok 36 "repeat" 3 4 8) (mkPtok 40 "," 12 18 25)) (Some (mkPtok 36 "repeat" 3 4 8)) (InerObjectDecl (mkSpan (mkPtok 42 "int" 4 0 9) (mkPtok 3 "}" 12 17 24)) (mkPtok 42 "int" 4 0 9) (mkPtok 2 "{" 4 3 10) [(MetaField (mkSpan (mkPtok 21 "uint16" 6 4 12) (mkPtok 40 "," 7 1 14)) None (mkMetaDecl (mkSpan (mkPtok 21 "uint16" 6 4 12) (mkPtok 40 "," 7 1 14)) (TyBasic (mkSpan (mkPtok 21 "uint16" 6 4 12) (mkPtok 21 "uint16" 6 4 12)) (mkBasicType (mkSpan (mkPtok 21 "uint16" 6 4 12) (mkPtok 21 "uint16" 6 4 12)) (mkPtok 21 "uint16" 6 4 12))) (mkPtok 42 "u" 7 0 13) None (mkPtok 40 "," 7 1 14))); (ObjectField (mkSpan (mkPtok 42 "zchar" 8 0 16) (mkPtok 40 "," 11 0 20)) None (mkPtok 42 "zchar" 8 0 16) None (Some (mkPtok 43 "`say ""hi""`" 8 5 17)) (mkPtok 40 "," 11 0 20)); (MetaField (mkSpan (mkPtok 16 "char[]" 12 0 21) (mkPtok 40 "," 12 15 23)) None (mkMetaDecl (mkSpan (mkPtok 16 "char[]" 12 0 21) (mkPtok 40 "," 12 15 23)) (TyDynamic (mkSpan (mkPtok 16 "char[]" 12 0 21) (mkPtok 16 "char[]" 12 0 21)) (mkDynamicString (mkSpan (mkPtok 16 "char[]" 12 0 21) (mkPtok 16 "char[]" 12 0 21)) (mkPtok 16 "char[]" 12 0 21))) (mkPtok 42 "trueish" 12 7 22) None (mkPtok 40 "," 12 15 23)))] (mkPtok 3 "}" 12 17 24)) (mkPtok 40 "," 12 18 25))] (mkPtok 3 "}" 12 20 26)) (mkPtok 40 "," 12 22 27)))] (mkPtok 3 "}" 13 0 28)))])).
Eval vm_compute in ("<<<M668>>>" ++ check (runes_of_ascii "packet  x_y_z
    // @lengthOf(
    { @tag( 1
/// triple
//
) A @calculatedFrom(""a\""b""	) , match Pad as lengthOf{ 007 :u128 , }	, match
chars as roots
    {1	: roots , [ 1
    ] :
    A
, // " ++ [27880; 37322]%N ++ runes_of_ascii "
""a	b"" : roots
[	""abc"" , 0
    ] :
    // trailing space 
    u128 ,
    }
    , repeat i64
i8i8 , @calculatedFrom( """ ++ [233]%N ++ runes_of_ascii "t" ++ [233]%N ++ runes_of_ascii """ )BodyLength,
@tag( 255 ) string u8x ,
    BodyLength options1 `
`
, }
")).
Eval vm_compute in ("<<<M700>>>" ++ check (runes_of_ascii "  packet i8i8 { } options { options1//	t
=true ; // " ++ [27880; 37322]%N ++ runes_of_ascii "
}	packet pack{
    //	t
    lengthOf{ char[	10
]	len@calculatedFrom(
""\" ++ [233]%N ++ runes_of_ascii """
)
// " ++ [27880; 37322]%N ++ runes_of_ascii "
// " ++ [27880; 37322]%N ++ runes_of_ascii "
`a\` , }
,
    } root packet repeatCount{u128 len `line1
line2` ,
@calculatedFrom( ""// no comment"" // `tick` ""quote"" 'q'
) repeat char[]zchar`// not a comment` ,	a1 , repeat zchar[  1
]	u `crlf
line` , } packet
lengthOf{@calculatedFrom(
    //
    ""packet"" ) // a // b
float64
trueish
@lengthOf( Z9_
) , @leftPad
    ( )
    match options1 as A
    //x
    {""it's"":len
    ,
    ["""" ] :T // " ++ [128512]%N ++ runes_of_ascii " emoji
,	[
    //
    00
// c
// `tick` ""quote"" 'q'
] : calculatedFrom, 1:MetaDataX	, 4294967296 :
    u , } // a // b
,}
//
")).
Eval vm_compute in ("<<<M732>>>" ++ check (runes_of_ascii "packet
// a // b
// packet A { u8 x, }
matchKey { lengthOf	{ charz int
// " ++ [128512]%N ++ runes_of_ascii " emoji
// packet A { u8 x, }
,
match
uint8x as A
    // a // b
    {
    65535: rootA
, } ,	repeat char[]
    // a // b
    T, }
    , repeat charz  roots,	}
")).
Eval vm_compute in ("<<<M764>>>" ++ check (runes_of_ascii "MetaData  len{
}
packet BodyLength{ char[
42
    ]A@calculatedFrom(""// no comment"" ) `crlf
line`// a // b
,  match //
Header as calculatedFrom {
/// triple
// packet A { u8 x, }
""`tick`"" :
//x
//	t
o
,
// packet A { u8 x, }
// c
},
repeat packetx , }packet u { }packet
x_y_z { @lengthOf( repeatCount
    ) // trailing space 
char[] charz @calculatedFrom(
""it's"" ) `doc` , } packet	calculatedFrom {}
")).
Eval vm_compute in ("<<<M796>>>" ++ check (runes_of_ascii "packet o
    {
    /// triple
    }
packet Pad // a // b
{ repeat  f32
metadata	`two words`,repeat
    charz	{  i32 i64_@calculatedFrom(""\" ++ [233]%N ++ runes_of_ascii """ ) `u8 x,` ,
repeat uint8x
tag , uint16// " ++ [128512]%N ++ runes_of_ascii " emoji
Packet	@calculatedFrom( ""a	b"" ) `u8 x,` ,
    } ,
}  packet
metadata {@leftPad	( )
repeat  f32 i64_  ,
    // `tick` ""quote"" 'q'
    f32a @calculatedFrom( ""x y""
) , repeat zchar[007 ]  body // a // b
,@rightPad ( '\x00' )	string MetaDataX  @lengthOf( options1)
,  @tag( 3 )
    match  _x as
    lengthOf {  ""`tick`"": //	t
body}
/// triple
// c
,@calculatedFrom(""`tick`""
)i64 options1@calculatedFrom( ""abc"") `" ++ [28040; 24687; 31867; 22411]%N ++ runes_of_ascii "` , i8 As // a // b
, rootA
@lengthOf( lengthOf) //x
,
// " ++ [27880; 37322]%N ++ runes_of_ascii "
// " ++ [27880; 37322]%N ++ runes_of_ascii "
}  MetaData body { int16 // " ++ [128512]%N ++ runes_of_ascii " emoji
len `line1
line2`
,  uint16 stringy , uint64 falsey
`{ , }`, len len ,
} // " ++ [128512]%N ++ runes_of_ascii " emoji")).
Eval vm_compute in ("<<<M828>>>" ++ check (runes_of_ascii "  options // c
{x_y_z =
    f64 } // " ++ [27880; 37322]%N ++ runes_of_ascii "
root
    packet As {@tag( 255	)string BodyLength ,
    @leftPad	(
) match Foo as
    body {007: i8i8 , 42 :
metadata
    , // @lengthOf(
"""" :
body, }
, }

")).
Eval vm_compute in ("<<<M860>>>" ++ check (runes_of_ascii "options { }
options {
pack =false; Z9_//
= false ;} packet Pad { }
packet u8x
{ repeat// " ++ [128512]%N ++ runes_of_ascii " emoji
matchKey packetx
, } //x")).
Eval vm_compute in ("<<<T860>>>" ++ terms [mkTok 1 "options" 1 0 false; mkTok 2 "{" 1 8 false; mkTok 3 "}" 1 10 false; mkTok 1 "options" 2 0 false; mkTok 2 "{" 2 8 false; mkTok 42 "pack" 3 0 false; mkTok 4 "=" 3 5 false; mkTok 11 "false" 3 6 false; mkTok 41 ";" 3 11 false; mkTok 42 "Z9_" 3 13 false; mkTok 44 "//" 3 16 true; mkTok 4 "=" 4 0 false; mkTok 11 "false" 4 2 false; mkTok 41 ";" 4 8 false; mkTok 3 "}" 4 9 false; mkTok 35 "packet" 4 11 false; mkTok 42 "Pad" 4 18 false; mkTok 2 "{" 4 22 false; mkTok 3 "}" 4 24 false; mkTok 35 "packet" 5 0 false; mkTok 42 "u8x" 5 7 false; mkTok 2 "{" 6 0 false; mkTok 36 "repeat" 6 2 false; mkTok 44 (string_of_bytes [47; 47; 32; 240; 159; 152; 128; 32; 101; 109; 111; 106; 105]%N) 6 8 true; mkTok 42 "matchKey" 7 0 false; mkTok 42 "packetx" 7 9 false; mkTok 40 "," 8 0 false; mkTok 3 "}" 8 2 false; mkTok 44 "//x" 8 4 true; mkTok 0 "<EOF>" 8 7 false] (mkPacket (mkPtok 1 "options" 1 0 0) (Some (mkPtok 3 "}" 8 2 27)) [(DOption (mkOptionDef (mkSpan (mkPtok 1 "options" 1 0 0) (mkPtok 3 "}" 1 10 2)) (mkPtok 1 "options" 1 0 0) (mkPtok 2 "{" 1 8 1) [] (mkPtok 3 "}" 1 10 2))); (DOption (mkOptionDef (mkSpan (mkPtok 1 "options" 2 0 3) (mkPtok 3 "}" 4 9 14)) (mkPtok 1 "options" 2 0 3) (mkPtok 2 "{" 2 8 4) [(mkOptionDecl (mkSpan (mkPtok 42 "pack" 3 0 5) (mkPtok 41 ";" 3 11 8)) (mkPtok 42 "pack" 3 0 5) (mkPtok 4 "=" 3 5 6) (VFalse (mkSpan (mkPtok 11 "false" 3 6 7) (mkPtok 11 "false" 3 6 7)) (mkPtok 11 "false" 3 6 7)) (Some (mkPtok 41 ";" 3 11 8))); (mkOptionDecl (mkSpan (mkPtok 42 "Z9_" 3 13 9) (mkPtok 41 ";" 4 8 13)) (mkPtok 42 "Z9_" 3 13 9) (mkPtok 4 "=" 4 0 11) (VFalse (mkSpan (mkPtok 11 "false" 4 2 12) (mkPtok 11 "false" 4 2 12)) (mkPtok 11 "false" 4 2 12)) (Some (mkPtok 41 ";" 4 8 13)))] (mkPtok 3 "}" 4 9 14))); (DPacket (mkPacketDef (mkSpan (mkPtok 35 "packet" 4 11 15) (mkPtok 3 "}" 4 24 18)) None (mkPtok 35 "packet" 4 11 15) (mkPtok 42 "Pad" 4 18 16) (mkPtok 2 "{" 4 22 17) [] (mkPtok 3 "}" 4 24 18))); (DPacket (mkPacketDef (mkSpan (mkPtok 35 "packet" 5 0 19) (mkPtok 3 "}" 8 2 27)) None (mkPtok 35 "packet" 5 0 19) (mkPtok 42 "u8x" 5 7 20) (mkPtok 2 "{" 6 0 21) [(mkFieldWithAttr (mkSpan (mkPtok 36 "repeat" 6 2 22) (mkPtok 40 "," 8 0 26)) [] (ObjectField (mkSpan (mkPtok 36 "repeat" 6 2 22) (mkPtok 40 "," 8 0 26)) (Some (mkPtok 36 "repeat" 6 2 22)) (mkPtok 42 "matchKey" 7 0 24) (Some (mkPtok 42 "packetx" 7 9 25)) None (mkPtok 40 "," 8 0 26)))] (mkPtok 3 "}" 8 2 27)))])).
Eval vm_compute in ("<<<M892>>>" ++ check (runes_of_ascii "  packet //	t
crc {i32 Z9_
// packet A { u8 x, }
// " ++ [27880; 37322]%N ++ runes_of_ascii "
@lengthOf( Pad ) ``, }
")).
Eval vm_compute in ("<<<M924>>>" ++ check (runes_of_ascii "
packet
    zchar // " ++ [128512]%N ++ runes_of_ascii " emoji
{ match Foo /// triple
as pack {""abc"": falsey ,10 : _x , }
,@tag(	255 )string
// @lengthOf(
// a // b
len `line1
line2` ,
}  MetaData o {metadata
A
    , string
stringy , string	Foo	`say ""hi""`	, repeatCount // " ++ [27880; 37322]%N ++ runes_of_ascii "
matchKey ,	x //x
u8x , // " ++ [27880; 37322]%N ++ runes_of_ascii "
} packet
    _x { @leftPad// @lengthOf(
(	'\x00') @calculatedFrom(
    ""packet""
) repeat
// trailing space 
// c
Foo
Z9_ , @lengthOf( As ) uint64
_x @lengthOf( pack )
/// triple
// a // b
,@rightPad // " ++ [128512]%N ++ runes_of_ascii " emoji
(
    '0'
)match A as uint8x
{	[0
,  ""\" ++ [233]%N ++ runes_of_ascii """]:Packet ,007	: MetaDataX // " ++ [128512]%N ++ runes_of_ascii " emoji
, ""1""	: trueish, }
,}
")).
Eval vm_compute in ("<<<M956>>>" ++ check (runes_of_ascii "
")).
Eval vm_compute in ("<<<M988>>>" ++ check (runes_of_ascii "options//x
{ } // @lengthOf(
root packet trueish {f32
Logon @calculatedFrom( ""`tick`"" ) `
` ,zchar[  0123456789 ]As @calculatedFrom( ""a	b"" ) ,
chars
    , char[] u128@lengthOf(
a1)
    `
`// a // b
,
    @tag( 255 )
repeat asx
    ,
} MetaData
    lengthOf //
{_x tag , float32 zchar , } options {As	= i64 ;} MetaData len {}
")).
Eval vm_compute in ("<<<M1020>>>" ++ check (runes_of_ascii "MetaData
    T
//x
// trailing space 
{ char[]	metadata, } MetaData
    a1
{ charz
float , i32 i8i8`say ""hi""` ,} packet pack {MetaDataX	, f64 calculatedFrom , zchar[3 ]
    // a // b
    T//
@calculatedFrom(
    """ ++ [233]%N ++ runes_of_ascii "t" ++ [233]%N ++ runes_of_ascii """) `doc` ,A {i16 charz,char[ //
0123456789 ]crc `" ++ [28040; 24687; 31867; 22411]%N ++ runes_of_ascii "` , char[]
string_ , } , // a // b
}")).
Eval vm_compute in ("<<<M1052>>>" ++ check (runes_of_ascii "packet
MetaDataX {zchar[4294967296
] o @calculatedFrom(
""" ++ [233]%N ++ runes_of_ascii "t" ++ [233]%N ++ runes_of_ascii """
// packet A { u8 x, }
// `tick` ""quote"" 'q'
) , @tag( 65535 ) @leftPad /// triple
(' ' )uint16 pack , char[]
charz  , zchar //
metadata , match  i64_
as asx { 0 :BodyLength , [
""" ++ [28040; 24687]%N ++ runes_of_ascii """ ] :	options1 , ""x y"" :
    matchKey ,""x y"": msg_type// " ++ [128512]%N ++ runes_of_ascii " emoji
}, @calculatedFrom(
""a\\"")match repeatCount as zchar { 007 :// a // b
crc
[
""" ++ [233]%N ++ runes_of_ascii "t" ++ [233]%N ++ runes_of_ascii """
    ,""" ++ [28040; 24687]%N ++ runes_of_ascii """ , ""it's"" ] : roots , } // a // b
, char[ 3]falsey `say ""hi""` , @calculatedFrom( ""a	b"") calculatedFrom Header ,repeat
    tag {stringy@calculatedFrom( ""\n""
),
match chars	as x_y_z { //	t
42 :
    repeatCount """ ++ [28040; 24687]%N ++ runes_of_ascii """	:pack
, /// triple
}
    ,
    char[ 3 ]x_y_z@lengthOf(//
body
) `two words` ,
o { repeat zchar[ 00 ] matchKey
    ,	repeat char[
1 ]
repeatCount  `it's` // " ++ [128512]%N ++ runes_of_ascii " emoji
,} , } , }")).
Eval vm_compute in ("<<<M1084>>>" ++ check (runes_of_ascii "root  packet
    leftPad { int64 BodyLength `// not a comment` ,	@tag(0 ) @leftPad( ) @tag( 255
    )
repeat Header // @lengthOf(
, } // c")).
Eval vm_compute in ("<<<T1084>>>" ++ terms [mkTok 34 "root" 1 0 false; mkTok 35 "packet" 1 6 false; mkTok 42 "leftPad" 2 4 false; mkTok 2 "{" 2 12 false; mkTok 27 "int64" 2 14 false; mkTok 42 "BodyLength" 2 20 false; mkTok 43 "`// not a comment`" 2 31 false; mkTok 40 "," 2 50 false; mkTok 9 "@tag(" 2 52 false; mkTok 30 "0" 2 57 false; mkTok 6 ")" 2 59 false; mkTok 32 "@leftPad" 2 61 false; mkTok 8 "(" 2 69 false; mkTok 6 ")" 2 71 false; mkTok 9 "@tag(" 2 73 false; mkTok 30 "255" 2 79 false; mkTok 6 ")" 3 4 false; mkTok 36 "repeat" 4 0 false; mkTok 42 "Header" 4 7 false; mkTok 44 "// @lengthOf(" 4 14 true; mkTok 40 "," 5 0 false; mkTok 3 "}" 5 2 false; mkTok 44 "// c" 5 4 true; mkTok 0 "<EOF>" 5 8 false] (mkPacket (mkPtok 34 "root" 1 0 0) (Some (mkPtok 3 "}" 5 2 21)) [(DPacket (mkPacketDef (mkSpan (mkPtok 34 "root" 1 0 0) (mkPtok 3 "}" 5 2 21)) (Some (mkPtok 34 "root" 1 0 0)) (mkPtok 35 "packet" 1 6 1) (mkPtok 42 "leftPad" 2 4 2) (mkPtok 2 "{" 2 12 3) [(mkFieldWithAttr (mkSpan (mkPtok 27 "int64" 2 14 4) (mkPtok 40 "," 2 50 7)) [] (MetaField (mkSpan (mkPtok 27 "int64" 2 14 4) (mkPtok 40 "," 2 50 7)) None (mkMetaDecl (mkSpan (mkPtok 27 "int64" 2 14 4) (mkPtok 40 "," 2 50 7)) (TyBasic (mkSpan (mkPtok 27 "int64" 2 14 4) (mkPtok 27 "int64" 2 14 4)) (mkBasicType (mkSpan (mkPtok 27 "int64" 2 14 4) (mkPtok 27 "int64" 2 14 4)) (mkPtok 27 "int64" 2 14 4))) (mkPtok 42 "BodyLength" 2 20 5) (Some (mkPtok 43 "`// not a comment`" 2 31 6)) (mkPtok 40 "," 2 50 7)))); (mkFieldWithAttr (mkSpan (mkPtok 9 "@tag(" 2 52 8) (mkPtok 40 "," 5 0 20)) [(FATag (mkSpan (mkPtok 9 "@tag(" 2 52 8) (mkPtok 6 ")" 2 59 10)) (mkTagAttr (mkSpan (mkPtok 9 "@tag(" 2 52 8) (mkPtok 6 ")" 2 59 10)) (mkPtok 9 "@tag(" 2 52 8) (mkPtok 30 "0" 2 57 9) (mkPtok 6 ")" 2 59 10))); (FAPadding (mkSpan (mkPtok 32 "@leftPad" 2 61 11) (mkPtok 6 ")" 2 71 13)) (mkPaddingAttr (mkSpan (mkPtok 32 "@leftPad" 2 61 11) (mkPtok 6 ")" 2 71 13)) (mkPtok 32 "@leftPad" 2 61 11) (mkPtok 8 "(" 2 69 12) None (mkPtok 6 ")" 2 71 13))); (FATag (mkSpan (mkPtok 9 "@tag(" 2 73 14) (mkPtok 6 ")" 3 4 16)) (mkTagAttr (mkSpan (mkPtok 9 "@tag(" 2 73 14) (mkPtok 6 ")" 3 4 16)) (mkPtok 9 "@tag(" 2 73 14) (mkPtok 30 "255" 2 79 15) (mkPtok 6 ")" 3 4 16)))] (ObjectField (mkSpan (mkPtok 36 "repeat" 4 0 17) (mkPtok 40 "," 5 0 20)) (Some (mkPtok 36 "repeat" 4 0 17)) (mkPtok 42 "Header" 4 7 18) None None (mkPtok 40 "," 5 0 20)))] (mkPtok 3 "}" 5 2 21)))])).
Eval vm_compute in ("<<<M1116>>>" ++ check (runes_of_ascii "options {
_x = 65535// " ++ [128512]%N ++ runes_of_ascii " emoji
; }
")).
Eval vm_compute in ("<<<M1148>>>" ++ check (runes_of_ascii "root packet
    calculatedFrom { uint8
pack  @lengthOf(
crc )//
`// not a comment`
    ,}
")).
Eval vm_compute in ("<<<M1180>>>" ++ check (runes_of_ascii "root
packet leftPad {match As as
A {
00 :i8i8, ""x y"": Packet
""abc"" :falsey
// trailing space 
//x
,  } , float32 trueish,
@calculatedFrom( ""1"" ) u64  roots`line1
line2` // trailing space 
,
@tag( 42 //	t
) string
int
    @lengthOf(
    Header ) , @tag(
    1 ) @lengthOf( // c
float) rootA  Z9_,match msg_type as metadata {[ 7 ,	0123456789 ] /// triple
: uint8x	, [ 255 ]:int ,
    // @lengthOf(
    255
    // trailing space 
    :  lengthOf , ""a\\""  : u128, ""1"" : // packet A { u8 x, }
u128
    , }
,roots //	t
int `two words` ,repeat BodyLength asx
,lengthOf@lengthOf(packetx ) ,@lengthOf(
a1
) char[
    /// triple
    10
    ]
//	t
//
x, }
    options { f32a
= '0'
; chars
    =  ' ';Header= ' ' ; i8i8
    =zchar[ 007 ]
; leftPad =
' '
    ;
}packet falsey
    {	@lengthOf(
    u8x
)x@lengthOf(tag
)
    // @lengthOf(
    , }
")).
Eval vm_compute in ("<<<M1212>>>" ++ check (runes_of_ascii "packet
    string_{  int64	calculatedFrom , }")).
Eval vm_compute in ("<<<M1244>>>" ++ check (runes_of_ascii "packet lengthOf { string falsey
//
// trailing space 
, repeat char[] tag  `
`
    // " ++ [27880; 37322]%N ++ runes_of_ascii "
    ,
    @rightPad('0' ) body { int8 pack@calculatedFrom( """" )`say ""hi""`
    ,// a // b
repeat
    char calculatedFrom ,float32 leftPad @lengthOf(
A )
// c
// @lengthOf(
, int64  Header ,	}
, i64_`{ , }`
,
f64 repeatCount `" ++ [233]%N ++ runes_of_ascii "` ,
} // trailing space ")).
Eval vm_compute in ("<<<M1276>>>" ++ check (runes_of_ascii "packet
    Header
{
i32 float, } // `tick` ""quote"" 'q'")).
Eval vm_compute in ("<<<M1308>>>" ++ check (runes_of_ascii "
MetaData chars
    { // " ++ [128512]%N ++ runes_of_ascii " emoji
trueish
rootA `say ""hi""` , uint8 Packet , zchar[ 0123456789
    //
    ] Z9_
,	}

")).
Eval vm_compute in ("<<<T1308>>>" ++ terms [mkTok 37 "MetaData" 2 0 false; mkTok 42 "chars" 2 9 false; mkTok 2 "{" 3 4 false; mkTok 44 (string_of_bytes [47; 47; 32; 240; 159; 152; 128; 32; 101; 109; 111; 106; 105]%N) 3 6 true; mkTok 42 "trueish" 4 0 false; mkTok 42 "rootA" 5 0 false; mkTok 43 "`say ""hi""`" 5 6 false; mkTok 40 "," 5 17 false; mkTok 20 "uint8" 5 19 false; mkTok 42 "Packet" 5 25 false; mkTok 40 "," 5 32 false; mkTok 14 "zchar[" 5 34 false; mkTok 30 "0123456789" 5 41 false; mkTok 44 "//" 6 4 true; mkTok 13 "]" 7 4 false; mkTok 42 "Z9_" 7 6 false; mkTok 40 "," 8 0 false; mkTok 3 "}" 8 2 false; mkTok 0 "<EOF>" 10 0 false] (mkPacket (mkPtok 37 "MetaData" 2 0 0) (Some (mkPtok 3 "}" 8 2 17)) [(DMeta (mkMetaDef (mkSpan (mkPtok 37 "MetaData" 2 0 0) (mkPtok 3 "}" 8 2 17)) (mkPtok 37 "MetaData" 2 0 0) (mkPtok 42 "chars" 2 9 1) (mkPtok 2 "{" 3 4 2) [(MIRef (mkRefMetaDecl (mkSpan (mkPtok 42 "trueish" 4 0 4) (mkPtok 40 "," 5 17 7)) (mkPtok 42 "trueish" 4 0 4) (mkPtok 42 "rootA" 5 0 5) (Some (mkPtok 43 "`say ""hi""`" 5 6 6)) (mkPtok 40 "," 5 17 7))); (MIDecl (mkMetaDecl (mkSpan (mkPtok 20 "uint8" 5 19 8) (mkPtok 40 "," 5 32 10)) (TyBasic (mkSpan (mkPtok 20 "uint8" 5 19 8) (mkPtok 20 "uint8" 5 19 8)) (mkBasicType (mkSpan (mkPtok 20 "uint8" 5 19 8) (mkPtok 20 "uint8" 5 19 8)) (mkPtok 20 "uint8" 5 19 8))) (mkPtok 42 "Packet" 5 25 9) None (mkPtok 40 "," 5 32 10))); (MIDecl (mkMetaDecl (mkSpan (mkPtok 14 "zchar[" 5 34 11) (mkPtok 40 "," 8 0 16)) (TyFixed (mkSpan (mkPtok 14 "zchar[" 5 34 11) (mkPtok 13 "]" 7 4 14)) (mkFixedString (mkSpan (mkPtok 14 "zchar[" 5 34 11) (mkPtok 13 "]" 7 4 14)) (mkPtok 14 "zchar[" 5 34 11) (mkPtok 30 "0123456789" 5 41 12) (mkPtok 13 "]" 7 4 14))) (mkPtok 42 "Z9_" 7 6 15) None (mkPtok 40 "," 8 0 16)))] (mkPtok 3 "}" 8 2 17)))])).
Eval vm_compute in ("<<<M1340>>>" ++ check (runes_of_ascii "MetaData lengthOf	{i64 u128
    // trailing space 
    ,uint32// trailing space 
calculatedFrom
,
    char[ 00] string_ , }
root
    packet falsey{char[] // " ++ [128512]%N ++ runes_of_ascii " emoji
len `line1
line2` , @tag(255
)
uint8x @lengthOf(
falsey	)
,
    float32 // `tick` ""quote"" 'q'
len ,  repeat calculatedFrom i64_
`say ""hi""`
    ,
    // c
    @rightPad (
    // " ++ [27880; 37322]%N ++ runes_of_ascii "
    '0'	)
    char[ 10]
Logon , } packet rootA // c
{
// " ++ [128512]%N ++ runes_of_ascii " emoji
// a // b
x { falsey
    Logon
    ,
    trueish@calculatedFrom( ""`tick`"")
    `// not a comment`
, uint8x
    body ,
    } , @calculatedFrom( ""{,}""
)@calculatedFrom( ""a\\"" )match //x
f32a as i8i8 {// " ++ [27880; 37322]%N ++ runes_of_ascii "
10 :
matchKey , 1:	packetx , 0123456789 :
    Header
,
    ""it's"" :  i64_ , // packet A { u8 x, }
0 : pack ,} ,repeat
uint8x	x_y_z`" ++ [28040; 24687; 31867; 22411]%N ++ runes_of_ascii "`, repeat
char[
255 ] string_ ,
@lengthOf( int ) calculatedFrom , @tag( 4294967296
) u16 packetx @calculatedFrom(  """ ++ [28040; 24687]%N ++ runes_of_ascii """ ) ,	u128 body`doc` , }
    root packet	tag {
//x
// `tick` ""quote"" 'q'
i32 A
// @lengthOf(
// packet A { u8 x, }
, }
    options { }")).
Eval vm_compute in ("<<<M1372>>>" ++ check (runes_of_ascii "  options //
{ u8x
=
    zchar[ 0  ]
    }")).
Eval vm_compute in ("<<<M1404>>>" ++ check (runes_of_ascii "options { matchKey
= 0 Header =
// " ++ [128512]%N ++ runes_of_ascii " emoji
// c
""CRC32"" }
")).
Eval vm_compute in ("<<<M1436>>>" ++ check (runes_of_ascii "
packet
    //x
    leftPad {
    }options
{ Foo
= ""1""zchar
    = 65535 uint8x  = zchar[ 10
    ] ;
} MetaData
    u128 { f32a x
, i16 u8x
    `two words` , BodyLength metadata `// not a comment` // a // b
,
    } options {As= '\x00'
;}")).
Eval vm_compute in ("<<<M1468>>>" ++ check (runes_of_ascii "
packet /// triple
BodyLength
{
    }
")).
Eval vm_compute in ("<<<M1500>>>" ++ check (runes_of_ascii "//x
packet o
// packet A { u8 x, }
/// triple
{ match
x as BodyLength
{ 65535:
msg_type
    } , string roots
@calculatedFrom( ""it's"") ,
    @tag(0 )
    match // trailing space 
u128
    /// triple
    as u8x// `tick` ""quote"" 'q'
{ //x
[65535
    , 4294967296
    ]: a1 ,7
: chars
    [ 3
,	""a	b"" ] : crc, ""\n"" :
repeatCount , }	, } // packet A { u8 x, }")).
Eval vm_compute in ("<<<M1532>>>" ++ check (runes_of_ascii "packet
Z9_ { string trueish, }")).
Eval vm_compute in ("<<<T1532>>>" ++ terms [mkTok 35 "packet" 1 0 false; mkTok 42 "Z9_" 2 0 false; mkTok 2 "{" 2 4 false; mkTok 15 "string" 2 6 false; mkTok 42 "trueish" 2 13 false; mkTok 40 "," 2 20 false; mkTok 3 "}" 2 22 false; mkTok 0 "<EOF>" 2 23 false] (mkPacket (mkPtok 35 "packet" 1 0 0) (Some (mkPtok 3 "}" 2 22 6)) [(DPacket (mkPacketDef (mkSpan (mkPtok 35 "packet" 1 0 0) (mkPtok 3 "}" 2 22 6)) None (mkPtok 35 "packet" 1 0 0) (mkPtok 42 "Z9_" 2 0 1) (mkPtok 2 "{" 2 4 2) [(mkFieldWithAttr (mkSpan (mkPtok 15 "string" 2 6 3) (mkPtok 40 "," 2 20 5)) [] (MetaField (mkSpan (mkPtok 15 "string" 2 6 3) (mkPtok 40 "," 2 20 5)) None (mkMetaDecl (mkSpan (mkPtok 15 "string" 2 6 3) (mkPtok 40 "," 2 20 5)) (TyDynamic (mkSpan (mkPtok 15 "string" 2 6 3) (mkPtok 15 "string" 2 6 3)) (mkDynamicString (mkSpan (mkPtok 15 "string" 2 6 3) (mkPtok 15 "string" 2 6 3)) (mkPtok 15 "string" 2 6 3))) (mkPtok 42 "trueish" 2 13 4) None (mkPtok 40 "," 2 20 5))))] (mkPtok 3 "}" 2 22 6)))])).
Eval vm_compute in ("<<<M1564>>>" ++ check (runes_of_ascii "// trailing space 

")).
Eval vm_compute in ("<<<M1596>>>" ++ check (runes_of_ascii "options {pack
= true//	t
; } options  { i8i8= // packet A { u8 x, }
char[]  ; // c
Header= ""it's"";  msg_type = ""\n"" ; roots =
    /// triple
    '0' ; Z9_ =
    ""\" ++ [233]%N ++ runes_of_ascii """;}packet // " ++ [128512]%N ++ runes_of_ascii " emoji
msg_type {
}")).
Eval vm_compute in ("<<<M1628>>>" ++ check (runes_of_ascii "options { // " ++ [128512]%N ++ runes_of_ascii " emoji
}
")).
Eval vm_compute in ("<<<M1660>>>" ++ check (runes_of_ascii "packet As
{ match pack as i8i8  {4294967296 :
// `tick` ""quote"" 'q'
// trailing space 
MetaDataX,65535
:o ,
    ""x y""
: tag /// triple
""CRC32""
:
    u,
42: tag
""\n"" //	t
: options1
,
}
,
// packet A { u8 x, }
/// triple
repeat	zchar { asx lengthOf , } // c
,}options
//x
// packet A { u8 x, }
{ charz = i32
    ;x =i32	string_ = ' '// @lengthOf(
;}
MetaData int {Foo  x_y_z
    `a\` ,
// a // b
// " ++ [128512]%N ++ runes_of_ascii " emoji
} MetaData u {
x crc`" ++ [28040; 24687; 31867; 22411]%N ++ runes_of_ascii "`, } root	packet repeatCount
//x
//	t
{ @lengthOf( options1 ) MetaDataX @lengthOf( As	) , uint32
Z9_ // c
, f64 A ,
    repeat string int , // packet A { u8 x, }
u16 float
@calculatedFrom(  ""a	b""  )
// trailing space 
// @lengthOf(
, @rightPad ( '\x00' ) roots crc , }")).
Eval vm_compute in ("<<<M1692>>>" ++ check (runes_of_ascii "
packet
uint8x// packet A { u8 x, }
{ }	options { _x= i8
falsey =
7 ;leftPad = char[]
//
/// triple
; pack  = '0' }

")).
Eval vm_compute in ("<<<M1724>>>" ++ check (runes_of_ascii "packet// packet A { u8 x, }
string_{ @tag(007
) @calculatedFrom( """ ++ [128512]%N ++ runes_of_ascii """ )@leftPad ( // trailing space 
'0' )
int8 i64_@lengthOf(i8i8 )// @lengthOf(
`" ++ [28040; 24687; 31867; 22411]%N ++ runes_of_ascii "` ,
@calculatedFrom( """"
) zchar[ 007 ]a1 `line1
line2`, @lengthOf(	asx
) pack
{// packet A { u8 x, }
Packet, repeat lengthOf {	match u8x//	t
as u128
{ [
    00, ""// no comment""]
:uint8x , }	,char[ 7 ]
    int
// trailing space 
// " ++ [27880; 37322]%N ++ runes_of_ascii "
`say ""hi""` // `tick` ""quote"" 'q'
,} ,} , @tag( 1
    ) body ,	repeat
char[]
    i64_	, tag @calculatedFrom(//	t
"""" ), repeat Logon {
falsey string_`a\` ,string chars `` , //
pack
{ roots {repeat msg_type//x
, }
,
    char[]Pad  @calculatedFrom(
""CRC32"") , } // " ++ [128512]%N ++ runes_of_ascii " emoji
, } ,
@leftPad ( ' '// @lengthOf(
)
@lengthOf( f32a ) T{ i16 Pad
    @lengthOf( rootA ) // " ++ [27880; 37322]%N ++ runes_of_ascii "
`tab	here`, rootA {	i64_ ,
}// `tick` ""quote"" 'q'
,
    repeat MetaDataX i64_ , }	,repeat
MetaDataX MetaDataX
, }

")).
Eval vm_compute in ("<<<M1756>>>" ++ check (runes_of_ascii "options
    {
    Logon =u32 ;  i64_ // " ++ [27880; 37322]%N ++ runes_of_ascii "
=
i8 }
    /// triple
    MetaData repeatCount
{/// triple
uint8 o , }
")).
Eval vm_compute in ("<<<T1756>>>" ++ terms [mkTok 1 "options" 1 0 false; mkTok 2 "{" 2 4 false; mkTok 42 "Logon" 3 4 false; mkTok 4 "=" 3 10 false; mkTok 22 "u32" 3 11 false; mkTok 41 ";" 3 15 false; mkTok 42 "i64_" 3 18 false; mkTok 44 (string_of_bytes [47; 47; 32; 230; 179; 168; 233; 135; 138]%N) 3 23 true; mkTok 4 "=" 4 0 false; mkTok 24 "i8" 5 0 false; mkTok 3 "}" 5 3 false; mkTok 44 "/// triple" 6 4 true; mkTok 37 "MetaData" 7 4 false; mkTok 42 "repeatCount" 7 13 false; mkTok 2 "{" 8 0 false; mkTok 44 "/// triple" 8 1 true; mkTok 20 "uint8" 9 0 false; mkTok 42 "o" 9 6 false; mkTok 40 "," 9 8 false; mkTok 3 "}" 9 10 false; mkTok 0 "<EOF>" 10 0 false] (mkPacket (mkPtok 1 "options" 1 0 0) (Some (mkPtok 3 "}" 9 10 19)) [(DOption (mkOptionDef (mkSpan (mkPtok 1 "options" 1 0 0) (mkPtok 3 "}" 5 3 10)) (mkPtok 1 "options" 1 0 0) (mkPtok 2 "{" 2 4 1) [(mkOptionDecl (mkSpan (mkPtok 42 "Logon" 3 4 2) (mkPtok 41 ";" 3 15 5)) (mkPtok 42 "Logon" 3 4 2) (mkPtok 4 "=" 3 10 3) (VType (mkSpan (mkPtok 22 "u32" 3 11 4) (mkPtok 22 "u32" 3 11 4)) (TyBasic (mkSpan (mkPtok 22 "u32" 3 11 4) (mkPtok 22 "u32" 3 11 4)) (mkBasicType (mkSpan (mkPtok 22 "u32" 3 11 4) (mkPtok 22 "u32" 3 11 4)) (mkPtok 22 "u32" 3 11 4)))) (Some (mkPtok 41 ";" 3 15 5))); (mkOptionDecl (mkSpan (mkPtok 42 "i64_" 3 18 6) (mkPtok 24 "i8" 5 0 9)) (mkPtok 42 "i64_" 3 18 6) (mkPtok 4 "=" 4 0 8) (VType (mkSpan (mkPtok 24 "i8" 5 0 9) (mkPtok 24 "i8" 5 0 9)) (TyBasic (mkSpan (mkPtok 24 "i8" 5 0 9) (mkPtok 24 "i8" 5 0 9)) (mkBasicType (mkSpan (mkPtok 24 "i8" 5 0 9) (mkPtok 24 "i8" 5 0 9)) (mkPtok 24 "i8" 5 0 9)))) None)] (mkPtok 3 "}" 5 3 10))); (DMeta (mkMetaDef (mkSpan (mkPtok 37 "MetaData" 7 4 12) (mkPtok 3 "}" 9 10 19)) (mkPtok 37 "MetaData" 7 4 12) (mkPtok 42 "repeatCount" 7 13 13) (mkPtok 2 "{" 8 0 14) [(MIDecl (mkMetaDecl (mkSpan (mkPtok 20 "uint8" 9 0 16) (mkPtok 40 "," 9 8 18)) (TyBasic (mkSpan (mkPtok 20 "uint8" 9 0 16) (mkPtok 20 "uint8" 9 0 16)) (mkBasicType (mkSpan (mkPtok 20 "uint8" 9 0 16) (mkPtok 20 "uint8" 9 0 16)) (mkPtok 20 "uint8" 9 0 16))) (mkPtok 42 "o" 9 6 17) None (mkPtok 40 "," 9 8 18)))] (mkPtok 3 "}" 9 10 19)))])).
Eval vm_compute in ("<<<M1788>>>" ++ check (runes_of_ascii "packet//x
pack{
}
    packet Foo{
    @lengthOf(
    As )
    float options1 , zchar[  00 // packet A { u8 x, }
] float `tab	here`,
    x @lengthOf(
charz// trailing space 
)	,
    zchar[7
] // " ++ [27880; 37322]%N ++ runes_of_ascii "
Header	, }  MetaData Pad  {asx //x
matchKey,
    zchar[ 1  ] uint8x , // a // b
}
// " ++ [27880; 37322]%N ++ runes_of_ascii "
")).
Eval vm_compute in ("<<<M1820>>>" ++ check (runes_of_ascii "root packet chars {
} // " ++ [27880; 37322]%N ++ runes_of_ascii "
MetaData uint8x {
    f32
msg_type
    ,T MetaDataX``//
, tag
    T// @lengthOf(
,  Logon
uint8x `" ++ [233]%N ++ runes_of_ascii "`,
zchar[ 10 ] // packet A { u8 x, }
x`say ""hi""` , }
")).
Eval vm_compute in ("<<<M1852>>>" ++ check (runes_of_ascii "// @lengthOf(
packet falsey
{ } packet Foo { // " ++ [27880; 37322]%N ++ runes_of_ascii "
@calculatedFrom( ""// no comment"" ) Pad @lengthOf( Logon
    ) ,string As `// not a comment`
    ,}MetaData
    //x
    BodyLength	{ zchar[ 7] len  `{ , }`, char[ // c
42 ] falsey `a\`
,msg_type
asx ,
} root packet // @lengthOf(
roots { @lengthOf(matchKey
    ) rootA {	char[ 007]
    // " ++ [27880; 37322]%N ++ runes_of_ascii "
    u8x
    @lengthOf( falsey
)
    `crlf
line`, }
,}")).
Eval vm_compute in ("<<<M1884>>>" ++ check (runes_of_ascii "
packet x_y_z // @lengthOf(
{
    }	options
//	t
//	t
{ f32a
    =
    // @lengthOf(
    false ;
// packet A { u8 x, }
// @lengthOf(
metadata = 007 ;
}")).
Eval vm_compute in ("<<<M1916>>>" ++ check (runes_of_ascii "packet // " ++ [27880; 37322]%N ++ runes_of_ascii "
_x {
zchar[ 255
] o
    , // packet A { u8 x, }
char[]
msg_type`crlf
line` ,int32 float@calculatedFrom(
    ""{,}"") ,@leftPad
( // trailing space 
'\x00' // @lengthOf(
)_x
uint8x`a\`, @rightPad	(	) f64 _x
    @lengthOf(BodyLength
) `line1
line2` ,
char[ 00] Logon @lengthOf( msg_type
    ) ,match
    uint8x as pack	{	[ 0123456789	, ""packet""	, ""it's"" ,3] : //
matchKey,
} , i64_ ``
, match msg_type as int{ 10 ://
rootA , """"	:
    asx 255 :float
    ,	4294967296 :crc
    ""\" ++ [233]%N ++ runes_of_ascii """
    :
zchar 0123456789 :
matchKey
} , } root packet
    // a // b
    Header { repeat
MetaDataX
    Packet `two words` ,
@rightPad // trailing space 
( // packet A { u8 x, }
)  repeat
msg_type
// @lengthOf(
//	t
As
    , f64 Foo// @lengthOf(
@lengthOf(len ) ,
    @lengthOf(
    BodyLength
    )
    // a // b
    len{ uint8// " ++ [128512]%N ++ runes_of_ascii " emoji
len @calculatedFrom(""CRC32""
) , uint8x
    {i64 f32a`
` ,}
,//
}//
,@calculatedFrom( """ ++ [233]%N ++ runes_of_ascii "t" ++ [233]%N ++ runes_of_ascii """ ) char[]chars , } root packet  chars { string roots@calculatedFrom(""" ++ [28040; 24687]%N ++ runes_of_ascii """ )
, }MetaData falsey {char[]  stringy,uint8 T
``
,  }options{ options1 =/// triple
false
    ; a1 =
    ""x y"" charz =""\n"" ; }")).
Eval vm_compute in ("<<<M1948>>>" ++ check (runes_of_ascii "

")).
Eval vm_compute in ("<<<M1980>>>" ++ check (runes_of_ascii "options // " ++ [27880; 37322]%N ++ runes_of_ascii "
{ f32a =true } root packet As	{@lengthOf( // " ++ [27880; 37322]%N ++ runes_of_ascii "
Pad)	repeat
//	t
//x
uint32 falsey  ,@calculatedFrom(
""\" ++ [233]%N ++ runes_of_ascii """ )	match body as BodyLength { [
    ""a\""b"" ]:
len } , @tag( 42 )repeat
zchar	{ repeat
    i64	charz `
`
,	match rootA	as
len
    {//	t
65535 : //x
rootA ""\n"" : /// triple
Z9_
// packet A { u8 x, }
// `tick` ""quote"" 'q'
1  ://x
roots ,} //
,
uint32
    repeatCount`tab	here`
    , match T as
metadata { [ 42 , //x
65535,	4294967296 ] : i8i8 255
    : u
, 00 :
packetx // " ++ [128512]%N ++ runes_of_ascii " emoji
}
    ,
    } // packet A { u8 x, }
, MetaDataX @calculatedFrom( ""1"" )
, //x
}
//x
// " ++ [128512]%N ++ runes_of_ascii " emoji
options{ len	=
    // @lengthOf(
    42
; leftPad = ""a\\"" // @lengthOf(
;BodyLength=// packet A { u8 x, }
int16 }")).
Eval vm_compute in ("<<<T1980>>>" ++ terms [mkTok 1 "options" 1 0 false; mkTok 44 (string_of_bytes [47; 47; 32; 230; 179; 168; 233; 135; 138]%N) 1 8 true; mkTok 2 "{" 2 0 false; mkTok 42 "f32a" 2 2 false; mkTok 4 "=" 2 7 false; mkTok 10 "true" 2 8 false; mkTok 3 "}" 2 13 false; mkTok 34 "root" 2 15 false; mkTok 35 "packet" 2 20 false; mkTok 42 "As" 2 27 false; mkTok 2 "{" 2 30 false; mkTok 7 "@lengthOf(" 2 31 false; mkTok 44 (string_of_bytes [47; 47; 32; 230; 179; 168; 233; 135; 138]%N) 2 42 true; mkTok 42 "Pad" 3 0 false; mkTok 6 ")" 3 3 false; mkTok 36 "repeat" 3 5 false; mkTok 44 (string_of_bytes [47; 47; 9; 116]%N) 4 0 true; mkTok 44 "//x" 5 0 true; mkTok 22 "uint32" 6 0 false; mkTok 42 "falsey" 6 7 false; mkTok 40 "," 6 15 false; mkTok 5 "@calculatedFrom(" 6 16 false; mkTok 31 (string_of_bytes [34; 92; 195; 169; 34]%N) 7 0 false; mkTok 6 ")" 7 5 false; mkTok 38 "match" 7 7 false; mkTok 42 "body" 7 13 false; mkTok 17 "as" 7 18 false; mkTok 42 "BodyLength" 7 21 false; mkTok 2 "{" 7 32 false; mkTok 18 "[" 7 34 false; mkTok 31 """a\""b""" 8 4 false; mkTok 13 "]" 8 11 false; mkTok 39 ":" 8 12 false; mkTok 42 "len" 9 0 false; mkTok 3 "}" 9 4 false; mkTok 40 "," 9 6 false; mkTok 9 "@tag(" 9 8 false; mkTok 30 "42" 9 14 false; mkTok 6 ")" 9 17 false; mkTok 36 "repeat" 9 18 false; mkTok 42 "zchar" 10 0 false; mkTok 2 "{" 10 6 false; mkTok 36 "repeat" 10 8 false; mkTok 27 "i64" 11 4 false; mkTok 42 "charz" 11 8 false; mkTok 43 (string_of_bytes [96; 10; 96]%N) 11 14 false; mkTok 40 "," 13 0 false; mkTok 38 "match" 13 2 false; mkTok 42 "rootA" 13 8 false; mkTok 17 "as" 13 14 false; mkTok 42 "len" 14 0 false; mkTok 2 "{" 15 4 false; mkTok 44 (string_of_bytes [47; 47; 9; 116]%N) 15 5 true; mkTok 30 "65535" 16 0 false; mkTok 39 ":" 16 6 false; mkTok 44 "//x" 16 8 true; mkTok 42 "rootA" 17 0 false; mkTok 31 """\n""" 17 6 false; mkTok 39 ":" 17 11 false; mkTok 44 "/// triple" 17 13 true; mkTok 42 "Z9_" 18 0 false; mkTok 44 "// packet A { u8 x, }" 19 0 true; mkTok 44 "// `tick` ""quote"" 'q'" 20 0 true; mkTok 30 "1" 21 0 false; mkTok 39 ":" 21 3 false; mkTok 44 "//x" 21 4 true; mkTok 42 "roots" 22 0 false; mkTok 40 "," 22 6 false; mkTok 3 "}" 22 7 false; mkTok 44 "//" 22 9 true; mkTok 40 "," 23 0 false; mkTok 22 "uint32" 24 0 false; mkTok 42 "repeatCount" 25 4 false; mkTok 43 (string_of_bytes [96; 116; 97; 98; 9; 104; 101; 114; 101; 96]%N) 25 15 false; mkTok 40 "," 26 4 false; mkTok 38 "match" 26 6 false; mkTok 42 "T" 26 12 false; mkTok 17 "as" 26 14 false; mkTok 42 "metadata" 27 0 false; mkTok 2 "{" 27 9 false; mkTok 18 "[" 27 11 false; mkTok 30 "42" 27 13 false; mkTok 40 "," 27 16 false; mkTok 44 "//x" 27 18 true; mkTok 30 "65535" 28 0 false; mkTok 40 "," 28 5 false; mkTok 30 "4294967296" 28 7 false; mkTok 13 "]" 28 18 false; mkTok 39 ":" 28 20 false; mkTok 42 "i8i8" 28 22 false; mkTok 30 "255" 28 27 false; mkTok 39 ":" 29 4 false; mkTok 42 "u" 29 6 false; mkTok 40 "," 30 0 false; mkTok 30 "00" 30 2 false; mkTok 39 ":" 30 5 false; mkTok 42 "packetx" 31 0 false; mkTok 44 (string_of_bytes [47; 47; 32; 240; 159; 152; 128; 32; 101; 109; 111; 106; 105]%N) 31 8 true; mkTok 3 "}" 32 0 false; mkTok 40 "," 33 4 false; mkTok 3 "}" 34 4 false; mkTok 44 "// packet A { u8 x, }" 34 6 true; mkTok 40 "," 35 0 false; mkTok 42 "MetaDataX" 35 2 false; mkTok 5 "@calculatedFrom(" 35 12 false; mkTok 31 """1""" 35 29 false; mkTok 6 ")" 35 33 false; mkTok 40 "," 36 0 false; mkTok 44 "//x" 36 2 true; mkTok 3 "}" 37 0 false; mkTok 44 "//x" 38 0 true; mkTok 44 (string_of_bytes [47; 47; 32; 240; 159; 152; 128; 32; 101; 109; 111; 106; 105]%N) 39 0 true; mkTok 1 "options" 40 0 false; mkTok 2 "{" 40 7 false; mkTok 42 "len" 40 9 false; mkTok 4 "=" 40 13 false; mkTok 44 "// @lengthOf(" 41 4 true; mkTok 30 "42" 42 4 false; mkTok 41 ";" 43 0 false; mkTok 42 "leftPad" 43 2 false; mkTok 4 "=" 43 10 false; mkTok 31 """a\\""" 43 12 false; mkTok 44 "// @lengthOf(" 43 18 true; mkTok 41 ";" 44 0 false; mkTok 42 "BodyLength" 44 1 false; mkTok 4 "=" 44 11 false; mkTok 44 "// packet A { u8 x, }" 44 12 true; mkTok 25 "int16" 45 0 false; mkTok 3 "}" 45 6 false; mkTok 0 "<EOF>" 45 7 false] (mkPacket (mkPtok 1 "options" 1 0 0) (Some (mkPtok 3 "}" 45 6 128)) [(DOption (mkOptionDef (mkSpan (mkPtok 1 "options" 1 0 0) (mkPtok 3 "}" 2 13 6)) (mkPtok 1 "options" 1 0 0) (mkPtok 2 "{" 2 0 2) [(mkOptionDecl (mkSpan (mkPtok 42 "f32a" 2 2 3) (mkPtok 10 "true" 2 8 5)) (mkPtok 42 "f32a" 2 2 3) (mkPtok 4 "=" 2 7 4) (VTrue (mkSpan (mkPtok 10 "true" 2 8 5) (mkPtok 10 "true" 2 8 5)) (mkPtok 10 "true" 2 8 5)) None)] (mkPtok 3 "}" 2 13 6))); (DPacket (mkPacketDef (mkSpan (mkPtok 34 "root" 2 15 7) (mkPtok 3 "}" 37 0 109)) (Some (mkPtok 34 "root" 2 15 7)) (mkPtok 35 "packet" 2 20 8) (mkPtok 42 "As" 2 27 9) (mkPtok 2 "{" 2 30 10) [(mkFieldWithAttr (mkSpan (mkPtok 7 "@lengthOf(" 2 31 11) (mkPtok 40 "," 6 15 20)) [(FALengthOf (mkSpan (mkPtok 7 "@lengthOf(" 2 31 11) (mkPtok 6 ")" 3 3 14)) (mkLengthOf (mkSpan (mkPtok 7 "@lengthOf(" 2 31 11) (mkPtok 6 ")" 3 3 14)) (mkPtok 7 "@lengthOf(" 2 31 11) (mkPtok 42 "Pad" 3 0 13) (mkPtok 6 ")" 3 3 14)))] (MetaField (mkSpan (mkPtok 36 "repeat" 3 5 15) (mkPtok 40 "," 6 15 20)) (Some (mkPtok 36 "repeat" 3 5 15)) (mkMetaDecl (mkSpan (mkPtok 22 "uint32" 6 0 18) (mkPtok 40 "," 6 15 20)) (TyBasic (mkSpan (mkPtok 22 "uint32" 6 0 18) (mkPtok 22 "uint32" 6 0 18)) (mkBasicType (mkSpan (mkPtok 22 "uint32" 6 0 18) (mkPtok 22 "uint32" 6 0 18)) (mkPtok 22 "uint32" 6 0 18))) (mkPtok 42 "falsey" 6 7 19) None (mkPtok 40 "," 6 15 20)))); (mkFieldWithAttr (mkSpan (mkPtok 5 "@calculatedFrom(" 6 16 21) (mkPtok 40 "," 9 6 35)) [(FACalculatedFrom (mkSpan (mkPtok 5 "@calculatedFrom(" 6 16 21) (mkPtok 6 ")" 7 5 23)) (mkCalculatedFrom (mkSpan (mkPtok 5 "@calculatedFrom(" 6 16 21) (mkPtok 6 ")" 7 5 23)) (mkPtok 5 "@calculatedFrom(" 6 16 21) (mkPtok 31 (string_of_bytes [34; 92; 195; 169; 34]%N) 7 0 22) (mkPtok 6 ")" 7 5 23)))] (MatchField (mkSpan (mkPtok 38 "match" 7 7 24) (mkPtok 40 "," 9 6 35)) (mkMatchFieldDecl (mkSpan (mkPtok 38 "match" 7 7 24) (mkPtok 3 "}" 9 4 34)) (mkPtok 38 "match" 7 7 24) (mkPtok 42 "body" 7 13 25) (mkPtok 17 "as" 7 18 26) (mkPtok 42 "BodyLength" 7 21 27) (mkPtok 2 "{" 7 32 28) [(mkMatchPair (mkSpan (mkPtok 18 "[" 7 34 29) (mkPtok 42 "len" 9 0 33)) (MKList (mkKeyList (mkSpan (mkPtok 18 "[" 7 34 29) (mkPtok 13 "]" 8 11 31)) (mkPtok 18 "[" 7 34 29) (mkPtok 31 """a\""b""" 8 4 30) [] (mkPtok 13 "]" 8 11 31))) (mkPtok 39 ":" 8 12 32) (mkPtok 42 "len" 9 0 33) None)] (mkPtok 3 "}" 9 4 34)) (mkPtok 40 "," 9 6 35))); (mkFieldWithAttr (mkSpan (mkPtok 9 "@tag(" 9 8 36) (mkPtok 40 "," 35 0 102)) [(FATag (mkSpan (mkPtok 9 "@tag(" 9 8 36) (mkPtok 6 ")" 9 17 38)) (mkTagAttr (mkSpan (mkPtok 9 "@tag(" 9 8 36) (mkPtok 6 ")" 9 17 38)) (mkPtok 9 "@tag(" 9 8 36) (mkPtok 30 "42" 9 14 37) (mkPtok 6 ")" 9 17 38)))] (InerObjectField (mkSpan (mkPtok 36 "repeat" 9 18 39) (mkPtok 40 "," 35 0 102)) (Some (mkPtok 36 "repeat" 9 18 39)) (InerObjectDecl (mkSpan (mkPtok 42 "zchar" 10 0 40) (mkPtok 3 "}" 34 4 100)) (mkPtok 42 "zchar" 10 0 40) (mkPtok 2 "{" 10 6 41) [(MetaField (mkSpan (mkPtok 36 "repeat" 10 8 42) (mkPtok 40 "," 13 0 46)) (Some (mkPtok 36 "repeat" 10 8 42)) (mkMetaDecl (mkSpan (mkPtok 27 "i64" 11 4 43) (mkPtok 40 "," 13 0 46)) (TyBasic (mkSpan (mkPtok 27 "i64" 11 4 43) (mkPtok 27 "i64" 11 4 43)) (mkBasicType (mkSpan (mkPtok 27 "i64" 11 4 43) (mkPtok 27 "i64" 11 4 43)) (mkPtok 27 "i64" 11 4 43))) (mkPtok 42 "charz" 11 8 44) (Some (mkPtok 43 (string_of_bytes [96; 10; 96]%N) 11 14 45)) (mkPtok 40 "," 13 0 46))); (MatchField (mkSpan (mkPtok 38 "match" 13 2 47) (mkPtok 40 "," 23 0 70)) (mkMatchFieldDecl (mkSpan (mkPtok 38 "match" 13 2 47) (mkPtok 3 "}" 22 7 68)) (mkPtok 38 "match" 13 2 47) (mkPtok 42 "rootA" 13 8 48) (mkPtok 17 "as" 13 14 49) (mkPtok 42 "len" 14 0 50) (mkPtok 2 "{" 15 4 51) [(mkMatchPair (mkSpan (mkPtok 30 "65535" 16 0 53) (mkPtok 42 "rootA" 17 0 56)) (MKDigits (mkPtok 30 "65535" 16 0 53)) (mkPtok 39 ":" 16 6 54) (mkPtok 42 "rootA" 17 0 56) None); (mkMatchPair (mkSpan (mkPtok 31 """\n""" 17 6 57) (mkPtok 42 "Z9_" 18 0 60)) (MKString (mkPtok 31 """\n""" 17 6 57)) (mkPtok 39 ":" 17 11 58) (mkPtok 42 "Z9_" 18 0 60) None); (mkMatchPair (mkSpan (mkPtok 30 "1" 21 0 63) (mkPtok 40 "," 22 6 67)) (MKDigits (mkPtok 30 "1" 21 0 63)) (mkPtok 39 ":" 21 3 64) (mkPtok 42 "roots" 22 0 66) (Some (mkPtok 40 "," 22 6 67)))] (mkPtok 3 "}" 22 7 68)) (mkPtok 40 "," 23 0 70)); (MetaField (mkSpan (mkPtok 22 "uint32" 24 0 71) (mkPtok 40 "," 26 4 74)) None (mkMetaDecl (mkSpan (mkPtok 22 "uint32" 24 0 71) (mkPtok 40 "," 26 4 74)) (TyBasic (mkSpan (mkPtok 22 "uint32" 24 0 71) (mkPtok 22 "uint32" 24 0 71)) (mkBasicType (mkSpan (mkPtok 22 "uint32" 24 0 71) (mkPtok 22 "uint32" 24 0 71)) (mkPtok 22 "uint32" 24 0 71))) (mkPtok 42 "repeatCount" 25 4 72) (Some (mkPtok 43 (string_of_bytes [96; 116; 97; 98; 9; 104; 101; 114; 101; 96]%N) 25 15 73)) (mkPtok 40 "," 26 4 74))); (MatchField (mkSpan (mkPtok 38 "match" 26 6 75) (mkPtok 40 "," 33 4 99)) (mkMatchFieldDecl (mkSpan (mkPtok 38 "match" 26 6 75) (mkPtok 3 "}" 32 0 98)) (mkPtok 38 "match" 26 6 75) (mkPtok 42 "T" 26 12 76) (mkPtok 17 "as" 26 14 77) (mkPtok 42 "metadata" 27 0 78) (mkPtok 2 "{" 27 9 79) [(mkMatchPair (mkSpan (mkPtok 18 "[" 27 11 80) (mkPtok 42 "i8i8" 28 22 89)) (MKList (mkKeyList (mkSpan (mkPtok 18 "[" 27 11 80) (mkPtok 13 "]" 28 18 87)) (mkPtok 18 "[" 27 11 80) (mkPtok 30 "42" 27 13 81) [((mkPtok 40 "," 27 16 82), (mkPtok 30 "65535" 28 0 84)); ((mkPtok 40 "," 28 5 85), (mkPtok 30 "4294967296" 28 7 86))] (mkPtok 13 "]" 28 18 87))) (mkPtok 39 ":" 28 20 88) (mkPtok 42 "i8i8" 28 22 89) None); (mkMatchPair (mkSpan (mkPtok 30 "255" 28 27 90) (mkPtok 40 "," 30 0 93)) (MKDigits (mkPtok 30 "255" 28 27 90)) (mkPtok 39 ":" 29 4 91) (mkPtok 42 "u" 29 6 92) (Some (mkPtok 40 "," 30 0 93))); (mkMatchPair (mkSpan (mkPtok 30 "00" 30 2 94) (mkPtok 42 "packetx" 31 0 96)) (MKDigits (mkPtok 30 "00" 30 2 94)) (mkPtok 39 ":" 30 5 95) (mkPtok 42 "packetx" 31 0 96) None)] (mkPtok 3 "}" 32 0 98)) (mkPtok 40 "," 33 4 99))] (mkPtok 3 "}" 34 4 100)) (mkPtok 40 "," 35 0 102))); (mkFieldWithAttr (mkSpan (mkPtok 42 "MetaDataX" 35 2 103) (mkPtok 40 "," 36 0 107)) [] (CheckSumField (mkSpan (mkPtok 42 "MetaDataX" 35 2 103) (mkPtok 40 "," 36 0 107)) (mkChecksumFieldDecl (mkSpan (mkPtok 42 "MetaDataX" 35 2 103) (mkPtok 40 "," 36 0 107)) None (mkPtok 42 "MetaDataX" 35 2 103) (mkCalculatedFrom (mkSpan (mkPtok 5 "@calculatedFrom(" 35 12 104) (mkPtok 6 ")" 35 33 106)) (mkPtok 5 "@calculatedFrom(" 35 12 104) (mkPtok 31 """1""" 35 29 105) (mkPtok 6 ")" 35 33 106)) None (mkPtok 40 "," 36 0 107))))] (mkPtok 3 "}" 37 0 109))); (DOption (mkOptionDef (mkSpan (mkPtok 1 "options" 40 0 112) (mkPtok 3 "}" 45 6 128)) (mkPtok 1 "options" 40 0 112) (mkPtok 2 "{" 40 7 113) [(mkOptionDecl (mkSpan (mkPtok 42 "len" 40 9 114) (mkPtok 41 ";" 43 0 118)) (mkPtok 42 "len" 40 9 114) (mkPtok 4 "=" 40 13 115) (VDigits (mkSpan (mkPtok 30 "42" 42 4 117) (mkPtok 30 "42" 42 4 117)) (mkPtok 30 "42" 42 4 117)) (Some (mkPtok 41 ";" 43 0 118))); (mkOptionDecl (mkSpan (mkPtok 42 "leftPad" 43 2 119) (mkPtok 41 ";" 44 0 123)) (mkPtok 42 "leftPad" 43 2 119) (mkPtok 4 "=" 43 10 120) (VString (mkSpan (mkPtok 31 """a\\""" 43 12 121) (mkPtok 31 """a\\""" 43 12 121)) (mkPtok 31 """a\\""" 43 12 121)) (Some (mkPtok 41 ";" 44 0 123))); (mkOptionDecl (mkSpan (mkPtok 42 "BodyLength" 44 1 124) (mkPtok 25 "int16" 45 0 127)) (mkPtok 42 "BodyLength" 44 1 124) (mkPtok 4 "=" 44 11 125) (VType (mkSpan (mkPtok 25 "int16" 45 0 127) (mkPtok 25 "int16" 45 0 127)) (TyBasic (mkSpan (mkPtok 25 "int16" 45 0 127) (mkPtok 25 "int16" 45 0 127)) (mkBasicType (mkSpan (mkPtok 25 "int16" 45 0 127) (mkPtok 25 "int16" 45 0 127)) (mkPtok 25 "int16" 45 0 127)))) None)] (mkPtok 3 "}" 45 6 128)))])).
Eval vm_compute in ("<<<M2012>>>" ++ check (runes_of_ascii "f64{ i64_ = string ; trueish =
    '\x00'
    leftPad = ""a\\"" /// triple
; crc
    = 255; uint8x
=
""abc""
    ;}")).
Eval vm_compute in ("<<<M2044>>>" ++ check (runes_of_ascii "options{ i64_ = string ; trueish 
    '\x00'
    leftPad = ""a\\"" /// triple
; crc
    = 255; uint8x
=
""abc""
    ;}")).
Eval vm_compute in ("<<<M2076>>>" ++ check (runes_of_ascii "options{ i64_ = string ; trueish =
    '\x00'
    leftPad = ""a\\"" /// triple
; =
    crc 255; uint8x
=
""abc""
    ;}")).
Eval vm_compute in ("<<<M2108>>>" ++ check (runes_of_ascii "options{ i64_ = string ; trueish =
    '\x00'
    leftPad = ""a\\"" /// triple
; crc
    = 255; uint8x
=")).
Eval vm_compute in ("<<<M2140>>>" ++ check (runes_of_ascii "  
asx
{
/// triple
// @lengthOf(
u32 stringy
`" ++ [28040; 24687; 31867; 22411]%N ++ runes_of_ascii "` ,} MetaData
    A {string  _x, zchar Header `a\`
// @lengthOf(
// packet A { u8 x, }
, char[] MetaDataX
,zchar[ 1 ]
    matchKey
    , char[] //
u,	char[0123456789 ]
    matchKey
    `{ , }`, }
")).
Eval vm_compute in ("<<<M2172>>>" ++ check (runes_of_ascii "  packet
asx
{
/// triple
// @lengthOf(
u32 stringy
`" ++ [28040; 24687; 31867; 22411]%N ++ runes_of_ascii "` }, MetaData
    A {string  _x, zchar Header `a\`
// @lengthOf(
// packet A { u8 x, }
, char[] MetaDataX
,zchar[ 1 ]
    matchKey
    , char[] //
u,	char[0123456789 ]
    matchKey
    `{ , }`, }
")).
Eval vm_compute in ("<<<M2204>>>" ++ check (runes_of_ascii "  packet
asx
{
/// triple
// @lengthOf(
u32 stringy
`" ++ [28040; 24687; 31867; 22411]%N ++ runes_of_ascii "` ,} MetaData
    A {string")).
Eval vm_compute in ("<<<M2236>>>" ++ check (runes_of_ascii "  packet
asx
{
/// triple
// @lengthOf(
u32 stringy
`" ++ [28040; 24687; 31867; 22411]%N ++ runes_of_ascii "` ,} MetaData
    A {string  _x, zchar Header `a\`
// @lengthOf(
// packet A { u8 x, }
, char[] MetaDataX MetaDataX
,zchar[ 1 ]
    matchKey
    , char[] //
u,	char[0123456789 ]
    matchKey
    `{ , }`, }
")).
Eval vm_compute in ("<<<M2268>>>" ++ check (runes_of_ascii "  packet
asx
{
/// triple
// @lengthOf(
u32 stringy
`" ++ [28040; 24687; 31867; 22411]%N ++ runes_of_ascii "` ,} MetaData
    A {string  _x, zchar Header `a\`
// @lengthOf(
// packet A { u8 x, }
, char[] MetaDataX
,zchar[ 1 ]
    matchKey
    zchar[ char[] //
u,	char[0123456789 ]
    matchKey
    `{ , }`, }
")).
Eval vm_compute in ("<<<M2300>>>" ++ check (runes_of_ascii "  packet
asx
{
/// triple
// @lengthOf(
u32 stringy
`" ++ [28040; 24687; 31867; 22411]%N ++ runes_of_ascii "` ,} MetaData
    A {string  _x, zchar Header `a\`
// @lengthOf(
// packet A { u8 x, }
, char[] MetaDataX
,zchar[ 1 ]
    matchKey
    , char[] //
u,	char[0123456789 ]
    
    `{ , }`, }
")).
Eval vm_compute in ("<<<M2332>>>" ++ check (runes_of_ascii "  packet
asx
{
/// triple
// @lengthOf(
u32 stringy
`" ++ [28040; 24687; 31867; 22411]%N ++ runes_of_ascii "` ,} MetaData
    A {string  _x, zchar Header `a\`
// @lengthOf(
// packet A { u8 x, }
, char[] MetaDataX
,zchar[ 1 ]
    matchKey
    , char[] //
u,	' char[0123456789 ]
    matchKey
    `{ , }`, }
")).
Eval vm_compute in ("<<<M2364>>>" ++ check (runes_of_ascii "root
    packet
Packet
{ // trailing space 
false `tab	here` ,}")).
Eval vm_compute in ("<<<M2396>>>" ++ check (runes_of_ascii "root
    packet
Packet
{ // trailing space 
match" ++ [127]%N ++ runes_of_ascii "Key `tab	here` ,}")).
Eval vm_compute in ("<<<M2428>>>" ++ check (runes_of_ascii "options{ falsey // a // b
=
    '0' } } options { repeatCount =
true ; string_// a // b
=
// c
// " ++ [27880; 37322]%N ++ runes_of_ascii "
int64
// trailing space 
/// triple
; } // @lengthOf(")).
Eval vm_compute in ("<<<M2460>>>" ++ check (runes_of_ascii "options{ falsey // a // b
=
    '0' } options { repeatCount =
true true string_// a // b
=
// c
// " ++ [27880; 37322]%N ++ runes_of_ascii "
int64
// trailing space 
/// triple
; } // @lengthOf(")).
Eval vm_compute in ("<<<M2492>>>" ++ check (runes_of_ascii "options{ falsey // a // b
=
    '0' } options { repeatCount =
true ; string_// a // b
=
// c
// " ++ [27880; 37322]%N ++ runes_of_ascii "
int6|4
// trailing space 
/// triple
; } // @lengthOf(")).
Eval vm_compute in ("<<<M2524>>>" ++ check (runes_of_ascii "options{}root root packet
metadata {
@lengthOf(x ) float32
body ``, }
    MetaData
Z9_
    {
    string string_ , Logon x
,
uint32
    // packet A { u8 x, }
    Z9_,asx
_x
    `tab	here` , }
")).
Eval vm_compute in ("<<<M2556>>>" ++ check (runes_of_ascii "options{}root packet
metadata {
@lengthOf(x root float32
body ``, }
    MetaData
Z9_
    {
    string string_ , Logon x
,
uint32
    // packet A { u8 x, }
    Z9_,asx
_x
    `tab	here` , }
")).
Eval vm_compute in ("<<<M2588>>>" ++ check (runes_of_ascii "options{}root packet
metadata {
@lengthOf(x ) float32
body ``, }
    MetaData

    {
    string string_ , Logon x
,
uint32
    // packet A { u8 x, }
    Z9_,asx
_x
    `tab	here` , }
")).
Eval vm_compute in ("<<<M2620>>>" ++ check (runes_of_ascii "options{}root packet
metadata {
@lengthOf(x ) float32
body ``, }
    MetaData
Z9_
    {
    string string_ , Logon ,
x
uint32
    // packet A { u8 x, }
    Z9_,asx
_x
    `tab	here` , }
")).
Eval vm_compute in ("<<<M2652>>>" ++ check (runes_of_ascii "options{}root packet
metadata {
@lengthOf(x ) float32
body ``, }
    MetaData
Z9_
    {
    string string_ , Logon x
,
uint32
    // packet A { u8 x, }
    Z9_,asx")).
Eval vm_compute in ("<<<M2684>>>" ++ check (runes_of_ascii "options{}root packet
metadata {
@lengthOf(@x ) float32
body ``, }
    MetaData
Z9_
    {
    string string_ , Logon x
,
uint32
    // packet A { u8 x, }
    Z9_,asx
_x
    `tab	here` , }
")).
Eval vm_compute in ("<<<M2716>>>" ++ check (runes_of_ascii "options {
    falsey=
""a\\"" } ;")).
Eval vm_compute in ("<<<M2748>>>" ++ check (runes_of_ascii "true f32a
{
    //	t
    }root
    packet tag  {
}
")).
Eval vm_compute in ("<<<M2780>>>" ++ check (runes_of_ascii "MetaData f32a
{
    //	t
    }root
    packet tag  
}
")).
Eval vm_compute in ("<<<M2812>>>" ++ check (runes_of_ascii "
options options
    {msg_type =
    float32  }root
packet Z9_{ char /// triple
crc @lengthOf(
options1 ) //
,} MetaData a1{}
")).
Eval vm_compute in ("<<<M2844>>>" ++ check (runes_of_ascii "
options
    {msg_type =
    float32  }@lengthOf(
packet Z9_{ char /// triple
crc @lengthOf(
options1 ) //
,} MetaData a1{}
")).
Eval vm_compute in ("<<<M2876>>>" ++ check (runes_of_ascii "
options
    {msg_type =
    float32  }root
packet Z9_{ char /// triple
crc @lengthOf(
 ) //
,} MetaData a1{}
")).
Eval vm_compute in ("<<<M2908>>>" ++ check (runes_of_ascii "
options
    {msg_type =
    float32  }root
packet Z9_{ char /// triple
crc @lengthOf(
options1 ) //
,} MetaData a1}{
")).
Eval vm_compute in ("<<<M2940>>>" ++ check (runes_of_ascii "' ' crc{ // " ++ [128512]%N ++ runes_of_ascii " emoji
repeat string i8i8
`a\`, }
")).
Eval vm_compute in ("<<<M2972>>>" ++ check (runes_of_ascii "packet crc{ // " ++ [128512]%N ++ runes_of_ascii " emoji
repeat string i8i8
`a\` }
")).
Eval vm_compute in ("<<<M3004>>>" ++ check (runes_of_ascii "packet packet BodyLength {} MetaData zchar{ zchar[// @lengthOf(
42 ]
    pack , string_
A , char[]crc , _x trueish ,
// " ++ [27880; 37322]%N ++ runes_of_ascii "
// " ++ [128512]%N ++ runes_of_ascii " emoji
zchar[
    3 ]	T // trailing space 
, } packet body
{
    }
")).
Eval vm_compute in ("<<<M3036>>>" ++ check (runes_of_ascii "packet BodyLength {} MetaData zchar string zchar[// @lengthOf(
42 ]
    pack , string_
A , char[]crc , _x trueish ,
// " ++ [27880; 37322]%N ++ runes_of_ascii "
// " ++ [128512]%N ++ runes_of_ascii " emoji
zchar[
    3 ]	T // trailing space 
, } packet body
{
    }
")).
Eval vm_compute in ("<<<M3068>>>" ++ check (runes_of_ascii "packet BodyLength {} MetaData zchar{ zchar[// @lengthOf(
42 ]
    pack , string_
 , char[]crc , _x trueish ,
// " ++ [27880; 37322]%N ++ runes_of_ascii "
// " ++ [128512]%N ++ runes_of_ascii " emoji
zchar[
    3 ]	T // trailing space 
, } packet body
{
    }
")).
Eval vm_compute in ("<<<M3100>>>" ++ check (runes_of_ascii "packet BodyLength {} MetaData zchar{ zchar[// @lengthOf(
42 ]
    pack , string_
A , char[]crc , _x , trueish
// " ++ [27880; 37322]%N ++ runes_of_ascii "
// " ++ [128512]%N ++ runes_of_ascii " emoji
zchar[
    3 ]	T // trailing space 
, } packet body
{
    }
")).
Eval vm_compute in ("<<<M3132>>>" ++ check (runes_of_ascii "packet BodyLength {} MetaData zchar{ zchar[// @lengthOf(
42 ]
    pack , string_
A , char[]crc , _x trueish ,
// " ++ [27880; 37322]%N ++ runes_of_ascii "
// " ++ [128512]%N ++ runes_of_ascii " emoji
zchar[
    3 ]	T")).
Eval vm_compute in ("<<<M3164>>>" ++ check (runes_of_ascii "packet BodyLength {} MetaData zchar{ zchar[// @lengthOf(
42 ]
    # pack , string_
A , char[]crc , _x trueish ,
// " ++ [27880; 37322]%N ++ runes_of_ascii "
// " ++ [128512]%N ++ runes_of_ascii " emoji
zchar[
    3 ]	T // trailing space 
, } packet body
{
    }
")).
Eval vm_compute in ("<<<M3196>>>" ++ check (runes_of_ascii "packet
string_ {int @lengthOf( ) match packetx as f32a {
    1 :	calculatedFrom , }  ,
    } packet len
    //	t
    { @calculatedFrom( """ ++ [233]%N ++ runes_of_ascii "t" ++ [233]%N ++ runes_of_ascii """ ) body Header , char[] lengthOf  `two words` ,chars{repeat string_ matchKey ,
    } ,
    }
")).
Eval vm_compute in ("<<<M3228>>>" ++ check (runes_of_ascii "packet
string_ {@lengthOf( int ) match packetx as")).
Eval vm_compute in ("<<<M3260>>>" ++ check (runes_of_ascii "packet
string_ {@lengthOf( int ) match packetx as f32a {
    1 :	calculatedFrom , }  , ,
    } packet len
    //	t
    { @calculatedFrom( """ ++ [233]%N ++ runes_of_ascii "t" ++ [233]%N ++ runes_of_ascii """ ) body Header , char[] lengthOf  `two words` ,chars{repeat string_ matchKey ,
    } ,
    }
")).
Eval vm_compute in ("<<<M3292>>>" ++ check (runes_of_ascii "packet
string_ {@lengthOf( int ) match packetx as f32a {
    1 :	calculatedFrom , }  ,
    } packet len
    //	t
    { @calculatedFrom( = ) body Header , char[] lengthOf  `two words` ,chars{repeat string_ matchKey ,
    } ,
    }
")).
Eval vm_compute in ("<<<M3324>>>" ++ check (runes_of_ascii "packet
string_ {@lengthOf( int ) match packetx as f32a {
    1 :	calculatedFrom , }  ,
    } packet len
    //	t
    { @calculatedFrom( """ ++ [233]%N ++ runes_of_ascii "t" ++ [233]%N ++ runes_of_ascii """ ) body Header , char[] lengthOf   ,chars{repeat string_ matchKey ,
    } ,
    }
")).
Eval vm_compute in ("<<<M3356>>>" ++ check (runes_of_ascii "packet
string_ {@lengthOf( int ) match packetx as f32a {
    1 :	calculatedFrom , }  ,
    } packet len
    //	t
    { @calculatedFrom( """ ++ [233]%N ++ runes_of_ascii "t" ++ [233]%N ++ runes_of_ascii """ ) body Header , char[] lengthOf  `two words` ,chars{repeat string_ , matchKey
    } ,
    }
")).
Eval vm_compute in ("<<<M3388>>>" ++ check (runes_of_ascii "packet
string_ {@lengthOf( int ) match packetx as f32a {
    1 :	calculatedFrom , }  ,
    } packet len
    //	t
    { @calculatedFrom( """ ++ [233]%N ++ runes_of_ascii "t" ++ [233]%N ++ runes_of_ascii "~"" ) body Header , char[] lengthOf  `two words` ,chars{repeat string_ matchKey ,
    } ,
    }
")).
Eval vm_compute in ("<<<M3420>>>" ++ check (runes_of_ascii "/// triple
root
packet // packet A { u8 x, }
chars { @lengthOf(charz )
stringy,  @tag(  0 ) // a // b
asx
    As
,
// trailing space 
// trailing space 
f64 {
repeat i16 charz , } ,	int16  crc ,}
")).
Eval vm_compute in ("<<<M3452>>>" ++ check (runes_of_ascii "/// triple
root
packet // packet A { u8 x, }
chars { @lengthOf(charz )
stringy,  @tag(  0 ) // a // b
asx
    As
,
// trailing space 
// trailing space 
x_y_z {
repeat i16 charz , } ,	int16  crc")).
Eval vm_compute in ("<<<M3484>>>" ++ check (runes_of_ascii "/// t" ++ [0]%N ++ runes_of_ascii "riple
root
packet // packet A { u8 x, }
chars { @lengthOf(charz )
stringy,  @tag(  0 ) // a // b
asx
    As
,
// trailing space 
// trailing space 
x_y_z {
repeat i16 charz , } ,	int16  crc ,}
")).
Eval vm_compute in ("<<<M3516>>>" ++ check (runes_of_ascii "as")).
Eval vm_compute in ("<<<M3548>>>" ++ check (runes_of_ascii "@leftPad(")).
Eval vm_compute in ("<<<M3580>>>" ++ check (runes_of_ascii """ab""")).
Eval vm_compute in ("<<<M3612>>>" ++ check (runes_of_ascii "a
b")).
Eval vm_compute in ("<<<M3644>>>" ++ check (runes_of_ascii "packet A { u8 x `d` `e`, }")).
Eval vm_compute in ("<<<M3676>>>" ++ check (runes_of_ascii "packet A { match k as n { [1 2] : B }, }")).
Eval vm_compute in ("<<<M3708>>>" ++ check (runes_of_ascii "root MetaData M { }")).
Eval vm_compute in ("<<<M3740>>>" ++ check (runes_of_ascii "options A { }")).
Eval vm_compute in ("<<<M3772>>>" ++ check ([65533]%N ++ runes_of_ascii "
6}")).
Eval vm_compute in ("<<<M3804>>>" ++ check (runes_of_ascii "S" ++ [65533; 28]%N ++ runes_of_ascii "H" ++ [65533]%N ++ runes_of_ascii "~" ++ [65533; 65533; 1215]%N ++ runes_of_ascii "A" ++ [65533]%N ++ runes_of_ascii "g" ++ [65533]%N ++ runes_of_ascii "n" ++ [65533]%N ++ runes_of_ascii "a" ++ [65533; 17]%N ++ runes_of_ascii "4" ++ [65533; 65533]%N)).
Eval vm_compute in ("<<<M3836>>>" ++ check (runes_of_ascii "W")).
Eval vm_compute in ("<<<M3868>>>" ++ check (runes_of_ascii "l" ++ [15; 65533; 65533]%N ++ runes_of_ascii "XH" ++ [65533]%N ++ runes_of_ascii "	>" ++ [65533]%N ++ runes_of_ascii "WG")).
Eval vm_compute in ("<<<M3900>>>" ++ check ([65533; 65533; 65533]%N ++ runes_of_ascii "CM" ++ [65533]%N ++ runes_of_ascii "e" ++ [65533; 1780; 65533; 12]%N ++ runes_of_ascii "S-	_b/" ++ [26]%N ++ runes_of_ascii "~" ++ [65533; 65533]%N)).
Eval vm_compute in ("<<<M3932>>>" ++ check ([65533]%N ++ runes_of_ascii "x" ++ [65533]%N ++ runes_of_ascii "t}{" ++ [65533; 65533]%N ++ runes_of_ascii "O" ++ [65533]%N ++ runes_of_ascii "?N" ++ [65533; 29; 65533; 65533; 6; 65533; 65533; 65533; 65533]%N ++ runes_of_ascii "|" ++ [65533]%N ++ runes_of_ascii "]" ++ [65533; 65533; 65533; 27; 65533; 982; 65533]%N ++ runes_of_ascii "
")).
Eval vm_compute in ("<<<M3964>>>" ++ check ([65533]%N ++ runes_of_ascii "b" ++ [16]%N ++ runes_of_ascii "D)" ++ [65533; 65533]%N ++ runes_of_ascii "?" ++ [65533]%N ++ runes_of_ascii "A" ++ [65533]%N ++ runes_of_ascii "E~S" ++ [65533]%N)).
Eval vm_compute in ("<<<M3996>>>" ++ check ([65533; 65533; 27279]%N ++ runes_of_ascii "D" ++ [31]%N ++ runes_of_ascii "fl{" ++ [65533; 65533; 65533; 65533]%N ++ runes_of_ascii "dj" ++ [65533]%N ++ runes_of_ascii "]v" ++ [240]%N ++ runes_of_ascii "K" ++ [65533]%N ++ runes_of_ascii "|4P")).
